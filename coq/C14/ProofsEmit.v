(* C14 - the C literal printer against C's rules for integer constants *)
From C14 Require Import Model ProofsInt.
Local Open Scope Z_scope.

Ltac noif t := lazymatch t with context [if _ then _ else _] => fail | _ => idtac end.
Ltac zb1 :=
  match goal with
  | |- context [?a <? ?b] => noif a; noif b; destruct (Z.ltb_spec a b)
  | |- context [?a <=? ?b] => noif a; noif b; destruct (Z.leb_spec a b)
  | |- context [?a =? ?b] => noif a; noif b; destruct (Z.eqb_spec a b)
  end.
Ltac zb := repeat (zb1; cbn [andb orb negb]).

Lemma ctype_consts :
  ct_max c_int = 2147483647 /\ ct_max c_uint = 4294967295 /\ ct_max c_long = 9223372036854775807 /\
  ct_max c_ulong = 18446744073709551615 /\ ct_max c_llong = 9223372036854775807 /\ ct_max c_ullong = 18446744073709551615 /\
  ct_min c_int = -2147483648 /\ ct_min c_long = -9223372036854775808 /\ ct_min c_llong = -9223372036854775808 /\
  it_min cint_T = -2147483648 /\ it_max cint_T = 2147483647 /\
  it_min clonglong_T = -9223372036854775808 /\ it_max clonglong_T = 9223372036854775807 /\
  it_min culonglong_T = 0 /\ it_max culonglong_T = 18446744073709551615.
Proof. vm_compute. repeat split; reflexivity. Qed.

Lemma ct_min_max_signed w : ct_min (w, true) = - ct_max (w, true) - 1.
Proof. unfold ct_min, ct_max. cbn [fst snd]. lia. Qed.

(* the type given to an unsuffixed-U constant whose magnitude fits long long: always a signed one *)
Lemma const_type_signed hex l mag :
  l = 0 \/ l = 1 \/ l = 2 -> 0 <= mag -> (l = 0 -> mag <= 2147483647) -> mag <= 9223372036854775807 ->
  exists w, c_const_type hex false l mag = Some (w, true) /\ mag <= ct_max (w, true).
Proof.
  intros Hl H0 Hi Hm.
  destruct ctype_consts as (M1 & M2 & M3 & M4 & M5 & M6 & _).
  unfold c_const_type.
  destruct Hl as [-> | [-> | ->]]; destruct hex; cbn [c_candidates find]; rewrite ?M1, ?M2, ?M3, ?M4, ?M5, ?M6.
  - specialize (Hi eq_refl). destruct (Z.leb_spec mag 2147483647); [|lia]. exists C_INT_BITS. split; [reflexivity|]. fold c_int. lia.
  - specialize (Hi eq_refl). destruct (Z.leb_spec mag 2147483647); [|lia]. exists C_INT_BITS. split; [reflexivity|]. fold c_int. lia.
  - destruct (Z.leb_spec mag 9223372036854775807); [|lia]. exists C_LONG_BITS. split; [reflexivity|]. fold c_long. lia.
  - destruct (Z.leb_spec mag 9223372036854775807); [|lia]. exists C_LONG_BITS. split; [reflexivity|]. fold c_long. lia.
  - destruct (Z.leb_spec mag 9223372036854775807); [|lia]. exists C_LLONG_BITS. split; [reflexivity|]. fold c_llong. lia.
  - destruct (Z.leb_spec mag 9223372036854775807); [|lia]. exists C_LLONG_BITS. split; [reflexivity|]. fold c_llong. lia.
Qed.

Lemma const_type_unsigned hex l mag :
  l = 0 \/ l = 1 \/ l = 2 -> 0 <= mag -> (l = 0 -> mag <= 4294967295) -> mag <= 18446744073709551615 ->
  exists w, c_const_type hex true l mag = Some (w, false) /\ mag <= ct_max (w, false).
Proof.
  intros Hl H0 Hi Hm.
  destruct ctype_consts as (M1 & M2 & M3 & M4 & M5 & M6 & _).
  unfold c_const_type.
  destruct Hl as [-> | [-> | ->]]; cbn [c_candidates find]; rewrite ?M1, ?M2, ?M3, ?M4, ?M5, ?M6.
  - specialize (Hi eq_refl). destruct (Z.leb_spec mag 4294967295); [|lia]. exists C_INT_BITS. split; [reflexivity|]. fold c_uint. lia.
  - destruct (Z.leb_spec mag 18446744073709551615); [|lia]. exists C_LONG_BITS. split; [reflexivity|]. fold c_ulong. lia.
  - destruct (Z.leb_spec mag 18446744073709551615); [|lia]. exists C_LLONG_BITS. split; [reflexivity|]. fold c_ullong. lia.
Qed.

(* the suffix chosen by the emitter *)
Definition suffix_l (T : itype) (num : Z) : Z :=
  if negb (it_inrange cint_T num) || (num =? it_min cint_T) then
    (if it_long T =? 1 then 1
     else if (it_long T =? 2) || (it_signed T && it_inrange clonglong_T num)
             || (negb (it_signed T) && it_inrange culonglong_T num) then 2
     else 0)
  else 0.

Lemma suffix_l_signed T num : it_signed T = true -> -9223372036854775808 <= num <= 9223372036854775807 ->
  (suffix_l T num = 0 \/ suffix_l T num = 1 \/ suffix_l T num = 2) /\
  (suffix_l T num = 0 -> -2147483648 < num <= 2147483647).
Proof.
  intros Es Hr. destruct ctype_consts as (_ & _ & _ & _ & _ & _ & _ & _ & _ & I1 & I2 & I3 & I4 & I5 & I6).
  unfold suffix_l, it_inrange. rewrite Es, I1, I2, I3, I4. cbn [andb negb orb].
  destruct (Z.leb_spec (-2147483648) num); destruct (Z.leb_spec num 2147483647); cbn [andb negb orb];
    destruct (Z.eqb_spec num (-2147483648)); cbn [orb];
    try (split; [auto|intros; lia]);
    destruct (it_long T =? 1); try (split; [auto|intros; lia]);
    destruct (Z.leb_spec (-9223372036854775808) num); destruct (Z.leb_spec num 9223372036854775807); try lia;
    rewrite ?orb_true_r; cbn [andb orb]; split; auto; intros; lia.
Qed.

Lemma suffix_l_unsigned T num : it_signed T = false -> 0 <= num <= 18446744073709551615 ->
  (suffix_l T num = 0 \/ suffix_l T num = 1 \/ suffix_l T num = 2) /\
  (suffix_l T num = 0 -> num <= 2147483647).
Proof.
  intros Es Hr. destruct ctype_consts as (_ & _ & _ & _ & _ & _ & _ & _ & _ & I1 & I2 & I3 & I4 & I5 & I6).
  unfold suffix_l, it_inrange. rewrite Es, I1, I2, I5, I6. cbn [andb negb orb].
  destruct (Z.leb_spec (-2147483648) num); [|lia]. destruct (Z.leb_spec num 2147483647); cbn [andb negb orb];
    destruct (Z.eqb_spec num (-2147483648)); try lia; cbn [orb];
    try (split; [auto|intros; lia]);
    destruct (it_long T =? 1); try (split; [auto|intros; lia]);
    destruct (Z.leb_spec 0 num); destruct (Z.leb_spec num 18446744073709551615); try lia;
    rewrite ?orb_true_r; cbn [andb orb]; split; auto; intros; lia.
Qed.

(* C semantics of the emitted token, for a value that already lies where the emitter expects it *)
Lemma emit_from_eval T num0 base :
  (it_signed T = true -> -9223372036854775808 <= num0 <= 9223372036854775807 /\
                         -9223372036854775808 <= it_min T <= -128 /\ (num0 = -9223372036854775808 -> num0 = it_min T)) ->
  (it_signed T = false -> 0 <= num0 <= 18446744073709551615) ->
  exists w, c_eval (nl_emit_from T num0 base) = Some ((w, it_signed T), num0).
Proof.
  intros Hs Hu.
  unfold nl_emit_from. fold (suffix_l T (if it_signed T && (num0 =? it_min T) then num0 + 1 else num0)).
  unfold c_eval. cbn [ct_paren ct_neg ct_hex ct_mag ct_u ct_l].
  set (hexflag := negb _).
  destruct (it_signed T) eqn:Es; cbn [andb negb].
  - specialize (Hs eq_refl). destruct Hs as (Hr & Hm & Hmin). clear Hu.
    set (m := it_min T) in *.
    destruct (Z.eqb_spec num0 m) as [Em|Em].
    + (* the minimum of the type: "(min+1 - 1)" *)
      set (num := num0 + 1). assert (Hnum : -9223372036854775807 <= num <= -127) by (subst num; lia).
      destruct (suffix_l_signed T num Es ltac:(lia)) as [Hl Hl0].
      destruct (const_type_signed hexflag (suffix_l T num) (Z.abs num) Hl ltac:(lia) ltac:(lia) ltac:(lia)) as (w & -> & Hw).
      exists w. cbn [snd fst]. destruct (Z.ltb_spec num 0); [|lia].
      rewrite ct_min_max_signed.
      destruct (Z.leb_spec (- ct_max (w, true) - 1) (- Z.abs num - 1)); [|lia].
      f_equal. f_equal. subst num. lia.
    + set (num := num0). assert (Hnum : -9223372036854775807 <= num <= 9223372036854775807).
      { subst num. split; [|lia]. destruct (Z.eq_dec num0 (-9223372036854775808)) as [E|E]; [|lia].
        specialize (Hmin E). contradiction. }
      destruct (suffix_l_signed T num Es ltac:(lia)) as [Hl Hl0].
      destruct (const_type_signed hexflag (suffix_l T num) (Z.abs num) Hl ltac:(lia) ltac:(lia) ltac:(lia)) as (w & -> & Hw).
      exists w. cbn [snd fst]. f_equal. f_equal. subst num. destruct (Z.ltb_spec num0 0); lia.
  - specialize (Hu eq_refl). clear Hs.
    destruct (suffix_l_unsigned T num0 Es Hu) as [Hl Hl0].
    destruct (const_type_unsigned hexflag (suffix_l T num0) (Z.abs num0) Hl ltac:(lia) ltac:(lia) ltac:(lia)) as (w & -> & Hw).
    exists w. cbn [snd fst]. destruct (Z.ltb_spec num0 0); [lia|]. f_equal. f_equal. lia.
Qed.

(* ---- what reaches the emitter: the value forced into the type ---- *)
Lemma wrap_T_eqm T x y : 0 < it_bits T -> x mod 2 ^ it_bits T = y mod 2 ^ it_bits T -> wrap_T T x = wrap_T T y.
Proof.
  intros Hb H. unfold wrap_T. destruct (it_signed T); [|exact H].
  f_equal. destruct (pow2_split _ Hb) as [Hp Hh].
  rewrite <- (Z.add_mod_idemp_l x), <- (Z.add_mod_idemp_l y) by lia. rewrite H. reflexivity.
Qed.

Definition width_ok (T : itype) : bool :=
  ((it_bits T =? 8) || (it_bits T =? 16) || (it_bits T =? 32) || (it_bits T =? 64) || (it_bits T =? 128)).

Lemma all_types_ok : forallb width_ok all_int_types = true.
Proof. vm_compute. reflexivity. Qed.

Lemma type_width T : In T all_int_types -> it_bits T <= 64 ->
  it_bits T = 8 \/ it_bits T = 16 \/ it_bits T = 32 \/ it_bits T = 64.
Proof.
  intros Hin Hb. pose proof all_types_ok as H. rewrite forallb_forall in H. specialize (H T Hin).
  unfold width_ok in H. rewrite !orb_true_iff, !Z.eqb_eq in H. lia.
Qed.

Lemma prewrap_facts T v : 0 < it_bits T -> - 2 ^ (BN_BITS - 1) <= v < 2 ^ (BN_BITS - 1) -> it_bits T <= 128 ->
  let n := nl_prewrap T v in
  wrap_T T n = wrap_T T v /\ it_inrange T n = true.
Proof.
  intros Hb Hv H128. cbn zeta.
  assert (HP : 0 < 2 ^ it_bits T) by (apply Z.pow_pos_nonneg; lia).
  assert (HPle : 2 ^ it_bits T <= 2 ^ 128) by (apply Z.pow_le_mono_r; lia).
  change (2 ^ 128) with 340282366920938463463374607431768211456 in HPle.
  destruct (pow2_split _ Hb) as [Hp Hh].
  unfold nl_prewrap, nl_wrap_value.
  destruct (it_inrange T v) eqn:Ein.
  - assert (E : (if negb (it_signed T) && (v <? 0) || negb true then v else v) = v) by (destruct (_ || _); reflexivity).
    rewrite E. split; [reflexivity|exact Ein].
  - rewrite orb_true_r. unfold bwrap.
    pose proof (Z.mod_pos_bound v (2 ^ it_bits T) HP) as Hm.
    destruct (it_signed T) eqn:Es; cbn [andb].
    + destruct (Z.ltb_spec (it_max T) (v mod 2 ^ it_bits T)) as [Hgt|Hle].
      * assert (E2 : bn_wrap (v mod 2 ^ it_bits T - 2 ^ it_bits T) = v mod 2 ^ it_bits T - 2 ^ it_bits T).
        { apply bn_wrap_id. bn_consts. lia. }
        rewrite E2. split.
        -- apply wrap_T_eqm; [exact Hb|].
           replace (v mod 2 ^ it_bits T - 2 ^ it_bits T) with (v mod 2 ^ it_bits T + (-1) * 2 ^ it_bits T) by lia.
           rewrite Z.mod_add by lia. apply Z.mod_mod. lia.
        -- unfold it_inrange, it_min, it_max in *. rewrite Es in *. lia.
      * split; [apply wrap_T_eqm; [exact Hb|apply Z.mod_mod; lia]|].
        unfold it_inrange, it_min, it_max in *. rewrite Es in *. lia.
    + split; [apply wrap_T_eqm; [exact Hb|apply Z.mod_mod; lia]|].
      unfold it_inrange, it_min, it_max. rewrite Es. lia.
Qed.

(* ---- the property: the emitted constant, typed by C, converted to the target type ---- *)
(* after 59c538f: for every integral type up to 64 bits, every value the compiler's big numbers can hold and
   every base, the emitted token has a C type of the signedness of T and denotes wrap_T(v) exactly *)
Theorem literal_roundtrip T v base : In T all_int_types -> it_bits T <= 64 ->
  - 2 ^ (BN_BITS - 1) <= v < 2 ^ (BN_BITS - 1) ->
  exists w val, c_eval (nl_emit T v base) = Some ((w, it_signed T), val) /\ val = wrap_T T v /\ c_convert T val = wrap_T T v.
Proof.
  intros Hin Hb Hv.
  pose proof (type_width T Hin Hb) as Hw.
  assert (Hb0 : 0 < it_bits T) by lia.
  destruct (prewrap_facts T v Hb0 Hv ltac:(lia)) as (Hcong & Hr). cbn zeta in *.
  set (n := nl_prewrap T v) in *.
  assert (Hn : wrap_T T v = n) by (rewrite <- Hcong; apply wrap_T_id; assumption).
  destruct (emit_from_eval T n base) as [w E].
  - intros Es. unfold it_inrange, it_min, it_max in *. rewrite Es in *.
    destruct Hw as [Ew|[Ew|[Ew|Ew]]]; rewrite Ew in *; cbn in *; lia.
  - intros Es. unfold it_inrange, it_min, it_max in *. rewrite Es in *.
    destruct Hw as [Ew|[Ew|[Ew|Ew]]]; rewrite Ew in *; cbn in *; lia.
  - exists w, n. split; [exact E|]. split; [symmetry; exact Hn|]. unfold c_convert. exact Hcong.
Qed.
