(* C14 - the C literal printer against C's rules for integer constants *)
From C14 Require Import Model ProofsInt.
Local Open Scope Z_scope.

Ltac noif t := lazymatch t with context [if _ then _ else _] => fail | _ => idtac end.
Ltac zb1 :=
  match goal with
  | |- context [?a <? ?b] => noif a; noif b; destruct (Z.ltb_spec a b)
  | |- context [?a <=? ?b] => noif a; noif b; destruct (Z.leb_spec a b)
  | |- context [?a =? ?b] => noif a; noif b; destruct (Z.eqb_spec a b)
  end.
Ltac zb := repeat (zb1; cbn [andb orb negb]).

Lemma ctype_consts :
  ct_max c_int = 2147483647 /\ ct_max c_uint = 4294967295 /\ ct_max c_long = 9223372036854775807 /\
  ct_max c_ulong = 18446744073709551615 /\ ct_max c_llong = 9223372036854775807 /\ ct_max c_ullong = 18446744073709551615 /\
  ct_min c_int = -2147483648 /\ ct_min c_long = -9223372036854775808 /\ ct_min c_llong = -9223372036854775808 /\
  it_min cint_T = -2147483648 /\ it_max cint_T = 2147483647 /\
  it_min clonglong_T = -9223372036854775808 /\ it_max clonglong_T = 9223372036854775807 /\
  it_min culonglong_T = 0 /\ it_max culonglong_T = 18446744073709551615.
Proof. vm_compute. repeat split; reflexivity. Qed.

(* C semantics of the emitted token, for a value that already lies where the emitter expects it *)
Lemma emit_from_eval T num0 base :
  it_long T = 0 \/ it_long T = 1 \/ it_long T = 2 ->
  (it_signed T = true -> -9223372036854775808 <= num0 <= 9223372036854775807 /\
                         -9223372036854775808 <= it_min T <= -128 /\ (num0 = -9223372036854775808 -> num0 = it_min T)) ->
  (it_signed T = false -> 0 <= num0 <= 18446744073709551615) ->
  exists w, c_eval (nl_emit_from T num0 base) = Some ((w, it_signed T), num0).
Proof.
  intros Hl Hs Hu.
  destruct ctype_consts as (M1 & M2 & M3 & M4 & M5 & M6 & N1 & N2 & N3 & I1 & I2 & I3 & I4 & I5 & I6).
  unfold nl_emit_from, c_eval, c_const_type, it_inrange. cbn [ct_paren ct_neg ct_hex ct_mag ct_u ct_l].
  rewrite I1, I2, I3, I4, I5, I6.
  set (m := it_min T) in *. set (M := it_max T) in *. clearbody m M.
  destruct (it_signed T) eqn:Es.
  - (* signed target *)
    specialize (Hs eq_refl). destruct Hs as (Hr & Hm & Hmin). clear Hu.
    cbn [andb orb negb].
    destruct (Z.eqb_spec num0 m) as [Em|Em].
    + (* the minimum: "(min+1 - 1)" *)
      assert (Hneg : (num0 + 1 <? 0) = true) by (apply Z.ltb_lt; lia). Show.
      admit.
    + admit.
  - admit.
Abort.
