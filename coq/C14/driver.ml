(* C14 model driver: one case per line, one result line per case (extracted model of the compiler's
   integer literal pipeline and of the run-time int2str/str2int).
     read <base> <digits>                 -> value (decimal)
     type <value> <base> <sfx|-> <des|->  -> "int <bits> <signed> <long>" | "float" | "reject"   (sfx/des: type ids)
     emit <tid> <value> <base>            -> emitted C text
     ceval <tid> <value> <base>           -> "<bits> <signed> <value> <converted>" | "notype"  (C semantics of the model's text)
     int2str <x> / uint2str <x>           -> text
     str2int <base> <hex bytes>           -> value | fail *)
open Model
open Zutil

let ten = z_of_int 10
let z_of_dec (s : string) : z =
  let neg = String.length s > 0 && s.[0] = '-' in
  let body = if neg then String.sub s 1 (String.length s - 1) else s in
  let v = ref Z0 in
  String.iter (fun c -> v := Z.add (Z.mul !v ten) (z_of_int (Char.code c - 48))) body;
  if neg then Z.opp !v else !v

let rec dec_of_pos_z (x : z) : string =
  let q = Z.div x ten and r = Z.modulo x ten in
  let d = string_of_int (int_of_z r) in
  if q = Z0 then d else dec_of_pos_z q ^ d
let dec_of_z (x : z) : string =
  match x with Z0 -> "0" | Zpos _ -> dec_of_pos_z x | Zneg _ -> "-" ^ dec_of_pos_z (Z.opp x)

let ty_of (s : string) : itype option =
  if s = "-" then None else lookup_type (nat_of_int (int_of_string s))
let ty_exn s = match ty_of s with Some t -> t | None -> failwith "unknown type id"
let b2s b = if b then "true" else "false"

let render (c : ctext) : string =
  (if c.ct_paren then "(" else "") ^ (if c.ct_neg then "-" else "")
  ^ (if c.ct_hex then "0x" ^ hex_of_z c.ct_mag else dec_of_z c.ct_mag)
  ^ (if c.ct_u then "U" else "")
  ^ (match int_of_z c.ct_l with 0 -> "" | 1 -> "L" | _ -> "LL")
  ^ (if c.ct_paren then "-1)" else "")

let str_of_codes (l : z list) = String.concat "" (List.map (fun c -> String.make 1 (Char.chr (int_of_z c land 255))) l)

let () =
  iter_lines (fun line ->
    match split_ws line with
    | [] -> ()
    | op :: a ->
      let arg i = List.nth a i in
      let out =
        try
          (match op with
           | "read" ->
             let ds = ref [] in
             String.iter (fun c -> match digit_of (z_of_int (Char.code c)) with Some d -> ds := d :: !ds | None -> failwith "bad digit") (arg 1);
             if arg 0 = "10" then (match nl_read_dec (List.rev !ds) with Some v -> dec_of_z v | None -> "float")
             else dec_of_z (nl_read_int (z_of_dec (arg 0)) (List.rev !ds))
           | "type" ->
             (match nl_literal_type (z_of_dec (arg 0)) (z_of_dec (arg 1)) (ty_of (arg 2)) (ty_of (arg 3)) with
              | LT_int t -> Printf.sprintf "int %s %s %s" (dec_of_z t.it_bits) (b2s t.it_signed) (dec_of_z t.it_long)
              | LT_float -> "float"
              | LT_reject -> "reject")
           | "emit" -> render (nl_emit (ty_exn (arg 0)) (z_of_dec (arg 1)) (z_of_dec (arg 2)))
           | "ceval" ->
             let t = ty_exn (arg 0) in
             (match c_eval (nl_emit t (z_of_dec (arg 1)) (z_of_dec (arg 2))) with
              | None -> "notype"
              | Some ((bits, sg), v) -> Printf.sprintf "%s %s %s %s" (dec_of_z bits) (b2s sg) (dec_of_z v) (dec_of_z (c_convert t v)))
           | "int2str" -> (match nl_int2str (z_of_dec (arg 0)) with Some l -> str_of_codes l | None -> "!overrun")
           | "uint2str" -> (match nl_uint2str (z_of_dec (arg 0)) with Some l -> str_of_codes l | None -> "!overrun")
           | "str2int" -> (match nl_str2int (z_of_dec (arg 0)) (zlist_of_hexbytes (if arg 1 = "e" then "" else arg 1)) with Some v -> dec_of_z v | None -> "fail")
           | _ -> "?")
        with e -> "!exn " ^ Printexc.to_string e
      in
      print_string out; print_newline ())
