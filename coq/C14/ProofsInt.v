(* C14 - proofs, integer side *)
From C14 Require Import Model.
Local Open Scope Z_scope.

(* replace the two powers of two of the big-number width by their numerals (lia then decides) *)
Ltac bn_consts :=
  let a := eval vm_compute in (2 ^ BN_BITS) in
  let b := eval vm_compute in (2 ^ (BN_BITS - 1)) in
  change (2 ^ BN_BITS) with a in *; change (2 ^ (BN_BITS - 1)) with b in *.

Lemma bn_pow_pos : 0 < 2 ^ BN_BITS.
Proof. vm_compute. reflexivity. Qed.

Lemma bn_wrap_mod x : bn_wrap x mod 2 ^ BN_BITS = x mod 2 ^ BN_BITS.
Proof.
  unfold bn_wrap. bn_consts. lia.
Qed.

Lemma bn_wrap_eqm x y : x mod 2 ^ BN_BITS = y mod 2 ^ BN_BITS -> bn_wrap x = bn_wrap y.
Proof.
  intros H. unfold bn_wrap. bn_consts. lia.
Qed.

Lemma bn_wrap_id x : - 2 ^ (BN_BITS - 1) <= x < 2 ^ (BN_BITS - 1) -> bn_wrap x = x.
Proof.
  intros H. unfold bn_wrap. bn_consts. lia.
Qed.

Lemma bn_wrap_idem x : bn_wrap (bn_wrap x) = bn_wrap x.
Proof. apply bn_wrap_eqm. apply bn_wrap_mod. Qed.

(* the reader computes the mathematical value of the digit string modulo 2^BN_BITS *)
Lemma read_digits_wrap base ds : forall acc a,
  bn_wrap a = acc ->
  nl_read_digits base acc ds = bn_wrap (digits_value base a ds).
Proof.
  induction ds as [|d r IH]; intros acc a Ha; cbn [nl_read_digits digits_value].
  - symmetry. exact Ha.
  - apply (IH _ (a * base + d)). subst acc. apply bn_wrap_eqm.
    pose proof bn_pow_pos as Hp. symmetry.
    rewrite <- (Z.add_mod_idemp_l (bn_wrap (bn_wrap a * base)) d) by lia.
    rewrite bn_wrap_mod.
    rewrite <- (Z.mul_mod_idemp_l (bn_wrap a) base) by lia.
    rewrite bn_wrap_mod.
    rewrite Z.mul_mod_idemp_l by lia. rewrite Z.add_mod_idemp_l by lia. reflexivity.
Qed.

Lemma read_int_wrap base ds : nl_read_int base ds = bn_wrap (digits_value base 0 ds).
Proof. unfold nl_read_int. apply read_digits_wrap. vm_compute. reflexivity. Qed.

(* ... hence exact whenever the value fits the compiler's big numbers *)
Lemma read_int_exact base ds :
  - 2 ^ (BN_BITS - 1) <= digits_value base 0 ds < 2 ^ (BN_BITS - 1) ->
  nl_read_int base ds = digits_value base 0 ds.
Proof. intros H. rewrite read_int_wrap. apply bn_wrap_id. exact H. Qed.

(* decimal literals (after 96cb9da): an integer is produced only when it is the exact value; everything the
   big numbers cannot hold is handed to the float reader *)
Lemma read_dec_exact ds v : nl_read_dec ds = Some v -> v = digits_value 10 0 ds.
Proof.
  unfold nl_read_dec. destruct (Z.eqb_spec (nl_read_int 10 ds) (digits_value 10 0 ds)); [|discriminate].
  intros [= <-]. assumption.
Qed.

Lemma read_dec_complete ds :
  - 2 ^ (BN_BITS - 1) <= digits_value 10 0 ds < 2 ^ (BN_BITS - 1) -> nl_read_dec ds = Some (digits_value 10 0 ds).
Proof.
  intros H. unfold nl_read_dec. rewrite read_int_exact by exact H. rewrite Z.eqb_refl. reflexivity.
Qed.

Lemma read_dec_float ds : 2 ^ (BN_BITS - 1) <= digits_value 10 0 ds -> nl_read_dec ds = None.
Proof.
  intros H. unfold nl_read_dec. rewrite read_int_wrap.
  destruct (Z.eqb_spec (bn_wrap (digits_value 10 0 ds)) (digits_value 10 0 ds)) as [E|]; [|reflexivity].
  exfalso. revert E H. unfold bn_wrap. bn_consts. lia.
Qed.

(* 2^160 in decimal is now read as a float, not as 0 *)
Definition two160_digits : list Z :=
  [1;4;6;1;5;0;1;6;3;7;3;3;0;9;0;2;9;1;8;2;0;3;6;8;4;8;3;2;7;1;6;2;8;3;0;1;9;6;5;5;9;3;2;5;4;2;9;7;6].
Example read_dec_two160 : nl_read_dec two160_digits = None.
Proof. vm_compute. reflexivity. Qed.

(* hexadecimal / binary integer spellings: modulo 2^64 the reader agrees with Lua's reader (which wraps
   these spellings modulo 2^64) for every digit string, however long *)
Lemma read_int_eq_lua_mod64 base ds : wrap64 (nl_read_int base ds) = wrap64 (digits_value base 0 ds).
Proof.
  rewrite read_int_wrap. apply wrap64_eqm. unfold bn_wrap, two64. bn_consts. lia.
Qed.

(* two's complement facts used by the typing/emission theorems *)
Lemma pow2_split b : 0 < b -> 2 ^ b = 2 * 2 ^ (b - 1) /\ 0 < 2 ^ (b - 1).
Proof.
  intros Hb. split.
  - replace b with (1 + (b - 1)) at 1 by lia. rewrite Z.pow_add_r by lia. reflexivity.
  - apply Z.pow_pos_nonneg; lia.
Qed.

Lemma wrap_T_inrange T v : 0 < it_bits T -> it_inrange T (wrap_T T v) = true.
Proof.
  intros Hb. unfold it_inrange, wrap_T, it_min, it_max.
  destruct (pow2_split _ Hb) as [Hp Hh]. rewrite Hp. set (h := 2 ^ (it_bits T - 1)) in *. clearbody h.
  destruct (it_signed T).
  - pose proof (Z.mod_pos_bound (v + h) (2 * h) ltac:(lia)) as Hm.
    set (m := (v + h) mod (2 * h)) in *. clearbody m. lia.
  - pose proof (Z.mod_pos_bound v (2 * h) ltac:(lia)) as Hm.
    set (m := v mod (2 * h)) in *. clearbody m. lia.
Qed.

Lemma wrap_T_id T v : 0 < it_bits T -> it_inrange T v = true -> wrap_T T v = v.
Proof.
  intros Hb. unfold it_inrange, wrap_T, it_min, it_max.
  destruct (pow2_split _ Hb) as [Hp Hh]. rewrite Hp. set (h := 2 ^ (it_bits T - 1)) in *. clearbody h.
  destruct (it_signed T); intros Hr.
  - rewrite Z.mod_small by lia. lia.
  - rewrite Z.mod_small by lia. reflexivity.
Qed.

(* a literal with a type suffix is accepted exactly when its value is in the range of the type, and
   then keeps its value *)
Lemma suffix_typing value base T D :
  nl_literal_type value base (Some T) D = (if it_inrange T value then LT_int T else LT_reject).
Proof. reflexivity. Qed.

(* an unsuffixed decimal literal outside int64 becomes a float, never a wrapped integer *)
Lemma decimal_untyped value :
  nl_literal_type value 10 None None =
  if it_inrange (mk_itype 64 true 0) value then LT_int (mk_itype 64 true 0) else LT_float.
Proof. reflexivity. Qed.
