From C14 Require Import Model.
Require Extraction.
Require Import ExtrOcamlBasic.
Extraction "model.ml" lookup_type nl_read_dec nl_read_int digits_value nl_literal_type nl_wrap_value nl_emit c_eval c_convert wrap_T
  it_inrange it_min it_max nl_int2str nl_uint2str nl_str2int10 nl_str2int int_types.
