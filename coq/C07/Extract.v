From Coq Require Import ZArith.
From C07 Require Import Gen Model.
Require Extraction.
Require Import ExtrOcamlBasic.
Definition unused_n : N := N.of_nat 0.
Extraction "model.ml" ospairs_impl OSPAIRS_SORTS memo_run_lua is_used_all assign_ids resolve_fix unused_n.
