(* Symbol:is_used = reachability of a root-used symbol along usedby edges, whatever the order in
   which next() delivers the keys of the usedby tables. *)
From Coq Require Import ZArith Bool List Lia Permutation.
From C07 Require Import Model.
Import ListNotations.
Local Open Scope Z_scope.

Section UsedProofs.
  Variable usedby : Z -> list Z.
  Variable root : Z -> bool.
  Variable cached : Z -> option bool.

  (* the declarative side: x is used iff a chain of usedby edges leads to a symbol that is used
     outright (a root, or one whose cached answer is true); a cached false stops the search *)
  Inductive reach : Z -> Prop :=
  | reach_cached x : cached x = Some true -> reach x
  | reach_root x : cached x = None -> root x = true -> reach x
  | reach_step x y : cached x = None -> root x = false -> In y (usedby x) -> reach y -> reach x.

  Notation dfs := (dfs usedby root cached).
  Notation used_loop := (used_loop).

  Lemma memb_in x l : memb x l = true <-> In x l.
  Proof.
    unfold memb. rewrite existsb_exists. split.
    - intros [y [I E]]. apply Z.eqb_eq in E. subst; auto.
    - intros I. exists x. split; auto. apply Z.eqb_refl.
  Qed.

  (* ---------- soundness: true is only answered for reachable symbols ---------- *)
  Lemma loop_sound rec ys ck c' :
    (forall y ck c', rec y ck = Some (true, c') -> reach y) ->
    used_loop rec ys ck = Some (true, c') -> exists y, In y ys /\ reach y.
  Proof.
    intros RS. revert ck. induction ys as [|y r IH]; intros ck; simpl; [discriminate|].
    destruct (memb y ck).
    - intros E. destruct (IH _ E) as [z [I Rz]]. eauto.
    - destruct (rec y ck) as [[[|] c1]|] eqn:E1; try discriminate.
      + intros _. exists y. split; auto. eapply RS; eauto.
      + intros E. destruct (IH _ E) as [z [I Rz]]. eauto.
  Qed.

  Lemma dfs_sound fuel : forall x ck c', dfs fuel x ck = Some (true, c') -> reach x.
  Proof.
    induction fuel as [|fu IH]; intros x ck c'; simpl; [discriminate|].
    destruct (cached x) as [u|] eqn:C.
    - intros E; inversion E; subst. apply reach_cached; auto.
    - destruct (root x) eqn:R.
      + intros _. apply reach_root; auto.
      + intros E. destruct (loop_sound _ _ _ _ IH E) as [y [I Ry]]. eapply reach_step; eauto.
  Qed.

  (* ---------- completeness: the checked set returned with `false` is closed ---------- *)
  Definition closed_in (ck ck' : list Z) : Prop :=
    forall n, In n ck' -> ~ In n ck ->
              cached n = None /\ root n = false /\
              forall m, In m (usedby n) -> In m ck' \/ cached m = Some false.

  Definition false_spec (x : Z) (ck ck' : list Z) : Prop :=
    incl ck ck' /\ (In x ck' \/ cached x = Some false) /\ closed_in ck ck'.

  Lemma closed_in_mono ck ck1 ck2 :
    incl ck ck1 -> incl ck1 ck2 -> closed_in ck ck1 -> closed_in ck1 ck2 -> closed_in ck ck2.
  Proof.
    intros I1 I2 C1 C2 n In2 Nn.
    destruct (in_dec Z.eq_dec n ck1) as [I|NI].
    - destruct (C1 n I Nn) as (A & B & S). repeat split; auto.
      intros m Hm. destruct (S m Hm); auto.
    - apply C2; auto.
  Qed.

  Lemma loop_complete rec ys ck ck' :
    (forall y ck ck', rec y ck = Some (false, ck') -> false_spec y ck ck') ->
    used_loop rec ys ck = Some (false, ck') ->
    incl ck ck' /\ (forall y, In y ys -> In y ck' \/ cached y = Some false) /\ closed_in ck ck'.
  Proof.
    intros RS. revert ck. induction ys as [|y r IH]; intros ck; simpl.
    - intros E; inversion E; subst. split; [apply incl_refl|]. split; [tauto|]. intros n I N; contradiction.
    - destruct (memb y ck) eqn:M.
      + intros E. destruct (IH _ E) as (I & A & C). split; auto. split; auto.
        intros z [<-|Iz]; auto. left. apply I. apply memb_in; auto.
      + destruct (rec y ck) as [[[|] c1]|] eqn:E1; try discriminate.
        intros E. destruct (RS _ _ _ E1) as (I1 & Y1 & C1). destruct (IH _ E) as (I2 & A2 & C2).
        split; [eapply incl_tran; eauto|]. split.
        * intros z [<-|Iz]; auto. destruct Y1; auto.
        * eapply closed_in_mono; eauto.
  Qed.

  Lemma dfs_complete fuel : forall x ck ck', dfs fuel x ck = Some (false, ck') -> false_spec x ck ck'.
  Proof.
    induction fuel as [|fu IH]; intros x ck ck'; simpl; [discriminate|].
    destruct (cached x) as [u|] eqn:C.
    - intros E; inversion E; subst. split; [apply incl_refl|]. split; auto. intros n I N; contradiction.
    - destruct (root x) eqn:R; [discriminate|].
      intros E. destruct (loop_complete _ _ _ _ IH E) as (I & A & CL).
      assert (Ix : In x ck') by (apply I; left; reflexivity).
      split; [intros z Hz; apply I; right; exact Hz|]. split; [auto|].
      intros n In' Nn. destruct (Z.eq_dec n x) as [->|NE].
      + repeat split; auto.
      + apply CL; auto. intros [E'|I']; [congruence|contradiction].
  Qed.

  Lemma closed_no_reach C :
    closed_in [] C -> forall n, reach n -> ~ In n C /\ cached n <> Some false.
  Proof.
    intros CL n Rn. induction Rn as [x Cx|x Cx Rx|x y Cx Rx Iy Ry [IH1 IH2]].
    - split; [|congruence]. intros I. destruct (CL x I (fun F => F)) as (A & _). congruence.
    - split; [|congruence]. intros I. destruct (CL x I (fun F => F)) as (_ & B & _). congruence.
    - split; [|congruence]. intros I. destruct (CL x I (fun F => F)) as (_ & _ & S).
      destruct (S y Iy); auto.
  Qed.

  Theorem is_used_reach_lemma fuel x b :
    is_used usedby root cached fuel x = Some b -> (b = true <-> reach x).
  Proof.
    unfold is_used. destruct (dfs fuel x []) as [[[|] ck']|] eqn:E; try discriminate;
      intros X; inversion X; subst; clear X.
    - split; auto. intros _. eapply dfs_sound; eauto.
    - split; [discriminate|]. intros Rx. exfalso.
      destruct (dfs_complete _ _ _ _ E) as (_ & Y & CL).
      destruct (closed_no_reach _ CL _ Rx) as [N1 N2]. destruct Y; auto.
  Qed.
End UsedProofs.

(* reachability only looks at membership in the usedby tables: it cannot see their order *)
Lemma reach_perm usedby usedby' root cached :
  (forall n, Permutation (usedby n) (usedby' n)) ->
  forall x, reach usedby root cached x -> reach usedby' root cached x.
Proof.
  intros P x R. induction R.
  - apply reach_cached; auto.
  - apply reach_root; auto.
  - eapply reach_step; eauto. eapply Permutation_in; [apply P|auto].
Qed.

Theorem is_used_order_free_lemma usedby usedby' root cached fuel fuel' x b b' :
  (forall n, Permutation (usedby n) (usedby' n)) ->
  is_used usedby root cached fuel x = Some b ->
  is_used usedby' root cached fuel' x = Some b' -> b = b'.
Proof.
  intros P E E'. apply is_used_reach_lemma in E. apply is_used_reach_lemma in E'.
  assert (Q : forall n, Permutation (usedby' n) (usedby n)) by (intros; apply Permutation_sym; auto).
  destruct b, b'; auto.
  - assert (R : reach usedby' root cached x) by (apply (reach_perm _ _ _ _ P); apply E; auto).
    apply E' in R. discriminate.
  - assert (R : reach usedby root cached x) by (apply (reach_perm _ _ _ _ Q); apply E'; auto).
    apply E in R. discriminate.
Qed.


(* ---------- fuel: one unit per symbol (+1) is always enough, so None is unreachable ---------- *)
Section Fuel.
  Variable usedby : Z -> list Z.
  Variable root : Z -> bool.
  Variable cached : Z -> option bool.
  Variable universe : list Z.          (* the symbols of the program *)
  Hypothesis closed_universe : forall x y, In x universe -> In y (usedby x) -> In y universe.

  Definition notin (ck : list Z) (n : Z) : bool := negb (memb n ck).
  (* number of symbols not yet in the checked set *)
  Definition unchecked (ck : list Z) : nat := length (filter (notin ck) (nodup Z.eq_dec universe)).

  Lemma notin_false ck n : notin ck n = false <-> In n ck.
  Proof. unfold notin. rewrite negb_false_iff. apply memb_in. Qed.
  Lemma notin_true ck n : notin ck n = true <-> ~ In n ck.
  Proof.
    unfold notin. rewrite negb_true_iff. split.
    - intros E I. apply memb_in in I. congruence.
    - intros N. destruct (memb n ck) eqn:M; auto. apply memb_in in M. contradiction.
  Qed.

  Lemma filter_len_le (l : list Z) f g :
    (forall n, g n = true -> f n = true) -> (length (filter g l) <= length (filter f l))%nat.
  Proof.
    intros I. induction l as [|h t IH]; simpl; auto.
    destruct (g h) eqn:G.
    - rewrite (I h G). simpl. lia.
    - destruct (f h); simpl; lia.
  Qed.

  Lemma unchecked_le ck ck' : incl ck ck' -> (unchecked ck' <= unchecked ck)%nat.
  Proof.
    intros I. apply filter_len_le. intros n. rewrite !notin_true. intros N J. apply N, I, J.
  Qed.

  Lemma notin_cons_other x ck a : a <> x -> notin (x :: ck) a = notin ck a.
  Proof.
    intros NE. destruct (notin ck a) eqn:E.
    - apply notin_true. apply notin_true in E. intros [F|F]; [congruence|contradiction].
    - apply notin_false. apply notin_false in E. right; auto.
  Qed.

  Lemma filter_notin_cons_same (t : list Z) x ck :
    ~ In x t -> filter (notin (x :: ck)) t = filter (notin ck) t.
  Proof.
    induction t as [|a t IH]; simpl; auto. intros N.
    rewrite notin_cons_other by (intros ->; apply N; left; reflexivity).
    rewrite IH by (intros F; apply N; right; auto). reflexivity.
  Qed.

  Lemma filter_cons_len (l : list Z) x ck :
    NoDup l -> In x l -> ~ In x ck ->
    S (length (filter (notin (x :: ck)) l)) = length (filter (notin ck) l).
  Proof.
    intros ND. induction ND as [|h t Nh NDt IH]; intros Ix Nx; [contradiction|]. simpl.
    destruct (Z.eq_dec h x) as [->|NE].
    - assert (notin ck x = true) as -> by (apply notin_true; auto).
      assert (notin (x :: ck) x = false) as -> by (apply notin_false; left; reflexivity).
      simpl. rewrite filter_notin_cons_same by exact Nh. reflexivity.
    - destruct Ix as [E|Ix]; [contradiction|].
      rewrite notin_cons_other by exact NE.
      destruct (notin ck h); simpl; rewrite <- (IH Ix Nx); reflexivity.
  Qed.

  Lemma unchecked_cons x ck : In x universe -> ~ In x ck -> S (unchecked (x :: ck)) = unchecked ck.
  Proof.
    intros I N. apply filter_cons_len; auto.
    - apply NoDup_nodup.
    - apply nodup_In; auto.
  Qed.

  Notation dfs := (dfs usedby root cached).

  Lemma loop_total fu :
    (forall y ck, In y universe -> ~ In y ck -> (unchecked ck <= fu)%nat -> dfs fu y ck <> None) ->
    forall ys ck, (forall y, In y ys -> In y universe) -> (unchecked ck <= fu)%nat ->
                  used_loop (dfs fu) ys ck <> None.
  Proof.
    intros P ys. induction ys as [|y r IH]; intros ck U L; simpl; [discriminate|].
    assert (Ur : forall z, In z r -> In z universe) by (intros; apply U; right; auto).
    destruct (memb y ck) eqn:M; [apply IH; auto|].
    assert (Ny : ~ In y ck) by (intros I; apply memb_in in I; congruence).
    pose proof (P y ck (U y (or_introl eq_refl)) Ny L) as T.
    destruct (dfs fu y ck) as [[[|] c1]|] eqn:E; [discriminate| |congruence].
    apply IH; auto.
    destruct (dfs_complete usedby root cached _ _ _ _ E) as (I & _ & _).
    pose proof (unchecked_le _ _ I). lia.
  Qed.

  Lemma dfs_total : forall fu y ck,
    In y universe -> ~ In y ck -> (unchecked ck <= fu)%nat -> dfs fu y ck <> None.
  Proof.
    induction fu as [|fu IH]; intros y ck Iy Ny L.
    - exfalso. pose proof (unchecked_cons y ck Iy Ny). lia.
    - simpl. destruct (cached y); [discriminate|]. destruct (root y); [discriminate|].
      apply loop_total; auto.
      + intros z Hz. eapply closed_universe; eauto.
      + pose proof (unchecked_cons y ck Iy Ny). lia.
  Qed.

  Theorem is_used_total_lemma x :
    In x universe -> is_used usedby root cached (S (length universe)) x <> None.
  Proof.
    intros I. unfold is_used.
    assert (T : dfs (S (length universe)) x [] <> None).
    { apply dfs_total; auto. unfold unchecked.
      assert (length (filter (notin []) (nodup Z.eq_dec universe)) <= length (nodup Z.eq_dec universe))%nat.
      { clear. induction (nodup Z.eq_dec universe) as [|h t IH]; simpl; auto. destruct (notin [] h); simpl; lia. }
      assert (length (nodup Z.eq_dec universe) <= length universe)%nat.
      { clear. induction universe as [|h t IH]; simpl; auto. destruct (in_dec Z.eq_dec h t); simpl; lia. }
      lia. }
    destruct (dfs (S (length universe)) x []) as [[b c]|]; congruence.
  Qed.
End Fuel.
