(* memoize: with an equivalence as argument match, at most one cache entry matches, so the result
   does not depend on the order in which pairs(cache) delivers the entries; equal (equivalent)
   arguments get the identical result object; f runs once per class. *)
From Coq Require Import Bool List Lia Permutation Arith.
From C07 Require Import Model.
Import ListNotations.

Section MemoProofs.
  Variable A R : Type.
  Variable eqv : A -> A -> bool.
  Variable f : A -> R.
  Hypothesis eqv_refl : forall a, eqv a a = true.
  Hypothesis eqv_sym : forall a b, eqv a b = true -> eqv b a = true.
  Hypothesis eqv_trans : forall a b c, eqv a b = true -> eqv b c = true -> eqv a c = true.

  Notation entry := (entry A R).
  Notation memo_find := (memo_find A R eqv).
  Notation memo_call := (memo_call A R eqv f).
  Notation memo_run := (memo_run A R eqv f).

  (* pairwise non-equivalent parameter packs *)
  Definition good (c : list entry) : Prop :=
    forall e1 e2, In e1 c -> In e2 c -> eqv (fst e1) (fst e2) = true -> e1 = e2.

  Definition is_perm (p : list entry -> list entry) : Prop := forall c, Permutation c (p c).

  Lemma good_perm c c' : Permutation c c' -> good c -> good c'.
  Proof.
    intros P G e1 e2 I1 I2. apply Permutation_sym in P.
    apply G; eapply Permutation_in; eauto.
  Qed.

  Lemma good_nil : good [].
  Proof. intros ? ? []. Qed.

  Lemma memo_find_some c a r : memo_find c a = Some r -> exists x, In (x, r) c /\ eqv x a = true.
  Proof.
    unfold Model.memo_find. destruct (find (fun e => eqv (fst e) a) c) as [[x r']|] eqn:F; [|discriminate].
    intros E; inversion E; subst. apply find_some in F as [I M]. eauto.
  Qed.

  Lemma memo_find_none c a : memo_find c a = None -> forall x r, In (x, r) c -> eqv x a = false.
  Proof.
    unfold Model.memo_find. destruct (find (fun e => eqv (fst e) a) c) eqn:F; [discriminate|].
    intros _ x r I. exact (find_none _ _ F (x, r) I).
  Qed.

  Lemma memo_find_perm c c' a : good c -> Permutation c c' -> memo_find c a = memo_find c' a.
  Proof.
    intros G P. destruct (memo_find c a) as [r|] eqn:F1.
    - apply memo_find_some in F1 as (x & I & M).
      destruct (memo_find c' a) as [r'|] eqn:F2.
      + apply memo_find_some in F2 as (x' & I' & M').
        apply Permutation_sym in P. pose proof (Permutation_in _ P I') as I2.
        assert (E : (x, r) = (x', r')).
        { apply G; auto. simpl. eapply eqv_trans; eauto. }
        inversion E; reflexivity.
      + pose proof (Permutation_in _ P I) as I2.
        rewrite (memo_find_none _ _ F2 _ _ I2) in M. discriminate.
    - destruct (memo_find c' a) as [r'|] eqn:F2; auto.
      apply memo_find_some in F2 as (x' & I' & M').
      apply Permutation_sym in P. pose proof (Permutation_in _ P I') as I2.
      rewrite (memo_find_none _ _ F1 _ _ I2) in M'. discriminate.
  Qed.

  Lemma memo_call_good c n a r c' n' :
    good c -> memo_call c n a = (r, c', n') ->
    good c' /\ (forall e, In e c -> In e c') /\ (exists x, In (x, r) c' /\ eqv x a = true).
  Proof.
    unfold Model.memo_call. intros G. destruct (memo_find c a) as [r0|] eqn:F.
    - intros E; inversion E; subst. split; [auto|]. split; [auto|]. apply memo_find_some; auto.
    - intros E; inversion E; subst. split; [|split].
      + intros e1 e2 I1 I2 M. apply in_app_or in I1. apply in_app_or in I2.
        destruct I1 as [I1|[<-|[]]], I2 as [I2|[<-|[]]]; auto.
        * destruct e1 as [x1 r1]. simpl in M.
          rewrite (memo_find_none _ _ F _ _ I1) in M. discriminate.
        * destruct e2 as [x2 r2]. simpl in M. apply eqv_sym in M.
          rewrite (memo_find_none _ _ F _ _ I2) in M. discriminate.
      + intros e I. apply in_or_app; auto.
      + exists a. split; [apply in_or_app; right; left; reflexivity|apply eqv_refl].
  Qed.

  Lemma memo_call_perm c c' n a :
    good c -> Permutation c c' ->
    let '(r, c1, n1) := memo_call c n a in
    let '(r', c1', n1') := memo_call c' n a in
    r = r' /\ n1 = n1' /\ Permutation c1 c1'.
  Proof.
    intros G P. unfold Model.memo_call. rewrite <- (memo_find_perm c c' a G P).
    destruct (memo_find c a); repeat split; auto. apply Permutation_app_tail; auto.
  Qed.

  Theorem memo_run_order_free_lemma :
    forall args perms perms' c c' n,
      Forall is_perm perms -> Forall is_perm perms' -> good c -> Permutation c c' ->
      memo_run perms c n args = memo_run perms' c' n args.
  Proof.
    induction args as [|a r IH]; intros perms perms' c c' n FP FP' G P; simpl; auto.
    set (p := match perms with p :: _ => p | [] => fun c => c end).
    set (p' := match perms' with p :: _ => p | [] => fun c => c end).
    assert (Pp : is_perm p) by (unfold p; destruct FP; auto; intros x; apply Permutation_refl).
    assert (Pp' : is_perm p') by (unfold p'; destruct FP'; auto; intros x; apply Permutation_refl).
    assert (PP : Permutation (p c) (p' c')).
    { eapply Permutation_trans; [apply Permutation_sym, Pp|]. eapply Permutation_trans; [exact P|apply Pp']. }
    assert (Gp : good (p c)) by (eapply good_perm; [apply Pp|exact G]).
    pose proof (memo_call_perm (p c) (p' c') n a Gp PP) as MC.
    destruct (memo_call (p c) n a) as [[r1 c1] n1] eqn:E1.
    destruct (memo_call (p' c') n a) as [[r1' c1'] n1'] eqn:E1'.
    destruct MC as (-> & -> & PC).
    destruct (memo_call_good _ _ _ _ _ _ Gp E1) as (G1 & _ & _).
    assert (T : Forall is_perm (tl perms)) by (destruct FP; simpl; auto).
    assert (T' : Forall is_perm (tl perms')) by (destruct FP'; simpl; auto).
    rewrite (IH (tl perms) (tl perms') c1 c1' n1' T T' G1 PC). reflexivity.
  Qed.

  (* equivalent arguments get the identical result object (evaluation index and value) *)
  Theorem memo_run_canonical_lemma :
    forall args perms c n rs nf,
      Forall is_perm perms -> good c -> memo_run perms c n args = (rs, nf) ->
      (forall i a r, nth_error args i = Some a -> nth_error rs i = Some r ->
                     forall x rx, In (x, rx) c -> eqv x a = true -> r = rx) /\
      (forall i j ai aj ri rj,
          nth_error args i = Some ai -> nth_error args j = Some aj ->
          nth_error rs i = Some ri -> nth_error rs j = Some rj ->
          eqv ai aj = true -> ri = rj).
  Proof.
    induction args as [|a rest IH]; intros perms c n rs nf FP G; simpl.
    - intros E; inversion E; subst. split; intros [|?]; simpl; discriminate.
    - set (p := match perms with p :: _ => p | [] => fun c => c end).
      assert (Pp : is_perm p) by (unfold p; destruct FP; auto; intros x; apply Permutation_refl).
      assert (Gp : good (p c)) by (eapply good_perm; [apply Pp|exact G]).
      destruct (memo_call (p c) n a) as [[r1 c1] n1] eqn:E1.
      destruct (memo_run (tl perms) c1 n1 rest) as [rs' nf'] eqn:E2.
      intros E; inversion E; subst; clear E.
      destruct (memo_call_good _ _ _ _ _ _ Gp E1) as (G1 & Sub & (x0 & I0 & M0)).
      assert (T : Forall is_perm (tl perms)) by (destruct FP; simpl; auto).
      destruct (IH _ _ _ _ _ T G1 E2) as [IH1 IH2].
      assert (First : forall x rx, In (x, rx) c -> eqv x a = true -> r1 = rx).
      { intros x rx I M. assert (I' : In (x, rx) c1) by (apply Sub; eapply Permutation_in; [apply Pp|exact I]).
        assert (E : (x0, r1) = (x, rx)).
        { apply G1; auto. simpl. eapply eqv_trans; [exact M0|apply eqv_sym; exact M]. }
        inversion E; reflexivity. }
      split.
      + intros [|i] a' r' Ha Hr x rx I M; simpl in *.
        * inversion Ha; inversion Hr; subst. eapply First; eauto.
        * eapply IH1; eauto. apply Sub. eapply Permutation_in; [apply Pp|exact I].
      + intros [|i] [|j] ai aj ri rj Hi Hj Ri Rj M; simpl in *.
        * congruence.
        * inversion Hi; inversion Ri; subst. symmetry.
          eapply (IH1 j aj rj Hj Rj x0 ri I0). eapply eqv_trans; [exact M0|exact M].
        * inversion Hj; inversion Rj; subst.
          eapply (IH1 i ai ri Hi Ri x0 rj I0). eapply eqv_trans; [exact M0|apply eqv_sym; exact M].
        * exact (IH2 i j ai aj ri rj Hi Hj Ri Rj M).
  Qed.

  (* f is evaluated once per class: the evaluation counter grows exactly at calls whose
     arguments are equivalent to no earlier call / cache entry *)
  Fixpoint new_classes (seen : list A) (args : list A) : nat :=
    match args with
    | [] => 0
    | a :: r => if existsb (fun x => eqv x a) seen then new_classes seen r
                else S (new_classes (seen ++ [a]) r)
    end.

  Lemma new_classes_ext seen seen' args :
    (forall a, existsb (fun x => eqv x a) seen = existsb (fun x => eqv x a) seen') ->
    new_classes seen args = new_classes seen' args.
  Proof.
    revert seen seen'. induction args as [|a r IH]; intros seen seen' E; simpl; auto.
    rewrite (E a). destruct (existsb _ seen'); [apply IH; auto|]. f_equal. apply IH.
    intros b. rewrite !existsb_app. rewrite (E b). reflexivity.
  Qed.

  Lemma find_existsb c a :
    memo_find c a = None <-> existsb (fun x => eqv x a) (map fst c) = false.
  Proof.
    unfold Model.memo_find. induction c as [|[x r] t IH]; simpl; [tauto|].
    destruct (eqv x a); simpl; [split; discriminate|exact IH].
  Qed.

  Lemma existsb_perm (l l' : list A) g : Permutation l l' -> existsb g l = existsb g l'.
  Proof.
    induction 1; simpl; auto; try congruence.
    destruct (g x), (g y); reflexivity.
  Qed.

  Theorem memo_run_evaluations_lemma :
    forall args perms c n,
      Forall is_perm perms -> snd (memo_run perms c n args) = n + new_classes (map fst c) args.
  Proof.
    induction args as [|a r IH]; intros perms c n FP; simpl; [lia|].
    set (p := match perms with p :: _ => p | [] => fun c => c end).
    assert (Pp : is_perm p) by (unfold p; destruct FP; auto; intros x; apply Permutation_refl).
    assert (T : Forall is_perm (tl perms)) by (destruct FP; simpl; auto).
    assert (EX : forall b, existsb (fun x => eqv x b) (map fst (p c)) = existsb (fun x => eqv x b) (map fst c)).
    { intros b. apply existsb_perm. apply Permutation_map. apply Permutation_sym, Pp. }
    unfold Model.memo_call.
    destruct (memo_find (p c) a) as [r0|] eqn:F.
    - specialize (IH (tl perms) (p c) n T).
      destruct (memo_run (tl perms) (p c) n r) as [rs nf]. simpl in *. rewrite IH.
      assert (X : existsb (fun x => eqv x a) (map fst c) = true).
      { rewrite <- EX. destruct (existsb (fun x => eqv x a) (map fst (p c))) eqn:Y; auto.
        apply find_existsb in Y. congruence. }
      rewrite X. f_equal. apply new_classes_ext. exact EX.
    - specialize (IH (tl perms) (p c ++ [(a, (n, f a))]) (S n) T).
      destruct (memo_run (tl perms) (p c ++ [(a, (n, f a))]) (S n) r) as [rs nf]. simpl in *. rewrite IH.
      apply find_existsb in F. rewrite EX in F. rewrite F.
      rewrite map_app. simpl. rewrite <- plus_n_Sm. f_equal. f_equal.
      apply new_classes_ext. intros b. rewrite !existsb_app, EX. reflexivity.
  Qed.
End MemoProofs.
