(* Type:_init hands out ids in the order in which codenames are first initialised: equal codenames
   get equal ids; the ids are a function of the sequence of initialisations only. *)
From Coq Require Import ZArith Bool List Lia.
From C07 Require Import Model ProofsSort.
Import ListNotations.
Local Open Scope Z_scope.

Lemma assign_ids_seen inits : forall seen counter i c e,
  nth_error inits i = Some c -> find (fun e => str_eqb (fst e) c) seen = Some e ->
  nth_error (assign_ids seen counter inits) i = Some (snd e).
Proof.
  induction inits as [|h r IH]; intros seen counter [|i] c e; simpl; try discriminate.
  - intros X; inversion X; subst. intros ->. reflexivity.
  - intros Hc F. destruct (find (fun e0 => str_eqb (fst e0) h) seen) as [eh|] eqn:Fh; simpl.
    + eapply IH; eauto.
    + eapply IH; eauto. simpl. destruct (str_eqb h c) eqn:E; auto.
      apply str_eqb_eq in E; subst. congruence.
Qed.

Theorem typeid_same_codename_same_id_lemma inits : forall seen counter i j c,
  nth_error inits i = Some c -> nth_error inits j = Some c ->
  nth_error (assign_ids seen counter inits) i = nth_error (assign_ids seen counter inits) j.
Proof.
  induction inits as [|h r IH]; intros seen counter [|i] [|j] c; simpl; try discriminate; auto.
  - intros X Hj; inversion X; subst.
    destruct (find (fun e0 => str_eqb (fst e0) c) seen) as [eh|] eqn:Fh; simpl.
    + symmetry. eapply assign_ids_seen; eauto.
    + symmetry. erewrite assign_ids_seen with (e := (c, counter)); eauto.
      simpl. rewrite (proj2 (str_eqb_eq c c) eq_refl). reflexivity.
  - intros Hi X; inversion X; subst.
    destruct (find (fun e0 => str_eqb (fst e0) c) seen) as [eh|] eqn:Fh; simpl.
    + eapply assign_ids_seen; eauto.
    + erewrite assign_ids_seen with (e := (c, counter)); eauto.
      simpl. rewrite (proj2 (str_eqb_eq c c) eq_refl). reflexivity.
  - intros Hi Hj. destruct (find (fun e0 => str_eqb (fst e0) h) seen); simpl; eapply IH; eauto.
Qed.

(* the ids do depend on the ORDER of initialisation: determinism of ids reduces to determinism of
   the traversal that creates the types *)
Example typeid_depends_on_init_order :
  assign_ids [] 0 [[1]; [2]] <> map (fun i => nth i (assign_ids [] 0 [[2]; [1]]) 0) [1%nat; 0%nat].
Proof. vm_compute. discriminate. Qed.
