(* C07 - compilation is deterministic.  Executable models of the places where the compiler walks
   Lua tables whose iteration order depends on the per-process hash seed / allocation addresses.
   The iteration order of a table is an ARBITRARY permutation of its entries: every function
   below takes the entries in the order `next` happens to deliver them, and the theorems
   (Proofs*.v) say the result is the same for every such order.

     utils/iterators.lua  ospairs            -> [ospairs]
     utils/memoize.lua    memoize            -> [memo_call], [memo_run]
     symbol.lua           Symbol:is_used     -> [is_used], [dfs]
     types.lua            gencodename, Type:_init (type ids) -> [codename], [assign_ids]
     scope.lua            Scope:resolve_symbols (one pass, abstract resolve) -> [resolve_pass], [resolve_fix]
   No proofs in this file. *)
From Coq Require Import ZArith Bool List.
Import ListNotations.
Local Open Scope Z_scope.

(* ---------------------------------------------------------------- strings and ospairs *)
Definition str := list Z.                       (* bytes; Lua compares with strcoll = byte order in the C locale *)

Fixpoint str_ltb (a b : str) : bool :=
  match a, b with
  | [], [] => false
  | [], _ :: _ => true
  | _ :: _, [] => false
  | x :: a', y :: b' => if x <? y then true else if y <? x then false else str_ltb a' b'
  end.
Definition str_leb (a b : str) : bool := negb (str_ltb b a).
Fixpoint str_eqb (a b : str) : bool :=
  match a, b with
  | [], [] => true
  | x :: a', y :: b' => (x =? y) && str_eqb a' b'
  | _, _ => false
  end.

Fixpoint sinsert (k : str) (l : list str) : list str :=
  match l with
  | [] => [k]
  | h :: t => if str_leb k h then k :: l else h :: sinsert k t
  end.
Definition ssort (l : list str) : list str := fold_right sinsert [] l.   (* table.sort(okeys) *)

Inductive lkey := KStr (s : str) | KOther (n : Z).    (* string keys and all other keys *)

Definition str_keys {V} (entries : list (lkey * V)) : list str :=
  flat_map (fun e => match fst e with KStr s => [s] | KOther _ => [] end) entries.

Fixpoint lookup {V} (entries : list (lkey * V)) (k : str) : option V :=
  match entries with
  | [] => None
  | (KStr s, v) :: r => if str_eqb s k then Some v else lookup r k
  | _ :: r => lookup r k
  end.

(* the closure returned by ospairs: walks okeys, stops at the first key whose value is nil *)
Fixpoint ospairs_iter {V} (entries : list (lkey * V)) (okeys : list str) : list (str * V) :=
  match okeys with
  | [] => []
  | k :: r => match lookup entries k with
              | Some v => (k, v) :: ospairs_iter entries r
              | None => []
              end
  end.

(* entries are given in `next` order; [sorts] = "the body calls table.sort(okeys)" (scraped, Gen.v) *)
Definition ospairs_impl {V} (sorts : bool) (entries : list (lkey * V)) : list (str * V) :=
  ospairs_iter entries (if sorts then ssort (str_keys entries) else str_keys entries).
Definition ospairs {V} (entries : list (lkey * V)) : list (str * V) := ospairs_impl true entries.

(* ---------------------------------------------------------------- memoize *)
Section Memo.
  Variable A R : Type.
  Variable eqv : A -> A -> bool.      (* all arguments match: pv == av or shallow_compare_nomt(pv, av) *)
  Variable f : A -> R.

  (* a cache entry: the packed parameters and the result OBJECT = (index of the evaluation that
     produced it, value) *)
  Definition entry := (A * (nat * R))%type.

  Definition memo_find (cache : list entry) (a : A) : option (nat * R) :=
    match find (fun e => eqv (fst e) a) cache with
    | Some e => Some (snd e)
    | None => None
    end.

  (* one call; [cache] is given in the order pairs(cache) delivers it; [n] counts evaluations of f *)
  Definition memo_call (cache : list entry) (n : nat) (a : A) : (nat * R) * list entry * nat :=
    match memo_find cache a with
    | Some r => (r, cache, n)
    | None => let r := (n, f a) in (r, cache ++ [(a, r)], S n)
    end.

  (* a sequence of calls; before each call the table may be rehashed: [perms] supplies, for each
     call, the order in which pairs() will deliver the current cache *)
  Fixpoint memo_run (perms : list (list entry -> list entry)) (cache : list entry) (n : nat)
           (args : list A) : list (nat * R) * nat :=
    match args with
    | [] => ([], n)
    | a :: r =>
      let p := match perms with p :: _ => p | [] => (fun c => c) end in
      let '(res, cache', n') := memo_call (p cache) n a in
      let '(rs, nf) := memo_run (tl perms) cache' n' r in
      (res :: rs, nf)
    end.
End Memo.

(* ---------------------------------------------------------------- Symbol:is_used *)
Section Used.
  Variable usedby : Z -> list Z.       (* keys of sym.usedby, in the order next() delivers them *)
  Variable root : Z -> bool.           (* cexport or entrypoint or volatile or nodce or ctopinit *)
  Variable cached : Z -> option bool.  (* sym.used when already computed *)

  Definition memb (x : Z) (l : list Z) : bool := existsb (Z.eqb x) l.

  (* the loop `for funcsym in next,usedby do ... end`; [rec] is the recursive call
     funcsym:is_used(false, checkedsyms); checkedsyms is threaded through (it is one shared table) *)
  Fixpoint used_loop (rec : Z -> list Z -> option (bool * list Z)) (ys : list Z) (checked : list Z)
    : option (bool * list Z) :=
    match ys with
    | [] => Some (false, checked)
    | y :: r =>
      if memb y checked then used_loop rec r checked
      else match rec y checked with
           | None => None
           | Some (true, c') => Some (true, c')
           | Some (false, c') => used_loop rec r c'
           end
    end.

  (* None = out of fuel (excluded by the theorems) *)
  Fixpoint dfs (fuel : nat) (x : Z) (checked : list Z) : option (bool * list Z) :=
    match fuel with
    | O => None
    | S fu =>
      match cached x with
      | Some u => Some (u, checked)
      | None =>
        if root x then Some (true, checked)
        else used_loop (dfs fu) (usedby x) (x :: checked)
      end
    end.

  Definition is_used (fuel : nat) (x : Z) : option bool :=
    match dfs fuel x [] with Some (b, _) => Some b | None => None end.
End Used.

(* is_used(true) on a list of symbols in turn, caching each top-level answer *)
Fixpoint is_used_all (usedby : Z -> list Z) (root : Z -> bool) (cached : Z -> option bool)
         (fuel : nat) (xs : list Z) : list (option bool) :=
  match xs with
  | [] => []
  | x :: r =>
    let b := is_used usedby root cached fuel x in
    let cached' := match b with
                   | Some u => (fun y => if y =? x then match cached x with Some c => Some c | None => Some u end else cached y)
                   | None => cached
                   end in
    b :: is_used_all usedby root cached' fuel r
  end.

(* ---------------------------------------------------------------- codenames and type ids *)
Section Names.
  Variable hash : str -> str.                    (* stringer.hash(key, 12): BLAKE2b + base58, see C20 *)
  Variable dec : Z -> str.                       (* %d *)
  (* types.gencodename(name, node) with node present *)
  Definition codename (name srcname : str) (uid : Z) : str :=
    name ++ [95] ++ hash (name ++ srcname ++ dec uid).
End Names.

(* Type:_init: ids are handed out in the order in which codenames are first initialised *)
Fixpoint assign_ids (seen : list (str * Z)) (counter : Z) (inits : list str) : list Z :=
  match inits with
  | [] => []
  | c :: r =>
    match find (fun e => str_eqb (fst e) c) seen with
    | Some e => snd e :: assign_ids seen counter r
    | None => counter :: assign_ids ((c, counter) :: seen) (counter + 1) r
    end
  end.

(* ---------------------------------------------------------------- Scope:resolve_symbols *)
Section Resolve.
  Variable S : Type.
  Variable resolve : Z -> S -> option S.         (* symbol:resolve_type() + finish_symbol_resolution: Some = resolved *)
  Variable force : Z -> S -> option S.           (* symbol:resolve_type(force) in the fallback loop *)

  (* one call of resolve_symbols over the unresolved set delivered in order [syms] *)
  Fixpoint pass1 (syms : list Z) (s : S) (count : nat) (unknown : list Z) : S * nat * list Z :=
    match syms with
    | [] => (s, count, unknown)
    | x :: r =>
      match resolve x s with
      | Some s' => pass1 r s' (Datatypes.S count) unknown
      | None => pass1 r s count (if Nat.eqb count 0 then unknown ++ [x] else unknown)
      end
    end.
  Fixpoint pass2 (unknown : list Z) (s : S) (count : nat) : S * nat :=
    match unknown with
    | [] => (s, count)
    | x :: r => match force x s with
                | Some s' => pass2 r s' (Datatypes.S count)
                | None => pass2 r s count
                end
    end.
  Definition resolve_pass (syms : list Z) (s : S) : S * nat :=
    let '(s1, count, unknown) := pass1 syms s 0%nat [] in
    if Nat.eqb count 0 then pass2 unknown s1 0%nat else (s1, count).

  (* the analyzer repeats passes until one resolves nothing; [orders] gives the iteration order
     of the unresolved set at each pass *)
  Fixpoint resolve_fix (orders : list (list Z)) (s : S) : option S :=
    match orders with
    | [] => None                                   (* did not reach a fixpoint within the given passes *)
    | o :: r => let '(s', count) := resolve_pass o s in
                if Nat.eqb count 0 then Some s' else resolve_fix r s'
    end.
End Resolve.

(* ---------------------------------------------------------------- Lua values as memoize arguments *)
(* numbers, strings and metatable-free tables (identity + integer-keyed integer content), with the
   match rule of memoize: pv == av or shallow_compare_nomt(pv, av) *)
Inductive lval := VNum (n : Z) | VStr (s : str) | VTab (id : Z) (content : list (Z * Z)) | VNil.

Fixpoint zlookup (c : list (Z * Z)) (k : Z) : option Z :=
  match c with [] => None | (k', v) :: r => if k' =? k then Some v else zlookup r k end.
Definition half_shallow (c d : list (Z * Z)) : bool :=
  forallb (fun kv => match zlookup d (fst kv) with Some v => v =? snd kv | None => false end) c.
Definition shallow_compare (c d : list (Z * Z)) : bool := half_shallow c d && half_shallow d c.
Definition lval_eqb (a b : lval) : bool :=
  match a, b with
  | VNum x, VNum y => x =? y
  | VStr x, VStr y => str_eqb x y
  | VTab i c, VTab j d => (i =? j) || shallow_compare c d
  | VNil, VNil => true
  | _, _ => false
  end.
Fixpoint largs_eqb (a b : list lval) : bool :=
  match a, b with
  | [], [] => true
  | x :: a', y :: b' => lval_eqb x y && largs_eqb a' b'
  | _, _ => false
  end.
(* memoize instantiated: the wrapped function returns a fresh object each evaluation, so the
   result is identified by the evaluation index alone *)
Definition memo_run_lua (perms : list (list (entry (list lval) unit) -> list (entry (list lval) unit)))
           (args : list (list lval)) : list (nat * unit) * nat :=
  memo_run (list lval) unit largs_eqb (fun _ => tt) perms [] 0%nat args.
