(* Scope:resolve_symbols iterated to a fixpoint: IF single resolution steps commute (diamond
   property of the step relation) THEN the fixpoint does not depend on the order in which the
   unresolved set is walked at each pass.  The hypothesis is a statement about the real
   Symbol:resolve_type / finish_symbol_resolution and is NOT discharged here. *)
From Coq Require Import ZArith Bool List Lia Permutation Relations.
From C07 Require Import Model.
Import ListNotations.

Section ResolveProofs.
  Variable S : Type.
  Variable resolve : Z -> S -> option S.
  Variable force : Z -> S -> option S.
  Variable syms : list Z.                       (* the unresolved set *)

  Definition step (s s' : S) : Prop :=
    exists x, In x syms /\ (resolve x s = Some s' \/ force x s = Some s').
  Definition normal (s : S) : Prop := forall s', ~ step s s'.

  (* the undischarged hypothesis *)
  Definition resolve_steps_commute : Prop :=
    forall s a b, step s a -> step s b -> a = b \/ exists c, step a c /\ step b c.

  Definition rstep (s s' : S) : Prop := s = s' \/ step s s'.
  Notation star := (clos_refl_trans_1n S).

  Lemma star_trans R (a b c : S) : star R a b -> star R b c -> star R a c.
  Proof. induction 1; auto. intros; econstructor; eauto. Qed.

  Lemma star_step_rstep a b : star step a b -> star rstep a b.
  Proof. induction 1; [constructor|]. econstructor; [right; eauto|auto]. Qed.

  Lemma normal_rstar n c : normal n -> star rstep n c -> c = n.
  Proof.
    intros N St. induction St as [|x y z [->|Sxy] _ IH]; auto.
    exfalso; eapply N; eauto.
  Qed.

  Section Confluence.
    Hypothesis D : resolve_steps_commute.

    Lemma diamond_r s a b : rstep s a -> rstep s b -> exists c, rstep a c /\ rstep b c.
    Proof.
      intros [->|A] [->|B].
      - exists b; split; left; auto.
      - exists b; split; [right; auto|left; auto].
      - exists a; split; [left; auto|right; auto].
      - destruct (D _ _ _ A B) as [->|[c [Ac Bc]]].
        + exists b; split; left; auto.
        + exists c; split; right; auto.
    Qed.

    Lemma strip s b : star rstep s b -> forall a, rstep s a -> exists c, star rstep a c /\ rstep b c.
    Proof.
      induction 1 as [s|s s1 b S1 _ IH]; intros a A.
      - exists a. split; [constructor|exact A].
      - destruct (diamond_r _ _ _ A S1) as [c1 [Ac1 S1c1]].
        destruct (IH _ S1c1) as [c [C1c Bc]].
        exists c. split; auto. econstructor; eauto.
    Qed.

    Lemma confluence s a : star rstep s a -> forall b, star rstep s b ->
                                        exists c, star rstep a c /\ star rstep b c.
    Proof.
      induction 1 as [s|s s1 a S1 _ IH]; intros b B.
      - exists b. split; [exact B|constructor].
      - destruct (strip _ _ B _ S1) as [c1 [S1c1 Bc1]].
        destruct (IH _ S1c1) as [c [Ac C1c]].
        exists c. split; auto. econstructor; eauto.
    Qed.

    Lemma unique_normal_form s n1 n2 :
      star step s n1 -> normal n1 -> star step s n2 -> normal n2 -> n1 = n2.
    Proof.
      intros S1 N1 S2 N2.
      destruct (confluence _ _ (star_step_rstep _ _ S1) _ (star_step_rstep _ _ S2)) as [c [A B]].
      apply (normal_rstar _ _ N1) in A. apply (normal_rstar _ _ N2) in B. congruence.
    Qed.
  End Confluence.

  (* ---------- what one pass of the code does, in terms of steps ---------- *)
  Notation pass1 := (pass1 S resolve).
  Notation pass2 := (pass2 S force).
  Notation resolve_pass := (resolve_pass S resolve force).
  Notation resolve_fix := (resolve_fix S resolve force).

  Lemma pass1_spec o : incl o syms -> forall s count unknown s' count' unknown',
    pass1 o s count unknown = (s', count', unknown') ->
    star step s s' /\ (count <= count')%nat /\
    (count' = 0%nat -> s' = s /\ unknown' = unknown ++ o /\ forall x, In x o -> resolve x s = None).
  Proof.
    induction o as [|x r IH]; intros I s count unknown s' count' unknown'; simpl.
    - intros E; inversion E; subst. split; [constructor|]. split; [lia|]. intros _.
      rewrite app_nil_r. repeat split; auto. intros ? [].
    - assert (Ir : incl r syms) by (intros z Hz; apply I; right; auto).
      destruct (resolve x s) as [s1|] eqn:R.
      + intros E. destruct (IH Ir _ _ _ _ _ _ E) as (St & Le & Z0).
        split; [econstructor; [exists x; split; [apply I; left; auto|left; eauto]|exact St]|].
        split; [lia|]. intros ->. lia.
      + intros E. destruct (IH Ir _ _ _ _ _ _ E) as (St & Le & Z0).
        split; auto. split; auto. intros ->. assert (count = 0)%nat as -> by lia.
        simpl in E. destruct (Z0 eq_refl) as (-> & -> & A). simpl. rewrite <- app_assoc. simpl.
        repeat split; auto. intros z [<-|Hz]; auto.
  Qed.

  Lemma pass2_spec u : incl u syms -> forall s count s' count',
    pass2 u s count = (s', count') ->
    star step s s' /\ (count <= count')%nat /\
    (count' = 0%nat -> s' = s /\ forall x, In x u -> force x s = None).
  Proof.
    induction u as [|x r IH]; intros I s count s' count'; simpl.
    - intros E; inversion E; subst. split; [constructor|]. split; [lia|]. intros _. split; auto. intros ? [].
    - assert (Ir : incl r syms) by (intros z Hz; apply I; right; auto).
      destruct (force x s) as [s1|] eqn:R.
      + intros E. destruct (IH Ir _ _ _ _ E) as (St & Le & Z0).
        split; [econstructor; [exists x; split; [apply I; left; auto|right; eauto]|exact St]|].
        split; [lia|]. intros ->. lia.
      + intros E. destruct (IH Ir _ _ _ _ E) as (St & Le & Z0).
        split; auto. split; auto. intros ->. destruct (Z0 eq_refl) as (-> & A).
        split; auto. intros z [<-|Hz]; auto.
  Qed.

  Lemma resolve_pass_spec o s s' count :
    incl o syms -> incl syms o -> resolve_pass o s = (s', count) ->
    star step s s' /\ (count = 0%nat -> s' = s /\ normal s).
  Proof.
    intros I1 I2. unfold Model.resolve_pass.
    destruct (pass1 o s 0 []) as [[s1 c1] u1] eqn:P1.
    destruct (pass1_spec o I1 _ _ _ _ _ _ P1) as (St1 & _ & Z1).
    destruct (Nat.eqb c1 0) eqn:C.
    - apply Nat.eqb_eq in C. destruct (Z1 C) as (-> & -> & A1). simpl.
      intros P2. destruct (pass2_spec o I1 _ _ _ _ P2) as (St2 & _ & Z2).
      split; auto. intros ->. destruct (Z2 eq_refl) as (-> & A2). split; auto.
      intros t [x [Ix [Rx|Fx]]].
      + rewrite (A1 x (I2 x Ix)) in Rx. discriminate.
      + rewrite (A2 x (I2 x Ix)) in Fx. discriminate.
    - intros E; inversion E; subst. split; auto. intros ->. discriminate.
  Qed.

  Lemma resolve_fix_spec orders : Forall (fun o => incl o syms /\ incl syms o) orders ->
    forall s n, resolve_fix orders s = Some n -> star step s n /\ normal n.
  Proof.
    induction orders as [|o r IH]; intros F s n; simpl; [discriminate|].
    inversion F as [|? ? [I1 I2] Fr]; subst.
    destruct (resolve_pass o s) as [s' count] eqn:P.
    destruct (resolve_pass_spec _ _ _ _ I1 I2 P) as (St & Z0).
    destruct (Nat.eqb count 0) eqn:C.
    - apply Nat.eqb_eq in C. intros E; inversion E; subst. destruct (Z0 eq_refl) as (-> & N). split; auto.
    - intros E. destruct (IH Fr _ _ E) as (St' & N). split; auto. eapply star_trans; eauto.
  Qed.

  Theorem resolve_order_free_conditional_lemma :
    resolve_steps_commute ->
    forall orders orders' s n n',
      Forall (fun o => incl o syms /\ incl syms o) orders ->
      Forall (fun o => incl o syms /\ incl syms o) orders' ->
      resolve_fix orders s = Some n -> resolve_fix orders' s = Some n' -> n = n'.
  Proof.
    intros D orders orders' s n n' F F' E E'.
    destruct (resolve_fix_spec _ F _ _ E) as [S1 N1].
    destruct (resolve_fix_spec _ F' _ _ E') as [S2 N2].
    eapply unique_normal_form; eauto.
  Qed.
End ResolveProofs.

(* Non-vacuity of the conclusion and necessity of the hypothesis: a resolve function whose steps
   do NOT commute (the type inferred for symbol 2 depends on whether symbol 1 is already
   resolved) reaches different fixpoints under the two orders. *)
Definition ex_resolve (x : Z) (s : list (Z * Z)) : option (list (Z * Z)) :=
  if existsb (fun e => Z.eqb (fst e) x) s then None
  else Some ((x, if existsb (fun e => Z.eqb (fst e) 1%Z) s then 1%Z else 0%Z) :: s).
Definition ex_force (x : Z) (s : list (Z * Z)) : option (list (Z * Z)) := None.
Example non_commuting_resolve_is_order_dependent :
  resolve_fix _ ex_resolve ex_force [[1; 2]; [1; 2]]%Z [] <> resolve_fix _ ex_resolve ex_force [[2; 1]; [2; 1]]%Z [].
Proof. vm_compute. discriminate. Qed.
(* and a commuting one (each symbol's type is fixed) is order-free, as the theorem says *)
Definition ex_resolve_c (x : Z) (s : list Z) : option (list Z) :=
  if existsb (Z.eqb x) s then None else Some (filter (fun y => existsb (Z.eqb y) (x :: s)) [1; 2; 3]%Z).
Example commuting_resolve_same_fixpoint :
  resolve_fix _ ex_resolve_c (fun _ _ => None) [[1; 2; 3]; [1; 2; 3]]%Z [] =
  resolve_fix _ ex_resolve_c (fun _ _ => None) [[3; 1; 2]; [2; 3; 1]]%Z [].
Proof. vm_compute. reflexivity. Qed.
