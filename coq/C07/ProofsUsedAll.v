(* is_used(true) on a sequence of symbols, caching every top-level answer (what dead-code elimination
   runs): with a sound cache every answer is reachability in the uncached graph, and the cache stays sound. *)
From Coq Require Import ZArith Bool List Lia.
From C07 Require Import Model ProofsUsed.
Import ListNotations.
Local Open Scope Z_scope.

Section UsedAll.
  Variable usedby : Z -> list Z.
  Variable root : Z -> bool.
  Definition nocache : Z -> option bool := fun _ => None.
  Definition reach0 := reach usedby root nocache.
  Definition sound (cached : Z -> option bool) : Prop :=
    forall x u, cached x = Some u -> (u = true <-> reach0 x).

  Lemma reach_sound_cache cached x : sound cached -> (reach usedby root cached x <-> reach0 x).
  Proof.
    intros S. split.
    - induction 1 as [x C|x C R|x y C R I _ IH].
      + apply (S x true C). reflexivity.
      + apply reach_root; auto.
      + eapply reach_step; eauto.
    - induction 1 as [x C|x C R|x y C R I Ry IH]; [discriminate| |].
      + destruct (cached x) as [u|] eqn:E.
        * assert (u = true) as -> by (apply (S x u E); apply reach_root; auto). apply reach_cached; auto.
        * apply reach_root; auto.
      + destruct (cached x) as [u|] eqn:E.
        * assert (u = true) as -> by (apply (S x u E); eapply reach_step; eauto). apply reach_cached; auto.
        * eapply reach_step; eauto.
  Qed.

  Theorem is_used_all_lemma fuel : forall xs cached,
    sound cached ->
    Forall2 (fun x r => forall b, r = Some b -> (b = true <-> reach0 x)) xs (is_used_all usedby root cached fuel xs).
  Proof.
    induction xs as [|x r IH]; intros cached S; simpl; constructor.
    - intros b E. rewrite (is_used_reach_lemma usedby root cached fuel x b E). apply reach_sound_cache; auto.
    - apply IH. destruct (is_used usedby root cached fuel x) as [u|] eqn:E; auto.
      intros y v. destruct (Z.eqb_spec y x) as [->|N]; [|apply S].
      destruct (cached x) as [c|] eqn:C.
      + intros X; inversion X; subst. apply (S x v C).
      + intros X; inversion X; subst. rewrite (is_used_reach_lemma usedby root cached fuel x v E). apply reach_sound_cache; auto.
  Qed.
End UsedAll.
