(* One case per line, one result per line (formats shared with harness/C07/ops.lua):
   ospairs <entry>...          entry = s:<hexbytes>=<int> | o:<int>=<int>      -> <hexkey>=<int>,...
   memo <call>|<call>|...      call = <arg>;<arg>..  arg = n<int> | s<hex> | z (nil) | t<id>:<k>=<v>,..   -> idx ... #evals
   used <edges> <roots> <queries>   edges = x>y,.. (y in x.usedby)  roots/queries = csv ("-" = empty)  -> 0/1 csv
   ids <hex> <hex> ...         -> csv of ids (relative to the first fresh id)
   The memo model is run with the cache delivered in insertion order and in reverse order at
   every call; both must agree (they do by C07_memoize_order_free) - "!order" is printed otherwise. *)
open Model
open Zutil

let zi s = z_of_int (int_of_string s)
let bytes_of_hex s = zlist_of_hexbytes s
let hex_of_bytes l = hexbytes_of_zlist l
let split c s = if s = "" || s = "-" then [] else String.split_on_char c s

let parse_entry tok =
  let k, v = match String.index_opt tok '=' with
    | Some i -> String.sub tok 0 i, String.sub tok (i + 1) (String.length tok - i - 1)
    | None -> failwith "entry" in
  let key = if k.[0] = 's' then KStr (bytes_of_hex (String.sub k 2 (String.length k - 2)))
    else KOther (zi (String.sub k 2 (String.length k - 2))) in
  (key, zi v)

let parse_arg a =
  match a.[0] with
  | 'z' -> VNil
  | 'n' -> VNum (zi (String.sub a 1 (String.length a - 1)))
  | 's' -> VStr (bytes_of_hex (String.sub a 1 (String.length a - 1)))
  | 't' ->
    let body = String.sub a 1 (String.length a - 1) in
    let id, c = match String.index_opt body ':' with
      | Some i -> String.sub body 0 i, String.sub body (i + 1) (String.length body - i - 1)
      | None -> body, "" in
    VTab (zi id, List.map (fun kv -> match String.split_on_char '=' kv with
        | [ k; v ] -> (zi k, zi v) | _ -> failwith "kv") (split ',' c))
  | _ -> failwith "arg"

let () =
  iter_lines (fun line ->
    let out =
      try
        match split_ws line with
        | [] -> ""
        | "ospairs" :: es ->
          let r = ospairs_impl oSPAIRS_SORTS (List.map parse_entry es) in
          String.concat "," (List.map (fun (k, v) -> hex_of_bytes k ^ "=" ^ string_of_int (int_of_z v)) r)
        | [ "ospairs" ] -> ""
        | "memo" :: rest ->
          let calls = List.map (fun c -> List.map parse_arg (split ';' c)) (String.split_on_char '|' (String.concat " " rest)) in
          let n = List.length calls in
          let idp = List.init n (fun _ -> (fun c -> c)) and revp = List.init n (fun _ -> List.rev) in
          let show (rs, ev) = String.concat " " (List.map (fun (i, _) -> string_of_int (int_of_nat i)) rs) ^ " #" ^ string_of_int (int_of_nat ev) in
          let a = show (memo_run_lua idp calls) and b = show (memo_run_lua revp calls) in
          if a = b then a else "!order " ^ a ^ " / " ^ b
        | [ "used"; edges; roots; queries ] ->
          let es = List.map (fun e -> match String.split_on_char '>' e with
              | [ x; y ] -> (int_of_string x, int_of_string y) | _ -> failwith "edge") (split ',' edges) in
          let roots = List.map int_of_string (split ',' roots) in
          let qs = List.map int_of_string (split ',' queries) in
          let usedby x = List.map (fun (_, y) -> z_of_int y) (List.filter (fun (a, _) -> a = int_of_z x) es) in
          let root x = List.mem (int_of_z x) roots in
          let fuel = nat_of_int (List.length es + List.length qs + 3) in
          let r = is_used_all usedby root (fun _ -> None) fuel (List.map z_of_int qs) in
          String.concat "," (List.map (function Some true -> "1" | Some false -> "0" | None -> "fuel") r)
        | "ids" :: cs ->
          String.concat "," (List.map (fun z -> string_of_int (int_of_z z)) (assign_ids [] Z0 (List.map bytes_of_hex cs)))
        | _ -> "?unknown"
      with e -> "!exn " ^ Printexc.to_string e
    in
    print_string out; print_newline ())
