(* A real class for which the hypothesis [resolve_steps_commute] is DISCHARGED: dependency-driven
   resolution.  Every symbol has a fixed set of symbols its type depends on (the symbols occurring in
   its annotation or in the right-hand sides that determine it) and resolves - to a type that is a
   function of the resolved types of those - as soon as all of them are resolved; nothing is forced.
   The state is the set of resolved symbols (a sorted list, so that equal sets are equal states). *)
From Coq Require Import ZArith Bool List Lia.
From C07 Require Import Model ProofsResolve.
Import ListNotations.
Local Open Scope Z_scope.

Fixpoint zinsert (x : Z) (l : list Z) : list Z :=
  match l with
  | [] => [x]
  | h :: t => if x <=? h then x :: l else h :: zinsert x t
  end.
Definition zmem (x : Z) (l : list Z) : bool := existsb (Z.eqb x) l.

Lemma zmem_zinsert z x l : zmem z (zinsert x l) = (z =? x) || zmem z l.
Proof.
  induction l as [|h t IH]; simpl; auto. destruct (x <=? h); simpl; auto.
  rewrite IH. destruct (z =? h), (z =? x); reflexivity.
Qed.

Lemma zinsert_comm a b l : a <> b -> zinsert a (zinsert b l) = zinsert b (zinsert a l).
Proof.
  intros N. induction l as [|h t IH]; simpl;
    repeat (match goal with |- context [?x <=? ?y] => destruct (Z.leb_spec x y) end; simpl);
    try lia; try reflexivity; try (f_equal; exact IH).
Qed.

Section DependencyDriven.
  Variable deps : Z -> list Z.
  Variable syms : list Z.

  Definition ready (x : Z) (s : list Z) : bool := negb (zmem x s) && forallb (fun d => zmem d s) (deps x).
  Definition dd_resolve (x : Z) (s : list Z) : option (list Z) := if ready x s then Some (zinsert x s) else None.
  Definition dd_force (x : Z) (s : list Z) : option (list Z) := None.

  Lemma ready_mono x y s : x <> y -> ready y s = true -> ready y (zinsert x s) = true.
  Proof.
    unfold ready. rewrite !andb_true_iff, !negb_true_iff. intros N [A B]. split.
    - rewrite zmem_zinsert, A. destruct (Z.eqb_spec y x); auto. congruence.
    - rewrite forallb_forall in *. intros d I. rewrite zmem_zinsert, (B d I). apply orb_true_r.
  Qed.

  Theorem dependency_driven_commutes : resolve_steps_commute (list Z) dd_resolve dd_force syms.
  Proof.
    intros s a b [x [Ix [Rx|Fx]]] [y [Iy [Ry|Fy]]]; try discriminate.
    unfold dd_resolve in *. destruct (ready x s) eqn:Ex; [|discriminate]. destruct (ready y s) eqn:Ey; [|discriminate].
    inversion Rx; inversion Ry; subst; clear Rx Ry.
    destruct (Z.eq_dec x y) as [->|N]; [left; reflexivity|]. right.
    exists (zinsert y (zinsert x s)). split.
    - exists y. split; auto. left. unfold dd_resolve. rewrite (ready_mono x y s N Ey). reflexivity.
    - exists x. split; auto. left. unfold dd_resolve. rewrite (ready_mono y x s (not_eq_sym N) Ex).
      rewrite (zinsert_comm x y s N). reflexivity.
  Qed.

  (* hence the fixpoint of resolve_symbols does not depend on the walk order, unconditionally *)
  Theorem dependency_driven_order_free orders orders' s n n' :
    Forall (fun o => incl o syms /\ incl syms o) orders ->
    Forall (fun o => incl o syms /\ incl syms o) orders' ->
    resolve_fix (list Z) dd_resolve dd_force orders s = Some n ->
    resolve_fix (list Z) dd_resolve dd_force orders' s = Some n' -> n = n'.
  Proof. apply resolve_order_free_conditional_lemma. exact dependency_driven_commutes. Qed.
End DependencyDriven.

(* non-vacuity: a chain 3 <- 2 <- 1 (1 has no dependency) resolved under two different walk orders *)
Example dependency_chain :
  let deps := fun x => if x =? 3 then [2] else if x =? 2 then [1] else [] in
  resolve_fix (list Z) (dd_resolve deps) dd_force [[3; 2; 1]; [3; 2; 1]; [3; 2; 1]; [3; 2; 1]] [] = Some [1; 2; 3] /\
  resolve_fix (list Z) (dd_resolve deps) dd_force [[1; 2; 3]; [2; 3; 1]] [] = Some [1; 2; 3].
Proof. vm_compute. auto. Qed.
