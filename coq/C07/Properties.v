(* Property C07: compilation is deterministic.  Lua table iteration order is an arbitrary
   permutation of the entries; the theorems say that what the compiler computes at the places
   modelled in Model.v does not depend on it.  Only the property theorems; each is closed by a
   lemma of Proofs*.v and followed by Print Assumptions. *)
From Coq Require Import ZArith Bool List Permutation Sorted.
From C07 Require Import Gen Model ProofsSort ProofsMemo ProofsMemoLua ProofsUsed ProofsUsedAll ProofsResolve ProofsResolveDep ProofsIds.
Import ListNotations.

(* utils/iterators.lua ospairs (as scraped: with or without table.sort): for every order in which
   next() delivers a table with distinct keys the sequence yielded is the same ... *)
Theorem C07_ospairs_order_free :
  forall V (e e' : list (lkey * V)),
    NoDup (map fst e) -> Permutation e e' -> ospairs_impl OSPAIRS_SORTS e' = ospairs_impl OSPAIRS_SORTS e.
Proof. exact (@ospairs_order_free_lemma). Qed.
Print Assumptions C07_ospairs_order_free.

(* ... namely all string-keyed entries, once each, keys ascending in byte order *)
Theorem C07_ospairs_yields_sorted_entries :
  forall V (e : list (lkey * V)),
    NoDup (map fst e) ->
    map fst (ospairs_impl OSPAIRS_SORTS e) = ssort (str_keys e) /\
    Sorted sle (map fst (ospairs_impl OSPAIRS_SORTS e)) /\
    (forall k v, In (k, v) (ospairs_impl OSPAIRS_SORTS e) <-> In (KStr k, v) e).
Proof. exact (@ospairs_keys_sorted_lemma). Qed.
Print Assumptions C07_ospairs_yields_sorted_entries.

(* utils/memoize.lua: if the argument match is an equivalence, every sequence of calls returns
   the same results and evaluates f equally often whatever order pairs(cache) uses at each call *)
Theorem C07_memoize_order_free :
  forall A R (eqv : A -> A -> bool) (f : A -> R),
    (forall a, eqv a a = true) ->
    (forall a b, eqv a b = true -> eqv b a = true) ->
    (forall a b c, eqv a b = true -> eqv b c = true -> eqv a c = true) ->
    forall args perms perms' c c' n,
      Forall (is_perm A R) perms -> Forall (is_perm A R) perms' -> good A R eqv c -> Permutation c c' ->
      memo_run A R eqv f perms c n args = memo_run A R eqv f perms' c' n args.
Proof. exact memo_run_order_free_lemma. Qed.
Print Assumptions C07_memoize_order_free.

(* f runs once per equivalence class of arguments *)
Theorem C07_memoize_once_per_class :
  forall A R (eqv : A -> A -> bool) (f : A -> R) args perms c n,
    Forall (is_perm A R) perms ->
    snd (memo_run A R eqv f perms c n args) = (n + new_classes A eqv (map fst c) args)%nat.
Proof. exact memo_run_evaluations_lemma. Qed.
Print Assumptions C07_memoize_once_per_class.

(* the equivalence premise discharged for the Lua value model (numbers, strings, nil, metatable-free
   tables matched by identity or shallow comparison) on well-formed argument lists: the same table
   object has the same fields ([tabs] gives the content of each identity) *)
Theorem C07_memoize_order_free_lua_values :
  forall (tabs : Z -> list (Z * Z)) (R : Type) (f : wargs tabs -> R) args perms perms' c c' n,
    Forall (is_perm (wargs tabs) R) perms -> Forall (is_perm (wargs tabs) R) perms' ->
    good (wargs tabs) R (weqv tabs) c -> Permutation c c' ->
    memo_run (wargs tabs) R (weqv tabs) f perms c n args = memo_run (wargs tabs) R (weqv tabs) f perms' c' n args.
Proof. exact memoize_order_free_lua_lemma. Qed.
Print Assumptions C07_memoize_order_free_lua_values.

(* symbol.lua Symbol:is_used = reachability of a root-used symbol, for every order of the usedby
   tables (fuel exhaustion, None, is excluded by the premise) *)
Theorem C07_is_used_is_reachability :
  forall usedby root cached fuel x b,
    is_used usedby root cached fuel x = Some b -> (b = true <-> reach usedby root cached x).
Proof. exact is_used_reach_lemma. Qed.
Print Assumptions C07_is_used_is_reachability.

Theorem C07_is_used_order_free :
  forall usedby usedby' root cached fuel fuel' x b b',
    (forall n, Permutation (usedby n) (usedby' n)) ->
    is_used usedby root cached fuel x = Some b -> is_used usedby' root cached fuel' x = Some b' -> b = b'.
Proof. exact is_used_order_free_lemma. Qed.
Print Assumptions C07_is_used_order_free.

(* the fuel of the model is not a restriction: with one unit per symbol (+1) the search always
   finishes, and its answer is reachability *)
Theorem C07_is_used_total :
  forall usedby root cached universe,
    (forall x y, In x universe -> In y (usedby x) -> In y universe) ->
    forall x, In x universe ->
      exists b, is_used usedby root cached (S (length universe)) x = Some b /\
                (b = true <-> reach usedby root cached x).
Proof.
  intros usedby root cached universe CL x I.
  pose proof (is_used_total_lemma usedby root cached universe CL x I) as T.
  destruct (is_used usedby root cached (S (length universe)) x) as [b|] eqn:E; [|congruence].
  exists b. split; auto. eapply is_used_reach_lemma; eauto.
Qed.
Print Assumptions C07_is_used_total.

(* what dead-code elimination runs: is_used(true) on symbol after symbol, caching each answer; with a
   sound cache every answer is reachability in the uncached graph *)
Theorem C07_is_used_all_is_reachability :
  forall usedby root fuel xs cached,
    sound usedby root cached ->
    Forall2 (fun x r => forall b, r = Some b -> (b = true <-> reach0 usedby root x)) xs (is_used_all usedby root cached fuel xs).
Proof. intros; apply is_used_all_lemma; assumption. Qed.
Print Assumptions C07_is_used_all_is_reachability.

(* types.lua Type:_init: equal codenames get equal ids (the ids themselves follow the ORDER of the first
   initialisations - ProofsIds.typeid_depends_on_init_order - so their determinism is the determinism of the
   traversal, which is observed by the differential compilations, not proved) *)
Theorem C07_typeid_same_codename_same_id :
  forall inits seen counter i j c,
    nth_error inits i = Some c -> nth_error inits j = Some c ->
    nth_error (assign_ids seen counter inits) i = nth_error (assign_ids seen counter inits) j.
Proof. exact typeid_same_codename_same_id_lemma. Qed.
Print Assumptions C07_typeid_same_codename_same_id.

(* scope.lua resolve_symbols iterated to a fixpoint: CONDITIONAL on the undischarged hypothesis
   [resolve_steps_commute] about the real resolve_type / forced resolution *)
Theorem C07_resolve_symbols_order_free_conditional :
  forall S (resolve force : Z -> S -> option S) (syms : list Z),
    resolve_steps_commute S resolve force syms ->
    forall orders orders' s n n',
      Forall (fun o => incl o syms /\ incl syms o) orders ->
      Forall (fun o => incl o syms /\ incl syms o) orders' ->
      resolve_fix S resolve force orders s = Some n ->
      resolve_fix S resolve force orders' s = Some n' -> n = n'.
Proof. exact resolve_order_free_conditional_lemma. Qed.
Print Assumptions C07_resolve_symbols_order_free_conditional.

(* ... and the hypothesis is DISCHARGED for an ABSTRACT dependency-driven resolution: the state is only the
   set of resolved symbols (no types: each symbol's type is taken to be determined by the symbol once
   its dependencies are resolved), every symbol resolves as soon as all it depends on are resolved,
   nothing is forced.  This says that the least fixpoint of such a closure is unique; it is NOT
   corresponded against resolve_type.
   For this class the fixpoint is order-free unconditionally.  (Inference that chooses among several
   possible types, and the forced fallback, stay outside: there the hypothesis remains undischarged.) *)
Theorem C07_resolve_symbols_order_free_dependency_driven_abstract :
  forall (deps : Z -> list Z) (syms : list Z) orders orders' s n n',
    Forall (fun o => incl o syms /\ incl syms o) orders ->
    Forall (fun o => incl o syms /\ incl syms o) orders' ->
    resolve_fix (list Z) (dd_resolve deps) dd_force orders s = Some n ->
    resolve_fix (list Z) (dd_resolve deps) dd_force orders' s = Some n' -> n = n'.
Proof. exact dependency_driven_order_free. Qed.
Print Assumptions C07_resolve_symbols_order_free_dependency_driven_abstract.
