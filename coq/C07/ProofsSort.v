(* ospairs: the sequence it yields is the string-keyed entries sorted by key, for every order in
   which next() delivers the table. *)
From Coq Require Import ZArith Bool List Lia Permutation Sorted.
From C07 Require Import Model.
Import ListNotations.
Local Open Scope Z_scope.

(* ---------- the byte-lexicographic order is a strict total order ---------- *)
Lemma str_ltb_irrefl a : str_ltb a a = false.
Proof. induction a as [|x a IH]; simpl; auto. rewrite Z.ltb_irrefl. exact IH. Qed.

Lemma str_ltb_trans a b c : str_ltb a b = true -> str_ltb b c = true -> str_ltb a c = true.
Proof.
  revert b c; induction a as [|x a IH]; intros [|y b] [|z c]; simpl; try discriminate; auto.
  destruct (Z.ltb_spec x y), (Z.ltb_spec y x), (Z.ltb_spec y z), (Z.ltb_spec z y),
    (Z.ltb_spec x z), (Z.ltb_spec z x); try discriminate; try lia; auto.
  intros; eapply IH; eauto.
Qed.

Lemma str_ltb_total a b : str_ltb a b = false -> str_ltb b a = false -> a = b.
Proof.
  revert b; induction a as [|x a IH]; intros [|y b]; simpl; try discriminate; auto.
  destruct (Z.ltb_spec x y), (Z.ltb_spec y x); try discriminate; try lia.
  intros A B. assert (x = y) by lia. subst. f_equal. apply IH; auto.
Qed.

Lemma str_ltb_asym a b : str_ltb a b = true -> str_ltb b a = false.
Proof.
  intros A. destruct (str_ltb b a) eqn:B; auto.
  pose proof (str_ltb_trans _ _ _ A B) as C. rewrite str_ltb_irrefl in C. discriminate.
Qed.

Lemma str_leb_refl a : str_leb a a = true.
Proof. unfold str_leb. rewrite str_ltb_irrefl. reflexivity. Qed.
Lemma str_leb_total a b : str_leb a b = true \/ str_leb b a = true.
Proof.
  unfold str_leb. destruct (str_ltb b a) eqn:E; auto. right. rewrite (str_ltb_asym _ _ E). reflexivity.
Qed.
Lemma str_leb_antisym a b : str_leb a b = true -> str_leb b a = true -> a = b.
Proof. unfold str_leb. rewrite !negb_true_iff. intros; apply str_ltb_total; auto. Qed.
Lemma str_leb_trans a b c : str_leb a b = true -> str_leb b c = true -> str_leb a c = true.
Proof.
  unfold str_leb. rewrite !negb_true_iff. intros A B.
  destruct (str_ltb c a) eqn:C; auto.
  (* c < a, not b < a, not c < b *)
  destruct (str_ltb a b) eqn:D.
  - pose proof (str_ltb_trans _ _ _ C D). congruence.
  - assert (a = b) by (apply str_ltb_total; auto). subst. congruence.
Qed.
Lemma str_leb_false a b : str_leb a b = false -> str_leb b a = true.
Proof. destruct (str_leb_total a b); [congruence|auto]. Qed.

Lemma str_eqb_eq a b : str_eqb a b = true <-> a = b.
Proof.
  revert b; induction a as [|x a IH]; intros [|y b]; simpl; split; try discriminate; auto.
  - rewrite andb_true_iff, Z.eqb_eq, IH. intros [-> ->]; reflexivity.
  - intros E; inversion E; subst. rewrite Z.eqb_refl. apply IH. reflexivity.
Qed.

(* ---------- insertion sort: permutation, sorted, insensitive to the input order ---------- *)
Lemma sinsert_perm k l : Permutation (sinsert k l) (k :: l).
Proof.
  induction l as [|h t IH]; simpl; auto. destruct (str_leb k h); auto.
  rewrite IH. apply perm_swap.
Qed.
Lemma ssort_perm l : Permutation (ssort l) l.
Proof. induction l as [|h t IH]; simpl; auto. rewrite sinsert_perm. auto. Qed.

Definition sle (a b : str) : Prop := str_leb a b = true.

Lemma sinsert_sorted k l : Sorted sle l -> Sorted sle (sinsert k l).
Proof.
  induction l as [|h t IH]; simpl; intros S; [repeat constructor|].
  destruct (str_leb k h) eqn:E.
  - constructor; [exact S|constructor; exact E].
  - inversion S as [|? ? S' HR]; subst. constructor; [apply IH; exact S'|].
    destruct t as [|h2 t2]; simpl.
    + constructor. apply str_leb_false; auto.
    + destruct (str_leb k h2); constructor; [apply str_leb_false; auto|inversion HR; auto].
Qed.
Lemma ssort_sorted l : Sorted sle (ssort l).
Proof. induction l; simpl; [constructor|apply sinsert_sorted; auto]. Qed.

Lemma sinsert_comm a b l : sinsert a (sinsert b l) = sinsert b (sinsert a l).
Proof.
  induction l as [|h t IH]; simpl.
  - destruct (str_leb a b) eqn:AB, (str_leb b a) eqn:BA; auto.
    + rewrite (str_leb_antisym _ _ AB BA). reflexivity.
    + apply str_leb_false in AB. congruence.
  - destruct (str_leb b h) eqn:BH, (str_leb a h) eqn:AH; simpl.
    + destruct (str_leb a b) eqn:AB, (str_leb b a) eqn:BA; simpl; rewrite ?AH, ?BH; auto.
      * rewrite (str_leb_antisym _ _ AB BA). reflexivity.
      * apply str_leb_false in AB. congruence.
    + (* b <= h < a *)
      rewrite BH.
      destruct (str_leb a b) eqn:AB.
      * pose proof (str_leb_trans _ _ _ AB BH). congruence.
      * simpl. rewrite AH. reflexivity.
    + rewrite AH.
      destruct (str_leb b a) eqn:BA.
      * pose proof (str_leb_trans _ _ _ BA AH). congruence.
      * simpl. rewrite BH. reflexivity.
    + rewrite AH, BH. f_equal. exact IH.
Qed.

Theorem ssort_order_free l l' : Permutation l l' -> ssort l = ssort l'.
Proof.
  induction 1; simpl; auto.
  - congruence.
  - apply sinsert_comm.
  - congruence.
Qed.

(* ---------- lookup does not depend on the order when keys are distinct ---------- *)
Lemma lookup_in {V} (e : list (lkey * V)) k v :
  NoDup (map fst e) -> In (KStr k, v) e -> lookup e k = Some v.
Proof.
  induction e as [|[k0 v0] r IH]; simpl; [tauto|]. intros ND [E|I].
  - inversion E; subst. rewrite (proj2 (str_eqb_eq k k) eq_refl). reflexivity.
  - inversion ND; subst. destruct k0 as [s|n]; [|apply IH; auto].
    destruct (str_eqb s k) eqn:E; [|apply IH; auto].
    apply str_eqb_eq in E; subst. exfalso. apply H1. change (KStr k) with (fst (KStr k, v)). apply in_map; auto.
Qed.

Lemma lookup_some_in {V} (e : list (lkey * V)) k v : lookup e k = Some v -> In (KStr k, v) e.
Proof.
  induction e as [|[k0 v0] r IH]; simpl; [discriminate|]. destruct k0 as [s|n]; [|auto].
  destruct (str_eqb s k) eqn:E; [|auto]. apply str_eqb_eq in E; subst. intros X; inversion X; auto.
Qed.

Lemma lookup_perm {V} (e e' : list (lkey * V)) k :
  Permutation e e' -> NoDup (map fst e) -> lookup e k = lookup e' k.
Proof.
  intros P ND. assert (ND' : NoDup (map fst e')) by (eapply Permutation_NoDup; [apply Permutation_map; exact P|exact ND]).
  destruct (lookup e k) as [v|] eqn:L.
  - symmetry. apply lookup_in; auto. eapply Permutation_in; [exact P|]. apply lookup_some_in; auto.
  - destruct (lookup e' k) as [v'|] eqn:L'; auto.
    apply lookup_some_in in L'. apply Permutation_sym in P. pose proof (Permutation_in _ P L') as I.
    rewrite (lookup_in _ _ _ ND I) in L. discriminate.
Qed.

Lemma str_keys_perm {V} (e e' : list (lkey * V)) : Permutation e e' -> Permutation (str_keys e) (str_keys e').
Proof. intros P. unfold str_keys. apply Permutation_flat_map; auto. Qed.

Lemma ospairs_iter_ext {V} (e e' : list (lkey * V)) ks :
  (forall k, lookup e k = lookup e' k) -> ospairs_iter e ks = ospairs_iter e' ks.
Proof. intros L. induction ks as [|k r IH]; simpl; auto. rewrite L, IH. reflexivity. Qed.

Theorem ospairs_order_free_lemma {V} (e e' : list (lkey * V)) :
  NoDup (map fst e) -> Permutation e e' -> ospairs e' = ospairs e.
Proof.
  intros ND P. unfold ospairs, ospairs_impl.
  rewrite (ssort_order_free _ _ (str_keys_perm _ _ (Permutation_sym P))).
  apply ospairs_iter_ext. intros k. symmetry. apply lookup_perm; auto.
Qed.

(* ---------- what it yields: every string entry, once, keys ascending ---------- *)
Lemma in_str_keys {V} (e : list (lkey * V)) k : In k (str_keys e) <-> exists v, In (KStr k, v) e.
Proof.
  unfold str_keys. rewrite in_flat_map. split.
  - intros [[k0 v] [I J]]. destruct k0; simpl in J; [|tauto]. destruct J as [<-|[]]. eauto.
  - intros [v I]. exists (KStr k, v). simpl. auto.
Qed.

Lemma ospairs_iter_complete {V} (e : list (lkey * V)) ks :
  NoDup (map fst e) -> (forall k, In k ks -> In k (str_keys e)) -> map fst (ospairs_iter e ks) = ks.
Proof.
  intros ND. induction ks as [|k r IH]; simpl; auto. intros A.
  destruct (proj1 (in_str_keys e k) (A k (or_introl eq_refl))) as [v I].
  rewrite (lookup_in _ _ _ ND I). simpl. f_equal. apply IH. auto.
Qed.

Lemma ospairs_iter_in {V} (e : list (lkey * V)) ks k v :
  (forall k', In k' ks -> lookup e k' <> None) ->
  (In (k, v) (ospairs_iter e ks) <-> In k ks /\ lookup e k = Some v).
Proof.
  induction ks as [|k0 r IH]; simpl; intros A; [tauto|].
  destruct (lookup e k0) as [v0|] eqn:L; [|exfalso; apply (A k0); auto].
  simpl. rewrite IH by auto. split.
  - intros [E|[I J]]; [inversion E; subst; auto|auto].
  - intros [[->|I] J]; [left; congruence|auto].
Qed.

Theorem ospairs_keys_sorted_lemma {V} (e : list (lkey * V)) :
  NoDup (map fst e) ->
  map fst (ospairs e) = ssort (str_keys e) /\ Sorted sle (map fst (ospairs e)) /\
  (forall k v, In (k, v) (ospairs e) <-> In (KStr k, v) e).
Proof.
  intros ND. unfold ospairs, ospairs_impl.
  assert (KS : forall k, In k (ssort (str_keys e)) <-> In k (str_keys e)).
  { intros k; split; intros I; [eapply Permutation_in; [apply ssort_perm|exact I]
                               |eapply Permutation_in; [apply Permutation_sym, ssort_perm|exact I]]. }
  assert (C : map fst (ospairs_iter e (ssort (str_keys e))) = ssort (str_keys e)).
  { apply ospairs_iter_complete; auto. intros k I. apply KS; auto. }
  split; [exact C|]. split; [rewrite C; apply ssort_sorted|].
  intros k v. rewrite ospairs_iter_in.
  - rewrite KS, in_str_keys. split.
    + intros [_ L]. apply lookup_some_in; auto.
    + intros I. split; [eauto|apply lookup_in; auto].
  - intros k' I%KS%in_str_keys. destruct I as [v' I]. rewrite (lookup_in _ _ _ ND I). discriminate.
Qed.
