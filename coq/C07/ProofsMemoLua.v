(* The equivalence premise of memoize_order_free DISCHARGED for the Lua value model (numbers, strings,
   nil, metatable-free tables matched by identity or by shallow comparison), on well-formed argument
   lists: a table identity determines its content (the same table object has the same fields). *)
From Coq Require Import ZArith Bool List Lia Permutation.
From C07 Require Import Model ProofsSort ProofsMemo.
Import ListNotations.
Local Open Scope Z_scope.

Lemma zlookup_in c k v : zlookup c k = Some v -> In (k, v) c.
Proof.
  induction c as [|[k' v'] r IH]; simpl; [discriminate|]. destruct (Z.eqb_spec k' k).
  - intros E; inversion E; subst; auto.
  - auto.
Qed.
Lemma half_shallow_spec c d : half_shallow c d = true <-> forall k v, In (k, v) c -> zlookup d k = Some v.
Proof.
  unfold half_shallow. rewrite forallb_forall. split.
  - intros A k v I. specialize (A (k, v) I). simpl in A. destruct (zlookup d k) as [v'|]; [|discriminate].
    apply Z.eqb_eq in A. congruence.
  - intros A [k v] I. simpl. rewrite (A k v I). apply Z.eqb_refl.
Qed.
Lemma shallow_sym c d : shallow_compare c d = shallow_compare d c.
Proof. unfold shallow_compare. apply andb_comm. Qed.
Lemma half_shallow_trans c d e : half_shallow c d = true -> half_shallow d e = true -> half_shallow c e = true.
Proof.
  rewrite !half_shallow_spec. intros A B k v I. apply B. apply zlookup_in. apply A. exact I.
Qed.
Lemma shallow_trans c d e : shallow_compare c d = true -> shallow_compare d e = true -> shallow_compare c e = true.
Proof.
  unfold shallow_compare. rewrite !andb_true_iff. intros [A1 A2] [B1 B2].
  split; eapply half_shallow_trans; eauto.
Qed.

Section WellFormed.
  Variable tabs : Z -> list (Z * Z).          (* the content of the table object with a given identity *)
  Definition wf_val (v : lval) : Prop := match v with VTab i c => c = tabs i | _ => True end.
  Definition wf_args (l : list lval) : Prop := Forall wf_val l.

  Lemma str_eqb_refl s : str_eqb s s = true.
  Proof. apply str_eqb_eq. reflexivity. Qed.

  Lemma lval_eqb_refl v : lval_eqb v v = true.
  Proof. destruct v; simpl; auto using Z.eqb_refl, str_eqb_refl. rewrite Z.eqb_refl. reflexivity. Qed.
  Lemma lval_eqb_sym a b : lval_eqb a b = true -> lval_eqb b a = true.
  Proof.
    destruct a, b; simpl; try discriminate; auto.
    - rewrite !Z.eqb_eq; congruence.
    - rewrite !str_eqb_eq; congruence.
    - rewrite (Z.eqb_sym id0 id), (shallow_sym content0 content). auto.
  Qed.
  Lemma lval_eqb_trans a b c : wf_val a -> wf_val b -> wf_val c ->
    lval_eqb a b = true -> lval_eqb b c = true -> lval_eqb a c = true.
  Proof.
    destruct a, b, c; simpl; try discriminate; auto.
    - rewrite !Z.eqb_eq; congruence.
    - rewrite !str_eqb_eq; congruence.
    - intros -> -> ->. rewrite !orb_true_iff, !Z.eqb_eq.
      intros [->|A] [->|B]; auto. right. eapply shallow_trans; eauto.
  Qed.

  Lemma largs_eqb_refl l : largs_eqb l l = true.
  Proof. induction l; simpl; auto. rewrite lval_eqb_refl. auto. Qed.
  Lemma largs_eqb_sym a : forall b, largs_eqb a b = true -> largs_eqb b a = true.
  Proof.
    induction a as [|x a IH]; intros [|y b]; simpl; try discriminate; auto.
    rewrite !andb_true_iff. intros [A B]. split; [apply lval_eqb_sym|apply IH]; auto.
  Qed.
  Lemma largs_eqb_trans a : forall b c, wf_args a -> wf_args b -> wf_args c ->
    largs_eqb a b = true -> largs_eqb b c = true -> largs_eqb a c = true.
  Proof.
    induction a as [|x a IH]; intros [|y b] [|z c]; simpl; try discriminate; auto.
    intros Wa Wb Wc. inversion Wa; inversion Wb; inversion Wc; subst.
    rewrite !andb_true_iff. intros [A1 A2] [B1 B2]. split.
    - eapply lval_eqb_trans with (b := y); eauto.
    - eapply IH with (b := b); eauto.
  Qed.

  (* well-formed argument lists as a type, so that the general theorem applies as it stands *)
  Definition wargs := { l : list lval | wf_args l }.
  Definition weqv (a b : wargs) : bool := largs_eqb (proj1_sig a) (proj1_sig b).

  Theorem memoize_order_free_lua_lemma (R : Type) (f : wargs -> R) :
    forall args perms perms' c c' n,
      Forall (is_perm wargs R) perms -> Forall (is_perm wargs R) perms' -> good wargs R weqv c -> Permutation c c' ->
      memo_run wargs R weqv f perms c n args = memo_run wargs R weqv f perms' c' n args.
  Proof.
    apply memo_run_order_free_lemma; unfold weqv.
    - intros a. apply largs_eqb_refl.
    - intros a b. apply largs_eqb_sym.
    - intros [a Wa] [b Wb] [c Wc]; simpl. apply largs_eqb_trans; auto.
  Qed.
End WellFormed.

(* and why well-formedness is needed: one table identity with two contents breaks transitivity *)
Example match_not_transitive_on_ill_formed_values :
  lval_eqb (VTab 1 [(1, 1)]) (VTab 1 [(1, 2)]) = true /\
  lval_eqb (VTab 1 [(1, 2)]) (VTab 2 [(1, 2)]) = true /\
  lval_eqb (VTab 1 [(1, 1)]) (VTab 2 [(1, 2)]) = false.
Proof. vm_compute. auto. Qed.
