(* C08 - the compile cache of nelua-lang (ccompiler.lua compile_code / compile_binary, runner.lua)
   as a state machine over a cache directory with second-granular modification times.

   What is mirrored (one function at a time):
     compiler.compile_code   -> [compile_code]   (heading with command + hash; rewrite only when
                                                   the text differs or --no-cache)
     compiler.compile_binary -> [compile_binary] (reuse iff not --no-cache and
                                                   cfile_mtime <=/< binfile_mtime and size > 0)
     runner.run (slot naming, -o)               -> [bp_of], [i_slot], [i_out]
     fs.getmodtime / lfs st_mtime (whole seconds) -> [sec]
   The comparison operator, the presence of the hash in the heading, the size test and the two
   places where a repair could switch the cache off are fields of [policy]; the values of the
   current source are scraped into Gen.v (GENPOL).  No proofs in this file. *)
From Coq Require Import ZArith Bool List.
Import ListNotations.
Local Open Scope Z_scope.

Record policy := mkPol {
  p_le : bool;            (* reuse test is cfile_mtime <= binfile_mtime (true) or < (false) *)
  p_head_hash : bool;     (* the heading carries hash(code .. ccinfo .. command) *)
  p_size_chk : bool;      (* reuse requires binfile_size > 0 *)
  p_reuse_out : bool;     (* binaries named with -o may be reused (current code: yes) *)
  p_nohead_cache : bool;  (* invocations with pragma nocheading may reuse binaries (current code: yes) *)
  p_del_rewrite : bool    (* compile_code deletes <cache>/<slot> when it rewrites <cache>/<slot>.c (current code: no) *)
}.

(* what the C compiler is given: generated C code, command (flags), compiler identity (ccinfo) *)
Definition built := (Z * Z * Z)%type.
Definition hashv := (Z * Z * Z)%type.          (* codomain of the hash function (BLAKE2b in reality) *)
(* text of the cached C file: optional heading (command, optional hash) ++ code *)
Definition text := (option (Z * option hashv) * Z)%type.

Record inv := mkInv {
  i_slot : Z;             (* basename of the input (or hash of the eval text): names <cache>/<slot>.c *)
  i_out : option Z;       (* -o <file>; None = <cache>/<slot> *)
  i_code : Z;             (* generated C code (function of sources, required modules, -D/-P, pragmas) *)
  i_cmd : Z;              (* compiler command (cc name, cflags, --release ...) *)
  i_cc : Z;               (* the WORLD the C compiler reads besides the C file: the compiler behind the cc name and
                             the headers / extra C files it includes; nelua only sees [ccinfo_of] of it *)
  i_nohead : bool;        (* pragma nocheading *)
  i_nocache : bool        (* --no-cache *)
}.

Record cfile := mkCf { cf_text : text; cf_mtime : Z }.
Record bin := mkBin { b_built : built; b_mtime : Z; b_size : Z }.
Inductive bpath := BCache (slot : Z) | BOut (o : Z).

Record st := mkSt {
  clock : Z;                         (* sub-second ticks *)
  cfiles : Z -> option cfile;
  bins : bpath -> option bin;
  lastb : Z;                         (* ghost: tick at which a binary was last written *)
  outowner : Z -> option Z           (* ghost: slot that first used output file o *)
}.

Inductive step :=
| Advance (d : Z)                    (* time passes *)
| Run (i : inv) (dur : Z)            (* one compiler invocation; a build, if any, takes dur ticks *)
| Interrupt (i : inv) (dur : Z)      (* same, but a build, if any, is killed leaving an empty file *)
| CodeOnly (i : inv).                (* nelua --code: only the C file of the slot is (re)generated *)

Inductive outcome :=
| OBuildFail                         (* C compilation failed, nothing ran *)
| ORan (b : built)                   (* a binary built from b ran *)
| OExecFail                          (* an empty binary was served *)
| OKilled                            (* the build was interrupted, nothing ran *)
| OCodeOnly.                         (* --code: nothing is built or run *)

Record obs := mkObs { o_cgen_cached : bool; o_bin_cached : bool; o_out : outcome }.

Definition zopt_eqb (a b : option Z) : bool :=
  match a, b with Some x, Some y => x =? y | None, None => true | _, _ => false end.
Definition triple_eqb (a b : Z * Z * Z) : bool :=
  let '(a1, a2, a3) := a in let '(b1, b2, b3) := b in (a1 =? b1) && (a2 =? b2) && (a3 =? b3).
Definition hopt_eqb (a b : option hashv) : bool :=
  match a, b with Some x, Some y => triple_eqb x y | None, None => true | _, _ => false end.
Definition head_eqb (a b : option (Z * option hashv)) : bool :=
  match a, b with
  | Some (c1, h1), Some (c2, h2) => (c1 =? c2) && hopt_eqb h1 h2
  | None, None => true
  | _, _ => false
  end.
Definition text_eqb (a b : text) : bool := head_eqb (fst a) (fst b) && (snd a =? snd b).
Definition bpath_eqb (a b : bpath) : bool :=
  match a, b with BCache x, BCache y => x =? y | BOut x, BOut y => x =? y | _, _ => false end.
Definition outcome_eqb (a b : outcome) : bool :=
  match a, b with
  | OBuildFail, OBuildFail => true
  | ORan x, ORan y => triple_eqb x y
  | OExecFail, OExecFail => true
  | OKilled, OKilled => true
  | OCodeOnly, OCodeOnly => true
  | _, _ => false
  end.

Definition upd_cf (f : Z -> option cfile) (k : Z) (v : cfile) : Z -> option cfile :=
  fun k' => if k' =? k then Some v else f k'.
Definition upd_bin (f : bpath -> option bin) (k : bpath) (v : bin) : bpath -> option bin :=
  fun k' => if bpath_eqb k' k then Some v else f k'.
Definition del_bin (f : bpath -> option bin) (k : bpath) : bpath -> option bin :=
  fun k' => if bpath_eqb k' k then None else f k'.
Definition upd_owner (f : Z -> option Z) (k : Z) (v : Z) : Z -> option Z :=
  fun k' => if k' =? k then Some v else f k'.

Section Machine.
  Variable H : Z -> Z -> Z -> hashv.        (* hash(code, ccinfo, command) *)
  Variable ccinfo_of : Z -> Z.              (* what the target-info probe (cc -E) reveals of the world *)
  Variable cc_ok : built -> bool.           (* does the C compilation succeed *)
  Variable pol : policy.
  Variable tps : Z.                         (* ticks per second; mtimes are whole seconds *)

  Definition sec (t : Z) : Z := t / tps.

  Definition cur (i : inv) : built := (i_code i, i_cmd i, i_cc i).

  (* ccompiler.lua compile_code: heading .. ccode *)
  Definition mk_text (i : inv) : text :=
    (if i_nohead i then None
     else Some (i_cmd i, if p_head_hash pol then Some (H (i_code i) (ccinfo_of (i_cc i)) (i_cmd i)) else None),
     i_code i).

  Definition bp_of (i : inv) : bpath :=
    match i_out i with Some o => BOut o | None => BCache (i_slot i) end.

  Definition cmp_mtime (cfm bm : Z) : bool := if p_le pol then cfm <=? bm else cfm <? bm.

  Definition is_none {A} (o : option A) : bool := match o with None => true | Some _ => false end.

  Definition cache_allowed (i : inv) : bool :=
    negb (i_nocache i) && (p_reuse_out pol || is_none (i_out i)) && (p_nohead_cache pol || negb (i_nohead i)).

  (* compile_code: returns the state, the C file as it is afterwards, and "using cached generated" *)
  Definition compile_code (s : st) (i : inv) : st * cfile * bool :=
    let txt := mk_text i in
    let fresh := mkCf txt (sec (clock s)) in
    let bins' := if p_del_rewrite pol then del_bin (bins s) (BCache (i_slot i)) else bins s in
    let write := (mkSt (clock s) (upd_cf (cfiles s) (i_slot i) fresh) bins' (lastb s) (outowner s), fresh, false) in
    match cfiles s (i_slot i) with
    | Some cf => if negb (i_nocache i) && text_eqb (cf_text cf) txt then (s, cf, true) else write
    | None => write
    end.

  Definition reuse_ok (s : st) (i : inv) (cf : cfile) : bool :=
    cache_allowed i &&
    match bins s (bp_of i) with
    | Some b => cmp_mtime (cf_mtime cf) (b_mtime b) && (negb (p_size_chk pol) || (0 <? b_size b))
    | None => false
    end.

  Definition note_owner (s : st) (i : inv) : Z -> option Z :=
    match i_out i with
    | Some o => match outowner s o with None => upd_owner (outowner s) o (i_slot i) | Some _ => outowner s end
    | None => outowner s
    end.

  (* compile_binary followed by the execution of the binary *)
  Definition compile_binary (s : st) (i : inv) (cf : cfile) (dur : Z) (kill : bool) : st * bool * outcome :=
    let own := note_owner s i in
    if reuse_ok s i cf then
      (mkSt (clock s) (cfiles s) (bins s) (lastb s) own, true,
       match bins s (bp_of i) with
       | Some b => if 0 <? b_size b then ORan (b_built b) else OExecFail
       | None => OExecFail
       end)
    else
      let t' := clock s + Z.max 0 dur in
      let bt : built := (snd (cf_text cf), i_cmd i, i_cc i) in
      if kill then
        (mkSt t' (cfiles s) (upd_bin (bins s) (bp_of i) (mkBin bt (sec t') 0)) t' own, false, OKilled)
      else if cc_ok bt then
        (mkSt t' (cfiles s) (upd_bin (bins s) (bp_of i) (mkBin bt (sec t') 1)) t' own, false, ORan bt)
      else
        (mkSt t' (cfiles s) (bins s) (lastb s) own, false, OBuildFail).

  Definition do_run (s : st) (i : inv) (dur : Z) (kill : bool) : st * obs :=
    let '(s1, cf, cg) := compile_code s i in
    let '(s2, bc, out) := compile_binary s1 i cf dur kill in
    (s2, mkObs cg bc out).

  Definition init : st := mkSt 0 (fun _ => None) (fun _ => None) (- tps) (fun _ => None).

  Definition do_step (s : st) (x : step) : st * option (inv * obs) :=
    match x with
    | Advance d => (mkSt (clock s + Z.max 0 d) (cfiles s) (bins s) (lastb s) (outowner s), None)
    | Run i dur => let '(s', o) := do_run s i dur false in (s', Some (i, o))
    | Interrupt i dur => let '(s', o) := do_run s i dur true in (s', Some (i, o))
    | CodeOnly i =>
      match i_out i with
      | Some _ => (s, Some (i, mkObs false false OCodeOnly))     (* --code -o X writes X only: the slot is untouched *)
      | None => let '(s1, _, cg) := compile_code s i in (s1, Some (i, mkObs cg false OCodeOnly))
      end
    end.

  Fixpoint exec (s : st) (h : list step) : list (inv * obs) :=
    match h with
    | [] => []
    | x :: r => let '(s', o) := do_step s x in
                match o with Some io => io :: exec s' r | None => exec s' r end
    end.

  (* the same invocation with caching disabled in a fresh directory *)
  Definition expected (i : inv) : outcome := if cc_ok (cur i) then ORan (cur i) else OBuildFail.

  Definition fresh_obs (io : inv * obs) : bool :=
    match o_out (snd io) with
    | OKilled => true
    | OCodeOnly => true
    | x => outcome_eqb x (expected (fst io))
    end.

  Definition all_fresh (l : list (inv * obs)) : bool := forallb fresh_obs l.

  (* ---- hypotheses of the partial theorem, evaluated along the execution ---- *)

  (* would this invocation rewrite the C file *)
  Definition rewrites (s : st) (i : inv) : bool := negb (snd (compile_code s i)).

  (* weak spacing: a rewrite of the C file happens in a later second than the last binary write *)
  Definition spaced_weak (s : st) : bool := sec (lastb s) <? sec (clock s).
  (* DESIGN.md wording: at least one second after the last binary write *)
  Definition spaced_1s (s : st) : bool := lastb s + tps <=? clock s.

  Definition owner_ok (s : st) (i : inv) : bool :=
    match i_out i with
    | Some o => match outowner s o with Some sl => sl =? i_slot i | None => true end
    | None => true
    end.

  Definition inv_ok (spaced : st -> bool) (s : st) (i : inv) : bool :=
    (negb (p_le pol) || (p_del_rewrite pol && negb (p_reuse_out pol)) || negb (rewrites s i) || spaced s) &&
    (negb (p_reuse_out pol) || owner_ok s i) &&
    (negb (p_nohead_cache pol) || negb (i_nohead i)).

  Definition step_ok (spaced : st -> bool) (s : st) (x : step) : bool :=
    match x with
    | Advance _ => true
    | Run i _ => inv_ok spaced s i
    | Interrupt i _ => inv_ok spaced s i
    | CodeOnly i => inv_ok spaced s i
    end.

  Fixpoint hyps_ok (spaced : st -> bool) (s : st) (h : list step) : bool :=
    match h with
    | [] => true
    | x :: r => step_ok spaced s x && hyps_ok spaced (fst (do_step s x)) r
    end.

  (* per-step report for the replayer: observation, freshness, hypotheses *)
  Fixpoint exec_report (s : st) (h : list step) : list (option (obs * bool * bool * bool)) :=
    match h with
    | [] => []
    | x :: r =>
      let '(s', o) := do_step s x in
      (match o with
       | Some (i, ob) => Some (ob, fresh_obs (i, ob), step_ok spaced_weak s x, step_ok spaced_1s s x)
       | None => None
       end) :: exec_report s' r
    end.
End Machine.

(* What the heading hash sees of a world, for the worlds of the replayer: w = <compiler> + 10 * <version of
   a local header found in a cincdir directory> + 100 * <version of a header reached only through
   --cflags -I / of a `## cfile` extra C file>.  The target-info probe sees the compiler; since 304728c
   ([hashed], scraped into Gen.HEADERS_HASHED) the hash also covers the cincdir headers. *)
Definition vis (hashed : bool) (w : Z) : Z := if hashed then w mod 100 else w mod 10.

(* hash function used for extraction and witnesses: the identity on triples (injective) *)
Definition H_id (code cc cmd : Z) : hashv := (code, cc, cmd).
Definition H_inj (H : Z -> Z -> Z -> hashv) : Prop :=
  forall a b c a' b' c', H a b c = H a' b' c' -> a = a' /\ b = b' /\ c = c'.
