(* The step kinds of the property as edits of a build configuration, and how each shows in the text of
   the cached C file.  This discharges, for these kinds, what used to be an assumption of the cache
   model ("a change of behaviour changes the generated C or the command"): the heading carries the
   command literally, the file carries the generated C literally, and the behaviour of the binary is a
   function of (C file, command, what else the C compiler reads).  The one kind that escapes is an
   edit of what the C compiler reads besides the C file that ccinfo does not reflect (a header). *)
From Coq Require Import ZArith Bool List Lia.
From C08 Require Import Model Gen.
Import ListNotations.
Local Open Scope Z_scope.

Record config := mkCfg {
  c_main : Z;                (* text of the main source *)
  c_mods : list Z;           (* texts of the required modules *)
  c_defs : list Z;           (* -D definitions *)
  c_prag : list Z;           (* -P pragmas *)
  c_cflags : list Z;         (* --cflags / CFLAGS / ## cflags *)
  c_ldflags : list Z;        (* link options: --ldflags / LDFLAGS / ## ldflags / linkdir / linklib *)
  c_release : bool;          (* --release *)
  c_world : Z                (* the compiler behind the cc name and the headers / extra C files it reads *)
}.

Inductive edit :=
| EMain (z : Z) | EModule (k : nat) (z : Z) | EDefine (l : list Z) | EPragma (l : list Z)
| ECflags (l : list Z) | ELdflags (l : list Z) | ERelease (b : bool) | EWorld (w : Z).

Fixpoint set_nth (k : nat) (z : Z) (l : list Z) : list Z :=
  match l, k with
  | [], _ => []
  | _ :: t, O => z :: t
  | h :: t, S k' => h :: set_nth k' z t
  end.

Definition apply_edit (e : edit) (c : config) : config :=
  match e with
  | EMain z => mkCfg z (c_mods c) (c_defs c) (c_prag c) (c_cflags c) (c_ldflags c) (c_release c) (c_world c)
  | EModule k z => mkCfg (c_main c) (set_nth k z (c_mods c)) (c_defs c) (c_prag c) (c_cflags c) (c_ldflags c) (c_release c) (c_world c)
  | EDefine l => mkCfg (c_main c) (c_mods c) l (c_prag c) (c_cflags c) (c_ldflags c) (c_release c) (c_world c)
  | EPragma l => mkCfg (c_main c) (c_mods c) (c_defs c) l (c_cflags c) (c_ldflags c) (c_release c) (c_world c)
  | ECflags l => mkCfg (c_main c) (c_mods c) (c_defs c) (c_prag c) l (c_ldflags c) (c_release c) (c_world c)
  | ELdflags l => mkCfg (c_main c) (c_mods c) (c_defs c) (c_prag c) (c_cflags c) l (c_release c) (c_world c)
  | ERelease b => mkCfg (c_main c) (c_mods c) (c_defs c) (c_prag c) (c_cflags c) (c_ldflags c) b (c_world c)
  | EWorld w => mkCfg (c_main c) (c_mods c) (c_defs c) (c_prag c) (c_cflags c) (c_ldflags c) (c_release c) w
  end.

Section Edits.
  Variable gen : Z -> list Z -> list Z -> list Z -> Z.   (* the compiler front end: sources, -D, -P -> generated C *)
  Variable exec : Z -> list Z -> Z -> Z.                  (* behaviour of the binary the C compiler makes of (C file, command) in a world *)
  Variable hash : Z -> Z -> list Z -> Z.                  (* stringer.hash(code .. ccinfo .. command) *)
  Variable ccinfo_of : Z -> Z.
  Variables base rel dev : list Z.                        (* cflags_base, cflags_release, cflags_devel *)
  Variable covers : bool.    (* the heading records the command compile_binary executes (scraped: both use the same get_compiler_cflags) *)

  (* what compile_binary executes: base flags, the flags of the build mode, --cflags, then the link options *)
  Definition exec_cmd (c : config) : list Z := base ++ (if c_release c then rel else dev) ++ c_cflags c ++ c_ldflags c.
  (* what compile_code records in the heading *)
  Definition mkcmd (c : config) : list Z :=
    if covers then exec_cmd c else base ++ (if c_release c then rel else dev) ++ c_cflags c.
  Definition code_of (c : config) : Z := gen (c_main c) (c_mods c) (c_defs c) (c_prag c).
  (* compile_code: heading (command, hash) .. code *)
  Definition text_of (c : config) : list Z * Z * Z :=
    (mkcmd c, hash (code_of c) (ccinfo_of (c_world c)) (mkcmd c), code_of c).
  Definition behaviour (c : config) : Z := exec (code_of c) (exec_cmd c) (c_world c).

  Definition keeps_world (e : edit) : bool := match e with EWorld _ => false | _ => true end.

  (* edits of the source, of a required module, of -D / -P / --cflags / --release: if the behaviour
     changes, the text of the C file changes (so compile_code rewrites it) *)
  Theorem edit_shows_in_text_lemma e c :
    covers = true ->
    keeps_world e = true -> behaviour (apply_edit e c) <> behaviour c -> text_of (apply_edit e c) <> text_of c.
  Proof.
    intros CV K B T. apply B. unfold behaviour. unfold text_of, mkcmd in T. rewrite CV in T. inversion T as [[Tc Th Tg]].
    rewrite Tc, Tg. destruct e; simpl in *; try reflexivity; discriminate.
  Qed.

  (* if the heading does not record the link options, an edit of them alone leaves the text as it is *)
  Theorem link_edit_leaves_text_lemma l c :
    covers = false -> text_of (apply_edit (ELdflags l) c) = text_of c.
  Proof. intros CV. unfold text_of, mkcmd, code_of. rewrite CV. reflexivity. Qed.

  (* --cflags and --release always change the command that the heading records *)
  Theorem cflags_edit_changes_command_lemma l c : l <> c_cflags c -> mkcmd (apply_edit (ECflags l) c) <> mkcmd c.
  Proof.
    unfold mkcmd, exec_cmd; simpl. intros N E. destruct covers.
    - apply app_inv_head in E. apply app_inv_head in E. apply app_inv_tail in E. congruence.
    - apply app_inv_head in E. apply app_inv_head in E. congruence.
  Qed.
  Theorem ldflags_edit_changes_command_lemma l c :
    covers = true -> l <> c_ldflags c -> mkcmd (apply_edit (ELdflags l) c) <> mkcmd c.
  Proof.
    unfold mkcmd, exec_cmd; simpl. intros -> N E. do 3 apply app_inv_head in E. congruence.
  Qed.
  Theorem release_toggle_changes_command_lemma b c :
    rel <> dev -> b <> c_release c -> mkcmd (apply_edit (ERelease b) c) <> mkcmd c.
  Proof.
    unfold mkcmd, exec_cmd; simpl. intros N NB E. destruct covers.
    - apply app_inv_head in E. rewrite !app_assoc in E. do 2 apply app_inv_tail in E. destruct b, (c_release c); congruence.
    - apply app_inv_head in E. apply app_inv_tail in E. destruct b, (c_release c); congruence.
  Qed.

  (* a change of the compiler behind the cc name shows through the hash *)
  Theorem compiler_switch_changes_text_lemma w c :
    (forall a i k a' i' k', hash a i k = hash a' i' k' -> i = i') ->
    ccinfo_of w <> ccinfo_of (c_world c) -> text_of (apply_edit (EWorld w) c) <> text_of c.
  Proof.
    intros HI N T. unfold text_of in T; simpl in T. inversion T as [[Th]]. apply HI in Th. contradiction.
  Qed.

  (* the kind that escapes: a world change that ccinfo does not reflect leaves the text as it is *)
  Theorem header_edit_leaves_text_lemma w c :
    ccinfo_of w = ccinfo_of (c_world c) -> text_of (apply_edit (EWorld w) c) = text_of c.
  Proof. intros E. unfold text_of; simpl. rewrite E. reflexivity. Qed.
End Edits.

Lemma gcc_release_differs_from_devel : GCC_RELEASE_FLAGS <> GCC_DEVEL_FLAGS.
Proof. vm_compute. discriminate. Qed.

(* non-vacuity: a header edit that changes the behaviour and nothing nelua looks at *)
Example header_edit_changes_behaviour_only :
  let c := mkCfg 1 [] [] [] [] [] false 0 in
  let exec := fun (code : Z) (cmd : list Z) (w : Z) => code + w in
  behaviour (fun m _ _ _ => m) exec [] GCC_RELEASE_FLAGS GCC_DEVEL_FLAGS (apply_edit (EWorld 10) c)
    <> behaviour (fun m _ _ _ => m) exec [] GCC_RELEASE_FLAGS GCC_DEVEL_FLAGS c /\
  text_of (fun m _ _ _ => m) (fun _ _ _ => 0) (fun w => w mod 10) [] GCC_RELEASE_FLAGS GCC_DEVEL_FLAGS true (apply_edit (EWorld 10) c)
    = text_of (fun m _ _ _ => m) (fun _ _ _ => 0) (fun w => w mod 10) [] GCC_RELEASE_FLAGS GCC_DEVEL_FLAGS true c.
Proof. vm_compute. split; [discriminate|reflexivity]. Qed.

(* non-vacuity of the link-flag limit: with a heading that leaves the link options out, choosing another
   library directory changes what runs and nothing of the text *)
Example link_edit_changes_behaviour_only :
  let c := mkCfg 1 [] [] [] [] [1] false 0 in
  let exec := fun (code : Z) (cmd : list Z) (w : Z) => code + fold_right Z.add 0 cmd in
  behaviour (fun m _ _ _ => m) exec [] GCC_RELEASE_FLAGS GCC_DEVEL_FLAGS (apply_edit (ELdflags [2]) c)
    <> behaviour (fun m _ _ _ => m) exec [] GCC_RELEASE_FLAGS GCC_DEVEL_FLAGS c /\
  text_of (fun m _ _ _ => m) (fun _ _ _ => 0) (fun w => w) [] GCC_RELEASE_FLAGS GCC_DEVEL_FLAGS false (apply_edit (ELdflags [2]) c)
    = text_of (fun m _ _ _ => m) (fun _ _ _ => 0) (fun w => w) [] GCC_RELEASE_FLAGS GCC_DEVEL_FLAGS false c.
Proof. vm_compute. split; [discriminate|reflexivity]. Qed.

(* THE COVERING IS NEEDED: whatever the front end, the hash and the base flags are, a heading that leaves the
   link options out lets an edit through: choosing other link options changes what runs (a behaviour that
   depends on the command line, e.g. which libk08.a is linked) and nothing of the text.  So the statement
   of [edit_shows_in_text_lemma] holds for every behaviour only if the heading covers the executed command. *)
Theorem heading_covering_command_needed_lemma covers gen hash ccinfo_of base rel dev :
  (forall exec e c, keeps_world e = true ->
     behaviour gen exec base rel dev (apply_edit e c) <> behaviour gen exec base rel dev c ->
     text_of gen hash ccinfo_of base rel dev covers (apply_edit e c) <> text_of gen hash ccinfo_of base rel dev covers c) ->
  covers = true.
Proof.
  intros Hall. destruct covers; [reflexivity|exfalso].
  apply (Hall (fun _ cmd _ => Z.of_nat (length cmd)) (ELdflags [0]) (mkCfg 0 [] [] [] [] [] false 0)).
  - reflexivity.
  - unfold behaviour, exec_cmd; simpl. rewrite !app_length; simpl. lia.
  - apply link_edit_leaves_text_lemma. reflexivity.
Qed.
