(* One history per line:  P:gen|P:<le><hash><size><reuse_out><nohead_cache><del_rewrite>  then steps
     A:<ticks>     R:<slot>:<out|->:<code>:<cmd>:<cc>:<nohead>:<nocache>:<dur>     I:<same fields>   C:<same fields> (--code)
   Output: one token per step: "-" for A, else g<0|1>b<0|1>:<outcome>:f<0|1>:w<0|1>:s<0|1>
   (cached generated, cached binary, outcome, fresh, hypotheses(weak), hypotheses(1s)).
   The C compiler fails exactly on code ids >= 900 (the replayer emits invalid C for them). *)
open Model
open Zutil

let zi s = z_of_int (int_of_string s)
let b01 s = s = "1"
(* the world id is <compiler> + 10 * <version of the cincdir header> + 100 * <version of the header reached only via --cflags -I>; nelua's target-info probe only sees the compiler
   (unless the heading hash also covers the local headers: Gen.HEADERS_HASHED) *)
let ccinfo_of (w : z) : z = vis hEADERS_HASHED w
let cc_ok (b : built) = let ((code, _), _) = b in int_of_z code < 900

let parse_inv f =
  match f with
  | [ slot; out; code; cmd; cc; nh; nc; dur ] ->
    ({ i_slot = zi slot; i_out = (if out = "-" then None else Some (zi out)); i_code = zi code;
       i_cmd = zi cmd; i_cc = zi cc; i_nohead = b01 nh; i_nocache = b01 nc }, zi dur)
  | _ -> failwith "bad invocation"

let parse_step tok =
  match String.split_on_char ':' tok with
  | [ "A"; d ] -> Advance (zi d)
  | "R" :: f -> let i, d = parse_inv f in Run (i, d)
  | "I" :: f -> let i, d = parse_inv f in Interrupt (i, d)
  | "C" :: f -> let i, _ = parse_inv f in CodeOnly i
  | _ -> failwith ("bad step " ^ tok)

let parse_pol tok =
  match String.split_on_char ':' tok with
  | [ "P"; "gen" ] -> gENPOL
  | [ "P"; s ] when String.length s = 6 ->
    { p_le = s.[0] = '1'; p_head_hash = s.[1] = '1'; p_size_chk = s.[2] = '1'; p_reuse_out = s.[3] = '1';
      p_nohead_cache = s.[4] = '1'; p_del_rewrite = s.[5] = '1' }
  | _ -> failwith "bad policy"

let s01 b = if b then "1" else "0"
let outcome_s = function
  | OBuildFail -> "buildfail"
  | OExecFail -> "execfail"
  | OKilled -> "killed"
  | OCodeOnly -> "codeonly"
  | ORan ((code, cmd), cc) -> Printf.sprintf "ran.%d.%d.%d" (int_of_z code) (int_of_z cmd) (int_of_z cc)

let () =
  iter_lines (fun line ->
    let out =
      try
        match split_ws line with
        | [] -> ""
        | p :: steps ->
          let pol = parse_pol p in
          let h = List.map parse_step steps in
          let rep = exec_report h_id ccinfo_of cc_ok pol tPS (init tPS) h in
          String.concat " "
            (List.map
               (function
                 | None -> "-"
                 | Some (((ob, f), w), s) ->
                   Printf.sprintf "g%sb%s:%s:f%s:w%s:s%s" (s01 ob.o_cgen_cached) (s01 ob.o_bin_cached)
                     (outcome_s ob.o_out) (s01 f) (s01 w) (s01 s))
               rep)
      with e -> "!exn " ^ Printexc.to_string e
    in
    print_string out; print_newline ())
