From Coq Require Import ZArith.
From C08 Require Import Model Gen.
Require Extraction.
Require Import ExtrOcamlBasic.
(* ocaml/zutil.ml mentions the extracted types n and nat: make sure they are emitted *)
Definition unused_n : N := N.of_nat 0.
Extraction "model.ml" exec_report hyps_ok all_fresh exec init H_id GENPOL HEADERS_HASHED vis TPS mkPol unused_n.
