(* C08 proofs: the invariant of the cache state machine, freshness under the hypotheses
   evaluated by [hyps_ok], the repaired-policy corollary, and the three refutation witnesses. *)
From Coq Require Import ZArith Bool List Lia.
From C08 Require Import Model.
Import ListNotations.
Local Open Scope Z_scope.

(* ---------- boolean equalities ---------- *)
Lemma triple_eqb_eq a b : triple_eqb a b = true -> a = b.
Proof.
  destruct a as [[a1 a2] a3], b as [[b1 b2] b3]; unfold triple_eqb.
  rewrite !andb_true_iff, !Z.eqb_eq. intros [[-> ->] ->]; reflexivity.
Qed.
Lemma triple_eqb_refl a : triple_eqb a a = true.
Proof. destruct a as [[a1 a2] a3]; unfold triple_eqb; rewrite !Z.eqb_refl; reflexivity. Qed.
Lemma hopt_eqb_eq a b : hopt_eqb a b = true -> a = b.
Proof. destruct a, b; simpl; try discriminate; auto. intros E; apply triple_eqb_eq in E; congruence. Qed.
Lemma head_eqb_eq a b : head_eqb a b = true -> a = b.
Proof.
  destruct a as [[c1 h1]|], b as [[c2 h2]|]; simpl; try discriminate; auto.
  rewrite andb_true_iff, Z.eqb_eq. intros [-> E]; apply hopt_eqb_eq in E; congruence.
Qed.
Lemma text_eqb_eq a b : text_eqb a b = true -> a = b.
Proof.
  destruct a as [ha ca], b as [hb cb]; unfold text_eqb; simpl.
  rewrite andb_true_iff, Z.eqb_eq. intros [E ->]; apply head_eqb_eq in E; congruence.
Qed.
Lemma bpath_eqb_true a b : bpath_eqb a b = true -> a = b.
Proof. destruct a, b; simpl; try discriminate; rewrite Z.eqb_eq; congruence. Qed.
Lemma bpath_eqb_refl a : bpath_eqb a a = true.
Proof. destruct a; simpl; apply Z.eqb_refl. Qed.
Lemma bpath_eqb_false a b : bpath_eqb a b = false -> a <> b.
Proof. intros E ->; rewrite bpath_eqb_refl in E; discriminate. Qed.
Lemma outcome_eqb_refl a : outcome_eqb a a = true.
Proof. destruct a; simpl; auto using triple_eqb_refl. Qed.

Section Proofs.
  Variable H : Z -> Z -> Z -> hashv.
  Variable ccinfo_of : Z -> Z.
  Variable cc_ok : built -> bool.
  Variable pol : policy.
  Variable tps : Z.
  Hypothesis Hinj : H_inj H.
  (* every change of what the C compiler reads besides the C file shows in ccinfo (no header-only edits) *)
  Hypothesis Hvis : forall a b, ccinfo_of a = ccinfo_of b -> a = b.
  Hypothesis tps_pos : 0 < tps.
  Hypothesis Hhash : p_head_hash pol = true.
  Hypothesis Hsize : p_size_chk pol = true.

  Notation sec := (sec tps).
  Notation mk_text := (mk_text H ccinfo_of pol).
  Notation compile_code := (compile_code H ccinfo_of pol tps).
  Notation compile_binary := (compile_binary cc_ok pol tps).
  Notation do_run := (do_run H ccinfo_of cc_ok pol tps).
  Notation do_step := (do_step H ccinfo_of cc_ok pol tps).
  Notation exec := (exec H ccinfo_of cc_ok pol tps).
  Notation expected := (expected cc_ok).
  Notation fresh_obs := (fresh_obs cc_ok).
  Notation all_fresh := (all_fresh cc_ok).
  Notation cmp_mtime := (cmp_mtime pol).

  Lemma sec_mono a b : a <= b -> sec a <= sec b.
  Proof. intros; unfold Model.sec; apply Z.div_le_mono; lia. Qed.

  Lemma spaced_1s_weak s : spaced_1s tps s = true -> spaced_weak tps s = true.
  Proof.
    unfold spaced_1s, spaced_weak, Model.sec. rewrite Z.leb_le, Z.ltb_lt. intros L.
    assert (lastb s / tps + 1 <= clock s / tps); [|lia].
    replace (lastb s / tps + 1) with ((lastb s + 1 * tps) / tps) by (rewrite Z.div_add by lia; reflexivity).
    apply Z.div_le_mono; lia.
  Qed.

  Definition owner_of (s : st) (bp : bpath) : option Z :=
    match bp with BCache sl => Some sl | BOut o => outowner s o end.
  Definition eligible (bp : bpath) : bool :=
    match bp with BCache _ => true | BOut _ => p_reuse_out pol end.

  Record Inv (s : st) : Prop := {
    inv_lastb : lastb s <= clock s;
    inv_cf : forall sl cf, cfiles s sl = Some cf -> cf_mtime cf <= sec (clock s);
    inv_bin : forall bp b, bins s bp = Some b ->
                b_mtime b <= sec (lastb s) /\ (0 < b_size b -> cc_ok (b_built b) = true);
    inv_own : forall o b, bins s (BOut o) = Some b -> outowner s o <> None;
    inv_key : forall bp b sl cf code cmd cc,
        bins s bp = Some b -> 0 < b_size b -> eligible bp = true ->
        owner_of s bp = Some sl -> cfiles s sl = Some cf ->
        cmp_mtime (cf_mtime cf) (b_mtime b) = true ->
        cf_text cf = (Some (cmd, Some (H code (ccinfo_of cc) cmd)), code) ->
        b_built b = (code, cmd, cc)
  }.

  Lemma Inv_init : Inv (init tps).
  Proof.
    constructor; simpl; try discriminate; try lia.
  Qed.

  (* ---------- compile_code ---------- *)
  Lemma compile_code_spec s i s1 cf cg :
    compile_code s i = (s1, cf, cg) ->
    clock s1 = clock s /\ lastb s1 = lastb s /\ outowner s1 = outowner s /\
    cfiles s1 (i_slot i) = Some cf /\ cf_text cf = mk_text i /\
    ((cg = true /\ s1 = s) \/
     (cg = false /\ cf = mkCf (mk_text i) (sec (clock s)) /\
      cfiles s1 = upd_cf (cfiles s) (i_slot i) cf /\
      bins s1 = (if p_del_rewrite pol then del_bin (bins s) (BCache (i_slot i)) else bins s))).
  Proof.
    unfold Model.compile_code.
    destruct (cfiles s (i_slot i)) as [cf0|] eqn:E.
    - destruct (negb (i_nocache i) && text_eqb (cf_text cf0) (mk_text i)) eqn:T.
      + intros X; inversion X; subst. apply andb_true_iff in T as [_ T]. apply text_eqb_eq in T.
        repeat split; auto.
      + intros X; inversion X; subst; simpl. unfold upd_cf at 1. rewrite Z.eqb_refl.
        repeat split; auto.
    - intros X; inversion X; subst; simpl. unfold upd_cf at 1. rewrite Z.eqb_refl.
      repeat split; auto.
  Qed.

  Lemma rewrites_of_spec s i s1 cf :
    compile_code s i = (s1, cf, false) -> rewrites H ccinfo_of pol tps s i = true.
  Proof. unfold rewrites; intros ->; reflexivity. Qed.

  Lemma compile_code_inv s i s1 cf cg :
    Inv s ->
    (negb (p_le pol) || (p_del_rewrite pol && negb (p_reuse_out pol)) ||
     negb (rewrites H ccinfo_of pol tps s i) || spaced_weak tps s) = true ->
    compile_code s i = (s1, cf, cg) -> Inv s1.
  Proof.
    intros I Hsp E. pose proof (compile_code_spec _ _ _ _ _ E) as (Ec & El & Eo & _ & _ & D).
    destruct D as [[_ ->]|(-> & Ecf & Ecfs & Eb)]; [exact I|].
    apply rewrites_of_spec in E. rewrite E in Hsp. simpl in Hsp.
    assert (SUB : forall bp b, bins s1 bp = Some b ->
                    bins s bp = Some b /\ (p_del_rewrite pol = true -> bp <> BCache (i_slot i))).
    { intros bp b. rewrite Eb. destruct (p_del_rewrite pol); unfold del_bin.
      - destruct (bpath_eqb bp (BCache (i_slot i))) eqn:Q; [discriminate|].
        intros X; split; auto. intros _. apply bpath_eqb_false; auto.
      - intros X; split; auto; discriminate. }
    destruct I as [I1 I2 I3 I4 I5].
    constructor.
    - rewrite El, Ec; exact I1.
    - intros sl cf'. rewrite Ecfs, Ec. unfold upd_cf. destruct (sl =? i_slot i).
      + intros X; inversion X; subst; simpl. lia.
      + apply I2.
    - intros bp b Hb. destruct (SUB _ _ Hb) as [Hb' _]. rewrite El. apply (I3 bp); auto.
    - intros o b Hb. destruct (SUB _ _ Hb) as [Hb' _]. rewrite Eo. eapply I4; eauto.
    - intros bp b sl cf' code cmd cc Hb. destruct (SUB _ _ Hb) as [Hb' ND].
      unfold owner_of. rewrite Eo. fold (owner_of s bp). rewrite Ecfs. unfold upd_cf.
      destruct (Z.eqb_spec sl (i_slot i)) as [->|N].
      + intros Hs EL OW X. inversion X; subst cf'; simpl. intros C _. exfalso.
        rewrite Ecf in C; simpl in C.
        destruct (I3 _ _ Hb') as [M _].
        pose proof (sec_mono _ _ I1) as M2.
        unfold Model.cmp_mtime in C. destruct (p_le pol); simpl in Hsp.
        * rewrite orb_false_r in Hsp. apply orb_true_iff in Hsp as [DL|SP].
          -- apply andb_true_iff in DL as [DL RO]. apply negb_true_iff in RO.
             destruct bp as [x|o]; simpl in EL, OW.
             ++ inversion OW; subst x. apply (ND DL). reflexivity.
             ++ congruence.
          -- unfold spaced_weak in SP. apply Z.leb_le in C. apply Z.ltb_lt in SP. lia.
        * apply Z.ltb_lt in C. lia.
      + intros; eapply I5; eauto.
  Qed.

  (* ---------- compile_binary ---------- *)
  Lemma note_owner_spec s i o :
    note_owner s i o = outowner s o \/
    (i_out i = Some o /\ outowner s o = None /\ note_owner s i o = Some (i_slot i)).
  Proof.
    unfold note_owner. destruct (i_out i) as [o'|]; auto.
    destruct (outowner s o') eqn:E; auto.
    unfold upd_owner. destruct (Z.eqb_spec o o') as [->|]; auto.
  Qed.

  Lemma note_owner_self s i o :
    i_out i = Some o -> owner_ok s i = true -> note_owner s i o = Some (i_slot i).
  Proof.
    unfold note_owner, owner_ok. intros ->. destruct (outowner s o) eqn:E.
    - rewrite Z.eqb_eq. intros <-; exact E.
    - intros _. unfold upd_owner. rewrite Z.eqb_refl. reflexivity.
  Qed.

  Lemma headed_text i :
    i_nohead i = false -> mk_text i = (Some (i_cmd i, Some (H (i_code i) (ccinfo_of (i_cc i)) (i_cmd i))), i_code i).
  Proof. unfold Model.mk_text. intros ->. rewrite Hhash. reflexivity. Qed.

  Lemma text_determines i code cmd cc :
    mk_text i = (Some (cmd, Some (H code (ccinfo_of cc) cmd)), code) -> (i_code i, i_cmd i, i_cc i) = (code, cmd, cc).
  Proof.
    unfold Model.mk_text. destruct (i_nohead i); [discriminate|]. rewrite Hhash.
    intros X; inversion X; subst. match goal with E : H _ _ _ = H _ _ _ |- _ => apply Hinj in E as (? & V & ?) end.
    apply Hvis in V. congruence.
  Qed.

  (* owner of the binary path of i, once note_owner has run *)
  Lemma owner_after s i :
    (negb (p_reuse_out pol) || owner_ok s i) = true -> eligible (bp_of i) = true ->
    match bp_of i with BCache sl => Some sl | BOut o => note_owner s i o end = Some (i_slot i).
  Proof.
    unfold bp_of, eligible. destruct (i_out i) as [o|] eqn:E; auto.
    intros A E2. rewrite E2 in A. simpl in A. apply note_owner_self; auto.
  Qed.

  Lemma compile_binary_inv s i cf dur kill s2 bc out :
    Inv s -> cfiles s (i_slot i) = Some cf -> cf_text cf = mk_text i ->
    (negb (p_reuse_out pol) || owner_ok s i) = true ->
    (negb (p_nohead_cache pol) || negb (i_nohead i)) = true ->
    compile_binary s i cf dur kill = (s2, bc, out) ->
    Inv s2 /\ fresh_obs (i, mkObs false bc out) = true.
  Proof.
    intros I Hcf Htx Hown Hnh. unfold Model.compile_binary.
    destruct I as [I1 I2 I3 I4 I5].
    (* facts about the ghost owner map that hold in every branch *)
    assert (OWN : forall st', outowner st' = note_owner s i -> bins st' = bins s -> cfiles st' = cfiles s ->
                  forall bp b sl cf' code cmd cc,
                    bins s bp = Some b -> 0 < b_size b -> eligible bp = true ->
                    owner_of st' bp = Some sl -> cfiles s sl = Some cf' ->
                    cmp_mtime (cf_mtime cf') (b_mtime b) = true ->
                    cf_text cf' = (Some (cmd, Some (H code (ccinfo_of cc) cmd)), code) ->
                    b_built b = (code, cmd, cc)).
    { intros st' Eo _ _ bp b sl cf' code cmd cc Hb Hs He Ho. eapply I5; eauto.
      destruct bp as [x|o]; simpl in *; auto. rewrite Eo in Ho.
      destruct (note_owner_spec s i o) as [E'|(_ & N & _)]; [rewrite <- E'; exact Ho|].
      exfalso; eapply I4; eauto. }
    destruct (reuse_ok pol s i cf) eqn:R.
    - (* reuse *)
      intros X; inversion X; subst; clear X. split.
      + constructor; simpl; auto.
        * intros o b Hb. destruct (note_owner_spec s i o) as [->|(_ & _ & ->)]; [eauto|discriminate].
        * intros bp b sl cf' code cmd cc Hb. eapply (OWN (mkSt (clock s) (cfiles s) (bins s) (lastb s) (note_owner s i))); eauto.
      + unfold reuse_ok in R. apply andb_true_iff in R as [CA R].
        destruct (bins s (bp_of i)) as [b|] eqn:Hb; [|discriminate].
        apply andb_true_iff in R as [C S]. rewrite Hsize in S. simpl in S.
        unfold Model.fresh_obs; simpl. rewrite S.
        unfold cache_allowed in CA. apply andb_true_iff in CA as [CA NH]. apply andb_true_iff in CA as [_ EL].
        assert (i_nohead i = false) as NH'.
        { destruct (i_nohead i); auto. destruct (p_nohead_cache pol); simpl in *; discriminate. }
        assert (eligible (bp_of i) = true) as EL'.
        { unfold eligible, bp_of. destruct (i_out i); simpl in *; auto. rewrite orb_false_r in EL; auto. }
        apply Z.ltb_lt in S.
        assert (b_built b = cur i) as BB.
        { unfold cur. eapply I5 with (sl := i_slot i); eauto.
          - pose proof (owner_after s i Hown EL') as OA. unfold owner_of.
            destruct (bp_of i) as [x|o] eqn:BP; auto.
            destruct (note_owner_spec s i o) as [<-|(_ & N & _)]; auto.
            exfalso; eapply I4; eauto.
          - rewrite Htx. apply headed_text; auto. }
        destruct (I3 _ _ Hb) as [_ OK]. specialize (OK S).
        rewrite BB in *. unfold Model.expected. rewrite OK. apply triple_eqb_refl.
    - (* build *)
      set (t' := clock s + Z.max 0 dur).
      assert (clock s <= t') as Tle by (unfold t'; lia).
      pose proof (sec_mono _ _ Tle) as Sle.
      pose proof (sec_mono _ _ I1) as Lle.
      assert (BT : (snd (cf_text cf), i_cmd i, i_cc i) = cur i).
      { rewrite Htx. unfold Model.mk_text, cur; simpl. reflexivity. }
      rewrite BT.
      assert (NEWKEY : forall st' sz, outowner st' = note_owner s i -> cfiles st' = cfiles s ->
                 forall sl cf' code cmd cc, eligible (bp_of i) = true -> owner_of st' (bp_of i) = Some sl ->
                   cfiles s sl = Some cf' -> cf_text cf' = (Some (cmd, Some (H code (ccinfo_of cc) cmd)), code) ->
                   b_built (mkBin (cur i) (sec t') sz) = (code, cmd, cc)).
      { intros st' sz Eo _ sl cf' code cmd cc EL Ho Hc Ht. simpl.
        pose proof (owner_after s i Hown EL) as OA.
        assert (sl = i_slot i) as ->.
        { unfold owner_of in Ho. destruct (bp_of i); [congruence|]. rewrite Eo in Ho. congruence. }
        rewrite Hcf in Hc. inversion Hc; subst cf'. rewrite Htx in Ht.
        apply text_determines in Ht. exact Ht. }
      destruct kill; [|destruct (cc_ok (cur i)) eqn:OK].
      + (* interrupted build: empty file *)
        intros X; inversion X; subst; clear X. split; [|reflexivity].
        constructor; simpl; try lia.
        * intros sl cf' Hc. specialize (I2 _ _ Hc). fold t'. lia.
        * intros bp b. unfold upd_bin. destruct (bpath_eqb bp (bp_of i)).
          -- intros X; inversion X; subst; simpl. fold t'. split; [lia|lia].
          -- intros Hb. destruct (I3 _ _ Hb). fold t'. split; auto. lia.
        * intros o b. unfold upd_bin. destruct (bpath_eqb (BOut o) (bp_of i)) eqn:E.
          -- apply bpath_eqb_true in E. intros _. unfold bp_of in E. destruct (i_out i) as [o'|] eqn:EO; [|discriminate].
             inversion E; subst o'. unfold note_owner. rewrite EO. destruct (outowner s o) eqn:OO; [congruence|].
             unfold upd_owner. rewrite Z.eqb_refl. discriminate.
          -- intros Hb. destruct (note_owner_spec s i o) as [->|(_ & _ & ->)]; [eauto|discriminate].
        * intros bp b sl cf' code cmd cc. unfold upd_bin. destruct (bpath_eqb bp (bp_of i)) eqn:E.
          -- intros X; inversion X; subst; simpl. lia.
          -- intros Hb. eapply (OWN (mkSt t' (cfiles s) (bins s) t' (note_owner s i))); eauto.
      + (* successful build *)
        intros X; inversion X; subst; clear X. split.
        2:{ unfold Model.fresh_obs, Model.expected; cbn [o_out snd fst]. rewrite OK. apply outcome_eqb_refl. }
        constructor; simpl; try lia.
        * intros sl cf' Hc. specialize (I2 _ _ Hc). fold t'. lia.
        * intros bp b. unfold upd_bin. destruct (bpath_eqb bp (bp_of i)).
          -- intros X; inversion X; subst; simpl. fold t'. split; [lia|auto].
          -- intros Hb. destruct (I3 _ _ Hb). fold t'. split; auto. lia.
        * intros o b. unfold upd_bin. destruct (bpath_eqb (BOut o) (bp_of i)) eqn:E.
          -- apply bpath_eqb_true in E. intros _. unfold bp_of in E. destruct (i_out i) as [o'|] eqn:EO; [|discriminate].
             inversion E; subst o'. unfold note_owner. rewrite EO. destruct (outowner s o) eqn:OO; [congruence|].
             unfold upd_owner. rewrite Z.eqb_refl. discriminate.
          -- intros Hb. destruct (note_owner_spec s i o) as [->|(_ & _ & ->)]; [eauto|discriminate].
        * intros bp b sl cf' code cmd cc. unfold upd_bin. destruct (bpath_eqb bp (bp_of i)) eqn:E.
          -- apply bpath_eqb_true in E; subst bp. intros X; inversion X; subst b. intros _ EL Ho Hc _ Ht.
             fold t'. eapply (NEWKEY (mkSt t' (cfiles s) (bins s) t' (note_owner s i))); eauto.
          -- intros Hb. eapply (OWN (mkSt t' (cfiles s) (bins s) t' (note_owner s i))); eauto.
      + (* C compilation fails: the old binary stays *)
        intros X; inversion X; subst; clear X. split.
        2:{ unfold Model.fresh_obs, Model.expected; cbn [o_out snd fst]. rewrite OK. reflexivity. }
        constructor; simpl; try lia.
        * intros sl cf' Hc. specialize (I2 _ _ Hc). fold t'. lia.
        * auto.
        * intros o b Hb. destruct (note_owner_spec s i o) as [->|(_ & _ & ->)]; [eauto|discriminate].
        * intros bp b sl cf' code cmd cc Hb.
          eapply (OWN (mkSt t' (cfiles s) (bins s) (lastb s) (note_owner s i))); eauto.
  Qed.

  (* ---------- one invocation ---------- *)
  Lemma inv_ok_parts sp s i :
    inv_ok H ccinfo_of pol tps sp s i = true ->
    (negb (p_le pol) || (p_del_rewrite pol && negb (p_reuse_out pol)) ||
     negb (rewrites H ccinfo_of pol tps s i) || sp s) = true /\
    (negb (p_reuse_out pol) || owner_ok s i) = true /\
    (negb (p_nohead_cache pol) || negb (i_nohead i)) = true.
  Proof. unfold inv_ok. rewrite !andb_true_iff. tauto. Qed.

  Lemma owner_ok_after_code s i s1 cf cg :
    compile_code s i = (s1, cf, cg) -> owner_ok s1 i = owner_ok s i.
  Proof.
    intros E. pose proof (compile_code_spec _ _ _ _ _ E) as (_ & _ & Eo & _).
    unfold owner_ok. rewrite Eo. reflexivity.
  Qed.

  Lemma do_run_inv s i dur kill s2 ob :
    Inv s -> inv_ok H ccinfo_of pol tps (spaced_weak tps) s i = true ->
    do_run s i dur kill = (s2, ob) -> Inv s2 /\ fresh_obs (i, ob) = true.
  Proof.
    intros I OKs. apply inv_ok_parts in OKs as (A & B & C).
    unfold Model.do_run.
    destruct (compile_code s i) as [[s1 cf] cg] eqn:E1.
    destruct (compile_binary s1 i cf dur kill) as [[s2' bc] out] eqn:E2.
    intros X; inversion X; subst; clear X.
    pose proof (compile_code_inv _ _ _ _ _ I A E1) as I1.
    pose proof (compile_code_spec _ _ _ _ _ E1) as (_ & _ & _ & Hc & Ht & _).
    rewrite <- (owner_ok_after_code _ _ _ _ _ E1) in B.
    destruct (compile_binary_inv _ _ _ _ _ _ _ _ I1 Hc Ht B C E2) as [I2 F].
    split; auto.
  Qed.

  Lemma do_step_inv s x s' o :
    Inv s -> step_ok H ccinfo_of pol tps (spaced_weak tps) s x = true -> do_step s x = (s', o) ->
    Inv s' /\ match o with Some io => fresh_obs io = true | None => True end.
  Proof.
    intros I OKs. destruct x as [d|i dur|i dur|i]; simpl.
    - intros X; inversion X; subst; clear X. split; auto.
      destruct I as [I1 I2 I3 I4 I5]. constructor; simpl; auto; try lia.
      intros sl cf Hc. specialize (I2 _ _ Hc).
      assert (clock s <= clock s + Z.max 0 d) as L by lia. pose proof (sec_mono _ _ L). lia.
    - destruct (do_run s i dur false) as [s2 ob] eqn:E. intros X; inversion X; subst.
      eapply do_run_inv; eauto.
    - destruct (do_run s i dur true) as [s2 ob] eqn:E. intros X; inversion X; subst.
      eapply do_run_inv; eauto.
    - destruct (i_out i).
      + intros X; inversion X; subst. split; [exact I|reflexivity].
      + destruct (compile_code s i) as [[s1 cf] cg] eqn:E. intros X; inversion X; subst.
        apply inv_ok_parts in OKs as (A & _ & _). split; [|reflexivity].
        eapply compile_code_inv; eauto.
  Qed.

  Lemma exec_fresh_from s h :
    Inv s -> hyps_ok H ccinfo_of cc_ok pol tps (spaced_weak tps) s h = true -> all_fresh (exec s h) = true.
  Proof.
    revert s. induction h as [|x r IH]; intros s I OKs; [reflexivity|].
    simpl in OKs. apply andb_true_iff in OKs as [O1 O2].
    simpl. destruct (do_step s x) as [s' o] eqn:E. simpl in O2.
    destruct (do_step_inv _ _ _ _ I O1 E) as [I' F].
    destruct o as [io|]; simpl; [rewrite F; simpl|]; apply IH; auto.
  Qed.

  Theorem fresh_under_hyps h :
    hyps_ok H ccinfo_of cc_ok pol tps (spaced_weak tps) (init tps) h = true -> all_fresh (exec (init tps) h) = true.
  Proof. apply exec_fresh_from, Inv_init. Qed.

  (* the 1-second wording implies the weak one, step by step *)
  Lemma hyps_1s_weak s h :
    hyps_ok H ccinfo_of cc_ok pol tps (spaced_1s tps) s h = true -> hyps_ok H ccinfo_of cc_ok pol tps (spaced_weak tps) s h = true.
  Proof.
    revert s; induction h as [|x r IH]; intros s; [reflexivity|]. simpl.
    rewrite !andb_true_iff. intros [A B]. split; [|apply IH; exact B].
    destruct x; simpl in *; auto; unfold inv_ok in *;
      rewrite !andb_true_iff in *; destruct A as [[A1 A2] A3]; repeat split; auto;
      rewrite !orb_true_iff in *; destruct A1 as [A1|A1]; auto; right; apply spaced_1s_weak; auto.
  Qed.

  Theorem fresh_under_hyps_1s h :
    hyps_ok H ccinfo_of cc_ok pol tps (spaced_1s tps) (init tps) h = true -> all_fresh (exec (init tps) h) = true.
  Proof. intros; apply fresh_under_hyps, hyps_1s_weak; assumption. Qed.

  (* with the three switches of a repaired policy the hypotheses hold for every history *)
  Lemma hyps_trivial sp s h :
    p_le pol = false \/ p_del_rewrite pol = true -> p_reuse_out pol = false -> p_nohead_cache pol = false ->
    hyps_ok H ccinfo_of cc_ok pol tps sp s h = true.
  Proof.
    intros A B C. revert s; induction h as [|x r IH]; intros s; [reflexivity|].
    simpl. rewrite IH, andb_true_r.
    destruct x; simpl; auto; unfold inv_ok; rewrite B, C; destruct A as [A|A]; rewrite A; simpl;
      rewrite ?orb_true_r; reflexivity.
  Qed.

  Theorem fresh_repaired h :
    p_le pol = false \/ p_del_rewrite pol = true -> p_reuse_out pol = false -> p_nohead_cache pol = false ->
    all_fresh (exec (init tps) h) = true.
  Proof. intros; apply fresh_under_hyps, hyps_trivial; assumption. Qed.
End Proofs.

(* ---------- [expected] is what the machine itself does with --no-cache in a fresh directory ---------- *)
Definition with_nocache (i : inv) : inv := mkInv (i_slot i) (i_out i) (i_code i) (i_cmd i) (i_cc i) (i_nohead i) true.
Theorem expected_is_nocache_run H ccinfo_of cc_ok pol tps i dur :
  o_out (snd (do_run H ccinfo_of cc_ok pol tps (init tps) (with_nocache i) dur false)) = expected cc_ok i.
Proof.
  unfold do_run, compile_code, compile_binary, reuse_ok, cache_allowed, expected, cur, init, with_nocache; simpl.
  destruct (cc_ok (i_code i, i_cmd i, i_cc i)); reflexivity.
Qed.

(* ---------- the full-strength statement and its refutations ---------- *)

Definition wid (w : Z) : Z := w.         (* every world change is visible (no header-only edits) *)
(* full strength over the property's own step kinds: edits of sources and required modules, -D/-P/
   --cflags/--release, source and compiler switches, -o, --no-cache, --code, interrupted builds *)
Definition cache_fresh (pol : policy) : Prop :=
  forall H ccinfo_of cc_ok tps, H_inj H -> (forall a b, ccinfo_of a = ccinfo_of b -> a = b) -> 0 < tps -> forall h,
      all_fresh cc_ok (exec H ccinfo_of cc_ok pol tps (init tps) h) = true.

Lemma H_id_inj : H_inj H_id.
Proof. unfold H_inj, H_id. intros. inversion H; auto. Qed.

Definition inv0 : inv := mkInv 0 None 0 0 0 false false.
Definition with_code (i : inv) c := mkInv (i_slot i) (i_out i) c (i_cmd i) (i_cc i) (i_nohead i) (i_nocache i).

(* W1: two different programs into one slot within one second *)
Definition w_same_second : list step := [Run inv0 1; Advance 2; Run (with_code inv0 1) 1].
(* W2: pragma nocheading, flags changed, any spacing (here 3 s) *)
Definition w_nohead : list step :=
  [Run (mkInv 0 None 0 0 0 true false) 11; Advance 30; Run (mkInv 0 None 0 1 0 true false) 1].
(* W3: two sources sharing one -o file, any spacing *)
Definition w_shared_out : list step :=
  [Run (mkInv 0 (Some 0) 0 0 0 false false) 1; Advance 30;
   Run (mkInv 1 (Some 0) 1 0 0 false false) 11; Advance 30;
   Run (mkInv 0 (Some 0) 0 0 0 false false) 1].

Definition all_ok (b : built) : bool := true.

Lemma refute_with (pol : policy) (h : list step) :
  all_fresh all_ok (exec H_id wid all_ok pol 10 (init 10) h) = false -> ~ cache_fresh pol.
Proof.
  intros E F. specialize (F H_id wid all_ok 10 H_id_inj (fun a b e => e) ltac:(lia) h). congruence.
Qed.

Theorem refuted_same_second pol : p_le pol = true -> p_del_rewrite pol = false -> ~ cache_fresh pol.
Proof.
  destruct pol as [le hh sz ro nc dl]; simpl; intros -> ->.
  apply refute_with with (h := w_same_second).
  destruct hh, sz, ro, nc; vm_compute; reflexivity.
Qed.

Theorem refuted_nocheading pol : p_nohead_cache pol = true -> ~ cache_fresh pol.
Proof.
  destruct pol as [le hh sz ro nc dl]; simpl; intros ->.
  apply refute_with with (h := w_nohead).
  destruct le, hh, sz, ro, dl; vm_compute; reflexivity.
Qed.

Theorem refuted_shared_output pol : p_reuse_out pol = true -> ~ cache_fresh pol.
Proof.
  destruct pol as [le hh sz ro nc dl]; simpl; intros ->.
  apply refute_with with (h := w_shared_out).
  destruct le, hh, sz, nc, dl; vm_compute; reflexivity.
Qed.

(* without the hash in the heading a changed compiler behind the same name goes unnoticed *)
Definition w_cc_switch : list step :=
  [Run inv0 11; Advance 30; Run (mkInv 0 None 0 0 1 false false) 1].
Theorem refuted_without_hash pol : p_head_hash pol = false -> ~ cache_fresh pol.
Proof.
  destruct pol as [le hh sz ro nc dl]; simpl; intros ->.
  apply refute_with with (h := w_cc_switch).
  destruct le, sz, ro, nc, dl; vm_compute; reflexivity.
Qed.

(* without the size test an interrupted build poisons the slot *)
Definition w_interrupt : list step := [Interrupt inv0 11; Advance 30; Run inv0 1].
Theorem refuted_without_size_test pol : p_size_chk pol = false -> ~ cache_fresh pol.
Proof.
  destruct pol as [le hh sz ro nc dl]; simpl; intros ->.
  apply refute_with with (h := w_interrupt).
  destruct le, hh, ro, nc, dl; vm_compute; reflexivity.
Qed.

(* Beyond the property's step kinds: an edit of something the C compiler reads that neither the generated
   C nor the command nor ccinfo reflects (a header included with cinclude, an extra C file).  With such
   worlds in the history no policy of this family is fresh: the C file does not change, so the binary
   built before the header edit is reused. *)
Definition cache_fresh_any_world (pol : policy) : Prop :=
  forall H ccinfo_of cc_ok tps, H_inj H -> 0 < tps -> forall h,
      all_fresh cc_ok (exec H ccinfo_of cc_ok pol tps (init tps) h) = true.
Definition w_header_edit : list step :=
  [Run inv0 11; Run (mkInv 0 None 0 0 10 false false) 1].    (* world 0 -> 10: same compiler, edited header; any spacing *)
Theorem refuted_header_edit pol : ~ cache_fresh_any_world pol.
Proof.
  intros F. specialize (F H_id (fun w => w mod 10) all_ok 10 H_id_inj ltac:(lia) w_header_edit).
  destruct pol as [le hh sz ro nc dl]. revert F.
  destruct le, hh, sz, ro, nc, dl; vm_compute; discriminate.
Qed.

Lemma cache_fresh_repaired_aux H ccinfo_of cc_ok pol tps :
  H_inj H -> (forall a b, ccinfo_of a = ccinfo_of b -> a = b) -> 0 < tps ->
  p_le pol = false \/ p_del_rewrite pol = true -> p_reuse_out pol = false -> p_nohead_cache pol = false ->
  p_head_hash pol = true -> p_size_chk pol = true ->
  forall h, all_fresh cc_ok (exec H ccinfo_of cc_ok pol tps (init tps) h) = true.
Proof. intros Hi Hv Tp A B C D E h. apply fresh_repaired; auto. Qed.

(* ---------- the machine only looks at ccinfo_of on the worlds of the history ---------- *)
Definition step_world_agree (f g : Z -> Z) (x : step) : Prop :=
  match x with
  | Advance _ => True
  | Run i _ | Interrupt i _ | CodeOnly i => f (i_cc i) = g (i_cc i)
  end.

Lemma mk_text_ext H f g pol i : f (i_cc i) = g (i_cc i) -> mk_text H f pol i = mk_text H g pol i.
Proof. unfold mk_text. intros ->. reflexivity. Qed.
Lemma compile_code_ext H f g pol tps s i :
  f (i_cc i) = g (i_cc i) -> compile_code H f pol tps s i = compile_code H g pol tps s i.
Proof. intros E. unfold compile_code. rewrite (mk_text_ext H f g pol i E). reflexivity. Qed.
Lemma do_step_ext H f g cc_ok pol tps s x :
  step_world_agree f g x -> do_step H f cc_ok pol tps s x = do_step H g cc_ok pol tps s x.
Proof.
  destruct x as [d|i dur|i dur|i]; simpl; intros E; auto; unfold do_run;
    rewrite (compile_code_ext H f g pol tps s i E); reflexivity.
Qed.
Lemma exec_ext H f g cc_ok pol tps h : forall s,
  Forall (step_world_agree f g) h -> exec H f cc_ok pol tps s h = exec H g cc_ok pol tps s h.
Proof.
  induction h as [|x r IH]; intros s F; simpl; auto. inversion F; subst.
  rewrite (do_step_ext H f g cc_ok pol tps s x); auto.
  destruct (do_step H g cc_ok pol tps s x) as [s' o]. rewrite (IH s'); auto.
Qed.

(* histories whose worlds are all below a bound *)
Definition step_world_below (n : Z) (x : step) : Prop :=
  match x with
  | Advance _ => True
  | Run i _ | Interrupt i _ | CodeOnly i => 0 <= i_cc i < n
  end.

(* with the cincdir headers in the heading hash, every history that edits only the compiler and such
   headers (worlds below 100) is fresh under a sufficient policy *)
Theorem fresh_with_hashed_headers H cc_ok pol tps h :
  H_inj H -> 0 < tps ->
  p_le pol = false \/ p_del_rewrite pol = true -> p_reuse_out pol = false -> p_nohead_cache pol = false ->
  p_head_hash pol = true -> p_size_chk pol = true ->
  Forall (step_world_below 100) h ->
  all_fresh cc_ok (exec H (vis true) cc_ok pol tps (init tps) h) = true.
Proof.
  intros Hi Tp A B C D E F.
  rewrite (exec_ext H (vis true) wid cc_ok pol tps h (init tps)).
  - apply (cache_fresh_repaired_aux H wid cc_ok pol tps); auto.
  - eapply Forall_impl; [|exact F]. intros x W. destruct x; simpl in *; auto; unfold vis, wid; apply Z.mod_small; lia.
Qed.

(* without them a cincdir-header edit (world 0 -> 10) is served stale, for every policy of the family *)
Definition w_cincdir_header_edit : list step := [Run inv0 11; Run (mkInv 0 None 0 0 10 false false) 1].
Theorem refuted_without_hashed_headers pol :
  all_fresh all_ok (exec H_id (vis false) all_ok pol 10 (init 10) w_cincdir_header_edit) = false.
Proof. destruct pol as [le hh sz ro nc dl]. destruct le, hh, sz, ro, nc, dl; vm_compute; reflexivity. Qed.
(* and a header reached only through --cflags -I (world 0 -> 100) is served stale whether or not the
   cincdir headers are hashed, for every policy of the family *)
Definition w_I_header_edit : list step := [Run inv0 11; Run (mkInv 0 None 0 0 100 false false) 1].
Theorem refuted_I_header_edit hashed pol :
  all_fresh all_ok (exec H_id (vis hashed) all_ok pol 10 (init 10) w_I_header_edit) = false.
Proof. destruct pol as [le hh sz ro nc dl]. destruct hashed, le, hh, sz, ro, nc, dl; vm_compute; reflexivity. Qed.

(* the repaired policy satisfies the full-strength statement *)
Theorem cache_fresh_repaired pol :
  p_le pol = false \/ p_del_rewrite pol = true -> p_reuse_out pol = false -> p_nohead_cache pol = false ->
  p_head_hash pol = true -> p_size_chk pol = true -> cache_fresh pol.
Proof.
  intros A B C D E H ccinfo_of cc_ok tps Hi Hv Tp h. apply fresh_repaired; auto.
Qed.

(* ---------- non-vacuity ---------- *)
Definition pol_now : policy := mkPol true true true true true false.
Definition pol_fixed : policy := mkPol false true true false false false.
(* the other repair: keep <=, delete the slot's binary whenever its C file is rewritten *)
Definition pol_fixed_del : policy := mkPol true true true false false true.

(* a history with edits, option changes, a compiler switch, an interrupted build, --no-cache and
   sub-second steps that satisfies the hypotheses of the partial theorem under today's policy *)
Definition h_example : list step :=
  [Run inv0 1; Advance 2; Run inv0 1; Advance 11; Run (with_code inv0 1) 3; Advance 12;
   Run (mkInv 0 None 1 1 0 false false) 1; Advance 30; Interrupt (mkInv 0 None 1 1 1 false false) 2;
   Advance 12; Run (mkInv 0 None 1 1 1 false false) 1; Advance 10; Run (mkInv 0 None 1 1 1 false true) 1;
   Advance 10; Run (mkInv 0 (Some 5) 2 1 1 false false) 1; Advance 10; Run (mkInv 0 (Some 5) 2 1 1 false false) 1].
Example hyps_satisfiable : hyps_ok H_id wid all_ok pol_now 10 (spaced_1s 10) (init 10) h_example = true.
Proof. vm_compute. reflexivity. Qed.
Example example_reuses_binaries :
  map (fun io => (o_cgen_cached (snd io), o_bin_cached (snd io))) (exec H_id wid all_ok pol_now 10 (init 10) h_example)
  = [(false, false); (true, true); (false, false); (false, false); (false, false); (true, false);
     (false, false); (false, false); (true, true)].
Proof. vm_compute. reflexivity. Qed.
Example witness_same_second_violates_hyps :
  hyps_ok H_id wid all_ok pol_now 10 (spaced_weak 10) (init 10) w_same_second = false.
Proof. vm_compute. reflexivity. Qed.
Example fixed_policy_same_second_rebuilds :
  map (fun io => o_bin_cached (snd io)) (exec H_id wid all_ok pol_fixed 10 (init 10) w_same_second) = [false; false].
Proof. vm_compute. reflexivity. Qed.
Example fixed_del_policy_same_second_rebuilds :
  map (fun io => o_bin_cached (snd io)) (exec H_id wid all_ok pol_fixed_del 10 (init 10) w_same_second) = [false; false] /\
  map (fun io => o_bin_cached (snd io)) (exec H_id wid all_ok pol_fixed_del 10 (init 10) [Run inv0 1; Run inv0 1]) = [false; true].
Proof. vm_compute. auto. Qed.
