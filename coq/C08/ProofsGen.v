(* Non-vacuity for the policy scraped from the current tree: the cache still reuses binaries (the main
   theorem is not true because nothing is ever cached), and the three former defect histories are fresh. *)
From Coq Require Import ZArith Bool List.
From C08 Require Import Model Gen Proofs.
Import ListNotations.
Local Open Scope Z_scope.
Example scraped_policy_reuses_binaries :
  map (fun io => (o_cgen_cached (snd io), o_bin_cached (snd io)))
      (exec H_id wid all_ok GENPOL 10 (init 10) [Run inv0 11; Advance 2; Run inv0 1; Run inv0 1])
  = [(false, false); (true, true); (true, true)].
Proof. vm_compute. reflexivity. Qed.
Example scraped_policy_former_witnesses_fresh :
  all_fresh all_ok (exec H_id wid all_ok GENPOL 10 (init 10) w_same_second) = true /\
  all_fresh all_ok (exec H_id wid all_ok GENPOL 10 (init 10) w_nohead) = true /\
  all_fresh all_ok (exec H_id wid all_ok GENPOL 10 (init 10) w_shared_out) = true.
Proof. vm_compute. auto. Qed.
