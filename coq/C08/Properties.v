(* Property C08: the compile cache never serves a stale artefact.
   Only the property theorems; each is closed by a lemma of Proofs.v and followed by
   Print Assumptions.  GENPOL is the policy scraped from /repo (Gen.v). *)
From Coq Require Import ZArith Bool List.
From C08 Require Import Model Gen Proofs ProofsEdits.
Local Open Scope Z_scope.

(* Full-strength statement over the property's step kinds (Proofs.cache_fresh; the hypothesis on
   ccinfo_of says that nothing the C compiler reads changes without the generated C, the command or
   ccinfo changing - see the documented limit at the end of this file): for every injective hash, every outcome of the C
   compiler, every clock resolution and EVERY history of invocations (edits, option/pragma
   changes, source switches, compiler switches, -o, --no-cache, interrupted builds) with
   arbitrary spacing, each invocation's outcome equals that of the same invocation with caching
   disabled in a fresh directory. *)
Definition C08_cache_fresh_full : Prop := cache_fresh GENPOL.

(* MAIN OBLIGATION.  The full-strength statement holds for the code as it is (policy scraped from
   /repo after the repair 8d3d23d: strict comparison, no reuse of -o files, no reuse under
   nocheading, hash in the heading, size test).  The five policy facts are checked by computation on
   Gen.v: if the source goes back on any of them this proof no longer checks. *)
Theorem C08_cache_fresh : C08_cache_fresh_full.
Proof. apply cache_fresh_repaired; try reflexivity; left; reflexivity. Qed.
Print Assumptions C08_cache_fresh.

(* "... equals that of the same invocation with caching disabled": [expected] is not a free-standing
   definition, it is what the machine does for the invocation with --no-cache in an empty directory *)
Theorem C08_expected_is_nocache_run :
  forall H ccinfo_of cc_ok pol tps i dur,
    o_out (snd (do_run H ccinfo_of cc_ok pol tps (init tps) (with_nocache i) dur false)) = expected cc_ok i.
Proof. exact expected_is_nocache_run. Qed.
Print Assumptions C08_expected_is_nocache_run.

(* For ANY policy of the family (hash and size test kept): every history whose invocations satisfy
   [hyps_ok] - a clause per switch the policy leaves open: rewrites in a later second than the last
   binary write (only with <= and no delete-on-rewrite), one slot per -o file (only if -o files are
   reused), no nocheading (only if such invocations reuse) - is fresh.  For the scraped policy every
   clause is switched off and this is C08_cache_fresh again; it is kept for what it says about the
   other policies (e.g. the code before 8d3d23d). *)
Theorem C08_cache_fresh_general_policy :
  forall pol, p_head_hash pol = true -> p_size_chk pol = true ->
  forall H ccinfo_of cc_ok tps, H_inj H -> (forall a b, ccinfo_of a = ccinfo_of b -> a = b) -> 0 < tps -> forall h,
    hyps_ok H ccinfo_of cc_ok pol tps (spaced_weak tps) (init tps) h = true ->
    all_fresh cc_ok (exec H ccinfo_of cc_ok pol tps (init tps) h) = true.
Proof. intros; apply fresh_under_hyps; auto. Qed.
Print Assumptions C08_cache_fresh_general_policy.

(* which policies satisfy the full-strength statement ... *)
Theorem C08_sufficient_policy :
  forall pol, p_le pol = false \/ p_del_rewrite pol = true ->
              p_reuse_out pol = false -> p_nohead_cache pol = false ->
              p_head_hash pol = true -> p_size_chk pol = true -> cache_fresh pol.
Proof. exact cache_fresh_repaired. Qed.
Print Assumptions C08_sufficient_policy.

(* ... and each ingredient is necessary (the first three are the defects repaired by 8d3d23d) *)
Theorem C08_strict_compare_needed : forall pol, p_le pol = true -> p_del_rewrite pol = false -> ~ cache_fresh pol.
Proof. exact refuted_same_second. Qed.
Print Assumptions C08_strict_compare_needed.
Theorem C08_nocheading_guard_needed : forall pol, p_nohead_cache pol = true -> ~ cache_fresh pol.
Proof. exact refuted_nocheading. Qed.
Print Assumptions C08_nocheading_guard_needed.
Theorem C08_output_guard_needed : forall pol, p_reuse_out pol = true -> ~ cache_fresh pol.
Proof. exact refuted_shared_output. Qed.
Print Assumptions C08_output_guard_needed.
Theorem C08_hash_in_heading_needed : forall pol, p_head_hash pol = false -> ~ cache_fresh pol.
Proof. exact refuted_without_hash. Qed.
Print Assumptions C08_hash_in_heading_needed.

Theorem C08_size_test_needed : forall pol, p_size_chk pol = false -> ~ cache_fresh pol.
Proof. exact refuted_without_size_test. Qed.
Print Assumptions C08_size_test_needed.

(* ---- the step kinds of the property, and the documented limit ---- *)

(* An edit of the main source, of a required module, of -D, -P, --cflags or --release that changes the
   behaviour of the program changes the text of the cached C file (ProofsEdits: the heading records the
   command, the file is the generated C, the binary is a function of both and of what else the C
   compiler reads).  This is what the cache model's "code / cmd" identifiers stand for. *)
Theorem C08_source_and_option_edits_show_in_text :
  HEADING_COVERS_EXECUTED_COMMAND = true /\
  forall gen exec hash ccinfo_of base rel dev e c,
    keeps_world e = true ->
    behaviour gen exec base rel dev (apply_edit e c) <> behaviour gen exec base rel dev c ->
    text_of gen hash ccinfo_of base rel dev HEADING_COVERS_EXECUTED_COMMAND (apply_edit e c)
      <> text_of gen hash ccinfo_of base rel dev HEADING_COVERS_EXECUTED_COMMAND c.
Proof. split; [reflexivity|]. intros. eapply edit_shows_in_text_lemma; eauto. Qed.
Print Assumptions C08_source_and_option_edits_show_in_text.

(* --cflags, --release and the link options (--ldflags / LDFLAGS / ## ldflags / linkdir / linklib) always
   change the recorded command (gcc flag sets scraped from cdefs.lua; the link options because the heading
   records the command compile_binary executes: Gen.HEADING_COVERS_EXECUTED_COMMAND, also observed on every
   build of every replayed history) *)
Theorem C08_cflags_ldflags_release_change_command :
  forall base c,
    (forall l, l <> c_cflags c ->
               mkcmd base GCC_RELEASE_FLAGS GCC_DEVEL_FLAGS HEADING_COVERS_EXECUTED_COMMAND (apply_edit (ECflags l) c)
               <> mkcmd base GCC_RELEASE_FLAGS GCC_DEVEL_FLAGS HEADING_COVERS_EXECUTED_COMMAND c) /\
    (forall l, l <> c_ldflags c ->
               mkcmd base GCC_RELEASE_FLAGS GCC_DEVEL_FLAGS HEADING_COVERS_EXECUTED_COMMAND (apply_edit (ELdflags l) c)
               <> mkcmd base GCC_RELEASE_FLAGS GCC_DEVEL_FLAGS HEADING_COVERS_EXECUTED_COMMAND c) /\
    (forall b, b <> c_release c ->
               mkcmd base GCC_RELEASE_FLAGS GCC_DEVEL_FLAGS HEADING_COVERS_EXECUTED_COMMAND (apply_edit (ERelease b) c)
               <> mkcmd base GCC_RELEASE_FLAGS GCC_DEVEL_FLAGS HEADING_COVERS_EXECUTED_COMMAND c).
Proof.
  intros base c. split; [|split].
  - intros l N. apply cflags_edit_changes_command_lemma; auto.
  - intros l N. apply ldflags_edit_changes_command_lemma; auto.
  - intros b N. apply release_toggle_changes_command_lemma; auto. exact gcc_release_differs_from_devel.
Qed.
Print Assumptions C08_cflags_ldflags_release_change_command.

(* REFUTATION, in the "needed" form: the statement of C08_source_and_option_edits_show_in_text holds for
   every behaviour ONLY IF the heading records the command that compile_binary executes.  (With a heading
   that leaves the link options out, an edit of them alone changes which library is linked and nothing of
   the C file: the binary linked with the old options is served; witness replayed every run, and the tie
   fact "executed command = heading command" is observed on every build of the replayer.) *)
Theorem C08_heading_covering_command_needed :
  forall covers gen hash ccinfo_of base rel dev,
    (forall exec e c, keeps_world e = true ->
       behaviour gen exec base rel dev (apply_edit e c) <> behaviour gen exec base rel dev c ->
       text_of gen hash ccinfo_of base rel dev covers (apply_edit e c) <> text_of gen hash ccinfo_of base rel dev covers c) ->
    covers = true.
Proof. exact heading_covering_command_needed_lemma. Qed.
Print Assumptions C08_heading_covering_command_needed.

(* THE DOCUMENTED LIMIT (outside the property's step kinds, a genuine stale artefact): an edit of what
   the C compiler reads besides the C file that the heading hash does not reflect leaves the text of the
   C file unchanged.  What the hash reflects ([ccinfo_of], as the driver instantiates it from Gen.v): the
   compiler behind the cc name (ccinfo) and, since 304728c (Gen.HEADERS_HASHED), the contents of the
   local headers the generated C includes that are found in the cincdir directories.  Not reflected:
   headers reached only through --cflags -I, system headers, `## cfile` extra C files: and with such edits in the
   history the cache is not fresh for any policy of the family (known finding, replayed). *)
Theorem C08_header_edit_leaves_text :
  forall gen hash ccinfo_of base rel dev w c,
    ccinfo_of w = ccinfo_of (c_world c) ->
    text_of gen hash ccinfo_of base rel dev HEADING_COVERS_EXECUTED_COMMAND (apply_edit (EWorld w) c)
    = text_of gen hash ccinfo_of base rel dev HEADING_COVERS_EXECUTED_COMMAND c.
Proof. intros. apply header_edit_leaves_text_lemma; auto. Qed.
Print Assumptions C08_header_edit_leaves_text.

(* Tied to the scrape (Gen.HEADERS_HASHED; [vis] is what the heading hash sees of the replayer's worlds).
   Since 304728c a cincdir-header edit IS visible: every history that edits only the compiler and such
   headers (worlds below 100) is fresh.  The first conjunct is checked by computation: on a revert of
   304728c this proof no longer checks. *)
Theorem C08_cincdir_header_edits_fresh :
  HEADERS_HASHED = true /\
  forall H cc_ok tps h, H_inj H -> 0 < tps -> Forall (step_world_below 100) h ->
    all_fresh cc_ok (exec H (vis HEADERS_HASHED) cc_ok GENPOL tps (init tps) h) = true.
Proof.
  split; [reflexivity|]. intros H cc_ok tps h Hi Tp F.
  apply fresh_with_hashed_headers; auto; try reflexivity; left; reflexivity.
Qed.
Print Assumptions C08_cincdir_header_edits_fresh.

(* hashing the cincdir headers is necessary: without it the edit (world 0 -> 10) is served stale under every policy *)
Theorem C08_header_hash_needed :
  forall pol, all_fresh all_ok (exec H_id (vis false) all_ok pol 10 (init 10) w_cincdir_header_edit) = false.
Proof. exact refuted_without_hashed_headers. Qed.
Print Assumptions C08_header_hash_needed.

(* THE OPEN FINDING: a header reached only through --cflags -I (or a `## cfile` extra C file; world 0 -> 100)
   is served stale by the code as it is - scraped policy, scraped HEADERS_HASHED - so the statement over
   ALL world edits is false *)
Definition C08_cache_fresh_all_world_edits : Prop :=
  forall H cc_ok tps h, H_inj H -> 0 < tps ->
    all_fresh cc_ok (exec H (vis HEADERS_HASHED) cc_ok GENPOL tps (init tps) h) = true.
Theorem C08_cache_fresh_all_world_edits_refuted : ~ C08_cache_fresh_all_world_edits.
Proof.
  intros F. specialize (F H_id all_ok 10 w_I_header_edit H_id_inj eq_refl).
  rewrite (refuted_I_header_edit HEADERS_HASHED GENPOL) in F. discriminate.
Qed.
Print Assumptions C08_cache_fresh_all_world_edits_refuted.
