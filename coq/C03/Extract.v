From C03 Require Import Model.
Require Extraction.
Require Import ExtrOcamlBasic.
Extraction "model.ml" nl cl nl_offsets cl_offsets static_assert_holds wfb eq_accesses accesses_in_bounds
  h_idiv h_imod h_shl h_shr h_asr h_lt_su h_lt_us h_eq_su h_narrow_f2i h_narrow_int
  op_add op_sub op_mul op_unm op_bnot op_cdiv op_crem op_tdiv op_tmod op_lt op_le op_eq
  emit_shl emit_shr emit_asr shl_fast_width_left shr_fast_width_left asr_fast_width_left
  ISO FWRAPV GNU I8 I16 I32 I64 U8 U16 U32 U64.
