(* C03 - executable models.
   Part 1  type layout: nelua_layout mirrors lualib/nelua/types.lua (Type:_init, ArrayType:_init,
           RecordType:update_fields with packed/aligned, UnionType:update_fields as repaired);
           c_layout is the System V / GNU C rule set gcc and clang implement.
   Part 2  helper bodies over the C semantics: Helpers.v (shared); float->integer narrowing here.
   Part 3  bytes passed to memcmp by nelua_eq_<type> (cbuiltins.nelua_eq_).
   No proofs here. *)
From C03 Require Export Gen Helpers.
Local Open Scope Z_scope.

(* the C dialect of every supported build: -fwrapv iff the scraped base flags of BOTH supported compilers
   contain it (cdefs.lua cflags_base is passed in every configuration: checked against the real command line by
   C09); gcc's and clang's documented wrapping of signed `<<` is an assumption about the compilers *)
Definition base_mode : cmode := mk_mode (gcc_base_has_fwrapv && clang_base_has_fwrapv) true.

(* ------------------------------------------------------------------ *)
(* Part 1: layout                                                      *)
(* ------------------------------------------------------------------ *)

(* a primitive is identified by its index in the scraped tables of Gen.v *)
Inductive ty :=
  | TPrim (k : nat)
  | TPtr
  | TArr (t : ty) (n : Z)
  | TRec (fs : list ty) (packed : bool) (aligned : option Z)
  | TUni (fs : list ty).

Definition nelua_prim (k : nat) : Z * Z := nth k nelua_prims (0, 0).
Definition c_prim (k : nat) : Z * Z := nth k c_prims (0, 1).

(* types.lua align_forward *)
Definition align_forward (offset align : Z) : Z :=
  if (align <=? 1) || (offset =? 0) then offset
  else if offset mod align =? 0 then offset
  else offset + (align - offset mod align).

(* one step of the field loop of RecordType:update_fields:
   state (offset, align, offsets so far in reverse) *)
Definition nl_rec_step (packed : bool) (st : Z * Z * list Z) (f : Z * Z) : Z * Z * list Z :=
  let '(offset, align, offs) := st in
  let '(fsize, falign) := f in
  if packed then (offset + fsize, align, offset :: offs)
  else
    let align' := Z.max align falign in
    let offset' := align_forward offset falign in
    (offset' + fsize, align', offset' :: offs).

Definition nl_rec_finish (nfields : nat) (packed : bool) (aligned : option Z) (offset align : Z) : Z * Z :=
  let '(offset, align) :=
    match nfields with
    | O => (* no fields: the C struct still gets the alignment attribute (repaired in 3c0ba5f) *)
      (offset, match aligned with Some A => Z.max A align | None => align end)
    | _ =>
      let offset := if packed then offset else align_forward offset align in
      match aligned with
      | Some A => (align_forward offset A, Z.max A align)
      | None => (offset, align)
      end
    end in
  (* a record made only of zero sized fields keeps the alignment of its fields (repaired in 61ca8bb:
     align = math.max(align, offset) with offset = emptysize) *)
  if offset =? 0 then (emptysize, Z.max align emptysize) else (offset, align).

(* a zero-size union keeps the alignment of its members (repaired in bac28d6) *)
Definition nl_uni_finish (size align : Z) : Z * Z :=
  if size =? 0 then (emptysize, Z.max align emptysize) else (align_forward size align, align).

(* (size, align) as the compiler computes them *)
Fixpoint nl (t : ty) : Z * Z :=
  match t with
  | TPrim k => let '(s, a) := nelua_prim k in (s, Z.min a maxalign)
  | TPtr => (ptrsize, Z.min ptrsize maxalign)
  | TArr t n => let '(s, a) := nl t in (s * n, a)
  | TRec fs packed aligned =>
    let '(offset, align, _) := fold_left (nl_rec_step packed) (map nl fs) (0, 1, []) in
    nl_rec_finish (length fs) packed aligned offset align
  | TUni fs =>
    let '(size, align) :=
      fold_left (fun st f => (Z.max (fst st) (fst f), Z.max (snd st) (snd f))) (map nl fs) (0, 1) in
    nl_uni_finish size align
  end.

(* field offsets of a record as the compiler computes them (field.offset) *)
Definition nl_offsets (fs : list ty) (packed : bool) : list Z :=
  let '(_, _, offs) := fold_left (nl_rec_step packed) (map nl fs) (0, 1, []) in rev offs.

(* ---- the C side ---- *)
Definition roundup (o a : Z) : Z := ((o + a - 1) / a) * a.

Definition c_rec_step (packed : bool) (st : Z * Z * list Z) (f : Z * Z) : Z * Z * list Z :=
  let '(offset, align, offs) := st in
  let '(fsize, falign) := f in
  let falign := if packed then 1 else falign in
  let offset' := roundup offset falign in
  (offset' + fsize, Z.max align falign, offset' :: offs).

Fixpoint cl (t : ty) : Z * Z :=
  match t with
  | TPrim k => c_prim k
  | TPtr => c_pointer
  | TArr t n => let '(s, a) := cl t in (s * n, a)
  | TRec fs packed aligned =>
    let '(offset, align, _) := fold_left (c_rec_step packed) (map cl fs) (0, 1, []) in
    let align := match aligned with Some A => Z.max align A | None => align end in
    (roundup offset align, align)
  | TUni fs =>
    let '(size, align) :=
      fold_left (fun st f => (Z.max (fst st) (fst f), Z.max (snd st) (snd f))) (map cl fs) (0, 1) in
    (roundup size align, align)
  end.

Definition cl_offsets (fs : list ty) (packed : bool) : list Z :=
  let '(_, _, offs) := fold_left (c_rec_step packed) (map cl fs) (0, 1, []) in rev offs.

(* what the emitted NELUA_STATIC_ASSERT states (emitted only for size > 0):
   sizeof(T) == size && NELUA_ALIGNOF(T) == align *)
Definition static_assert_holds (t : ty) : bool :=
  let '(s, a) := nl t in
  if 0 <? s then (fst (cl t) =? s) && (snd (cl t) =? a) else true.

(* well-formed type trees: primitives of the table, arrays of any length >= 0, records (packed or not,
   with or without fields) whose user alignment is a power of two in 1 .. aligned_pow2_max, unions - nested
   arbitrarily.  The alignment domain is exactly what the analyzer accepts since /repo 42ec760 (the bound is scraped
   from visitors.Annotation into Gen.v; before, any integer was accepted and aligned(3) reached the C compiler).
   Still left out: 128-bit integers as fields, and the type constructors [ty] does not have (enums, spans, strings,
   function types, pointers to incomplete types). *)
Definition is_pow2 (a : Z) : bool := (0 <? a) && (Z.land a (a - 1) =? 0).
Fixpoint wfb (t : ty) : bool :=
  match t with
  | TPrim k => (k <? length nelua_prims)%nat
  | TPtr => true
  | TArr t n => wfb t && (0 <=? n)
  | TRec fs packed aligned =>
    forallb wfb fs &&
    match aligned with Some A => is_pow2 A && (A <=? aligned_pow2_max) | None => true end
  | TUni fs => forallb wfb fs
  end.

(* ------------------------------------------------------------------ *)
(* Part 2: float -> integer narrowing                                  *)
(* ------------------------------------------------------------------ *)

(* nelua_assert_narrow_<float>_<D>(x):  if((D)(x) != x) panic;  return (D)x;
   unchecked: (D)x.  The conversion (D)x is evaluated first in both. *)
Definition h_narrow_f2i (dt : ity) (checked : bool) (x : fl) : outcome :=
  match c_f2i dt x with
  | None => OUB
  | Some (_, v) => if checked && negb (exact_eq_if (rne53 v) x) then OPanic else ORet v
  end.

(* integer source: cbuiltins.nelua_assert_narrow_ *)
Definition narrow_fails (st dt : ity) (x : Z) : bool :=
  if isigned st && negb (isigned dt) then (x <? 0) || ((imax dt <? imax st) && (imax dt <? x))
  else if negb (isigned st) && isigned dt then imax dt <? x
  else (imax dt <? x) || (isigned st && (x <? imin dt)).
Definition h_narrow_int (st dt : ity) (checked : bool) (x : Z) : outcome :=
  if checked && narrow_fails st dt x then OPanic else ORet (cwrap dt x).

(* ------------------------------------------------------------------ *)
(* Part 3: bytes read by nelua_eq_<type>                                *)
(* ------------------------------------------------------------------ *)

Definition is_composite (t : ty) : bool := match t with TRec _ _ _ | TUni _ => true | _ => false end.
Definition is_array (t : ty) : bool := match t with TArr _ _ => true | _ => false end.

(* every memcmp(&obj + off, ..., len) issued while comparing two objects of type t placed at offset
   base; eq_array_memcmp_size (Gen.v) says which sizeof the array-field branch passes *)
Fixpoint eq_accesses (base : Z) (t : ty) : list (Z * Z) :=
  match t with
  | TUni _ => [(base, fst (nl t))]
  | TRec fs packed _ =>
    (fix go (l : list ty) (offs : list Z) : list (Z * Z) :=
       match l, offs with
       | f :: l', o :: offs' =>
         (if is_composite f then eq_accesses (base + o) f
          else if is_array f then
            [(base + o, if eq_array_memcmp_size_is_field then fst (nl f) else fst (nl t))]
          else []) ++ go l' offs'
       | _, _ => []
       end) fs (nl_offsets fs packed)
  | _ => []
  end.

Definition accesses_in_bounds (t : ty) : bool :=
  forallb (fun a => (0 <=? fst a) && (0 <=? snd a) && (fst a + snd a <=? fst (nl t))) (eq_accesses 0 t).
