From C03 Require Import Model ProofsBase ProofsDiv ProofsShiftBase ProofsShift.
Local Open Scope Z_scope.
Ltac Zify.zify_post_hook ::= Z.div_mod_to_equations.

Ltac asr_neg_tac a b Hg :=
  rewrite c_neg_count by (cbn; try tauto; lia); unfold obind;
  apply ret_not_ub; unfold c_shl, c_cast; cb; eval_promote; cb;
  (replace (cwrap _ (- b)) with (- b) by (unfold cwrap; cbn; lia));
  (replace ((- b <? 0) || (_ <=? - b)) with false by lia);
  try discriminate; rewrite ?Hg;
  match goal with |- context [if ?c then _ else _] => destruct c; discriminate end.

Lemma h_asr_no_ub_gnu m t a b : m_gnushl m = true -> ity_ok t -> in_ity t a -> in_ity I64 b ->
  h_asr m t a b <> OUB.
Proof.
  intros Hg Ht. revert a b. pattern t. apply ity_cases; [| | | | | | | |exact Ht];
  intros a b Ha Hb; shift_common a b Ha Hb; unfold h_asr; cb;
  (destruct ((0 <=? b) && (b <? _)) eqn:E1;
   [ shr_pos_tac a b
   | match goal with |- (if ?k <=? b then _ else _) <> _ => destruct (k <=? b) eqn:E3 end; [apply ret_not_ub; discriminate|];
     destruct ((b <? 0) && (_ <? b)) eqn:E2; [ asr_neg_tac a b Hg | discriminate ] ]).
Qed.

(* a remark about the dialects, not a defect of any supported build: -fwrapv alone (signed << as in ISO C) would
   leave the negative-count branch `a << -b` of nelua_asr_ undefined; gcc and clang both define it *)
Lemma asr_needs_gnu_shl : h_asr FWRAPV I64 (-1) (-1) = OUB /\ h_asr GNU I64 (-1) (-1) = ORet (-2).
Proof. split; reflexivity. Qed.

(* the helpers as emitted (position of the `b == -1` line scraped from cbuiltins.lua) *)
Lemma emitted_div_helpers_no_ub m t checked a b : m_wrapv m = true -> In t signed_types -> in_ity t a -> in_ity t b ->
  (checked = true \/ b <> 0) ->
  emitted_idiv_helper idiv_guard_first m t checked a b <> OUB /\ emitted_imod_helper imod_guard_first m t checked a b <> OUB.
Proof.
  intros. unfold emitted_idiv_helper, emitted_imod_helper.
  change idiv_guard_first with true. change imod_guard_first with true. cbn [orb].
  split; [apply h_idiv_no_ub|apply h_imod_no_ub]; auto.
Qed.

(* mixed-signedness comparisons and plain unary operators *)
Lemma h_lt_su_no_ub lt rt a b : h_lt_su lt rt a b <> OUB.
Proof. unfold h_lt_su. destruct (a <? 0); [discriminate|]. apply ret_not_ub. discriminate. Qed.
Lemma h_lt_us_no_ub lt rt a b : h_lt_us lt rt a b <> OUB.
Proof. unfold h_lt_us. destruct (b >? 0); [|discriminate]. apply ret_not_ub. discriminate. Qed.
Lemma h_eq_su_no_ub lt rt a b : h_eq_su lt rt a b <> OUB.
Proof. unfold h_eq_su, c_eq, c_cmp. destruct (c_truth _); discriminate. Qed.
Lemma op_unm_no_ub m t a : m_wrapv m = true -> op_unm m t a <> OUB.
Proof. intros. apply ret_not_ub, arith_result_wrapv; auto. Qed.
Lemma op_arith_no_ub m t a b : m_wrapv m = true ->
  op_add m t a b <> OUB /\ op_sub m t a b <> OUB /\ op_mul m t a b <> OUB.
Proof. intros. repeat split; apply ret_not_ub, c_arith_wrapv; auto. Qed.
(* without -fwrapv the plain operators are not UB-free *)
Lemma op_add_iso_ub : op_add ISO I64 maxint 1 = OUB.
Proof. vm_compute. reflexivity. Qed.

(* ---- float -> integer narrowing ---- *)
Definition narrow_float_defined_full : Prop :=
  forall dt checked x, ity_ok dt -> h_narrow_f2i dt checked x <> OUB.
(* 1e30 = 0x193E5939A08CEA * 2^47 *)
Definition f_1e30 : fl := FFin 7105427357601002 47.
Lemma narrow_float_defined_refuted : ~ narrow_float_defined_full.
Proof. intros H. apply (H I64 true f_1e30); [cbn; tauto|]. vm_compute. reflexivity. Qed.

Lemma narrow_float_defined_partial dt checked m e :
  in_ity dt (fl_trunc m e) -> h_narrow_f2i dt checked (FFin m e) <> OUB.
Proof.
  intros H. unfold h_narrow_f2i, c_f2i. apply in_ityb_spec in H. rewrite H.
  destruct (checked && _); discriminate.
Qed.

(* ---- layout: primitive tables; the former refutation witnesses now hold ---- *)
Lemma prims_agree : map (fun p => (fst p, Z.min (snd p) maxalign)) nelua_prims = c_prims /\
                    (ptrsize, Z.min ptrsize maxalign) = c_pointer.
Proof. vm_compute. split; reflexivity. Qed.

(* index of int64 and of byte (uint8) in the primitive table *)
Definition k_int64 : nat := 4.
Definition k_uint8 : nat := 7.
(* repaired in 61ca8bb / bac28d6 / 3c0ba5f: zero-size record, zero-size union, aligned record without fields *)
Definition t_repaired : ty := TRec [TRec [TArr (TPrim k_int64) 0] false None; TPrim k_uint8] false None.
Definition t_repaired_union : ty := TRec [TUni [TArr (TPrim k_int64) 0]; TPrim k_uint8] false None.
Definition t_repaired_aligned : ty := TRec [TRec [] false (Some 16); TPrim k_uint8] false None.
Example repaired_cases :
  static_assert_holds t_repaired = true /\ nl t_repaired = (8, 8) /\
  static_assert_holds t_repaired_union = true /\ nl t_repaired_union = (8, 8) /\
  static_assert_holds t_repaired_aligned = true /\ nl t_repaired_aligned = (16, 16).
Proof. vm_compute. repeat split; reflexivity. Qed.

(* ---------- every supported build: the dialect given by the scraped base flags ---------- *)
Lemma base_mode_wrapv : m_wrapv base_mode = true.
Proof. reflexivity. Qed.
Lemma base_mode_gnushl : m_gnushl base_mode = true.
Proof. reflexivity. Qed.
