From C03 Require Import Model ProofsBase.
Local Open Scope Z_scope.
Ltac Zify.zify_post_hook ::= Z.div_mod_to_equations.

Lemma pow2_le b k : 0 <= b <= k -> 0 < 2 ^ b <= 2 ^ k.
Proof. intros. split; [apply pow2_pos; lia|apply Z.pow_le_mono_r; lia]. Qed.

(* -b for a count b in (-bits, 0): never overflows, in any dialect *)
Lemma c_neg_count m t b : In t signed_types -> - ibits t < b < 0 ->
  c_neg m (t, b) = Some (promote t, - b).
Proof.
  intros Ht. revert b. pattern t. apply signed_cases; [| | | |exact Ht]; intros b Hb; cbn in Hb;
  unfold c_neg; cbn [fst snd]; eval_promote; drop_cwrap b;
  unfold arith_result; cbn [isigned];
  (replace (in_ityb _ (- b)) with true by (unfold in_ityb, imin, imax; cbn; lia)); reflexivity.
Qed.

Ltac shift_common a b Ha Hb :=
  unfold in_ity, imin, imax in Ha, Hb; cbn in Ha, Hb;
  cbn [to_signed to_unsigned ibits isigned].

Ltac count_ok b :=
  unfold c_shl, c_shr, c_cast; cbn [fst snd]; eval_promote; cbn [ibits isigned];
  drop_cwrap b.

