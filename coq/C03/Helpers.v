(* The run-time helpers emitted by lualib/nelua/cbuiltins.lua and the plain C operators chosen by
   cbuiltins.operators.*, transcribed statement by statement over the C semantics of CSem.v.
   Source of truth: coq/C03/Helpers.v (copied into coq/C01 and coq/C09 by their checks).
   Every function takes the C dialect [m] and the Nelua integer type [t] of the operation;
   arguments are mathematical integers in the range of the parameter types. *)
From C03 Require Export CSem.
Local Open Scope Z_scope.

Definition lit (v : Z) : cval := (I32, v).      (* an int literal such as 0, -1, 64 *)
Definition litU (v : Z) : cval := (U32, v).     (* 0U *)

(* nelua_idiv_T / nelua_assert_idiv_T   (cbuiltins.nelua_idiv_)
     if(b == -1) return 0U - (utype)a;
     [checked] if(b == 0) panic;
     stype q = a / b;
     return q * b == a ? q : q - ((a < 0) ^ (b < 0));                                   *)
(* the part of the body after the `b == -1` line *)
Definition h_idiv_rest (m : cmode) (t : ity) (checked : bool) (a b : Z) : outcome :=
  let A : cval := (t, a) in let B : cval := (t, b) in
  if checked && (b =? 0) then OPanic
  else
    match c_div A B with
    | None => OUB
    | Some q0 =>
      let Q : cval := (to_signed t, cwrap (to_signed t) (snd q0)) in
      ret t (qb <- c_mul m Q B ;;
             c <- c_eq qb A ;;
             if c_truth c then Some Q
             else (x <- c_lt A (lit 0) ;; y <- c_lt B (lit 0) ;; z <- c_bxor x y ;; c_sub m Q z))
    end.
Definition h_idiv (m : cmode) (t : ity) (checked : bool) (a b : Z) : outcome :=
  let A : cval := (t, a) in let B : cval := (t, b) in
  match c_eq B (lit (-1)) with
  | None => OUB
  | Some c1 =>
    if c_truth c1 then ret t (c_sub m (litU 0) (c_cast (to_unsigned t) A))
    else h_idiv_rest m t checked a b
  end.

(* nelua_imod_T / nelua_assert_imod_T
     if(b == -1) return 0;
     [checked] if(b == 0) panic;
     T r = a % b;
     return (r != 0 && (a ^ b) < 0) ? r + b : r;                                          *)
Definition h_imod_rest (m : cmode) (t : ity) (checked : bool) (a b : Z) : outcome :=
  let A : cval := (t, a) in let B : cval := (t, b) in
  if checked && (b =? 0) then OPanic
  else
    match c_rem A B with
    | None => OUB
    | Some r0 =>
      let R : cval := (t, cwrap t (snd r0)) in
      ret t (c <- c_ne R (lit 0) ;;
             if c_truth c then
               (x <- c_bxor A B ;; d <- c_lt x (lit 0) ;;
                if c_truth d then c_add m R B else Some R)
             else Some R)
    end.
Definition h_imod (m : cmode) (t : ity) (checked : bool) (a b : Z) : outcome :=
  let B : cval := (t, b) in
  match c_eq B (lit (-1)) with
  | None => OUB
  | Some c1 =>
    if c_truth c1 then ret t (Some (lit 0)) else h_imod_rest m t checked a b
  end.

(* the helpers as a function of where the generator puts the `b == -1` line: before `if checked`
   (guard_first, the code as it is) or inside it after the zero check *)
Definition emitted_idiv_helper (guard_first : bool) (m : cmode) (t : ity) (checked : bool) (a b : Z) : outcome :=
  if guard_first || checked then h_idiv m t checked a b else h_idiv_rest m t false a b.
Definition emitted_imod_helper (guard_first : bool) (m : cmode) (t : ity) (checked : bool) (a b : Z) : outcome :=
  if guard_first || checked then h_imod m t checked a b else h_imod_rest m t false a b.

(* nelua_shl_T(T a, int64 b)     (the count is no longer narrowed to the type of a: /repo 2cffa35)
     if(b >= 0 && b < bitsize) return ((utype)a) << b;
     else if(b < 0 && b > -bitsize) return (utype)a >> -b;
     else return 0;                                                                        *)
Definition h_shl (m : cmode) (t : ity) (a b : Z) : outcome :=
  let A : cval := (t, a) in let B : cval := (I64, b) in
  let UA := c_cast (to_unsigned t) A in
  if (0 <=? b) && (b <? ibits t) then ret t (c_shl m UA B)
  else if (b <? 0) && (- ibits t <? b) then ret t (nb <- c_neg m B ;; c_shr UA nb)
  else ret t (Some (lit 0)).

(* nelua_shr_T(T a, int64 b): the mirror image *)
Definition h_shr (m : cmode) (t : ity) (a b : Z) : outcome :=
  let A : cval := (t, a) in let B : cval := (I64, b) in
  let UA := c_cast (to_unsigned t) A in
  if (0 <=? b) && (b <? ibits t) then ret t (c_shr UA B)
  else if (b <? 0) && (- ibits t <? b) then ret t (nb <- c_neg m B ;; c_shl m UA nb)
  else ret t (Some (lit 0)).

(* nelua_asr_T(T a, int64 b)
     if(b >= 0 && b < bitsize) return a >> b;
     else if(b >= bitsize) return a < 0 ? -1 : 0;
     else if(b < 0 && b > -bitsize) return a << -b;
     else return 0;                                                                        *)
Definition h_asr (m : cmode) (t : ity) (a b : Z) : outcome :=
  let A : cval := (t, a) in let B : cval := (I64, b) in
  if (0 <=? b) && (b <? ibits t) then ret t (c_shr A B)
  else if ibits t <=? b then ret t (Some (lit (if a <? 0 then -1 else 0)))
  else if (b <? 0) && (- ibits t <? b) then ret t (nb <- c_neg m B ;; c_shl m A nb)
  else ret t (Some (lit 0)).

(* nelua_lt_S_U(S a, U b): return a < 0 || (utype_of_S)a < b;   (lt : signed type, rt : unsigned type) *)
Definition h_lt_su (lt rt : ity) (a b : Z) : outcome :=
  let A : cval := (lt, a) in let B : cval := (rt, b) in
  if a <? 0 then ORet 1
  else ret I8 (c_lt (c_cast (to_unsigned lt) A) B).
(* nelua_lt_U_S(U a, S b): return b > 0 && a < (utype_of_S)b; *)
Definition h_lt_us (lt rt : ity) (a b : Z) : outcome :=
  let A : cval := (lt, a) in let B : cval := (rt, b) in
  if b >? 0 then ret I8 (c_lt A (c_cast (to_unsigned rt) B)) else ORet 0.
(* nelua_eq_S_U(S a, U b): return (uintN)a == (uintN)b && a >= 0;   N = max bitsize *)
Definition h_eq_su (lt rt : ity) (a b : Z) : outcome :=
  let A : cval := (lt, a) in let B : cval := (rt, b) in
  let mt := mk_ity (Z.max (ibits lt) (ibits rt)) false in
  match c_eq (c_cast mt A) (c_cast mt B) with
  | Some c => if c_truth c then ORet (if 0 <=? a then 1 else 0) else ORet 0
  | None => OUB
  end.

(* ---- plain operators (operator_binary_op and friends) on two operands of type t ---- *)
Definition op_add (m : cmode) (t : ity) (a b : Z) : outcome := ret t (c_add m (t, a) (t, b)).
Definition op_sub (m : cmode) (t : ity) (a b : Z) : outcome := ret t (c_sub m (t, a) (t, b)).
Definition op_mul (m : cmode) (t : ity) (a b : Z) : outcome := ret t (c_mul m (t, a) (t, b)).
Definition op_band (t : ity) (a b : Z) : outcome := ret t (c_band (t, a) (t, b)).
Definition op_bor (t : ity) (a b : Z) : outcome := ret t (c_bor (t, a) (t, b)).
Definition op_bxor (t : ity) (a b : Z) : outcome := ret t (c_bxor (t, a) (t, b)).
Definition op_unm (m : cmode) (t : ity) (a : Z) : outcome := ret t (c_neg m (t, a)).
Definition op_bnot (t : ity) (a : Z) : outcome := ret t (c_bnot (t, a)).
Definition op_lt (t : ity) (a b : Z) : outcome := ret I8 (c_lt (t, a) (t, b)).
Definition op_le (t : ity) (a b : Z) : outcome := ret I8 (c_le (t, a) (t, b)).
Definition op_eq (t : ity) (a b : Z) : outcome := ret I8 (c_eq (t, a) (t, b)).
Definition op_ne (t : ity) (a b : Z) : outcome := ret I8 (c_ne (t, a) (t, b)).
(* (since /repo 1d3f0fa operator_binary_op and unary - ~ emit `(T)(a op b)` / `((T)-a)` when T is narrower than C
   int: the explicit cast is the conversion [ret t] already applies to the promoted result, so the modelled values
   are unchanged - confirmed by the helpers stream on int8/int16/uint8/uint16) *)
(* plain `/` and `%` chosen when neither operand can be negative *)
Definition op_cdiv (t : ity) (a b : Z) : outcome := ret t (c_div (t, a) (t, b)).
Definition op_crem (t : ity) (a b : Z) : outcome := ret t (c_rem (t, a) (t, b)).
(* operators.tdiv / operators.tmod (`///`, `%%%`) on two integers of the same type: the same bare C `/` and `%`
   (operator_binary_op), whatever the signs and in both build modes - no helper, no check *)
Definition op_tdiv (t : ity) (a b : Z) : outcome := op_cdiv t a b.
Definition op_tmod (t : ity) (a b : Z) : outcome := op_crem t a b.
(* the compile-time-count shortcut of operators.shl for a signed left type:
   ((T)((utype)a << N))   with 0 <= N < bitsize a literal *)
Definition op_shl_const (m : cmode) (t : ity) (a n : Z) : outcome :=
  ret t (c_shl m (c_cast (to_unsigned t) (t, a)) (lit n)).
(* operators.asr shortcut: (a >> N) *)
Definition op_asr_const (t : ity) (a n : Z) : outcome := ret t (c_shr (t, a) (lit n)).

(* ---- the dispatch of cbuiltins.operators.idiv / mod / shl / shr on integers ----
   [guard_first] = position of the `b == -1` line in the helper generator (scraped into Gen.v);
   [maybe_neg] = lattr:is_maybe_negative() or rattr:is_maybe_negative();
   [nochecks]  = context.pragmas.nochecks;  [cnt] = Some n when the count is a compile-time
   constant *)
Definition emit_idiv (guard_first : bool) (m : cmode) (t : ity) (maybe_neg nochecks : bool) (a b : Z) : outcome :=
  if maybe_neg then emitted_idiv_helper guard_first m t (negb nochecks) a b else op_cdiv t a b.
Definition emit_imod (guard_first : bool) (m : cmode) (t : ity) (maybe_neg nochecks : bool) (a b : Z) : outcome :=
  if maybe_neg then emitted_imod_helper guard_first m t (negb nochecks) a b else op_crem t a b.
(* operators.shl / shr / asr: the plain C operator is used when the count is a compile-time constant n with
   0 <= n < W.  [wleft] (scraped into Gen.v, one flag per operator) tells which width the generator compares
   against: the shifted operand's (true, the code as it is) or the count's own type [ct] (int64 for an
   untyped constant).  The constant is emitted as a C int literal. *)
Definition fast_width (wleft : bool) (t ct : ity) : Z := if wleft then ibits t else ibits ct.
Definition emit_shl (wleft : bool) (m : cmode) (t ct : ity) (cnt_comptime : bool) (a b : Z) : outcome :=
  if cnt_comptime && (0 <=? b) && (b <? fast_width wleft t ct) then
    (if isigned t then op_shl_const m t a b else ret t (c_shl m (t, a) (lit b)))
  else h_shl m t a b.
Definition emit_shr (wleft : bool) (m : cmode) (t ct : ity) (cnt_comptime : bool) (a b : Z) : outcome :=
  if negb (isigned t) && cnt_comptime && (0 <=? b) && (b <? fast_width wleft t ct) then ret t (c_shr (t, a) (lit b))
  else h_shr m t a b.
Definition emit_asr (wleft : bool) (m : cmode) (t ct : ity) (cnt_comptime : bool) (a b : Z) : outcome :=
  if cnt_comptime && (0 <=? b) && (b <? fast_width wleft t ct) then op_asr_const t a b
  else h_asr m t a b.
