From C03 Require Import Model ProofsLayoutArith ProofsLayout.
Local Open Scope Z_scope.
Ltac Zify.zify_post_hook ::= Z.div_mod_to_equations.

Lemma eq_size_is_field : eq_array_memcmp_size_is_field = true.
Proof. reflexivity. Qed.

Lemma agree_nonneg t : agree t -> 0 <= fst (nl t) /\ 0 <= snd (nl t).
Proof.
  unfold agree, fagree. intros (E & Hs & Hp). rewrite E. pose proof (p2_pos _ Hp). lia.
Qed.

(* the field loop: every field lies inside [start offset, final offset) *)
Lemma nl_fold_bounds packed : forall (fields : list (Z * Z)),
  Forall (fun f => 0 <= fst f /\ 0 <= snd f) fields ->
  forall off al offs, 0 <= off -> 0 <= al ->
  let '(off', al', offs') := fold_left (nl_rec_step packed) fields (off, al, offs) in
  off <= off' /\ 0 <= al' /\ exists new, offs' = rev new ++ offs /\
  Forall2 (fun o f => off <= o /\ o + fst f <= off') new fields.
Proof.
  induction 1 as [|[fs fa] fields (Hfs & Hfa) _ IH]; intros off al offs Ho Ha.
  - cbn. repeat split; try lia. exists []. split; [reflexivity|constructor].
  - cbn [fold_left nl_rec_step]. cbn [fst snd] in Hfs, Hfa.
    set (o1 := if packed then off else align_forward off fa).
    assert (H1 : off <= o1) by (unfold o1; destruct packed; [lia|apply align_forward_nonneg; lia]).
    assert (E : (if packed then (off + fs, al, off :: offs) else (align_forward off fa + fs, Z.max al fa, align_forward off fa :: offs))
                = (o1 + fs, (if packed then al else Z.max al fa), o1 :: offs)) by (unfold o1; destruct packed; reflexivity).
    cbn [fst snd] in *. rewrite E.
    specialize (IH (o1 + fs) (if packed then al else Z.max al fa) (o1 :: offs) ltac:(lia) ltac:(destruct packed; lia)).
    destruct (fold_left (nl_rec_step packed) fields (o1 + fs, if packed then al else Z.max al fa, o1 :: offs)) as [[off' al'] offs'].
    destruct IH as (L & A & new & -> & F). repeat split; try lia.
    exists (o1 :: new). split; [cbn [rev]; rewrite <- app_assoc; reflexivity|].
    constructor; [cbn [fst]; lia|].
    clear -F H1 Hfs. induction F as [|x y l l' (A1 & A2) _ IHF]; constructor; auto. lia.
Qed.

Lemma rec_size_ge n packed aligned off al : 0 <= off -> 0 <= al ->
  match aligned with Some A => 0 <= A | None => True end ->
  off <= fst (nl_rec_finish n packed aligned off al).
Proof.
  intros Ho Ha HA. unfold nl_rec_finish. rewrite emptysize_0.
  destruct n as [|n].
  - destruct (off =? 0) eqn:E; cbn [fst]; lia.
  - set (o1 := if packed then off else align_forward off al).
    assert (off <= o1) by (unfold o1; destruct packed; [lia|apply align_forward_nonneg; lia]).
    destruct aligned as [A|].
    + pose proof (align_forward_nonneg o1 A ltac:(lia) HA).
      destruct (align_forward o1 A =? 0) eqn:E; cbn [fst]; lia.
    + destruct (o1 =? 0) eqn:E; cbn [fst]; lia.
Qed.

Definition in_bounds (lo hi : Z) (a : Z * Z) : Prop := lo <= fst a /\ 0 <= snd a /\ fst a + snd a <= hi.

Lemma in_bounds_weaken lo hi lo' hi' l : lo' <= lo -> hi <= hi' -> Forall (in_bounds lo hi) l -> Forall (in_bounds lo' hi') l.
Proof. intros. eapply Forall_impl; [|eassumption]. unfold in_bounds. intros a (A & B & C). lia. Qed.

Lemma eq_accesses_in_bounds : forall t, wfb t = true -> forall base,
  Forall (in_bounds base (base + fst (nl t))) (eq_accesses base t).
Proof.
  induction t as [k| |t n IH|fs packed aligned IH|fs IH] using ty_ind'; intros Hwf base.
  - cbn [eq_accesses]. constructor.
  - cbn [eq_accesses]. constructor.
  - cbn [eq_accesses]. constructor.
  - (* record *)
    pose proof (layout_agree _ Hwf) as Hag. destruct (agree_nonneg _ Hag) as (Hsz & _).
    cbn [wfb] in Hwf. apply andb_prop in Hwf. destruct Hwf as (Hall & Hal).
    assert (HF : Forall (fun f => wfb f = true) fs) by (rewrite forallb_forall in Hall; rewrite Forall_forall; auto).
    assert (Hnn : Forall (fun f => 0 <= fst f /\ 0 <= snd f) (map nl fs)).
    { rewrite Forall_forall in *. intros x Hx. apply in_map_iff in Hx. destruct Hx as (f & <- & Hf).
      apply agree_nonneg, layout_agree, HF, Hf. }
    pose proof (nl_fold_bounds packed _ Hnn 0 1 [] ltac:(lia) ltac:(lia)) as Hb.
    remember (fst (nl (TRec fs packed aligned))) as SZ eqn:Esz.
    cbn [nl] in Esz.
    cbn [eq_accesses]. unfold nl_offsets.
    destruct (fold_left (nl_rec_step packed) (map nl fs) (0, 1, [])) as [[off al] offs].
    destruct Hb as (Hoff & Hal' & new & -> & F2). rewrite app_nil_r, rev_involutive.
    assert (Hge : off <= SZ).
    { rewrite Esz. apply rec_size_ge; try lia.
      - destruct aligned as [A|]; [|exact I]. apply andb_prop in Hal. destruct Hal as (Hp & _).
        apply andb_prop in Hp. destruct Hp as (Hp & _). unfold is_pow2 in Hp. lia. }
    clear Esz Hag Hal.
    (* the loop over fields and their offsets *)
    revert new F2. induction fs as [|f fs' IHfs]; intros new F2; [destruct new; constructor|].
    inversion F2 as [|o sz new' szs (Ho1 & Ho2) F2' E1 E2]; subst. cbn [fst] in *.
    inversion IH as [|? ? IHf IHr]; subst. inversion HF as [|? ? Hwf_f HFr]; subst.
    inversion Hnn as [|? ? Hnf Hnr]; subst.
    apply Forall_app. split.
    + destruct (is_composite f) eqn:Ec.
      * eapply in_bounds_weaken; [| |apply (IHf Hwf_f (base + o))]; lia.
      * destruct (is_array f); [|constructor].
        rewrite eq_size_is_field. constructor; [|constructor]. unfold in_bounds. cbn [fst snd]. cbn [fst] in Ho2. lia.
    + apply IHfs; auto.
      * cbn [forallb] in Hall. apply andb_prop in Hall. tauto.
  - (* union: one memcmp over the whole object *)
    pose proof (layout_agree _ Hwf) as Hag. destruct (agree_nonneg _ Hag) as (Hsz & _).
    cbn [eq_accesses]. constructor; [|constructor]. unfold in_bounds. cbn [fst snd]. lia.
Qed.

(* non-vacuity *)
Example ex_wf : wfb (TRec [TPrim 7; TArr (TPrim 4) 3; TRec [TPrim 3] true (Some 16); TRec [TArr (TPrim 4) 0] false None] false None) = true.
Proof. reflexivity. Qed.
Example ex_acc : eq_accesses 0 (TRec [TPrim 3; TArr (TPrim 4) 3] false None) = [(8, 24)].
Proof. reflexivity. Qed.
