From C03 Require Import Model.
Local Open Scope Z_scope.
Ltac Zify.zify_post_hook ::= Z.div_mod_to_equations.

(* ---------- induction principle for type trees ---------- *)
Section TyInd.
  Variable P : ty -> Prop.
  Hypothesis Hprim : forall k, P (TPrim k).
  Hypothesis Hptr : P TPtr.
  Hypothesis Harr : forall t n, P t -> P (TArr t n).
  Hypothesis Hrec : forall fs p a, Forall P fs -> P (TRec fs p a).
  Hypothesis Huni : forall fs, Forall P fs -> P (TUni fs).
  Fixpoint ty_ind' (t : ty) : P t :=
    match t with
    | TPrim k => Hprim k
    | TPtr => Hptr
    | TArr t n => Harr t n (ty_ind' t)
    | TRec fs p a => Hrec fs p a ((fix F (l : list ty) : Forall P l :=
                       match l with [] => Forall_nil P | x :: r => Forall_cons x (ty_ind' x) (F r) end) fs)
    | TUni fs => Huni fs ((fix F (l : list ty) : Forall P l :=
                       match l with [] => Forall_nil P | x :: r => Forall_cons x (ty_ind' x) (F r) end) fs)
    end.
End TyInd.

(* ---------- arithmetic of rounding ---------- *)
Lemma roundup_spec o a : 1 <= a -> 0 <= o ->
  roundup o a mod a = 0 /\ o <= roundup o a < o + a.
Proof.
  intros Ha Ho. unfold roundup. set (q := (o + a - 1) / a).
  pose proof (Z.div_mod (o + a - 1) a ltac:(lia)) as E. fold q in E.
  pose proof (Z.mod_pos_bound (o + a - 1) a ltac:(lia)) as B.
  rewrite Z.mod_mul by lia. split; [reflexivity|]. nia.
Qed.

Lemma roundup_least o a m : 1 <= a -> 0 <= o -> m mod a = 0 -> o <= m -> roundup o a <= m.
Proof.
  intros Ha Ho Hm Hle. unfold roundup. set (q := (o + a - 1) / a).
  pose proof (Z.div_mod (o + a - 1) a ltac:(lia)) as E. fold q in E.
  pose proof (Z.mod_pos_bound (o + a - 1) a ltac:(lia)) as B.
  pose proof (Z.div_mod m a ltac:(lia)) as Em. rewrite Hm in Em.
  assert (q <= m / a) by nia. nia.
Qed.

Lemma roundup_id o a : 1 <= a -> o mod a = 0 -> roundup o a = o.
Proof.
  intros Ha Hm. unfold roundup.
  pose proof (Z.div_mod o a ltac:(lia)) as Em. rewrite Hm in Em.
  replace (o + a - 1) with ((a - 1) + (o / a) * a) by lia.
  rewrite Z.div_add by lia. rewrite Z.div_small by lia. lia.
Qed.

Lemma roundup_1 o : roundup o 1 = o.
Proof. unfold roundup. lia. Qed.

Lemma align_forward_roundup o a : 1 <= a -> 0 <= o -> align_forward o a = roundup o a.
Proof.
  intros Ha Ho. unfold align_forward.
  destruct (a <=? 1) eqn:E1; cbn [orb].
  - assert (a = 1) by lia. subst. rewrite roundup_1. reflexivity.
  - destruct (o =? 0) eqn:E2.
    + assert (o = 0) by lia. subst. symmetry. apply roundup_id; [lia|]. apply Z.mod_0_l. lia.
    + destruct (o mod a =? 0) eqn:E3.
      * symmetry. apply roundup_id; lia.
      * unfold roundup.
        pose proof (Z.div_mod o a ltac:(lia)) as Em.
        pose proof (Z.mod_pos_bound o a ltac:(lia)) as B.
        set (q := o / a) in *. set (r := o mod a) in *.
        replace (o + a - 1) with ((r - 1) + (q + 1) * a) by lia.
        rewrite Z.div_add by lia. rewrite Z.div_small by lia. lia.
Qed.

Lemma align_forward_0 o : align_forward o 0 = o.
Proof. reflexivity. Qed.
Lemma align_forward_nonneg o a : 0 <= o -> 0 <= a -> o <= align_forward o a.
Proof.
  intros. destruct (Z.eq_dec a 0) as [->|]; [rewrite align_forward_0; lia|].
  rewrite align_forward_roundup by lia. apply roundup_spec; lia.
Qed.

Lemma mod_trans x a b : 1 <= a -> 1 <= b -> b mod a = 0 -> x mod b = 0 -> x mod a = 0.
Proof.
  intros Ha Hb H1 H2. apply Z.mod_divide in H1; [|lia]. apply Z.mod_divide in H2; [|lia].
  apply Z.mod_divide; [lia|]. eapply Z.divide_trans; eauto.
Qed.

Lemma roundup_roundup o a b : 1 <= a -> 1 <= b -> 0 <= o -> (b mod a = 0 \/ a mod b = 0) ->
  roundup (roundup o a) b = roundup o (Z.max a b).
Proof.
  intros Ha Hb Ho [H|H].
  - (* a divides b *)
    assert (a <= b). { apply Z.mod_divide in H; [|lia]. apply Z.divide_pos_le in H; lia. }
    rewrite Z.max_r by lia.
    destruct (roundup_spec o a Ha Ho) as (M1 & L1 & U1).
    destruct (roundup_spec o b Hb Ho) as (M2 & L2 & U2).
    assert (0 <= roundup o a) by lia.
    destruct (roundup_spec (roundup o a) b Hb H1) as (M3 & L3 & U3).
    apply Z.le_antisymm.
    + apply roundup_least; auto. apply roundup_least; auto. eapply mod_trans; [| |exact H|exact M2]; lia.
    + apply roundup_least; auto. lia.
  - (* b divides a *)
    assert (b <= a). { apply Z.mod_divide in H; [|lia]. apply Z.divide_pos_le in H; lia. }
    rewrite Z.max_l by lia.
    destruct (roundup_spec o a Ha Ho) as (M1 & L1 & U1).
    apply roundup_id; auto. eapply mod_trans; [| |exact H|exact M1]; lia.
Qed.

(* ---------- facts about the scraped tables ---------- *)
Definition pow2s : list Z := [1; 2; 4; 8; 16; 32; 64; 128; 256; 512; 1024; 2048; 4096; 8192; 16384; 32768; 65536; 131072; 262144; 524288; 1048576; 2097152; 4194304; 8388608; 16777216; 33554432; 67108864; 134217728; 268435456].
Definition p2 (a : Z) : Prop := In a pow2s.

Lemma p2_divides a b : p2 a -> p2 b -> b mod a = 0 \/ a mod b = 0.
Proof.
  intros Ha Hb.
  assert (H : forallb (fun a => forallb (fun b => (b mod a =? 0) || (a mod b =? 0)) pow2s) pow2s = true) by (vm_compute; reflexivity).
  rewrite forallb_forall in H. specialize (H a Ha). rewrite forallb_forall in H. specialize (H b Hb). lia.
Qed.
Lemma p2_pos a : p2 a -> 1 <= a.
Proof.
  intros Ha. assert (H : forallb (fun a => 1 <=? a) pow2s = true) by (vm_compute; reflexivity).
  rewrite forallb_forall in H. specialize (H a Ha). lia.
Qed.
Lemma p2_max a b : p2 a -> p2 b -> p2 (Z.max a b).
Proof. intros. destruct (Z.max_spec a b) as [[_ ->]|[_ ->]]; auto. Qed.
Lemma p2_1 : p2 1. Proof. left. reflexivity. Qed.

Lemma is_pow2_small A : is_pow2 A = true -> A <= 268435456 -> p2 A.
Proof.
  (* a power of two up to 2^28 is one of the listed ones *)
  unfold is_pow2. intros H Hle.
  assert (0 < A) by lia.
  assert (Hl : Z.land A (A - 1) = 0) by lia.
  assert (Hk : A = 2 ^ Z.log2 A).
  { destruct (Z.log2_spec A ltac:(lia)) as (L & U).
    destruct (Z.eq_dec A (2 ^ Z.log2 A)) as [E|E]; [exact E|exfalso].
    (* A has its top bit and another bit set: then A land (A-1) keeps the top bit *)
    assert (Hb : Z.testbit (Z.land A (A - 1)) (Z.log2 A) = true).
    { rewrite Z.land_spec. rewrite Z.bit_log2 by lia. cbn [andb].
      assert (2 ^ Z.log2 A <= A - 1 < 2 ^ Z.succ (Z.log2 A)) by lia.
      assert (Z.log2 (A - 1) = Z.log2 A) by (apply Z.log2_unique; [apply Z.log2_nonneg|lia]).
      rewrite <- H2. apply Z.bit_log2. pose proof (Z.pow_pos_nonneg 2 (Z.log2 A) ltac:(lia) (Z.log2_nonneg A)). lia. }
    rewrite Hl in Hb. rewrite Z.bits_0 in Hb. discriminate. }
  assert (0 <= Z.log2 A <= 28).
  { split; [apply Z.log2_nonneg|]. change 28 with (Z.log2 268435456). apply Z.log2_le_mono. exact Hle. }
  rewrite Hk. unfold p2, pow2s.
  assert (Hc : Z.log2 A = 0 \/ Z.log2 A = 1 \/ Z.log2 A = 2 \/ Z.log2 A = 3 \/ Z.log2 A = 4 \/ Z.log2 A = 5 \/ Z.log2 A = 6 \/ Z.log2 A = 7 \/ Z.log2 A = 8 \/ Z.log2 A = 9 \/ Z.log2 A = 10 \/ Z.log2 A = 11 \/ Z.log2 A = 12 \/ Z.log2 A = 13 \/ Z.log2 A = 14 \/ Z.log2 A = 15 \/ Z.log2 A = 16 \/ Z.log2 A = 17 \/ Z.log2 A = 18 \/ Z.log2 A = 19 \/ Z.log2 A = 20 \/ Z.log2 A = 21 \/ Z.log2 A = 22 \/ Z.log2 A = 23 \/ Z.log2 A = 24 \/ Z.log2 A = 25 \/ Z.log2 A = 26 \/ Z.log2 A = 27 \/ Z.log2 A = 28) by lia.
  repeat (destruct Hc as [Hc|Hc]; [rewrite Hc; cbn; tauto|]). rewrite Hc; cbn; tauto.
Qed.
