From C03 Require Import Model ProofsBase ProofsShiftBase.
Local Open Scope Z_scope.
Ltac Zify.zify_post_hook ::= Z.div_mod_to_equations.
Ltac cb := cbn [to_signed to_unsigned ibits isigned I8 I16 I32 I64 U8 U16 U32 U64 fst snd].

(* count in [0, bits): the left-shift of the zero-extended value *)
Ltac shl_pos_tac a b :=
  apply ret_not_ub; count_ok b; cb;
  (replace ((b <? 0) || (_ <=? b)) with false by lia);
  try discriminate;
  match goal with |- context [cwrap ?t (cwrap ?u a)] =>
    let x := fresh "x" in
    assert (Hx : 0 <= cwrap t (cwrap u a) < 2 ^ 16) by (unfold cwrap; cbn; lia);
    set (x := cwrap t (cwrap u a)) in *; clearbody x end;
  pose proof (pow2_le b 15 ltac:(lia));
  (replace ((0 <=? _) && (_ <=? _)) with true by (unfold imax; cbn; nia)); discriminate.
Ltac shr_pos_tac a b :=
  apply ret_not_ub; count_ok b; cb;
  (replace ((b <? 0) || (_ <=? b)) with false by lia); discriminate.
Ltac shr_neg_tac a b :=
  rewrite c_neg_count by (cbn; try tauto; lia); unfold obind;
  apply ret_not_ub; unfold c_shr, c_cast; cb; eval_promote; cb;
  (replace (cwrap _ (- b)) with (- b) by (unfold cwrap; cbn; lia));
  (replace ((- b <? 0) || (_ <=? - b)) with false by lia); discriminate.
Ltac shl_neg_tac a b :=
  rewrite c_neg_count by (cbn; try tauto; lia); unfold obind;
  apply ret_not_ub; unfold c_shl, c_cast; cb; eval_promote; cb;
  (replace (cwrap _ (- b)) with (- b) by (unfold cwrap; cbn; lia));
  (replace ((- b <? 0) || (_ <=? - b)) with false by lia);
  try discriminate;
  match goal with |- context [cwrap ?t (cwrap ?u a)] =>
    let x := fresh "x" in
    assert (Hx : 0 <= cwrap t (cwrap u a) < 2 ^ 16) by (unfold cwrap; cbn; lia);
    set (x := cwrap t (cwrap u a)) in *; clearbody x end;
  pose proof (pow2_le (- b) 15 ltac:(lia));
  (replace ((0 <=? _) && (_ <=? _)) with true by (unfold imax; cbn; nia)); discriminate.

Lemma h_shl_no_ub m t a b : ity_ok t -> in_ity t a -> in_ity I64 b -> h_shl m t a b <> OUB.
Proof.
  intros Ht. revert a b. pattern t. apply ity_cases; [| | | | | | | |exact Ht];
  intros a b Ha Hb; shift_common a b Ha Hb; unfold h_shl; cb;
  (destruct ((0 <=? b) && (b <? _)) eqn:E1;
   [ shl_pos_tac a b
   | destruct ((b <? 0) && (_ <? b)) eqn:E2; [ shr_neg_tac a b | discriminate ] ]).
Qed.

Lemma h_shr_no_ub m t a b : ity_ok t -> in_ity t a -> in_ity I64 b -> h_shr m t a b <> OUB.
Proof.
  intros Ht. revert a b. pattern t. apply ity_cases; [| | | | | | | |exact Ht];
  intros a b Ha Hb; shift_common a b Ha Hb; unfold h_shr; cb;
  (destruct ((0 <=? b) && (b <? _)) eqn:E1;
   [ shr_pos_tac a b
   | destruct ((b <? 0) && (_ <? b)) eqn:E2; [ shl_neg_tac a b | discriminate ] ]).
Qed.
