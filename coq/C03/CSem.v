(* C integer semantics for the LP64 targets gcc/clang compile the emitted code for, with
   undefined behaviour made explicit: every operator returns [option]; [None] = UB.
   Self-contained (only Base.LuaInt for the Z tool-box).  Source of truth: coq/C03/CSem.v;
   checks/C01.py and checks/C09.py copy it verbatim into their own sub-projects.

   A value is a pair (type, mathematical integer in the range of the type).
   Three dialects (cmode):
     ISO    : signed + - * unary- overflow is UB; << on a negative / overflowing signed is UB
     FWRAPV : -fwrapv: signed + - * unary- wrap; signed << as in ISO
     GNU    : FWRAPV + gcc/clang's documented treatment of signed << (wraps)
   In every dialect: shift count <0 or >= width of the promoted left operand is UB, x/0 x%0
   are UB, MIN / -1 and MIN % -1 are UB, conversion to a signed type is modular (what gcc and
   clang document for the implementation-defined case), >> on signed is arithmetic. *)
From Base Require Export LuaInt.
Local Open Scope Z_scope.

Record ity := mk_ity { ibits : Z; isigned : bool }.
Definition I8 := mk_ity 8 true.   Definition U8 := mk_ity 8 false.
Definition I16 := mk_ity 16 true. Definition U16 := mk_ity 16 false.
Definition I32 := mk_ity 32 true. Definition U32 := mk_ity 32 false.
Definition I64 := mk_ity 64 true. Definition U64 := mk_ity 64 false.

Definition signed_types : list ity := [I8; I16; I32; I64].
Definition unsigned_types : list ity := [U8; U16; U32; U64].
Definition all_types : list ity := signed_types ++ unsigned_types.

Definition to_signed (t : ity) : ity := mk_ity (ibits t) true.
Definition to_unsigned (t : ity) : ity := mk_ity (ibits t) false.

Definition imin (t : ity) : Z := if isigned t then - 2 ^ (ibits t - 1) else 0.
Definition imax (t : ity) : Z := if isigned t then 2 ^ (ibits t - 1) - 1 else 2 ^ ibits t - 1.
Definition in_ity (t : ity) (v : Z) : Prop := imin t <= v <= imax t.
Definition in_ityb (t : ity) (v : Z) : bool := (imin t <=? v) && (v <=? imax t).

(* modular conversion into the range of t *)
Definition cwrap (t : ity) (v : Z) : Z :=
  if isigned t then (v + 2 ^ (ibits t - 1)) mod 2 ^ ibits t - 2 ^ (ibits t - 1)
  else v mod 2 ^ ibits t.

Record cmode := mk_mode { m_wrapv : bool; m_gnushl : bool }.
Definition ISO := mk_mode false false.
Definition FWRAPV := mk_mode true false.
Definition GNU := mk_mode true true.

Definition cval : Type := ity * Z.

(* integer promotions: everything narrower than int becomes int *)
Definition promote (t : ity) : ity := if ibits t <? 32 then I32 else t.

(* usual arithmetic conversions (after promotion) *)
Definition uac (t1 t2 : ity) : ity :=
  let p1 := promote t1 in let p2 := promote t2 in
  if Bool.eqb (isigned p1) (isigned p2) then (if ibits p1 <? ibits p2 then p2 else p1)
  else
    let s := if isigned p1 then p1 else p2 in
    let u := if isigned p1 then p2 else p1 in
    if ibits s <=? ibits u then u else s.

Definition c_cast (t : ity) (a : cval) : cval := (t, cwrap t (snd a)).

(* result of a signed/unsigned arithmetic operation whose exact value is r *)
Definition arith_result (m : cmode) (t : ity) (r : Z) : option cval :=
  if isigned t then
    if in_ityb t r then Some (t, r)
    else if m_wrapv m then Some (t, cwrap t r) else None
  else Some (t, cwrap t r).

Definition c_arith (m : cmode) (f : Z -> Z -> Z) (a b : cval) : option cval :=
  let t := uac (fst a) (fst b) in
  arith_result m t (f (cwrap t (snd a)) (cwrap t (snd b))).

Definition c_add m := c_arith m Z.add.
Definition c_sub m := c_arith m Z.sub.
Definition c_mul m := c_arith m Z.mul.

Definition c_neg (m : cmode) (a : cval) : option cval :=
  let t := promote (fst a) in arith_result m t (- cwrap t (snd a)).

(* ~a = -a-1 on the promoted type (two's complement); unsigned: all-ones minus a *)
Definition c_bnot (a : cval) : option cval :=
  let t := promote (fst a) in Some (t, cwrap t (Z.lnot (cwrap t (snd a)))).

Definition c_bitop (f : Z -> Z -> Z) (a b : cval) : option cval :=
  let t := uac (fst a) (fst b) in
  Some (t, cwrap t (f (cwrap t (snd a)) (cwrap t (snd b)))).
Definition c_band := c_bitop Z.land.
Definition c_bor := c_bitop Z.lor.
Definition c_bxor := c_bitop Z.lxor.

(* / and % truncate; None on zero divisor and on MIN / -1 *)
Definition c_divlike (f : Z -> Z -> Z) (a b : cval) : option cval :=
  let t := uac (fst a) (fst b) in
  let x := cwrap t (snd a) in let y := cwrap t (snd b) in
  if y =? 0 then None
  else if isigned t && (x =? imin t) && (y =? -1) then None
  else Some (t, f x y).
Definition c_div := c_divlike Z.quot.
Definition c_rem := c_divlike Z.rem.

(* shifts: each operand promoted on its own; the result has the promoted left type *)
Definition c_shl (m : cmode) (a b : cval) : option cval :=
  let t := promote (fst a) in
  let x := cwrap t (snd a) in
  let y := cwrap (promote (fst b)) (snd b) in
  if (y <? 0) || (ibits t <=? y) then None
  else if isigned t then
    if (0 <=? x) && (x * 2 ^ y <=? imax t) then Some (t, x * 2 ^ y)
    else if m_gnushl m then Some (t, cwrap t (x * 2 ^ y)) else None
  else Some (t, cwrap t (x * 2 ^ y)).

Definition c_shr (a b : cval) : option cval :=
  let t := promote (fst a) in
  let x := cwrap t (snd a) in
  let y := cwrap (promote (fst b)) (snd b) in
  if (y <? 0) || (ibits t <=? y) then None
  else Some (t, x / 2 ^ y).

Definition c_cmp (f : Z -> Z -> bool) (a b : cval) : option cval :=
  let t := uac (fst a) (fst b) in
  Some (I32, if f (cwrap t (snd a)) (cwrap t (snd b)) then 1 else 0).
Definition c_lt := c_cmp Z.ltb.
Definition c_le := c_cmp Z.leb.
Definition c_gt := c_cmp Z.gtb.
Definition c_ge := c_cmp Z.geb.
Definition c_eq := c_cmp Z.eqb.
Definition c_ne := c_cmp (fun x y => negb (x =? y)).

Definition c_truth (a : cval) : bool := negb (snd a =? 0).
Definition c_of_bool (b : bool) : cval := (I32, if b then 1 else 0).

(* ---- floats, minimally: a finite double is m * 2^e ---- *)
Inductive fl := FNaN | FInf (neg : bool) | FFin (m e : Z).

(* exact comparison of an integer with a float (None: NaN, unordered) *)
Definition cmp_Z_fl (i : Z) (f : fl) : option comparison :=
  match f with
  | FNaN => None
  | FInf true => Some Gt
  | FInf false => Some Lt
  | FFin m e => Some (if 0 <=? e then i ?= m * 2 ^ e else i * 2 ^ (- e) ?= m)
  end.

Definition exact_lt_if (i : Z) (f : fl) : bool := match cmp_Z_fl i f with Some Lt => true | _ => false end.
Definition exact_le_if (i : Z) (f : fl) : bool := match cmp_Z_fl i f with Some Lt | Some Eq => true | _ => false end.
Definition exact_lt_fi (f : fl) (i : Z) : bool := match cmp_Z_fl i f with Some Gt => true | _ => false end.
Definition exact_le_fi (f : fl) (i : Z) : bool := match cmp_Z_fl i f with Some Gt | Some Eq => true | _ => false end.
Definition exact_eq_if (i : Z) (f : fl) : bool := match cmp_Z_fl i f with Some Eq => true | _ => false end.

(* floor / ceil of a finite float, as integers *)
Definition fl_floor (m e : Z) : Z := if 0 <=? e then m * 2 ^ e else m / 2 ^ (- e).
Definition fl_ceil (m e : Z) : Z := if 0 <=? e then m * 2 ^ e else - ((- m) / 2 ^ (- e)).
Definition fl_is_int (m e : Z) : bool := if 0 <=? e then true else (m mod 2 ^ (- e) =? 0).

(* int -> double, round to nearest even on 53 bits (cast_num / C's (double)i); the result is
   again an integer, possibly 2^63 *)
Definition rne53 (i : Z) : Z :=
  let a := Z.abs i in
  if a <? 2 ^ 53 then i else
  let k := Z.log2 a - 52 in
  let q := a / 2 ^ k in let r := a mod 2 ^ k in let h := 2 ^ (k - 1) in
  let q' := if (h <? r) || ((r =? h) && Z.odd q) then q + 1 else q in
  Z.sgn i * (q' * 2 ^ k).

(* C 6.3.1.4: a finite real floating value converted to an integer type is truncated toward zero;
   if the integral part cannot be represented the behaviour is undefined (also for inf / nan) *)
Definition fl_trunc (m e : Z) : Z := if 0 <=? e then m * 2 ^ e else Z.quot m (2 ^ (- e)).
Definition c_f2i (t : ity) (f : fl) : option cval :=
  match f with
  | FFin m e => let v := fl_trunc m e in if in_ityb t v then Some (t, v) else None
  | _ => None
  end.

(* option monad *)
Definition obind {A B} (x : option A) (f : A -> option B) : option B :=
  match x with Some v => f v | None => None end.
Notation "x <- e1 ;; e2" := (obind e1 (fun x => e2)) (at level 61, e1 at next level, right associativity).

(* ---------- outcome of a helper call ---------- *)
Inductive outcome := OUB | OPanic | ORet (v : Z).

(* `return e;` from a function whose return type is t: conversion as if by assignment *)
Definition ret (t : ity) (e : option cval) : outcome :=
  match e with Some v => ORet (cwrap t (snd v)) | None => OUB end.

(* ---------- basic facts ---------- *)
Lemma pow2_pos n : 0 <= n -> 0 < 2 ^ n.
Proof. intros. apply Z.pow_pos_nonneg; lia. Qed.

Lemma cwrap_I64 v : cwrap I64 v = wrap64 v.
Proof. reflexivity. Qed.

Lemma cwrap_U64 v : cwrap U64 v = u64 v.
Proof. reflexivity. Qed.

Lemma in_ity_I64 v : in_ity I64 v <-> in_i64 v.
Proof. unfold in_ity, in_i64, imin, imax, minint, maxint, two63; cbn. lia. Qed.

Lemma in_ityb_spec t v : in_ityb t v = true <-> in_ity t v.
Proof. unfold in_ityb, in_ity. lia. Qed.

Definition ity_ok (t : ity) : Prop := In t all_types.

Lemma ity_cases (P : ity -> Prop) :
  P I8 -> P I16 -> P I32 -> P I64 -> P U8 -> P U16 -> P U32 -> P U64 -> forall t, ity_ok t -> P t.
Proof.
  intros. unfold ity_ok, all_types in *. cbn in H7.
  destruct H7 as [<-|[<-|[<-|[<-|[<-|[<-|[<-|[<-|[]]]]]]]]]; assumption.
Qed.

Lemma signed_cases (P : ity -> Prop) :
  P I8 -> P I16 -> P I32 -> P I64 -> forall t, In t signed_types -> P t.
Proof.
  intros. cbn in H3. destruct H3 as [<-|[<-|[<-|[<-|[]]]]]; assumption.
Qed.

Lemma cwrap_id t v : ity_ok t -> in_ity t v -> cwrap t v = v.
Proof.
  intros Ht. revert v. pattern t. apply ity_cases; try exact Ht;
  intros v; unfold in_ity, cwrap, imin, imax; cbn; lia.
Qed.

Lemma cwrap_range t v : ity_ok t -> in_ity t (cwrap t v).
Proof.
  intros Ht. pattern t. apply ity_cases; try exact Ht;
  unfold in_ity, cwrap, imin, imax; cbn; lia.
Qed.
