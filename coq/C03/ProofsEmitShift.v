From C03 Require Import Model ProofsBase ProofsShiftBase ProofsShift ProofsMisc.
Local Open Scope Z_scope.
Ltac Zify.zify_post_hook ::= Z.div_mod_to_equations.

(* the constant-count fast paths, for a literal count 0 <= n < width of the shifted operand *)
Ltac lit_count b :=
  unfold lit, c_shl, c_shr, c_cast; cb; eval_promote; cb;
  (replace (cwrap _ b) with b by (unfold cwrap; cbn; lia));
  (replace ((b <? 0) || (_ <=? b)) with false by lia).

Lemma shl_const_no_ub m t a b : ity_ok t -> in_ity t a -> 0 <= b < ibits t ->
  (if isigned t then op_shl_const m t a b else ret t (c_shl m (t, a) (lit b))) <> OUB.
Proof.
  intros Ht. revert a b. pattern t. apply ity_cases; [| | | | | | | |exact Ht];
  intros a b Ha Hb; unfold in_ity, imin, imax in Ha; cbn in Ha, Hb; cb; cbv iota; unfold op_shl_const; cb;
  apply ret_not_ub; lit_count b; try discriminate;
  match goal with |- context [if (0 <=? ?x) && _ then _ else _] =>
    assert (Hx : 0 <= x < 2 ^ 16) by (unfold cwrap; cbn; lia); set (xx := x) in *; clearbody xx end;
  pose proof (pow2_le b 15 ltac:(lia));
  (replace ((0 <=? _) && (_ <=? _)) with true by (unfold imax; cbn; nia)); discriminate.
Qed.

Lemma shr_const_no_ub t a b : ity_ok t -> in_ity t a -> 0 <= b < ibits t -> ret t (c_shr (t, a) (lit b)) <> OUB.
Proof.
  intros Ht. revert a b. pattern t. apply ity_cases; [| | | | | | | |exact Ht];
  intros a b Ha Hb; cbn in Hb; apply ret_not_ub; lit_count b; discriminate.
Qed.

(* the shifts exactly as emitted (fast-path condition scraped into Gen.v): never UB, for every operand type,
   every count type and every count, constant or not *)
Lemma emitted_shifts_no_ub m t ct cnt a b : m_gnushl m = true -> ity_ok t -> in_ity t a -> in_ity I64 b ->
  emit_shl shl_fast_width_left m t ct cnt a b <> OUB /\
  emit_shr shr_fast_width_left m t ct cnt a b <> OUB /\
  emit_asr asr_fast_width_left m t ct cnt a b <> OUB.
Proof.
  intros Hg Ht Ha Hb. unfold emit_shl, emit_shr, emit_asr, fast_width.
  change shl_fast_width_left with true. change shr_fast_width_left with true. change asr_fast_width_left with true.
  cbv iota. repeat split.
  - destruct (cnt && (0 <=? b) && (b <? ibits t)) eqn:E; [apply shl_const_no_ub; auto; lia|apply h_shl_no_ub; auto].
  - destruct (negb (isigned t) && cnt && (0 <=? b) && (b <? ibits t)) eqn:E; [apply shr_const_no_ub; auto; lia|apply h_shr_no_ub; auto].
  - destruct (cnt && (0 <=? b) && (b <? ibits t)) eqn:E; [unfold op_asr_const; apply shr_const_no_ub; auto; lia|apply h_asr_no_ub_gnu; auto].
Qed.

(* what the fast path must not do: a constant count >= the operand width on the plain C operator *)
Example shl_const_wide_count_is_ub : emit_shl false GNU I32 I64 true 3 40 = OUB /\ emit_asr false GNU U8 I64 true 3 40 = OUB.
Proof. split; reflexivity. Qed.
