(* Property C03: accepted programs yield C that compiles cleanly and runs without C-level UB.
   Only the property theorems, each closed by [exact] and followed by Print Assumptions.
   h_* / op_* = helper bodies and plain operators of cbuiltins.lua over the C semantics of CSem.v
   (OUB = undefined behaviour); nl / cl = the compiler's and the C compiler's layout functions. *)
From C03 Require Import Model ProofsBase ProofsDiv ProofsTdiv ProofsShiftBase ProofsShift ProofsMisc ProofsEmitShift ProofsLayoutArith ProofsLayout ProofsEq.
Local Open Scope Z_scope.

(* ---- core 2: UB-freedom of the run-time helpers, every integer width ---- *)
(* floor division / modulo: no UB for any operands (incl. MIN // -1) once the divisor is checked
   or known non-zero; needs only -fwrapv *)
Theorem C03_idiv_no_ub : forall m t checked a b, m_wrapv m = true -> In t signed_types ->
  in_ity t a -> in_ity t b -> (checked = true \/ b <> 0) -> h_idiv m t checked a b <> OUB.
Proof. exact h_idiv_no_ub. Qed.
Print Assumptions C03_idiv_no_ub.

Theorem C03_imod_no_ub : forall m t checked a b, m_wrapv m = true -> In t signed_types ->
  in_ity t a -> in_ity t b -> (checked = true \/ b <> 0) -> h_imod m t checked a b <> OUB.
Proof. exact h_imod_no_ub. Qed.
Print Assumptions C03_imod_no_ub.

(* the same for the helpers exactly as the generator emits them, checked and unchecked: the position of
   the `b == -1` guard is scraped; moving it into the checked branch breaks this proof *)
Theorem C03_emitted_div_helpers_no_ub : forall m t checked a b, m_wrapv m = true -> In t signed_types ->
  in_ity t a -> in_ity t b -> (checked = true \/ b <> 0) ->
  emitted_idiv_helper idiv_guard_first m t checked a b <> OUB /\ emitted_imod_helper imod_guard_first m t checked a b <> OUB.
Proof. exact emitted_div_helpers_no_ub. Qed.
Print Assumptions C03_emitted_div_helpers_no_ub.

(* logical shifts: every count of the count type, every C dialect (even strict ISO) *)
Theorem C03_shl_no_ub : forall m t a b, ity_ok t -> in_ity t a -> in_ity I64 b -> h_shl m t a b <> OUB.
Proof. exact h_shl_no_ub. Qed.
Print Assumptions C03_shl_no_ub.

Theorem C03_shr_no_ub : forall m t a b, ity_ok t -> in_ity t a -> in_ity I64 b -> h_shr m t a b <> OUB.
Proof. exact h_shr_no_ub. Qed.
Print Assumptions C03_shr_no_ub.

(* arithmetic shift: defined in the GNU dialect; its negative-count branch `a << -b` on a signed
   value is UB under ISO rules even with -fwrapv *)
Theorem C03_asr_no_ub_gnu : forall m t a b, m_gnushl m = true -> ity_ok t -> in_ity t a ->
  in_ity I64 b -> h_asr m t a b <> OUB.
Proof. exact h_asr_no_ub_gnu. Qed.
Print Assumptions C03_asr_no_ub_gnu.

(* (a remark, not a defect: no supported compiler implements FWRAPV without the GNU treatment of `<<`) *)
Theorem C03_asr_needs_gnu_shl : h_asr FWRAPV I64 (-1) (-1) = OUB /\ h_asr GNU I64 (-1) (-1) = ORet (-2).
Proof. exact asr_needs_gnu_shl. Qed.
Print Assumptions C03_asr_needs_gnu_shl.

(* the three shift operators exactly as operators.shl/shr/asr emit them - plain C operator for a constant count
   below the width that the generator compares against (scraped into Gen.v: the shifted operand's width),
   helper otherwise - for every operand type, count type and count *)
Theorem C03_emitted_shifts_no_ub : forall m t ct cnt a b, m_gnushl m = true -> ity_ok t -> in_ity t a -> in_ity I64 b ->
  emit_shl shl_fast_width_left m t ct cnt a b <> OUB /\
  emit_shr shr_fast_width_left m t ct cnt a b <> OUB /\
  emit_asr asr_fast_width_left m t ct cnt a b <> OUB.
Proof. exact emitted_shifts_no_ub. Qed.
Print Assumptions C03_emitted_shifts_no_ub.

Theorem C03_cmp_helpers_no_ub : forall lt rt a b,
  h_lt_su lt rt a b <> OUB /\ h_lt_us lt rt a b <> OUB /\ h_eq_su lt rt a b <> OUB.
Proof. exact (fun lt rt a b => conj (h_lt_su_no_ub lt rt a b) (conj (h_lt_us_no_ub lt rt a b) (h_eq_su_no_ub lt rt a b))). Qed.
Print Assumptions C03_cmp_helpers_no_ub.

Theorem C03_arith_no_ub : forall m t a b, m_wrapv m = true ->
  op_add m t a b <> OUB /\ op_sub m t a b <> OUB /\ op_mul m t a b <> OUB /\ op_unm m t a <> OUB.
Proof.
  exact (fun m t a b H => match op_arith_no_ub m t a b H with
                          | conj A (conj B C) => conj A (conj B (conj C (op_unm_no_ub m t a H))) end).
Qed.
Print Assumptions C03_arith_no_ub.

(* ---- the hypotheses `m_wrapv m = true` / `m_gnushl m = true` discharged for every supported build: base_mode is
   computed from the scraped cflags_base of gcc AND clang (losing -fwrapv in either breaks this proof) ---- *)
Theorem C03_supported_builds_no_ub :
  (forall t checked a b, In t signed_types -> in_ity t a -> in_ity t b -> (checked = true \/ b <> 0) ->
     emitted_idiv_helper idiv_guard_first base_mode t checked a b <> OUB /\
     emitted_imod_helper imod_guard_first base_mode t checked a b <> OUB) /\
  (forall t ct cnt a b, ity_ok t -> in_ity t a -> in_ity I64 b ->
     emit_shl shl_fast_width_left base_mode t ct cnt a b <> OUB /\
     emit_shr shr_fast_width_left base_mode t ct cnt a b <> OUB /\
     emit_asr asr_fast_width_left base_mode t ct cnt a b <> OUB) /\
  (forall t a b, op_add base_mode t a b <> OUB /\ op_sub base_mode t a b <> OUB /\ op_mul base_mode t a b <> OUB) /\
  (forall t a, op_unm base_mode t a <> OUB).
Proof.
  exact (conj (fun t checked a b => emitted_div_helpers_no_ub base_mode t checked a b base_mode_wrapv)
        (conj (fun t ct cnt a b => emitted_shifts_no_ub base_mode t ct cnt a b base_mode_gnushl)
        (conj (fun t a b => op_arith_no_ub base_mode t a b base_mode_wrapv)
              (fun t a => op_unm_no_ub base_mode t a base_mode_wrapv)))).
Qed.
Print Assumptions C03_supported_builds_no_ub.

(* ---- truncating division / remainder `///` `%%%`, and `//` `%` on operands that cannot be negative ----
   full statement: defined for all operands of the type (the language gives them no precondition, and the
   default build is supposed to stop with a run-time error rather than execute undefined C).
   False: they are emitted as bare C `/` and `%` in every build mode (cbuiltins.operators.tdiv/tmod, and
   operators.idiv/mod through operator_binary_op when neither operand can be negative).  Witnesses replayed under
   UBSan on every run: int64 MIN /// -1, MIN %%% -1, 5 /// 0, 5 %%% 0, uint64 5 // 0, 5 % 0 (known findings). *)
Theorem C03_tdiv_no_ub_refuted : ~ tdiv_no_ub_full.
Proof. exact tdiv_no_ub_refuted. Qed.
Print Assumptions C03_tdiv_no_ub_refuted.

Theorem C03_udiv_no_ub_refuted : ~ udiv_no_ub_full.
Proof. exact udiv_no_ub_refuted. Qed.
Print Assumptions C03_udiv_no_ub_refuted.

(* what holds: defined whenever the divisor is not zero and the operation is not MIN / -1 *)
Theorem C03_tdiv_no_ub_partial : forall t a b, ity_ok t -> in_ity t a -> in_ity t b -> b <> 0 -> (b <> -1 \/ a <> imin t) ->
  op_tdiv t a b <> OUB /\ op_tmod t a b <> OUB.
Proof. exact tdiv_no_ub_partial. Qed.
Print Assumptions C03_tdiv_no_ub_partial.

Theorem C03_udiv_no_ub_partial : forall gf m t nochecks a b, ity_ok t -> isigned t = false -> in_ity t a -> in_ity t b -> b <> 0 ->
  emit_idiv gf m t false nochecks a b <> OUB /\ emit_imod gf m t false nochecks a b <> OUB.
Proof. exact udiv_no_ub_partial. Qed.
Print Assumptions C03_udiv_no_ub_partial.

(* float -> integer narrowing: `(D)x != x` is evaluated on every x *)
Theorem C03_narrow_float_defined_refuted : ~ narrow_float_defined_full.
Proof. exact narrow_float_defined_refuted. Qed.
Print Assumptions C03_narrow_float_defined_refuted.

Theorem C03_narrow_float_defined_partial : forall dt checked m e,
  in_ity dt (fl_trunc m e) -> h_narrow_f2i dt checked (FFin m e) <> OUB.
Proof. exact narrow_float_defined_partial. Qed.
Print Assumptions C03_narrow_float_defined_partial.

(* ---- core 1: layout ---- *)
Theorem C03_prims_agree :
  map (fun p => (fst p, Z.min (snd p) maxalign)) nelua_prims = c_prims /\
  (ptrsize, Z.min ptrsize maxalign) = c_pointer.
Proof. exact prims_agree. Qed.
Print Assumptions C03_prims_agree.

(* FULL STRENGTH (no `_refuted` left since /repo 61ca8bb, bac28d6, 3c0ba5f): for every type tree the analyzer
   accepts - primitives of the table, arrays of any length including 0, packed records, records with or
   without fields and a power-of-two user alignment up to 2^28 (exactly what the analyzer accepts since /repo
   42ec760; the bound is scraped), unions, nested arbitrarily - the
   compiler's size AND alignment are the C compiler's, hence the emitted static assertion holds, and every
   record field offset coincides *)
Theorem C03_layout_agrees : forall t, wfb t = true ->
  nl t = cl t /\ static_assert_holds t = true /\
  (forall fs packed aligned, t = TRec fs packed aligned -> nl_offsets fs packed = cl_offsets fs packed).
Proof. exact layout_agrees_all. Qed.
Print Assumptions C03_layout_agrees.

(* ---- core 3: bytes passed to memcmp by nelua_eq_<type>, full strength ---- *)
Theorem C03_eq_in_bounds : forall t, wfb t = true -> forall base,
  Forall (fun a => base <= fst a /\ 0 <= snd a /\ fst a + snd a <= base + fst (nl t)) (eq_accesses base t).
Proof. exact eq_accesses_in_bounds. Qed.
Print Assumptions C03_eq_in_bounds.
