(* One case per line on stdin, one result line on stdout (extracted model of coq/C03).
     layout <type>     type syntax (prefix): p<k> | ptr | arr <n> <type> | rec <packed> <aligned|0> <nf> <type>.. | uni <nf> <type>..
        -> "nl=<size>,<align> cl=<size>,<align> noffs=<o,o,..> coffs=<o,o,..> assert=<0|1> wf=<0|1> acc=<off:len,..> inb=<0|1>"
     helper <name> <mode> <type> <a> <b>
        name: idiv imod idiv_nc imod_nc shl shr asr add sub mul unm bnot cdiv crem ; mode: iso fwrapv gnu ;
        type: i8 i16 i32 i64 u8 u16 u32 u64 ; a, b signed hex
        -> v:<hex> | panic | ub
     narrowf <type> <checked 0|1> <float>     float = nan | +inf | -inf | fin:<m>:<e>
     narrowi <stype> <dtype> <checked> <x>                                                        *)
open Model
open Zutil

let out_s (o : outcome) = match o with OUB -> "ub" | OPanic -> "panic" | ORet v -> "v:" ^ hex_of_z v
let b2s b = if b then "1" else "0"
let zi (z : z) = string_of_int (int_of_z z)

let rec parse_ty (ts : string list) : ty * string list =
  match ts with
  | "ptr" :: r -> (TPtr, r)
  | "arr" :: n :: r -> let t, r' = parse_ty r in (TArr (t, z_of_int (int_of_string n)), r')
  | "rec" :: p :: a :: nf :: r ->
    let fs, r' = parse_tys (int_of_string nf) r in
    let al = int_of_string a in
    (TRec (fs, p = "1", (if al = 0 then None else Some (z_of_int al))), r')
  | "uni" :: nf :: r -> let fs, r' = parse_tys (int_of_string nf) r in (TUni fs, r')
  | s :: r when String.length s > 1 && s.[0] = 'p' -> (TPrim (nat_of_int (int_of_string (String.sub s 1 (String.length s - 1)))), r)
  | _ -> failwith "type syntax"
and parse_tys n ts = if n = 0 then ([], ts) else let t, r = parse_ty ts in let l, r' = parse_tys (n - 1) r in (t :: l, r')

let mode_of = function "iso" -> iSO | "fwrapv" -> fWRAPV | "gnu" -> gNU | s -> failwith ("mode " ^ s)
let ity_of = function
  | "i8" -> i8 | "i16" -> i16 | "i32" -> i32 | "i64" -> i64
  | "u8" -> u8 | "u16" -> u16 | "u32" -> u32 | "u64" -> u64 | s -> failwith ("type " ^ s)

let fl_of (s : string) : fl =
  match String.split_on_char ':' s with
  | [ "nan" ] -> FNaN
  | [ "+inf" ] -> FInf false
  | [ "-inf" ] -> FInf true
  | [ "fin"; m; e ] -> FFin (z_of_hex m, z_of_hex e)
  | _ -> failwith ("float " ^ s)

let () =
  iter_lines (fun line ->
    match split_ws line with
    | [] -> ()
    | kind :: args ->
      let out =
        try
          (match kind with
           | "layout" ->
             let t, _ = parse_ty args in
             let ns, na = nl t and cs, ca = cl t in
             let no, co = (match t with
                           | TRec (fs, p, _) -> (nl_offsets fs p, cl_offsets fs p)
                           | _ -> ([], [])) in
             let zl l = String.concat "," (List.map zi l) in
             "nl=" ^ zi ns ^ "," ^ zi na ^ " cl=" ^ zi cs ^ "," ^ zi ca ^ " noffs=" ^ zl no ^ " coffs=" ^ zl co
             ^ " assert=" ^ b2s (static_assert_holds t) ^ " wf=" ^ b2s (wfb t)
             ^ " acc=" ^ String.concat "," (List.map (fun (o, n) -> zi o ^ ":" ^ zi n) (eq_accesses Z0 t))
             ^ " inb=" ^ b2s (accesses_in_bounds t)
           | "helper" ->
             let name = List.nth args 0 and m = mode_of (List.nth args 1) and t = ity_of (List.nth args 2) in
             let a = z_of_hex (List.nth args 3) and b = z_of_hex (List.nth args 4) in
             out_s (match name with
                    | "idiv" -> h_idiv m t true a b
                    | "imod" -> h_imod m t true a b
                    | "idiv_nc" -> h_idiv m t false a b
                    | "imod_nc" -> h_imod m t false a b
                    | "shl" -> h_shl m t a b
                    | "shr" -> h_shr m t a b
                    | "asr" -> h_asr m t a b
                    | "add" -> op_add m t a b
                    | "sub" -> op_sub m t a b
                    | "mul" -> op_mul m t a b
                    | "unm" -> op_unm m t a
                    | "bnot" -> op_bnot t a
                    | "shlk" -> emit_shl shl_fast_width_left m t i64 true a b     (* literal count (untyped constant: int64) *)
                    | "shrk" -> emit_shr shr_fast_width_left m t i64 true a b
                    | "asrk" -> emit_asr asr_fast_width_left m t i64 true a b
                    | "cdiv" -> op_cdiv t a b
                    | "crem" -> op_crem t a b
                    | "tdiv" -> op_tdiv t a b
                    | "tmod" -> op_tmod t a b
                    | "lt" -> op_lt t a b
                    | "le" -> op_le t a b
                    | "eq" -> op_eq t a b
                    | "ltsu" -> h_lt_su t u64 a b      (* int64 < uint64 *)
                    | "ltus" -> h_lt_us u64 t b a      (* uint64 < int64 (operands given as signed, unsigned) *)
                    | "eqsu" -> h_eq_su t u64 a b
                    | s -> failwith ("helper " ^ s))
           | "narrowf" ->
             out_s (h_narrow_f2i (ity_of (List.nth args 0)) (List.nth args 1 = "1") (fl_of (List.nth args 2)))
           | "narrowi" ->
             out_s (h_narrow_int (ity_of (List.nth args 0)) (ity_of (List.nth args 1)) (List.nth args 2 = "1") (z_of_hex (List.nth args 3)))
           | _ -> "?unknown")
        with e -> "!exn " ^ Printexc.to_string e
      in
      print_string out; print_newline ())
