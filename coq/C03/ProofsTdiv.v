(* `///`, `%%%` and the `//`, `%` of operands that cannot be negative are emitted as bare C `/` and `%`:
   undefined for a zero divisor and for MIN / -1 where the operation is performed at the operand width. *)
From C03 Require Import Model ProofsBase.
Local Open Scope Z_scope.
Ltac Zify.zify_post_hook ::= Z.div_mod_to_equations.

(* full strength: an accepted program executes no C undefined behaviour, so the truncating operators (and the
   floor operators on unsigned operands) would have to be defined - or stopped by a check - for all operands *)
Definition tdiv_no_ub_full : Prop :=
  forall t a b, ity_ok t -> in_ity t a -> in_ity t b -> op_tdiv t a b <> OUB /\ op_tmod t a b <> OUB.
Definition udiv_no_ub_full : Prop :=
  forall gf m t nochecks a b, ity_ok t -> isigned t = false -> in_ity t a -> in_ity t b ->
    emit_idiv gf m t false nochecks a b <> OUB /\ emit_imod gf m t false nochecks a b <> OUB.

Lemma tdiv_no_ub_refuted : ~ tdiv_no_ub_full.
Proof.
  intro F. destruct (F I64 minint (-1)) as [H _]; [unfold ity_ok, all_types; cbn; tauto|unfold in_ity; cbn; lia|unfold in_ity; cbn; lia|].
  apply H. reflexivity.
Qed.
(* the individual witnesses (each replayed under UBSan) *)
Lemma tdiv_witnesses :
  op_tdiv I64 minint (-1) = OUB /\ op_tmod I64 minint (-1) = OUB /\ op_tdiv I64 5 0 = OUB /\ op_tmod I64 5 0 = OUB /\
  op_tdiv I32 (-2147483648) (-1) = OUB /\ op_tdiv U8 5 0 = OUB.
Proof. repeat split; reflexivity. Qed.
Lemma udiv_no_ub_refuted : ~ udiv_no_ub_full.
Proof.
  intro F. destruct (F true FWRAPV U64 false 5 0) as [H _]; [unfold ity_ok, all_types; cbn; tauto|reflexivity|unfold in_ity; cbn; lia|unfold in_ity; cbn; lia|].
  apply H. reflexivity.
Qed.
Lemma udiv_witnesses : forall gf m nochecks,
  emit_idiv gf m U64 false nochecks 5 0 = OUB /\ emit_imod gf m U64 false nochecks 5 0 = OUB.
Proof. intros. split; reflexivity. Qed.
(* narrow types are promoted to int: MIN / -1 is computed at 32 bits and only converted afterwards *)
Example tdiv_int8_min : op_tdiv I8 (-128) (-1) = ORet (-128) /\ op_tmod I8 (-128) (-1) = ORet 0.
Proof. split; reflexivity. Qed.

(* what holds: defined whenever the divisor is not zero and the quotient is representable *)
Ltac tdiv_tac a b Ha Hb H0 H1 :=
  unfold in_ity, imin, imax in Ha, Hb; cbn in Ha, Hb, H1;
  unfold op_tdiv, op_tmod, op_cdiv, op_crem, c_div, c_rem, c_divlike; cbn [fst snd];
  eval_uac; cbn [isigned andb]; drop_cwrap a; drop_cwrap b;
  (replace (b =? 0) with false by lia);
  try (let E := fresh "E" in let E1 := fresh "E" in let E2 := fresh "E" in
       match goal with |- context [if ?c && ?d then _ else _] => destruct (c && d) eqn:E end;
       [exfalso; apply andb_prop in E; destruct E as [E1 E2]; apply Z.eqb_eq in E1, E2; unfold imin in E1; cbn in E1; lia|]);
  split; apply ret_not_ub; discriminate.

Lemma tdiv_no_ub_partial t a b : ity_ok t -> in_ity t a -> in_ity t b -> b <> 0 -> (b <> -1 \/ a <> imin t) ->
  op_tdiv t a b <> OUB /\ op_tmod t a b <> OUB.
Proof.
  intros Ht. revert a b. pattern t. apply ity_cases; [| | | | | | | |exact Ht];
  intros a b Ha Hb H0 H1; tdiv_tac a b Ha Hb H0 H1.
Qed.
Example tdiv_partial_nonvacuous : op_tdiv I64 (-7) 2 = ORet (-3) /\ op_tmod I64 (-7) 2 = ORet (-1) /\ op_tdiv U64 7 2 = ORet 3.
Proof. repeat split; reflexivity. Qed.

Lemma udiv_no_ub_partial gf m t nochecks a b : ity_ok t -> isigned t = false -> in_ity t a -> in_ity t b -> b <> 0 ->
  emit_idiv gf m t false nochecks a b <> OUB /\ emit_imod gf m t false nochecks a b <> OUB.
Proof.
  intros Ht Hs Ha Hb H0. unfold emit_idiv, emit_imod.
  apply (tdiv_no_ub_partial t a b Ht Ha Hb H0). left. intro E. subst b.
  revert Hs Hb. pattern t. apply ity_cases; try exact Ht; unfold in_ity, imin, imax; cbn; intros; try discriminate; lia.
Qed.
