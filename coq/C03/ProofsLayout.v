From C03 Require Import Model ProofsLayoutArith.
Local Open Scope Z_scope.
Ltac Zify.zify_post_hook ::= Z.div_mod_to_equations.

(* size and alignment coincide outright (zero-size types included, after the repair 61ca8bb) *)
Definition fagree (n c : Z * Z) : Prop := n = c /\ 0 <= fst c /\ p2 (snd c).
Definition agree (t : ty) : Prop := fagree (nl t) (cl t).

Lemma emptysize_0 : emptysize = 0. Proof. reflexivity. Qed.

(* facts about the scraped primitive tables *)
Lemma prim_facts k : (k < length nelua_prims)%nat ->
  fagree (let '(s, a) := nelua_prim k in (s, Z.min a maxalign)) (c_prim k).
Proof.
  intros Hk.
  assert (H : forallb (fun k => let '(s, a) := nelua_prim k in
              (s =? fst (c_prim k)) && (Z.min a maxalign =? snd (c_prim k)) && (0 <? s) &&
              existsb (Z.eqb (snd (c_prim k))) pow2s) (seq 0 (length nelua_prims)) = true) by (vm_compute; reflexivity).
  rewrite forallb_forall in H. specialize (H k). rewrite in_seq in H. specialize (H ltac:(lia)).
  destruct (nelua_prim k) as [s a]. destruct (c_prim k) as [s' a'] eqn:Ec. cbn [fst snd] in H.
  apply andb_prop in H. destruct H as (H & Hp). apply andb_prop in H. destruct H as (H & Hs).
  apply andb_prop in H. destruct H as (H1 & H2).
  apply existsb_exists in Hp. destruct Hp as (x & Hx & Ex). apply Z.eqb_eq in Ex. subst x.
  unfold fagree. cbn [fst snd]. repeat split; try lia; auto. f_equal; lia.
Qed.
Lemma ptr_facts : fagree (ptrsize, Z.min ptrsize maxalign) c_pointer.
Proof. unfold fagree. vm_compute. repeat split; try discriminate; auto 20. Qed.

(* ---------- records ---------- *)
Definition Rrec (sn sc : Z * Z * list Z) : Prop :=
  sn = sc /\ 0 <= fst (fst sc) /\ p2 (snd (fst sc)).

Lemma rec_step_ok packed sn sc n c :
  Rrec sn sc -> fagree n c -> Rrec (nl_rec_step packed sn n) (c_rec_step packed sc c).
Proof.
  destruct sn as [[no na] noffs], sc as [[co ca] coffs], n as [fs fa], c as [fs' fca].
  unfold Rrec, fagree, nl_rec_step, c_rec_step. cbn [fst snd].
  intros (E & Ho & Hp) (E2 & Hs & Hpf). inversion E; inversion E2; subst.
  pose proof (p2_pos _ Hp). pose proof (p2_pos _ Hpf).
  destruct packed.
  - rewrite roundup_1. rewrite (Z.max_l ca 1) by lia. repeat split; try lia; auto.
  - rewrite align_forward_roundup by lia.
    destruct (roundup_spec co fca ltac:(lia) Ho) as (_ & L & _).
    repeat split; try lia. apply p2_max; auto.
Qed.

Lemma rec_fold_ok packed ns cs : Forall2 fagree ns cs -> forall sn sc, Rrec sn sc ->
  Rrec (fold_left (nl_rec_step packed) ns sn) (fold_left (c_rec_step packed) cs sc).
Proof.
  induction 1 as [|n c ns cs Hnc _ IH]; intros sn sc HR; [exact HR|].
  cbn [fold_left]. apply IH. apply rec_step_ok; assumption.
Qed.

Lemma rec_init : Rrec (0, 1, []) (0, 1, []).
Proof. unfold Rrec. cbn. repeat split; try lia; auto using p2_1. Qed.

(* packed records keep alignment 1 on both sides *)
Lemma packed_align_1 ns : forall off al offs, al = 1 ->
  snd (fst (fold_left (nl_rec_step true) ns (off, al, offs))) = 1.
Proof.
  induction ns as [|[fs fa] ns IH]; intros off al offs ->; [reflexivity|]. cbn [fold_left nl_rec_step]. apply IH. reflexivity.
Qed.

Lemma rec_finish_ok n packed aligned o a :
  0 <= o -> p2 a -> (packed = true -> a = 1) ->
  match aligned with Some A => p2 A | None => True end ->
  fagree (nl_rec_finish (S n) packed aligned o a)
         (let align := match aligned with Some A => Z.max a A | None => a end in (roundup o align, align)).
Proof.
  intros Ho Hp Hpk Hal. pose proof (p2_pos _ Hp) as Ha.
  unfold nl_rec_finish, fagree. rewrite emptysize_0.
  assert (E1 : (if packed then o else align_forward o a) = roundup o a).
  { destruct packed; [rewrite (Hpk eq_refl), roundup_1; reflexivity|apply align_forward_roundup; lia]. }
  rewrite E1. destruct (roundup_spec o a Ha Ho) as (_ & L & _).
  destruct aligned as [A|].
  - pose proof (p2_pos _ Hal) as HA.
    rewrite align_forward_roundup by lia.
    rewrite roundup_roundup by (try lia; apply p2_divides; auto).
    rewrite (Z.max_comm A a).
    assert (Hm : 1 <= Z.max a A) by lia.
    destruct (roundup_spec o (Z.max a A) Hm Ho) as (_ & L2 & _).
    assert (Hpm : p2 (Z.max a A)) by (apply p2_max; auto).
    destruct (roundup o (Z.max a A) =? 0) eqn:E0; cbn [fst snd].
    + assert (E : roundup o (Z.max a A) = 0) by lia. rewrite E, Z.max_l by lia. repeat split; try lia; auto.
    + repeat split; try lia; auto.
  - destruct (roundup o a =? 0) eqn:E0; cbn [fst snd].
    + assert (E : roundup o a = 0) by lia. rewrite E, Z.max_l by lia. repeat split; try lia; auto.
    + repeat split; try lia; auto.
Qed.

(* a record without fields: size 0, alignment 1 or the requested one *)
Lemma rec_finish_empty packed aligned :
  match aligned with Some A => p2 A | None => True end ->
  fagree (nl_rec_finish O packed aligned 0 1)
         (let align := match aligned with Some A => Z.max 1 A | None => 1 end in (roundup 0 align, align)).
Proof.
  intros Hal. unfold nl_rec_finish, fagree. rewrite emptysize_0. cbn [Z.eqb].
  destruct aligned as [A|]; cbn [fst snd].
  - pose proof (p2_pos _ Hal). rewrite roundup_id by (try lia; apply Z.mod_0_l; lia).
    rewrite (Z.max_l _ 0) by lia. rewrite (Z.max_comm A 1). repeat split; try lia. apply p2_max; auto using p2_1.
  - rewrite roundup_1. cbn. repeat split; try lia; auto using p2_1.
Qed.

(* ---------- unions ---------- *)
Definition Runi (sn sc : Z * Z) : Prop := sn = sc /\ 0 <= fst sc /\ p2 (snd sc).
Lemma uni_fold_ok ns cs : Forall2 fagree ns cs -> forall sn sc, Runi sn sc ->
  Runi (fold_left (fun st f => (Z.max (fst st) (fst f), Z.max (snd st) (snd f))) ns sn)
       (fold_left (fun st f => (Z.max (fst st) (fst f), Z.max (snd st) (snd f))) cs sc).
Proof.
  induction 1 as [|n c ns cs Hnc _ IH]; intros sn sc HR; [exact HR|].
  cbn [fold_left]. apply IH. clear IH.
  destruct HR as (-> & Hs & Hp). destruct Hnc as (-> & Hfs & Hpf).
  unfold Runi. cbn [fst snd]. repeat split; try lia. apply p2_max; auto.
Qed.

(* ---------- the theorem ---------- *)
Lemma Forall2_map_agree fs : Forall agree fs -> Forall2 fagree (map nl fs) (map cl fs).
Proof. induction 1; cbn [map]; constructor; auto. Qed.

Lemma layout_agree : forall t, wfb t = true -> agree t.
Proof.
  induction t as [k| |t n IH|fs packed aligned IH|fs IH] using ty_ind'; intros Hwf; unfold agree.
  - cbn [wfb] in Hwf. apply Nat.ltb_lt in Hwf. cbn [nl cl]. apply (prim_facts k Hwf).
  - cbn [nl cl]. apply ptr_facts.
  - cbn [wfb] in Hwf. apply andb_prop in Hwf. destruct Hwf as (Hw & Hn). specialize (IH Hw).
    unfold agree, fagree in IH. cbn [nl cl]. destruct (nl t) as [s a], (cl t) as [s' a']. cbn [fst snd] in *.
    destruct IH as (E & Hs & Hp). inversion E; subst. unfold fagree. cbn [fst snd]. repeat split; auto. nia.
  - cbn [wfb] in Hwf. apply andb_prop in Hwf. destruct Hwf as (Hall & Hal).
    assert (HF : Forall agree fs).
    { rewrite forallb_forall in Hall. rewrite Forall_forall in *. intros x Hx. apply IH; auto. }
    pose proof (rec_fold_ok packed _ _ (Forall2_map_agree fs HF) _ _ rec_init) as HR.
    cbn [nl cl].
    pose proof (packed_align_1 (map nl fs) 0 1 [] eq_refl) as Hpk.
    destruct (fold_left (nl_rec_step packed) (map nl fs) (0, 1, [])) as [[no na] noffs] eqn:En.
    destruct (fold_left (c_rec_step packed) (map cl fs) (0, 1, [])) as [[co ca] coffs] eqn:Ec.
    destruct HR as (E & Ho & Hp). inversion E; subst. cbn [fst snd] in *.
    assert (HA : match aligned with Some A => p2 A | None => True end).
    { destruct aligned as [A|]; [|exact I]. apply andb_prop in Hal. destruct Hal as (Hp2 & Hle).
      (* the analyzer's bound, scraped: the annotation must be validated for this proof to go through *)
      change aligned_pow2_max with 268435456 in Hle. apply is_pow2_small; [exact Hp2|lia]. }
    destruct fs as [|f fs'].
    + cbn in En, Ec. inversion En; inversion Ec; subst. cbn [length]. apply rec_finish_empty. exact HA.
    + cbn [length]. apply rec_finish_ok; auto.
      intros ->. rewrite En in Hpk. exact Hpk.
  - cbn [wfb] in Hwf. rename Hwf into Hall.
    assert (HF : Forall agree fs).
    { rewrite forallb_forall in Hall. rewrite Forall_forall in *. intros x Hx. apply IH; auto. }
    assert (Hi : Runi (0, 1) (0, 1)) by (unfold Runi; cbn; repeat split; try lia; auto using p2_1).
    pose proof (uni_fold_ok _ _ (Forall2_map_agree fs HF) _ _ Hi) as HR.
    cbn [nl cl].
    destruct (fold_left _ (map nl fs) (0, 1)) as [s a].
    destruct (fold_left _ (map cl fs) (0, 1)) as [s' a'].
    destruct HR as (E & Hs & Hp). inversion E; subst. cbn [fst snd] in *.
    pose proof (p2_pos _ Hp). unfold nl_uni_finish, fagree.
    destruct (roundup_spec s' a' ltac:(lia) Hs) as (_ & L & _).
    rewrite emptysize_0.
    destruct (s' =? 0) eqn:E0.
    + assert (s' = 0) by lia. subst. rewrite roundup_id by (try lia; apply Z.mod_0_l; lia).
      rewrite Z.max_l by lia. cbn [fst snd]. repeat split; try lia; auto.
    + rewrite align_forward_roundup by lia. cbn [fst snd]. repeat split; try lia; auto.
Qed.

(* consequences: the emitted static assertion holds, field offsets coincide *)
Lemma static_assert_ok t : wfb t = true -> static_assert_holds t = true.
Proof.
  intros H. pose proof (layout_agree t H) as (E & _). unfold static_assert_holds. rewrite E.
  destruct (cl t) as [s a]. cbn [fst snd]. destruct (0 <? s); [|reflexivity]. lia.
Qed.

Lemma offsets_ok fs packed aligned : wfb (TRec fs packed aligned) = true -> nl_offsets fs packed = cl_offsets fs packed.
Proof.
  intros Hwf. cbn [wfb] in Hwf. apply andb_prop in Hwf. destruct Hwf as (Hall & _).
  assert (HF : Forall agree fs).
  { rewrite forallb_forall in Hall. rewrite Forall_forall. intros x Hx. apply layout_agree; auto. }
  pose proof (rec_fold_ok packed _ _ (Forall2_map_agree fs HF) _ _ rec_init) as (E & _).
  unfold nl_offsets, cl_offsets. rewrite E. reflexivity.
Qed.

(* the three consequences together, as stated in Properties.v *)
Lemma layout_agrees_all t : wfb t = true ->
  nl t = cl t /\ static_assert_holds t = true /\
  (forall fs packed aligned, t = TRec fs packed aligned -> nl_offsets fs packed = cl_offsets fs packed).
Proof.
  intros H. split; [apply (layout_agree t H)|]. split; [apply static_assert_ok; exact H|].
  intros fs packed aligned ->. eapply offsets_ok; exact H.
Qed.
