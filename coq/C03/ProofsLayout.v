From C03 Require Import Model ProofsLayoutArith.
Local Open Scope Z_scope.
Ltac Zify.zify_post_hook ::= Z.div_mod_to_equations.

Definition fagree (n c : Z * Z) : Prop :=
  fst n = fst c /\ 0 <= fst n /\
  (0 < fst n -> snd n = snd c /\ p2 (snd c)) /\
  (fst n = 0 -> snd n = 0 /\ snd c = 1).
Definition agree (t : ty) : Prop := fagree (nl t) (cl t).

Lemma emptysize_0 : emptysize = 0. Proof. reflexivity. Qed.

(* facts about the scraped primitive tables *)
Lemma prim_facts k : (k < length nelua_prims)%nat ->
  fagree (let '(s, a) := nelua_prim k in (s, Z.min a maxalign)) (c_prim k) /\ 0 < fst (c_prim k).
Proof.
  intros Hk.
  assert (H : forallb (fun k => let '(s, a) := nelua_prim k in
              (s =? fst (c_prim k)) && (Z.min a maxalign =? snd (c_prim k)) && (0 <? s) &&
              existsb (Z.eqb (snd (c_prim k))) pow2s) (seq 0 (length nelua_prims)) = true) by (vm_compute; reflexivity).
  rewrite forallb_forall in H. specialize (H k). rewrite in_seq in H. specialize (H ltac:(lia)).
  destruct (nelua_prim k) as [s a]. 
  apply andb_prop in H. destruct H as (H & Hp). apply andb_prop in H. destruct H as (H & Hs).
  apply andb_prop in H. destruct H as (H1 & H2).
  apply existsb_exists in Hp. destruct Hp as (x & Hx & Ex). apply Z.eqb_eq in Ex. subst x.
  unfold fagree. cbn [fst snd]. repeat split; try lia; auto.
Qed.
Lemma ptr_facts : fagree (ptrsize, Z.min ptrsize maxalign) c_pointer.
Proof. unfold fagree. vm_compute. repeat split; try discriminate; try reflexivity; intros; try discriminate; auto 20. Qed.

(* ---------- records ---------- *)
Definition Rrec (packed : bool) (sn sc : Z * Z * list Z) : Prop :=
  let '(no, na, noffs) := sn in let '(co, ca, coffs) := sc in
  no = co /\ noffs = coffs /\ 0 <= no /\ p2 ca /\
  (if packed then na = 1 /\ ca = 1 else na = ca) /\ (no = 0 -> ca = 1).

Lemma rec_step_ok packed sn sc n c :
  Rrec packed sn sc -> fagree n c -> Rrec packed (nl_rec_step packed sn n) (c_rec_step packed sc c).
Proof.
  destruct sn as [[no na] noffs], sc as [[co ca] coffs], n as [fs fa], c as [fs' fca].
  unfold Rrec, fagree, nl_rec_step, c_rec_step. cbn [fst snd].
  intros (Eo & Eoffs & Ho & Hp & Ha & Hz) (Es & Hs & Hpos & Hzero). subst co coffs fs'.
  pose proof (p2_pos _ Hp) as Hca.
  destruct packed.
  - destruct Ha as (-> & ->). rewrite roundup_1. repeat split; try lia; auto.
  - subst na. destruct (Z.eq_dec fs 0) as [Ez|Ez].
    + destruct (Hzero Ez) as (-> & ->). rewrite align_forward_0, roundup_1.
      rewrite !Z.max_l by lia. repeat split; try lia; auto.
    + destruct (Hpos ltac:(lia)) as (-> & Hpf). pose proof (p2_pos _ Hpf).
      rewrite align_forward_roundup by lia.
      destruct (roundup_spec no fca ltac:(lia) Ho) as (_ & L & _).
      repeat split; try lia; auto. apply p2_max; auto.
Qed.

Lemma rec_fold_ok packed ns cs : Forall2 fagree ns cs -> forall sn sc, Rrec packed sn sc ->
  Rrec packed (fold_left (nl_rec_step packed) ns sn) (fold_left (c_rec_step packed) cs sc).
Proof.
  induction 1 as [|n c ns cs Hnc _ IH]; intros sn sc HR; [exact HR|].
  cbn [fold_left]. apply IH. apply rec_step_ok; assumption.
Qed.

Lemma rec_init packed : Rrec packed (0, 1, []) (0, 1, []).
Proof. unfold Rrec. destruct packed; repeat split; try lia; auto using p2_1. Qed.

Lemma rec_finish_ok n packed aligned no na noffs co ca coffs :
  Rrec packed (no, na, noffs) (co, ca, coffs) ->
  match aligned with Some A => p2 A /\ roundup co ca <> 0 | None => True end ->
  fagree (nl_rec_finish (S n) packed aligned no na)
         (let align := match aligned with Some A => Z.max ca A | None => ca end in (roundup co align, align)).
Proof.
  unfold Rrec. intros (<- & _ & Ho & Hp & Ha & Hz) Hal.
  pose proof (p2_pos _ Hp) as Hca.
  unfold nl_rec_finish, fagree. rewrite emptysize_0.
  assert (E1 : (if packed then no else align_forward no na) = roundup no ca).
  { destruct packed; [destruct Ha as (-> & ->); rewrite roundup_1; reflexivity|subst na; apply align_forward_roundup; lia]. }
  rewrite E1.
  destruct (roundup_spec no ca Hca Ho) as (_ & L & _).
  destruct aligned as [A|].
  - destruct Hal as (HpA & Hnz). pose proof (p2_pos _ HpA) as HA.
    rewrite align_forward_roundup by lia.
    rewrite roundup_roundup by (try lia; apply p2_divides; auto).
    assert (En : Z.max A na = Z.max ca A).
    { destruct packed; [destruct Ha as (-> & ->)|subst na]; lia. }
    rewrite En.
    assert (Hm : 1 <= Z.max ca A) by lia.
    destruct (roundup_spec no (Z.max ca A) Hm Ho) as (_ & L2 & _).
    assert (0 < no). { destruct (Z.eq_dec no 0) as [->|]; [exfalso; apply Hnz; apply roundup_id; [lia|apply Z.mod_0_l; lia]|lia]. }
    replace (roundup no (Z.max ca A) =? 0) with false by lia.
    cbn [fst snd]. repeat split; try lia. apply p2_max; auto.
  - destruct (roundup no ca =? 0) eqn:E0; cbn [fst snd].
    + assert (no = 0) by lia. specialize (Hz H). repeat split; try lia.
    + repeat split; try lia; auto. destruct packed; [destruct Ha as (-> & ->)|subst na]; reflexivity.
Qed.

(* ---------- unions ---------- *)
Definition Runi (sn sc : Z * Z) : Prop :=
  fst sn = fst sc /\ 0 <= fst sn /\ snd sn = snd sc /\ p2 (snd sc) /\ (fst sn = 0 -> snd sc = 1).
Lemma uni_fold_ok ns cs : Forall2 fagree ns cs -> forall sn sc, Runi sn sc ->
  Runi (fold_left (fun st f => (Z.max (fst st) (fst f), Z.max (snd st) (snd f))) ns sn)
       (fold_left (fun st f => (Z.max (fst st) (fst f), Z.max (snd st) (snd f))) cs sc).
Proof.
  induction 1 as [|n c ns cs Hnc _ IH]; intros sn sc HR; [exact HR|].
  cbn [fold_left]. apply IH. clear IH.
  destruct sn as [s a], sc as [s' a'], n as [fs fa], c as [fs' fca]. unfold Runi, fagree in *. cbn [fst snd] in *.
  destruct HR as (<- & Hs & <- & Hp & Hz). destruct Hnc as (<- & Hfs & Hpos & Hzero).
  pose proof (p2_pos _ Hp).
  destruct (Z.eq_dec fs 0) as [Ez|Ez].
  - destruct (Hzero Ez) as (-> & ->). rewrite !(Z.max_l a) by lia. repeat split; try lia; auto.
  - destruct (Hpos ltac:(lia)) as (-> & Hpf). repeat split; try lia. apply p2_max; auto.
Qed.

(* ---------- the theorem ---------- *)
Lemma Forall2_map_agree fs : Forall agree fs -> Forall2 fagree (map nl fs) (map cl fs).
Proof. induction 1; cbn [map]; constructor; auto. Qed.

Lemma layout_agree : forall t, wfb t = true -> agree t.
Proof.
  induction t as [k| |t n IH|fs packed aligned IH|fs IH] using ty_ind'; intros Hwf; unfold agree.
  - cbn [wfb] in Hwf. apply Nat.ltb_lt in Hwf. cbn [nl cl]. apply (proj1 (prim_facts k Hwf)).
  - cbn [nl cl]. apply ptr_facts.
  - cbn [wfb] in Hwf. apply andb_prop in Hwf. destruct Hwf as (Hw & Hn). specialize (IH Hw).
    unfold agree, fagree in IH. cbn [nl cl]. destruct (nl t) as [s a], (cl t) as [s' a']. cbn [fst snd] in *.
    destruct IH as (<- & Hs & Hpos & Hzero). unfold fagree. cbn [fst snd].
    repeat split; try nia; try (apply Hpos; nia); try (apply Hzero; nia).
  - cbn [wfb] in Hwf. apply andb_prop in Hwf. destruct Hwf as (Hall & Hal).
    assert (HF : Forall agree fs).
    { rewrite forallb_forall in Hall. rewrite Forall_forall in *. intros x Hx. apply IH; auto. }
    pose proof (rec_fold_ok packed _ _ (Forall2_map_agree fs HF) _ _ (rec_init packed)) as HR.
    cbn [nl cl].
    destruct (fold_left (nl_rec_step packed) (map nl fs) (0, 1, [])) as [[no na] noffs] eqn:En.
    destruct (fold_left (c_rec_step packed) (map cl fs) (0, 1, [])) as [[co ca] coffs] eqn:Ec.
    destruct fs as [|f fs'].
    + cbn in En, Ec. inversion En; inversion Ec; subst. cbn [length nl_rec_finish].
      destruct aligned as [A|].
      * exfalso. replace (fst (cl (TRec [] packed None))) with 0 in Hal by (destruct packed; reflexivity).
        change (negb (0 =? 0)) with false in Hal. rewrite andb_false_r in Hal. discriminate.
      * unfold nl_rec_finish, fagree. rewrite emptysize_0, roundup_1. cbn. repeat split; try lia; intros; lia.
    + cbn [length]. apply (rec_finish_ok _ packed aligned no na noffs co ca coffs HR).
      destruct aligned as [A|]; [|exact I].
      apply andb_prop in Hal. destruct Hal as (Hal & Hnz). apply andb_prop in Hal. destruct Hal as (Hp & Hle).
      split; [apply is_pow2_small; [exact Hp|lia]|].
      cbn [cl] in Hnz. rewrite Ec in Hnz. cbn [fst] in Hnz. lia.
  - cbn [wfb] in Hwf.
    assert (HF : Forall agree fs).
    { rewrite forallb_forall in Hwf. rewrite Forall_forall in *. intros x Hx. apply IH; auto. }
    assert (Hi : Runi (0, 1) (0, 1)) by (unfold Runi; cbn; repeat split; try lia; auto using p2_1).
    pose proof (uni_fold_ok _ _ (Forall2_map_agree fs HF) _ _ Hi) as HR.
    cbn [nl cl].
    destruct (fold_left _ (map nl fs) (0, 1)) as [s a].
    destruct (fold_left _ (map cl fs) (0, 1)) as [s' a'].
    unfold Runi in HR. cbn [fst snd] in HR. destruct HR as (<- & Hs & <- & Hp & Hz).
    pose proof (p2_pos _ Hp). unfold nl_uni_finish, fagree. rewrite emptysize_0.
    destruct (s =? 0) eqn:E0; cbn [fst snd].
    + assert (s = 0) by lia. subst s. rewrite (Hz eq_refl), roundup_1. repeat split; try lia; auto.
    + rewrite align_forward_roundup by lia. destruct (roundup_spec s a ltac:(lia) Hs) as (_ & L & _).
      repeat split; try lia; auto.
Qed.

(* consequences: the emitted static assertion holds, field offsets coincide *)
Lemma static_assert_ok t : wfb t = true -> static_assert_holds t = true.
Proof.
  intros H. pose proof (layout_agree t H) as A. unfold agree, fagree in A. unfold static_assert_holds.
  destruct (nl t) as [s a], (cl t) as [s' a']. cbn [fst snd] in *. destruct A as (<- & Hs & Hpos & _).
  destruct (0 <? s) eqn:E; [|reflexivity]. destruct (Hpos ltac:(lia)) as (-> & _). lia.
Qed.

Lemma offsets_ok fs packed aligned : wfb (TRec fs packed aligned) = true -> nl_offsets fs packed = cl_offsets fs packed.
Proof.
  intros Hwf. cbn [wfb] in Hwf. apply andb_prop in Hwf. destruct Hwf as (Hall & _).
  assert (HF : Forall agree fs).
  { rewrite forallb_forall in Hall. rewrite Forall_forall. intros x Hx. apply layout_agree; auto. }
  pose proof (rec_fold_ok packed _ _ (Forall2_map_agree fs HF) _ _ (rec_init packed)) as HR.
  unfold nl_offsets, cl_offsets.
  destruct (fold_left (nl_rec_step packed) (map nl fs) (0, 1, [])) as [[no na] noffs].
  destruct (fold_left (c_rec_step packed) (map cl fs) (0, 1, [])) as [[co ca] coffs].
  unfold Rrec in HR. destruct HR as (_ & -> & _). reflexivity.
Qed.
