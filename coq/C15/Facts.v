(* C15: statement of the tripwire - the facts scraped from astdefs.lua / cgenerator.lua / scope.lua / analyzer.lua
   are the ones the hand-written model compiler (Model.v cstmt/cbody/ccases, desugar) is written against. *)
From Coq Require Import List Bool String.
From C15 Require Import Gen.
Import ListNotations.

Definition generator_facts : Prop :=
  gen_breakflow_tags = ["Return"; "In"; "Break"; "Continue"; "Fallthrough"]%string /\
  gen_close_loop = ("#deferblocks", "1", "-1")%string /\
  gen_close_guarded_by_closing = true /\
  gen_upscopes_closes_current_first = true /\
  gen_upscopes_walks_parents_until_top = true /\
  gen_block_order = ["stats"; "repeat_stop"; "close"]%string /\
  gen_block_close_unless_breakflow = true /\
  gen_return_value_saved_before_cleanup = true /\
  gen_return_closes_up_to_function_scope = true /\
  gen_in_value_assigned_before_cleanup = true /\
  gen_continue_stop_then_cleanup_then_continue = true /\
  gen_break_cleanup_before_jump = true /\
  gen_defer_registers_on_current_scope = true /\
  gen_defer_blocks_appended = true /\
  gen_fallthrough_closes_scope = true /\
  gen_block_resets_deferblocks = true /\
  gen_close_defers_in_declaration_order = true /\
  gen_jump_out_of_defer_rejected = true /\
  gen_in_goto_omitted_only_for_last_statement_of_doexpr_block = true.

