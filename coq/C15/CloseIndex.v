(* C15: the position bookkeeping of analyzer.lua visit_close (repaired in 6344d5b).
   The defer of the i-th <close> variable of a declaration is injected, when the variable's type becomes
   known (in ANY order, over several resolution passes), at
        statindex + 1 + #{ already injected defers of variables with a smaller index }.
   [injected] is the list of variable indices whose defer already stands after the declaration, in block
   order.  Whatever the resolution order, the injected defers end up in declaration order. *)
From Coq Require Import List Arith Lia Sorted Permutation.
Import ListNotations.

Definition vc_insert (i:nat) (injected:list nat) : list nat :=
  let pos := length (filter (fun j => j <? i) injected) in
  firstn pos injected ++ i :: skipn pos injected.

Definition visit_close_all (order:list nat) : list nat :=
  fold_left (fun inj i => vc_insert i inj) order [].

Lemma sorted_head_lt : forall a r, Sorted lt (a :: r) -> Forall (lt a) r.
Proof.
  intros a r H. apply Sorted_StronglySorted in H; [|intros x y z; lia].
  inversion H; assumption.
Qed.

Lemma vc_insert_sorted : forall i l, Sorted lt l -> ~ In i l -> Sorted lt (vc_insert i l).
Proof.
  intros i l. induction l as [|a r IH]; intros Hs Hn.
  - unfold vc_insert. simpl. repeat constructor.
  - unfold vc_insert. cbn [filter]. destruct (a <? i) eqn:E.
    + apply Nat.ltb_lt in E. cbn [length firstn skipn app].
      assert (Hr : Sorted lt r) by (inversion Hs; assumption).
      assert (Hn' : ~ In i r) by (intro; apply Hn; right; assumption).
      specialize (IH Hr Hn'). unfold vc_insert in IH.
      constructor; [exact IH|].
      pose proof (sorted_head_lt a r Hs) as Hall.
      destruct (length (filter (fun j => j <? i) r)) as [|n] eqn:El; cbn [firstn app].
      * constructor. exact E.
      * destruct r as [|b r']; cbn [firstn app]; [constructor; exact E|].
        constructor. inversion Hall; assumption.
    + apply Nat.ltb_ge in E. assert (Hai : i < a) by (assert (a <> i) by (intro; subst; apply Hn; left; reflexivity); lia).
      pose proof (sorted_head_lt a r Hs) as Hall.
      assert (Hf : filter (fun j => j <? i) r = []).
      { clear -Hall Hai. induction r as [|b r IH]; [reflexivity|]. inversion Hall; subst. cbn [filter].
        destruct (b <? i) eqn:Eb; [apply Nat.ltb_lt in Eb; lia | apply IH; assumption]. }
      rewrite Hf. cbn [length firstn skipn app]. constructor; [exact Hs | constructor; exact Hai].
Qed.

Lemma vc_insert_perm : forall i l, Permutation (vc_insert i l) (i :: l).
Proof.
  intros i l. unfold vc_insert. set (pos := length (filter (fun j => j <? i) l)).
  rewrite <- (firstn_skipn pos l) at 3. symmetry. apply Permutation_middle.
Qed.

Lemma visit_close_fold : forall order inj, Sorted lt inj -> NoDup (order ++ inj) ->
  Sorted lt (fold_left (fun l i => vc_insert i l) order inj) /\
  Permutation (fold_left (fun l i => vc_insert i l) order inj) (rev order ++ inj).
Proof.
  induction order as [|i r IH]; intros inj Hs Hnd; cbn [fold_left rev app].
  - split; [exact Hs | reflexivity].
  - cbn [app] in Hnd. inversion Hnd as [|? ? Hni Hnd']; subst.
    assert (Hn : ~ In i inj) by (intro; apply Hni; apply in_or_app; right; assumption).
    destruct (IH (vc_insert i inj) (vc_insert_sorted i inj Hs Hn)) as [H1 H2].
    { apply (Permutation_NoDup (l := r ++ i :: inj)).
      - apply Permutation_app_head. symmetry. apply vc_insert_perm.
      - apply (Permutation_NoDup (l := i :: r ++ inj)); [apply Permutation_middle | constructor; assumption]. }
    split; [exact H1|]. rewrite H2. rewrite <- app_assoc. cbn [app].
    apply Permutation_app_head. apply vc_insert_perm.
Qed.

(* any resolution order of distinct variable indices gives the injected defers in declaration order *)
Theorem visit_close_any_order : forall order, NoDup order ->
  Sorted lt (visit_close_all order) /\ Permutation (visit_close_all order) order.
Proof.
  intros order Hnd. unfold visit_close_all.
  destruct (visit_close_fold order [] (Sorted_nil _)) as [H1 H2]; [rewrite app_nil_r; exact Hnd|].
  split; [exact H1|]. rewrite H2. rewrite app_nil_r. symmetry. apply Permutation_rev.
Qed.

Example visit_close_example :
  visit_close_all [2; 0; 3; 1] = [0; 1; 2; 3] /\ visit_close_all [1; 0] = [0; 1].
Proof. split; reflexivity. Qed.
