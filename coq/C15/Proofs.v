(* C15 proofs. *)
From Coq Require Import List Bool Arith String Lia.
From C15 Require Import Gen Model Facts.
Import ListNotations.

(* ------------------------------------------------------------------ (T) the scraped facts are the ones the model is written against *)
Lemma generator_facts_hold : generator_facts.
Proof. unfold generator_facts. repeat split; vm_compute; reflexivity. Qed.

(* ================================================================== induction scheme *)
Local Open Scope list_scope.
Scheme stmt_mind := Induction for stmt Sort Prop
  with block_mind := Induction for block Sort Prop
  with cases_mind := Induction for cases Sort Prop.
Combined Scheme sbc_mutind from stmt_mind, block_mind, cases_mind.

(* ------------------------------------------------------------------ well-formedness (placement rules) *)


(* L: inside a loop of the same function (break/continue allowed); D: inside a do-expression (`in` allowed);
   F: `return` allowed (not inside a deferred block); N: inside a deferred block (no nested defer).
   [wfd]: for desugared programs (no Close left). *)
Fixpoint wfd_stmt (L D F N:bool) (s:stmt) {struct s} : bool :=
  match s with
  | Emit _ => true
  | Defer _ b => wfd_block false false false N b
  | Close _ => false
  | Do b => wfd_block L D F N b
  | If _ t e => wfd_block L D F N t && wfd_block L D F N e
  | While _ b => wfd_block true D F N b
  | Repeat b _ => wfd_block true D F N b
  | For _ b => wfd_block true D F N b
  | Switch _ cs d => wfd_cases L D F N cs && wfd_block L D F N d
  | DoExpr b => wfd_block L true F N b
  | In _ => D
  | Break | Continue => L
  | Return _ | ReturnVoid => F
  | FnCall _ b => wfd_block false false true false b
  end
with wfd_block (L D F N:bool) (b:block) {struct b} : bool :=
  match b with
  | BNil => true
  | BCons s r => wfd_stmt L D F N s && wfd_block L D F N r
  end
with wfd_cases (L D F N:bool) (cs:cases) {struct cs} : bool :=
  match cs with
  | CNil => true
  | CCons b ft r => wfd_block L D F N b && wfd_cases L D F N r
  end.

(* ------------------------------------------------------------------ outcomes *)
Definition benign (o:out) : bool := match o with Nrm | Abort | Fuel => true | _ => false end.

Definition allowed (L D F:bool) (o:out) : Prop :=
  match o with
  | Nrm | Abort | Fuel => True
  | Brk | GBrk | Cnt _ => L = true
  | Ret _ => F = true
  | InV _ => D = true
  end.

Definition benign_clo (g:closure) : Prop := forall x, benign (fst (g x)) = true.

Definition after (o:out) (r:res) : res := match r with (Nrm, x1) => (o, x1) | q => q end.

Lemma after_cleanup_eq : forall o r, after_cleanup o r = after o r.
Proof. reflexivity. Qed.

Lemma run_defers_benign : forall ds o x, Forall benign_clo ds ->
  run_defers ds o x = after o (run_defers ds Nrm x).
Proof.
  induction ds as [|g r IH]; intros o x H; simpl.
  - reflexivity.
  - inversion H as [|? ? Hg Hr]; subst. specialize (Hg x).
    destruct (g x) as [o1 x1]. simpl in Hg.
    destruct o1; try discriminate; simpl; auto.
Qed.

Lemma run_defers_nrm_benign : forall ds x, Forall benign_clo ds -> benign (fst (run_defers ds Nrm x)) = true.
Proof.
  induction ds as [|g r IH]; intros x H; simpl.
  - reflexivity.
  - inversion H as [|? ? Hg Hr]; subst. specialize (Hg x).
    destruct (g x) as [o1 x1]. simpl in Hg.
    destruct o1; try discriminate; simpl; auto.
Qed.

Lemma allowed_after : forall L D F o r, allowed L D F o -> benign (fst r) = true -> allowed L D F (fst (after o r)).
Proof.
  intros L D F o [o1 x1] Ho Hb. simpl in Hb. destruct o1; try discriminate; simpl; auto.
Qed.

Lemma allowed_benign : forall L D F o, benign o = true -> allowed L D F o.
Proof. intros L D F o H; destruct o; try discriminate; simpl; auto. Qed.

Lemma allowed_none_benign : forall o, allowed false false false o -> benign o = true.
Proof. intros o H; destruct o; simpl in *; auto; discriminate. Qed.

Lemma allowed_mono_L : forall L D F o, allowed L D F o -> allowed true D F o.
Proof. intros L D F o H; destruct o; simpl in *; auto. Qed.

(* loops consume break / continue *)
Lemma while_allowed : forall L D F c body,
  (forall y, allowed true D F (fst (body y))) ->
  forall n x, allowed L D F (fst (while_loop n c body x)).
Proof.
  intros L D F c body Hb. induction n as [|n IH]; intro x; simpl.
  - exact I.
  - destruct (cond c x) as [[v x1]|]; simpl; [|exact I].
    destruct (truthy v); simpl; [|exact I].
    specialize (Hb x1). destruct (body x1) as [o x2]. simpl in Hb.
    destruct o; simpl in *; auto.
Qed.

Lemma repeat_allowed : forall L D F body,
  (forall y, allowed true D F (fst (body y))) ->
  forall n x, allowed L D F (fst (repeat_loop n body x)).
Proof.
  intros L D F body Hb. induction n as [|n IH]; intro x; simpl.
  - exact I.
  - specialize (Hb x). destruct (body x) as [o x2]. simpl in Hb.
    destruct o; simpl in *; auto. destruct stop; simpl; auto.
Qed.

Lemma for_allowed : forall L D F body,
  (forall y, allowed true D F (fst (body y))) ->
  forall n x, allowed L D F (fst (for_loop n body x)).
Proof.
  intros L D F body Hb. induction n as [|n IH]; intro x; simpl.
  - exact I.
  - specialize (Hb x). destruct (body x) as [o x2]. simpl in Hb.
    destruct o; simpl in *; auto.
Qed.

Definition allowed_fin (L D F:bool) (fin:option nat) (o:out) : Prop :=
  match fin, o with
  | Some _, Cnt _ => True
  | _, _ => allowed L D F o
  end.

Lemma allowed_fin_weak : forall L D F fin o, allowed L D F o -> allowed_fin L D F fin o.
Proof. intros. destruct fin, o; simpl in *; auto. Qed.


Definition defer_body_benign (s:stmt) : Prop :=
  match s with
  | Defer d body => forall N lp y, wfd_block false false false N body = true ->
                    benign (fst (rstmts lp body [] None (emit (EvU d) y))) = true
  | _ => True
  end.

Ltac sem := cbn [rstmt rstmts rcases wfd_stmt wfd_block wfd_cases fst snd] in *.

Lemma outcomes_allowed :
  (forall s, (forall L D F N lp x, wfd_stmt L D F N s = true -> allowed L D F (fst (rstmt lp s x)))
             /\ defer_body_benign s) /\
  (forall b, forall L D F N lp ds fin x, wfd_block L D F N b = true -> Forall benign_clo ds ->
      allowed_fin L D F fin (fst (rstmts lp b ds fin x))) /\
  (forall cs, forall L D F N lp d v x, wfd_cases L D F N cs = true ->
      (forall y, allowed L D F (fst (d y))) -> allowed L D F (fst (rcases lp cs d v x))).
Proof.
  apply sbc_mutind.
  - (* Emit *) intros; split; [intros; exact I | exact I].
  - (* Defer *) intros d b IH; split; [intros; exact I|].
    intros N lp y H. apply allowed_none_benign.
    exact (IH false false false N lp [] None _ H (Forall_nil _)).
  - (* Close *) intros; split; [intros; exact I | exact I].
  - (* Do *) intros b IH; split; [|exact I]. intros L D F N lp x H. sem.
    exact (IH L D F N lp [] None x H (Forall_nil _)).
  - (* If *) intros c t IHt e IHe; split; [|exact I]. intros L D F N lp x H. sem.
    apply andb_true_iff in H as [Ht He].
    destruct (cond c x) as [[v x1]|]; [|exact I].
    destruct (truthy v).
    + exact (IHt L D F N lp [] None x1 Ht (Forall_nil _)).
    + exact (IHe L D F N lp [] None x1 He (Forall_nil _)).
  - (* While *) intros c b IH; split; [|exact I]. intros L D F N lp x H. sem.
    apply while_allowed. intro y. exact (IH true D F N None [] None y H (Forall_nil _)).
  - (* Repeat *) intros b IH c; split; [|exact I]. intros L D F N lp x H. sem.
    apply repeat_allowed. intro y.
    pose proof (IH true D F N (Some c) [] (Some c) y H (Forall_nil _)) as Hy.
    destruct (fst (rstmts (Some c) b [] (Some c) y)); simpl in *; auto.
  - (* For *) intros n b IH; split; [|exact I]. intros L D F N lp x H. sem.
    apply for_allowed. intro y. exact (IH true D F N None [] None y H (Forall_nil _)).
  - (* Switch *) intros c cs IHc d IHd; split; [|exact I]. intros L D F N lp x H. sem.
    apply andb_true_iff in H as [Hc Hd].
    destruct (cond c x) as [[v x1]|]; [|exact I].
    pose proof (IHc L D F N lp (fun y => rstmts lp d [] None y) (Some v) x1 Hc) as Hr.
    assert (Hdd : forall y, allowed L D F (fst (rstmts lp d [] None y))).
    { intro y. exact (IHd L D F N lp [] None y Hd (Forall_nil _)). }
    specialize (Hr Hdd).
    destruct (rcases lp cs (fun y => rstmts lp d [] None y) (Some v) x1) as [o x2]. simpl in *.
    destruct o; simpl in *; auto.
  - (* DoExpr *) intros b IH; split; [|exact I]. intros L D F N lp x H. sem.
    pose proof (IH L true F N lp [] None x H (Forall_nil _)) as Hr. simpl in Hr.
    destruct (rstmts lp b [] None x) as [o x2]. simpl in *. destruct o; simpl in *; auto.
  - (* In *) intros e; split; [|exact I]. intros L D F N lp x H. sem. exact H.
  - (* Break *) split; [|exact I]. intros L D F N lp x H. sem. exact H.
  - (* Continue *) split; [|exact I]. intros L D F N lp x H. sem. unfold continue_res.
    destruct lp as [c|]; simpl; [|exact H].
    destruct (cond c x) as [[v x1]|]; simpl; auto.
  - (* Return *) intros e; split; [|exact I]. intros L D F N lp x H. sem. destruct (evalxs e x) as [vs x1]. exact H.
  - (* ReturnVoid *) split; [|exact I]. intros L D F N lp x H. sem. exact H.
  - (* FnCall *) intros void b IH; split; [|exact I]. intros L D F N lp x H. sem.
    destruct (rstmts None b [] None x) as [o x2]. destruct o; simpl; exact I.
  - (* BNil *) intros L D F N lp ds fin x _ Hds. sem.
    destruct fin as [c|].
    + destruct (cond c x) as [[v x1]|]; [|exact I].
      rewrite run_defers_benign by assumption.
      pose proof (run_defers_nrm_benign ds x1 Hds) as Hb.
      destruct (run_defers ds Nrm x1) as [o x2]. simpl in Hb. destruct o; try discriminate; simpl; auto.
    + apply allowed_benign. apply run_defers_nrm_benign; assumption.
  - (* BCons *) intros s [IHs IHd] r IHr L D F N lp ds fin x H Hds.
    cbn [wfd_block] in H. apply andb_true_iff in H as [Hs Hr].
    assert (Hgen : forall o x1, allowed L D F o ->
              allowed_fin L D F fin (fst (match o with
                | Nrm => rstmts lp r ds fin x1
                | Abort => (Abort, x1) | Fuel => (Fuel, x1)
                | _ => run_defers ds o x1 end))).
    { intros o x1 Ho. destruct o; try exact I;
        try (apply (IHr L D F N lp ds fin x1 Hr Hds));
        try (rewrite run_defers_benign by assumption; apply allowed_fin_weak;
             apply allowed_after; [exact Ho | apply run_defers_nrm_benign; assumption]);
        try (destruct fin; exact I). }
    destruct s;
      try (cbn [rstmts];
           match goal with |- context [rstmt lp ?s x] =>
             pose proof (IHs L D F N lp x Hs) as Ha;
             destruct (rstmt lp s x) as [o x1]; simpl in Ha;
             specialize (Hgen o x1 Ha); destruct o; exact Hgen end).
    + (* Defer *)
      cbn [rstmts]. cbn [wfd_stmt] in Hs. pose proof Hs as Hb.
      apply (IHr L D F N lp _ fin _ Hr). constructor; [|assumption].
      intro y. exact (IHd N lp y Hb).
    + (* Close *) cbn [wfd_stmt] in Hs. discriminate.
  - (* CNil *) intros L D F N lp d v x _ Hd. sem. apply Hd.
  - (* CCons *) intros b IHb ft r IHr L D F N lp d v x H Hd. sem.
    apply andb_true_iff in H as [Hb Hr].
    assert (Hcase : allowed L D F (fst (match rstmts lp b [] None x with
              | (Nrm, x1) => if ft then rcases lp r d None x1 else (Nrm, x1)
              | q => q end))).
    { pose proof (IHb L D F N lp [] None x Hb (Forall_nil _)) as Ha. simpl in Ha.
      destruct (rstmts lp b [] None x) as [o x1]. simpl in Ha.
      destruct o; simpl; auto. destruct ft; [|exact I]. apply (IHr L D F N lp d None x1 Hr Hd). }
    destruct v as [[|k]|]; try exact Hcase.
    apply (IHr L D F N lp d (Some k) x Hr Hd).
Qed.

(* ================================================================== simulation *)
Definition rframe := (fkind * list closure)%type.

Definition defer_rel (t:list tstmt) (g:closure) : Prop :=
  forall x, tblock t x = g x /\ benign (fst (g x)) = true.

Definition frame_rel (f:frame) (r:rframe) : Prop :=
  fk f = fst r /\ fclosing f = false /\ Forall2 defer_rel (fdefers f) (snd r).

Definition ctx_rel (c:list frame) (r:list rframe) : Prop := Forall2 frame_rel c r.

Fixpoint run_upto (p:fkind -> bool) (rt:list rframe) (x:st) : res :=
  match rt with
  | [] => (Nrm, x)
  | (k, ds) :: r =>
    match run_defers ds Nrm x with
    | (Nrm, x1) => if p k then (Nrm, x1) else run_upto p r x1
    | q => q
    end
  end.

Definition catcher (o:out) : fkind -> bool :=
  match o with Ret _ => is_func | InV _ => is_doexpr | _ => is_loop end.

Definition tconv (ctx:list frame) (o:out) : out :=
  match o with
  | Brk => match nearest is_loop_or_switch ctx with Some KSwitch => GBrk | _ => Brk end
  | o => o
  end.

Definition post (ctx:list frame) (rt:list rframe) (r:res) : res :=
  match r with
  | (o, x) => if benign o then (o, x) else after (tconv ctx o) (run_upto (catcher o) rt x)
  end.

Definition hasK (p:fkind -> bool) (c:list frame) : bool := existsb (fun f => p (fk f)) c.

Definition lp_ok (inner:list frame) (lp:option nat) : Prop :=
  hasK is_loop inner = true -> nearest is_loop inner = Some (KLoop lp).

Definition fin_of (tl:tailk) : option nat := match tl with TlRepeat c => Some c | _ => None end.

Definition tail_post (tl:tailk) (r:res) : res :=
  match tl, r with
  | TlCase false, (Nrm, x) => (Brk, x)
  | _, r => r
  end.

Definition tail_hyp (tl:tailk) (cur:frame) (ds:list closure) (rin:list rframe) (b:block) : Prop :=
  match tl with
  | TlPlain => True
  | TlRepeat _ => exists k rin', rin = (k, []) :: rin' /\ is_loop k = true
  | TlCase true => True
  | TlCase false => True
  end.

Definition bindN (r:res) (K:st -> res) : res :=
  match r with (Nrm, x1) => K x1 | (o, x1) => (o, x1) end.

Lemma tblock_app : forall a b x, tblock (a ++ b) x = bindN (tblock a x) (tblock b).
Proof.
  unfold tblock, bindN. induction a as [|s a IH]; intros b x; simpl.
  - reflexivity.
  - destruct (texec s x) as [o x1]. destruct o; try reflexivity. apply IH.
Qed.

Lemma tblock_cons : forall s b x,
  tblock (s :: b) x = match texec s x with (Nrm, x1) => tblock b x1 | q => q end.
Proof. reflexivity. Qed.

Lemma tblock_single : forall s x, tblock [s] x = texec s x.
Proof. intros. unfold tblock. simpl. destruct (texec s x) as [o x1]. destruct o; reflexivity. Qed.

Lemma tblock_nil : forall x, tblock [] x = (Nrm, x).
Proof. reflexivity. Qed.

Lemma tblock_deferred : forall ts ds x, Forall2 defer_rel ts ds ->
  tblock (map TDeferred ts) x = run_defers ds Nrm x.
Proof.
  intros ts ds x H. revert x. induction H as [|t g ts ds Hd _ IH]; intro x.
  - reflexivity.
  - cbn [map]. rewrite tblock_cons. cbn [texec]. destruct (Hd x) as [He Hb].
    unfold tblock in He. rewrite He. cbn [run_defers].
    destruct (g x) as [o x1]. simpl in Hb. destruct o; try discriminate; auto.
Qed.

Lemma forall2_benign : forall ts ds, Forall2 defer_rel ts ds -> Forall benign_clo ds.
Proof.
  intros ts ds H. induction H as [|t g ts ds Hd _ IH]; constructor; auto. intro y. apply (Hd y).
Qed.

Lemma close_scope_run : forall f k ds x, frame_rel f (k, ds) ->
  tblock (close_scope f) x = run_defers ds Nrm x.
Proof.
  intros f k ds x (Hk & Hc & Hd). unfold close_scope. rewrite Hc. apply tblock_deferred. exact Hd.
Qed.

Lemma close_upto_run : forall p inner rin x, ctx_rel inner rin ->
  tblock (close_upto p inner) x = run_upto p rin x.
Proof.
  intros p inner rin x H. revert x. induction H as [|f r inner rin Hf _ IH]; intro x.
  - reflexivity.
  - destruct r as [k ds]. cbn [close_upto run_upto]. rewrite tblock_app; unfold bindN.
    rewrite (close_scope_run f k ds x Hf).
    pose proof (run_defers_nrm_benign ds x (forall2_benign _ _ (proj2 (proj2 Hf)))) as Hb.
    destruct (run_defers ds Nrm x) as [o x1]. simpl in Hb.
    destruct Hf as (Hk & _). simpl in Hk. rewrite Hk.
    destruct o; try discriminate; try reflexivity.
    destruct (p k); [reflexivity | apply IH].
Qed.

Lemma close_upto_app : forall p inner outer, hasK p inner = true ->
  close_upto p (inner ++ outer) = close_upto p inner.
Proof.
  intros p inner outer. induction inner as [|f r IH]; intro H; simpl in *.
  - discriminate.
  - destruct (p (fk f)); [reflexivity|]. simpl in H. rewrite IH by exact H. reflexivity.
Qed.

Lemma hasK_app : forall p inner outer, hasK p inner = true -> hasK p (inner ++ outer) = true.
Proof. intros. unfold hasK in *. rewrite existsb_app. rewrite H. reflexivity. Qed.

Lemma close_upscopes_app : forall p inner outer, hasK p inner = true ->
  close_upscopes p (inner ++ outer) = close_upto p inner.
Proof.
  intros. unfold close_upscopes. fold (hasK p (inner ++ outer)).
  rewrite hasK_app by assumption. apply close_upto_app; assumption.
Qed.

Lemma nearest_app : forall p inner outer, hasK p inner = true ->
  nearest p (inner ++ outer) = nearest p inner.
Proof.
  intros p inner outer. induction inner as [|f r IH]; intro H; simpl in *.
  - discriminate.
  - destruct (p (fk f)); [reflexivity|]. simpl in H. apply IH; exact H.
Qed.

Lemma post_benign : forall ctx rt o x, benign o = true -> post ctx rt (o, x) = (o, x).
Proof. intros. unfold post. rewrite H. reflexivity. Qed.

Lemma tconv_not_nrm : forall ctx o, benign o = false -> benign (tconv ctx o) = false.
Proof.
  intros ctx o H. destruct o; simpl in *; try discriminate; try reflexivity.
  destruct (nearest is_loop_or_switch ctx) as [[]|]; reflexivity.
Qed.

Lemma run_upto_benign : forall p rt x, Forall (fun r => Forall benign_clo (snd r)) rt ->
  benign (fst (run_upto p rt x)) = true.
Proof.
  intros p rt. induction rt as [|[k ds] r IH]; intros x H; simpl.
  - reflexivity.
  - inversion H as [|? ? Hd Hr]; subst. simpl in Hd.
    pose proof (run_defers_nrm_benign ds x Hd) as Hb.
    destruct (run_defers ds Nrm x) as [o x1]. simpl in Hb.
    destruct o; try discriminate; simpl; auto.
    destruct (p k); simpl; auto.
Qed.

Lemma ctx_rel_benign : forall inner rin, ctx_rel inner rin ->
  Forall (fun r => Forall benign_clo (snd r)) rin.
Proof.
  intros inner rin H. induction H as [|f r inner rin Hf _ IH]; constructor; auto.
  destruct Hf as (_ & _ & Hd). eapply forall2_benign; eauto.
Qed.

Definition rin_benign (rin:list rframe) : Prop := Forall (fun r => Forall benign_clo (snd r)) rin.

Lemma run_upto_loop_head : forall k rin x, is_loop k = true -> run_upto is_loop ((k, []) :: rin) x = (Nrm, x).
Proof. intros. simpl. rewrite H. reflexivity. Qed.

Lemma run_upto_skip : forall p k rin x, p k = false -> run_upto p ((k, []) :: rin) x = run_upto p rin x.
Proof. intros. simpl. rewrite H. reflexivity. Qed.

(* what a loop body's result looks like on the target side *)
Lemma body_post_cases : forall ctxB ctx rin k o y1,
  is_loop k = true -> rin_benign rin ->
  match o with
  | Nrm | Abort | Fuel => post ctxB ((k, []) :: rin) (o, y1) = (o, y1)
  | Cnt b => post ctxB ((k, []) :: rin) (o, y1) = (Cnt b, y1)
  | Brk | GBrk => exists o', post ctxB ((k, []) :: rin) (o, y1) = (o', y1) /\ (o' = Brk \/ o' = GBrk)
  | Ret _ | InV _ => post ctxB ((k, []) :: rin) (o, y1) = post ctx rin (o, y1) /\
                     (exists y2, post ctx rin (o, y1) = (o, y2) \/ post ctx rin (o, y1) = (Abort, y2)
                                 \/ post ctx rin (o, y1) = (Fuel, y2))
  end.
Proof.
  intros ctxB ctx rin k o y1 Hk Hb.
  destruct o; try reflexivity.
  - (* Brk *) unfold post. cbn [benign catcher]. rewrite run_upto_loop_head by assumption. simpl.
    destruct (nearest is_loop_or_switch ctxB) as [[]|]; eexists; split; try reflexivity; auto.
  - (* GBrk *) unfold post. cbn [benign catcher]. rewrite run_upto_loop_head by assumption. simpl.
    eexists; split; [reflexivity | auto].
  - (* Cnt *) unfold post. cbn [benign catcher]. rewrite run_upto_loop_head by assumption. reflexivity.
  - (* Ret *) unfold post. cbn [benign catcher tconv].
    rewrite run_upto_skip by (destruct k; simpl in *; try discriminate; reflexivity).
    split; [reflexivity|].
    pose proof (run_upto_benign is_func rin y1 Hb) as Hr.
    destruct (run_upto is_func rin y1) as [o2 y2]. simpl in Hr. exists y2.
    destruct o2; try discriminate; simpl; auto.
  - (* InV *) unfold post. cbn [benign catcher tconv].
    rewrite run_upto_skip by (destruct k; simpl in *; try discriminate; reflexivity).
    split; [reflexivity|].
    pose proof (run_upto_benign is_doexpr rin y1 Hb) as Hr.
    destruct (run_upto is_doexpr rin y1) as [o2 y2]. simpl in Hr. exists y2.
    destruct o2; try discriminate; simpl; auto.
Qed.

Lemma while_sim : forall ctxB ctx rin k c tb rb,
  is_loop k = true -> rin_benign rin ->
  (forall y, tb y = post ctxB ((k, []) :: rin) (rb y)) ->
  forall n x, while_loop n c tb x = post ctx rin (while_loop n c rb x).
Proof.
  intros ctxB ctx rin k c tb rb Hk Hb Hbody. induction n as [|n IH]; intro x; cbn [while_loop].
  - reflexivity.
  - destruct (cond c x) as [[v x1]|]; [|reflexivity].
    destruct (truthy v); [|reflexivity].
    rewrite Hbody. destruct (rb x1) as [o y1].
    pose proof (body_post_cases ctxB ctx rin k o y1 Hk Hb) as Hc.
    destruct o.
    + rewrite Hc. apply IH.
    + destruct Hc as (o' & -> & [-> | ->]); reflexivity.
    + destruct Hc as (o' & -> & [-> | ->]); reflexivity.
    + rewrite Hc. apply IH.
    + destruct Hc as (-> & y2 & [H | [H | H]]); rewrite H; reflexivity.
    + destruct Hc as (-> & y2 & [H | [H | H]]); rewrite H; reflexivity.
    + rewrite Hc. reflexivity.
    + rewrite Hc. reflexivity.
Qed.

Lemma for_sim : forall ctxB ctx rin k tb rb,
  is_loop k = true -> rin_benign rin ->
  (forall y, tb y = post ctxB ((k, []) :: rin) (rb y)) ->
  forall n x, for_loop n tb x = post ctx rin (for_loop n rb x).
Proof.
  intros ctxB ctx rin k tb rb Hk Hb Hbody. induction n as [|n IH]; intro x; cbn [for_loop].
  - reflexivity.
  - rewrite Hbody. destruct (rb x) as [o y1].
    pose proof (body_post_cases ctxB ctx rin k o y1 Hk Hb) as Hc.
    destruct o.
    + rewrite Hc. apply IH.
    + destruct Hc as (o' & -> & [-> | ->]); reflexivity.
    + destruct Hc as (o' & -> & [-> | ->]); reflexivity.
    + rewrite Hc. apply IH.
    + destruct Hc as (-> & y2 & [H | [H | H]]); rewrite H; reflexivity.
    + destruct Hc as (-> & y2 & [H | [H | H]]); rewrite H; reflexivity.
    + rewrite Hc. reflexivity.
    + rewrite Hc. reflexivity.
Qed.

Lemma repeat_sim : forall ctxB ctx rin k tb rb,
  is_loop k = true -> rin_benign rin ->
  (forall y, tb y = post ctxB ((k, []) :: rin) (rb y)) ->
  forall n x, repeat_loop n tb x = post ctx rin (repeat_loop n rb x).
Proof.
  intros ctxB ctx rin k tb rb Hk Hb Hbody. induction n as [|n IH]; intro x; cbn [repeat_loop].
  - reflexivity.
  - rewrite Hbody. destruct (rb x) as [o y1].
    pose proof (body_post_cases ctxB ctx rin k o y1 Hk Hb) as Hc.
    destruct o.
    + rewrite Hc. apply IH.
    + destruct Hc as (o' & -> & [-> | ->]); reflexivity.
    + destruct Hc as (o' & -> & [-> | ->]); reflexivity.
    + rewrite Hc. destruct stop; [reflexivity | apply IH].
    + destruct Hc as (-> & y2 & [H | [H | H]]); rewrite H; reflexivity.
    + destruct Hc as (-> & y2 & [H | [H | H]]); rewrite H; reflexivity.
    + rewrite Hc. reflexivity.
    + rewrite Hc. reflexivity.
Qed.

(* ------------------------------------------------------------------ frames that only pass exits on *)
Lemma catcher_block : forall o, catcher o KBlock = false.
Proof. destruct o; reflexivity. Qed.

Lemma tconv_block : forall cur ctx o, fk cur = KBlock -> tconv (cur :: ctx) o = tconv ctx o.
Proof. intros cur ctx o H. destruct o; try reflexivity. simpl. rewrite H. reflexivity. Qed.

Lemma post_block_frame : forall ctx rin cur ds o x1,
  fk cur = KBlock -> Forall benign_clo ds -> benign o = false ->
  post (cur :: ctx) ((KBlock, ds) :: rin) (o, x1) = post ctx rin (run_defers ds o x1).
Proof.
  intros ctx rin cur ds o x1 Hk Hds Ho.
  rewrite (run_defers_benign ds o x1 Hds).
  unfold post at 1. rewrite Ho. cbn [run_upto]. rewrite catcher_block. rewrite tconv_block by assumption.
  pose proof (run_defers_nrm_benign ds x1 Hds) as Hb.
  destruct (run_defers ds Nrm x1) as [o2 x2]. simpl in Hb.
  destruct o2; try discriminate; simpl.
  - unfold post. rewrite Ho. reflexivity.
  - reflexivity.
  - reflexivity.
Qed.

Lemma hasK_cons : forall p f c, hasK p (f :: c) = p (fk f) || hasK p c.
Proof. reflexivity. Qed.

Lemma lp_ok_block : forall cur inner lp, fk cur = KBlock -> lp_ok inner lp -> lp_ok (cur :: inner) lp.
Proof.
  intros cur inner lp Hk H. unfold lp_ok in *. rewrite hasK_cons. rewrite Hk. simpl. rewrite Hk. simpl. exact H.
Qed.

Lemma breakflow_not_nrm : forall lp s x, is_breakflow s = true -> fst (rstmt lp s x) <> Nrm.
Proof.
  intros lp s x H. destruct s; simpl in H; try discriminate H; cbn [rstmt].
  - unfold evalx. simpl. discriminate.
  - simpl. discriminate.
  - unfold continue_res. destruct lp as [c|]; [destruct (cond c x) as [[v x1]|]|]; simpl; discriminate.
  - destruct (evalxs es x) as [vs x1]. simpl. discriminate.
  - simpl. discriminate.
Qed.

Lemma post_nrm_inv : forall ctx rin r x1, post ctx rin r = (Nrm, x1) -> r = (Nrm, x1).
Proof.
  intros ctx rin [o x] x1 H. unfold post in H. destruct (benign o) eqn:E.
  - exact H.
  - exfalso. pose proof (tconv_not_nrm ctx o E) as Ht.
    destruct (run_upto (catcher o) rin x) as [o2 x2].
    destruct o2; simpl in H; try congruence.
    assert (tconv ctx o = Nrm) by congruence. rewrite H0 in Ht. discriminate.
Qed.

Definition flagsL (inner:list frame) := hasK is_loop inner.
Definition flagsD (inner:list frame) := hasK is_doexpr inner.
Definition flagsF (inner:list frame) := hasK is_func inner.

Definition P_stmt (s:stmt) : Prop :=
  (forall inner outer rin lp lastin N x,
     ctx_rel inner rin ->
     wfd_stmt (flagsL inner) (flagsD inner) (flagsF inner) N s = true ->
     lp_ok inner lp ->
     tblock (cstmt (inner ++ outer) lastin s) x = post (inner ++ outer) rin (rstmt lp s x))
  /\
  match s with
  | Defer d body => forall N outer lp x, wfd_block false false false N body = true ->
      tblock (cbody outer (newframe KBlock) body false TlPlain) x = rstmts lp body [] None x
  | _ => True
  end.

Definition P_block (b:block) : Prop :=
  forall cur ds inner outer rin lp tl N x,
    frame_rel cur (KBlock, ds) ->
    ctx_rel inner rin ->
    wfd_block (flagsL inner) (flagsD inner) (flagsF inner) N b = true ->
    lp_ok inner lp ->
    tail_hyp tl cur ds rin b ->
    tblock (cbody (inner ++ outer) cur b false tl) x =
    tail_post tl (post (inner ++ outer) rin (rstmts lp b ds (fin_of tl) x)).

Definition P_cases (cs:cases) : Prop :=
  forall inner outer rin lp N d td v x,
    ctx_rel inner rin ->
    wfd_cases (flagsL inner) (flagsD inner) (flagsF inner) N cs = true ->
    lp_ok inner lp ->
    (forall y, switch_result (tblock td y) =
               switch_result (tail_post (TlCase false) (post (inner ++ outer) rin (d y)))) ->
    switch_result (cases_exec (fun b y => seq_exec texec b y) (fun y => tblock td y)
                              (ccases (inner ++ outer) cs) v x) =
    switch_result (tail_post (TlCase false) (post (inner ++ outer) rin (rcases lp cs d v x))).

Lemma frame_rel_new : frame_rel (newframe KBlock) (KBlock, []).
Proof. repeat split. constructor. Qed.

Lemma frame_rel_empty : forall k, frame_rel (newframe k) (k, []).
Proof. intro k. repeat split. constructor. Qed.

Lemma ctx_rel_cons : forall f r inner rin, frame_rel f r -> ctx_rel inner rin -> ctx_rel (f :: inner) (r :: rin).
Proof. intros. constructor; assumption. Qed.

Definition first_in (b:block) : option nat := match b with BCons (In e) _ => Some e | _ => None end.

Lemma cstmt_doexpr : forall ctx li b,
  cstmt ctx li (DoExpr b) =
  match first_in b with
  | Some e => [TExprDirect e]
  | None => [TStmtExpr (cbody (newframe KDoExpr :: ctx) (newframe KBlock) b false TlPlain)]
  end.
Proof. intros ctx li b. destruct b as [|s0 r0]; [reflexivity | destruct s0; reflexivity]. Qed.

Lemma do_wrap : forall l x, tblock (match l with [] => [] | t :: l0 => [TDo (t :: l0)] end) x = tblock l x.
Proof. intros l x. destruct l; [reflexivity|]. rewrite tblock_single. reflexivity. Qed.

Lemma texec_break_stmt : forall ctx x, texec (break_stmt ctx) x = (tconv ctx Brk, x).
Proof.
  intros. unfold break_stmt, tconv. destruct (nearest is_loop_or_switch ctx) as [[]|]; reflexivity.
Qed.

Lemma after_after_nrm : forall o r, after o r = match r with (Nrm, x1) => (o, x1) | q => q end.
Proof. reflexivity. Qed.

Lemma tail_post_plain : forall r, tail_post TlPlain r = r.
Proof. reflexivity. Qed.

Lemma tail_post_repeat : forall c r, tail_post (TlRepeat c) r = r.
Proof. reflexivity. Qed.

Lemma tail_post_ft : forall r, tail_post (TlCase true) r = r.
Proof. reflexivity. Qed.

(* exits pass through a frame without defers that does not catch them *)
Lemma post_through : forall f k ctx rin r,
  fk f = k -> is_loop k = false -> is_func k = false ->
  (is_doexpr k = true -> forall v x, r <> (InV v, x)) ->
  (is_loop_or_switch k = true -> forall x, r <> (Brk, x)) ->
  post (f :: ctx) ((k, []) :: rin) r = post ctx rin r.
Proof.
  intros f k ctx rin [o x] Hk Hl Hf Hd Hs. unfold post. destruct (benign o) eqn:E; [reflexivity|].
  assert (Hc : catcher o k = false).
  { destruct o; simpl; auto. destruct (is_doexpr k) eqn:Ed; [|reflexivity]. exfalso. exact (Hd eq_refl v x eq_refl). }
  cbn [run_upto run_defers]. rewrite Hc.
  assert (Ht : tconv (f :: ctx) o = tconv ctx o).
  { destruct o; try reflexivity. simpl. rewrite Hk.
    destruct (is_loop_or_switch k) eqn:Es; [|reflexivity]. exfalso. exact (Hs eq_refl x eq_refl). }
  rewrite Ht. reflexivity.
Qed.

Lemma doexpr_sim : forall f ctx rin r,
  fk f = KDoExpr -> rin_benign rin ->
  doexpr_result (post (f :: ctx) ((KDoExpr, []) :: rin) r) = post ctx rin (doexpr_result r).
Proof.
  intros f ctx rin [o x] Hk Hb. unfold post at 1.
  destruct o; cbn [benign doexpr_result catcher]; try reflexivity;
    cbn [run_upto run_defers is_loop is_func is_doexpr];
    try (assert (Ht : forall o, tconv (f :: ctx) o = tconv ctx o)
           by (intro o0; destruct o0; try reflexivity; simpl; rewrite Hk; reflexivity);
         rewrite Ht; unfold post; cbn [benign catcher];
         match goal with |- context [run_upto ?p rin x] =>
           pose proof (run_upto_benign p rin x Hb) as Hr;
           destruct (run_upto p rin x) as [o2 x2]; simpl in Hr;
           destruct o2; try discriminate; simpl; try reflexivity end).
  - (* Brk *) destruct (nearest is_loop_or_switch ctx) as [[]|]; reflexivity.
Qed.

Lemma switch_sim : forall f ctx rin r,
  fk f = KSwitch -> rin_benign rin ->
  switch_result (tail_post (TlCase false) (post (f :: ctx) ((KSwitch, []) :: rin) r)) =
  post ctx rin (relabel_break r).
Proof.
  intros f ctx rin [o x] Hk Hb. unfold post at 1.
  destruct o; cbn [benign relabel_break catcher]; try reflexivity;
    cbn [run_upto run_defers is_loop is_func is_doexpr];
    unfold post; cbn [benign catcher];
    match goal with |- context [run_upto ?p rin x] =>
      pose proof (run_upto_benign p rin x Hb) as Hr;
      destruct (run_upto p rin x) as [o2 x2]; simpl in Hr;
      destruct o2; try discriminate; simpl; try reflexivity end.
  - (* Brk *) rewrite Hk. reflexivity.
Qed.

Definition is_defer_or_close (s:stmt) : bool := match s with Defer _ _ | Close _ => true | _ => false end.

Lemma exit_tail : forall tl (r:res) (K:st -> res), fst r <> Nrm -> bindN r K = tail_post tl r.
Proof.
  intros tl [o x] K H. destruct o; [exfalso; apply H; reflexivity | ..]; destruct tl as [|c|[|]]; reflexivity.
Qed.

Lemma post_exit_not_nrm : forall ctx rin ds o x1, benign o = false -> Forall benign_clo ds ->
  fst (post ctx rin (run_defers ds o x1)) <> Nrm.
Proof.
  intros ctx rin ds o x1 Ho Hds Hq.
  destruct (post ctx rin (run_defers ds o x1)) as [o3 x3] eqn:E3. simpl in Hq. subst o3.
  apply post_nrm_inv in E3. rewrite (run_defers_benign ds o x1 Hds) in E3.
  destruct (run_defers ds Nrm x1) as [o4 x4]. destruct o4; simpl in E3; try discriminate.
  inversion E3; subst. discriminate.
Qed.

Lemma case_exit : forall ft (r:res) K, fst r <> Nrm ->
  switch_result (bindN (tail_post (TlCase ft) r) K) = switch_result (tail_post (TlCase false) r).
Proof.
  intros ft [o x] K H. destruct o; [exfalso; apply H; reflexivity | ..]; destruct ft; reflexivity.
Qed.

Lemma post_exit_not_nrm0 : forall ctx rin o x1, benign o = false -> fst (post ctx rin (o, x1)) <> Nrm.
Proof.
  intros ctx rin o x1 Ho Hq.
  destruct (post ctx rin (o, x1)) as [o3 x3] eqn:E3. simpl in Hq. subst o3.
  apply post_nrm_inv in E3. inversion E3; subst. discriminate.
Qed.

Ltac unf := cbn [cstmt cbody ccases rstmt rstmts rcases wfd_stmt wfd_block wfd_cases] in *.

Lemma flags_loop_frame : forall rc inner,
  flagsL (newframe (KLoop rc) :: inner) = true /\
  flagsD (newframe (KLoop rc) :: inner) = flagsD inner /\
  flagsF (newframe (KLoop rc) :: inner) = flagsF inner.
Proof. intros. repeat split. Qed.

Lemma sim : (forall s, P_stmt s) /\ (forall b, P_block b) /\ (forall cs, P_cases cs).
Proof.
  apply sbc_mutind.
  - (* Emit *) intro k. split; [|exact I]. intros inner outer rin lp lastin N x Hc Hw Hlp. unf.
    rewrite tblock_single. reflexivity.
  - (* Defer *) intros d b IH. split.
    + intros inner outer rin lp lastin N x Hc Hw Hlp. unf. reflexivity.
    + intros N outer lp x Hb.
      pose proof (IH (newframe KBlock) [] [] outer [] lp TlPlain N x frame_rel_new (Forall2_nil _) Hb) as H.
      assert (Hl : lp_ok [] lp) by (unfold lp_ok; simpl; discriminate).
      specialize (H Hl I). cbn [app] in H. rewrite H. rewrite tail_post_plain. cbn [fin_of].
      pose proof (proj1 (proj2 outcomes_allowed) b false false false N lp [] None x Hb (Forall_nil _)) as Ha.
      cbn [allowed_fin] in Ha. apply allowed_none_benign in Ha.
      destruct (rstmts lp b [] None x) as [o x1]. simpl in Ha. apply post_benign. exact Ha.
  - (* Close *) intro ks. split; [|exact I]. intros inner outer rin lp lastin N x Hc Hw Hlp. unf. discriminate.
  - (* Do *) intros b IH. split; [|exact I]. intros inner outer rin lp lastin N x Hc Hw Hlp. unf.
    rewrite do_wrap.
    rewrite (IH (newframe KBlock) [] inner outer rin lp TlPlain N x frame_rel_new Hc Hw Hlp I).
    reflexivity.
  - (* If *) intros c t IHt e IHe. split; [|exact I]. intros inner outer rin lp lastin N x Hc Hw Hlp. unf.
    apply andb_true_iff in Hw as [Ht He].
    rewrite tblock_single. cbn [texec].
    destruct (cond c x) as [[v x1]|]; [|reflexivity].
    destruct (truthy v).
    + exact (IHt (newframe KBlock) [] inner outer rin lp TlPlain N x1 frame_rel_new Hc Ht Hlp I).
    + exact (IHe (newframe KBlock) [] inner outer rin lp TlPlain N x1 frame_rel_new Hc He Hlp I).
  - (* While *) intros c b IH. split; [|exact I]. intros inner outer rin lp lastin N x Hc Hw Hlp. unf.
    rewrite tblock_single. cbn [texec].
    apply (while_sim ((newframe (KLoop None) :: inner) ++ outer) (inner ++ outer) rin (KLoop None)); auto.
    { eapply ctx_rel_benign; eauto. }
    intro y.
    assert (Hc' : ctx_rel (newframe (KLoop None) :: inner) ((KLoop None, []) :: rin))
      by (apply ctx_rel_cons; [apply frame_rel_empty | assumption]).
    assert (Hl : lp_ok (newframe (KLoop None) :: inner) None) by (intro; reflexivity).
    exact (IH (newframe KBlock) [] (newframe (KLoop None) :: inner) outer _ None TlPlain N y frame_rel_new Hc' Hw Hl I).
  - (* Repeat *) intros b IH c. split; [|exact I]. intros inner outer rin lp lastin N x Hc Hw Hlp. unf.
    rewrite tblock_single. cbn [texec].
    apply (repeat_sim ((newframe (KLoop (Some c)) :: inner) ++ outer) (inner ++ outer) rin (KLoop (Some c))); auto.
    { eapply ctx_rel_benign; eauto. }
    intro y.
    assert (Hc' : ctx_rel (newframe (KLoop (Some c)) :: inner) ((KLoop (Some c), []) :: rin))
      by (apply ctx_rel_cons; [apply frame_rel_empty | assumption]).
    assert (Hl : lp_ok (newframe (KLoop (Some c)) :: inner) (Some c)) by (intro; reflexivity).
    assert (Ht : tail_hyp (TlRepeat c) (newframe KBlock) [] ((KLoop (Some c), []) :: rin) b)
      by (exists (KLoop (Some c)), rin; split; reflexivity).
    exact (IH (newframe KBlock) [] (newframe (KLoop (Some c)) :: inner) outer _ (Some c) (TlRepeat c) N y
              frame_rel_new Hc' Hw Hl Ht).
  - (* For *) intros n b IH. split; [|exact I]. intros inner outer rin lp lastin N x Hc Hw Hlp. unf.
    rewrite tblock_single. cbn [texec].
    apply (for_sim ((newframe (KLoop None) :: inner) ++ outer) (inner ++ outer) rin (KLoop None)); auto.
    { eapply ctx_rel_benign; eauto. }
    intro y.
    assert (Hc' : ctx_rel (newframe (KLoop None) :: inner) ((KLoop None, []) :: rin))
      by (apply ctx_rel_cons; [apply frame_rel_empty | assumption]).
    assert (Hl : lp_ok (newframe (KLoop None) :: inner) None) by (intro; reflexivity).
    exact (IH (newframe KBlock) [] (newframe (KLoop None) :: inner) outer _ None TlPlain N y frame_rel_new Hc' Hw Hl I).
  - (* Switch *) intros c cs IHc d IHd. split; [|exact I]. intros inner outer rin lp lastin N x Hc Hw Hlp. unf.
    apply andb_true_iff in Hw as [Hwc Hwd].
    rewrite tblock_single. cbn [texec].
    destruct (cond c x) as [[v x1]|]; [|reflexivity].
    assert (Hc' : ctx_rel (newframe KSwitch :: inner) ((KSwitch, []) :: rin))
      by (apply ctx_rel_cons; [apply frame_rel_empty | assumption]).
    assert (Hl : lp_ok (newframe KSwitch :: inner) lp) by (exact Hlp).
    assert (Hb : rin_benign rin) by (eapply ctx_rel_benign; eauto).
    change (newframe KSwitch :: inner ++ outer) with ((newframe KSwitch :: inner) ++ outer).
    rewrite <- (switch_sim (newframe KSwitch) (inner ++ outer) rin _ eq_refl Hb).
    apply (IHc (newframe KSwitch :: inner) outer ((KSwitch, []) :: rin) lp N); auto.
    intro y. destruct d as [|s0 r0].
    + reflexivity.
    + f_equal.
      exact (IHd (newframe KBlock) [] (newframe KSwitch :: inner) outer _ lp (TlCase false) N y
                 frame_rel_new Hc' Hwd Hl I).
  - (* DoExpr *) intros b IH. split; [|exact I]. intros inner outer rin lp lastin N x Hc Hw Hlp.
    rewrite cstmt_doexpr. cbn [rstmt wfd_stmt] in *.
    destruct (first_in b) as [e|] eqn:E.
    + destruct b as [|s0 r0]; [discriminate|]. destruct s0; try discriminate. simpl in E. inversion E; subst.
      rewrite tblock_single. cbn [texec rstmts rstmt]. unfold evalx. cbn [run_defers doexpr_result]. reflexivity.
    + rewrite tblock_single. cbn [texec].
      assert (Hc' : ctx_rel (newframe KDoExpr :: inner) ((KDoExpr, []) :: rin))
        by (apply ctx_rel_cons; [apply frame_rel_empty | assumption]).
      assert (Hl : lp_ok (newframe KDoExpr :: inner) lp) by (exact Hlp).
      pose proof (IH (newframe KBlock) [] (newframe KDoExpr :: inner) outer _ lp TlPlain N x
                     frame_rel_new Hc' Hw Hl I) as H.
      unfold tblock in H. cbn [app] in H. rewrite H. rewrite tail_post_plain. cbn [fin_of].
      apply doexpr_sim; [reflexivity | eapply ctx_rel_benign; eauto].
  - (* In *) intro e. split; [|exact I]. intros inner outer rin lp lastin N x Hc Hw Hlp. unf.
    rewrite tblock_single. cbn [texec]. unfold evalx.
    rewrite close_upscopes_app by exact Hw.
    rewrite after_cleanup_eq. fold (tblock (close_upto is_doexpr inner) (emit (EvR e) x)).
    rewrite (close_upto_run _ _ _ _ Hc). reflexivity.
  - (* Break *) split; [|exact I]. intros inner outer rin lp lastin N x Hc Hw Hlp. unf.
    rewrite close_upscopes_app by exact Hw.
    rewrite tblock_app; unfold bindN. rewrite (close_upto_run _ _ _ _ Hc).
    unfold post. cbn [benign catcher].
    destruct (run_upto is_loop rin x) as [o2 x2]. destruct o2; try reflexivity.
    rewrite tblock_single. rewrite texec_break_stmt. reflexivity.
  - (* Continue *) split; [|exact I]. intros inner outer rin lp lastin N x Hc Hw Hlp. unf.
    rewrite nearest_app by exact Hw. rewrite (Hlp Hw).
    rewrite close_upscopes_app by exact Hw.
    destruct lp as [c|].
    + rewrite tblock_single. cbn [texec]. unfold continue_res.
      destruct (cond c x) as [[v x1]|]; [|reflexivity].
      rewrite after_cleanup_eq. fold (tblock (close_upto is_loop inner) x1).
      rewrite (close_upto_run _ _ _ _ Hc). reflexivity.
    + rewrite tblock_app; unfold bindN. rewrite (close_upto_run _ _ _ _ Hc).
      unfold continue_res, post. cbn [benign catcher tconv].
      destruct (run_upto is_loop rin x) as [o2 x2]. destruct o2; reflexivity.
  - (* Return *) intro e. split; [|exact I]. intros inner outer rin lp lastin N x Hc Hw Hlp. unf.
    rewrite tblock_single. cbn [texec]. destruct (evalxs e x) as [vs x1].
    rewrite close_upscopes_app by exact Hw.
    rewrite after_cleanup_eq. fold (tblock (close_upto is_func inner) x1).
    rewrite (close_upto_run _ _ _ _ Hc). reflexivity.
  - (* ReturnVoid *) split; [|exact I]. intros inner outer rin lp lastin N x Hc Hw Hlp. unf.
    rewrite close_upscopes_app by exact Hw.
    rewrite tblock_app; unfold bindN. rewrite (close_upto_run _ _ _ _ Hc).
    unfold post. cbn [benign catcher tconv].
    destruct (run_upto is_func rin x) as [o2 x2]. destruct o2; reflexivity.
  - (* FnCall *) intros void b IH. split; [|exact I]. intros inner outer rin lp lastin N x Hc Hw Hlp. unf.
    rewrite tblock_single. cbn [texec].
    assert (Hc' : ctx_rel [newframe KFunc] [(KFunc, [])])
      by (apply ctx_rel_cons; [apply frame_rel_empty | constructor]).
    assert (Hl : lp_ok [newframe KFunc] None) by (intro H; discriminate H).
    pose proof (IH (newframe KBlock) [] [newframe KFunc] [] _ None TlPlain false x
                   frame_rel_new Hc' Hw Hl I) as H.
    unfold tblock in H. cbn [app] in H. rewrite H. rewrite tail_post_plain. cbn [fin_of].
    destruct (rstmts None b [] None x) as [o x1].
    unfold post. destruct o; cbn [benign catcher run_upto run_defers is_loop is_func is_doexpr tconv after call_result];
      try reflexivity.
  - (* BNil *) intros cur ds inner outer rin lp tl N x Hf Hc Hw Hlp Ht. unf.
    pose proof (forall2_benign _ _ (proj2 (proj2 Hf))) as Hds. simpl in Hds.
    destruct tl as [|c|[|]]; cbn [end_code fin_of].
    + rewrite (close_scope_run _ _ _ _ Hf). rewrite tail_post_plain.
      pose proof (run_defers_nrm_benign ds x Hds) as Hb.
      destruct (run_defers ds Nrm x) as [o x1]. simpl in Hb. symmetry. apply post_benign. exact Hb.
    + rewrite tblock_single. cbn [texec]. rewrite tail_post_repeat.
      destruct (cond c x) as [[v x1]|]; [|reflexivity].
      rewrite after_cleanup_eq. fold (tblock (close_scope cur) x1).
      rewrite (close_scope_run _ _ _ _ Hf).
      rewrite (run_defers_benign ds (Cnt (truthy v)) x1 Hds).
      pose proof (run_defers_nrm_benign ds x1 Hds) as Hb.
      destruct (run_defers ds Nrm x1) as [o x2]. simpl in Hb.
      destruct Ht as (k & rin' & -> & Hk).
      destruct o; try discriminate; simpl; try reflexivity.
      unfold post. cbn [benign catcher run_upto run_defers]. rewrite Hk. reflexivity.
    + rewrite (close_scope_run _ _ _ _ Hf). rewrite tail_post_ft.
      pose proof (run_defers_nrm_benign ds x Hds) as Hb.
      destruct (run_defers ds Nrm x) as [o x1]. simpl in Hb. symmetry. apply post_benign. exact Hb.
    + rewrite tblock_app; unfold bindN. rewrite (close_scope_run _ _ _ _ Hf).
      pose proof (run_defers_nrm_benign ds x Hds) as Hb.
      destruct (run_defers ds Nrm x) as [o x1]. simpl in Hb.
      destruct o; try discriminate; reflexivity.
  - (* BCons *) intros s [IHs IHd] r IHr cur ds inner outer rin lp tl N x Hf Hc Hw Hlp Ht.
    cbn [wfd_block] in Hw. apply andb_true_iff in Hw as [Hws Hwr].
    pose proof (forall2_benign _ _ (proj2 (proj2 Hf))) as Hds. simpl in Hds.
    assert (Hkc : fk cur = KBlock) by (exact (proj1 Hf)).
    assert (Hgen : is_defer_or_close s = false ->
      tblock (cstmt ((cur :: inner) ++ outer) (omit_goto r (inner ++ outer)) s ++
              cbody (inner ++ outer) cur r (is_breakflow s) tl) x =
      tail_post tl (post (inner ++ outer) rin
        (match rstmt lp s x with
         | (Nrm, x1) => rstmts lp r ds (fin_of tl) x1
         | (Abort, x1) => (Abort, x1)
         | (Fuel, x1) => (Fuel, x1)
         | (o, x1) => run_defers ds o x1
         end))).
    { intros _. rewrite tblock_app.
      assert (Hc' : ctx_rel (cur :: inner) ((KBlock, ds) :: rin)) by (apply ctx_rel_cons; assumption).
      assert (Hws' : wfd_stmt (flagsL (cur :: inner)) (flagsD (cur :: inner)) (flagsF (cur :: inner)) N s = true).
      { unfold flagsL, flagsD, flagsF. rewrite !hasK_cons. rewrite Hkc. exact Hws. }
      rewrite (IHs (cur :: inner) outer _ lp _ N x Hc' Hws' (lp_ok_block _ _ _ Hkc Hlp)).
      pose proof (breakflow_not_nrm lp s x) as Hbf.
      destruct (rstmt lp s x) as [o x1]. cbn [app].
      destruct (benign o) eqn:Eo.
      - rewrite post_benign by exact Eo. destruct o; try discriminate.
        + destruct (is_breakflow s); [exfalso; apply Hbf; reflexivity|].
          assert (Ht' : tail_hyp tl cur ds rin r).
          { destruct tl as [|c|[|]]; exact Ht. }
          exact (IHr cur ds inner outer rin lp tl N x1 Hf Hc Hwr Hlp Ht').
        + destruct tl as [|c|[|]]; reflexivity.
        + destruct tl as [|c|[|]]; reflexivity.
      - rewrite (post_block_frame (inner ++ outer) rin cur ds o x1 Hkc Hds Eo).
        destruct o; try discriminate;
          (rewrite (exit_tail tl) by (apply post_exit_not_nrm; [reflexivity | exact Hds]); reflexivity). }
    destruct s; try (cbn [cbody rstmts]; apply Hgen; reflexivity).
    + (* Defer *)
      cbn [cbody rstmts]. cbn [wfd_stmt] in Hws. pose proof Hws as Hwb.
      rewrite tblock_cons. cbn [texec].
      apply (IHr (add_defer cur _) (_ :: ds) inner outer rin lp tl N).
      * destruct Hf as (H1 & H2 & H3). repeat split; try assumption.
        cbn [add_defer fdefers snd]. constructor; [|exact H3].
        intro y. rewrite tblock_cons. cbn [texec].
        rewrite (IHd N _ lp _ Hwb). split; [reflexivity|].
        pose proof (proj1 (proj2 outcomes_allowed) b false false false N lp [] None (emit (EvU d) y) Hwb (Forall_nil _)) as Ha.
        cbn [allowed_fin] in Ha. apply allowed_none_benign in Ha. exact Ha.
      * exact Hc.
      * exact Hwr.
      * exact Hlp.
      * destruct tl as [|c|[|]]; exact Ht.
    + (* Close *) cbn [wfd_stmt] in Hws. discriminate.
  - (* CNil *) intros inner outer rin lp N d td v x Hc Hw Hlp Hd. unf. cbn [cases_exec]. apply Hd.
  - (* CCons *) intros b IHb ft r IHr inner outer rin lp N d td v x Hc Hw Hlp Hd. unf.
    apply andb_true_iff in Hw as [Hwb Hwr].
    cbn [cases_exec].
    assert (Hcase :
      switch_result (bindN (seq_exec texec (cbody (inner ++ outer) (newframe KBlock) b false (TlCase ft)) x)
        (fun x1 => cases_exec (fun b0 y => seq_exec texec b0 y) (fun y => tblock td y) (ccases (inner ++ outer) r) None x1)) =
      switch_result (tail_post (TlCase false) (post (inner ++ outer) rin
        (match rstmts lp b [] None x with
         | (Nrm, x1) => if ft then rcases lp r d None x1 else (Nrm, x1)
         | q => q end)))).
    { assert (Ht : tail_hyp (TlCase ft) (newframe KBlock) [] rin b) by (destruct ft; exact I).
      pose proof (IHb (newframe KBlock) [] inner outer rin lp (TlCase ft) N x frame_rel_new Hc Hwb Hlp Ht) as H.
      unfold tblock in H. rewrite H. cbn [fin_of].
      destruct (rstmts lp b [] None x) as [o x1].
      destruct (benign o) eqn:Eo.
      - rewrite post_benign by exact Eo. destruct o; try discriminate.
        + destruct ft.
          * rewrite tail_post_ft. exact (IHr inner outer rin lp N d td None x1 Hc Hwr Hlp Hd).
          * reflexivity.
        + destruct ft; reflexivity.
        + destruct ft; reflexivity.
      - pose proof (post_exit_not_nrm0 (inner ++ outer) rin o x1 Eo) as Hne.
        rewrite (case_exit ft _ _ Hne).
        destruct o; try discriminate; reflexivity. }
    assert (Hcase' : forall (r0:res) K, (let (o, x1) := r0 in match o with Nrm => K x1 | Brk => (Brk, x1) | GBrk => (GBrk, x1)
      | Cnt stop => (Cnt stop, x1) | Ret v0 => (Ret v0, x1) | InV v0 => (InV v0, x1) | Abort => (Abort, x1) | Fuel => (Fuel, x1) end) = bindN r0 K)
      by (intros [o1 y1] K; destruct o1; reflexivity).
    destruct v as [[|k]|]; try (rewrite Hcase'; exact Hcase).
    exact (IHr inner outer rin lp N d td (Some k) x Hc Hwr Hlp Hd).
Qed.

(* ================================================================== <close> desugaring *)
Definition clo_eq (g g':closure) : Prop := forall y, g y = g' y.

Lemma run_defers_ext : forall ds ds' o x, Forall2 clo_eq ds ds' -> run_defers ds o x = run_defers ds' o x.
Proof.
  intros ds ds' o x H. revert o x. induction H as [|g g' ds ds' Hg _ IH]; intros o x; simpl.
  - reflexivity.
  - rewrite (Hg x). destruct (g' x) as [o1 x1]. destruct o1; auto.
Qed.

Lemma while_ext : forall c f g, (forall y, f y = g y) -> forall n x, while_loop n c f x = while_loop n c g x.
Proof.
  intros c f g H. induction n as [|n IH]; intro x; simpl; [reflexivity|].
  destruct (cond c x) as [[v x1]|]; [|reflexivity]. destruct (truthy v); [|reflexivity].
  rewrite H. destruct (g x1) as [o x2]. destruct o; auto.
Qed.

Lemma repeat_ext : forall f g, (forall y, f y = g y) -> forall n x, repeat_loop n f x = repeat_loop n g x.
Proof.
  intros f g H. induction n as [|n IH]; intro x; simpl; [reflexivity|].
  rewrite H. destruct (g x) as [o x2]. destruct o; auto. destruct stop; auto.
Qed.

Lemma for_ext : forall f g, (forall y, f y = g y) -> forall n x, for_loop n f x = for_loop n g x.
Proof.
  intros f g H. induction n as [|n IH]; intro x; simpl; [reflexivity|].
  rewrite H. destruct (g x) as [o x2]. destruct o; auto.
Qed.

Lemma clo_eq_refl : forall ds, Forall2 clo_eq ds ds.
Proof. induction ds; constructor; auto. intro; reflexivity. Qed.

Lemma forall2_app_clo : forall a a' b b', Forall2 clo_eq a a' -> Forall2 clo_eq b b' -> Forall2 clo_eq (a ++ b) (a' ++ b').
Proof. intros a a' b b' H Hb. induction H; simpl; auto. Qed.

Lemma rstmts_ext : forall b lp ds ds' fin x, Forall2 clo_eq ds ds' -> rstmts lp b ds fin x = rstmts lp b ds' fin x.
Proof.
  induction b as [|s r IH]; intros lp ds ds' fin x H.
  - cbn [rstmts]. destruct fin as [c|].
    + destruct (cond c x) as [[v x1]|]; [|reflexivity]. apply run_defers_ext; assumption.
    + apply run_defers_ext; assumption.
  - assert (Hgen : (match rstmt lp s x with
        | (Nrm, x1) => rstmts lp r ds fin x1 | (Abort, x1) => (Abort, x1) | (Fuel, x1) => (Fuel, x1)
        | (o, x1) => run_defers ds o x1 end) =
        (match rstmt lp s x with
        | (Nrm, x1) => rstmts lp r ds' fin x1 | (Abort, x1) => (Abort, x1) | (Fuel, x1) => (Fuel, x1)
        | (o, x1) => run_defers ds' o x1 end)).
    { destruct (rstmt lp s x) as [o x1]. destruct o; auto using run_defers_ext. }
    destruct s; try exact Hgen; cbn [rstmts].
    + apply IH. constructor; [intro; reflexivity | assumption].
    + apply IH. apply forall2_app_clo; [apply clo_eq_refl | assumption].
Qed.

Lemma rcases_ext : forall cs lp d d' v x, (forall y, d y = d' y) -> rcases lp cs d v x = rcases lp cs d' v x.
Proof.
  induction cs as [|b ft r IH]; intros lp d d' v x H; cbn [rcases].
  - apply H.
  - destruct v as [[|k]|]; try (destruct (rstmts lp b [] None x) as [o x1]; destruct o; auto; destruct ft; auto).
Qed.

Lemma close_defers_sem : forall lp ks rest ds fin x,
  rstmts lp (close_defers ks rest) ds fin x = rstmts lp rest (rev (map close_closure ks) ++ ds) fin (reg_all ks x).
Proof.
  intros lp ks rest. induction ks as [|k r IH]; intros ds fin x.
  - reflexivity.
  - cbn [close_defers]. cbn [rstmts].
    change (fun y => rstmts lp BNil [] None (emit (EvU k) y)) with (close_closure k).
    rewrite IH. cbn [map rev]. rewrite <- app_assoc. reflexivity.
Qed.

(* ================================================================== source-level well-formedness *)


Lemma desugar_sem :
  (forall s, (forall L D F N, wf_stmt L D F N s = true -> forall lp x, rstmt lp (desugar_stmt s) x = rstmt lp s x) /\
             match s with
             | Defer _ body => forall L D F N, wf_block L D F N body = true ->
                 forall lp ds fin x, rstmts lp (desugar_block body) ds fin x = rstmts lp body ds fin x
             | _ => True
             end) /\
  (forall b, forall L D F N, wf_block L D F N b = true ->
      forall lp ds fin x, rstmts lp (desugar_block b) ds fin x = rstmts lp b ds fin x) /\
  (forall cs, forall L D F N, wf_cases L D F N cs = true ->
      forall lp d v x, rcases lp (desugar_cases cs) d v x = rcases lp cs d v x).
Proof.
  apply sbc_mutind; try (intros; split; [intros; reflexivity | exact I]).
  - (* Defer *) intros d b IH. split; [intros; reflexivity | exact IH].
  - (* Do *) intros b IH. split; [|exact I]. intros L D F N H lp x. cbn [desugar_stmt rstmt wf_stmt] in *. eapply IH; eauto.
  - (* If *) intros c t IHt e IHe. split; [|exact I]. intros L D F N H lp x. cbn [desugar_stmt rstmt wf_stmt] in *.
    apply andb_true_iff in H as [H1 H2].
    destruct (cond c x) as [[v x1]|]; [|reflexivity]. destruct (truthy v); [eapply IHt | eapply IHe]; eauto.
  - (* While *) intros c b IH. split; [|exact I]. intros L D F N H lp x. cbn [desugar_stmt rstmt wf_stmt] in *.
    apply while_ext. intro y. eapply IH; eauto.
  - (* Repeat *) intros b IH c. split; [|exact I]. intros L D F N H lp x. cbn [desugar_stmt rstmt wf_stmt] in *.
    apply repeat_ext. intro y. eapply IH; eauto.
  - (* For *) intros n b IH. split; [|exact I]. intros L D F N H lp x. cbn [desugar_stmt rstmt wf_stmt] in *.
    apply for_ext. intro y. eapply IH; eauto.
  - (* Switch *) intros c cs IHc d IHd. split; [|exact I]. intros L D F N H lp x. cbn [desugar_stmt rstmt wf_stmt] in *.
    apply andb_true_iff in H as [H1 H2].
    destruct (cond c x) as [[v x1]|]; [|reflexivity]. f_equal.
    rewrite (IHc L D F N H1). apply rcases_ext. intro y. eapply IHd; eauto.
  - (* DoExpr *) intros b IH. split; [|exact I]. intros L D F N H lp x. cbn [desugar_stmt rstmt wf_stmt] in *. f_equal. eapply IH; eauto.
  - (* FnCall *) intros v b IH. split; [|exact I]. intros L D F N H lp x. cbn [desugar_stmt rstmt wf_stmt] in *. f_equal. eapply IH; eauto.
  - (* BNil *) intros; reflexivity.
  - (* BCons *) intros s [IHs IHd] r IHr L D F N H lp ds fin x.
    cbn [wf_block] in H. apply andb_true_iff in H as [Hs Hr].
    assert (Hgen : forall s', rstmt lp s' x = rstmt lp s x ->
       (match rstmt lp s' x with
        | (Nrm, x1) => rstmts lp (desugar_block r) ds fin x1 | (Abort, x1) => (Abort, x1) | (Fuel, x1) => (Fuel, x1)
        | (o, x1) => run_defers ds o x1 end) =
       (match rstmt lp s x with
        | (Nrm, x1) => rstmts lp r ds fin x1 | (Abort, x1) => (Abort, x1) | (Fuel, x1) => (Fuel, x1)
        | (o, x1) => run_defers ds o x1 end)).
    { intros s' ->. destruct (rstmt lp s x) as [o x1]. destruct o; auto. apply (IHr L D F N Hr). }
    destruct s; cbn [desugar_block desugar_stmt];
      try (cbn [rstmts]; apply (Hgen _ (IHs L D F N Hs lp x))).
    + (* Defer *) cbn [rstmts]. rewrite (IHr L D F N Hr). apply rstmts_ext.
      constructor; [|apply clo_eq_refl]. intro y.
      cbn [wf_stmt] in Hs. eapply IHd; eauto.
    + (* Close *) rewrite close_defers_sem. cbn [rstmts].
      unfold close_order. apply (IHr L D F N Hr).
  - (* CNil *) intros; reflexivity.
  - (* CCons *) intros b IHb ft r IHr L D F N H lp d v x. cbn [desugar_cases rcases wf_cases] in *.
    apply andb_true_iff in H as [Hb Hr].
    destruct v as [[|k]|]; try (rewrite (IHb L D F N Hb); destruct (rstmts lp b [] None x) as [o x1]; destruct o; auto;
                                destruct ft; auto; apply (IHr L D F N Hr)).
    apply (IHr L D F N Hr).
Qed.



Lemma wfd_close_defers : forall L D F N ks rest,
  wfd_block L D F N rest = true -> wfd_block L D F N (close_defers ks rest) = true.
Proof. intros L D F N ks rest H. induction ks as [|k r IH]; simpl; auto. Qed.

Lemma wf_desugar :
  (forall s, forall L D F N, wf_stmt L D F N s = true ->
     match s with Close _ => True | _ => wfd_stmt L D F N (desugar_stmt s) = true end) /\
  (forall b, forall L D F N, wf_block L D F N b = true -> wfd_block L D F N (desugar_block b) = true) /\
  (forall cs, forall L D F N, wf_cases L D F N cs = true -> wfd_cases L D F N (desugar_cases cs) = true).
Proof.
  apply sbc_mutind; try (intros; simpl in *; auto; fail).
  - (* If *) intros c t IHt e IHe L D F N H. simpl in *. apply andb_true_iff in H as [H1 H2].
    rewrite IHt, IHe; auto.
  - (* Switch *) intros c cs IHc d IHd L D F N H. simpl in *. apply andb_true_iff in H as [H1 H2].
    rewrite IHc, IHd; auto.
  - (* BCons *) intros s IHs r IHr L D F N H. cbn [wf_block] in H. apply andb_true_iff in H as [H1 H2].
    specialize (IHs L D F N H1). specialize (IHr L D F N H2).
    destruct s; cbn [desugar_block wfd_block]; try (rewrite IHs, IHr; reflexivity).
    (* Close *) apply wfd_close_defers. exact IHr.
  - (* CCons *) intros b IHb ft r IHr L D F N H. simpl in *.
    apply andb_true_iff in H as [H1 H3].
    rewrite IHb, IHr by assumption. reflexivity.
Qed.

(* ================================================================== the property *)
Theorem defer_compile_correct_partial : forall p x, wf_prog p = true ->
  tgt_sem (compile p) x = ref_sem p x.
Proof.
  intros [void body] x H. unfold wf_prog in H. simpl in H.
  unfold tgt_sem, compile, ref_sem. cbn [fst snd].
  pose proof (proj1 (proj2 wf_desugar) body false false true false H) as Hd.
  pose proof (proj1 (proj1 sim (FnCall void (desugar_block body))) [] [] [] None false false x
                (Forall2_nil _) Hd) as Hs.
  assert (Hl : lp_ok [] None) by (intro Hx; discriminate Hx).
  specialize (Hs Hl). cbn [app] in Hs. rewrite Hs.
  cbn [rstmt]. rewrite (proj1 (proj2 desugar_sem) body false false true false H None [] None x).
  destruct (rstmts None body [] None x) as [o x1].
  destruct o; reflexivity.
Qed.

Theorem defer_compile_correct : forall p x, accepted p = true -> tgt_sem (compile p) x = ref_sem p x.
Proof. exact defer_compile_correct_partial. Qed.

Definition st0 (o:list nat) : st := mkst o [].

(* regression witnesses of the repaired defects: the model of the repaired generator agrees with the
   reference semantics on them *)
(* defer A end  defer if c then return end end  emit : no longer accepted (and the `closing` guard of the
   generator would still skip A) *)
Definition witness_escape : prog :=
  (true, BCons (Defer 1 BNil) (BCons (Defer 2 (BCons (If 3 (BCons ReturnVoid BNil) BNil) BNil)) (BCons (Emit 4) BNil))).

Example witness_escape_rejected :
  accepted witness_escape = false /\
  tgt_sem (compile witness_escape) (st0 [1]) <> ref_sem witness_escape (st0 [1]).
Proof. split; [reflexivity|]. vm_compute. discriminate. Qed.

(* local c1 <close>, c2 <close> = late(1), mk(2) *)
Definition witness_close_order : prog :=
  (true, BCons (Close [(1, true); (2, false)]) (BCons (Emit 3) BNil)).

(* defer defer X end end ; if c then return end ; emit : the nested defer is compiled once per emission *)
Definition witness_nested_defer : prog :=
  (true, BCons (Defer 1 (BCons (Defer 2 BNil) BNil)) (BCons (If 3 (BCons ReturnVoid BNil) BNil) (BCons (Emit 4) BNil))).

Example witnesses_agree :
  accepted witness_close_order = true /\ accepted witness_nested_defer = true /\
  tgt_sem (compile witness_close_order) (st0 []) = ref_sem witness_close_order (st0 []) /\
  tgt_sem (compile witness_nested_defer) (st0 [0]) = ref_sem witness_nested_defer (st0 [0]) /\
  tgt_sem (compile witness_nested_defer) (st0 [1]) = ref_sem witness_nested_defer (st0 [1]).
Proof. repeat split. Qed.

(* non-vacuity: a program with loops, switch, defers, close variables satisfies the hypothesis *)
Example wf_example :
  wf_prog (false,
    BCons (Defer 1 (BCons (Emit 2) BNil))
   (BCons (While 3 (BCons (Close [(4,false);(5,true)])
                   (BCons (Switch 6 (CCons (BCons (Defer 7 BNil) (BCons Break BNil)) false
                                     (CCons (BCons Continue BNil) false CNil)) (BCons (Return [8]) BNil))
                    BNil)))
   (BCons (Return [9; 10]) BNil))) = true.
Proof. reflexivity. Qed.
