(* C15 - scope-exit actions (defer blocks, <close> variables).

   Executable model, no proofs.

   * source mini-language [stmt/block/cases] (mutual inductive, arbitrary nesting);
   * reference semantics [rstmt/rstmts/rcases]: big-step, every block keeps the list of the
     defers registered so far (closures, most recent first) and runs them on EVERY way out
     of the block (falling off the end, break, continue, return, in), after the returned
     value has been evaluated; `repeat ... until c` evaluates c before the body's defers;
   * target language [tstmt] = the shape of the emitted C, no defer mechanism;
   * [cstmt/cbody/ccases] = the static stitching done by cgenerator.lua
     (visitors.Block/Return/In/Break/Continue/Defer/Repeat/Switch/Do/DoExpr,
      emit_close_scope, emit_close_upscopes, Scope:add_defer_block);
   * [desugar] = analyzer.lua visit_close (a <close> declaration becomes injected defers).

   Conditions are oracle driven: evaluating condition c appends the event [EvC c] and pops
   the next oracle value; an exhausted oracle aborts the run (outcome [Abort], the harness
   program exits).  The value of an expression is the clock (number of events so far), so a
   value evaluated after the clean-up would be observably different. *)
From Coq Require Import List Bool Arith.
From C15 Require Import Gen.
Import ListNotations.
Local Open Scope list_scope.

(* ---------------------------------------------------------------- events / state *)
Inductive ev :=
| EvE (k:nat)      (* print of Emit k *)
| EvC (c:nat)      (* condition c evaluated *)
| EvR (e:nat)      (* return / in expression e evaluated *)
| EvV (v:nat)      (* the caller / do-expression user received value v *)
| EvG (d:nat)      (* defer d registered (its statement was executed) *)
| EvU (d:nat).     (* deferred block d starts running *)

Record st := mkst { orc : list nat; tr : list ev (* newest first *) }.

Inductive out :=
| Nrm | Brk | GBrk (* break travelling to its loop from inside a switch: C goto breaklabel *)
| Cnt (stop:bool) | Ret (vs:list nat) (* the returned values, evaluated before any clean-up *) | InV (v:nat) | Abort | Fuel.

Definition res := (out * st)%type.

Definition emit (e:ev) (s:st) : st := mkst (orc s) (e :: tr s).

Definition cond (c:nat) (s:st) : option (nat * st) :=
  match orc s with
  | [] => None
  | v :: r => Some (v, mkst r (EvC c :: tr s))
  end.

Definition evalx (e:nat) (s:st) : nat * st := (length (tr s), emit (EvR e) s).

(* the expressions of a `return e1, e2, ...`, left to right *)
Fixpoint evalxs (es:list nat) (s:st) : list nat * st :=
  match es with
  | [] => ([], s)
  | e :: r => let (v, s1) := evalx e s in let (vs, s2) := evalxs r s1 in (v :: vs, s2)
  end.

(* the caller receives the values, first to last *)
Definition emit_vals (vs:list nat) (s:st) : st := fold_left (fun s' v => emit (EvV v) s') vs s.

Definition truthy (v:nat) : bool := negb (v =? 0).

(* ---------------------------------------------------------------- loop combinators
   shared by both semantics; the iteration bound is S (length oracle) for while/repeat
   (every iteration consumes at least one oracle value) - [Fuel] is unreachable. *)
Fixpoint while_loop (n:nat) (c:nat) (body: st -> res) (s:st) : res :=
  match n with
  | 0 => (Fuel, s)
  | S n' =>
    match cond c s with
    | None => (Abort, s)
    | Some (v, s1) =>
      if truthy v then
        match body s1 with
        | (Nrm, s2) | (Cnt _, s2) => while_loop n' c body s2
        | (Brk, s2) | (GBrk, s2) => (Nrm, s2)
        | r => r
        end
      else (Nrm, s1)
    end
  end.

Fixpoint repeat_loop (n:nat) (body: st -> res) (s:st) : res :=
  match n with
  | 0 => (Fuel, s)
  | S n' =>
    match body s with
    | (Cnt true, s1) => (Nrm, s1)
    | (Cnt false, s1) | (Nrm, s1) => repeat_loop n' body s1
    | (Brk, s1) | (GBrk, s1) => (Nrm, s1)
    | r => r
    end
  end.

Fixpoint for_loop (n:nat) (body: st -> res) (s:st) : res :=
  match n with
  | 0 => (Nrm, s)
  | S n' =>
    match body s with
    | (Nrm, s1) | (Cnt _, s1) => for_loop n' body s1
    | (Brk, s1) | (GBrk, s1) => (Nrm, s1)
    | r => r
    end
  end.

(* ---------------------------------------------------------------- source language *)
Inductive stmt :=
| Emit (k:nat)
| Defer (d:nat) (b:block)          (* print G d; defer print U d; b end *)
| Close (ks:list (nat * bool))     (* local c_k1 <close>, ... = mk(k1), ...   (k, late): the type of the
                                      initialiser is only known in a later resolution pass *)
| Do (b:block)
| If (c:nat) (t e:block)
| While (c:nat) (b:block)
| Repeat (b:block) (c:nat)
| For (n:nat) (b:block)
| Switch (c:nat) (cs:cases) (d:block)   (* d = BNil : no else *)
| DoExpr (b:block)                 (* pv((do b end)) *)
| In (e:nat)
| Break
| Continue
| Return (es:list nat)             (* return e1, ..., en  (n >= 2: the _mulret path of visitors.Return) *)
| ReturnVoid
| FnCall (void:bool) (b:block)     (* call of a function whose body is b *)
with block := BNil | BCons (s:stmt) (b:block)
with cases := CNil | CCons (b:block) (ft:bool) (cs:cases).   (* ft: block ends in `fallthrough` *)

(* ---------------------------------------------------------------- reference semantics *)
Definition closure := st -> res.

Fixpoint run_defers (ds:list closure) (o:out) (s:st) : res :=
  match ds with
  | [] => (o, s)
  | g :: r =>
    match g s with
    | (Nrm, s1) => run_defers r o s1
    | (Abort, s1) => (Abort, s1)
    | (Fuel, s1) => (Fuel, s1)
    | (o', s1) => run_defers r o' s1      (* leaving a deferred block abruptly replaces the pending exit *)
    end
  end.

Definition close_closure (k:nat) : closure := fun s => (Nrm, emit (EvU k) s).

Definition reg_all (ks:list nat) (s:st) : st := fold_left (fun s' k => emit (EvG k) s') ks s.

Definition call_result (void:bool) (r:res) : res :=
  match r with
  | (Ret vs, s1) => (Nrm, if void then s1 else emit_vals vs s1)
  | (Abort, s1) => (Abort, s1)
  | (Fuel, s1) => (Fuel, s1)
  | (_, s1) => (Nrm, if void then s1 else emit (EvV 0) s1)
  end.

Definition doexpr_result (r:res) : res :=
  match r with
  | (InV v, s1) => (Nrm, emit (EvV v) s1)
  | (Nrm, s1) => (Nrm, emit (EvV 0) s1)
  | r => r
  end.

(* a `break` that leaves a switch on its way to the loop is tagged GBrk (in C it has to be a goto);
   no construct of the reference semantics distinguishes Brk from GBrk *)
Definition relabel_break (r:res) : res :=
  match r with (Brk, x1) => (GBrk, x1) | q => q end.

Definition continue_res (lp:option nat) (s:st) : res :=
  match lp with
  | None => (Cnt false, s)
  | Some c => match cond c s with None => (Abort, s) | Some (v, s1) => (Cnt (truthy v), s1) end
  end.

(* lp = Some c when the nearest enclosing loop is `repeat ... until c` (a `continue` then
   evaluates c first); fin = Some c for the body block of that repeat loop *)
Fixpoint rstmt (lp:option nat) (s:stmt) (x:st) {struct s} : res :=
  match s with
  | Emit k => (Nrm, emit (EvE k) x)
  | Defer _ _ => (Nrm, x)
  | Close _ => (Nrm, x)
  | Do b => rstmts lp b [] None x
  | If c t e =>
    match cond c x with
    | None => (Abort, x)
    | Some (v, x1) => if truthy v then rstmts lp t [] None x1 else rstmts lp e [] None x1
    end
  | While c b => while_loop (S (length (orc x))) c (fun y => rstmts None b [] None y) x
  | Repeat b c => repeat_loop (S (length (orc x))) (fun y => rstmts (Some c) b [] (Some c) y) x
  | For n b => for_loop n (fun y => rstmts None b [] None y) x
  | Switch c cs d =>
    match cond c x with
    | None => (Abort, x)
    | Some (v, x1) => relabel_break (rcases lp cs (fun y => rstmts lp d [] None y) (Some v) x1)
    end
  | DoExpr b => doexpr_result (rstmts lp b [] None x)
  | In e => let (v, x1) := evalx e x in (InV v, x1)
  | Break => (Brk, x)
  | Continue => continue_res lp x
  | Return es => let (vs, x1) := evalxs es x in (Ret vs, x1)
  | ReturnVoid => (Ret [], x)
  | FnCall void b => call_result void (rstmts None b [] None x)
  end
with rstmts (lp:option nat) (b:block) (ds:list closure) (fin:option nat) (x:st) {struct b} : res :=
  match b with
  | BNil =>
    match fin with
    | None => run_defers ds Nrm x
    | Some c =>
      match cond c x with
      | None => (Abort, x)
      | Some (v, x1) => run_defers ds (Cnt (truthy v)) x1
      end
    end
  | BCons s rest =>
    match s with
    | Defer d body =>
      rstmts lp rest ((fun y => rstmts lp body [] None (emit (EvU d) y)) :: ds) fin (emit (EvG d) x)
    | Close ks =>
      rstmts lp rest (rev (map close_closure (map fst ks)) ++ ds) fin (reg_all (map fst ks) x)
    | _ =>
      match rstmt lp s x with
      | (Nrm, x1) => rstmts lp rest ds fin x1
      | (Abort, x1) => (Abort, x1)
      | (Fuel, x1) => (Fuel, x1)
      | (o, x1) => run_defers ds o x1
      end
    end
  end
with rcases (lp:option nat) (cs:cases) (d:closure) (v:option nat) (x:st) {struct cs} : res :=
  match cs with
  | CNil => d x
  | CCons b ft rest =>
    match v with
    | Some (S k) => rcases lp rest d (Some k) x
    | _ =>
      match rstmts lp b [] None x with
      | (Nrm, x1) => if ft then rcases lp rest d None x1 else (Nrm, x1)
      | r => r
      end
    end
  end.

Definition prog := (bool * block)%type.      (* (void?, body of the test function) *)

Definition ref_sem (p:prog) (x:st) : res := rstmt None (FnCall (fst p) (snd p)) x.

(* ---------------------------------------------------------------- target language *)
Inductive tstmt :=
| TEmit (k:nat) | TReg (d:nat) | TRun (d:nat)
| TDo (b:list tstmt)
| TDeferred (b:list tstmt)                 (* { /* defer */ ... } *)
| TIf (c:nat) (t e:list tstmt)
| TWhile (c:nat) (b:list tstmt)
| TRepeat (b:list tstmt)                   (* do { b } while(!_repeat_stop) *)
| TUntil (c:nat) (cl:list tstmt)           (* _repeat_stop = c; cl   (end of the repeat body) *)
| TFor (n:nat) (b:list tstmt)
| TSwitch (c:nat) (cs:list (list tstmt)) (d:list tstmt)
| TStmtExpr (b:list tstmt)                 (* ({ T _expr; b; _expr; }) *)
| TExprDirect (e:nat)                      (* do-expression starting with `in e` *)
| TIn (e:nat) (cl:list tstmt) (needgoto:bool)   (* _expr = e; cl; [goto label] *)
| TBreak | TGotoBreak | TContinue
| TContinueR (c:nat) (cl:list tstmt)       (* _repeat_stop = c; cl; continue *)
| TReturn (es:list nat) (cl:list tstmt)    (* T _ret = e; cl; return _ret  /  S _mulret; _mulret.r1 = e1; ...; cl; return _mulret *)
| TReturnVoid
| TCall (void:bool) (b:list tstmt).

Section Combinators.
  Context {A:Type} (f:A -> st -> res).
  Fixpoint seq_exec (l:list A) (x:st) : res :=
    match l with
    | [] => (Nrm, x)
    | a :: r => match f a x with (Nrm, x1) => seq_exec r x1 | q => q end
    end.

  (* C switch: jump to case v (default when v is out of range), then run on through the
     following case blocks until a break *)
  Context (fd:st -> res).
  Fixpoint cases_exec (l:list A) (v:option nat) (x:st) : res :=
    match l with
    | [] => fd x
    | b :: r =>
      match v with
      | Some (S k) => cases_exec r (Some k) x
      | _ => match f b x with (Nrm, x1) => cases_exec r None x1 | q => q end
      end
    end.
End Combinators.

Definition after_cleanup (o:out) (r:res) : res :=
  match r with (Nrm, x1) => (o, x1) | q => q end.

Definition switch_result (r:res) : res :=
  match r with (Brk, x1) => (Nrm, x1) | q => q end.

Fixpoint texec (s:tstmt) (x:st) {struct s} : res :=
  match s with
  | TEmit k => (Nrm, emit (EvE k) x)
  | TReg d => (Nrm, emit (EvG d) x)
  | TRun d => (Nrm, emit (EvU d) x)
  | TDo b => seq_exec texec b x
  | TDeferred b => seq_exec texec b x
  | TIf c t e =>
    match cond c x with
    | None => (Abort, x)
    | Some (v, x1) => if truthy v then seq_exec texec t x1 else seq_exec texec e x1
    end
  | TWhile c b => while_loop (S (length (orc x))) c (fun y => seq_exec texec b y) x
  | TRepeat b => repeat_loop (S (length (orc x))) (fun y => seq_exec texec b y) x
  | TUntil c cl =>
    match cond c x with
    | None => (Abort, x)
    | Some (v, x1) => after_cleanup (Cnt (truthy v)) (seq_exec texec cl x1)
    end
  | TFor n b => for_loop n (fun y => seq_exec texec b y) x
  | TSwitch c cs d =>
    match cond c x with
    | None => (Abort, x)
    | Some (v, x1) =>
      switch_result (cases_exec (fun b y => seq_exec texec b y) (fun y => seq_exec texec d y) cs (Some v) x1)
    end
  | TStmtExpr b => doexpr_result (seq_exec texec b x)
  | TExprDirect e => let (v, x1) := evalx e x in (Nrm, emit (EvV v) x1)
  | TIn e cl _ => let (v, x1) := evalx e x in after_cleanup (InV v) (seq_exec texec cl x1)
  | TBreak => (Brk, x)
  | TGotoBreak => (GBrk, x)
  | TContinue => (Cnt false, x)
  | TContinueR c cl =>
    match cond c x with
    | None => (Abort, x)
    | Some (v, x1) => after_cleanup (Cnt (truthy v)) (seq_exec texec cl x1)
    end
  | TReturn es cl => let (vs, x1) := evalxs es x in after_cleanup (Ret vs) (seq_exec texec cl x1)
  | TReturnVoid => (Ret [], x)
  | TCall void b => call_result void (seq_exec texec b x)
  end.

Definition tblock (b:list tstmt) (x:st) : res := seq_exec texec b x.

(* ---------------------------------------------------------------- the generator's stitching *)
Inductive fkind := KBlock | KLoop (rc:option nat) | KSwitch | KFunc | KDoExpr.

Record frame := mkframe { fk : fkind; fdefers : list (list tstmt) (* newest first *); fclosing : bool }.

Definition newframe (k:fkind) : frame := mkframe k [] false.
Definition add_defer (f:frame) (t:list tstmt) : frame := mkframe (fk f) (t :: fdefers f) (fclosing f).
Definition set_closing (f:frame) : frame := mkframe (fk f) (fdefers f) true.

Definition is_loop (k:fkind) := match k with KLoop _ => true | _ => false end.
Definition is_func (k:fkind) := match k with KFunc => true | _ => false end.
Definition is_doexpr (k:fkind) := match k with KDoExpr => true | _ => false end.
Definition is_loop_or_switch (k:fkind) := match k with KLoop _ | KSwitch => true | _ => false end.

(* cgenerator.emit_close_scope: registered defers, newest first, unless the scope is being closed *)
Definition close_scope (f:frame) : list tstmt :=
  if fclosing f then [] else map TDeferred (fdefers f).

Fixpoint close_upto (p:fkind -> bool) (ctx:list frame) : list tstmt :=
  match ctx with
  | [] => []
  | f :: r => close_scope f ++ (if p (fk f) then [] else close_upto p r)
  end.

(* cgenerator.emit_close_upscopes(scope, topscope): topscope = nil closes only the current scope *)
Definition close_upscopes (p:fkind -> bool) (ctx:list frame) : list tstmt :=
  if existsb (fun f => p (fk f)) ctx then close_upto p ctx
  else match ctx with [] => [] | f :: _ => close_scope f end.

Fixpoint nearest (p:fkind -> bool) (ctx:list frame) : option fkind :=
  match ctx with
  | [] => None
  | f :: r => if p (fk f) then Some (fk f) else nearest p r
  end.

Definition is_breakflow (s:stmt) : bool :=
  match s with Return _ | ReturnVoid | In _ | Break | Continue => true | _ => false end.

Inductive tailk := TlPlain | TlRepeat (c:nat) | TlCase (ft:bool).

(* what visitors.Block (and visitors.Switch for case blocks) emit after the last statement *)
Definition end_code (tl:tailk) (cur:frame) (lastbf:bool) : list tstmt :=
  match tl with
  | TlPlain => if lastbf then [] else close_scope cur
  | TlRepeat c => [TUntil c (if lastbf then [] else close_scope cur)]
  | TlCase true => close_scope cur       (* `fallthrough`: visitors.Fallthrough closes the case scope, then falls into the next case; no break *)
  | TlCase false => if lastbf then [] else close_scope cur ++ [TBreak]
  end.

Definition head_is_doexpr (ctx:list frame) : bool :=
  match ctx with f :: _ => is_doexpr (fk f) | [] => false end.

Definition is_bnil (b:block) : bool := match b with BNil => true | _ => false end.

(* visitors.In: the goto is omitted only when the `in` is the last statement (nothing follows: rest = BNil)
   of the block that is directly the do-expression's body; the rule is the scraped one - if visitors.In
   stops matching it the model no longer vouches for any placement *)
Definition omit_goto (rest:block) (ctx:list frame) : bool :=
  if gen_in_goto_omitted_only_for_last_statement_of_doexpr_block
  then is_bnil rest && head_is_doexpr ctx else true.

Definition break_stmt (ctx:list frame) : tstmt :=
  match nearest is_loop_or_switch ctx with Some KSwitch => TGotoBreak | _ => TBreak end.

(* [lastin]: the statement is the last one of a block that is directly a do-expression body *)
Fixpoint cstmt (ctx:list frame) (lastin:bool) (s:stmt) {struct s} : list tstmt :=
  match s with
  | Emit k => [TEmit k]
  | Defer _ _ => []
  | Close _ => []
  | Do b => match cbody ctx (newframe KBlock) b false TlPlain with [] => [] | l => [TDo l] end
  | If c t e => [TIf c (cbody ctx (newframe KBlock) t false TlPlain) (cbody ctx (newframe KBlock) e false TlPlain)]
  | While c b => [TWhile c (cbody (newframe (KLoop None) :: ctx) (newframe KBlock) b false TlPlain)]
  | Repeat b c => [TRepeat (cbody (newframe (KLoop (Some c)) :: ctx) (newframe KBlock) b false (TlRepeat c))]
  | For n b => [TFor n (cbody (newframe (KLoop None) :: ctx) (newframe KBlock) b false TlPlain)]
  | Switch c cs d =>
    [TSwitch c (ccases (newframe KSwitch :: ctx) cs)
       (match d with
        | BNil => []
        | _ => cbody (newframe KSwitch :: ctx) (newframe KBlock) d false (TlCase false)
        end)]
  | DoExpr b =>
    match b with
    | BCons (In e) _ => [TExprDirect e]
    | _ => [TStmtExpr (cbody (newframe KDoExpr :: ctx) (newframe KBlock) b false TlPlain)]
    end
  | In e => [TIn e (close_upscopes is_doexpr ctx) (negb lastin)]
  | Break => close_upscopes is_loop ctx ++ [break_stmt ctx]
  | Continue =>
    match nearest is_loop ctx with
    | Some (KLoop (Some c)) => [TContinueR c (close_upscopes is_loop ctx)]
    | _ => close_upscopes is_loop ctx ++ [TContinue]
    end
  | Return es => [TReturn es (close_upscopes is_func ctx)]
  | ReturnVoid => close_upscopes is_func ctx ++ [TReturnVoid]
  | FnCall void b => [TCall void (cbody [newframe KFunc] (newframe KBlock) b false TlPlain)]
  end
with cbody (ctx:list frame) (cur:frame) (b:block) (lastbf:bool) (tl:tailk) {struct b} : list tstmt :=
  match b with
  | BNil => end_code tl cur lastbf
  | BCons s rest =>
    match s with
    | Defer d body =>
      (* Scope:add_defer_block; the block is emitted later by emit_close_scope with
         context.scope = the registering scope, which is then marked `closing` *)
      TReg d :: cbody ctx (add_defer cur (TRun d :: cbody (set_closing cur :: ctx) (newframe KBlock) body false TlPlain))
                  rest false tl
    | _ => cstmt (cur :: ctx) (omit_goto rest ctx) s ++ cbody ctx cur rest (is_breakflow s) tl
    end
  end
with ccases (ctx:list frame) (cs:cases) {struct cs} : list (list tstmt) :=
  match cs with
  | CNil => []
  | CCons b ft r => cbody ctx (newframe KBlock) b false (TlCase ft) :: ccases ctx r
  end.

(* ---------------------------------------------------------------- <close> desugaring (visit_close) *)
(* visit_close runs for a variable when its type is known (possibly in a later resolution pass, flag
   `late`) and inserts its defer after the declaration and after the already injected defers of the EARLIER
   variables of the declaration: whatever the resolution order, the injected defers follow the
   declaration order *)
Definition close_order (ks:list (nat * bool)) : list nat := map fst ks.

Fixpoint close_defers (ks:list nat) (rest:block) : block :=
  match ks with
  | [] => rest
  | k :: r => BCons (Defer k BNil) (close_defers r rest)
  end.

Fixpoint desugar_stmt (s:stmt) : stmt :=
  match s with
  | Defer d b => Defer d (desugar_block b)
  | Do b => Do (desugar_block b)
  | If c t e => If c (desugar_block t) (desugar_block e)
  | While c b => While c (desugar_block b)
  | Repeat b c => Repeat (desugar_block b) c
  | For n b => For n (desugar_block b)
  | Switch c cs d => Switch c (desugar_cases cs) (desugar_block d)
  | DoExpr b => DoExpr (desugar_block b)
  | FnCall v b => FnCall v (desugar_block b)
  | s => s
  end
with desugar_block (b:block) : block :=
  match b with
  | BNil => BNil
  | BCons s rest =>
    match s with
    | Close ks => close_defers (close_order ks) (desugar_block rest)
    | _ => BCons (desugar_stmt s) (desugar_block rest)
    end
  end
with desugar_cases (cs:cases) : cases :=
  match cs with
  | CNil => CNil
  | CCons b ft r => CCons (desugar_block b) ft (desugar_cases r)
  end.

Definition compile (p:prog) : list tstmt := cstmt [] false (FnCall (fst p) (desugar_block (snd p))).

Definition tgt_sem (t:list tstmt) (x:st) : res := tblock t x.

(* ================================================================== statement-level predicates of Properties.v *)
(* Placement rules of the mini-language.  L: inside a loop of the same function (break/continue allowed);
   D: inside a do-expression (`in` allowed); F: `return` allowed (not inside a deferred block); N is inert.
   A deferred block starts with L = D = F = false: no return/break/continue/in may leave it. *)
Fixpoint wf_stmt (L D F N:bool) (s:stmt) {struct s} : bool :=
  match s with
  | Emit _ => true
  | Defer _ b => wf_block false false false N b
  | Close _ => true
  | Do b => wf_block L D F N b
  | If _ t e => wf_block L D F N t && wf_block L D F N e
  | While _ b => wf_block true D F N b
  | Repeat b _ => wf_block true D F N b
  | For _ b => wf_block true D F N b
  | Switch _ cs d => wf_cases L D F N cs && wf_block L D F N d
  | DoExpr b => wf_block L true F N b
  | In _ => D
  | Break | Continue => L
  | Return _ | ReturnVoid => F
  | FnCall _ b => wf_block false false true false b
  end
with wf_block (L D F N:bool) (b:block) {struct b} : bool :=
  match b with
  | BNil => true
  | BCons s r => wf_stmt L D F N s && wf_block L D F N r
  end
with wf_cases (L D F N:bool) (cs:cases) {struct cs} : bool :=
  match cs with
  | CNil => true
  | CCons b ft r => wf_block L D F N b && wf_cases L D F N r
  end.

Definition wf_prog (p:prog) : bool := wf_block false false true false (snd p).

(* what the analyzer accepts of the mini-language (tied to `nelua --analyze` by the boundary stream of the check,
   not by a theorem) *)
Definition accepted (p:prog) : bool := wf_prog p.

(* the registration / run discipline over a chronological trace: G d pushes d, U d must find d on top and pops it;
   a failure is a deferred block that runs although it is not the most recently registered pending one *)
Fixpoint stack_run (evs:list ev) (s:list nat) : option (list nat) :=
  match evs with
  | [] => Some s
  | EvG d :: r => stack_run r (d :: s)
  | EvU d :: r => match s with
                  | d' :: s' => if Nat.eqb d d' then stack_run r s' else None
                  | [] => None
                  end
  | _ :: r => stack_run r s
  end.


Definition run_discipline (x:st) (r:res) : Prop :=
  exists new s', tr (snd r) = new ++ tr x /\ stack_run (rev new) [] = Some s' /\ (fst r = Nrm -> s' = []).

(* a goto-less `in` ([TIn e cl false]) occurs only as the LAST statement of the body of its do-expression
   (control then falls from the `in` to the end of the do-expression); statement of C15_in_goto_placement *)
Fixpoint nf (s:tstmt) : bool :=
  match s with
  | TDo b | TDeferred b | TWhile _ b | TRepeat b | TFor _ b | TCall _ b => forallb nf b
  | TIf _ t e => forallb nf t && forallb nf e
  | TUntil _ cl | TContinueR _ cl | TReturn _ cl => forallb nf cl
  | TSwitch _ cs d => forallb (fun b => forallb nf b) cs && forallb nf d
  | TStmtExpr b =>
    (fix body (l:list tstmt) : bool :=
       match l with
       | [] => true
       | [TIn _ cl false] => forallb nf cl          (* the only place where the goto may be missing *)
       | x :: r => nf x && body r
       end) b
  | TIn _ cl needgoto => needgoto && forallb nf cl
  | _ => true
  end.

