(* C15: where the generator may omit the `goto <doexprlabel>` of an `in` statement.
   [TIn e cl false] (no goto) relies on control falling from the `in` to the end of the do-expression: that
   is only sound when the `in` is the LAST statement of the do-expression's own block.  [nf] says that a
   compiled program contains a goto-less `in` nowhere else; it holds of every output of the model compiler
   (and would be false for a rule omitting the goto at every tail position, e.g. inside a trailing if). *)
From Coq Require Import List Bool Arith Lia.
From C15 Require Import Gen Model Proofs.
Import ListNotations.
Local Open Scope list_scope.

Definition nf_body (l:list tstmt) : bool := nf (TStmtExpr l).

Lemma nf_body_of_all : forall l, forallb nf l = true -> nf_body l = true.
Proof.
  unfold nf_body. induction l as [|x r IH]; intro H; cbn [nf]; [reflexivity|].
  cbn [forallb] in H. apply andb_true_iff in H as [Hx Hr].
  destruct r as [|y r'].
  - destruct x; try (cbn [nf] in *; rewrite ?Hx; reflexivity).
    destruct needgoto; cbn [nf andb] in *; [rewrite Hx; reflexivity | discriminate].
  - cbn [nf] in IH. destruct x; try (rewrite Hx; cbn [andb]; apply IH; exact Hr).
    destruct needgoto; [rewrite Hx; cbn [andb]; apply IH; exact Hr | cbn [nf andb] in Hx; discriminate].
Qed.

Lemma nf_body_app_all : forall a b, forallb nf a = true -> nf_body b = true -> nf_body (a ++ b) = true.
Proof.
  unfold nf_body. induction a as [|x r IH]; intros b Ha Hb; [exact Hb|].
  cbn [forallb] in Ha. apply andb_true_iff in Ha as [Hx Hr]. cbn [app].
  specialize (IH b Hr Hb). cbn [nf] in *.
  destruct (r ++ b) as [|y t] eqn:E.
  - destruct r; [|discriminate]. destruct b; [|discriminate].
    destruct x; try (rewrite ?Hx; reflexivity).
    destruct needgoto; cbn [nf andb] in *; [rewrite Hx; reflexivity | discriminate].
  - destruct x; try (rewrite Hx; exact IH).
    destruct needgoto; [rewrite Hx; exact IH | cbn [nf andb] in Hx; discriminate].
Qed.

Definition frames_nf (ctx:list frame) : Prop := Forall (fun f => forallb (fun b => forallb nf b) (fdefers f) = true) ctx.

Lemma close_scope_nf : forall f, forallb (fun b => forallb nf b) (fdefers f) = true -> forallb nf (close_scope f) = true.
Proof.
  intros f H. unfold close_scope. destruct (fclosing f); [reflexivity|].
  induction (fdefers f) as [|b r IH]; [reflexivity|]. cbn [forallb map] in *.
  apply andb_true_iff in H as [H1 H2]. cbn [nf]. rewrite H1. apply IH. exact H2.
Qed.

Lemma close_upto_nf : forall p ctx, frames_nf ctx -> forallb nf (close_upto p ctx) = true.
Proof.
  intros p ctx H. induction H as [|f r Hf _ IH]; [reflexivity|]. cbn [close_upto].
  rewrite forallb_app. rewrite (close_scope_nf f Hf). destruct (p (fk f)); [reflexivity | exact IH].
Qed.

Lemma close_upscopes_nf : forall p ctx, frames_nf ctx -> forallb nf (close_upscopes p ctx) = true.
Proof.
  intros p ctx H. unfold close_upscopes. destruct (existsb _ ctx); [apply close_upto_nf; exact H|].
  destruct ctx as [|f r]; [reflexivity|]. inversion H; subst. apply close_scope_nf. assumption.
Qed.

Lemma gen_in_goto_rule : gen_in_goto_omitted_only_for_last_statement_of_doexpr_block = true.
Proof. reflexivity. Qed.

Lemma omit_goto_spec : forall rest ctx, omit_goto rest ctx = is_bnil rest && head_is_doexpr ctx.
Proof. intros. unfold omit_goto. rewrite gen_in_goto_rule. reflexivity. Qed.

Definition is_in (s:stmt) : bool := match s with In _ => true | _ => false end.

Lemma cstmt_lastin_irrelevant : forall ctx a b s, is_in s = false -> cstmt ctx a s = cstmt ctx b s.
Proof. intros ctx a b s H. destruct s; try reflexivity. discriminate. Qed.

Definition nf_tail (doexpr:bool) (l:list tstmt) : bool := if doexpr then nf_body l else forallb nf l.

Lemma nf_tail_of_all : forall d l, forallb nf l = true -> nf_tail d l = true.
Proof. intros [|] l H; [apply nf_body_of_all; exact H | exact H]. Qed.

Lemma nf_tail_app : forall d a b, forallb nf a = true -> nf_tail d b = true -> nf_tail d (a ++ b) = true.
Proof.
  intros [|] a b Ha Hb; cbn [nf_tail] in *; [apply nf_body_app_all; assumption|].
  rewrite forallb_app, Ha, Hb. reflexivity.
Qed.

Definition frame_nf (f:frame) : Prop := forallb (fun b => forallb nf b) (fdefers f) = true.

Lemma frames_nf_cons : forall f ctx, frame_nf f -> frames_nf ctx -> frames_nf (f :: ctx).
Proof. intros. constructor; assumption. Qed.

Lemma newframe_nf : forall k, frame_nf (newframe k).
Proof. reflexivity. Qed.

Lemma placement :
  (forall s, (forall ctx, frames_nf ctx -> head_is_doexpr ctx = false -> forallb nf (cstmt ctx false s) = true) /\
             match s with
             | Defer _ body => forall ctx, frames_nf ctx -> head_is_doexpr ctx = false ->
                               forallb nf (cbody ctx (newframe KBlock) body false TlPlain) = true
             | _ => True
             end) /\
  (forall b, forall ctx cur lastbf tl, frames_nf ctx -> frame_nf cur -> fk cur = KBlock ->
      (head_is_doexpr ctx = true -> tl = TlPlain) ->
      nf_tail (head_is_doexpr ctx) (cbody ctx cur b lastbf tl) = true) /\
  (forall cs, forall ctx, frames_nf ctx -> head_is_doexpr ctx = false ->
      forallb (fun b => forallb nf b) (ccases ctx cs) = true).
Proof.
  assert (Hblk : forall (P:block -> Prop) b, P b -> P b) by auto.
  apply sbc_mutind.
  - (* Emit *) intro k. split; [intros; reflexivity | exact I].
  - (* Defer *) intros d b IH. split; [intros; reflexivity|].
    intros ctx Hc Hh. pose proof (IH ctx (newframe KBlock) false TlPlain Hc (newframe_nf _) eq_refl) as H.
    rewrite Hh in H. apply H. intro Hx; discriminate Hx.
  - (* Close *) intro ks. split; [intros; reflexivity | exact I].
  - (* Do *) intros b IH. split; [|exact I]. intros ctx Hc Hh. cbn [cstmt].
    pose proof (IH ctx (newframe KBlock) false TlPlain Hc (newframe_nf _) eq_refl) as H. rewrite Hh in H.
    specialize (H ltac:(intro Hx; discriminate Hx)). cbn [nf_tail] in H.
    destruct (cbody ctx (newframe KBlock) b false TlPlain) as [|t l0]; [reflexivity|].
    change (forallb nf [TDo (t :: l0)]) with (forallb nf (t :: l0) && true). rewrite H. reflexivity.
  - (* If *) intros c t IHt e IHe. split; [|exact I]. intros ctx Hc Hh. cbn [cstmt forallb nf].
    pose proof (IHt ctx (newframe KBlock) false TlPlain Hc (newframe_nf _) eq_refl) as H1.
    pose proof (IHe ctx (newframe KBlock) false TlPlain Hc (newframe_nf _) eq_refl) as H2.
    rewrite Hh in H1, H2. cbn [nf_tail] in H1, H2.
    rewrite H1, H2 by (intro Hx; discriminate Hx). reflexivity.
  - (* While *) intros c b IH. split; [|exact I]. intros ctx Hc Hh. cbn [cstmt forallb nf].
    pose proof (IH (newframe (KLoop None) :: ctx) (newframe KBlock) false TlPlain
                   (frames_nf_cons _ _ (newframe_nf _) Hc) (newframe_nf _) eq_refl) as H.
    cbn [head_is_doexpr newframe fk is_doexpr nf_tail] in H. rewrite H by (intro Hx; discriminate Hx). reflexivity.
  - (* Repeat *) intros b IH c. split; [|exact I]. intros ctx Hc Hh. cbn [cstmt forallb nf].
    pose proof (IH (newframe (KLoop (Some c)) :: ctx) (newframe KBlock) false (TlRepeat c)
                   (frames_nf_cons _ _ (newframe_nf _) Hc) (newframe_nf _) eq_refl) as H.
    cbn [head_is_doexpr newframe fk is_doexpr nf_tail] in H. rewrite H by (intro Hx; discriminate Hx). reflexivity.
  - (* For *) intros n b IH. split; [|exact I]. intros ctx Hc Hh. cbn [cstmt forallb nf].
    pose proof (IH (newframe (KLoop None) :: ctx) (newframe KBlock) false TlPlain
                   (frames_nf_cons _ _ (newframe_nf _) Hc) (newframe_nf _) eq_refl) as H.
    cbn [head_is_doexpr newframe fk is_doexpr nf_tail] in H. rewrite H by (intro Hx; discriminate Hx). reflexivity.
  - (* Switch *) intros c cs IHc d IHd. split; [|exact I]. intros ctx Hc Hh. cbn [cstmt forallb nf].
    assert (Hc' : frames_nf (newframe KSwitch :: ctx)) by (apply frames_nf_cons; [apply newframe_nf | exact Hc]).
    rewrite (IHc (newframe KSwitch :: ctx) Hc' eq_refl). cbn [andb].
    destruct d as [|s0 r0]; [reflexivity|].
    pose proof (IHd (newframe KSwitch :: ctx) (newframe KBlock) false (TlCase false) Hc' (newframe_nf _) eq_refl) as H.
    cbn [head_is_doexpr newframe fk is_doexpr nf_tail] in H. rewrite H by (intro Hx; discriminate Hx). reflexivity.
  - (* DoExpr *) intros b IH. split; [|exact I]. intros ctx Hc Hh. rewrite cstmt_doexpr.
    destruct (first_in b); [reflexivity|]. cbn [forallb]. rewrite andb_true_r.
    pose proof (IH (newframe KDoExpr :: ctx) (newframe KBlock) false TlPlain
                   (frames_nf_cons _ _ (newframe_nf _) Hc) (newframe_nf _) eq_refl) as H.
    cbn [head_is_doexpr newframe fk is_doexpr nf_tail] in H. apply H. intros _. reflexivity.
  - (* In *) intro e. split; [|exact I]. intros ctx Hc Hh. cbn [cstmt forallb nf negb andb].
    rewrite (close_upscopes_nf _ _ Hc). reflexivity.
  - (* Break *) split; [|exact I]. intros ctx Hc Hh. cbn [cstmt]. rewrite forallb_app.
    rewrite (close_upscopes_nf _ _ Hc). unfold break_stmt. destruct (nearest is_loop_or_switch ctx) as [[]|]; reflexivity.
  - (* Continue *) split; [|exact I]. intros ctx Hc Hh. cbn [cstmt].
    destruct (nearest is_loop ctx) as [[| [c|] | | |]|]; cbn [forallb nf]; rewrite ?forallb_app, (close_upscopes_nf _ _ Hc); reflexivity.
  - (* Return *) intro e. split; [|exact I]. intros ctx Hc Hh. cbn [cstmt forallb nf].
    rewrite (close_upscopes_nf _ _ Hc). reflexivity.
  - (* ReturnVoid *) split; [|exact I]. intros ctx Hc Hh. cbn [cstmt]. rewrite forallb_app.
    rewrite (close_upscopes_nf _ _ Hc). reflexivity.
  - (* FnCall *) intros void b IH. split; [|exact I]. intros ctx Hc Hh. cbn [cstmt forallb nf].
    assert (Hc' : frames_nf [newframe KFunc]) by (apply frames_nf_cons; [apply newframe_nf | constructor]).
    pose proof (IH [newframe KFunc] (newframe KBlock) false TlPlain Hc' (newframe_nf _) eq_refl) as H.
    cbn [head_is_doexpr newframe fk is_doexpr nf_tail] in H. rewrite H by (intro Hx; discriminate Hx). reflexivity.
  - (* BNil *) intros ctx cur lastbf tl Hc Hcur Hk Htl. cbn [cbody]. apply nf_tail_of_all.
    pose proof (close_scope_nf cur Hcur) as Hcs.
    destruct tl as [|c|[|]]; cbn [end_code].
    + destruct lastbf; [reflexivity | exact Hcs].
    + cbn [forallb nf]. destruct lastbf; [reflexivity | rewrite Hcs; reflexivity].
    + exact Hcs.
    + destruct lastbf; [reflexivity|]. rewrite forallb_app, Hcs. reflexivity.
  - (* BCons *) intros s [IHs IHd] r IHr ctx cur lastbf tl Hc Hcur Hk Htl.
    assert (Hc' : frames_nf (cur :: ctx)) by (apply frames_nf_cons; assumption).
    assert (Hh' : head_is_doexpr (cur :: ctx) = false) by (cbn [head_is_doexpr]; rewrite Hk; reflexivity).
    assert (Hgen : is_in s = false ->
      nf_tail (head_is_doexpr ctx) (cstmt (cur :: ctx) (omit_goto r ctx) s ++ cbody ctx cur r (is_breakflow s) tl) = true).
    { intro Hi. rewrite (cstmt_lastin_irrelevant _ _ false s Hi).
      apply nf_tail_app; [apply (IHs _ Hc' Hh') | apply IHr; assumption]. }
    destruct s; try (cbn [cbody]; apply Hgen; reflexivity).
    + (* Defer *) cbn [cbody].
      change (TReg d :: ?l) with ([TReg d] ++ l). apply nf_tail_app; [reflexivity|].
      apply IHr; try assumption.
      unfold frame_nf. cbn [add_defer fdefers forallb nf]. rewrite Hcur, andb_true_r.
      apply (IHd (set_closing cur :: ctx)).
      * apply frames_nf_cons; [exact Hcur | exact Hc].
      * cbn [head_is_doexpr set_closing fk]. rewrite Hk. reflexivity.
    + (* In *) cbn [cbody]. rewrite omit_goto_spec.
      destruct r as [|s1 r1].
      * (* last statement of the block *)
        pose proof (IHr ctx cur true tl Hc Hcur Hk Htl) as Hr.
        destruct (head_is_doexpr ctx) eqn:Eh.
        -- rewrite (Htl eq_refl). cbn [is_bnil andb cstmt cbody is_breakflow end_code negb app nf_tail].
           unfold nf_body. cbn [nf]. apply (close_upscopes_nf _ _ Hc').
        -- cbn [is_bnil andb is_breakflow]. apply nf_tail_app; [apply (IHs _ Hc' Hh') | exact Hr].
      * cbn [is_bnil andb]. apply nf_tail_app; [apply (IHs _ Hc' Hh') | apply IHr; assumption].
  - (* CNil *) intros; reflexivity.
  - (* CCons *) intros b IHb ft r IHr ctx Hc Hh. cbn [ccases forallb].
    pose proof (IHb ctx (newframe KBlock) false (TlCase ft) Hc (newframe_nf _) eq_refl) as H.
    rewrite Hh in H. cbn [nf_tail] in H. rewrite H by (intro Hx; discriminate Hx).
    apply (IHr ctx Hc Hh).
Qed.

(* every goto-less `in` of a compiled program is the last statement of its do-expression's own block *)
Theorem in_goto_placement : forall p, forallb nf (compile p) = true.
Proof.
  intros [void body]. unfold compile. cbn [fst snd].
  apply (proj1 (proj1 placement (FnCall void (desugar_block body))) []); [constructor | reflexivity].
Qed.

(* the placement rule matters: with the goto omitted at a tail position inside a trailing `if`, control falls
   out of the `if` and the clean-up of the do-expression block runs a second time *)
Example goto_less_in_elsewhere_is_refused :
  nf (TStmtExpr [TReg 1; TIf 2 [TIn 3 [TDeferred [TRun 1]] false] [TIn 4 [TDeferred [TRun 1]] false]; TDeferred [TRun 1]]) = false.
Proof. reflexivity. Qed.
