(* Property C15: scope-exit actions (defer blocks, <close> variables) run exactly once, innermost first,
   on every exit path.  Only the property theorems, each closed by [exact] of a lemma of the proof files.
   Every predicate used in a statement is defined in Model.v (accepted / wf_prog, ref_sem, tgt_sem, compile,
   stack_run, run_discipline), Facts.v (generator_facts) or CloseIndex.v (visit_close_all). *)
From Coq Require Import List.
From C15 Require Import Gen Model Facts Proofs Discipline NoFuel CloseIndex InGoto.
From Coq Require Import Sorted Permutation.
Import ListNotations.

(* (T) the facts scraped from astdefs.lua / cgenerator.lua / scope.lua are those the model compiler mirrors *)
Theorem C15_generator_facts : generator_facts.
Proof. exact generator_facts_hold. Qed.
Print Assumptions C15_generator_facts.

(* FULL STRENGTH.  For ALL programs (any nesting depth, defers nested in defers, <close> declarations, every
   combination of exits) that the analyzer accepts - break/continue inside a loop of the same function, `in`
   inside a do-expression, no return/break/continue/in leaving a defer block - and ALL oracles: the emitted
   code (static stitching of the clean-up, no defer mechanism) produces exactly the trace and result of the
   reference semantics (every executed defer once, innermost first, after the returned value was
   evaluated; `until` condition before the body's defers; <close> variables in reverse declaration order). *)
Theorem C15_defer_compile_correct : forall p x, accepted p = true -> tgt_sem (compile p) x = ref_sem p x.
Proof. exact defer_compile_correct. Qed.
Print Assumptions C15_defer_compile_correct.

(* <close>: the defers injected by visit_close for `local a <close>, b <close>, ... = ...` close the
   variables in reverse declaration order, after everything registered later in the block *)
Theorem C15_close_desugar : forall lp ks rest ds fin x,
  rstmts lp (close_defers ks rest) ds fin x =
  rstmts lp rest (rev (map close_closure ks) ++ ds) fin (reg_all ks x).
Proof. exact close_defers_sem. Qed.
Print Assumptions C15_close_desugar.

(* visit_close as a whole preserves the meaning of programs *)
Theorem C15_desugar_preserves_semantics : forall b L D F N, wf_block L D F N b = true ->
  forall lp ds fin x, rstmts lp (desugar_block b) ds fin x = rstmts lp b ds fin x.
Proof. exact (proj1 (proj2 desugar_sem)). Qed.
Print Assumptions C15_desugar_preserves_semantics.

(* Corollaries about the trace of the emitted code (G d = defer d registered, U d = deferred block d starts):
   read chronologically, every U d pops the most recently registered pending d. *)
Theorem C15_lifo_order : forall p x, accepted p = true -> run_discipline x (tgt_sem (compile p) x).
Proof. exact lifo_order. Qed.
Print Assumptions C15_lifo_order.

Theorem C15_each_defer_once : forall p x, accepted p = true -> fst (tgt_sem (compile p) x) = Nrm ->
  exists new, tr (snd (tgt_sem (compile p) x)) = new ++ tr x /\ stack_run (rev new) [] = Some [].
Proof. exact each_defer_once. Qed.
Print Assumptions C15_each_defer_once.

Theorem C15_unreached_defer_never : forall p x, accepted p = true ->
  exists new, tr (snd (tgt_sem (compile p) x)) = new ++ tr x /\ stack_run (rev new) [] <> None.
Proof. exact unreached_defer_never. Qed.
Print Assumptions C15_unreached_defer_never.

Theorem C15_return_value_fixed_before_cleanup : forall lp es rest ds fin x,
  rstmts lp (BCons (Return es) rest) ds fin x = run_defers ds (Ret (fst (evalxs es x))) (snd (evalxs es x)).
Proof. exact return_value_fixed_before_cleanup. Qed.
Print Assumptions C15_return_value_fixed_before_cleanup.

(* the loop bound of the semantics (oracle length + 1) is never exhausted: the equalities above are never
   about the distinguished out-of-fuel outcome *)
Theorem C15_ref_never_out_of_fuel : forall p x, fst (ref_sem p x) <> Fuel.
Proof. exact ref_never_out_of_fuel. Qed.
Print Assumptions C15_ref_never_out_of_fuel.

Theorem C15_tgt_never_out_of_fuel : forall p x, accepted p = true -> fst (tgt_sem (compile p) x) <> Fuel.
Proof. exact tgt_never_out_of_fuel. Qed.
Print Assumptions C15_tgt_never_out_of_fuel.

(* visit_close's position bookkeeping (statindex + 1 + number of already injected defers of EARLIER variables):
   whatever the order in which the variables' types get resolved, the injected defers stand in declaration order
   (so [close_order] may ignore the `late` flag) *)
Theorem C15_visit_close_any_order : forall order, NoDup order ->
  Sorted lt (visit_close_all order) /\ Permutation (visit_close_all order) order.
Proof. exact visit_close_any_order. Qed.
Print Assumptions C15_visit_close_any_order.

(* the `goto <doexprlabel>` of an `in` is omitted by the model compiler (whose rule [omit_goto] is the scraped
   rule of visitors.In) only where control falls from the `in` to the end of the do-expression: every goto-less
   `in` is the last statement of its do-expression's own block.  (The target semantics itself treats both
   forms of `in` alike; this is the syntactic half of the argument - false for a rule that omits the goto at
   every tail position.) *)
Theorem C15_in_goto_placement : forall p, forallb nf (compile p) = true.
Proof. exact in_goto_placement. Qed.
Print Assumptions C15_in_goto_placement.
