(* C15 driver.  One case per line:
     <void 0|1> <program tokens> | <oracle values>
   program grammar (whitespace separated tokens):
     block := "(" stmt* ")"
     stmt  := E k | D d block | K n k1 late1..kn laten | O block | I c block block | W c block | P block c
            | F n block | S c "[" (block ft)* "]" block | X block | N e | B | C | R n e1..en | V | L void block
   Output: <ref outcome>;<ref trace> TAB <tgt outcome>;<tgt trace> TAB <tokens of the compiled program> TAB <accepted p> *)
open Model
open Zutil

exception Parse of string

let parse_prog (toks : string array) (pos : int ref) : block =
  let peek () = if !pos < Array.length toks then toks.(!pos) else raise (Parse "eof") in
  let next () = let t = peek () in incr pos; t in
  let num () = nat_of_int (int_of_string (next ())) in
  let rec block () : block =
    (match next () with "(" -> () | t -> raise (Parse ("expected ( got " ^ t)));
    let rec stmts () : block =
      if peek () = ")" then (incr pos; BNil)
      else let s = stmt () in let r = stmts () in BCons (s, r)
    in
    stmts ()
  and stmt () : stmt =
    match next () with
    | "E" -> Emit (num ())
    | "D" -> let d = num () in let b = block () in Defer (d, b)
    | "K" -> let n = int_of_string (next ()) in
      let rec ks i = if i = 0 then [] else let k = num () in let late = next () = "1" in (k, late) :: ks (i - 1) in
      Close (ks n)
    | "O" -> Do (block ())
    | "I" -> let c = num () in let t = block () in let e = block () in If (c, t, e)
    | "W" -> let c = num () in let b = block () in While (c, b)
    | "P" -> let b = block () in let c = num () in Repeat (b, c)
    | "F" -> let n = num () in let b = block () in For (n, b)
    | "S" -> let c = num () in
      (match next () with "[" -> () | t -> raise (Parse ("expected [ got " ^ t)));
      let rec cs () : cases =
        if peek () = "]" then (incr pos; CNil)
        else let b = block () in let ft = next () = "1" in let r = cs () in CCons (b, ft, r)
      in
      let c' = cs () in
      let d = block () in
      Switch (c, c', d)
    | "X" -> DoExpr (block ())
    | "N" -> In (num ())
    | "B" -> Break
    | "C" -> Continue
    | "R" -> let n = int_of_string (next ()) in
      let rec es i = if i = 0 then [] else let e = num () in e :: es (i - 1) in
      Return (es n)
    | "V" -> ReturnVoid
    | "L" -> let v = next () = "1" in let b = block () in FnCall (v, b)
    | t -> raise (Parse ("bad statement token " ^ t))
  in
  block ()

let i = int_of_nat

let ev_str = function
  | EvE k -> "E" ^ string_of_int (i k)
  | EvC k -> "C" ^ string_of_int (i k)
  | EvR k -> "R" ^ string_of_int (i k)
  | EvV k -> "V" ^ string_of_int (i k)
  | EvG k -> "G" ^ string_of_int (i k)
  | EvU k -> "U" ^ string_of_int (i k)

let out_str = function
  | Nrm -> "N" | Brk -> "B" | GBrk -> "GB" | Cnt _ -> "C" | Ret _ -> "R" | InV _ -> "I" | Abort -> "A" | Fuel -> "F"

let res_str ((o, s) : res) : string =
  out_str o ^ ";" ^ String.concat " " (List.rev_map ev_str s.tr)

let rec ret_arity (l : tstmt list) : int =
  List.fold_left (fun acc s -> if acc > 0 then acc else
    match s with
    | TReturn (es, _) -> List.length es
    | TDo l | TDeferred l | TWhile (_, l) | TRepeat l | TFor (_, l) | TStmtExpr l -> ret_arity l
    | TIf (_, t, e) -> let a = ret_arity t in if a > 0 then a else ret_arity e
    | TSwitch (_, cs, d) -> let a = List.fold_left (fun acc l -> if acc > 0 then acc else ret_arity l) 0 cs in if a > 0 then a else ret_arity d
    | TUntil (_, cl) | TIn (_, cl, _) | TContinueR (_, cl) -> ret_arity cl
    | _ -> 0) 0 l

let rec toks (b : Buffer.t) (l : tstmt list) : unit = List.iter (tok b) l
and add b s = Buffer.add_string b s; Buffer.add_char b ' '
and addn b s k = Buffer.add_string b s; Buffer.add_string b (string_of_int (i k)); Buffer.add_char b ' '
and tok (b : Buffer.t) (s : tstmt) : unit =
  match s with
  | TEmit k -> addn b "E" k
  | TReg d -> addn b "G" d
  | TRun d -> addn b "U" d
  | TDo l -> add b "{"; toks b l; add b "}"
  | TDeferred l -> add b "{defer"; toks b l; add b "}"
  | TIf (c, t, e) ->
    add b "if"; addn b "C" c; add b "{"; toks b t; add b "}";
    if e <> [] then (add b "else"; add b "{"; toks b e; add b "}")
  | TWhile (c, l) -> add b "while"; addn b "C" c; add b "{"; toks b l; add b "}"
  | TRepeat l -> add b "{"; add b "do"; add b "{"; toks b l; add b "}"; add b "while"; add b "}"
  | TUntil (c, cl) -> add b "stop="; addn b "C" c; toks b cl
  | TFor (_, l) -> add b "for"; add b "{"; toks b l; add b "}"
  | TSwitch (c, cs, d) ->
    add b "switch"; addn b "C" c; add b "{";
    List.iter (fun l -> add b "case"; add b "{"; toks b l; add b "}") cs;
    if d <> [] then (add b "default"; add b "{"; toks b d; add b "}");
    add b "}"
  | TStmtExpr l -> add b "V"; add b "({"; toks b l; add b "})"
  | TExprDirect e -> add b "V"; addn b "R" e
  | TIn (e, cl, g) -> add b "expr="; addn b "R" e; toks b cl; if g then add b "gotoexpr"
  | TBreak -> add b "break"
  | TGotoBreak -> add b "gotobreak"
  | TContinue -> add b "continue"
  | TContinueR (c, cl) -> add b "stop="; addn b "C" c; toks b cl; add b "continue"
  | TReturn (es, cl) ->
    List.iter (fun e -> addn b "R" e) es; toks b cl; add b "return"
  | TReturnVoid -> add b "return"
  | TCall (v, l) ->
    (* one V per returned value: the arity of the callee is that of its return statements *)
    if not v then (for _ = 1 to max 1 (ret_arity l) do add b "V" done);
    add b "call("; toks b l; add b ")"

let () =
  iter_lines (fun line ->
    if String.length line > 0 && line.[0] <> '#' then begin
      let out =
        try
          let bar = String.index line '|' in
          let left = String.sub line 0 bar and right = String.sub line (bar + 1) (String.length line - bar - 1) in
          let lt = Array.of_list (split_ws left) in
          let void = lt.(0) = "1" in
          let pos = ref 1 in
          let body = parse_prog lt pos in
          let orc = List.map (fun s -> nat_of_int (int_of_string s)) (split_ws right) in
          let p = (void, body) in
          let x0 = { orc = orc; tr = [] } in
          let r = ref_sem p x0 in
          let t = compile p in
          let r2 = tgt_sem t x0 in
          let b = Buffer.create 256 in
          toks b t;
          res_str r ^ "\t" ^ res_str r2 ^ "\t" ^ String.trim (Buffer.contents b) ^ "\t" ^ (if accepted p then "1" else "0")
        with
        | Parse m -> "!parse " ^ m
        | e -> "!exn " ^ Printexc.to_string e
      in
      print_string out; print_newline ()
    end)
