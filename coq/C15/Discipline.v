(* C15: the registration/run discipline of deferred blocks (G d pushes, U d pops the top) and its corollaries. *)
From Coq Require Import List Bool Arith Lia.
From C15 Require Import Model Proofs.
Import ListNotations.
Local Open Scope list_scope.

(* ================================================================== the registration / run discipline *)
(* G d pushes d, U d must find d on top and pops it: a failure of the machine is a deferred block that
   runs although it is not the most recently registered pending one (not registered, run twice, or out
   of order) *)
Lemma stack_run_app : forall a b s,
  stack_run (a ++ b) s = match stack_run a s with Some s1 => stack_run b s1 | None => None end.
Proof.
  induction a as [|e a IH]; intros b s; simpl; [reflexivity|].
  destruct e; auto. destruct s as [|d' s']; [reflexivity|]. destruct (Nat.eqb d d'); auto.
Qed.

Definition bal (x x':st) (s s':list nat) : Prop :=
  exists new, tr x' = new ++ tr x /\ stack_run (rev new) s = Some s'.

Lemma bal_refl : forall x s, bal x x s s.
Proof. intros. exists []. split; reflexivity. Qed.

Lemma bal_trans : forall x x1 x2 s s1 s2, bal x x1 s s1 -> bal x1 x2 s1 s2 -> bal x x2 s s2.
Proof.
  intros x x1 x2 s s1 s2 (n1 & H1 & R1) (n2 & H2 & R2).
  exists (n2 ++ n1). split.
  - rewrite H2, H1. rewrite app_assoc. reflexivity.
  - rewrite rev_app_distr. rewrite stack_run_app. rewrite R1. exact R2.
Qed.

Lemma bal_emit : forall e x s s', stack_run [e] s = Some s' -> bal x (emit e x) s s'.
Proof. intros e x s s' H. exists [e]. split; [reflexivity | exact H]. Qed.

Lemma bal_cond : forall c x v x1 s, cond c x = Some (v, x1) -> bal x x1 s s.
Proof.
  intros c x v x1 s H. unfold cond in H. destruct (orc x) as [|v0 r]; [discriminate|].
  inversion H; subst. exists [EvC c]. split; reflexivity.
Qed.

Definition noabort (o:out) : Prop := o <> Abort /\ o <> Fuel.

Definition good (x:st) (r:res) (sin sout:list nat) : Prop :=
  exists s', bal x (snd r) sin s' /\ (noabort (fst r) -> s' = sout).

Lemma good_here : forall x o s, good x (o, x) s s.
Proof. intros. exists s. split; [apply bal_refl | auto]. Qed.

Lemma good_abort : forall x x1 o s s1 sout, bal x x1 s s1 -> ~ noabort o -> good x (o, x1) s sout.
Proof. intros. exists s1. split; [assumption | intro; contradiction]. Qed.

Lemma good_pre : forall x x1 r s s1 sout, bal x x1 s s1 -> good x1 r s1 sout -> good x r s sout.
Proof.
  intros x x1 r s s1 sout Hb (s' & Hb2 & Hn). exists s'. split; [eapply bal_trans; eauto | exact Hn].
Qed.

Lemma good_retag : forall x o o' x1 s sout, good x (o, x1) s sout -> (noabort o' -> noabort o) -> good x (o', x1) s sout.
Proof. intros x o o' x1 s sout (s' & Hb & Hn) H. exists s'. split; [exact Hb | intro Hx; apply Hn; apply H; exact Hx]. Qed.

Lemma good_any_out : forall x o x1 s a b, good x (o, x1) s a -> ~ noabort o -> good x (o, x1) s b.
Proof. intros x o x1 s a b (s' & Hb & _) Hn. exists s'. split; [exact Hb | intro; contradiction]. Qed.

Lemma good_bal : forall x o x1 s sout, good x (o, x1) s sout -> noabort o -> bal x x1 s sout.
Proof. intros x o x1 s sout (s' & Hb & Hn) H. simpl in *. rewrite <- (Hn H). exact Hb. Qed.

Ltac na := unfold noabort; split; discriminate.
Ltac nna := let H := fresh in intros [H ?]; try (apply H; reflexivity); try (match goal with H2 : _ <> _ |- _ => apply H2; reflexivity end).

Definition clo_good (g:closure) (d:nat) : Prop :=
  forall y st, good y (g y) (d :: st) st /\ benign (fst (g y)) = true.

Lemma run_defers_good : forall ds ls o x st, Forall2 clo_good ds ls -> noabort o ->
  good x (run_defers ds o x) (ls ++ st) st.
Proof.
  intros ds ls o x st H Ho. revert x. induction H as [|g d ds ls Hg _ IH]; intro x; simpl.
  - apply good_here.
  - destruct (Hg x (ls ++ st)) as [Hgood Hben].
    destruct (g x) as [o1 x1]. simpl in Hben.
    destruct o1; try discriminate.
    + eapply good_pre; [apply (good_bal _ _ _ _ _ Hgood); na | apply IH].
    + eapply good_any_out; [exact Hgood|]. intros [H _]; apply H; reflexivity.
    + eapply good_any_out; [exact Hgood|]. intros [_ H]; apply H; reflexivity.
Qed.

Lemma good_abort_here : forall x s sout, good x (Abort, x) s sout.
Proof. intros. exists s. split; [apply bal_refl | intros [H _]; exfalso; apply H; reflexivity]. Qed.

Lemma noabort_dec : forall o, noabort o \/ ~ noabort o.
Proof. intro o. destruct o; try (left; na); right; intros [H1 H2]; [apply H1 | apply H2]; reflexivity. Qed.

Lemma while_good : forall c body, (forall y st, good y (body y) st st) ->
  forall n x st, good x (while_loop n c body x) st st.
Proof.
  intros c body Hb. induction n as [|n IH]; intros x st; cbn [while_loop].
  - apply good_here.
  - destruct (cond c x) as [[v x1]|] eqn:Ec; [|apply good_here].
    pose proof (bal_cond c x v x1 st Ec) as Hc.
    destruct (truthy v).
    + specialize (Hb x1 st). destruct (body x1) as [o x2].
      destruct o;
        try (eapply good_pre; [exact Hc | exact Hb]);
        try (eapply good_pre; [exact Hc|]; eapply good_pre; [apply (good_bal _ _ _ _ _ Hb); na | apply IH]);
        try (eapply good_pre; [exact Hc|]; eapply good_retag; [exact Hb | intros _; na]).
    + eapply good_pre; [exact Hc | apply good_here].
Qed.

Lemma repeat_good : forall body, (forall y st, good y (body y) st st) ->
  forall n x st, good x (repeat_loop n body x) st st.
Proof.
  intros body Hb. induction n as [|n IH]; intros x st; cbn [repeat_loop].
  - apply good_here.
  - specialize (Hb x st). destruct (body x) as [o x2].
    destruct o; try exact Hb;
      try (eapply good_pre; [apply (good_bal _ _ _ _ _ Hb); na | apply IH]);
      try (eapply good_retag; [exact Hb | intros _; na]).
    destruct stop.
    + eapply good_retag; [exact Hb | intros _; na].
    + eapply good_pre; [apply (good_bal _ _ _ _ _ Hb); na | apply IH].
Qed.

Lemma for_good : forall body, (forall y st, good y (body y) st st) ->
  forall n x st, good x (for_loop n body x) st st.
Proof.
  intros body Hb. induction n as [|n IH]; intros x st; cbn [for_loop].
  - apply good_here.
  - specialize (Hb x st). destruct (body x) as [o x2].
    destruct o; try exact Hb;
      try (eapply good_pre; [apply (good_bal _ _ _ _ _ Hb); na | apply IH]);
      try (eapply good_retag; [exact Hb | intros _; na]).
Qed.

Lemma good_emit_after : forall x o x1 e s sout, good x (o, x1) s sout -> noabort o -> stack_run [e] sout = Some sout ->
  forall o', good x (o', emit e x1) s sout.
Proof.
  intros x o x1 e s sout Hg Hn He o'. exists sout. split; [|auto].
  eapply bal_trans; [apply (good_bal _ _ _ _ _ Hg Hn) | apply bal_emit; exact He].
Qed.

Lemma evalxs_bal : forall es x s, bal x (snd (evalxs es x)) s s.
Proof.
  induction es as [|e r IH]; intros x s; cbn [evalxs].
  - apply bal_refl.
  - unfold evalx. specialize (IH (emit (EvR e) x) s). destruct (evalxs r (emit (EvR e) x)) as [vs x2]. cbn [snd] in *.
    eapply bal_trans; [apply (bal_emit (EvR e) x s s); reflexivity | exact IH].
Qed.

Lemma emit_vals_bal : forall vs x s, bal x (emit_vals vs x) s s.
Proof.
  induction vs as [|v r IH]; intros x s; unfold emit_vals; cbn [fold_left].
  - apply bal_refl.
  - eapply bal_trans; [apply (bal_emit (EvV v) x s s); reflexivity | apply IH].
Qed.

Lemma good_vals_after : forall x o x1 vs s sout, good x (o, x1) s sout -> noabort o ->
  forall o', good x (o', emit_vals vs x1) s sout.
Proof.
  intros x o x1 vs s sout Hg Hn o'. exists sout. split; [|auto].
  eapply bal_trans; [apply (good_bal _ _ _ _ _ Hg Hn) | apply emit_vals_bal].
Qed.

Definition defer_clause (s:stmt) : Prop :=
  match s with
  | Defer d body => forall N lp, wfd_block false false false N body = true ->
                    clo_good (fun y => rstmts lp body [] None (emit (EvU d) y)) d
  | _ => True
  end.

Lemma discipline :
  (forall s, (forall L D F N lp x st, wfd_stmt L D F N s = true -> good x (rstmt lp s x) st st) /\ defer_clause s) /\
  (forall b, forall L D F N lp ds ls fin x st, wfd_block L D F N b = true -> Forall2 clo_good ds ls ->
      good x (rstmts lp b ds fin x) (ls ++ st) st) /\
  (forall cs, forall L D F N lp d v x st, wfd_cases L D F N cs = true ->
      (forall y st', good y (d y) st' st') -> good x (rcases lp cs d v x) st st).
Proof.
  apply sbc_mutind.
  - (* Emit *) intro k. split; [|exact I]. intros. cbn [rstmt].
    exists st. split; [apply bal_emit; reflexivity | auto].
  - (* Defer *) intros d b IH. split; [intros; cbn [rstmt]; apply good_here|].
    intros N lp Hw y st. split.
    + eapply good_pre; [apply (bal_emit (EvU d) y (d :: st) st); simpl; rewrite Nat.eqb_refl; reflexivity|].
      exact (IH false false false N lp [] [] None (emit (EvU d) y) st Hw (Forall2_nil _)).
    + pose proof (proj1 (proj2 outcomes_allowed) b false false false N lp [] None (emit (EvU d) y) Hw (Forall_nil _)) as Ha.
      cbn [allowed_fin] in Ha. apply allowed_none_benign in Ha. exact Ha.
  - (* Close *) intro ks. split; [|exact I]. intros. cbn [rstmt]. apply good_here.
  - (* Do *) intros b IH. split; [|exact I]. intros L D F N lp x st H. cbn [rstmt wfd_stmt] in *.
    exact (IH L D F N lp [] [] None x st H (Forall2_nil _)).
  - (* If *) intros c t IHt e IHe. split; [|exact I]. intros L D F N lp x st H. cbn [rstmt wfd_stmt] in *.
    apply andb_true_iff in H as [Ht He].
    destruct (cond c x) as [[v x1]|] eqn:Ec; [|apply good_here].
    eapply good_pre; [apply (bal_cond c x v x1 st Ec)|].
    destruct (truthy v).
    + exact (IHt L D F N lp [] [] None x1 st Ht (Forall2_nil _)).
    + exact (IHe L D F N lp [] [] None x1 st He (Forall2_nil _)).
  - (* While *) intros c b IH. split; [|exact I]. intros L D F N lp x st H. cbn [rstmt wfd_stmt] in *.
    apply while_good. intros y st'. exact (IH true D F N None [] [] None y st' H (Forall2_nil _)).
  - (* Repeat *) intros b IH c. split; [|exact I]. intros L D F N lp x st H. cbn [rstmt wfd_stmt] in *.
    apply repeat_good. intros y st'. exact (IH true D F N (Some c) [] [] (Some c) y st' H (Forall2_nil _)).
  - (* For *) intros n b IH. split; [|exact I]. intros L D F N lp x st H. cbn [rstmt wfd_stmt] in *.
    apply for_good. intros y st'. exact (IH true D F N None [] [] None y st' H (Forall2_nil _)).
  - (* Switch *) intros c cs IHc d IHd. split; [|exact I]. intros L D F N lp x st H. cbn [rstmt wfd_stmt] in *.
    apply andb_true_iff in H as [Hc Hd].
    destruct (cond c x) as [[v x1]|] eqn:Ec; [|apply good_here].
    eapply good_pre; [apply (bal_cond c x v x1 st Ec)|].
    assert (Hdd : forall y st', good y (rstmts lp d [] None y) st' st').
    { intros y st'. exact (IHd L D F N lp [] [] None y st' Hd (Forall2_nil _)). }
    pose proof (IHc L D F N lp (fun y => rstmts lp d [] None y) (Some v) x1 st Hc Hdd) as Hr.
    destruct (rcases lp cs (fun y => rstmts lp d [] None y) (Some v) x1) as [o x2].
    destruct o; try exact Hr. eapply good_retag; [exact Hr | intros _; na].
  - (* DoExpr *) intros b IH. split; [|exact I]. intros L D F N lp x st H. cbn [rstmt wfd_stmt] in *.
    pose proof (IH L true F N lp [] [] None x st H (Forall2_nil _)) as Hr. cbn [app] in Hr.
    destruct (rstmts lp b [] None x) as [o x1]. unfold doexpr_result.
    destruct o; try exact Hr; apply (good_emit_after _ _ _ _ _ _ Hr); try na; reflexivity.
  - (* In *) intro e. split; [|exact I]. intros. cbn [rstmt]. unfold evalx.
    exists st. split; [apply bal_emit; reflexivity | auto].
  - (* Break *) split; [|exact I]. intros. cbn [rstmt]. apply good_here.
  - (* Continue *) split; [|exact I]. intros L D F N lp x st H. cbn [rstmt]. unfold continue_res.
    destruct lp as [c|]; [|apply good_here].
    destruct (cond c x) as [[v x1]|] eqn:Ec; [|apply good_here].
    eapply good_pre; [apply (bal_cond c x v x1 st Ec) | apply good_here].
  - (* Return *) intro e. split; [|exact I]. intros L D F N lp x st H. cbn [rstmt].
    pose proof (evalxs_bal e x st) as Hb. destruct (evalxs e x) as [vs x1]. cbn [snd] in Hb.
    exists st. split; [exact Hb | auto].
  - (* ReturnVoid *) split; [|exact I]. intros. cbn [rstmt]. apply good_here.
  - (* FnCall *) intros void b IH. split; [|exact I]. intros L D F N lp x st H. cbn [rstmt wfd_stmt] in *.
    pose proof (IH false false true false None [] [] None x st H (Forall2_nil _)) as Hr. cbn [app] in Hr.
    destruct (rstmts None b [] None x) as [o x1]. unfold call_result.
    destruct o; try exact Hr;
      try (destruct void; [eapply good_retag; [exact Hr | intros _; na]
                          | apply (good_emit_after _ _ _ _ _ _ Hr); try na; reflexivity]).
    destruct void; [eapply good_retag; [exact Hr | intros _; na] | apply (good_vals_after _ _ _ _ _ _ Hr); na].
  - (* BNil *) intros L D F N lp ds ls fin x st _ Hds. cbn [rstmts].
    destruct fin as [c|].
    + destruct (cond c x) as [[v x1]|] eqn:Ec; [|apply good_abort_here].
      eapply good_pre; [apply (bal_cond c x v x1 _ Ec)|]. apply run_defers_good; [assumption | na].
    + apply run_defers_good; [assumption | na].
  - (* BCons *) intros s [IHs IHd] r IHr L D F N lp ds ls fin x st H Hds.
    cbn [wfd_block] in H. apply andb_true_iff in H as [Hs Hr].
    assert (Hgen : good x (match rstmt lp s x with
        | (Nrm, x1) => rstmts lp r ds fin x1 | (Abort, x1) => (Abort, x1) | (Fuel, x1) => (Fuel, x1)
        | (o, x1) => run_defers ds o x1 end) (ls ++ st) st).
    { pose proof (IHs L D F N lp x (ls ++ st) Hs) as Ha.
      destruct (rstmt lp s x) as [o x1].
      destruct o;
        try (eapply good_pre; [apply (good_bal _ _ _ _ _ Ha); na | apply run_defers_good; [assumption | na]]).
      - eapply good_pre; [apply (good_bal _ _ _ _ _ Ha); na | exact (IHr L D F N lp ds ls fin x1 st Hr Hds)].
      - eapply good_any_out; [exact Ha | intros [Hx _]; apply Hx; reflexivity].
      - eapply good_any_out; [exact Ha | intros [_ Hx]; apply Hx; reflexivity]. }
    destruct s; try exact Hgen; cbn [rstmts].
    + (* Defer *) cbn [wfd_stmt] in Hs. pose proof Hs as Hb.
      eapply good_pre; [apply (bal_emit (EvG d) x (ls ++ st) (d :: ls ++ st)); reflexivity|].
      apply (IHr L D F N lp _ (d :: ls) fin _ st Hr). constructor; [exact (IHd N lp Hb) | assumption].
    + (* Close *) cbn [wfd_stmt] in Hs. discriminate.
  - (* CNil *) intros L D F N lp d v x st _ Hd. cbn [rcases]. apply Hd.
  - (* CCons *) intros b IHb ft r IHr L D F N lp d v x st H Hd. cbn [rcases wfd_cases] in *.
    apply andb_true_iff in H as [Hb Hr].
    assert (Hcase : good x (match rstmts lp b [] None x with
        | (Nrm, x1) => if ft then rcases lp r d None x1 else (Nrm, x1) | q => q end) st st).
    { pose proof (IHb L D F N lp [] [] None x st Hb (Forall2_nil _)) as Ha. cbn [app] in Ha.
      destruct (rstmts lp b [] None x) as [o x1]. destruct o; try exact Ha.
      destruct ft; [|exact Ha].
      eapply good_pre; [apply (good_bal _ _ _ _ _ Ha); na | exact (IHr L D F N lp d None x1 st Hr Hd)]. }
    destruct v as [[|k]|]; try exact Hcase. exact (IHr L D F N lp d (Some k) x st Hr Hd).
Qed.

(* ================================================================== corollaries for the emitted code *)
Lemma ref_discipline : forall p x, wf_prog p = true -> run_discipline x (ref_sem p x).
Proof.
  intros [void body] x H. unfold wf_prog in H. simpl in H.
  pose proof (proj1 (proj2 wf_desugar) body false false true false H) as Hd.
  pose proof (proj1 (proj1 discipline (FnCall void (desugar_block body))) false false false false None x [] Hd) as Hg.
  cbn [rstmt] in Hg. rewrite (proj1 (proj2 desugar_sem) body false false true false H None [] None x) in Hg.
  unfold ref_sem. cbn [fst snd rstmt].
  destruct Hg as (s' & (new & Ht & Hr) & Hn).
  exists new, s'. split; [exact Ht | split; [exact Hr|]].
  intro Hnrm. apply Hn. rewrite Hnrm. na.
Qed.

Theorem lifo_order : forall p x, wf_prog p = true -> run_discipline x (tgt_sem (compile p) x).
Proof. intros p x H. rewrite (defer_compile_correct_partial p x H). apply ref_discipline; assumption. Qed.

(* each deferred block whose statement was executed runs (the function completed => nothing is pending) *)
Corollary each_defer_once : forall p x, wf_prog p = true -> fst (tgt_sem (compile p) x) = Nrm ->
  exists new, tr (snd (tgt_sem (compile p) x)) = new ++ tr x /\ stack_run (rev new) [] = Some [].
Proof.
  intros p x H Hn. destruct (lifo_order p x H) as (new & s' & Ht & Hr & Hs).
  exists new. split; [exact Ht|]. rewrite Hr. f_equal. exact (Hs Hn).
Qed.

(* no deferred block runs unless it is the most recently registered pending one - in particular never one
   whose defer statement was not reached, never twice, never before an inner one - even when the run is
   cut short by an exhausted oracle *)
Corollary unreached_defer_never : forall p x, wf_prog p = true ->
  exists new, tr (snd (tgt_sem (compile p) x)) = new ++ tr x /\ stack_run (rev new) [] <> None.
Proof.
  intros p x H. destruct (lifo_order p x H) as (new & s' & Ht & Hr & _).
  exists new. split; [exact Ht|]. rewrite Hr. discriminate.
Qed.

(* the value a function returns is the one its return expression had before any clean-up ran *)
Lemma return_value_fixed_before_cleanup : forall lp es rest ds fin x,
  rstmts lp (BCons (Return es) rest) ds fin x = run_defers ds (Ret (fst (evalxs es x))) (snd (evalxs es x)).
Proof. intros. cbn [rstmts rstmt]. destruct (evalxs es x) as [vs x1]. reflexivity. Qed.

Example discipline_example :
  stack_run [EvG 1; EvG 2; EvE 5; EvU 2; EvU 1] [] = Some [] /\
  stack_run [EvG 1; EvG 2; EvU 1] [] = None /\ stack_run [EvU 1] [] = None /\ stack_run [EvG 1; EvU 1; EvU 1] [] = None.
Proof. repeat split. Qed.
