(* C15: the Fuel outcome of the loop combinators (bound = oracle length + 1) is unreachable. *)
From Coq Require Import List Bool Arith Lia.
From C15 Require Import Model Proofs.
Import ListNotations.
Local Open Scope list_scope.

(* ================================================================== the Fuel outcome is unreachable *)
Definition len (x:st) : nat := length (orc x).

(* the oracle never grows, no Fuel, and a pending `continue` of a repeat loop (lp <> None) has consumed a value *)
Definition okr (lp:option nat) (x:st) (r:res) : Prop :=
  len (snd r) <= len x /\ fst r <> Fuel /\
  (forall b, fst r = Cnt b -> lp <> None -> len (snd r) < len x).

Definition clo_ok (lp:option nat) (g:closure) : Prop := forall y, okr lp y (g y).

Lemma cond_len : forall c x v x1, cond c x = Some (v, x1) -> S (len x1) = len x.
Proof.
  intros c x v x1 H. unfold cond in H. unfold len. destruct (orc x) as [|v0 r] eqn:E; [discriminate|].
  inversion H; subst. simpl. reflexivity.
Qed.

Lemma emit_len : forall e x, len (emit e x) = len x.
Proof. reflexivity. Qed.

Lemma okr_weaken : forall lp x0 x r, len x <= len x0 -> okr lp x r -> okr lp x0 r.
Proof.
  intros lp x0 x r Hl (H1 & H2 & H3). repeat split; [lia | exact H2 |].
  intros b Hb Hlp. specialize (H3 b Hb Hlp). lia.
Qed.

Lemma okr_plain : forall lp x o x1, len x1 <= len x -> o <> Fuel -> (forall b, o <> Cnt b) -> okr lp x (o, x1).
Proof.
  intros lp x o x1 Hl Ho Hc. repeat split; [exact Hl | exact Ho |]. intros b Hb. exfalso. exact (Hc b Hb).
Qed.

Lemma run_defers_ok : forall lp ds o x x0, Forall (clo_ok lp) ds -> o <> Fuel -> len x <= len x0 ->
  (forall b, o = Cnt b -> lp <> None -> len x < len x0) -> okr lp x0 (run_defers ds o x).
Proof.
  intros lp ds. induction ds as [|g r IH]; intros o x x0 Hds Ho Hl Hs; cbn [run_defers].
  - repeat split; [exact Hl | exact Ho | exact Hs].
  - inversion Hds as [|? ? Hg Hr]; subst. destruct (Hg x) as (G1 & G2 & G3).
    destruct (g x) as [o1 x1]. cbn [fst snd] in *.
    destruct o1; try (apply IH; [exact Hr | discriminate | lia |];
                      intros b Hb Hlp; try discriminate Hb;
                      try (specialize (G3 b Hb Hlp); lia)).
    + (* Nrm *) apply IH; [exact Hr | exact Ho | lia |]. intros b Hb Hlp. specialize (Hs b Hb Hlp). lia.
    + (* Abort *) apply okr_plain; [lia | discriminate | discriminate].
    + (* Fuel *) exfalso. apply G2. reflexivity.
Qed.

Lemma while_ok : forall lp c body, (forall y, okr None y (body y)) ->
  forall n x, len x < n -> okr lp x (while_loop n c body x).
Proof.
  intros lp c body Hb. induction n as [|n IH]; intros x Hn; [lia|]. cbn [while_loop].
  destruct (cond c x) as [[v x1]|] eqn:Ec.
  - pose proof (cond_len _ _ _ _ Ec) as Hc.
    destruct (truthy v); [|apply okr_plain; [lia | discriminate | discriminate]].
    destruct (Hb x1) as (B1 & B2 & _). destruct (body x1) as [o x2]. cbn [fst snd] in *.
    destruct o; try (apply okr_plain; [lia | discriminate | discriminate]);
      try (eapply okr_weaken; [|apply IH; lia]; lia).
    exfalso. apply B2. reflexivity.
  - apply okr_plain; [lia | discriminate | discriminate].
Qed.

Lemma repeat_ok : forall lp c body,
  (forall y, okr (Some c) y (body y) /\ fst (body y) <> Nrm) ->
  forall n x, len x < n -> okr lp x (repeat_loop n body x).
Proof.
  intros lp c body Hb. induction n as [|n IH]; intros x Hn; [lia|]. cbn [repeat_loop].
  destruct (Hb x) as ((B1 & B2 & B3) & B4). destruct (body x) as [o x2]. cbn [fst snd] in *.
  destruct o; try (apply okr_plain; [lia | discriminate | discriminate]).
  - exfalso. apply B4. reflexivity.
  - specialize (B3 stop eq_refl ltac:(discriminate)).
    destruct stop; [apply okr_plain; [lia | discriminate | discriminate]|].
    eapply okr_weaken; [|apply IH; lia]. lia.
  - exfalso. apply B2. reflexivity.
Qed.

Lemma for_ok : forall lp body, (forall y, okr None y (body y)) ->
  forall n x, okr lp x (for_loop n body x).
Proof.
  intros lp body Hb. induction n as [|n IH]; intros x; cbn [for_loop].
  - apply okr_plain; [lia | discriminate | discriminate].
  - destruct (Hb x) as (B1 & B2 & _). destruct (body x) as [o x2]. cbn [fst snd] in *.
    destruct o; try (apply okr_plain; [lia | discriminate | discriminate]);
      try (eapply okr_weaken; [|apply IH]; lia).
    exfalso. apply B2. reflexivity.
Qed.

Lemma run_defers_not_nrm : forall ds o x, o <> Nrm -> fst (run_defers ds o x) <> Nrm.
Proof.
  induction ds as [|g r IH]; intros o x Ho; cbn [run_defers]; [exact Ho|].
  destruct (g x) as [o1 x1]. destruct o1; try (apply IH; discriminate); try (cbn; discriminate). apply IH. exact Ho.
Qed.

Lemma evalxs_len : forall es x, len (snd (evalxs es x)) = len x.
Proof.
  induction es as [|e r IH]; intro x; cbn [evalxs]; [reflexivity|]. unfold evalx.
  specialize (IH (emit (EvR e) x)). destruct (evalxs r (emit (EvR e) x)) as [vs x2]. cbn [snd] in *. rewrite IH. apply emit_len.
Qed.

Lemma emit_vals_len : forall vs x, len (emit_vals vs x) = len x.
Proof.
  induction vs as [|v r IH]; intro x; unfold emit_vals; cbn [fold_left]; [reflexivity|].
  fold (emit_vals r (emit (EvV v) x)). rewrite IH. apply emit_len.
Qed.

Definition defer_clo_ok (s:stmt) : Prop :=
  match s with
  | Defer d body => forall lp, clo_ok lp (fun y => rstmts lp body [] None (emit (EvU d) y))
  | _ => True
  end.

Lemma close_closures_ok : forall lp ks, Forall (clo_ok lp) (rev (map close_closure ks)).
Proof.
  intros lp ks. apply Forall_rev. induction ks as [|k r IH]; constructor; auto.
  intro y. unfold close_closure. apply okr_plain; [rewrite emit_len; lia | discriminate | discriminate].
Qed.

Lemma reg_all_len : forall ks x, len (reg_all ks x) = len x.
Proof. induction ks as [|k r IH]; intro x; simpl; [reflexivity|]. unfold reg_all in *. simpl. rewrite IH. reflexivity. Qed.

Lemma no_fuel :
  (forall s, (forall lp x, okr lp x (rstmt lp s x)) /\ defer_clo_ok s) /\
  (forall b, forall lp ds fin x, Forall (clo_ok lp) ds ->
      okr lp x (rstmts lp b ds fin x) /\ (fin <> None -> fst (rstmts lp b ds fin x) <> Nrm)) /\
  (forall cs, forall lp d v x, (forall y, okr lp y (d y)) -> okr lp x (rcases lp cs d v x)).
Proof.
  apply sbc_mutind.
  - (* Emit *) intro k. split; [|exact I]. intros. cbn [rstmt]. apply okr_plain; [rewrite emit_len; lia | discriminate | discriminate].
  - (* Defer *) intros d b IH. split.
    + intros. cbn [rstmt]. apply okr_plain; [lia | discriminate | discriminate].
    + intros lp y. eapply okr_weaken; [|apply (IH lp [] None (emit (EvU d) y) (Forall_nil _))]. rewrite emit_len. lia.
  - (* Close *) intro ks. split; [|exact I]. intros. cbn [rstmt]. apply okr_plain; [lia | discriminate | discriminate].
  - (* Do *) intros b IH. split; [|exact I]. intros lp x. cbn [rstmt]. apply (IH lp [] None x (Forall_nil _)).
  - (* If *) intros c t IHt e IHe. split; [|exact I]. intros lp x. cbn [rstmt].
    destruct (cond c x) as [[v x1]|] eqn:Ec; [|apply okr_plain; [lia | discriminate | discriminate]].
    pose proof (cond_len _ _ _ _ Ec).
    destruct (truthy v); (eapply okr_weaken; [|first [apply (IHt lp [] None x1 (Forall_nil _)) | apply (IHe lp [] None x1 (Forall_nil _))]]; lia).
  - (* While *) intros c b IH. split; [|exact I]. intros lp x. cbn [rstmt].
    apply while_ok; [|unfold len; lia]. intro y. apply (IH None [] None y (Forall_nil _)).
  - (* Repeat *) intros b IH c. split; [|exact I]. intros lp x. cbn [rstmt].
    apply (repeat_ok lp c); [|unfold len; lia]. intro y.
    destruct (IH (Some c) [] (Some c) y (Forall_nil _)) as [H1 H2]. split; [exact H1 | apply H2; discriminate].
  - (* For *) intros n b IH. split; [|exact I]. intros lp x. cbn [rstmt].
    apply for_ok. intro y. apply (IH None [] None y (Forall_nil _)).
  - (* Switch *) intros c cs IHc d IHd. split; [|exact I]. intros lp x. cbn [rstmt].
    destruct (cond c x) as [[v x1]|] eqn:Ec; [|apply okr_plain; [lia | discriminate | discriminate]].
    pose proof (cond_len _ _ _ _ Ec).
    assert (Hd : forall y, okr lp y (rstmts lp d [] None y)) by (intro y; apply (IHd lp [] None y (Forall_nil _))).
    pose proof (IHc lp (fun y => rstmts lp d [] None y) (Some v) x1 Hd) as Hr.
    eapply okr_weaken with (x := x1); [lia|].
    destruct (rcases lp cs (fun y => rstmts lp d [] None y) (Some v) x1) as [o x2].
    destruct o; try exact Hr. destruct Hr as (R1 & R2 & R3). cbn [relabel_break].
    apply okr_plain; [exact R1 | discriminate | discriminate].
  - (* DoExpr *) intros b IH. split; [|exact I]. intros lp x. cbn [rstmt].
    destruct (IH lp [] None x (Forall_nil _)) as [Hr _].
    destruct (rstmts lp b [] None x) as [o x1]. unfold doexpr_result.
    destruct o; try exact Hr; destruct Hr as (R1 & _); cbn [fst snd] in *;
      (apply okr_plain; [rewrite emit_len; exact R1 | discriminate | discriminate]).
  - (* In *) intro e. split; [|exact I]. intros. cbn [rstmt]. unfold evalx. apply okr_plain; [rewrite emit_len; lia | discriminate | discriminate].
  - (* Break *) split; [|exact I]. intros. cbn [rstmt]. apply okr_plain; [lia | discriminate | discriminate].
  - (* Continue *) split; [|exact I]. intros lp x. cbn [rstmt]. unfold continue_res.
    destruct lp as [c|].
    + destruct (cond c x) as [[v x1]|] eqn:Ec; [|apply okr_plain; [lia | discriminate | discriminate]].
      pose proof (cond_len _ _ _ _ Ec). repeat split; cbn [fst snd]; [lia | discriminate | intros; lia].
    + repeat split; cbn [fst snd]; [lia | discriminate | intros b _ H; exfalso; apply H; reflexivity].
  - (* Return *) intro e. split; [|exact I]. intros lp x. cbn [rstmt].
    pose proof (evalxs_len e x) as Hl. destruct (evalxs e x) as [vs x1]. cbn [snd] in Hl.
    apply okr_plain; [lia | discriminate | discriminate].
  - (* ReturnVoid *) split; [|exact I]. intros. cbn [rstmt]. apply okr_plain; [lia | discriminate | discriminate].
  - (* FnCall *) intros void b IH. split; [|exact I]. intros lp x. cbn [rstmt].
    destruct (IH None [] None x (Forall_nil _)) as [(R1 & R2 & _) _].
    destruct (rstmts None b [] None x) as [o x1]. unfold call_result. cbn [fst snd] in *.
    destruct o; try (destruct void; (apply okr_plain; [try rewrite emit_len; try rewrite emit_vals_len; exact R1 | discriminate | discriminate]));
      try (apply okr_plain; [exact R1 | discriminate | discriminate]).
    exfalso. apply R2. reflexivity.
  - (* BNil *) intros lp ds fin x Hds. cbn [rstmts]. destruct fin as [c|].
    + destruct (cond c x) as [[v x1]|] eqn:Ec.
      * pose proof (cond_len _ _ _ _ Ec).
        assert (Hr : okr lp x (run_defers ds (Cnt (truthy v)) x1))
          by (apply run_defers_ok; [exact Hds | discriminate | lia | intros; lia]).
        split; [exact Hr|]. intros _. apply run_defers_not_nrm. discriminate.
      * split; [apply okr_plain; [lia | discriminate | discriminate] | intros _; discriminate].
    + split; [apply run_defers_ok; [exact Hds | discriminate | lia | intros b Hb; discriminate Hb] | intro H; exfalso; apply H; reflexivity].
  - (* BCons *) intros s [IHs IHd] r IHr lp ds fin x Hds.
    assert (Hgen : okr lp x (match rstmt lp s x with
        | (Nrm, x1) => rstmts lp r ds fin x1 | (Abort, x1) => (Abort, x1) | (Fuel, x1) => (Fuel, x1)
        | (o, x1) => run_defers ds o x1 end) /\
      (fin <> None -> fst (match rstmt lp s x with
        | (Nrm, x1) => rstmts lp r ds fin x1 | (Abort, x1) => (Abort, x1) | (Fuel, x1) => (Fuel, x1)
        | (o, x1) => run_defers ds o x1 end) <> Nrm)).
    { destruct (IHs lp x) as (S1 & S2 & S3). destruct (rstmt lp s x) as [o x1]. cbn [fst snd] in *.
      destruct o;
        try (split; [apply run_defers_ok; [exact Hds | discriminate | exact S1 | intros b0 Hb Hlp; try discriminate Hb] | intros _; apply run_defers_not_nrm; discriminate]).
      - destruct (IHr lp ds fin x1 Hds) as [R1 R2]. split; [eapply okr_weaken; [exact S1 | exact R1] | exact R2].
      - inversion Hb; subst. exact (S3 _ eq_refl Hlp).
      - split; [apply okr_plain; [exact S1 | discriminate | discriminate] | intros _; discriminate].
      - exfalso. apply S2. reflexivity. }
    destruct s; try exact Hgen; cbn [rstmts].
    + (* Defer *)
      destruct (IHr lp ((fun y => rstmts lp b [] None (emit (EvU d) y)) :: ds) fin (emit (EvG d) x)) as [R1 R2].
      { constructor; [exact (IHd lp) | exact Hds]. }
      split; [eapply okr_weaken; [|exact R1]; rewrite emit_len; lia | exact R2].
    + (* Close *)
      destruct (IHr lp (rev (map close_closure (map fst ks)) ++ ds) fin (reg_all (map fst ks) x)) as [R1 R2].
      { apply Forall_app. split; [apply close_closures_ok | exact Hds]. }
      split; [eapply okr_weaken; [|exact R1]; rewrite reg_all_len; lia | exact R2].
  - (* CNil *) intros lp d v x Hd. cbn [rcases]. apply Hd.
  - (* CCons *) intros b IHb ft r IHr lp d v x Hd. cbn [rcases].
    assert (Hcase : okr lp x (match rstmts lp b [] None x with
        | (Nrm, x1) => if ft then rcases lp r d None x1 else (Nrm, x1) | q => q end)).
    { destruct (IHb lp [] None x (Forall_nil _)) as [Hr _].
      destruct (rstmts lp b [] None x) as [o x1]. destruct o; try exact Hr.
      destruct ft; [|exact Hr]. destruct Hr as (R1 & _). cbn [snd] in R1.
      eapply okr_weaken; [exact R1 | apply (IHr lp d None x1 Hd)]. }
    destruct v as [[|k]|]; try exact Hcase. apply (IHr lp d (Some k) x Hd).
Qed.

Theorem ref_never_out_of_fuel : forall p x, fst (ref_sem p x) <> Fuel.
Proof.
  intros [void body] x. unfold ref_sem. cbn [fst snd].
  destruct (proj1 (proj1 no_fuel (FnCall void body)) None x) as (_ & H & _). exact H.
Qed.

Theorem tgt_never_out_of_fuel : forall p x, wf_prog p = true -> fst (tgt_sem (compile p) x) <> Fuel.
Proof. intros p x H. rewrite (defer_compile_correct_partial p x H). apply ref_never_out_of_fuel. Qed.
