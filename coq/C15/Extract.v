From Coq Require Import ZArith NArith.
From C15 Require Import Model Proofs.
Require Extraction.
Require Import ExtrOcamlBasic.
(* Z.of_nat / N.of_nat only so that ocaml/zutil.ml (which mentions z, n, positive) links *)
Extraction "model.ml" ref_sem compile tgt_sem accepted desugar_block mkst Z.of_nat N.of_nat.
