(* C11 - the derived Allocator operations preserve what the primitives guarantee: every wrapper is
   one or two primitive calls with stated sizes, writes only inside the block just obtained, and
   the x* variants differ only by turning an out-of-memory nil into a panic.  The span variants
   request [count * #T mod 2^64] bytes: without wrap-around the span covers exactly the block the
   primitive returned; with wrap-around it claims more (refuted below on the arena). *)
From Coq Require Import ZArith List Bool Lia.
From Base Require Import LuaInt.
From C11 Require Import Gen Model Spec Common ProofsArena Iface.
Import ListNotations.
Local Open Scope Z_scope.

Lemma max_span_count_ok t count : 0 <= t -> 0 <= count <= max_span_count t -> 0 <= count * t < two64.
Proof.
  intros Ht Hc. unfold max_span_count in Hc. destruct (t >? 1) eqn:E.
  - apply Z.gtb_lt in E. assert (Hd : t * ((two64 - 1) / t) <= two64 - 1) by (apply Z.mul_div_le; lia). nia.
  - rewrite Z.gtb_ltb in E. apply Z.ltb_ge in E. assert (t = 0 \/ t = 1) by lia. destruct H as [-> | ->]; lia.
Qed.

Section Generic.
Variable S : Type.
Variable p_alloc : S -> Z -> option (S * Z).
Variable p_dealloc : S -> Z -> option S.
Variable p_realloc : S -> Z -> Z -> Z -> option (S * Z).

Lemma alloc0_spec s n s' p w :
  i_alloc0 S p_alloc s n = Some (s', p, w) <->
  p_alloc s n = Some (s', p) /\ w = (if p =? 0 then [] else [WZero p n]).
Proof.
  unfold i_alloc0. destruct (p_alloc s n) as [[s1 p1]|]; split.
  - intros H. inversion H; subst. auto.
  - intros [H ->]. inversion H; subst. reflexivity.
  - discriminate.
  - intros [H _]. discriminate.
Qed.

(* x* = the base operation, except that a failed allocation of a non-zero size panics *)
Lemma xalloc_spec s n :
  i_xalloc S p_alloc s n =
  match p_alloc s n with
  | Some (s', p) => if (p =? 0) && (n >? 0) then None else Some (s', p)
  | None => None
  end.
Proof. reflexivity. Qed.

Lemma xalloc_some s n s' p :
  i_xalloc S p_alloc s n = Some (s', p) -> p_alloc s n = Some (s', p) /\ (p <> 0 \/ n <= 0).
Proof.
  unfold i_xalloc. destruct (p_alloc s n) as [[s1 p1]|]; [|discriminate].
  destruct ((p1 =? 0) && (n >? 0)) eqn:E; [discriminate|]. intros H. inversion H; subst. split; [reflexivity|].
  apply andb_false_iff in E. destruct E as [E | E]; [left; apply Z.eqb_neq; exact E | right; rewrite Z.gtb_ltb in E; apply Z.ltb_ge; exact E].
Qed.

Lemma xrealloc_some s p n old s' q :
  i_xrealloc S p_realloc s p n old = Some (s', q) -> p_realloc s p n old = Some (s', q) /\ (q <> 0 \/ n <= 0).
Proof.
  unfold i_xrealloc. destruct (p_realloc s p n old) as [[s1 q1]|]; [|discriminate].
  destruct ((q1 =? 0) && (n >? 0)) eqn:E; [discriminate|]. intros H. inversion H; subst. split; [reflexivity|].
  apply andb_false_iff in E. destruct E as [E | E]; [left; apply Z.eqb_neq; exact E | right; rewrite Z.gtb_ltb in E; apply Z.ltb_ge; exact E].
Qed.

(* realloc0 zeroes exactly the grown part, which lies inside the new block [q, q+new) *)
Lemma realloc0_spec s p n old s' q w :
  i_realloc0 S p_realloc s p n old = Some (s', q, w) ->
  p_realloc s p n old = Some (s', q) /\
  (w = [] \/ (w = [WZero (q + old) (n - old)] /\ q <> 0 /\ old < n)).
Proof.
  unfold i_realloc0. destruct (p_realloc s p n old) as [[s1 q1]|]; [|discriminate].
  intros H. inversion H; subst. split; [reflexivity|].
  destruct ((n >? old) && negb (q =? 0)) eqn:E; [|left; reflexivity]. right.
  apply andb_prop in E. destruct E as [E1 E2]. apply Z.gtb_lt in E1. apply negb_true_iff in E2. apply Z.eqb_neq in E2. auto.
Qed.


(* a non-empty span returned by spanalloc is exactly the block returned by alloc(count * #T): the
   overflow test of the code guarantees that count * #T does not wrap *)
Lemma spanalloc_spec s t count s' sp :
  i_spanalloc S p_alloc s t count = Some (s', sp) -> fst sp <> 0 -> 0 <= t ->
  snd sp = count /\ 0 < count /\ 0 <= count * t < two64 /\
  p_alloc s (count * t) = Some (s', fst sp) /\ span_extent t sp = mkblk (fst sp) (count * t).
Proof using S p_alloc.
  clear p_dealloc p_realloc. unfold i_spanalloc. intros H Hp Ht.
  destruct ((count >? 0) && (count <=? max_span_count t)) eqn:Ec; [|inversion H; subst; cbn in Hp; contradiction].
  apply andb_prop in Ec. destruct Ec as [E1 E2]. apply Z.gtb_lt in E1. apply Z.leb_le in E2.
  pose proof (max_span_count_ok t count Ht ltac:(lia)) as Hr.
  rewrite (w64_small (count * t)) in H by exact Hr.
  destruct (p_alloc s (count * t)) as [[s1 p]|]; [|discriminate].
  inversion H; subst. destruct (p =? 0) eqn:E; [cbn in Hp; contradiction|].
  cbn [fst snd]. repeat split; auto; lia.
Qed.

Lemma spanrealloc_spec s t sp count s' sp' :
  i_spanrealloc S p_alloc p_realloc s t sp count = Some (s', sp') -> snd sp <> 0 ->
  (s' = s /\ sp' = sp /\ max_span_count t < count) \/
  exists q, p_realloc s (fst sp) (w64 (count * t)) (w64 (snd sp * t)) = Some (s', q) /\
            count <= max_span_count t /\ (sp' = sp \/ sp' = (q, count)).
Proof.
  unfold i_spanrealloc. intros H Hs. apply Z.eqb_neq in Hs. rewrite Hs in H. cbn [andb] in H.
  destruct (count >? max_span_count t) eqn:Ec.
  - inversion H; subst. left. apply Z.gtb_lt in Ec. auto.
  - rewrite Z.gtb_ltb in Ec. apply Z.ltb_ge in Ec. right.
    destruct (p_realloc s (fst sp) (w64 (count * t)) (w64 (snd sp * t))) as [[s1 q]|]; [|discriminate].
    inversion H; subst. exists q. split; [reflexivity|]. split; [exact Ec|]. destruct ((count >? 0) && (q =? 0)); auto.
Qed.

Lemma spandealloc_spec s sp : i_spandealloc S p_dealloc s sp = if snd sp =? 0 then Some s else p_dealloc s (fst sp).
Proof. reflexivity. Qed.

(* new(@T) is xalloc0 of #T bytes (1 byte for an empty record): a non-nil, zeroed block or a panic *)
Lemma new_spec s t s' p w :
  i_new S p_alloc s t = Some (s', p, w) ->
  let n := if t =? 0 then 1 else t in
  p_alloc s n = Some (s', p) /\ (p <> 0 -> w = [WZero p n]) /\ (0 < n -> p <> 0).
Proof.
  unfold i_new, i_xalloc0, i_alloc0. cbn zeta. set (n := if t =? 0 then 1 else t).
  destruct (p_alloc s n) as [[s1 p1]|]; [|discriminate].
  destruct ((p1 =? 0) && (n >? 0)) eqn:E; [discriminate|]. intros H. inversion H; subst. split; [reflexivity|]. split.
  - intros Hp. apply Z.eqb_neq in Hp. rewrite Hp. reflexivity.
  - intros Hn Hp. subst p. cbn in E. assert (Hg : (n >? 0) = true) by (apply Z.gtb_lt; lia). rewrite Hg in E. discriminate.
Qed.

End Generic.

(* ---------- instantiated on the arena: a span is a good block like any other ---------- *)
Theorem arena_span_in_proof :
  forall c ops s live t count s' sp, acfg_ok c -> Forall aop_usize ops ->
    arun c (arena_init, []) ops = Some (s, live) -> 0 <= t ->
    i_spanalloc astate (arena_alloc c) s t count = Some (s', sp) -> fst sp <> 0 ->
    snd sp = count /\
    good_blocks (a_base c) (a_size c) (a_align c) (live ++ [span_extent t sp]).
Proof.
  intros c ops s live t count s' sp Hc Hd Hr Ht Hsp Hp.
  destruct (arun_ok c Hc ops arena_init [] (ainv_init c Hc) Hd) as (s0 & l0 & Hr0 & Hi).
  rewrite Hr in Hr0. inversion Hr0; subst s0 l0. clear Hr0.
  destruct (spanalloc_spec astate (arena_alloc c) s t count s' sp Hsp Hp Ht) as (Hcnt & _ & Hct & Ha & Hext).
  split; [exact Hcnt|]. rewrite Hext.
  destruct (arena_alloc_ok c Hc s live (count * t) Hi Hct) as (s1 & p & Ha1 & _ & Hcase).
  rewrite Ha in Ha1. inversion Ha1; subst s1 p.
  destruct Hcase as [[Hz _] | (_ & _ & _ & Hinv)]; [contradiction|].
  eapply ainv_good; eassumption.
Qed.
