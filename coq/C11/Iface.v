(* C11 - the derived operations that Allocator_implement_interface (lib/allocators/allocator.nelua)
   generates from the four primitives of an allocator.

   Generic in the state type [S] and in the primitives (None = a run-time check failed / panic;
   pointer 0 = nilptr).  The byte writes a wrapper performs (memory.zero / memory.move) are returned
   as a list next to the result, so that "what is written" is part of the statement.
   Sizes are usize: [count * #T] is reduced mod 2^64 exactly as the code computes it, behind the
   overflow test [count <= usize.max // #T] of the span operations (repair 942989e).  No proofs in this file. *)
From Coq Require Import ZArith List Bool.
From Base Require Import LuaInt.
From C11 Require Import Gen Model.
Import ListNotations.
Local Open Scope Z_scope.

Inductive bwrite := WZero (p n : Z) | WMove (dst src n : Z).

Section Iface.
Variable S : Type.
Variable p_alloc : S -> Z -> option (S * Z).
Variable p_dealloc : S -> Z -> option S.
Variable p_realloc : S -> Z -> Z -> Z -> option (S * Z).

(* xalloc: panic('out of memory') when the allocation of a non-zero size fails *)
Definition i_xalloc (s : S) (size : Z) : option (S * Z) :=
  match p_alloc s size with
  | Some (s', p) => if (p =? 0) && (size >? 0) then None else Some (s', p)
  | None => None
  end.

Definition i_alloc0 (s : S) (size : Z) : option (S * Z * list bwrite) :=
  match p_alloc s size with
  | Some (s', p) => Some (s', p, if p =? 0 then [] else [WZero p size])
  | None => None
  end.

Definition i_xalloc0 (s : S) (size : Z) : option (S * Z * list bwrite) :=
  match i_alloc0 s size with
  | Some (s', p, w) => if (p =? 0) && (size >? 0) then None else Some (s', p, w)
  | None => None
  end.

(* the default Allocator:realloc, used by allocators that define none (AlignedAllocator) *)
Definition i_realloc_default (s : S) (p newsize oldsize : Z) : option (S * Z * list bwrite) :=
  if p =? 0 then match p_alloc s newsize with Some (s', q) => Some (s', q, []) | None => None end
  else if newsize =? 0 then match p_dealloc s p with Some s' => Some (s', 0, []) | None => None end
  else if newsize =? oldsize then Some (s, p, [])
  else
    match p_alloc s newsize with
    | None => None
    | Some (s1, newp) =>
        if newp =? 0 then Some (s1, 0, [])
        else
          let w := if oldsize >? 0 then [WMove newp p (if newsize <? oldsize then newsize else oldsize)] else [] in
          match p_dealloc s1 p with
          | Some s2 => Some (s2, newp, w)
          | None => None
          end
    end.

Definition i_xrealloc (s : S) (p newsize oldsize : Z) : option (S * Z) :=
  match p_realloc s p newsize oldsize with
  | Some (s', q) => if (q =? 0) && (newsize >? 0) then None else Some (s', q)
  | None => None
  end.

Definition i_realloc0 (s : S) (p newsize oldsize : Z) : option (S * Z * list bwrite) :=
  match p_realloc s p newsize oldsize with
  | Some (s', q) =>
      Some (s', q, if (newsize >? oldsize) && negb (q =? 0) then [WZero (q + oldsize) (newsize - oldsize)] else [])
  | None => None
  end.

Definition i_xrealloc0 (s : S) (p newsize oldsize : Z) : option (S * Z * list bwrite) :=
  match i_realloc0 s p newsize oldsize with
  | Some (s', q, w) => if (q =? 0) && (newsize >? 0) then None else Some (s', q, w)
  | None => None
  end.

(* spans of T: (data pointer, element count); [tsize] = #T *)
Definition span := (Z * Z)%type.
Definition empty_span : span := (0, 0).

(* Allocator_max_span_count(T): the largest element count whose byte size fits in usize *)
Definition max_span_count (tsize : Z) : Z := if tsize >? 1 then (two64 - 1) / tsize else two64 - 1.

Definition i_spanalloc (s : S) (tsize count : Z) : option (S * span) :=
  if (count >? 0) && (count <=? max_span_count tsize) then
    match p_alloc s (w64 (count * tsize)) with
    | Some (s', p) => Some (s', if p =? 0 then empty_span else (p, count))
    | None => None
    end
  else Some (s, empty_span).

Definition i_spanalloc0 (s : S) (tsize count : Z) : option (S * span * list bwrite) :=
  if (count >? 0) && (count <=? max_span_count tsize) then
    match i_alloc0 s (w64 (count * tsize)) with
    | Some (s', p, w) => Some (s', (if p =? 0 then empty_span else (p, count)), w)
    | None => None
    end
  else Some (s, empty_span, []).

Definition i_xspanalloc (s : S) (tsize count : Z) : option (S * span) :=
  match i_spanalloc s tsize count with
  | Some (s', sp) => if snd sp =? count then Some (s', sp) else None
  | None => None
  end.

Definition i_spandealloc (s : S) (sp : span) : option S :=
  if snd sp =? 0 then Some s else p_dealloc s (fst sp).

Definition i_spanrealloc (s : S) (tsize : Z) (sp : span) (count : Z) : option (S * span) :=
  if (snd sp =? 0) && (count >? 0) then i_spanalloc s tsize count
  else if count >? max_span_count tsize then Some (s, sp)
  else
    match p_realloc s (fst sp) (w64 (count * tsize)) (w64 (snd sp * tsize)) with
    | Some (s', p) => Some (s', if (count >? 0) && (p =? 0) then sp else (p, count))
    | None => None
    end.

Definition i_spanrealloc0 (s : S) (tsize : Z) (sp : span) (count : Z) : option (S * span * list bwrite) :=
  if (snd sp =? 0) && (count >? 0) then i_spanalloc0 s tsize count
  else if count >? max_span_count tsize then Some (s, sp, [])
  else
    match i_realloc0 s (fst sp) (w64 (count * tsize)) (w64 (snd sp * tsize)) with
    | Some (s', p, w) => Some (s', (if (count >? 0) && (p =? 0) then sp else (p, count)), w)
    | None => None
    end.

(* new(@T): xalloc0(#T), or of 1 byte for a zero-sized T; new(@T, n): xspanalloc0; delete: dealloc *)
Definition i_new (s : S) (tsize : Z) : option (S * Z * list bwrite) :=
  i_xalloc0 s (if tsize =? 0 then 1 else tsize).
Definition i_new_span (s : S) (tsize count : Z) : option (S * span * list bwrite) :=
  match i_spanalloc0 s tsize count with
  | Some (s', sp, w) => if snd sp =? count then Some (s', sp, w) else None
  | None => None
  end.
Definition i_delete (s : S) (p : Z) : option S := p_dealloc s p.

End Iface.

(* the bytes a span claims *)
Definition span_extent (tsize : Z) (sp : span) : blk := mkblk (fst sp) (snd sp * tsize).
