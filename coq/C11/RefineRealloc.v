(* C11 - refinement, part 4: realloc of the memory-level heap model simulates the abstract one *)
From Coq Require Import ZArith List Bool Lia.
From Base Require Import LuaInt.
From C11 Require Import Gen Model Heap HeapA Spec SpecHeap Common ProofsHeap RefineBins RefineHeap RefineOps.
Import ListNotations.
Local Open Scope Z_scope.

(* unlinking a node and writing an unrelated word commute (pointwise) *)
Lemma unlink_mset_comm m node k v w :
  k <> node + 16 -> k <> node + 24 ->
  (n_prev m node <> 0 -> k <> n_prev m node + 16 /\ n_prev m node <> node /\ n_prev m node + 16 <> node + 24) ->
  (n_next m node <> 0 -> k <> n_next m node + 24) ->
  mget (unlink_mem (mset m k v) node) w = mget (mset (unlink_mem m node) k v) w.
Proof.
  intros K1 K2 K3 K4. unfold unlink_mem.
  assert (Ep : n_prev (mset m k v) node = n_prev m node) by (unfold n_prev; mm; reflexivity).
  assert (En : n_next (mset m k v) node = n_next m node) by (unfold n_next; mm; reflexivity).
  rewrite Ep, En.
  remember (n_prev m node) as pv. remember (n_next m node) as nx.
  destruct (pv =? 0) eqn:E1.
  - rewrite En, Ep, <- Heqnx, <- Heqpv.
    destruct (nx =? 0) eqn:E2; [reflexivity|]. apply Z.eqb_neq in E2. specialize (K4 E2).
    destruct (Z.eq_dec w k) as [-> | Hwk]; [mm; reflexivity|].
    destruct (Z.eq_dec w (nx + 24)) as [-> | Hwn]; mm; reflexivity.
  - apply Z.eqb_neq in E1. destruct (K3 E1) as (K3a & K3b & K3c).
    assert (En2 : n_next (mset (mset m k v) (pv + 16) nx) node = nx).
    { unfold n_next in *. mm. symmetry. exact Heqnx. }
    assert (Ep2 : n_prev (mset (mset m k v) (pv + 16) nx) node = pv).
    { unfold n_prev in *. mm. symmetry. exact Heqpv. }
    assert (En3 : n_next (mset m (pv + 16) nx) node = nx).
    { unfold n_next in *. mm. symmetry. exact Heqnx. }
    assert (Ep3 : n_prev (mset m (pv + 16) nx) node = pv).
    { unfold n_prev in *. mm. symmetry. exact Heqpv. }
    rewrite En2, Ep2, En3, Ep3.
    destruct (nx =? 0) eqn:E2.
    + destruct (Z.eq_dec w k) as [-> | Hwk]; [mm; reflexivity|].
      destruct (Z.eq_dec w (pv + 16)) as [-> | Hwp]; mm; reflexivity.
    + apply Z.eqb_neq in E2. specialize (K4 E2).
      destruct (Z.eq_dec w k) as [-> | Hwk]; [mm; reflexivity|].
      destruct (Z.eq_dec w (nx + 24)) as [-> | Hwn]; [mm; reflexivity|].
      destruct (Z.eq_dec w (pv + 16)) as [-> | Hwp]; mm; reflexivity.
Qed.

(* the link fields of a bin member point to other members of the same bin (or are nil) *)
Lemma member_links hs he m bins_c chunks bins_a i node :
  MI hs he m bins_c chunks bins_a -> 0 <= i < BIN_COUNT -> In node (bin_nth bins_a i) ->
  (n_prev m node = 0 \/ (In (n_prev m node) (bin_nth bins_a i) /\ n_prev m node <> node)) /\
  (n_next m node = 0 \/ (In (n_next m node) (bin_nth bins_a i) /\ n_next m node <> node)).
Proof.
  intros HM Hi Hin.
  destruct (rp_bins _ _ _ _ _ (mi_rep _ _ _ _ _ _ HM)) as (_ & _ & Hr). destruct (Hr i Hi) as [Hd _].
  destruct (mi_good _ _ _ _ _ _ HM) as [Hg _]. pose proof (Hg i Hi) as Hgi.
  destruct (in_split _ _ Hin) as (l1 & l2 & El). rewrite El in *.
  destruct (good_app_mid _ _ _ Hgi) as (Hno & Hn1 & Hn2 & Hg2 & Hl1).
  destruct (dll_fields m node l2 l1 0 Hd) as [Epv Enx]. split.
  - rewrite Epv. destruct l1 as [|c r]; [left; reflexivity|]. right.
    assert (Hl : In (last (c :: r) 0) (c :: r)).
    { destruct (@exists_last _ (c :: r) ltac:(discriminate)) as (l0 & pv & E). rewrite E. rewrite last_last. apply in_or_app. right. left. reflexivity. }
    split; [apply in_or_app; left; exact Hl|]. destruct (Hl1 _ Hl) as (_ & Hne & _). exact Hne.
  - rewrite Enx. destruct l2 as [|b r2]; [left; reflexivity|]. right. cbn [hd].
    split; [apply in_or_app; right; right; left; reflexivity|]. intros ->. apply Hn2. left. reflexivity.
Qed.

(* the tail of Heap:realloc *)
Definition c_shrink (bins : list Z) (m : mem) (head size p : Z) : hres (list Z * mem * Z) :=
  if (n_size m head >? size) && (n_size m head >? w64 (size + (NODE + MIN_ALLOC_SIZE)))
  then let '(bins, m) := split_chunk_coalesce bins m head size in HOk (bins, m, p)
  else HOk (bins, m, p).

Lemma shrink_sim hs he m bins_c pre x post bins_a size p :
  MI hs he m bins_c (pre ++ x :: post) bins_a -> c_used x = true ->
  0 <= size -> size mod 16 = 0 -> size <= c_sz x ->
  (forall nx post', post = nx :: post' ->
     if c_used nx then is_used m (c_addr nx) = true
     else In (c_addr nx) (bin_nth bins_a (get_bin_index (c_sz nx)))) ->
  exists bins_c' m', c_shrink bins_c m (c_addr x) size p = HOk (bins_c', m', p) /\
    Rep he m' bins_c' (fst (fst (ha_shrink pre x post bins_a size p))) (snd (fst (ha_shrink pre x post bins_a size p))) /\
    snd (ha_shrink pre x post bins_a size p) = p /\
    hframe (hdrs2 he (pre ++ x :: post) (fst (fst (ha_shrink pre x post bins_a size p)))) m m'.
Proof.
  intros HM Hux Hs0 Hsm Hfit Hnext. pose proof HM as [Hpos Htop Ht Hal Hmem Hgood Hrep].
  pose proof NODE_eq as HN. pose proof MIN_range as HMr.
  assert (H64 : two64 = 18446744073709551616) by reflexivity.
  set (a := c_addr x) in *.
  assert (Hxin : In x (pre ++ x :: post)) by (apply in_or_app; right; left; reflexivity).
  destruct (chunk_bounds hs he _ Ht Hal x Hxin) as (Ha1 & Ha2 & Ha3 & Ha4). fold a in Ha1, Ha3, Ha4.
  pose proof (mi_size _ _ _ _ _ _ HM x Hxin) as Hsx. fold a in Hsx.
  pose proof (MI_len _ _ _ _ _ _ HM) as HLa.
  pose proof (tiled_next _ _ _ _ _ Ht) as Hnx. fold a in Hnx.
  destruct (tiled_mid _ _ _ _ _ Ht) as (m0 & Ht1 & Em0 & _ & Ht2 & Hpre & Hpost). fold a in Em0. subst m0.
  unfold c_shrink, ha_shrink, wants_split. rewrite Hsx.
  rewrite (w64_small (size + (NODE + MIN_ALLOC_SIZE))) by lia.
  destruct ((c_sz x >? size) && (c_sz x >? size + (NODE + MIN_ALLOC_SIZE))) eqn:E.
  2:{ eexists. eexists. split; [reflexivity|]. split; [exact Hrep | split; [reflexivity | apply hframe_refl]]. }
  apply andb_prop in E. destruct E as [_ E]. apply Z.gtb_lt in E.
  set (sp := a + NODE + size). set (rest := c_sz x - size - NODE). set (nx0 := a + NODE + c_sz x).
  set (m3 := mset (mset (mset m a size) sp rest) (sp + 8) a).
  assert (Esp : next_adj (mset m a size) a = sp).
  { unfold next_adj, n_size. mm. rewrite (w64_small (a + NODE)) by lia. apply w64_small. lia. }
  assert (Enx0 : next_adj m3 sp = nx0).
  { unfold next_adj, n_size, m3. mm. rewrite (w64_small (sp + NODE)) by (unfold sp; lia).
    rewrite w64_small by (unfold sp, rest; lia). unfold sp, rest, nx0. lia. }
  unfold split_chunk_coalesce. rewrite Hsx. rewrite (w64_small (c_sz x - size)) by lia.
  rewrite (w64_small (c_sz x - size - NODE)) by lia. fold rest. rewrite Esp. fold m3. rewrite Enx0.
  unfold split_addr, split_rest. fold a.
  rewrite (w64_small (a + NODE)) by lia. rewrite (w64_small (a + NODE + size)) by lia. fold sp.
  rewrite (w64_small (c_sz x - size)) by lia. rewrite (w64_small (c_sz x - size - NODE)) by lia. fold rest.
  (* words of m3 outside the three written ones *)
  assert (Hm3 : forall w, w <> a -> w <> sp -> w <> sp + 8 -> mget m3 w = mget m w).
  { intros w W1 W2 W3. unfold m3. mm. reflexivity. }
  (* sp is not a member of any bin *)
  assert (Hspnot : forall j, 0 <= j < BIN_COUNT -> ~ In sp (bin_nth bins_a j)).
  { intros j Hj Hc. destruct (Hmem j sp Hj Hc) as (z & Hz & Hza & _).
    destruct (in_mid_cases z x pre post Hz) as [-> | [Hz' | Hz']].
    - fold a in Hza. unfold sp in Hza. lia.
    - destruct (Hpre z Hz') as (? & ? & ?). unfold sp in Hza. lia.
    - destruct (Hpost z Hz') as (? & ? & ?). unfold sp in Hza. lia. }
  (* the simple case: the remainder is followed by a used chunk or the end node *)
  assert (Hsimple : is_used m3 nx0 = true ->
    exists bins_c' m', add_node bins_c (mset m3 (next_adj m3 sp + 8) sp) sp = (bins_c', m') /\
      Rep he m' bins_c' (pre ++ mkchunk a size true :: mkchunk sp rest false :: post) (bins_add bins_a rest sp) /\
      hframe (hdrs2 he (pre ++ x :: post) (pre ++ mkchunk a size true :: mkchunk sp rest false :: post)) m m').
  { intros _. rewrite Enx0. set (m4 := mset m3 (nx0 + 8) sp).
    assert (HM4 : MI hs he m4 bins_c (pre ++ mkchunk a size (c_used x) :: mkchunk sp rest false :: post) bins_a).
    { apply (M4_split hs he m m4 bins_c pre x post bins_a size HM Hs0 Hsm ltac:(lia)); fold a; fold sp; fold nx0; fold rest;
        unfold m4, m3; try (mm; reflexivity); unfold sp, nx0 in *; try lia.
      intros w W1 W2 W3 W4. mm. reflexivity. }
    rewrite Hux in HM4. set (x2 := mkchunk sp rest false) in *.
    assert (Hx2in : In x2 (pre ++ mkchunk a size true :: x2 :: post)) by (apply in_or_app; right; right; left; reflexivity).
    destruct (M2_push hs he m4 bins_c _ bins_a x2 HM4 Hx2in eq_refl Hspnot) as (bc1 & m5 & Hadd & HM5 & _).
    pose proof Hadd as Hadd0.
    cbn [c_addr c_sz x2] in Hadd, HM5. eexists. eexists. split; [exact Hadd|]. split; [exact (mi_rep _ _ _ _ _ _ HM5)|].
    set (S := hdrs2 he (pre ++ x :: post) (pre ++ mkchunk a size true :: x2 :: post)).
    assert (Sa : S a) by (left; left; apply in_map; exact Hxin).
    assert (Ssp : S sp) by (right; left; rewrite map_app; apply in_or_app; right; right; left; reflexivity).
    assert (Snx : S nx0) by (left; unfold nx0; rewrite <- Hnx; apply next_is_hdr).
    apply (hframe_trans S m m4).
    - unfold m4, m3.
      apply (hframe_step S nx0 8); [exact Snx | hk_solve | lia|].
      apply (hframe_step S sp 8); [exact Ssp | hk_solve | lia|].
      apply (hframe_step S sp 0); [exact Ssp | hk_solve | lia|].
      apply (hframe_step S a 0); [exact Sa | hk_solve | lia|]. apply hframe_refl.
    - apply (M2_hframe S hs he m4 bins_c _ bins_a x2 bc1 m5 HM4 Hx2in eq_refl Hspnot Hadd0). intros b0 Hb0. right. exact Hb0. }
  destruct post as [|nxc post'].
  - (* end node *)
    cbn [map hd] in Hnx. fold nx0 in Hnx.
    assert (Hu3 : is_used m3 nx0 = true).
    { destruct (rp_end _ _ _ _ _ Hrep) as [_ Eu]. rewrite <- Hnx. rewrite <- Eu.
      apply is_used_frame; apply Hm3; unfold sp in *; lia. }
    rewrite Hu3. cbn [negb]. destruct (Hsimple Hu3) as (bc' & m' & Hadd & Hrep' & Hfr').
    rewrite Hadd. eexists. eexists. split; [reflexivity|]. cbn [fst snd]. split; [exact Hrep' | split; [reflexivity | exact Hfr']].
  - cbn [map hd] in Hnx. fold nx0 in Hnx. specialize (Hnext nxc post' eq_refl).
    assert (Hnin : In nxc (pre ++ x :: nxc :: post')) by (apply in_or_app; right; right; left; reflexivity).
    destruct (chunk_bounds hs he _ Ht Hal nxc Hnin) as (Hn1 & Hn2 & Hn3 & Hn4).
    assert (Hfr3 : is_used m3 nx0 = is_used m nx0).
    { apply is_used_frame; apply Hm3; unfold sp, nx0 in *; lia. }
    destruct (c_used nxc) eqn:Eunx.
    + assert (Hu3 : is_used m3 nx0 = true) by (rewrite Hfr3, <- Hnx; exact Hnext).
      rewrite Hu3. cbn [negb]. destruct (Hsimple Hu3) as (bc' & m' & Hadd & Hrep' & Hfr').
      rewrite Hadd. eexists. eexists. split; [reflexivity|]. cbn [fst snd]. split; [exact Hrep' | split; [reflexivity | exact Hfr']].
    + (* the remainder absorbs the free chunk that follows *)
      pose proof Hnx as Enxa. rewrite Enxa in Hnext, Hn1, Hn3, Hn4 |- *. set (nxsz := c_sz nxc) in *.
      pose proof (get_bin_index_range nxsz) as Hbi. set (bi := get_bin_index nxsz) in *.
      assert (Hu3 : is_used m3 nx0 = false) by (rewrite Hfr3; apply (mi_member_not_used _ _ _ _ _ _ HM bi nx0 Hbi Hnext)).
      rewrite Hu3. cbn [negb].
      (* virtual memory with the prev_adj write of a plain split *)
      set (m3x := mset m3 (nx0 + 8) sp).
      set (x1 := mkchunk a size true). set (x2 := mkchunk sp rest false).
      assert (HM3x : MI hs he m3x bins_c (pre ++ x1 :: x2 :: nxc :: post') bins_a).
      { pose proof (M4_split hs he m m3x bins_c pre x (nxc :: post') bins_a size HM Hs0 Hsm ltac:(lia)) as HH.
        fold a in HH. fold sp in HH. fold nx0 in HH. fold rest in HH. rewrite Hux in HH. apply HH; unfold m3x, m3; try (mm; reflexivity); unfold sp, nx0 in *; try lia.
        intros w W1 W2 W3 W4. mm. reflexivity. }
      destruct (M1_unlink hs he m3x bins_c _ _ bi nx0 HM3x Hbi Hnext) as (bc1 & Hrm & HM1 & _).
      set (ba1 := bins_remove bins_a bi nx0) in *.
      (* the real unlink happens on m3 *)
      assert (Hsz3 : n_size m3 nx0 = nxsz).
      { unfold n_size. rewrite Hm3 by (unfold sp, nx0 in *; lia). pose proof (mi_size _ _ _ _ _ _ HM nxc Hnin) as Hq. rewrite Enxa in Hq. exact Hq. }
      assert (Hrm3 : remove_node bins_c m3 nx0 = (bc1, unlink_mem m3 nx0)).
      { unfold remove_node. rewrite Hsz3. fold bi. unfold remove_bin_node in Hrm |- *.
        assert (En : n_next m3x nx0 = n_next m3 nx0) by (unfold n_next, m3x; mm; reflexivity).
        rewrite En in Hrm. inversion Hrm as [[Hb1 Hb2]]. reflexivity. }
      rewrite Hrm3. set (mU := unlink_mem m3 nx0). set (mUx := unlink_mem m3x nx0) in *.
      (* the two memories agree except at nx0 + 8 *)
      destruct (member_links _ _ _ _ _ _ bi nx0 HM Hbi Hnext) as [Hlp Hln].
      assert (Hlinks3 : n_prev m3 nx0 = n_prev m nx0 /\ n_next m3 nx0 = n_next m nx0).
      { unfold n_prev, n_next. split; apply Hm3; unfold sp, nx0 in *; lia. }
      destruct Hlinks3 as [Elp Eln].
      assert (Hmem32 : forall b, In b (bin_nth bins_a bi) -> b <> nx0 -> b + 32 <= nx0 \/ nx0 + 32 <= b).
      { intros b Hb Hne. destruct (mi_member_hdr _ _ _ _ _ _ HM bi b Hbi Hb) as (Hbh & _).
        destruct (mi_member_hdr _ _ _ _ _ _ HM bi nx0 Hbi Hnext) as (Hnh & _).
        destruct (hdr_sep hs he _ Ht Hal b nx0 Hbh Hnh) as [? | ?]; [contradiction | assumption]. }
      assert (HUx : forall w, mget mUx w = mget (mset mU (nx0 + 8) sp) w).
      { intros w. unfold mUx, mU, m3x. apply unlink_mset_comm; try lia.
        - rewrite Elp. intros Hz. destruct Hlp as [? | [Hpin Hpne]]; [contradiction|].
          destruct (Hmem32 _ Hpin Hpne); repeat split; lia.
        - rewrite Eln. intros Hz. destruct Hln as [? | [Hnin' Hnne]]; [contradiction|].
          destruct (Hmem32 _ Hnin' Hnne); lia. }
      assert (Hx2in1 : In x2 (pre ++ x1 :: x2 :: nxc :: post')) by (apply in_or_app; right; right; left; reflexivity).
      assert (Hnin1 : In nxc (pre ++ x1 :: x2 :: nxc :: post')) by (apply in_or_app; right; right; right; left; reflexivity).
      assert (HszU_sp : n_size mU sp = rest).
      { pose proof (mi_size _ _ _ _ _ _ HM1 x2 Hx2in1) as Hq. cbn [c_addr c_sz x2] in Hq. unfold n_size in *.
        rewrite HUx in Hq. rewrite mget_mset_other in Hq by (unfold sp, nx0; lia). exact Hq. }
      assert (HszU_nx : n_size mU nx0 = nxsz).
      { pose proof (mi_size _ _ _ _ _ _ HM1 nxc Hnin1) as Hq. rewrite Enxa in Hq. unfold n_size in *.
        rewrite HUx in Hq. rewrite mget_mset_other in Hq by lia. exact Hq. }
      rewrite HszU_sp, HszU_nx.
      set (rest' := rest + NODE + nxsz).
      rewrite (w64_small (rest + NODE)) by (unfold rest; lia).
      rewrite (w64_small (rest + NODE + nxsz)) by (unfold rest, nxsz; lia). fold rest'.
      set (nx2 := sp + NODE + rest').
      assert (Enx2 : next_adj (mset mU sp rest') sp = nx2).
      { unfold next_adj, n_size. mm. rewrite (w64_small (sp + NODE)) by (unfold sp; lia).
        apply w64_small. unfold sp, rest', rest, nxsz in *. lia. }
      rewrite Enx2.
      set (m5 := mset (mset mU sp rest') (nx2 + 8) sp).
      set (m5x := mset (mset mUx sp rest') (nx2 + 8) sp).
      (* M5 on the virtual memory *)
      assert (HM1' : MI hs he mUx bc1 ((pre ++ [x1]) ++ x2 :: nxc :: post') ba1) by (rewrite <- app_assoc; exact HM1).
      assert (Hnxnot : forall j, 0 <= j < BIN_COUNT -> ~ In (c_addr nxc) (bin_nth ba1 j)).
      { rewrite Enxa. apply not_in_after_remove; assumption. }
      assert (HM5x : MI hs he m5x bc1 ((pre ++ [x1]) ++ mkchunk sp rest' (c_used x2) :: post') ba1).
      { apply (M5_merge hs he mUx m5x bc1 (pre ++ [x1]) x2 nxc post' ba1 HM1' Hnxnot); cbn [c_addr c_sz x2]; fold nxsz; fold rest'; fold nx2; unfold m5x.
        - mm. reflexivity.
        - mm. reflexivity.
        - intros w W1 W2 _ _. mm. reflexivity.
        - rewrite Enxa. rewrite <- (unlink_own_unused _ _ _ _ _ _ _ _ HM3x Hbi Hnext). fold mUx.
          apply is_used_frame; mm; try reflexivity; unfold nx2, rest', sp, rest, nx0, nxsz in *; lia. }
      cbn [c_used x2] in HM5x. set (x2' := mkchunk sp rest' false) in *.
      (* the concrete memory agrees with the virtual one on all header words of the final list *)
      assert (HM5 : MI hs he m5 bc1 ((pre ++ [x1]) ++ x2' :: post') ba1).
      { apply (MI_ext hs he m5x m5 bc1 _ ba1 HM5x).
        2:{ (* the two memories differ at nx0 + 8 only, the prev_adj word of the absorbed header *)
          intros n Hn _ Hu5.
          assert (Hsame : forall w, w <> nx0 + 8 -> mget m5x w = mget m5 w).
          { intros w Hw. unfold m5x, m5.
            destruct (Z.eq_dec w (nx2 + 8)) as [-> | N1]; [mm; reflexivity|].
            destruct (Z.eq_dec w sp) as [-> | N2]; [mm; reflexivity|].
            mm. rewrite HUx. mm. reflexivity. }
          destruct (Z.eq_dec (n + 24) (nx0 + 8)) as [E8 | N8].
          - exfalso. apply is_used_true in Hu5 as [_ U2]. rewrite E8 in U2.
            assert (Ew : mget m5 (nx0 + 8) = n_prev_adj m nx0).
            { unfold m5. rewrite !mget_mset_other by (unfold nx2, rest', sp, rest, nx0, nxsz in *; lia).
              unfold mU. destruct (mi_member_hdr _ _ _ _ _ _ HM bi nx0 Hbi Hnext) as (_ & _ & Hnok).
              rewrite unlink_mem_frame.
              - unfold n_prev_adj. apply Hm3; unfold sp, nx0 in *; lia.
              - rewrite Elp. intros Hz. destruct Hlp as [? | [Hpin Hpne]]; [contradiction|]. destruct (Hmem32 _ Hpin Hpne); lia.
              - rewrite Eln. intros Hz. destruct Hln as [? | [Hnin' Hnne]]; [contradiction|]. destruct (Hmem32 _ Hnin' Hnne); lia.
              - exact Hnok.
              - rewrite Elp. intros Hz. destruct Hlp as [? | [Hpin Hpne]]; [contradiction|].
                destruct (mi_member_hdr _ _ _ _ _ _ HM bi _ Hbi Hpin) as (_ & _ & Hpok). split; assumption. }
            rewrite Ew in U2.
            assert (Hal0 : Forall (fun c => c mod 16 = 0) (map c_addr (pre ++ x :: nxc :: post'))).
            { unfold aligned_chunks in Hal. rewrite Forall_forall in *. intros c Hc. apply in_map_iff in Hc. destruct Hc as (c0 & <- & Hc0). apply Hal. exact Hc0. }
            pose proof (padj_aligned m he _ 0 eq_refl Hal0 (rp_padj _ _ _ _ _ Hrep) nx0) as Hx.
            rewrite <- Enxa in Hx at 1. specialize (Hx (or_introl (in_map c_addr _ _ Hnin))).
            rewrite U2 in Hx. rewrite cookie_mod in Hx. discriminate Hx.
          - rewrite <- Hu5. apply is_used_frame; apply Hsame; [|exact N8]. Z.div_mod_to_equations. lia. }
        intros h k Hh Hk. unfold m5, m5x.
        destruct (Z.eq_dec (h + k) (nx2 + 8)) as [-> | N1]; [mm; reflexivity|].
        destruct (Z.eq_dec (h + k) sp) as [-> | N2]; [mm; reflexivity|].
        mm. rewrite HUx.
        assert (h + k <> nx0 + 8); [|mm; reflexivity].
        (* nx0 lies strictly inside the merged chunk *)
        assert (Hhb : h + 32 <= sp \/ h = sp \/ nx2 <= h).
        { destruct Hh as [Hh | ->].
          - apply in_map_iff in Hh. destruct Hh as (z & <- & Hz).
            pose proof (mi_tiled _ _ _ _ _ _ HM5x) as Ht5. destruct (tiled_mid _ _ _ _ _ Ht5) as (m0 & _ & Em0 & _ & _ & Hq1 & Hq2).
            cbn [c_addr c_sz x2'] in *. subst m0.
            destruct (in_mid_cases z x2' (pre ++ [x1]) post' Hz) as [-> | [Hz' | Hz']].
            + right. left. reflexivity.
            + destruct (Hq1 z Hz') as (? & ? & ?). left. lia.
            + destruct (Hq2 z Hz') as (? & ? & ?). right. right. unfold nx2. lia.
          - right. right. pose proof (mi_tiled _ _ _ _ _ _ HM5x) as Ht5. apply tiled_app in Ht5. destruct Ht5 as (m0 & Hta & Htb).
            cbn [tiled c_addr c_sz x2'] in Htb. destruct Htb as (E0 & _ & Htc). apply tiled_le in Htc. unfold nx2. lia. }
        unfold nx2, rest', nx0, sp, rest, nxsz in *. lia. }
      (* push the merged remainder *)
      assert (Hx2'in : In x2' ((pre ++ [x1]) ++ x2' :: post')) by (apply in_or_app; right; left; reflexivity).
      assert (Hspnot1 : forall j, 0 <= j < BIN_COUNT -> ~ In (c_addr x2') (bin_nth ba1 j)).
      { intros j Hj Hc. cbn [c_addr x2'] in Hc. apply (Hspnot j Hj). unfold ba1, bins_remove in Hc.
        destruct (Z.eq_dec j bi) as [-> | Hne].
        - rewrite bin_nth_upd_same in Hc by assumption. destruct Hgood as [Hg _]. destruct (Hg _ Hbi) as [Hnd _].
          apply (remove_addr_in nx0 _ sp Hnd) in Hc. tauto.
        - rewrite bin_nth_upd_other in Hc by lia. exact Hc. }
      destruct (M2_push hs he m5 bc1 _ ba1 x2' HM5 Hx2'in eq_refl Hspnot1) as (bc2 & m6 & Hadd & HM6 & _).
      pose proof Hadd as Hadd0.
      cbn [c_addr c_sz x2'] in Hadd, HM6. fold m5. rewrite Hadd.
      eexists. eexists. split; [reflexivity|]. cbn [fst snd]. split; [|split; [reflexivity|]].
      { pose proof (mi_rep _ _ _ _ _ _ HM6) as Hfin. rewrite <- app_assoc in Hfin. exact Hfin. }
      set (S := hdrs2 he (pre ++ x :: nxc :: post') (pre ++ x1 :: x2' :: post')).
      assert (Sold : forall h, is_hdr he (pre ++ x :: nxc :: post') h -> S h) by (intros h Hh; left; exact Hh).
      assert (Sa : S a) by (apply Sold; left; apply in_map; exact Hxin).
      assert (Ssp : S sp) by (right; left; rewrite map_app; apply in_or_app; right; right; left; reflexivity).
      assert (Snx0 : S nx0) by (apply Sold; left; rewrite <- Enxa; apply in_map; exact Hnin).
      assert (Snx2 : S nx2).
      { apply Sold. assert (Ht' : tiled hs ((pre ++ [x]) ++ nxc :: post') he) by (rewrite <- app_assoc; exact Ht).
        pose proof (tiled_next _ _ _ _ _ Ht') as Hnn. rewrite Enxa in Hnn. fold nxsz in Hnn.
        replace nx2 with (nx0 + NODE + nxsz) by (unfold nx2, rest', sp, rest, nx0; lia). rewrite <- Hnn.
        pose proof (next_is_hdr he (pre ++ [x]) nxc post') as Hq. rewrite <- app_assoc in Hq. exact Hq. }
      assert (Smid : forall h, is_hdr he (pre ++ x1 :: x2 :: nxc :: post') h -> S h).
      { intros h Hh. unfold S, x1, x2, x2' in *. fold a in Hh. clear - Hh. unfold a in *. hdr_solve. }
      apply (hframe_trans S m m5).
      2:{ apply (M2_hframe S hs he m5 bc1 _ ba1 x2' bc2 m6 HM5 Hx2'in eq_refl Hspnot1 Hadd0).
          intros h Hh. right. rewrite <- app_assoc in Hh. exact Hh. }
      unfold m5.
      apply (hframe_step S nx2 8); [exact Snx2 | hk_solve | lia|].
      apply (hframe_step S sp 0); [exact Ssp | hk_solve | lia|].
      apply (hframe_trans S m m3).
      { unfold m3. apply (hframe_step S sp 8); [exact Ssp | hk_solve | lia|].
        apply (hframe_step S sp 0); [exact Ssp | hk_solve | lia|].
        apply (hframe_step S a 0); [exact Sa | hk_solve | lia|]. apply hframe_refl. }
      intros w Hw. assert (Hw8 : w <> nx0 + 8) by (apply Hw; [exact Snx0 | hk_solve]).
      transitivity (mget mUx w); [rewrite HUx; mm; reflexivity|].
      transitivity (mget m3x w); [|unfold m3x; mm; reflexivity].
      apply (M1_hframe S hs he m3x bins_c _ _ bi nx0 HM3x Hbi Hnext Smid). exact Hw.
Qed.

(* the writes of a realloc, as two header frames through an intermediate abstract state (the state
   after the allocation when the block moves; the initial state otherwise) *)
Definition two_frames (hs he : Z) (chunks : list chunk) (live : list blk) (ch' : list chunk) (m m' : mem) : Prop :=
  exists L1 B1 m1 live1, raw_inv hs he L1 B1 live1 /\ incl live live1 /\
    hframe (hdrs2 he chunks L1) m m1 /\ hframe (hdrs2 he L1 ch') m1 m'.

Lemma two_frames_direct hs he chunks bins_a live ch' m m' :
  raw_inv hs he chunks bins_a live -> hframe (hdrs2 he chunks ch') m m' -> two_frames hs he chunks live ch' m m'.
Proof.
  intros Hi Hf. exists chunks, bins_a, m, live. split; [exact Hi|]. split; [apply incl_refl|]. split; [apply hframe_refl | exact Hf].
Qed.

Lemma heap_realloc_raw_sim c hs he m bins_c chunks bins_a live i b n :
  raw_inv hs he chunks bins_a live -> Rep he m bins_c chunks bins_a -> he - hs <= h_size c ->
  nth_error live i = Some b -> 0 < n < two64 ->
  exists bins_c' m' ch' ba' q,
    ha_realloc_raw chunks bins_a (b_addr b) n = HOk (ch', ba', q) /\
    heap_realloc_raw c bins_c m (b_addr b) n = HOk (bins_c', m', q) /\
    Rep he m' bins_c' ch' ba' /\ two_frames hs he chunks live ch' m m'.
Proof.
  intros Hinv Hrep Hhs Hn Hn0.
  pose proof (MI_of_inv _ _ _ _ _ _ _ Hinv Hrep) as HM.
  destruct (live_chunk _ _ _ _ _ _ _ Hinv Hn) as (pre & x & post & Ech & Hu & Ha & Hsz & Hnz & Hmis & Hw & Hfind).
  subst chunks.
  pose proof Hinv as [Hpos Htop Ht Hal Hb Hl].
  pose proof NODE_eq as HN. pose proof MIN_range as HMr.
  assert (H64 : two64 = 18446744073709551616) by reflexivity.
  set (a := c_addr x) in *.
  assert (Hxin : In x (pre ++ x :: post)) by (apply in_or_app; right; left; reflexivity).
  destruct (chunk_bounds hs he _ Ht Hal x Hxin) as (Ha1 & Ha2 & Ha3 & Ha4). fold a in Ha1, Ha3, Ha4.
  pose proof (MI_len _ _ _ _ _ _ HM) as HLa.
  assert (Hcomp : forall z, In z (pre ++ x :: post) -> c_used z = false ->
                  In (c_addr z) (bin_nth bins_a (get_bin_index (c_sz z)))).
  { intros z Hz Hzf. destruct Hb as (_ & Hb). destruct (Hb _ (get_bin_index_range (c_sz z))) as [_ Hin]. apply Hin. exists z. auto. }
  assert (Hflag : forall z, In z (pre ++ x :: post) -> is_used m (c_addr z) = c_used z).
  { intros z Hz. apply (is_used_flag _ _ _ _ _ _ z HM Hz). intros Hzf. exists (get_bin_index (c_sz z)).
    split; [apply get_bin_index_range | apply Hcomp; assumption]. }
  unfold ha_realloc_raw. rewrite Hnz.
  assert (E0 : (n =? 0) = false) by (apply Z.eqb_neq; lia). rewrite E0, Hmis, Hw, Hfind, Hu. cbn [negb].
  unfold heap_realloc_raw. rewrite Hnz, E0. unfold get_ptr_node.
  change (negb (Z.land (b_addr b) (ALLOC_ALIGN - 1) =? 0)) with (ptr_misaligned (b_addr b)). rewrite Hmis, Hw.
  pose proof (Hflag x Hxin) as Hfx. fold a in Hfx. rewrite Hfx, Hu.
  assert (Esz0 : (n_size m a =? 0) = false).
  { pose proof (mi_size _ _ _ _ _ _ HM x Hxin) as Hq. fold a in Hq. rewrite Hq. apply Z.eqb_neq. lia. }
  rewrite Esz0. cbn [andb negb].
  assert (Ea0 : (a =? 0) = false) by (apply Z.eqb_neq; lia). rewrite Ea0.
  destruct (size_too_large n) eqn:Etl.
  { eexists. eexists. eexists. eexists. eexists. split; [reflexivity|]. split; [reflexivity|]. split; [exact Hrep|].
    apply (two_frames_direct _ _ _ bins_a); [exact Hinv | apply hframe_refl]. }
  apply size_too_large_spec in Etl.
  destruct (aligned_size_spec n ltac:(lia)) as (Hs1 & Hs2 & Hs3).
  set (size := aligned_size n) in *.
  pose proof (mi_size _ _ _ _ _ _ HM x Hxin) as Hsx. fold a in Hsx. rewrite Hsx.
  assert (Htl0 : forall nx post', post = nx :: post' ->
     if c_used nx then is_used m (c_addr nx) = true else In (c_addr nx) (bin_nth bins_a (get_bin_index (c_sz nx)))).
  { intros nx post' ->. assert (Hnin : In nx (pre ++ x :: nx :: post')) by (apply in_or_app; right; right; left; reflexivity).
    destruct (c_used nx) eqn:E; [rewrite (Hflag nx Hnin); exact E | apply Hcomp; assumption]. }
  (* the moving branch *)
  assert (Hmove : exists bins_c' m' ch' ba' q,
    (let '(ch, b1, newp) := ha_alloc_raw (pre ++ x :: post) bins_a size in
     if newp =? 0 then HOk (ch, b1, 0)
     else match ha_dealloc_raw ch b1 (b_addr b) with
          | HOk (ch2, b2) => HOk (ch2, b2, newp)
          | HPanic => HPanic
          | HFuel => HFuel
          end) = HOk (ch', ba', q) /\
    match heap_alloc_raw c bins_c m size with
    | HOk (bins, m0, newp) =>
        if newp =? 0 then HOk (bins, m0, 0)
        else match heap_dealloc_raw bins m0 (b_addr b) with
             | HOk (bins0, m1) => HOk (bins0, m1, newp)
             | HPanic => HPanic
             | HFuel => HFuel
             end
    | HPanic => HPanic
    | HFuel => HFuel
    end = HOk (bins_c', m', q) /\ Rep he m' bins_c' ch' ba' /\ two_frames hs he (pre ++ x :: post) live ch' m m').
  { destruct (heap_alloc_raw_sim c hs he m bins_c _ bins_a live size Hinv Hrep Hhs ltac:(lia)) as (bc1 & m1 & Hca & Hrep1 & Hfr1).
    destruct (ha_alloc_raw_ok hs he _ bins_a live size Hinv ltac:(lia)) as (ch & b1 & newp & Haa & Hcase).
    rewrite Haa in *. cbn [fst snd] in *. rewrite Hca.
    destruct Hcase as [(-> & -> & ->) | (Hnz1 & Hinv1)].
    - cbn [Z.eqb]. eexists. eexists. eexists. eexists. eexists. split; [reflexivity|]. split; [reflexivity|]. split; [exact Hrep1|].
      apply (two_frames_direct _ _ _ bins_a); [exact Hinv | exact Hfr1].
    - apply Z.eqb_neq in Hnz1. rewrite Hnz1.
      destruct (heap_dealloc_raw_sim hs he m1 bc1 ch b1 (mkblk newp size :: live) (S i) b Hinv1 Hrep1 Hn)
        as (bc2 & m2 & ch2 & ba2 & Had & Hcd & Hrep2 & Hfr2).
      rewrite Had, Hcd. eexists. eexists. eexists. eexists. eexists. split; [reflexivity|]. split; [reflexivity|]. split; [exact Hrep2|].
      exists ch, b1, m1, (mkblk newp size :: live). split; [exact Hinv1|]. split; [apply incl_tl; apply incl_refl|]. split; assumption. }
  destruct (size >? c_sz x) eqn:Eg.
  - destruct post as [|nx post'].
    { pose proof (tiled_next _ _ _ _ _ Ht) as Hnx. cbn [map hd] in Hnx. fold a in Hnx.
      assert (Enext : next_adj m a = he).
      { unfold next_adj. rewrite Hsx. rewrite (w64_small (a + NODE)) by lia. rewrite w64_small by lia. lia. }
      rewrite Enext. destruct (rp_end _ _ _ _ _ Hrep) as [_ Eu]. rewrite Eu. cbn [negb andb]. exact Hmove. }
    assert (Hnin : In nx (pre ++ x :: nx :: post')) by (apply in_or_app; right; right; left; reflexivity).
    pose proof (tiled_next _ _ _ _ _ Ht) as Hnx. cbn [map hd] in Hnx. fold a in Hnx.
    assert (Enext : next_adj m a = c_addr nx).
    { unfold next_adj. rewrite Hsx. rewrite (w64_small (a + NODE)) by lia. rewrite w64_small by lia. lia. }
    rewrite Enext. rewrite (Hflag nx Hnin). rewrite (mi_size _ _ _ _ _ _ HM nx Hnin).
    destruct (negb (c_used nx) && (w64 (w64 (c_sz x + c_sz nx) + NODE) >=? size)) eqn:Ec; [|exact Hmove].
    apply andb_prop in Ec. destruct Ec as [Ec1 Ec2]. apply negb_true_iff in Ec1.
    destruct (chunk_bounds hs he _ Ht Hal nx Hnin) as (Hn1 & Hn2 & Hn3 & Hn4).
    set (nxa := c_addr nx) in *. set (nxsz := c_sz nx) in *.
    rewrite (w64_small (c_sz x + nxsz)) in * by lia. rewrite (w64_small (c_sz x + nxsz + NODE)) in * by lia.
    rewrite Z.geb_leb in Ec2. apply Z.leb_le in Ec2.
    pose proof (get_bin_index_range nxsz) as Hbi.
    pose proof (Hcomp nx Hnin Ec1) as Hnbin. fold nxa in Hnbin. fold nxsz in Hnbin.
    unfold remove_node. pose proof (mi_size _ _ _ _ _ _ HM nx Hnin) as Hsn. fold nxa in Hsn. fold nxsz in Hsn. rewrite Hsn.
    destruct (M1_unlink hs he m bins_c _ _ _ nxa HM Hbi Hnbin) as (bc1 & Hrm & HM1 & _).
    rewrite Hrm. set (m1 := unlink_mem m nxa) in *. set (ba1 := bins_remove bins_a (get_bin_index nxsz) nxa) in *.
    pose proof (mi_size _ _ _ _ _ _ HM1 x Hxin) as Hs1x. fold a in Hs1x.
    pose proof (mi_size _ _ _ _ _ _ HM1 nx Hnin) as Hs1n. fold nxa in Hs1n. fold nxsz in Hs1n.
    rewrite Hs1x, Hs1n.
    rewrite (w64_small (c_sz x + nxsz)) by lia. rewrite (w64_small (c_sz x + nxsz + NODE)) by lia.
    set (msz := c_sz x + nxsz + NODE).
    assert (Enext2 : next_adj (mset m1 a msz) a = a + NODE + msz).
    { unfold next_adj, n_size. mm. rewrite (w64_small (a + NODE)) by lia. apply w64_small. unfold msz. lia. }
    rewrite Enext2. set (m3 := mset (mset m1 a msz) (a + NODE + msz + 8) a).
    assert (Hnxnot : forall j, 0 <= j < BIN_COUNT -> ~ In (c_addr nx) (bin_nth ba1 j)).
    { fold nxa. apply not_in_after_remove; try assumption. apply (mi_good _ _ _ _ _ _ HM). }
    assert (HMg : MI hs he m3 bc1 (pre ++ mkchunk a (c_sz x + NODE + c_sz nx) (c_used x) :: post') ba1).
    { apply (M5_merge hs he m1 m3 bc1 pre x nx post' ba1 HM1 Hnxnot); fold a; fold nxsz; unfold m3, msz.
      - mm. lia.
      - replace (a + NODE + (c_sz x + NODE + nxsz) + 8) with (a + NODE + (c_sz x + nxsz + NODE) + 8) by lia. mm. reflexivity.
      - intros w W1 W2 _ _. rewrite mget_mset_other by lia. rewrite mget_mset_other by lia. reflexivity.
      - fold nxa. rewrite <- (unlink_own_unused _ _ _ _ _ _ _ _ HM Hbi Hnbin). fold m1.
        apply is_used_frame; rewrite !mget_mset_other by (unfold nxa in *; lia); reflexivity. }
    rewrite Hu in HMg. fold nxsz in HMg.
    replace (c_sz x + NODE + nxsz) with msz in HMg by (unfold msz; lia).
    set (x' := mkchunk a msz true) in *.
    assert (Htlg : forall z post2, post' = z :: post2 ->
       if c_used z then is_used m3 (c_addr z) = true else In (c_addr z) (bin_nth ba1 (get_bin_index (c_sz z)))).
    { intros z post2 ->.
      assert (Hzin : In z (pre ++ x :: nx :: z :: post2)) by (apply in_or_app; right; right; right; left; reflexivity).
      assert (Hzing : In z (pre ++ x' :: z :: post2)) by (apply in_or_app; right; right; left; reflexivity).
      destruct (c_used z) eqn:E.
      - pose proof (rp_used _ _ _ _ _ (mi_rep _ _ _ _ _ _ HMg)) as HU. rewrite Forall_forall in HU. apply HU; assumption.
      - unfold ba1. apply in_after_remove_other; try assumption; try apply get_bin_index_range.
        + destruct (mi_good _ _ _ _ _ _ HM) as [Hg _]. destruct (Hg _ Hbi). assumption.
        + assert (Ht' : tiled hs ((pre ++ [x]) ++ nx :: z :: post2) he) by (rewrite <- app_assoc; exact Ht).
          destruct (tiled_mid _ _ _ _ _ Ht') as (m0 & _ & Em0 & _ & _ & _ & Hq2).
          destruct (Hq2 z (or_introl eq_refl)) as (? & _). unfold nxa, nxsz in *. lia.
        + apply Hcomp; assumption. }
    destruct (shrink_sim hs he m3 bc1 pre x' post' ba1 size (b_addr b) HMg eq_refl ltac:(lia) Hs2 ltac:(cbn; unfold msz; lia) Htlg)
      as (bc' & m' & Hsh & Hrep' & Hq & Hfr').
    cbn [c_addr x'] in Hsh. unfold c_shrink in Hsh.
    exists bc', m', (fst (fst (ha_shrink pre x' post' ba1 size (b_addr b)))), (snd (fst (ha_shrink pre x' post' ba1 size (b_addr b)))), (b_addr b).
    split; [|split; [|split; [exact Hrep'|]]].
    3:{ apply (two_frames_direct _ _ _ bins_a); [exact Hinv|].
        set (S := hdrs2 he (pre ++ x :: nx :: post') (fst (fst (ha_shrink pre x' post' ba1 size (b_addr b))))).
        assert (Sold : forall h, is_hdr he (pre ++ x :: nx :: post') h -> S h) by (intros h Hh; left; exact Hh).
        assert (Sa : S a) by (apply Sold; left; apply in_map; exact Hxin).
        assert (Snn : S (a + NODE + msz)).
        { apply Sold. assert (Ht' : tiled hs ((pre ++ [x]) ++ nx :: post') he) by (rewrite <- app_assoc; exact Ht).
          pose proof (tiled_next _ _ _ _ _ Ht') as Hnn. fold nxa in Hnn. fold nxsz in Hnn.
          replace (a + NODE + msz) with (nxa + NODE + nxsz) by (unfold msz; lia). rewrite <- Hnn.
          pose proof (next_is_hdr he (pre ++ [x]) nx post') as Hq'. rewrite <- app_assoc in Hq'. exact Hq'. }
        apply (hframe_trans S m m3).
        - unfold m3. apply (hframe_step S (a + NODE + msz) 8); [exact Snn | hk_solve | lia|].
          apply (hframe_step S a 0); [exact Sa | hk_solve | lia|].
          apply (M1_hframe S hs he m bins_c _ _ _ nxa HM Hbi Hnbin). exact Sold.
        - eapply hframe_mono; [|exact Hfr']. intros h [Hh | Hh]; [|right; exact Hh].
          apply Sold. unfold x' in Hh. clear - Hh. unfold a in *. hdr_solve. }
    + set (R := ha_shrink pre x' post' ba1 size (b_addr b)) in *.
      change (HOk R = HOk (fst (fst R), snd (fst R), b_addr b)).
      destruct R as [[c1 c2] c3]. cbn [fst snd] in *. subst c3. reflexivity.
    + fold m3. exact Hsh.
  - rewrite Z.gtb_ltb in Eg. apply Z.ltb_ge in Eg.
    destruct (shrink_sim hs he m bins_c pre x post bins_a size (b_addr b) HM Hu ltac:(lia) Hs2 Eg Htl0)
      as (bc' & m' & Hsh & Hrep' & Hq & Hfr').
    fold a in Hsh. unfold c_shrink in Hsh. rewrite Hsx in Hsh.
    exists bc', m', (fst (fst (ha_shrink pre x post bins_a size (b_addr b)))), (snd (fst (ha_shrink pre x post bins_a size (b_addr b)))), (b_addr b).
    split; [|split; [|split; [exact Hrep' | apply (two_frames_direct _ _ _ bins_a); [exact Hinv | exact Hfr']]]].
    + destruct (ha_shrink pre x post bins_a size (b_addr b)) as [[c1 c2] c3] eqn:Es. cbn [fst snd] in *. subst c3. reflexivity.
    + exact Hsh.
Qed.
