(* C11 - executable model of lib/allocators/aligned.nelua instantiated over the arena allocator:
   AlignedAllocator(ArenaAllocator(SIZE, A), ALIGN).  The original pointer is stored in the word
   just below the aligned address ([g_hdr], a finite map address -> word).  realloc is the default
   Allocator:realloc of Iface.v (aligned.nelua defines none).  No proofs in this file. *)
From Coq Require Import ZArith List Bool.
From Base Require Import LuaInt.
From C11 Require Import Gen Model Iface.
Import ListNotations.
Local Open Scope Z_scope.

Definition PTR_SIZE : Z := 8.

Record gcfg := mkgcfg { g_inner : acfg; g_align : Z }.
Record gstate := mkgstate { g_arena : astate; g_hdr : mem }.

Definition aligned_init : gstate := mkgstate arena_init [].

(* size + (@usize)(#@pointer + ALIGN - 1) *)
Definition al_request (c : gcfg) (size : Z) : Z := w64 (size + w64 (PTR_SIZE + g_align c - 1)).
Definition al_addr (c : gcfg) (origp : Z) : Z := align_forward (w64 (origp + PTR_SIZE)) (g_align c).

(* size > (@usize)(-1) - (@usize)(#@pointer + ALIGN - 1): the request would overflow (repair 532034f) *)
Definition al_too_large (c : gcfg) (size : Z) : bool := size >? w64 (w64 (-1) - w64 (PTR_SIZE + g_align c - 1)).

Definition aligned_alloc (c : gcfg) (s : gstate) (size : Z) : option (gstate * Z) :=
  if size =? 0 then Some (s, 0) else       (* repair ccd321a: a zero size allocation returns nilptr *)
  if al_too_large c size then Some (s, 0) else
  match arena_alloc (g_inner c) (g_arena s) (al_request c size) with
  | None => None
  | Some (a', origp) =>
      if origp =? 0 then Some (mkgstate a' (g_hdr s), 0)
      else let addr := al_addr c origp in
           Some (mkgstate a' (mset (g_hdr s) (w64 (addr - PTR_SIZE)) origp), addr)
  end.

Definition aligned_realptr (s : gstate) (p : Z) : Z := if p =? 0 then 0 else mget (g_hdr s) (w64 (p - PTR_SIZE)).

Definition aligned_dealloc (c : gcfg) (s : gstate) (p : Z) : option gstate :=
  if p =? 0 then Some s
  else match arena_dealloc (g_inner c) (g_arena s) (aligned_realptr s p) with
       | Some a' => Some (mkgstate a' (g_hdr s))
       | None => None
       end.

Definition aligned_realloc (c : gcfg) (s : gstate) (p newsize oldsize : Z) : option (gstate * Z) :=
  match i_realloc_default gstate (aligned_alloc c) (aligned_dealloc c) s p newsize oldsize with
  | Some (s', q, _) => Some (s', q)
  | None => None
  end.

Definition aligned_deallocall (s : gstate) : gstate := mkgstate (arena_deallocall (g_arena s)) (g_hdr s).

(* "If size is zero or the operation fails, then returns nilptr" (doc of AlignedAllocatorT:alloc and
   of the Allocator interface): a zero size request leaves the allocator alone and returns nilptr *)
Definition aligned_alloc_zero_nil_full : Prop := forall c s, aligned_alloc c s 0 = Some (s, 0).
