(* C11 - specification side: what a client sees (live blocks), client histories for every
   allocator, and the property predicates.  No proofs in this file. *)
From Coq Require Import ZArith List Bool Lia.
From Base Require Import LuaInt.
From C11 Require Import Gen Model.
Import ListNotations.
Local Open Scope Z_scope.

(* ---------- blocks ---------- *)
Definition blk_disjoint (a b : blk) : Prop :=
  b_addr a + b_size a <= b_addr b \/ b_addr b + b_size b <= b_addr a.
Fixpoint pairwise_disjoint (l : list blk) : Prop :=
  match l with
  | [] => True
  | b :: r => Forall (blk_disjoint b) r /\ pairwise_disjoint r
  end.
Definition blk_in (base size : Z) (b : blk) : Prop :=
  base <= b_addr b /\ b_addr b + b_size b <= base + size.
Definition blk_aligned (al : Z) (b : blk) : Prop := b_addr b mod al = 0.

(* the three placement clauses of the property statement *)
Definition good_blocks (base size al : Z) (live : list blk) : Prop :=
  Forall (blk_in base size) live /\ Forall (blk_aligned al) live /\ pairwise_disjoint live.

Fixpoint remove_nth {A} (i : nat) (l : list A) : list A :=
  match l, i with
  | [], _ => []
  | _ :: r, O => r
  | x :: r, S k => x :: remove_nth k r
  end.

Definition in_blk (a : Z) (b : blk) : bool := (b_addr b <=? a) && (a <? b_addr b + b_size b).
Definition usize (n : Z) : Prop := 0 <= n < two64.
Definition pow2 (al : Z) : Prop := exists k, 0 <= k < 63 /\ al = 2 ^ k.

(* =====================================================================================
   Arena histories.  Blocks are named by their position in the live list; an operation naming a
   position that does not exist is skipped.  [AWrite a v]: the client stores byte v at address a,
   allowed only inside a live block.  A realloc that moves a block retires the old one.
   ===================================================================================== *)
Inductive aop :=
| AAlloc (zero : bool) (n : Z)
| ADealloc (i : nat)
| ARealloc (zero : bool) (i : nat) (n : Z)
| ADeallocAll
| AWrite (a v : Z).

Definition astep (c : acfg) (st : astate * list blk) (o : aop) : option (astate * list blk) :=
  let '(s, live) := st in
  match o with
  | AAlloc z n =>
      match (if z then arena_alloc0 c s n else arena_alloc c s n) with
      | None => None
      | Some (s', p) => Some (s', if p =? 0 then live else live ++ [mkblk p n])
      end
  | ADealloc i =>
      match nth_error live i with
      | None => Some st
      | Some b => match arena_dealloc c s (b_addr b) with
                  | None => None
                  | Some s' => Some (s', remove_nth i live)
                  end
      end
  | ARealloc z i n =>
      match nth_error live i with
      | None => Some st
      | Some b =>
          match (if z then arena_realloc0 c s (b_addr b) n (b_size b)
                 else arena_realloc c s (b_addr b) n (b_size b)) with
          | None => None
          | Some (s', q) =>
              if n =? 0 then Some (s', remove_nth i live)
              else if q =? 0 then Some (s', live)
              else Some (s', remove_nth i live ++ [mkblk q n])
          end
      end
  | ADeallocAll => Some (arena_deallocall s, [])
  | AWrite a v =>
      if existsb (in_blk a) live
      then Some (mkastate (a_prev s) (a_curr s) (fun x => if x =? a then v else a_bytes s x), live)
      else Some st
  end.

Fixpoint arun (c : acfg) (st : astate * list blk) (ops : list aop) : option (astate * list blk) :=
  match ops with
  | [] => Some st
  | o :: r => match astep c st o with None => None | Some st' => arun c st' r end
  end.

Definition acfg_ok (c : acfg) : Prop :=
  0 < a_base c /\ 0 < a_size c /\ pow2 (a_align c) /\ a_base c + a_size c + a_align c <= two64.

Definition aop_usize (o : aop) : Prop :=
  match o with
  | AAlloc _ n => usize n
  | ARealloc _ _ n => usize n
  | _ => True
  end.

(* =====================================================================================
   Stack histories.  The live list is a stack (newest first); [SDealloc i] of a block that is
   not the newest fails the allocator's check (None).  [SWrite a v]: the client stores the
   32-bit word v at the 4-aligned address a, allowed when that word intersects a live block.
   ===================================================================================== *)
Inductive sop :=
| SAlloc (n : Z)
| SDealloc (i : nat)
| SRealloc (i : nat) (n : Z)
| SDeallocAll
| SWrite (a v : Z).

Fixpoint replace_nth {A} (i : nat) (l : list A) (v : A) : list A :=
  match l, i with
  | [], _ => []
  | _ :: r, O => v :: r
  | x :: r, S k => x :: replace_nth k r v
  end.

Definition word_in_blk (a : Z) (b : blk) : bool :=
  (a mod 4 =? 0) && (b_addr b <? a + 4) && (a <? b_addr b + b_size b).

Definition sstep (c : scfg) (st : sstate * list blk) (o : sop) : option (sstate * list blk) :=
  let '(s, live) := st in
  match o with
  | SAlloc n =>
      let '(s', p) := stack_alloc c s n in
      Some (s', if p =? 0 then live else mkblk p n :: live)
  | SDealloc i =>
      match nth_error live i with
      | None => Some st
      | Some b => match stack_dealloc c s (b_addr b) with
                  | None => None
                  | Some s' => Some (s', remove_nth i live)
                  end
      end
  | SRealloc i n =>
      match nth_error live i with
      | None => Some st
      | Some b =>
          match stack_realloc c s (b_addr b) n (b_size b) with
          | None => None
          | Some (s', q) =>
              if n =? 0 then Some (s', remove_nth i live)
              else if q =? 0 then Some (s', live)
              else Some (s', replace_nth i live (mkblk q n))
          end
      end
  | SDeallocAll => Some (stack_deallocall s, [])
  | SWrite a v =>
      if existsb (word_in_blk a) live
      then Some (mksstate (s_prev s) (s_curr s) (mset (s_mem s) a v), live)
      else Some st
  end.

Fixpoint srun (c : scfg) (st : sstate * list blk) (ops : list sop) : option (sstate * list blk) :=
  match ops with
  | [] => Some st
  | o :: r => match sstep c st o with None => None | Some st' => srun c st' r end
  end.

Definition scfg_ok (c : scfg) : Prop :=
  0 < s_base c /\ 0 < s_size c <= STACK_MAX_SIZE /\
  (exists k, 2 <= k < 63 /\ s_align c = 2 ^ k) /\
  s_base c + s_size c + s_align c + STACK_HEADER_SIZE <= two64.

Definition sop_usize (o : sop) : Prop :=
  match o with SAlloc n | SRealloc _ n => usize n | _ => True end.
(* =====================================================================================
   Pool histories.  [PWrite i v]: the client overwrites the first word of live chunk i (the word
   the allocator uses as free-list link while the chunk is free).
   ===================================================================================== *)
Inductive pop :=
| PAlloc (n : Z)
| PDealloc (i : nat)
| PRealloc (i : nat) (n : Z)
| PDeallocAll
| PWrite (i : nat) (v : Z).

Definition pstep (c : pcfg) (st : pstate * list blk) (o : pop) : option (pstate * list blk) :=
  let '(s, live) := st in
  match o with
  | PAlloc n =>
      let '(s', p) := pool_alloc c s n in
      Some (s', if p =? 0 then live else mkblk p n :: live)
  | PDealloc i =>
      match nth_error live i with
      | None => Some st
      | Some b => match pool_dealloc c s (b_addr b) with
                  | None => None
                  | Some s' => Some (s', remove_nth i live)
                  end
      end
  | PRealloc i n =>
      match nth_error live i with
      | None => Some st
      | Some b =>
          match pool_realloc c s (b_addr b) n (b_size b) with
          | None => None
          | Some (s', q) =>
              if n =? 0 then Some (s', remove_nth i live)
              else if q =? 0 then Some (s', live)
              else Some (s', replace_nth i live (mkblk q n))
          end
      end
  | PDeallocAll => Some (pool_deallocall c s, [])
  | PWrite i v =>
      match nth_error live i with
      | None => Some st
      | Some b => Some (mkpstate (p_initialized s) (p_head s) (mset (p_mem s) (b_addr b) v), live)
      end
  end.

Fixpoint prun (c : pcfg) (st : pstate * list blk) (ops : list pop) : option (pstate * list blk) :=
  match ops with
  | [] => Some st
  | o :: r => match pstep c st o with None => None | Some st' => prun c st' r end
  end.

Definition pcfg_ok (c : pcfg) : Prop :=
  0 < p_base c /\ 8 <= p_chunk c /\ 0 < p_count c /\ p_base c + p_chunk c * p_count c <= two64.

Definition pop_usize (o : pop) : Prop :=
  match o with PAlloc n | PRealloc _ n => usize n | _ => True end.

(* the i-th chunk *)
Definition chunk_addr (c : pcfg) (i : Z) : Z := p_base c + i * p_chunk c.
Definition is_chunk (c : pcfg) (a : Z) : Prop := exists i, 0 <= i < p_count c /\ a = chunk_addr c i.

(* live blocks are distinct whole chunks, each at most a chunk long *)
Definition pool_good (c : pcfg) (live : list blk) : Prop :=
  Forall (fun b => is_chunk c (b_addr b) /\ 0 < b_size b <= p_chunk c) live /\
  NoDup (map b_addr live).

(* the free list as the allocator sees it: head -> a1 -> a2 -> ... -> nil through the link words *)
Fixpoint flist (m : mem) (head : Z) (l : list Z) : Prop :=
  match l with
  | [] => head = 0
  | a :: r => head = a /\ a <> 0 /\ flist m (mget m a) r
  end.

Definition all_chunks (c : pcfg) : list Z :=
  map (fun i => chunk_addr c (Z.of_nat i)) (seq 0 (Z.to_nat (p_count c))).

(* the stack's documented precondition: blocks are released newest first (dealloc and realloc-to-0
   of the newest block only) *)
Definition sop_lifo (o : sop) : Prop :=
  match o with
  | SDealloc i => i = O
  | SRealloc i n => n = 0 -> i = O
  | _ => True
  end.
