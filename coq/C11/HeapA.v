(* C11 - abstract (chunk-list) model of lib/allocators/heap.nelua.

   The buffer is tiled by chunks (address of the header, payload size, used flag) kept in address
   order; the end node is implicit.  Each bin is the list of header addresses of the free chunks
   it links, head first (add_node pushes at the head, remove_bin_node unlinks in place).  This is
   the view in which the heap theorems are stated; it is executable and is compared, like the
   memory-level model of Heap.v, with the real allocator on every check: same returned offsets,
   same bins, same chunk walk (prev_adj and the bin links are derived from the lists).
   A pointer that is not the payload address of a used chunk makes dealloc/realloc panic (at the
   memory level this is the NODE_COOKIE test).  No proofs in this file. *)
From Coq Require Import ZArith List Bool Lia.
From Base Require Import LuaInt.
From C11 Require Import Gen Model Heap.
Import ListNotations.
Local Open Scope Z_scope.

Record chunk := mkchunk { c_addr : Z; c_sz : Z; c_used : bool }.
Record hastate := mkhastate { ha_initialized : bool; ha_chunks : list chunk; ha_bins : list (list Z) }.

Definition empty_bins : list (list Z) := repeat [] (Z.to_nat BIN_COUNT).
Definition ha_init_state : hastate := mkhastate false [] empty_bins.

(* chunk with header address a: (chunks before, the chunk, chunks after) *)
Fixpoint find_chunk (a : Z) (l : list chunk) : option (list chunk * chunk * list chunk) :=
  match l with
  | [] => None
  | c :: r =>
      if c_addr c =? a then Some ([], c, r)
      else match find_chunk a r with
           | Some (pre, x, post) => Some (c :: pre, x, post)
           | None => None
           end
  end.

Fixpoint split_last {A} (l : list A) : option (list A * A) :=
  match l with
  | [] => None
  | x :: r => match split_last r with
              | None => Some ([], x)
              | Some (i, y) => Some (x :: i, y)
              end
  end.

Definition size_at (l : list chunk) (a : Z) : Z :=
  match find_chunk a l with Some (_, x, _) => c_sz x | None => 0 end.

Definition bin_nth (bins : list (list Z)) (i : Z) : list Z := nth (Z.to_nat i) bins [].
Definition bin_upd (bins : list (list Z)) (i : Z) (v : list Z) : list (list Z) := list_set bins (Z.to_nat i) v.
(* Heap:add_node *)
Definition bins_add (bins : list (list Z)) (sz a : Z) : list (list Z) :=
  let i := get_bin_index sz in bin_upd bins i (a :: bin_nth bins i).
Fixpoint remove_addr (a : Z) (l : list Z) : list Z :=
  match l with
  | [] => []
  | x :: r => if x =? a then r else x :: remove_addr a r
  end.
(* Heap:remove_bin_node(bin_index, node) *)
Definition bins_remove (bins : list (list Z)) (i a : Z) : list (list Z) :=
  bin_upd bins i (remove_addr a (bin_nth bins i)).

Definition ha_heap_init (c : hcfg) : hres hastate :=
  let region_start := h_base c in
  let hs := align_forward region_start ALLOC_ALIGN in
  let region_offset := w64 (hs - region_start) in
  if h_size c <? w64 (region_offset + w64 (2 * NODE)) then HPanic
  else
    let heap_size := align_down (w64 (w64 (h_size c - region_offset) - NODE)) ALLOC_ALIGN in
    let sz := w64 (heap_size - NODE) in
    HOk (mkhastate true [mkchunk hs sz false] (bins_add empty_bins sz hs)).

Fixpoint first_fit (chunks : list chunk) (l : list Z) (size : Z) : option Z :=
  match l with
  | [] => None
  | a :: r => if size_at chunks a >=? size then Some a else first_fit chunks r size
  end.

(* one pass over the bins bi, bi+1, ...: [limit] = Some n looks at the first n nodes of each bin *)
Fixpoint a_pass (limit : option nat) (nb : nat) (chunks : list chunk) (bins : list (list Z)) (bi size : Z)
  : option (Z * Z) :=
  match nb with
  | O => None
  | S k =>
      let l := bin_nth bins bi in
      let l := match limit with Some n => firstn n l | None => l end in
      match first_fit chunks l size with
      | Some a => Some (a, bi)
      | None => a_pass limit k chunks bins (bi + 1) size
      end
  end.

Definition split_addr (x : chunk) (size : Z) : Z := w64 (w64 (c_addr x + NODE) + size).
Definition split_rest (x : chunk) (size : Z) : Z := w64 (w64 (c_sz x - size) - NODE).
Definition wants_split (x : chunk) (size : Z) : bool := c_sz x >? w64 (size + (NODE + MIN_ALLOC_SIZE)).

Definition ha_alloc_raw (chunks : list chunk) (bins : list (list Z)) (size : Z)
  : list chunk * list (list Z) * Z :=
  if size =? 0 then (chunks, bins, 0)
  else if size_too_large size then (chunks, bins, 0)
  else
    let size := aligned_size size in
    let bi0 := get_bin_index size in
    let nb := Z.to_nat (BIN_COUNT - bi0) in
    let r := match a_pass (Some (Z.to_nat BIN_MAX_LOOKUPS)) nb chunks bins bi0 size with
             | Some fb => Some fb
             | None => a_pass None nb chunks bins bi0 size
             end in
    match r with
    | None => (chunks, bins, 0)
    | Some (a, bi) =>
        match find_chunk a chunks with
        | None => (chunks, bins, 0)          (* unreachable while the bins only list chunks *)
        | Some (pre, x, post) =>
            if wants_split x size then
              (pre ++ mkchunk a size true :: mkchunk (split_addr x size) (split_rest x size) false :: post,
               bins_remove (bins_add bins (split_rest x size) (split_addr x size)) bi a,
               w64 (a + NODE))
            else
              (pre ++ mkchunk a (c_sz x) true :: post, bins_remove bins bi a, w64 (a + NODE))
        end
    end.

Definition ptr_misaligned (p : Z) : bool := negb (Z.land p (ALLOC_ALIGN - 1) =? 0).

Definition ha_dealloc_raw (chunks : list chunk) (bins : list (list Z)) (p : Z)
  : hres (list chunk * list (list Z)) :=
  if p =? 0 then HOk (chunks, bins)
  else if ptr_misaligned p then HPanic
  else
    match find_chunk (w64 (p - NODE)) chunks with
    | None => HPanic
    | Some (pre, x, post) =>
        if negb (c_used x) then HPanic
        else
          (* coalesce with the previous adjacent chunk when it is free *)
          let '(pre1, head, bins1) :=
            match split_last pre with
            | Some (pre0, pv) =>
                if c_used pv then (pre, mkchunk (c_addr x) (c_sz x) false, bins)
                else (pre0, mkchunk (c_addr pv) (w64 (w64 (c_sz pv + NODE) + c_sz x)) false,
                      bins_remove bins (get_bin_index (c_sz pv)) (c_addr pv))
            | None => (pre, mkchunk (c_addr x) (c_sz x) false, bins)
            end in
          (* then with the next adjacent chunk when it is free *)
          let '(head2, post2, bins2) :=
            match post with
            | nx :: post' =>
                if c_used nx then (head, post, bins1)
                else (mkchunk (c_addr head) (w64 (w64 (c_sz head + NODE) + c_sz nx)) false, post',
                      bins_remove bins1 (get_bin_index (c_sz nx)) (c_addr nx))
            | [] => (head, post, bins1)
            end in
          HOk (pre1 ++ head2 :: post2, bins_add bins2 (c_sz head2) (c_addr head2))
    end.

(* the tail of realloc: split the (used) chunk x down to [size] when worthwhile; the remainder
   is merged with the chunk after it when that chunk is free *)
Definition ha_shrink (pre : list chunk) (x : chunk) (post : list chunk) (bins : list (list Z)) (size p : Z)
  : list chunk * list (list Z) * Z :=
  if (c_sz x >? size) && wants_split x size then
    match post with
    | nx :: post' =>
        if c_used nx then
          (pre ++ mkchunk (c_addr x) size true :: mkchunk (split_addr x size) (split_rest x size) false :: post,
           bins_add bins (split_rest x size) (split_addr x size), p)
        else
          let rest := w64 (w64 (split_rest x size + NODE) + c_sz nx) in
          (pre ++ mkchunk (c_addr x) size true :: mkchunk (split_addr x size) rest false :: post',
           bins_add (bins_remove bins (get_bin_index (c_sz nx)) (c_addr nx)) rest (split_addr x size), p)
    | [] =>
        (pre ++ mkchunk (c_addr x) size true :: mkchunk (split_addr x size) (split_rest x size) false :: post,
         bins_add bins (split_rest x size) (split_addr x size), p)
    end
  else (pre ++ x :: post, bins, p).

Definition ha_realloc_raw (chunks : list chunk) (bins : list (list Z)) (p size : Z)
  : hres (list chunk * list (list Z) * Z) :=
  if p =? 0 then HOk (ha_alloc_raw chunks bins size)
  else if size =? 0 then
    match ha_dealloc_raw chunks bins p with
    | HOk (ch, b) => HOk (ch, b, 0)
    | HPanic => HPanic
    | HFuel => HFuel
    end
  else if ptr_misaligned p then HPanic
  else
    match find_chunk (w64 (p - NODE)) chunks with
    | None => HPanic
    | Some (pre, x, post) =>
        if negb (c_used x) then HPanic
        else if size_too_large size then HOk (chunks, bins, 0)
        else
          let size := aligned_size size in
          let move (_ : unit) :=
            let '(ch, b, newp) := ha_alloc_raw chunks bins size in
            if newp =? 0 then HOk (ch, b, 0)
            else match ha_dealloc_raw ch b p with
                 | HOk (ch2, b2) => HOk (ch2, b2, newp)
                 | HPanic => HPanic
                 | HFuel => HFuel
                 end in
          if size >? c_sz x then
            match post with
            | nx :: post' =>
                if negb (c_used nx) && (w64 (w64 (c_sz x + c_sz nx) + NODE) >=? size) then
                  HOk (ha_shrink pre (mkchunk (c_addr x) (w64 (w64 (c_sz x + c_sz nx) + NODE)) true) post'
                                 (bins_remove bins (get_bin_index (c_sz nx)) (c_addr nx)) size p)
                else move tt
            | [] => move tt
            end
          else HOk (ha_shrink pre x post bins size p)
    end.

(* ---------- HeapAllocatorT ---------- *)
Definition ha_ensure_init (c : hcfg) (s : hastate) : hres hastate :=
  if ha_initialized s then HOk s else ha_heap_init c.

Definition ha_alloc (c : hcfg) (s : hastate) (size : Z) : hres (hastate * Z) :=
  match ha_ensure_init c s with
  | HOk s => let '(ch, b, p) := ha_alloc_raw (ha_chunks s) (ha_bins s) size in HOk (mkhastate true ch b, p)
  | HPanic => HPanic
  | HFuel => HFuel
  end.

Definition ha_dealloc (s : hastate) (p : Z) : hres hastate :=
  match ha_dealloc_raw (ha_chunks s) (ha_bins s) p with
  | HOk (ch, b) => HOk (mkhastate (ha_initialized s) ch b)
  | HPanic => HPanic
  | HFuel => HFuel
  end.

Definition ha_deallocall (s : hastate) : hastate := mkhastate false [] empty_bins.

Definition ha_realloc (c : hcfg) (s : hastate) (p newsize oldsize : Z) : hres (hastate * Z) :=
  match ha_ensure_init c s with
  | HOk s =>
      if newsize =? oldsize then HOk (s, p)
      else match ha_realloc_raw (ha_chunks s) (ha_bins s) p newsize with
           | HOk (ch, b, q) => HOk (mkhastate true ch b, q)
           | HPanic => HPanic
           | HFuel => HFuel
           end
  | HPanic => HPanic
  | HFuel => HFuel
  end.

(* ---------- payload contents (address -> byte), as for the arena ----------
   The allocator touches payload bytes only in realloc's memory.copy(newp, p, head.size) when it
   moves a block, and in the zeroing wrappers alloc0/realloc0 of Allocator_implement_interface. *)
Record hbstate := mkhb { hb_st : hastate; hb_bytes : Z -> Z }.

Definition hb_alloc (c : hcfg) (s : hbstate) (size : Z) : hres (hbstate * Z) :=
  match ha_alloc c (hb_st s) size with
  | HOk (s', p) => HOk (mkhb s' (hb_bytes s), p)
  | HPanic => HPanic
  | HFuel => HFuel
  end.

Definition hb_alloc0 (c : hcfg) (s : hbstate) (size : Z) : hres (hbstate * Z) :=
  match hb_alloc c s size with
  | HOk (s', p) =>
      if p =? 0 then HOk (s', p) else HOk (mkhb (hb_st s') (bzero (hb_bytes s') p size), p)
  | HPanic => HPanic
  | HFuel => HFuel
  end.

(* size of the chunk that owns payload pointer p (head.size in Heap:realloc) *)
Definition chunk_size_of (s : hastate) (p : Z) : Z := size_at (ha_chunks s) (w64 (p - NODE)).

Definition hb_realloc (c : hcfg) (s : hbstate) (p newsize oldsize : Z) : hres (hbstate * Z) :=
  match ha_realloc c (hb_st s) p newsize oldsize with
  | HOk (s', q) =>
      let moved := negb (p =? 0) && negb (q =? 0) && negb (q =? p) in
      let bts := if moved then bcopy (hb_bytes s) q p (chunk_size_of (hb_st s) p) else hb_bytes s in
      HOk (mkhb s' bts, q)
  | HPanic => HPanic
  | HFuel => HFuel
  end.

Definition hb_realloc0 (c : hcfg) (s : hbstate) (p newsize oldsize : Z) : hres (hbstate * Z) :=
  match hb_realloc c s p newsize oldsize with
  | HOk (s', q) =>
      if (newsize >? oldsize) && negb (q =? 0)
      then HOk (mkhb (hb_st s') (bzero (hb_bytes s') (q + oldsize) (newsize - oldsize)), q)
      else HOk (s', q)
  | HPanic => HPanic
  | HFuel => HFuel
  end.
