(* C11 - GC allocator, the in-place branch of GC:reregister (lib/allocators/gc.nelua), as far as the
   allocator contract needs it: after realloc the collector has the block registered with the NEW
   size (that is how many bytes the mark phase scans).

   The item table is a node array of (pointer, size) entries; [peek] returns the position of an
   entry, like hashmap:peek returns a pointer into the node array.  Between the peek and the end of
   reregister sits self:step(), which may run a whole collection: entries of garbage disappear and
   GC_rehash compacts the node array, so positions obtained before the step are stale after it.
   [step] is ANY function on tables that keeps the entry of the block being reallocated.
   The order of the two statements is scraped from the source (Gen.REREGISTER_SIZE_BEFORE_STEP). *)
From Coq Require Import ZArith List Bool Lia.
From C11 Require Import Gen.
Import ListNotations.
Local Open Scope Z_scope.

Definition table := list (Z * Z).

Fixpoint peek (p : Z) (a : table) : option nat :=
  match a with
  | [] => None
  | (q, _) :: r => if q =? p then Some O else option_map S (peek p r)
  end.

Fixpoint lookup (p : Z) (a : table) : option Z :=
  match a with
  | [] => None
  | (q, s) :: r => if q =? p then Some s else lookup p r
  end.

(* item.size = n through a position; a position beyond the (shrunk) array writes into memory that
   is no longer the table *)
Fixpoint set_size (i : nat) (n : Z) (a : table) : table :=
  match a, i with
  | [], _ => []
  | (q, _) :: r, O => (q, n) :: r
  | x :: r, S k => x :: set_size k n r
  end.

Definition reregister_inplace (size_first : bool) (step : table -> table) (a : table) (p newsize : Z) : table :=
  match peek p a with
  | None => a
  | Some i => if size_first then step (set_size i newsize a) else set_size i newsize (step a)
  end.

(* the step keeps the entry of p, whatever its size *)
Definition step_keeps (p : Z) (step : table -> table) : Prop := forall a, lookup p (step a) = lookup p a.

Lemma lookup_set_peek p n : forall a i, peek p a = Some i -> lookup p (set_size i n a) = Some n.
Proof.
  induction a as [|[q s] r IH]; intros i H; cbn in *; [discriminate|].
  destruct (q =? p) eqn:E.
  - inversion H; subst. cbn. rewrite E. reflexivity.
  - destruct (peek p r) as [k|] eqn:Ep; [|discriminate]. inversion H; subst. cbn. rewrite E. apply IH. reflexivity.
Qed.

Lemma peek_some p : forall a s, lookup p a = Some s -> exists i, peek p a = Some i.
Proof.
  induction a as [|[q t] r IH]; intros s H; cbn in *; [discriminate|].
  destruct (q =? p); [eexists; reflexivity|]. destruct (IH s H) as [i ->]. eexists. reflexivity.
Qed.

Lemma lookup_filter p : forall a, lookup p (filter (fun x => fst x =? p) a) = lookup p a.
Proof.
  induction a as [|[q s] r IH]; cbn; [reflexivity|]. destruct (q =? p) eqn:E; cbn; [rewrite E; reflexivity | exact IH].
Qed.

(* for either order of the two statements: "whatever the collection inside the step does to the
   table, the block ends up registered with the new size" holds exactly when the size is written
   before the step *)
Theorem reregister_size_iff_policy_proof : forall pol : bool,
  (forall step a p old new, step_keeps p step -> lookup p a = Some old ->
     lookup p (reregister_inplace pol step a p new) = Some new) <-> pol = true.
Proof.
  intros pol. split.
  - intros H. destruct pol; [reflexivity|]. exfalso.
    (* the entry of block 2 sits behind the entry of a garbage block; the collection drops the garbage and compacts *)
    specialize (H (filter (fun x => fst x =? 2)) [(1, 10); (2, 20)] 2 20 30 (lookup_filter 2) eq_refl).
    cbn in H. discriminate H.
  - intros -> step a p old new Hk Hl. unfold reregister_inplace.
    destruct (peek_some p a old Hl) as [i Hi]. rewrite Hi. rewrite Hk. apply lookup_set_peek. exact Hi.
Qed.

(* the scraped fact: GC:reregister writes item.size before it calls self:step() *)
Fact reregister_policy : REREGISTER_SIZE_BEFORE_STEP = true.
Proof. reflexivity. Qed.

Theorem reregister_size_proof : forall step a p old new, step_keeps p step -> lookup p a = Some old ->
  lookup p (reregister_inplace REREGISTER_SIZE_BEFORE_STEP step a p new) = Some new.
Proof.
  rewrite reregister_policy. apply (proj2 (reregister_size_iff_policy_proof true)). reflexivity.
Qed.
