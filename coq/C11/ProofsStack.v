(* C11 - stack allocator: the chain of in-band headers, preservation over arbitrary histories
   (including client writes inside live blocks), LIFO restoration, refutation by wrap-around *)
From Coq Require Import ZArith List Bool Lia.
From Base Require Import LuaInt.
From C11 Require Import Gen Model Spec Common.
Import ListNotations.
Local Open Scope Z_scope.

Lemma hdr_size : STACK_HEADER_SIZE = 8. Proof. reflexivity. Qed.
Lemma max_size_32 : STACK_MAX_SIZE < two32. Proof. vm_compute. reflexivity. Qed.

Section Stack.
Variable c : scfg.
Hypothesis Hc : scfg_ok c.

(* live blocks newest first; every block's header (two 32-bit words just below it) holds the
   offsets that were current when it was allocated *)
Fixpoint chain (m : mem) (live : list blk) (prev curr : Z) : Prop :=
  match live with
  | [] => prev = 0 /\ curr = 0
  | b :: rest =>
      b_addr b = s_base c + prev /\ 0 < b_size b /\ prev + b_size b <= curr /\ curr <= s_size c /\
      b_addr b mod s_align c = 0 /\
      0 <= mget m (b_addr b - 4) /\ mget m (b_addr b - 4) + 8 <= prev /\
      chain m rest (mget m (b_addr b - 8)) (mget m (b_addr b - 4))
  end.

Definition sinv (s : sstate) (live : list blk) : Prop := chain (s_mem s) live (s_prev s) (s_curr s).

Lemma Hsal_pos : 0 < s_align c.
Proof. destruct Hc as (_ & _ & (k & Hk & ->) & _). apply Z.pow_pos_nonneg; lia. Qed.

Lemma Hsal_pow2 : pow2 (s_align c).
Proof. destruct Hc as (_ & _ & (k & Hk & E) & _). exists k. split; [lia | exact E]. Qed.

Lemma chain_bound m live : forall prev curr, chain m live prev curr ->
  0 <= prev /\ prev <= curr /\ curr <= s_size c /\
  Forall (fun b => s_base c + 8 <= b_addr b /\ b_addr b + b_size b <= s_base c + curr /\
                   b_addr b mod s_align c = 0 /\ 0 < b_size b) live.
Proof.
  induction live as [|b r IH]; intros prev curr H; cbn [chain] in H.
  - destruct H as [-> ->]. destruct Hc as (_ & HS & _). repeat split; try lia. constructor.
  - destruct H as (Ha & Hs & Hpc & Hcs & Hm & Hc0 & Hc8 & Hr).
    destruct (IH _ _ Hr) as (I1 & I2 & I3 & I4).
    repeat split; try lia. constructor.
    + repeat split; try lia; try exact Hm.
    + eapply Forall_impl; [|exact I4]. intros x (X1 & X2 & X3 & X4). repeat split; try lia; try exact X3.
Qed.

Lemma chain_disjoint m live : forall prev curr, chain m live prev curr -> pairwise_disjoint live.
Proof.
  induction live as [|b r IH]; intros prev curr H; cbn [chain] in H; cbn [pairwise_disjoint]; [exact I|].
  destruct H as (Ha & Hs & Hpc & Hcs & Hm & Hc0 & Hc8 & Hr).
  split; [|eapply IH; exact Hr].
  destruct (chain_bound _ _ _ _ Hr) as (_ & _ & _ & HF).
  eapply Forall_impl; [|exact HF]. intros x (X1 & X2 & X3 & X4). unfold blk_disjoint. right. lia.
Qed.

(* the 8 bytes below a live block belong to no live block *)
Lemma chain_headers_free m live : forall prev curr, chain m live prev curr ->
  forall b' x, In b' live -> In x live ->
    b_addr x + b_size x <= b_addr b' - 8 \/ b_addr b' <= b_addr x.
Proof.
  induction live as [|b r IH]; intros prev curr H b' x Hb' Hx; cbn [chain] in H; [destruct Hb'|].
  destruct H as (Ha & Hs & Hpc & Hcs & Hm & Hc0 & Hc8 & Hr).
  destruct (chain_bound _ _ _ _ Hr) as (_ & _ & _ & HF). rewrite Forall_forall in HF.
  destruct Hb' as [<- | Hb']; destruct Hx as [<- | Hx].
  - right. lia.
  - left. destruct (HF x Hx) as (X1 & X2 & _). lia.
  - right. destruct (HF b' Hb') as (X1 & X2 & _ & X4). lia.
  - eapply IH; eassumption.
Qed.

(* the chain only reads the header words of live blocks *)
Lemma chain_frame m m' live : forall prev curr,
  (forall b, In b live -> mget m' (b_addr b - 8) = mget m (b_addr b - 8) /\
                          mget m' (b_addr b - 4) = mget m (b_addr b - 4)) ->
  chain m live prev curr -> chain m' live prev curr.
Proof.
  induction live as [|b r IH]; intros prev curr Hf H; cbn [chain] in *; [exact H|].
  destruct H as (Ha & Hs & Hpc & Hcs & Hm & Hc0 & Hc8 & Hr).
  destruct (Hf b (or_introl eq_refl)) as [E8 E4]. rewrite E8, E4.
  repeat split; try assumption. apply IH; [|exact Hr].
  intros x Hx. apply Hf. right. exact Hx.
Qed.

(* shrinking (or keeping) the size of any live block keeps the chain *)
Lemma chain_shrink m live : forall i prev curr b n,
  chain m live prev curr -> nth_error live i = Some b -> 0 < n <= b_size b ->
  chain m (replace_nth i live (mkblk (b_addr b) n)) prev curr.
Proof.
  induction live as [|x r IH]; intros i prev curr b n H Hn Hsz; destruct i; cbn in Hn; try discriminate.
  - inversion Hn; subst x. cbn [replace_nth chain b_addr b_size] in *.
    destruct H as (Ha & Hs & Hpc & Hcs & Hm & Hc0 & Hc8 & Hr). repeat split; try assumption; lia.
  - cbn [replace_nth chain] in *.
    destruct H as (Ha & Hs & Hpc & Hcs & Hm & Hc0 & Hc8 & Hr). repeat split; try assumption.
    eapply IH; eassumption.
Qed.

(* an older block never sits at the current prev offset *)
Lemma older_not_top m x r prev curr k b :
  chain m (x :: r) prev curr -> nth_error r k = Some b -> b_addr b - s_base c <> prev.
Proof.
  cbn [chain]. intros (Ha & Hs & Hpc & Hcs & Hm & Hc0 & Hc8 & Hr) Hn.
  destruct (chain_bound _ _ _ _ Hr) as (_ & _ & _ & HF). rewrite Forall_forall in HF.
  destruct (HF b (nth_error_In _ _ Hn)) as (X1 & X2 & _ & X4). lia.
Qed.

Lemma live_addr_facts m live prev curr i b :
  chain m live prev curr -> nth_error live i = Some b ->
  b_addr b <> 0 /\ w64 (b_addr b - s_base c) = b_addr b - s_base c /\
  w64 (b_addr b - STACK_HEADER_SIZE) = b_addr b - 8 /\ 0 <= b_addr b - s_base c < s_size c.
Proof.
  intros H Hn. destruct (chain_bound _ _ _ _ H) as (_ & _ & Hcs & HF). rewrite Forall_forall in HF.
  destruct (HF b (nth_error_In _ _ Hn)) as (X1 & X2 & _ & X4).
  destruct Hc as (HB & HS & _ & Hfit). pose proof Hsal_pos. rewrite hdr_size in *.
  repeat split; try lia; apply w64_small; lia.
Qed.

(* ---------- alloc ---------- *)
Lemma stack_alloc_ok s live n :
  sinv s live -> 0 <= n < two64 ->
  exists s' p, stack_alloc c s n = (s', p) /\
    ((p = 0 /\ s' = s) \/ (p <> 0 /\ sinv s' (mkblk p n :: live))).
Proof.
  intros Hi Hn. unfold sinv in Hi.
  destruct (chain_bound _ _ _ _ Hi) as (Hp0 & Hpc & Hcs & HF).
  destruct Hc as (HB & HS & Hpow & Hfit). pose proof Hsal_pos as HA. pose proof Hsal_pow2 as HP2.
  pose proof max_size_32 as H32.
  unfold stack_alloc. destruct (n =? 0) eqn:E0.
  { exists s, 0. split; [reflexivity|]. left. auto. }
  apply Z.eqb_neq in E0. rewrite hdr_size in *.
  rewrite (w64_small (s_base c + s_curr s)) by lia.
  rewrite (w64_small (s_base c + s_curr s + 8)) by lia.
  destruct (align_forward_spec (s_base c + s_curr s + 8) (s_align c) HP2 ltac:(lia) ltac:(lia)) as [Hr Hm].
  set (r := align_forward (s_base c + s_curr s + 8) (s_align c)) in *.
  rewrite (w64_small (r - s_base c)) by lia.
  destruct ((w64 (r - s_base c + n) >? s_size c) || (w64 (r - s_base c + n) <? r - s_base c)) eqn:E.
  { exists s, 0. split; [reflexivity|]. left. auto. }
  apply overflow_test_false in E; [|lia | lia]. destruct E as [Ew E]. rewrite Ew.
  rewrite (w64_small (r - 8)) by lia.
  eexists. exists r. split; [reflexivity|]. right. split; [lia|].
  unfold sinv. cbn [s_mem s_prev s_curr chain b_addr b_size].
  replace (r - 8 + 4) with (r - 4) by lia.
  rewrite (Z.mod_small (s_prev s) two32) by lia.
  rewrite (Z.mod_small (s_curr s) two32) by lia.
  rewrite mget_mset_same.
  rewrite mget_mset_other by lia. rewrite mget_mset_same.
  repeat split; try lia; try assumption.
  eapply chain_frame; [|exact Hi].
  intros b Hb. rewrite Forall_forall in HF. destruct (HF b Hb) as (X1 & X2 & _ & X4).
  split; (rewrite mget_mset_other by lia; rewrite mget_mset_other by lia; reflexivity).
Qed.

(* ---------- dealloc ---------- *)
Lemma stack_dealloc_top s b r :
  sinv s (b :: r) -> exists s', stack_dealloc c s (b_addr b) = Some s' /\ sinv s' r.
Proof.
  intros Hi. unfold sinv in Hi.
  destruct (live_addr_facts _ _ _ _ O b Hi eq_refl) as (Hnz & Hw & Hw8 & Hr).
  cbn [chain] in Hi. destruct Hi as (Ha & Hs & Hpc & Hcs & Hm & Hc0 & Hc8 & Hch).
  unfold stack_dealloc. apply Z.eqb_neq in Hnz. rewrite Hnz, Hw, Hw8.
  assert (E : (b_addr b - s_base c =? s_prev s) = true) by (apply Z.eqb_eq; lia). rewrite E.
  eexists. split; [reflexivity|]. unfold sinv. cbn [s_mem s_prev s_curr].
  replace (b_addr b - 8 + 4) with (b_addr b - 4) by lia. exact Hch.
Qed.

Lemma stack_dealloc_older s x r k b :
  sinv s (x :: r) -> nth_error r k = Some b -> stack_dealloc c s (b_addr b) = None.
Proof.
  intros Hi Hn. unfold sinv in Hi.
  destruct (live_addr_facts _ _ _ _ (S k) b Hi Hn) as (Hnz & Hw & Hw8 & Hr).
  pose proof (older_not_top _ _ _ _ _ _ _ Hi Hn) as Hne.
  unfold stack_dealloc. apply Z.eqb_neq in Hnz. rewrite Hnz, Hw.
  apply Z.eqb_neq in Hne. rewrite Hne. reflexivity.
Qed.

(* ---------- realloc (newsize > 0) ---------- *)
Lemma stack_realloc_ok s live i b n :
  sinv s live -> nth_error live i = Some b -> 0 < n < two64 ->
  stack_realloc c s (b_addr b) n (b_size b) = None \/
  exists s' q, stack_realloc c s (b_addr b) n (b_size b) = Some (s', q) /\ s_mem s' = s_mem s /\
    ((q = 0 /\ s' = s) \/ (q = b_addr b /\ sinv s' (replace_nth i live (mkblk q n)))).
Proof.
  intros Hi Hn Hn0. unfold sinv in Hi.
  destruct (live_addr_facts _ _ _ _ i b Hi Hn) as (Hnz & Hw64 & Hw8 & Hr).
  destruct Hc as (HB & HS & Hpow & Hfit). pose proof Hsal_pos as HA. rewrite hdr_size in *.
  unfold stack_realloc. apply Z.eqb_neq in Hnz. rewrite Hnz.
  assert (E1 : (n =? 0) = false) by (apply Z.eqb_neq; lia). rewrite E1.
  destruct (stack_ptr_ok c (b_addr b)); [|left; reflexivity]. right. rewrite Hw64.
  destruct i as [|k].
  - (* the newest block *)
    destruct live as [|x r]; cbn in Hn; [discriminate|]. inversion Hn; subst x.
    cbn [chain] in Hi. destruct Hi as (Ha & Hs & Hpc & Hcs & Hm & Hc0 & Hc8 & Hch).
    assert (E : (b_addr b - s_base c =? s_prev s) = true) by (apply Z.eqb_eq; lia). rewrite E.
    destruct ((w64 (b_addr b - s_base c + n) >? s_size c) || (w64 (b_addr b - s_base c + n) <? b_addr b - s_base c)) eqn:E2.
    + exists s, 0. split; [reflexivity|]. split; [reflexivity|]. left. auto.
    + apply overflow_test_false in E2; [|lia | lia]. destruct E2 as [Ew E2]. rewrite Ew.
      eexists. exists (b_addr b). split; [reflexivity|]. split; [reflexivity|]. right.
      split; [reflexivity|]. unfold sinv. cbn [s_mem s_prev s_curr replace_nth chain b_addr b_size].
      repeat split; try assumption; lia.
  - (* an older block *)
    destruct live as [|x r]; cbn in Hn; [discriminate|].
    pose proof (older_not_top _ _ _ _ _ _ _ Hi Hn) as Hne.
    apply Z.eqb_neq in Hne. rewrite Hne.
    destruct (n >? b_size b) eqn:E3.
    + exists s, 0. split; [reflexivity|]. split; [reflexivity|]. left. auto.
    + rewrite Z.gtb_ltb in E3. apply Z.ltb_ge in E3.
      exists s, (b_addr b). split; [reflexivity|]. split; [reflexivity|]. right.
      split; [reflexivity|]. unfold sinv.
      apply (chain_shrink (s_mem s) (x :: r) (S k) (s_prev s) (s_curr s) b n Hi Hn). lia.
Qed.

(* ---------- one step ---------- *)
Lemma sstep_ok s live o s' live' :
  sinv s live -> sop_usize o -> sstep c (s, live) o = Some (s', live') -> sinv s' live'.
Proof.
  intros Hi Hd Hst. destruct o as [n | i | i n | | a v]; cbn [sstep] in Hst.
  - cbn [sop_usize] in Hd. unfold usize in Hd.
    destruct (stack_alloc_ok s live n Hi Hd) as (s1 & p & Ha & Hcase). rewrite Ha in Hst.
    destruct Hcase as [[-> ->] | [Hp Hinv]].
    + cbn in Hst. inversion Hst; subst. exact Hi.
    + apply Z.eqb_neq in Hp. rewrite Hp in Hst. inversion Hst; subst. exact Hinv.
  - destruct (nth_error live i) as [b|] eqn:Hn; [|inversion Hst; subst; exact Hi].
    destruct live as [|x r]; [destruct i; discriminate|]. destruct i as [|k]; cbn in Hn.
    + inversion Hn; subst x. destruct (stack_dealloc_top s b r Hi) as (s1 & Hde & Hinv).
      rewrite Hde in Hst. cbn in Hst. inversion Hst; subst. exact Hinv.
    + rewrite (stack_dealloc_older s x r k b Hi Hn) in Hst. discriminate.
  - destruct (nth_error live i) as [b|] eqn:Hn; [|inversion Hst; subst; exact Hi].
    cbn [sop_usize] in Hd. unfold usize in Hd. destruct (Z.eq_dec n 0) as [-> | Hnz].
    + (* realloc to 0 = dealloc *)
      pose proof Hi as Hi'. unfold sinv in Hi'.
      destruct (live_addr_facts _ _ _ _ i b Hi' Hn) as (Hbnz & _).
      unfold stack_realloc in Hst. apply Z.eqb_neq in Hbnz. rewrite Hbnz in Hst. cbn [Z.eqb] in Hst.
      destruct live as [|x r]; [destruct i; discriminate|]. destruct i as [|k]; cbn in Hn.
      * inversion Hn; subst x. destruct (stack_dealloc_top s b r Hi) as (s1 & Hde & Hinv).
        rewrite Hde in Hst. cbn in Hst. inversion Hst; subst. exact Hinv.
      * rewrite (stack_dealloc_older s x r k b Hi Hn) in Hst. discriminate.
    + destruct (stack_realloc_ok s live i b n Hi Hn ltac:(lia)) as [Hnone | (s1 & q & Hre & _ & Hcase)].
      * rewrite Hnone in Hst. discriminate.
      * rewrite Hre in Hst. apply Z.eqb_neq in Hnz. rewrite Hnz in Hst.
        destruct Hcase as [[-> ->] | [-> Hinv]].
        -- cbn in Hst. inversion Hst; subst. exact Hi.
        -- pose proof Hi as Hi'. unfold sinv in Hi'.
           destruct (live_addr_facts _ _ _ _ i b Hi' Hn) as (Hbnz & _).
           apply Z.eqb_neq in Hbnz. rewrite Hbnz in Hst. inversion Hst; subst. exact Hinv.
  - inversion Hst; subst. unfold sinv, stack_deallocall. cbn. auto.
  - destruct (existsb (word_in_blk a) live) eqn:Ex; [|inversion Hst; subst; exact Hi].
    inversion Hst; subst. unfold sinv in *. cbn [s_mem s_prev s_curr].
    apply existsb_exists in Ex. destruct Ex as (x & Hx & Hwb).
    unfold word_in_blk in Hwb. apply andb_prop in Hwb. destruct Hwb as [Hwb H3].
    apply andb_prop in Hwb. destruct Hwb as [H1 H2].
    apply Z.ltb_lt in H2. apply Z.ltb_lt in H3.
    eapply chain_frame; [|exact Hi]. intros b' Hb'.
    pose proof (chain_headers_free _ _ _ _ Hi b' x Hb' Hx) as Hfree.
    split; apply mget_mset_other; lia.
Qed.

Lemma srun_ok ops : forall s live s' live',
  sinv s live -> Forall sop_usize ops -> srun c (s, live) ops = Some (s', live') -> sinv s' live'.
Proof.
  induction ops as [|o r IH]; intros s live s' live' Hi Hd Hr; cbn [srun] in Hr.
  - inversion Hr; subst. exact Hi.
  - inversion Hd; subst. destruct (sstep c (s, live) o) as [[s1 l1]|] eqn:E; [|discriminate].
    eapply IH; [|eassumption|exact Hr]. eapply sstep_ok; eassumption.
Qed.

(* under the LIFO precondition a history of valid calls never trips a check *)
Lemma live_ptr_ok_stack s live i b : sinv s live -> nth_error live i = Some b -> stack_ptr_ok c (b_addr b) = true.
Proof.
  intros Hi Hn. unfold sinv in Hi.
  destruct (live_addr_facts _ _ _ _ i b Hi Hn) as (_ & Hw & _ & Hr).
  destruct (chain_bound _ _ _ _ Hi) as (_ & _ & _ & HF). rewrite Forall_forall in HF.
  destruct (HF b (nth_error_In _ _ Hn)) as (_ & _ & Hm & _).
  unfold stack_ptr_ok. rewrite Hw. rewrite land_mask_mod by apply Hsal_pow2. rewrite Hm.
  apply andb_true_intro. split; [apply Z.ltb_lt; lia | reflexivity].
Qed.

Lemma sstep_total s live o : sinv s live -> sop_usize o -> sop_lifo o -> exists st', sstep c (s, live) o = Some st'.
Proof.
  intros Hi Hu Hl. destruct o as [n | i | i n | | a v]; cbn [sstep].
  - destruct (stack_alloc c s n). eexists. reflexivity.
  - cbn [sop_lifo] in Hl. subst i. destruct live as [|b r]; cbn [nth_error]; [eexists; reflexivity|].
    destruct (stack_dealloc_top s b r Hi) as (s1 & -> & _). eexists. reflexivity.
  - destruct (nth_error live i) as [b|] eqn:Hn; [|eexists; reflexivity].
    cbn [sop_lifo] in Hl. cbn [sop_usize] in Hu. unfold usize in Hu.
    destruct (Z.eq_dec n 0) as [-> | Hn0].
    + specialize (Hl eq_refl). subst i. destruct live as [|b0 r]; cbn in Hn; [discriminate|]. inversion Hn; subst b0.
      destruct (stack_dealloc_top s b r Hi) as (s1 & Hde & _).
      pose proof Hi as Hi'. unfold sinv in Hi'. destruct (live_addr_facts _ _ _ _ O b Hi' eq_refl) as (Hbnz & _).
      unfold stack_realloc. apply Z.eqb_neq in Hbnz. rewrite Hbnz. cbn [Z.eqb]. rewrite Hde. eexists. reflexivity.
    + destruct (stack_realloc_ok s live i b n Hi Hn ltac:(lia)) as [Hnone | (s1 & q & Hre & _)].
      * exfalso. unfold stack_realloc in Hnone.
        pose proof Hi as Hi'. unfold sinv in Hi'. destruct (live_addr_facts _ _ _ _ i b Hi' Hn) as (Hbnz & _).
        apply Z.eqb_neq in Hbnz. rewrite Hbnz in Hnone. apply Z.eqb_neq in Hn0. rewrite Hn0 in Hnone.
        rewrite (live_ptr_ok_stack s live i b Hi Hn) in Hnone.
        destruct (_ =? s_prev s) in Hnone; [destruct (_ || _) in Hnone; discriminate|]. destruct (n >? b_size b) in Hnone; discriminate.
      * rewrite Hre. apply Z.eqb_neq in Hn0. rewrite Hn0. destruct (q =? 0); eexists; reflexivity.
  - eexists. reflexivity.
  - destruct (existsb (word_in_blk a) live); eexists; reflexivity.
Qed.

Lemma srun_total ops : forall s live, sinv s live -> Forall sop_usize ops -> Forall sop_lifo ops ->
  exists s' live', srun c (s, live) ops = Some (s', live') /\ sinv s' live'.
Proof.
  induction ops as [|o r IH]; intros s live Hi Hu Hl; cbn [srun].
  - eexists. eexists. split; [reflexivity | exact Hi].
  - inversion Hu; subst. inversion Hl; subst. destruct (sstep_total s live o Hi H1 H3) as ([s1 l1] & E). rewrite E.
    apply IH; try assumption. eapply sstep_ok; eassumption.
Qed.

Lemma sinv_good s live : sinv s live -> good_blocks (s_base c) (s_size c) (s_align c) live.
Proof.
  intros Hi. unfold sinv in Hi. destruct (chain_bound _ _ _ _ Hi) as (_ & _ & Hcs & HF).
  unfold good_blocks. repeat split.
  - eapply Forall_impl; [|exact HF]. intros b (X1 & X2 & X3 & X4). unfold blk_in. lia.
  - eapply Forall_impl; [|exact HF]. intros b (X1 & X2 & X3 & X4). exact X3.
  - eapply chain_disjoint; exact Hi.
Qed.

End Stack.

Theorem stack_safe_proof : forall c ops s live,
  scfg_ok c -> Forall sop_usize ops -> srun c (stack_init, []) ops = Some (s, live) ->
  good_blocks (s_base c) (s_size c) (s_align c) live /\
  (live = [] -> s_prev s = 0 /\ s_curr s = 0).
Proof.
  intros c ops s live Hc Hd Hr.
  assert (Hi : sinv c s live).
  { eapply srun_ok; [exact Hc | | exact Hd | exact Hr]. unfold sinv, stack_init. cbn. auto. }
  split; [eapply sinv_good; eassumption|].
  intros ->. exact Hi.
Qed.

Theorem stack_total_proof : forall c ops, scfg_ok c -> Forall sop_usize ops -> Forall sop_lifo ops ->
  exists s live, srun c (stack_init, []) ops = Some (s, live) /\
                 good_blocks (s_base c) (s_size c) (s_align c) live.
Proof.
  intros c ops Hc Hu Hl.
  destruct (srun_total c Hc ops stack_init [] ltac:(unfold sinv, stack_init; cbn; auto) Hu Hl) as (s & live & Hr & Hi).
  exists s, live. split; [exact Hr | eapply sinv_good; eassumption].
Qed.

(* alloc immediately followed by dealloc gives back exactly the previous offsets *)
Theorem stack_alloc_dealloc_restores_proof : forall c ops s live n s1 p,
  scfg_ok c -> Forall sop_usize ops -> srun c (stack_init, []) ops = Some (s, live) ->
  0 <= n < two64 ->
  stack_alloc c s n = (s1, p) -> p <> 0 ->
  exists s2, stack_dealloc c s1 p = Some s2 /\ s_prev s2 = s_prev s /\ s_curr s2 = s_curr s.
Proof.
  intros c ops s live n s1 p Hc Hd Hr Hn Ha Hp.
  assert (Hi : sinv c s live).
  { eapply srun_ok; [exact Hc | | exact Hd | exact Hr]. unfold sinv, stack_init. cbn. auto. }
  destruct (stack_alloc_ok c Hc s live n Hi Hn) as (s1' & p' & Ha' & Hcase).
  rewrite Ha in Ha'. inversion Ha'; subst s1' p'. clear Ha'.
  destruct Hcase as [[-> _] | [_ Hinv]]; [contradiction|].
  destruct (stack_dealloc_top c Hc s1 (mkblk p n) live Hinv) as (s2 & Hde & Hinv2).
  cbn [b_addr] in Hde. exists s2. split; [exact Hde|].
  unfold stack_dealloc in Hde. apply Z.eqb_neq in Hp. rewrite Hp in Hde.
  destruct (w64 (p - s_base c) =? s_prev s1); [|discriminate]. inversion Hde; subst s2. cbn [s_prev s_curr].
  unfold sinv in Hinv. cbn [chain b_addr b_size] in Hinv.
  clear Hde Hinv2.
  unfold stack_alloc in Ha. destruct (n =? 0); [inversion Ha; subst; rewrite Z.eqb_refl in Hp; discriminate|].
  destruct (_ || _) in Ha; [inversion Ha; subst; rewrite Z.eqb_refl in Hp; discriminate|].
  inversion Ha; subst s1 p. cbn [s_mem].
  set (h := w64 (_ - STACK_HEADER_SIZE)).
  pose proof max_size_32 as H32.
  destruct (chain_bound c Hc _ _ _ _ Hi) as (Hp0 & Hpc & Hcs & _).
  destruct Hc as (_ & HS & _).
  rewrite mget_mset_other by lia. rewrite !mget_mset_same.
  rewrite !Z.mod_small by lia. auto.
Qed.

Definition swit_cfg : scfg := mkscfg 4096 64 8.
Lemma swit_cfg_ok : scfg_ok swit_cfg.
Proof.
  unfold scfg_ok, swit_cfg, two64. cbn. repeat split; try lia; try (vm_compute; discriminate).
  exists 3. split; [lia | reflexivity].
Qed.
