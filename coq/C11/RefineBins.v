(* C11 - refinement, part 1: the bins.  A bin of the memory-level model (a head word plus the
   next/prev words of the nodes it links) represents the address list of the abstract model;
   add_node / remove_bin_node / the two search loops compute what the list operations compute. *)
From Coq Require Import ZArith List Bool Lia.
From Base Require Import LuaInt.
From C11 Require Import Gen Model Heap HeapA Spec SpecHeap Common ProofsHeap.
Import ListNotations.
Local Open Scope Z_scope.

Ltac mm := repeat first [rewrite mget_mset_same | rewrite mget_mset_other by lia].

(* node addresses: positive, 16-aligned, pairwise different *)
Definition node_ok (a : Z) : Prop := 0 < a /\ a mod 16 = 0.
Definition good_addrs (l : list Z) : Prop := NoDup l /\ Forall node_ok l.

(* doubly linked list through the next (+16) / prev (+24) words *)
Fixpoint dll (m : mem) (prev : Z) (l : list Z) : Prop :=
  match l with
  | [] => True
  | a :: r => n_prev m a = prev /\ n_next m a = hd 0 r /\ dll m a r
  end.

Lemma dll_frame m m' l : forall p,
  (forall a, In a l -> n_next m' a = n_next m a /\ n_prev m' a = n_prev m a) ->
  dll m p l -> dll m' p l.
Proof.
  induction l as [|a r IH]; intros p Hf H; cbn [dll] in *; [exact I|].
  destruct H as (H1 & H2 & H3). destruct (Hf a (or_introl eq_refl)) as [E1 E2].
  rewrite E1, E2. repeat split; auto. apply IH; [|exact H3]. intros b Hb. apply Hf. right. exact Hb.
Qed.

Lemma good_cons a l : good_addrs (a :: l) -> node_ok a /\ ~ In a l /\ good_addrs l.
Proof.
  intros [Hnd HF]. inversion Hnd; subst. inversion HF; subst.
  split; [assumption|]. split; [assumption|]. split; assumption.
Qed.

Lemma good_in a l : good_addrs l -> In a l -> node_ok a.
Proof. intros [_ HF] H. rewrite Forall_forall in HF. auto. Qed.

(* two different good addresses have disjoint header words *)
Lemma node_sep a b : node_ok a -> node_ok b -> a <> b -> a + 16 <= b \/ b + 16 <= a.
Proof. unfold node_ok. intros [? ?] [? ?] ?. lia. Qed.

(* ---------- the memory effect of Heap:add_node on the links ---------- *)
Definition push_mem (m : mem) (node head : Z) : mem :=
  let m := mset m (node + 24) 0 in
  if head =? 0 then mset m (node + 16) 0
  else mset (mset m (node + 16) head) (head + 24) node.

Lemma dll_push m node l :
  dll m 0 l -> good_addrs (node :: l) ->
  dll (push_mem m node (hd 0 l)) 0 (node :: l).
Proof.
  intros H Hg. destruct (good_cons _ _ Hg) as ((Hn0 & Hnm) & Hnot & Hgl).
  unfold push_mem. destruct l as [|h r]; cbn [hd].
  - cbn [Z.eqb dll]. unfold n_prev, n_next. mm. auto.
  - destruct (good_cons _ _ Hgl) as ((Hh0 & Hhm) & Hnoth & Hgr).
    assert (Hne : h <> node) by (intros ->; apply Hnot; left; reflexivity).
    assert (E : (h =? 0) = false) by (apply Z.eqb_neq; lia). rewrite E.
    cbn [dll] in *. destruct H as (H1 & H2 & H3).
    unfold n_prev, n_next in *. mm. repeat split; auto.
    eapply dll_frame; [|exact H3]. intros b Hb.
    assert (Hbo : node_ok b) by (eapply good_in; [exact Hgr | exact Hb]). destruct Hbo as [Hb0 Hbm].
    assert (b <> h) by (intros ->; contradiction).
    assert (b <> node) by (intros ->; apply Hnot; right; exact Hb).
    unfold n_prev, n_next. mm. auto.
Qed.

Lemma push_mem_frame m node head w :
  w <> node + 24 -> w <> node + 16 -> (head <> 0 -> w <> head + 24) ->
  mget (push_mem m node head) w = mget m w.
Proof.
  intros H1 H2 H3. unfold push_mem. destruct (head =? 0) eqn:E.
  - mm. reflexivity.
  - apply Z.eqb_neq in E. specialize (H3 E). mm. reflexivity.
Qed.

(* ---------- the memory effect of Heap:remove_bin_node on the links ---------- *)
Definition unlink_mem (m : mem) (node : Z) : mem :=
  let m1 := if n_prev m node =? 0 then m else mset m (n_prev m node + 16) (n_next m node) in
  if n_next m1 node =? 0 then m1 else mset m1 (n_next m1 node + 24) (n_prev m1 node).

Lemma unlink_mem_frame m node w :
  (n_prev m node <> 0 -> w <> n_prev m node + 16) ->
  (n_next m node <> 0 -> w <> n_next m node + 24) ->
  node_ok node -> (n_prev m node <> 0 -> node_ok (n_prev m node) /\ n_prev m node <> node) ->
  mget (unlink_mem m node) w = mget m w.
Proof.
  intros H1 H2 Hno Hp. unfold unlink_mem.
  remember (n_prev m node) as pv eqn:Epv. remember (n_next m node) as nx eqn:Enx.
  destruct Hno as [Hn0 Hnm].
  destruct (pv =? 0) eqn:E1.
  - rewrite <- Enx, <- Epv.
    destruct (nx =? 0) eqn:E2; [reflexivity|]. apply Z.eqb_neq in E2. specialize (H2 E2). mm. reflexivity.
  - apply Z.eqb_neq in E1. destruct (Hp E1) as [[Hp0 Hpm] Hpn]. specialize (H1 E1).
    unfold n_next, n_prev in *. mm. rewrite <- Enx, <- Epv.
    destruct (nx =? 0) eqn:E2; [mm; reflexivity|]. apply Z.eqb_neq in E2. specialize (H2 E2). mm. reflexivity.
Qed.

(* ---------- segments: a list with a given predecessor and successor ---------- *)
Fixpoint dllseg (m : mem) (p : Z) (l : list Z) (nx : Z) : Prop :=
  match l with
  | [] => True
  | a :: r => n_prev m a = p /\ n_next m a = hd nx r /\ dllseg m a r nx
  end.

Lemma dll_seg m l : forall p, dll m p l <-> dllseg m p l 0.
Proof. induction l as [|a r IH]; intros p; cbn; [tauto|]. rewrite IH. tauto. Qed.

Lemma last_default {A} (b : A) r d d' : last (b :: r) d = last (b :: r) d'.
Proof. revert b. induction r as [|c r IH]; intros b; [reflexivity|]. cbn [last] in *. apply IH. Qed.

Lemma dllseg_app m l1 x l2 nx : forall p,
  dllseg m p (l1 ++ x :: l2) nx <-> dllseg m p l1 x /\ dllseg m (last l1 p) (x :: l2) nx.
Proof.
  induction l1 as [|a r IH]; intros p; [cbn [app dllseg last]; tauto|].
  cbn [app dllseg]. rewrite IH. destruct r as [|b r'].
  - cbn [app hd last dllseg]. tauto.
  - replace (last (a :: b :: r') p) with (last (b :: r') a) by (cbn [last]; apply last_default).
    cbn [app hd dllseg]. tauto.
Qed.

Lemma dllseg_frame m m' l nx : forall p,
  (forall a, In a l -> n_next m' a = n_next m a /\ n_prev m' a = n_prev m a) ->
  dllseg m p l nx -> dllseg m' p l nx.
Proof.
  induction l as [|a r IH]; intros p Hf H; cbn [dllseg] in *; [exact I|].
  destruct H as (H1 & H2 & H3). destruct (Hf a (or_introl eq_refl)) as [E1 E2].
  rewrite E1, E2. repeat split; auto. apply IH; [|exact H3]. intros b Hb. apply Hf. right. exact Hb.
Qed.

(* redirect the successor of the last element *)
Lemma dllseg_set_succ m m' l0 pv nx nx' : forall p,
  dllseg m p (l0 ++ [pv]) nx ->
  (forall a, In a l0 -> n_next m' a = n_next m a /\ n_prev m' a = n_prev m a) ->
  n_prev m' pv = n_prev m pv -> n_next m' pv = nx' ->
  dllseg m' p (l0 ++ [pv]) nx'.
Proof.
  induction l0 as [|a r IH]; intros p H Hf Hp Hn; cbn [app dllseg hd] in *.
  - destruct H as (H1 & H2 & _). rewrite Hp. auto.
  - destruct H as (H1 & H2 & H3). destruct (Hf a (or_introl eq_refl)) as [E1 E2].
    rewrite E1, E2. split; [exact H1|]. split.
    + rewrite H2. destruct r; reflexivity.
    + apply IH; auto. intros b Hb. apply Hf. right. exact Hb.
Qed.

(* removing the first element of a segment whose predecessor is p *)
Lemma unlink_head m node l2 p :
  dll m p (node :: l2) -> good_addrs (node :: l2) ->
  (p = 0 \/ (node_ok p /\ ~ In p (node :: l2))) ->
  dll (unlink_mem m node) p l2 /\ (p <> 0 -> n_next (unlink_mem m node) p = hd 0 l2).
Proof.
  intros H Hg Hp. cbn [dll] in H. destruct H as (Hpv & Hnx & Hd2).
  destruct (good_cons _ _ Hg) as ((Hn0 & Hnm) & Hnot & Hg2).
  split.
  - destruct l2 as [|b r2]; [exact I|].
    destruct (good_cons _ _ Hg2) as ((Hb0 & Hbm) & Hnotb & Hgr).
    assert (Hbn : b <> node) by (intros ->; apply Hnot; left; reflexivity).
    cbn [dll hd] in *. destruct Hd2 as (D1 & D2 & D3).
    unfold unlink_mem. rewrite Hpv, Hnx.
    assert (Eb : (b =? 0) = false) by (apply Z.eqb_neq; lia).
    destruct Hp as [-> | ((Hp0 & Hpm) & Hpnot)].
    + cbn [Z.eqb]. rewrite Hnx, Eb, Hpv. unfold n_prev, n_next in *. mm. repeat split; auto.
      eapply dll_frame; [|exact D3]. intros c Hc.
      assert (Hco : node_ok c) by (eapply good_in; [exact Hgr | exact Hc]). destruct Hco.
      assert (c <> b) by (intros ->; contradiction).
      unfold n_prev, n_next. mm. auto.
    + assert (Ep : (p =? 0) = false) by (apply Z.eqb_neq; lia). rewrite Ep.
      assert (Hpn : p <> node) by (intros ->; apply Hpnot; left; reflexivity).
      assert (Hpb : p <> b) by (intros ->; apply Hpnot; right; left; reflexivity).
      unfold n_prev, n_next in *. mm. rewrite Hnx, Eb, Hpv. mm. repeat split; auto.
      eapply dll_frame; [|exact D3]. intros c Hc.
      assert (Hco : node_ok c) by (eapply good_in; [exact Hgr | exact Hc]). destruct Hco.
      assert (c <> b) by (intros ->; contradiction).
      assert (c <> p) by (intros ->; apply Hpnot; right; right; exact Hc).
      unfold n_prev, n_next. mm. auto.
  - intros Hpnz. destruct Hp as [-> | ((Hp0 & Hpm) & Hpnot)]; [contradiction|].
    assert (Hpn : p <> node) by (intros ->; apply Hpnot; left; reflexivity).
    unfold unlink_mem. rewrite Hpv, Hnx.
    assert (Ep : (p =? 0) = false) by (apply Z.eqb_neq; lia). rewrite Ep.
    unfold n_prev, n_next in *. mm. rewrite Hnx.
    destruct (hd 0 l2 =? 0) eqn:E2; mm; [reflexivity|].
    apply Z.eqb_neq in E2.
    destruct l2 as [|b r2]; [cbn in E2; contradiction|]. cbn [hd] in *.
    destruct (good_cons _ _ Hg2) as ((Hb0 & Hbm) & _ & _).
    assert (Hpb : p <> b) by (intros ->; apply Hpnot; right; left; reflexivity).
    mm. reflexivity.
Qed.

Lemma good_app_mid l1 node l2 :
  good_addrs (l1 ++ node :: l2) ->
  node_ok node /\ ~ In node l1 /\ ~ In node l2 /\ good_addrs (node :: l2) /\
  (forall a, In a l1 -> node_ok a /\ a <> node /\ ~ In a l2).
Proof.
  intros [Hnd HF]. rewrite Forall_forall in HF.
  assert (Hn : node_ok node) by (apply HF; apply in_or_app; right; left; reflexivity).
  pose proof (NoDup_remove_2 _ _ _ Hnd) as Hnot.
  assert (Hnd2 : NoDup (node :: l2)).
  { clear -Hnd. induction l1 as [|a r IH]; cbn in Hnd; [exact Hnd|]. inversion Hnd; auto. }
  split; [exact Hn|]. split; [intros H; apply Hnot; apply in_or_app; left; exact H|].
  split; [intros H; apply Hnot; apply in_or_app; right; exact H|].
  split.
  - split; [exact Hnd2|]. rewrite Forall_forall. intros a Ha. apply HF. apply in_or_app. right. exact Ha.
  - intros a Ha. split; [apply HF; apply in_or_app; left; exact Ha|].
    clear -Hnd Ha. induction l1 as [|c r IH]; [destruct Ha|]. cbn in Hnd. inversion Hnd as [|? ? Hc Hr]; subst.
    destruct Ha as [<- | Ha].
    + split; [intros ->; apply Hc; apply in_or_app; right; left; reflexivity|].
      intros H. apply Hc. apply in_or_app. right. right. exact H.
    + apply IH; assumption.
Qed.

(* removing [node] anywhere in a bin list *)
Lemma dll_unlink m l1 node l2 :
  dll m 0 (l1 ++ node :: l2) -> good_addrs (l1 ++ node :: l2) ->
  dll (unlink_mem m node) 0 (l1 ++ l2).
Proof.
  intros H Hg.
  destruct (good_app_mid _ _ _ Hg) as (Hno & Hn1 & Hn2 & Hg2 & Hl1).
  destruct l1 as [|c r].
  { cbn [app] in *. apply (unlink_head m node l2 0 H Hg). left. reflexivity. }
  destruct (@exists_last _ (c :: r) ltac:(discriminate)) as (l0 & pv & E). rewrite E in *. clear E c r.
  apply dll_seg in H. apply dllseg_app in H. destruct H as [Hs1 Hs2]. rewrite last_last in Hs2.
  apply dll_seg in Hs2.
  assert (Hpv : node_ok pv /\ pv <> node /\ ~ In pv l2) by (apply Hl1; apply in_or_app; right; left; reflexivity).
  destruct Hpv as (Hpvo & Hpvn & Hpv2).
  destruct (unlink_head m node l2 pv Hs2 Hg2) as [Ht Hnx].
  { right. split; [exact Hpvo|]. intros [Hc | Hc]; [apply Hpvn; symmetry; exact Hc | contradiction]. }
  cbn [dll] in Hs2. destruct Hs2 as (Ep & En & _).
  assert (Hpvnz : pv <> 0) by (destruct Hpvo; lia).
  specialize (Hnx Hpvnz).
  (* which words the unlink writes *)
  assert (Hfr : forall w, w <> pv + 16 -> (hd 0 l2 <> 0 -> w <> hd 0 l2 + 24) ->
                 mget (unlink_mem m node) w = mget m w).
  { intros w W1 W2. apply unlink_mem_frame; rewrite ?Ep, ?En; auto. }
  assert (Hb : forall b r2, l2 = b :: r2 -> node_ok b).
  { intros b r2 ->. eapply good_in; [exact Hg2 | right; left; reflexivity]. }
  assert (Hs1' : dllseg (unlink_mem m node) 0 (l0 ++ [pv]) (hd 0 l2)).
  { eapply dllseg_set_succ; [exact Hs1 | | | exact Hnx].
    - intros a Ha.
      assert (Hao : node_ok a /\ a <> node /\ ~ In a l2) by (apply Hl1; apply in_or_app; left; exact Ha).
      destruct Hao as ((Ha0 & Ham) & Han & Ha2).
      assert (Hapv : a <> pv).
      { intros ->. destruct Hg as [Hnd _]. rewrite <- app_assoc in Hnd. cbn [app] in Hnd.
        apply NoDup_remove_2 in Hnd. apply Hnd. apply in_or_app. left. exact Ha. }
      destruct Hpvo as [Hp0 Hpm].
      unfold n_next, n_prev. split; apply Hfr; try lia.
      + intros Hh. destruct l2 as [|b r2]; [cbn in Hh; contradiction|]. cbn [hd] in *.
        destruct (Hb b r2 eq_refl).
        assert (a <> b) by (intros ->; apply Ha2; left; reflexivity). lia.
      + intros Hh. destruct l2 as [|b r2]; [cbn in Hh; contradiction|]. cbn [hd] in *.
        destruct (Hb b r2 eq_refl).
        assert (a <> b) by (intros ->; apply Ha2; left; reflexivity). lia.
    - destruct Hpvo as [Hp0 Hpm]. unfold n_prev. apply Hfr; [lia|].
      intros Hh. destruct l2 as [|b r2]; [cbn in Hh; contradiction|]. cbn [hd] in *.
      destruct (Hb b r2 eq_refl).
      assert (pv <> b) by (intros ->; apply Hpv2; left; reflexivity). lia. }
  apply dll_seg. destruct l2 as [|b r2].
  - rewrite app_nil_r. exact Hs1'.
  - apply dllseg_app. cbn [hd] in Hs1'. split; [exact Hs1'|]. rewrite last_last. apply dll_seg. exact Ht.
Qed.

(* ---------- bins of the two models ---------- *)
Definition bins_rep (m : mem) (bins_c : list Z) (bins_a : list (list Z)) : Prop :=
  length bins_c = Z.to_nat BIN_COUNT /\ length bins_a = Z.to_nat BIN_COUNT /\
  forall i, 0 <= i < BIN_COUNT -> dll m 0 (bin_nth bins_a i) /\ bin_get bins_c i = hd 0 (bin_nth bins_a i).

Lemma bin_get_set_same bins i v : length bins = Z.to_nat BIN_COUNT -> 0 <= i < BIN_COUNT -> bin_get (bin_set bins i v) i = v.
Proof. intros HL Hi. unfold bin_get, bin_set. apply nth_list_set_same. lia. Qed.
Lemma bin_get_set_other bins i j v : 0 <= i -> 0 <= j -> i <> j -> bin_get (bin_set bins i v) j = bin_get bins j.
Proof. intros Hi Hj Hne. unfold bin_get, bin_set. apply nth_list_set_other. lia. Qed.

Lemma remove_addr_split a l1 l2 : ~ In a l1 -> remove_addr a (l1 ++ a :: l2) = l1 ++ l2.
Proof.
  induction l1 as [|x r IH]; intros H; cbn [app remove_addr].
  - rewrite Z.eqb_refl. reflexivity.
  - destruct (x =? a) eqn:E; [apply Z.eqb_eq in E; exfalso; apply H; left; exact E|].
    f_equal. apply IH. intros Hc. apply H. right. exact Hc.
Qed.

Definition bins_good (bins_a : list (list Z)) : Prop :=
  (forall i, 0 <= i < BIN_COUNT -> good_addrs (bin_nth bins_a i)) /\
  (forall i j a, 0 <= i < BIN_COUNT -> 0 <= j < BIN_COUNT ->
     In a (bin_nth bins_a i) -> In a (bin_nth bins_a j) -> i = j).

Lemma bin_nth_upd_same' (bins : list (list Z)) i v :
  length bins = Z.to_nat BIN_COUNT -> 0 <= i < BIN_COUNT -> bin_nth (bin_upd bins i v) i = v.
Proof. apply bin_nth_upd_same. Qed.

(* ---------- Heap:add_node = push on the abstract bin ---------- *)
Lemma add_node_sim m bins_c bins_a node :
  bins_rep m bins_c bins_a -> bins_good bins_a -> node_ok node ->
  (forall i, 0 <= i < BIN_COUNT -> ~ In node (bin_nth bins_a i)) ->
  let i := get_bin_index (n_size m node) in
  let m' := push_mem m node (hd 0 (bin_nth bins_a i)) in
  add_node bins_c m node = (bin_set bins_c i node, m') /\
  bins_rep m' (bin_set bins_c i node) (bins_add bins_a (n_size m node) node).
Proof.
  intros (HLc & HLa & Hrep) (Hgood & Hdisj) Hno Hnew i m'.
  pose proof (get_bin_index_range (n_size m node)) as Hi. fold i in Hi.
  destruct (Hrep i Hi) as [Hdl Hhd].
  split.
  - unfold add_node. fold i. rewrite Hhd. reflexivity.
  - split; [unfold bin_set; rewrite list_set_length; exact HLc|].
    split; [unfold bins_add, bin_upd; rewrite list_set_length; exact HLa|].
    intros j Hj. unfold bins_add. fold i.
    destruct (Z.eq_dec j i) as [-> | Hne].
    + rewrite bin_nth_upd_same by assumption. rewrite bin_get_set_same by assumption.
      split; [|reflexivity]. apply dll_push; [exact Hdl|].
      destruct (Hgood i Hi) as [Hnd HF]. split; [constructor; [apply Hnew; exact Hi | exact Hnd] | constructor; assumption].
    + rewrite bin_nth_upd_other by lia. rewrite bin_get_set_other by lia.
      destruct (Hrep j Hj) as [Hdj Hhj]. split; [|exact Hhj].
      eapply dll_frame; [|exact Hdj]. intros a Ha.
      assert (Hao : node_ok a) by (eapply good_in; [apply Hgood; exact Hj | exact Ha]).
      assert (Han : a <> node) by (intros ->; apply (Hnew j Hj); exact Ha).
      destruct Hao as [Ha0 Ham]. destruct Hno as [Hn0 Hnm].
      unfold n_next, n_prev. split; apply push_mem_frame; try lia.
      * intros Hh. destruct (bin_nth bins_a i) as [|h r] eqn:Eb; [cbn in Hh; contradiction|]. cbn [hd] in *.
        assert (Hho : node_ok h) by (eapply good_in; [apply Hgood; exact Hi | rewrite Eb; left; reflexivity]).
        destruct Hho. lia.
      * intros Hh. destruct (bin_nth bins_a i) as [|h r] eqn:Eb; [cbn in Hh; contradiction|]. cbn [hd] in *.
        assert (Hho : node_ok h) by (eapply good_in; [apply Hgood; exact Hi | rewrite Eb; left; reflexivity]).
        assert (a <> h).
        { intros ->. apply Hne. apply (Hdisj j i h Hj Hi Ha). rewrite Eb. left. reflexivity. }
        destruct Hho. lia.
Qed.

Lemma dll_fields m node l2 : forall l1 p,
  dll m p (l1 ++ node :: l2) -> n_prev m node = last l1 p /\ n_next m node = hd 0 l2.
Proof.
  induction l1 as [|a r IH]; intros p H; cbn [app dll] in H.
  - destruct H as (H1 & H2 & _). cbn. auto.
  - destruct H as (_ & _ & H3). destruct (IH a H3) as [I1 I2]. split; [|exact I2].
    rewrite I1. destruct r as [|z r']; [reflexivity | cbn [last]; apply last_default].
Qed.

(* ---------- Heap:remove_bin_node = remove from the abstract bin ---------- *)
Lemma remove_node_sim m bins_c bins_a i node :
  bins_rep m bins_c bins_a -> bins_good bins_a -> 0 <= i < BIN_COUNT -> In node (bin_nth bins_a i) ->
  let bins_c' := if node =? bin_get bins_c i then bin_set bins_c i (n_next m node) else bins_c in
  remove_bin_node bins_c m i node = (bins_c', unlink_mem m node) /\
  bins_rep (unlink_mem m node) bins_c' (bins_remove bins_a i node) /\
  (forall w, (forall a, In a (bin_nth bins_a i) -> a <> node -> w <> a + 16 /\ w <> a + 24) ->
             mget (unlink_mem m node) w = mget m w).
Proof.
  intros (HLc & HLa & Hrep) (Hgood & Hdisj) Hi Hin bins_c'.
  destruct (Hrep i Hi) as [Hdl Hhd]. pose proof (Hgood i Hi) as Hg.
  destruct (in_split _ _ Hin) as (l1 & l2 & El). rewrite El in *.
  destruct (good_app_mid _ _ _ Hg) as (Hno & Hn1 & Hn2 & Hg2 & Hl1).
  (* the fields of node *)
  destruct (dll_fields m node l2 l1 0 Hdl) as [Epv Enx].
  assert (Hframe : forall w, (forall a, In a (l1 ++ node :: l2) -> a <> node -> w <> a + 16 /\ w <> a + 24) ->
             mget (unlink_mem m node) w = mget m w).
  { intros w Hw. apply unlink_mem_frame; auto.
    - rewrite Epv. intros Hz. destruct l1 as [|c r]; [cbn in Hz; contradiction|].
      assert (Hl : In (last (c :: r) 0) (c :: r)).
      { destruct (@exists_last _ (c :: r) ltac:(discriminate)) as (l0 & pv & E). rewrite E. rewrite last_last. apply in_or_app. right. left. reflexivity. }
      destruct (Hl1 _ Hl) as (_ & Hne & _). apply Hw; [apply in_or_app; left; exact Hl | exact Hne].
    - rewrite Enx. intros Hz. destruct l2 as [|b r2]; [cbn in Hz; contradiction|]. cbn [hd] in *.
      apply Hw; [apply in_or_app; right; right; left; reflexivity|]. intros ->. apply Hn2. left. reflexivity.
    - rewrite Epv. intros Hz. destruct l1 as [|c r]; [cbn in Hz; contradiction|].
      assert (Hl : In (last (c :: r) 0) (c :: r)).
      { destruct (@exists_last _ (c :: r) ltac:(discriminate)) as (l0 & pv & E). rewrite E. rewrite last_last. apply in_or_app. right. left. reflexivity. }
      destruct (Hl1 _ Hl) as (Ho & Hne & _). auto. }
  split; [reflexivity|]. split.
  - split.
    { subst bins_c'. destruct (node =? bin_get bins_c i); [unfold bin_set; rewrite list_set_length|]; exact HLc. }
    split; [unfold bins_remove, bin_upd; rewrite list_set_length; exact HLa|].
    intros j Hj. unfold bins_remove.
    destruct (Z.eq_dec j i) as [-> | Hne].
    + rewrite bin_nth_upd_same by assumption. rewrite El. rewrite remove_addr_split by exact Hn1.
      split; [apply dll_unlink; assumption|].
      subst bins_c'. rewrite Hhd. destruct l1 as [|c r]; cbn [app hd].
      * rewrite Z.eqb_refl. rewrite bin_get_set_same by assumption. exact Enx.
      * assert (E : (node =? c) = false).
        { apply Z.eqb_neq. intros ->. apply Hn1. left. reflexivity. }
        rewrite E. rewrite Hhd. reflexivity.
    + rewrite bin_nth_upd_other by lia.
      destruct (Hrep j Hj) as [Hdj Hhj]. split.
      * eapply dll_frame; [|exact Hdj]. intros a Ha.
        assert (Hao : node_ok a) by (eapply good_in; [apply Hgood; exact Hj | exact Ha]).
        unfold n_next, n_prev. split; apply Hframe; intros b Hb Hbn;
          (assert (Hbo : node_ok b) by (eapply good_in; [exact Hg | exact Hb]));
          (assert (a <> b) by (intros ->; apply Hne; apply (Hdisj j i b Hj Hi Ha); rewrite El; exact Hb));
          destruct Hao, Hbo; lia.
      * subst bins_c'. destruct (node =? bin_get bins_c i); [rewrite bin_get_set_other by lia|]; exact Hhj.
  - intros w Hw. apply Hframe. intros a Ha Hne. apply Hw; [exact Ha | exact Hne].
Qed.

(* ---------- the two search loops ---------- *)
Definition sizes_agree (m : mem) (chunks : list chunk) (l : list Z) : Prop :=
  Forall (fun a => a <> 0 /\ n_size m a = size_at chunks a) l.

Lemma search_bounded_sim m chunks size : forall n l p,
  dll m p l -> sizes_agree m chunks l ->
  bin_search_bounded n m (hd 0 l) size = first_fit chunks (firstn n l) size.
Proof.
  induction n as [|k IH]; intros l p Hd Hs; [reflexivity|].
  destruct l as [|a r]; cbn [hd firstn first_fit bin_search_bounded]; [reflexivity|].
  inversion Hs as [|? ? [Ha Hsz] Hr]; subst.
  apply Z.eqb_neq in Ha. rewrite Ha. rewrite Hsz.
  destruct (size_at chunks a >=? size); [reflexivity|].
  cbn [dll] in Hd. destruct Hd as (_ & Hn & Hd). rewrite Hn. apply (IH r a Hd Hr).
Qed.

Lemma search_fuel_sim m chunks size : forall fuel l p,
  dll m p l -> sizes_agree m chunks l -> (length l < fuel)%nat ->
  bin_search_fuel fuel m (hd 0 l) size = Some (first_fit chunks l size).
Proof.
  induction fuel as [|k IH]; intros l p Hd Hs Hlen; [lia|].
  destruct l as [|a r]; cbn [hd first_fit bin_search_fuel]; [reflexivity|].
  inversion Hs as [|? ? [Ha Hsz] Hr]; subst.
  apply Z.eqb_neq in Ha. rewrite Ha. rewrite Hsz.
  destruct (size_at chunks a >=? size); [reflexivity|].
  cbn [dll] in Hd. destruct Hd as (_ & Hn & Hd). rewrite Hn. apply (IH r a Hd Hr). cbn in Hlen. lia.
Qed.

Lemma pass1_sim m chunks bins_c bins_a size :
  bins_rep m bins_c bins_a ->
  (forall i, 0 <= i < BIN_COUNT -> sizes_agree m chunks (bin_nth bins_a i)) ->
  forall nb bi, 0 <= bi -> bi + Z.of_nat nb <= BIN_COUNT ->
  bins_pass1 nb bins_c m bi size = a_pass (Some (Z.to_nat BIN_MAX_LOOKUPS)) nb chunks bins_a bi size.
Proof.
  intros (HLc & HLa & Hrep) Hsz. induction nb as [|k IH]; intros bi Hb0 Hb; [reflexivity|].
  cbn [bins_pass1 a_pass]. destruct (Hrep bi ltac:(lia)) as [Hd Hh]. rewrite Hh.
  rewrite (search_bounded_sim m chunks size _ _ 0 Hd (Hsz bi ltac:(lia))).
  destruct (first_fit chunks _ size); [reflexivity|]. apply IH; lia.
Qed.

Lemma pass2_sim m chunks bins_c bins_a size fuel :
  bins_rep m bins_c bins_a ->
  (forall i, 0 <= i < BIN_COUNT -> sizes_agree m chunks (bin_nth bins_a i)) ->
  (forall i, 0 <= i < BIN_COUNT -> (length (bin_nth bins_a i) < fuel)%nat) ->
  forall nb bi, 0 <= bi -> bi + Z.of_nat nb <= BIN_COUNT ->
  bins_pass2 nb fuel bins_c m bi size = Some (a_pass None nb chunks bins_a bi size).
Proof.
  intros (HLc & HLa & Hrep) Hsz Hfuel. induction nb as [|k IH]; intros bi Hb0 Hb; [reflexivity|].
  cbn [bins_pass2 a_pass]. destruct (Hrep bi ltac:(lia)) as [Hd Hh]. rewrite Hh.
  rewrite (search_fuel_sim m chunks size fuel _ 0 Hd (Hsz bi ltac:(lia)) (Hfuel bi ltac:(lia))).
  destruct (first_fit chunks _ size); [reflexivity|]. apply IH; lia.
Qed.
