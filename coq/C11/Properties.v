(* Property C11: allocators hand out disjoint, aligned, in-bounds blocks and lose no memory.
   Only the property theorems, each closed by [exact] of a lemma and followed by Print Assumptions.
   The models mirror lib/allocators after the repairs 484ce8f (arena/stack overflow test, arena
   alloc(0)), 961d315 (pool deallocall), 942c78c (heap size overflow), b8d094a (heap realloc-shrink
   coalescing): every statement below is the full-strength one, over ALL histories with sizes
   anywhere in 0 .. 2^64-1; no [_partial]/[_refuted] pair is left.  The only hypotheses are the
   [*cfg_ok] facts about the buffer (a real object that does not wrap the address space). *)
From Coq Require Import ZArith List Bool Permutation.
From Base Require Import LuaInt.
From C11 Require Import Gen Model Heap HeapA Spec SpecHeap ProofsArena ProofsStack ProofsPool ProofsHeap ProofsHeapNaf.
Import ListNotations.
Local Open Scope Z_scope.

(* ---------------- arena ---------------- *)
(* every history of alloc/alloc0/realloc/realloc0/dealloc/deallocall/client writes runs without
   tripping a run-time check and keeps every live block inside the buffer, aligned to ALIGN and
   disjoint from every other live block *)
Theorem C11_arena_safe : forall c ops, acfg_ok c -> Forall aop_usize ops ->
  exists s live, arun c (arena_init, []) ops = Some (s, live) /\
                 good_blocks (a_base c) (a_size c) (a_align c) live.
Proof. exact arena_safe_proof. Qed.
Print Assumptions C11_arena_safe.

Theorem C11_arena_realloc_preserves : forall c ops s live i b n s' q,
  acfg_ok c -> Forall aop_usize ops ->
  arun c (arena_init, []) ops = Some (s, live) ->
  nth_error live i = Some b -> 0 < n < two64 ->
  arena_realloc c s (b_addr b) n (b_size b) = Some (s', q) -> q <> 0 ->
  (forall k, 0 <= k < Z.min n (b_size b) -> a_bytes s' (q + k) = a_bytes s (b_addr b + k)) /\
  (forall j b', j <> i -> nth_error live j = Some b' ->
     forall k, 0 <= k < b_size b' -> a_bytes s' (b_addr b' + k) = a_bytes s (b_addr b' + k)).
Proof. exact arena_realloc_preserves_proof. Qed.
Print Assumptions C11_arena_realloc_preserves.

Theorem C11_arena_alloc0_zeroes : forall c s n s1 p s0,
  arena_alloc c s n = Some (s1, p) -> arena_alloc0 c s n = Some (s0, p) -> p <> 0 ->
  forall x, a_bytes s0 x = if (p <=? x) && (x <? p + n) then 0 else a_bytes s x.
Proof. exact arena_alloc0_zeroes_proof. Qed.
Print Assumptions C11_arena_alloc0_zeroes.

Theorem C11_arena_realloc0_zeroes : forall c s p n old s1 q s0,
  arena_realloc c s p n old = Some (s1, q) -> arena_realloc0 c s p n old = Some (s0, q) ->
  q <> 0 -> old < n ->
  forall x, a_bytes s0 x = if (q + old <=? x) && (x <? q + n) then 0 else a_bytes s1 x.
Proof. exact arena_realloc0_zeroes_proof. Qed.
Print Assumptions C11_arena_realloc0_zeroes.

(* ---------------- stack ---------------- *)
(* every history that does not abort (an out-of-order dealloc is the documented precondition and
   fails the allocator's check; clients may overwrite any word touching their own blocks) keeps
   the live blocks in bounds, aligned and disjoint; once every block has been released the offsets
   are back to 0 0 *)
Theorem C11_stack_safe : forall c ops s live,
  scfg_ok c -> Forall sop_usize ops -> srun c (stack_init, []) ops = Some (s, live) ->
  good_blocks (s_base c) (s_size c) (s_align c) live /\
  (live = [] -> s_prev s = 0 /\ s_curr s = 0).
Proof. exact stack_safe_proof. Qed.
Print Assumptions C11_stack_safe.

Theorem C11_stack_alloc_dealloc_restores : forall c ops s live n s1 p,
  scfg_ok c -> Forall sop_usize ops -> srun c (stack_init, []) ops = Some (s, live) ->
  0 <= n < two64 ->
  stack_alloc c s n = (s1, p) -> p <> 0 ->
  exists s2, stack_dealloc c s1 p = Some s2 /\ s_prev s2 = s_prev s /\ s_curr s2 = s_curr s.
Proof. exact stack_alloc_dealloc_restores_proof. Qed.
Print Assumptions C11_stack_alloc_dealloc_restores.

(* ---------------- pool ---------------- *)
(* over all histories (including deallocall before the first alloc): live blocks are distinct
   whole chunks (never handed out twice while live), and once initialised the free list together
   with the live blocks is exactly the set of chunks (no chunk is ever lost) *)
Theorem C11_pool_safe : forall c ops s live,
  pcfg_ok c -> Forall pop_usize ops ->
  prun c (pool_init, []) ops = Some (s, live) ->
  pool_good c live /\
  (p_initialized s = true ->
   exists fl, flist (p_mem s) (p_head s) fl /\ Permutation (fl ++ map b_addr live) (all_chunks c)).
Proof. exact pool_safe_proof. Qed.
Print Assumptions C11_pool_safe.

(* ---------------- heap (abstract chunk-list model, compared with the code on every check) -------- *)
(* every history runs without a panic; in every reachable state the chunks tile the region, are
   16-aligned, every bin lists exactly the free chunks of its size class (once), the live blocks
   are exactly the payloads of the used chunks (no block lost, none duplicated), and hence they
   are in bounds, 16-aligned and pairwise disjoint *)
Theorem C11_heap_safe : forall c ops, hcfg_ok c -> Forall hop_usize ops ->
  exists s live, hrun c (ha_init_state, []) ops = Some (s, live) /\ heap_wf c s live /\
                 good_blocks (h_base c) (h_size c) ALLOC_ALIGN live.
Proof. exact heap_safe_proof. Qed.
Print Assumptions C11_heap_safe.

(* dealloc of any non-nil pointer that is not a live block (second free of the same pointer,
   foreign pointer) panics instead of touching the heap *)
Theorem C11_heap_invalid_free_reported : forall c ops s live p,
  hcfg_ok c -> Forall hop_usize ops -> hrun c (ha_init_state, []) ops = Some (s, live) ->
  ha_initialized s = true -> 0 < p < two64 -> ~ In p (map b_addr live) ->
  ha_dealloc s p = HPanic.
Proof. exact heap_invalid_free_reported_proof. Qed.
Print Assumptions C11_heap_invalid_free_reported.

(* no two adjacent chunks are ever both free *)
Theorem C11_heap_no_adjacent_free : forall c ops s live,
  hcfg_ok c -> Forall hop_usize ops ->
  hrun c (ha_init_state, []) ops = Some (s, live) -> no_adjacent_free (ha_chunks s).
Proof. exact heap_no_adjacent_free_proof. Qed.
Print Assumptions C11_heap_no_adjacent_free.

(* once every block has been released (in any order, after any history) the heap answers every
   request exactly as a fresh heap does: it IS the freshly initialised heap again *)
Theorem C11_heap_release_all_restores : forall c ops s n,
  hcfg_ok c -> Forall hop_usize ops ->
  hrun c (ha_init_state, []) ops = Some (s, []) ->
  ha_alloc c s n = ha_alloc c ha_init_state n.
Proof. exact heap_release_all_restores_proof. Qed.
Print Assumptions C11_heap_release_all_restores.
