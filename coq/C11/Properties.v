(* Property C11: allocators hand out disjoint, aligned, in-bounds blocks and lose no memory.
   Only the property theorems, each closed by [exact] of a lemma and followed by Print Assumptions.
   Where the unchanged code violates the full statement, the full statement is a Definition of
   Spec.v, refuted here with a concrete history, next to the strongest restriction that holds. *)
From Coq Require Import ZArith List Bool Permutation.
From Base Require Import LuaInt.
From C11 Require Import Gen Model Heap HeapA Spec SpecHeap ProofsArena ProofsStack ProofsPool ProofsHeap ProofsHeapNaf.
Import ListNotations.
Local Open Scope Z_scope.

(* ---------------- arena ---------------- *)
(* every history of alloc/alloc0/realloc/realloc0/dealloc/deallocall/client writes whose sizes are
   non-zero for alloc and stay SIZE+ALIGN below 2^64 runs without tripping a check and keeps every
   live block inside the buffer, aligned to ALIGN and disjoint from every other live block *)
Theorem C11_arena_safe_partial : forall c ops, acfg_ok c -> Forall (aop_dom c) ops ->
  exists s live, arun c (arena_init, []) ops = Some (s, live) /\
                 good_blocks (a_base c) (a_size c) (a_align c) live.
Proof. exact arena_safe_partial_proof. Qed.
Print Assumptions C11_arena_safe_partial.

(* offset + size wraps: arena(64,8): alloc(16); alloc(2^64-8) yields a live block outside the buffer *)
Theorem C11_arena_safe_refuted : ~ arena_safe_full.
Proof. exact arena_safe_refuted_proof. Qed.
Print Assumptions C11_arena_safe_refuted.

(* alloc(0) returns a zero-size block whose release rewinds over a later block *)
Theorem C11_arena_safe_nowrap_refuted : ~ arena_safe_nowrap.
Proof. exact arena_safe_nowrap_refuted_proof. Qed.
Print Assumptions C11_arena_safe_nowrap_refuted.

(* alloc(0) on a full arena fails the bounds check of &self.buffer[offset] *)
Theorem C11_arena_total_refuted : ~ arena_total_full.
Proof. exact arena_total_refuted_proof. Qed.
Print Assumptions C11_arena_total_refuted.

Theorem C11_arena_realloc_preserves : forall c ops s live i b n s' q,
  acfg_ok c -> Forall (aop_dom c) ops ->
  arun c (arena_init, []) ops = Some (s, live) ->
  nth_error live i = Some b -> 0 < n -> n + a_size c + a_align c <= two64 ->
  arena_realloc c s (b_addr b) n (b_size b) = Some (s', q) -> q <> 0 ->
  (forall k, 0 <= k < Z.min n (b_size b) -> a_bytes s' (q + k) = a_bytes s (b_addr b + k)) /\
  (forall j b', j <> i -> nth_error live j = Some b' ->
     forall k, 0 <= k < b_size b' -> a_bytes s' (b_addr b' + k) = a_bytes s (b_addr b' + k)).
Proof. exact arena_realloc_preserves_proof. Qed.
Print Assumptions C11_arena_realloc_preserves.

Theorem C11_arena_alloc0_zeroes : forall c s n s1 p s0,
  arena_alloc c s n = Some (s1, p) -> arena_alloc0 c s n = Some (s0, p) -> p <> 0 ->
  forall x, a_bytes s0 x = if (p <=? x) && (x <? p + n) then 0 else a_bytes s x.
Proof. exact arena_alloc0_zeroes_proof. Qed.
Print Assumptions C11_arena_alloc0_zeroes.

Theorem C11_arena_realloc0_zeroes : forall c s p n old s1 q s0,
  arena_realloc c s p n old = Some (s1, q) -> arena_realloc0 c s p n old = Some (s0, q) ->
  q <> 0 -> old < n ->
  forall x, a_bytes s0 x = if (q + old <=? x) && (x <? q + n) then 0 else a_bytes s1 x.
Proof. exact arena_realloc0_zeroes_proof. Qed.
Print Assumptions C11_arena_realloc0_zeroes.

(* ---------------- stack ---------------- *)
(* every history (out-of-order deallocs abort, clients may overwrite any word touching their own
   blocks) with sizes SIZE+ALIGN+header below 2^64 keeps the live blocks in bounds, aligned and
   disjoint; once every block has been released the offsets are back to 0 0 *)
Theorem C11_stack_safe_partial : forall c ops s live,
  scfg_ok c -> Forall (sop_dom c) ops -> srun c (stack_init, []) ops = Some (s, live) ->
  good_blocks (s_base c) (s_size c) (s_align c) live /\
  (live = [] -> s_prev s = 0 /\ s_curr s = 0).
Proof. exact stack_safe_partial_proof. Qed.
Print Assumptions C11_stack_safe_partial.

Theorem C11_stack_safe_refuted : ~ stack_safe_full.
Proof. exact stack_safe_refuted_proof. Qed.
Print Assumptions C11_stack_safe_refuted.

Theorem C11_stack_alloc_dealloc_restores : forall c ops s live n s1 p,
  scfg_ok c -> Forall (sop_dom c) ops -> srun c (stack_init, []) ops = Some (s, live) ->
  0 <= n -> n + s_size c + s_align c + STACK_HEADER_SIZE <= two64 ->
  stack_alloc c s n = (s1, p) -> p <> 0 ->
  exists s2, stack_dealloc c s1 p = Some s2 /\ s_prev s2 = s_prev s /\ s_curr s2 = s_curr s.
Proof. exact stack_alloc_dealloc_restores_proof. Qed.
Print Assumptions C11_stack_alloc_dealloc_restores.

(* ---------------- pool ---------------- *)
(* as long as deallocall is never called on a pool that no alloc has initialised yet: live blocks
   are distinct whole chunks (never handed out twice while live), and once initialised the free
   list together with the live blocks is exactly the set of chunks (no chunk is ever lost) *)
Theorem C11_pool_safe_partial : forall c ops s live,
  pcfg_ok c -> Forall pop_usize ops -> prun_dom c (pool_init, []) ops ->
  prun c (pool_init, []) ops = Some (s, live) ->
  pool_good c live /\
  (p_initialized s = true ->
   exists fl, flist (p_mem s) (p_head s) fl /\ Permutation (fl ++ map b_addr live) (all_chunks c)).
Proof. exact pool_safe_partial_proof. Qed.
Print Assumptions C11_pool_safe_partial.

(* pool(8 bytes x 4): deallocall; 5 x alloc(8): chunk 0 is live twice *)
Theorem C11_pool_safe_refuted : ~ pool_safe_full.
Proof. exact pool_safe_refuted_proof. Qed.
Print Assumptions C11_pool_safe_refuted.

(* ---------------- heap (abstract chunk-list model, compared with the code on every check) -------- *)
(* every history with sizes below 2^63 runs without a panic; in every reachable state the chunks tile
   the region, are 16-aligned, every bin lists exactly the free chunks of its size class (once),
   the live blocks are exactly the payloads of the used chunks (no block lost, none duplicated),
   and hence they are in bounds, 16-aligned and pairwise disjoint *)
Theorem C11_heap_safe_partial : forall c ops, hcfg_ok c -> Forall hop_dom ops ->
  exists s live, hrun c (ha_init_state, []) ops = Some (s, live) /\ heap_wf c s live /\
                 good_blocks (h_base c) (h_size c) ALLOC_ALIGN live.
Proof. exact heap_safe_partial_proof. Qed.
Print Assumptions C11_heap_safe_partial.

(* size + header wraps: heap(1024): alloc(2^64-8) returns a 0-byte chunk *)
Theorem C11_heap_safe_refuted : ~ heap_safe_full.
Proof. exact heap_safe_refuted_proof. Qed.
Print Assumptions C11_heap_safe_refuted.

(* dealloc of any non-nil pointer that is not a live block (second free of the same pointer,
   foreign pointer) panics instead of touching the heap *)
Theorem C11_heap_invalid_free_reported : forall c ops s live p,
  hcfg_ok c -> Forall hop_dom ops -> hrun c (ha_init_state, []) ops = Some (s, live) ->
  ha_initialized s = true -> 0 < p < two64 -> ~ In p (map b_addr live) ->
  ha_dealloc s p = HPanic.
Proof. exact heap_invalid_free_reported_proof. Qed.
Print Assumptions C11_heap_invalid_free_reported.

(* realloc-shrink in front of a free chunk does not coalesce *)
Theorem C11_heap_no_adjacent_free_refuted : ~ heap_no_adjacent_free_full.
Proof. exact heap_no_adjacent_free_refuted_proof. Qed.
Print Assumptions C11_heap_no_adjacent_free_refuted.

Theorem C11_heap_release_all_restores_refuted : ~ heap_release_all_restores_full.
Proof. exact heap_release_all_restores_refuted_proof. Qed.
Print Assumptions C11_heap_release_all_restores_refuted.

(* as long as no realloc shrinks-and-splits a chunk in place right in front of a free chunk, no two
   adjacent chunks are ever both free ... *)
Theorem C11_heap_no_adjacent_free_partial : forall c ops s live,
  hcfg_ok c -> Forall hop_dom ops -> hrun_dom c (ha_init_state, []) ops ->
  hrun c (ha_init_state, []) ops = Some (s, live) -> no_adjacent_free (ha_chunks s).
Proof. exact heap_no_adjacent_free_partial_proof. Qed.
Print Assumptions C11_heap_no_adjacent_free_partial.

(* ... and once every block has been released (in any order) the heap answers every request
   exactly as a fresh heap does (it IS the freshly initialised heap again) *)
Theorem C11_heap_release_all_restores_partial : forall c ops s n,
  hcfg_ok c -> Forall hop_dom ops -> hrun_dom c (ha_init_state, []) ops ->
  hrun c (ha_init_state, []) ops = Some (s, []) ->
  ha_alloc c s n = ha_alloc c ha_init_state n.
Proof. exact heap_release_all_restores_partial_proof. Qed.
Print Assumptions C11_heap_release_all_restores_partial.
