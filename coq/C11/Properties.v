(* Property C11: allocators hand out disjoint, aligned, in-bounds blocks and lose no memory.
   Only the property theorems, each closed by [exact] of a lemma and followed by Print Assumptions.
   The models mirror lib/allocators after the repairs 484ce8f (arena/stack overflow test, arena
   alloc(0)), 961d315 (pool deallocall), 942c78c (heap size overflow), b8d094a (heap realloc-shrink
   coalescing), 942989e (span count overflow), 532034f (aligned request overflow), 9ef0717 (heap
   deallocall clears the used marks), d9328b9 (heap get_ptr_node refuses the end node), 23ac203 (heap
   region geometry: room for two nodes, aligned end node), ccd321a (aligned alloc(0) returns nilptr):
   every statement is the full-strength one, over ALL histories with sizes anywhere in 0 .. 2^64-1; no
   [_refuted]/[_partial] pair is left.  The only hypotheses are the [*cfg_ok] facts about the buffer
   (a real object that does not wrap the address space); for the heap, hcfg_ok's size clause is
   exactly the check of add_memory_region. *)
From Coq Require Import ZArith List Bool Permutation.
From Base Require Import LuaInt.
From C11 Require Import Gen Model Heap HeapA Spec SpecHeap ProofsArena ProofsStack ProofsPool ProofsHeap ProofsHeapNaf ProofsHeapBytes RefineHeap RefineTop Iface ProofsIface Aligned ProofsAligned GcRereg.
Import ListNotations.
Local Open Scope Z_scope.

(* ---------------- arena ---------------- *)
(* every history of alloc/alloc0/realloc/realloc0/dealloc/deallocall/client writes runs without
   tripping a run-time check and keeps every live block inside the buffer, aligned to ALIGN and
   disjoint from every other live block *)
Theorem C11_arena_safe : forall c ops, acfg_ok c -> Forall aop_usize ops ->
  exists s live, arun c (arena_init, []) ops = Some (s, live) /\
                 good_blocks (a_base c) (a_size c) (a_align c) live.
Proof. exact arena_safe_proof. Qed.
Print Assumptions C11_arena_safe.

Theorem C11_arena_realloc_preserves : forall c ops s live i b n s' q,
  acfg_ok c -> Forall aop_usize ops ->
  arun c (arena_init, []) ops = Some (s, live) ->
  nth_error live i = Some b -> 0 < n < two64 ->
  arena_realloc c s (b_addr b) n (b_size b) = Some (s', q) -> q <> 0 ->
  (forall k, 0 <= k < Z.min n (b_size b) -> a_bytes s' (q + k) = a_bytes s (b_addr b + k)) /\
  (forall j b', j <> i -> nth_error live j = Some b' ->
     forall k, 0 <= k < b_size b' -> a_bytes s' (b_addr b' + k) = a_bytes s (b_addr b' + k)).
Proof. exact arena_realloc_preserves_proof. Qed.
Print Assumptions C11_arena_realloc_preserves.

Theorem C11_arena_alloc0_zeroes : forall c s n s1 p s0,
  arena_alloc c s n = Some (s1, p) -> arena_alloc0 c s n = Some (s0, p) -> p <> 0 ->
  forall x, a_bytes s0 x = if (p <=? x) && (x <? p + n) then 0 else a_bytes s x.
Proof. exact arena_alloc0_zeroes_proof. Qed.
Print Assumptions C11_arena_alloc0_zeroes.

Theorem C11_arena_realloc0_zeroes : forall c s p n old s1 q s0,
  arena_realloc c s p n old = Some (s1, q) -> arena_realloc0 c s p n old = Some (s0, q) ->
  q <> 0 -> old < n ->
  forall x, a_bytes s0 x = if (q + old <=? x) && (x <? q + n) then 0 else a_bytes s1 x.
Proof. exact arena_realloc0_zeroes_proof. Qed.
Print Assumptions C11_arena_realloc0_zeroes.

(* ---------------- stack ---------------- *)
(* every history that does not abort (an out-of-order dealloc is the documented precondition and
   fails the allocator's check; clients may overwrite any word touching their own blocks) keeps
   the live blocks in bounds, aligned and disjoint; once every block has been released the offsets
   are back to 0 0 *)
Theorem C11_stack_safe : forall c ops s live,
  scfg_ok c -> Forall sop_usize ops -> srun c (stack_init, []) ops = Some (s, live) ->
  good_blocks (s_base c) (s_size c) (s_align c) live /\
  (live = [] -> s_prev s = 0 /\ s_curr s = 0).
Proof. exact stack_safe_proof. Qed.
Print Assumptions C11_stack_safe.

(* under the documented LIFO precondition (dealloc / realloc-to-0 of the newest block only) a
   history of valid calls never trips a run-time check *)
Theorem C11_stack_total : forall c ops, scfg_ok c -> Forall sop_usize ops -> Forall sop_lifo ops ->
  exists s live, srun c (stack_init, []) ops = Some (s, live) /\
                 good_blocks (s_base c) (s_size c) (s_align c) live.
Proof. exact stack_total_proof. Qed.
Print Assumptions C11_stack_total.

Theorem C11_stack_alloc_dealloc_restores : forall c ops s live n s1 p,
  scfg_ok c -> Forall sop_usize ops -> srun c (stack_init, []) ops = Some (s, live) ->
  0 <= n < two64 ->
  stack_alloc c s n = (s1, p) -> p <> 0 ->
  exists s2, stack_dealloc c s1 p = Some s2 /\ s_prev s2 = s_prev s /\ s_curr s2 = s_curr s.
Proof. exact stack_alloc_dealloc_restores_proof. Qed.
Print Assumptions C11_stack_alloc_dealloc_restores.

(* ---------------- pool ---------------- *)
(* over all histories (including deallocall before the first alloc): live blocks are distinct
   whole chunks (never handed out twice while live), and once initialised the free list together
   with the live blocks is exactly the set of chunks (no chunk is ever lost) *)
Theorem C11_pool_safe : forall c ops s live,
  pcfg_ok c -> Forall pop_usize ops ->
  prun c (pool_init, []) ops = Some (s, live) ->
  pool_good c live /\
  (p_initialized s = true ->
   exists fl, flist (p_mem s) (p_head s) fl /\ Permutation (fl ++ map b_addr live) (all_chunks c)).
Proof. exact pool_safe_proof. Qed.
Print Assumptions C11_pool_safe.

(* a history of valid calls never trips the pool's check *)
Theorem C11_pool_total : forall c ops, pcfg_ok c -> Forall pop_usize ops ->
  exists s live, prun c (pool_init, []) ops = Some (s, live) /\ pool_good c live.
Proof. exact pool_total_proof. Qed.
Print Assumptions C11_pool_total.

(* ---------------- heap (abstract chunk-list model, compared with the code on every check) -------- *)
(* every history runs without a panic; in every reachable state the chunks tile the region, are
   16-aligned, every bin lists exactly the free chunks of its size class (once), the live blocks
   are exactly the payloads of the used chunks (no block lost, none duplicated), and hence they
   are in bounds, 16-aligned and pairwise disjoint *)
Theorem C11_heap_safe : forall c ops, hcfg_ok c -> Forall hop_usize ops ->
  exists s live, hrun c (ha_init_state, []) ops = Some (s, live) /\ heap_wf c s live /\
                 good_blocks (h_base c) (h_size c) ALLOC_ALIGN live.
Proof. exact heap_safe_proof. Qed.
Print Assumptions C11_heap_safe.

(* no two adjacent chunks are ever both free *)
Theorem C11_heap_no_adjacent_free : forall c ops s live,
  hcfg_ok c -> Forall hop_usize ops ->
  hrun c (ha_init_state, []) ops = Some (s, live) -> no_adjacent_free (ha_chunks s).
Proof. exact heap_no_adjacent_free_proof. Qed.
Print Assumptions C11_heap_no_adjacent_free.

(* once every block has been released (in any order, after any history) the heap answers every
   request exactly as a fresh heap does: it IS the freshly initialised heap again *)
Theorem C11_heap_release_all_restores : forall c ops s n,
  hcfg_ok c -> Forall hop_usize ops ->
  hrun c (ha_init_state, []) ops = Some (s, []) ->
  ha_alloc c s n = ha_alloc c ha_init_state n.
Proof. exact heap_release_all_restores_proof. Qed.
Print Assumptions C11_heap_release_all_restores.

(* ---------------- heap: the memory-level model (Heap.v, the one compared word by word with the code) ---- *)
(* refinement: on every history the memory-level model (header words, prev_adj/next/prev links, bin
   heads, NODE_COOKIE marks) never panics, returns exactly the pointers the abstract model returns,
   and ends in a memory that represents the abstract final state ([SR]/[Rep]: sizes, prev_adj chain,
   used marks, end node, doubly linked bins).  So C11_heap_safe / _no_adjacent_free /
   _release_all_restores speak about the states of the memory-level model *)
Theorem C11_heap_refinement : forall c ops, hcfg_ok c -> Forall hop_usize ops ->
  exists s sa live,
    crun c (heap_init_state, []) ops = Some (s, live) /\
    hrun c (ha_init_state, []) ops = Some (sa, live) /\ SR c s sa.
Proof. exact heap_refinement_proof. Qed.
Print Assumptions C11_heap_refinement.

Theorem C11_heap_mem_safe : forall c ops, hcfg_ok c -> Forall hop_usize ops ->
  exists s live, crun c (heap_init_state, []) ops = Some (s, live) /\
                 good_blocks (h_base c) (h_size c) ALLOC_ALIGN live.
Proof. exact heap_mem_safe_proof. Qed.
Print Assumptions C11_heap_mem_safe.

(* "reports an invalid free instead of corrupting itself", on the memory-level model, full strength.
   The refinement carries a mark invariant (Rep.rp_marks): the used mark next = 1 / prev = NODE_COOKIE
   is found at no 16-aligned address other than the chunk headers and the end node - nothing the
   allocator leaves behind in a payload (absorbed headers, old bin links, the previous generation
   after deallocall, repair 9ef0717) looks like an allocated chunk - and the end node is refused for
   its size 0 (repair d9328b9).  Hence: after ANY history, initialised or not, dealloc of ANY
   non-nil pointer that is not a live block panics - double frees, pointers of a previous generation,
   pointers into payloads, outside the buffer, one past its end. *)
Theorem C11_heap_mem_invalid_free_reported : forall c ops s live p,
  hcfg_ok c -> Forall hop_usize ops ->
  crun c (heap_init_state, []) ops = Some (s, live) ->
  0 < p < two64 -> ~ In p (map b_addr live) ->
  hp_dealloc s p = HPanic.
Proof. exact heap_mem_invalid_free_reported_proof. Qed.
Print Assumptions C11_heap_mem_invalid_free_reported.

(* the statement of SpecHeap.v that was refuted twice before the repairs 9ef0717 and d9328b9 *)
Theorem C11_heap_mem_invalid_free_reported_full : heap_mem_invalid_free_reported_full.
Proof. exact heap_mem_invalid_free_reported_full_proof. Qed.
Print Assumptions C11_heap_mem_invalid_free_reported_full.

(* the mark invariant depends on what HeapAllocatorT:deallocall does, and the dependency is on the
   SCRAPED source (Gen.DEALLOCALL_CLEARS_MARKS, fact deallocall_policy used by the refinement proof):
   for either policy, "the state deallocall leaves behind carries no used mark" holds exactly when
   deallocall clears the marks - with the walk of 9ef0717 removed the proofs above do not compile *)
Theorem C11_heap_deallocall_clears_iff_policy : forall pol : bool,
  (forall c ops s live s', hcfg_ok c -> Forall hop_usize ops ->
     crun c (heap_init_state, []) ops = Some (s, live) ->
     hp_deallocall_p pol c s = HOk s' -> no_marks (h_mem s')) <-> pol = true.
Proof. exact deallocall_clears_iff_policy_proof. Qed.
Print Assumptions C11_heap_deallocall_clears_iff_policy.

(* realloc runs the same pointer test *)
Theorem C11_heap_mem_invalid_realloc_reported : forall c ops s live p n old,
  hcfg_ok c -> Forall hop_usize ops ->
  crun c (heap_init_state, []) ops = Some (s, live) -> h_initialized s = true ->
  0 < p < two64 -> ~ In p (map b_addr live) -> n <> old ->
  hp_realloc c s p n old = HPanic.
Proof. exact heap_mem_invalid_realloc_reported_proof. Qed.
Print Assumptions C11_heap_mem_invalid_realloc_reported.

(* the memory of Heap.v maps addresses to 64-bit words; it is an exact picture of a byte-addressed
   memory as long as no two words that are accessed overlap.  Every node, the end node included
   (repair 23ac203), is 16-aligned: every word the model ever writes is 8-aligned, every other
   address still holds the initial 0.  (The reads are 8-aligned as well: header words of nodes, and
   get_ptr_node refuses client pointers that are not 16-aligned before it reads anything.) *)
Theorem C11_heap_mem_writes_aligned : forall c ops s live,
  hcfg_ok c -> Forall hop_usize ops ->
  crun c (heap_init_state, []) ops = Some (s, live) ->
  forall w, w mod 8 <> 0 -> mget (h_mem s) w = 0.
Proof. exact heap_mem_writes_aligned_proof. Qed.
Print Assumptions C11_heap_mem_writes_aligned.

(* the geometry of the region: the heap proper starts within 15 bytes of the buffer, start and end
   node are 16-aligned, the end node ends within 15 bytes of the end of the buffer *)
Theorem C11_heap_geometry : forall c, hcfg_ok c ->
  h_base c <= heap_start c < h_base c + 16 /\ heap_start c mod 16 = 0 /\
  heap_end c mod 16 = 0 /\ heap_start c + 32 <= heap_end c /\
  h_base c + h_size c - 15 <= heap_end c + 32 <= h_base c + h_size c.
Proof. exact heap_geometry. Qed.
Print Assumptions C11_heap_geometry.

(* the allocator's own writes never land in a live payload (memory level): after any history, every
   operation - alloc, dealloc, realloc in place or moving, deallocall, lazy initialisation included -
   leaves unchanged every 8-byte word that overlaps a block live before and after it (up to the
   smaller of its two sizes for a realloc in place).  The refinement proof exports that every write
   goes to one of the four header words of a chunk of the old or of the new state. *)
Theorem C11_heap_mem_payload_frame : forall c ops s live o s' live',
  hcfg_ok c -> Forall hop_usize ops -> hop_usize o ->
  crun c (heap_init_state, []) ops = Some (s, live) ->
  cstep c (s, live) o = Some (s', live') ->
  forall b b', In b live -> In b' live' -> b_addr b = b_addr b' ->
  forall w, b_addr b - 8 < w < b_addr b + Z.min (b_size b) (b_size b') ->
  mget (h_mem s') w = mget (h_mem s) w.
Proof. exact heap_mem_payload_frame_proof. Qed.
Print Assumptions C11_heap_mem_payload_frame.

(* ---------------- heap: payload contents (byte functions, as for the arena) ---------------- *)
(* realloc keeps the first min(old,new) bytes of the block - also when it moves it (memory.copy of
   the whole old chunk into a fresh, strictly larger chunk) - and every byte of every other live block *)
Theorem C11_heap_realloc_preserves : forall c ops sa live i b n (bts : Z -> Z) s' q,
  hcfg_ok c -> Forall hop_usize ops -> hrun c (ha_init_state, []) ops = Some (sa, live) ->
  nth_error live i = Some b -> 0 < n < two64 ->
  hb_realloc c (mkhb sa bts) (b_addr b) n (b_size b) = HOk (s', q) -> q <> 0 ->
  (forall k, 0 <= k < Z.min n (b_size b) -> hb_bytes s' (q + k) = bts (b_addr b + k)) /\
  (forall j b', j <> i -> nth_error live j = Some b' ->
     forall k, 0 <= k < b_size b' -> hb_bytes s' (b_addr b' + k) = bts (b_addr b' + k)).
Proof. exact heap_realloc_preserves_proof. Qed.
Print Assumptions C11_heap_realloc_preserves.

Theorem C11_heap_alloc0_zeroes : forall c s n s1 p s0,
  hb_alloc c s n = HOk (s1, p) -> hb_alloc0 c s n = HOk (s0, p) -> p <> 0 ->
  forall x, hb_bytes s0 x = if (p <=? x) && (x <? p + n) then 0 else hb_bytes s x.
Proof. exact heap_alloc0_zeroes_proof. Qed.
Print Assumptions C11_heap_alloc0_zeroes.

Theorem C11_heap_realloc0_zeroes : forall c s p n old s1 q s0,
  hb_realloc c s p n old = HOk (s1, q) -> hb_realloc0 c s p n old = HOk (s0, q) ->
  q <> 0 -> old < n ->
  forall x, hb_bytes s0 x = if (q + old <=? x) && (x <? q + n) then 0 else hb_bytes s1 x.
Proof. exact heap_realloc0_zeroes_proof. Qed.
Print Assumptions C11_heap_realloc0_zeroes.

(* ---------------- the derived operations of Allocator_implement_interface ---------------- *)
(* generic in the allocator: each wrapper is the stated primitive call(s); what it writes lies in
   the block just obtained; the x* variants only turn an out-of-memory nil into a panic *)
Theorem C11_iface_alloc0 : forall S (p_alloc : S -> Z -> option (S * Z)) s n s' p w,
  i_alloc0 S p_alloc s n = Some (s', p, w) <->
  p_alloc s n = Some (s', p) /\ w = (if p =? 0 then [] else [WZero p n]).
Proof. exact alloc0_spec. Qed.
Print Assumptions C11_iface_alloc0.

Theorem C11_iface_xalloc : forall S (p_alloc : S -> Z -> option (S * Z)) s n s' p,
  i_xalloc S p_alloc s n = Some (s', p) -> p_alloc s n = Some (s', p) /\ (p <> 0 \/ n <= 0).
Proof. exact xalloc_some. Qed.
Print Assumptions C11_iface_xalloc.

Theorem C11_iface_xrealloc : forall S (p_realloc : S -> Z -> Z -> Z -> option (S * Z)) s p n old s' q,
  i_xrealloc S p_realloc s p n old = Some (s', q) -> p_realloc s p n old = Some (s', q) /\ (q <> 0 \/ n <= 0).
Proof. exact xrealloc_some. Qed.
Print Assumptions C11_iface_xrealloc.

Theorem C11_iface_realloc0 : forall S (p_realloc : S -> Z -> Z -> Z -> option (S * Z)) s p n old s' q w,
  i_realloc0 S p_realloc s p n old = Some (s', q, w) ->
  p_realloc s p n old = Some (s', q) /\
  (w = [] \/ (w = [WZero (q + old) (n - old)] /\ q <> 0 /\ old < n)).
Proof. exact realloc0_spec. Qed.
Print Assumptions C11_iface_realloc0.

(* spanalloc: the element count is tested against usize_max / #T before the multiplication
   (repair 942989e), so a non-empty span is exactly the block alloc(count * #T) returned *)
Theorem C11_iface_spanalloc : forall S (p_alloc : S -> Z -> option (S * Z)) s t count s' sp,
  i_spanalloc S p_alloc s t count = Some (s', sp) -> fst sp <> 0 -> 0 <= t ->
  snd sp = count /\ 0 < count /\ 0 <= count * t < two64 /\
  p_alloc s (count * t) = Some (s', fst sp) /\ span_extent t sp = mkblk (fst sp) (count * t).
Proof. exact spanalloc_spec. Qed.
Print Assumptions C11_iface_spanalloc.

(* spanrealloc of a non-empty span: a count whose byte size would overflow leaves allocator and span
   unchanged; otherwise the result is the old span (failure) or (realloc's pointer, count) *)
Theorem C11_iface_spanrealloc : forall S (p_alloc : S -> Z -> option (S * Z)) (p_realloc : S -> Z -> Z -> Z -> option (S * Z)) s t sp count s' sp',
  i_spanrealloc S p_alloc p_realloc s t sp count = Some (s', sp') -> snd sp <> 0 ->
  (s' = s /\ sp' = sp /\ max_span_count t < count) \/
  exists q, p_realloc s (fst sp) (w64 (count * t)) (w64 (snd sp * t)) = Some (s', q) /\
            count <= max_span_count t /\ (sp' = sp \/ sp' = (q, count)).
Proof. exact spanrealloc_spec. Qed.
Print Assumptions C11_iface_spanrealloc.

Theorem C11_iface_new : forall S (p_alloc : S -> Z -> option (S * Z)) s t s' p w,
  i_new S p_alloc s t = Some (s', p, w) ->
  let n := if t =? 0 then 1 else t in
  p_alloc s n = Some (s', p) /\ (p <> 0 -> w = [WZero p n]) /\ (0 < n -> p <> 0).
Proof. intros S p_alloc. exact (new_spec S p_alloc (fun _ _ => None) (fun _ _ _ _ => None)). Qed.
Print Assumptions C11_iface_new.

(* on the arena, after ANY history and for ANY element size and count: the bytes a non-empty span
   claims (count * #T from its pointer) are a good block like any other - inside the buffer, aligned,
   disjoint from every live block.  (Refuted before repair 942989e: spanalloc(@uint32, 2^62+1).) *)
Theorem C11_arena_span_in : forall c ops s live t count s' sp,
  acfg_ok c -> Forall aop_usize ops -> arun c (arena_init, []) ops = Some (s, live) -> 0 <= t ->
  i_spanalloc astate (arena_alloc c) s t count = Some (s', sp) -> fst sp <> 0 ->
  snd sp = count /\
  good_blocks (a_base c) (a_size c) (a_align c) (live ++ [span_extent t sp]).
Proof. exact arena_span_in_proof. Qed.
Print Assumptions C11_arena_span_in.

(* ---------------- AlignedAllocator (aligned.nelua, over the arena) ---------------- *)
(* the alignment arithmetic: the returned address is a multiple of ALIGN, lies at least a pointer
   above the block obtained from the wrapped allocator, the user block fits inside that block, and
   the header word just below it is inside the block too *)
Theorem C11_aligned_arith : forall c origp size,
  pow2 (g_align c) -> PTR_SIZE <= g_align c -> 0 < origp -> 0 <= size ->
  origp + size + PTR_SIZE + g_align c <= two64 ->
  let addr := al_addr c origp in
  al_request c size = size + (PTR_SIZE + g_align c - 1) /\
  addr mod g_align c = 0 /\ origp + PTR_SIZE <= addr /\
  addr + size <= origp + al_request c size /\
  w64 (addr - PTR_SIZE) = addr - PTR_SIZE /\ origp <= addr - PTR_SIZE.
Proof. exact aligned_arith_proof. Qed.
Print Assumptions C11_aligned_arith.

(* alloc: aligned, inside the over-allocated block, original pointer recoverable (get_realptr);
   no bound on the size - the request never wraps (repair 532034f) *)
Theorem C11_aligned_alloc_spec : forall c s size s' p,
  pow2 (g_align c) -> PTR_SIZE <= g_align c -> g_align c + PTR_SIZE <= two64 -> 0 <= size ->
  (forall a' origp, arena_alloc (g_inner c) (g_arena s) (al_request c size) = Some (a', origp) -> origp <> 0 ->
     0 < origp /\ origp + al_request c size <= two64 - 1) ->
  aligned_alloc c s size = Some (s', p) -> p <> 0 ->
  al_request c size = size + (PTR_SIZE + g_align c - 1) /\
  exists origp, arena_alloc (g_inner c) (g_arena s) (al_request c size) = Some (g_arena s', origp) /\ origp <> 0 /\
    p mod g_align c = 0 /\ origp + PTR_SIZE <= p /\ p + size <= origp + al_request c size /\
    aligned_realptr s' p = origp.
Proof. exact aligned_alloc_spec_proof. Qed.
Print Assumptions C11_aligned_alloc_spec.

(* over the arena, in ANY reachable state of the wrapped arena and for ANY size: a non-nil aligned
   block is aligned to ALIGN, lies inside a fresh good block of the arena (in the buffer, disjoint
   from every live block), has room for its header below it, and the header gives the block back.
   (Refuted before repair 532034f: alloc(2^64-8) requested 63 bytes and returned a pointer.) *)
Theorem C11_aligned_fits : forall c s live size s' p,
  acfg_ok (g_inner c) -> pow2 (g_align c) -> PTR_SIZE <= g_align c -> g_align c + PTR_SIZE <= two64 ->
  ainv (g_inner c) (g_arena s) live -> 0 <= size < two64 ->
  aligned_alloc c s size = Some (s', p) -> p <> 0 ->
  exists origp,
    ainv (g_inner c) (g_arena s') (live ++ [mkblk origp (al_request c size)]) /\
    good_blocks (a_base (g_inner c)) (a_size (g_inner c)) (a_align (g_inner c)) (live ++ [mkblk origp (al_request c size)]) /\
    p mod g_align c = 0 /\ origp + PTR_SIZE <= p /\ p + size <= origp + al_request c size /\
    p + size <= a_base (g_inner c) + a_size (g_inner c) /\
    aligned_realptr s' p = origp.
Proof. exact aligned_fits_proof. Qed.
Print Assumptions C11_aligned_fits.

(* the closed form that was refuted: from the initial state *)
Theorem C11_aligned_fits_init : aligned_fits_full.
Proof. exact aligned_fits_full_proof. Qed.
Print Assumptions C11_aligned_fits_init.

(* "If size is zero or the operation fails, then returns nilptr" (doc of AlignedAllocatorT:alloc and
   of the Allocator interface; repair ccd321a): alloc(0) returns nilptr and leaves the allocator alone *)
Theorem C11_aligned_alloc_zero : forall c s, aligned_alloc c s 0 = Some (s, 0).
Proof. exact aligned_alloc_zero_proof. Qed.
Print Assumptions C11_aligned_alloc_zero.

(* ---------------- GC allocator: realloc in place (gc.nelua, GC:reregister) ---------------- *)
(* after a realloc that does not move the block, the collector has it registered with the NEW size -
   the number of bytes its mark phase scans - whatever the collection that self:step() may run inside
   reregister does to the item table (entries of garbage removed, node array compacted).  The order
   of the two statements is scraped from the source; with `item.size = newsize` after the step the
   build fails (reregister_policy) and the statement is false: *)
Theorem C11_gc_reregister_size : forall step a p old new, step_keeps p step -> lookup p a = Some old ->
  lookup p (reregister_inplace REREGISTER_SIZE_BEFORE_STEP step a p new) = Some new.
Proof. exact reregister_size_proof. Qed.
Print Assumptions C11_gc_reregister_size.

Theorem C11_gc_reregister_size_iff_policy : forall pol : bool,
  (forall step a p old new, step_keeps p step -> lookup p a = Some old ->
     lookup p (reregister_inplace pol step a p new) = Some new) <-> pol = true.
Proof. exact reregister_size_iff_policy_proof. Qed.
Print Assumptions C11_gc_reregister_size_iff_policy.
