(* C11 - refinement, part 3: the operations of the memory-level heap model simulate the abstract
   ones (alloc with and without split, dealloc). *)
From Coq Require Import ZArith List Bool Lia.
From Base Require Import LuaInt.
From C11 Require Import Gen Model Heap HeapA Spec SpecHeap Common ProofsHeap RefineBins RefineHeap.
Import ListNotations.
Local Open Scope Z_scope.

Lemma not_in_after_remove bins_a i a :
  length bins_a = Z.to_nat BIN_COUNT -> bins_good bins_a -> 0 <= i < BIN_COUNT -> In a (bin_nth bins_a i) ->
  forall j, 0 <= j < BIN_COUNT -> ~ In a (bin_nth (bins_remove bins_a i a) j).
Proof.
  intros HL [Hg Hdisj] Hi Ha j Hj Hin. unfold bins_remove in Hin.
  destruct (Z.eq_dec j i) as [-> | Hne].
  - rewrite bin_nth_upd_same in Hin by assumption. destruct (Hg i Hi) as [Hnd _].
    apply (remove_addr_in a _ a Hnd) in Hin. tauto.
  - rewrite bin_nth_upd_other in Hin by lia. apply Hne. apply (Hdisj j i a Hj Hi Hin Ha).
Qed.

Lemma in_after_add bins_a sz b i a :
  length bins_a = Z.to_nat BIN_COUNT -> 0 <= i < BIN_COUNT -> In a (bin_nth bins_a i) ->
  In a (bin_nth (bins_add bins_a sz b) i).
Proof.
  intros HL Hi Ha. unfold bins_add. pose proof (get_bin_index_range sz) as Hr.
  destruct (Z.eq_dec i (get_bin_index sz)) as [-> | Hne].
  - rewrite bin_nth_upd_same by assumption. right. exact Ha.
  - rewrite bin_nth_upd_other by lia. exact Ha.
Qed.

Lemma MI_len hs he m bins_c chunks bins_a : MI hs he m bins_c chunks bins_a -> length bins_a = Z.to_nat BIN_COUNT.
Proof. intros H. destruct (rp_bins _ _ _ _ _ (mi_rep _ _ _ _ _ _ H)) as (_ & ? & _). assumption. Qed.

(* the fuel of the second pass is enough: a bin never holds more nodes than there are chunks *)
Lemma fuel_ok c hs he m bins_c chunks bins_a :
  MI hs he m bins_c chunks bins_a -> he - hs <= h_size c ->
  forall i, 0 <= i < BIN_COUNT -> (length (bin_nth bins_a i) < heap_fuel c)%nat.
Proof.
  intros HM Hsz i Hi. pose proof (mi_bin_len _ _ _ _ _ _ HM i Hi) as Hl.
  pose proof (chunks_len _ _ _ (mi_tiled _ _ _ _ _ _ HM)) as Hc.
  unfold heap_fuel. pose proof NODE_eq as HN. rewrite HN.
  assert (Z.of_nat (length chunks) <= h_size c / 32) by (apply Z.div_le_lower_bound; lia).
  assert (0 <= h_size c / 32) by lia. lia.
Qed.

(* ---------- the search of alloc finds the same chunk in both models ---------- *)
Lemma search_sim c hs he m bins_c chunks bins_a size :
  MI hs he m bins_c chunks bins_a -> he - hs <= h_size c ->
  let bi0 := get_bin_index size in let nb := Z.to_nat (BIN_COUNT - bi0) in
  match bins_pass1 nb bins_c m bi0 size with
  | Some fb => Some (Some fb)
  | None => bins_pass2 nb (heap_fuel c) bins_c m bi0 size
  end =
  Some (match a_pass (Some (Z.to_nat BIN_MAX_LOOKUPS)) nb chunks bins_a bi0 size with
        | Some fb => Some fb
        | None => a_pass None nb chunks bins_a bi0 size
        end).
Proof.
  intros HM Hsz bi0 nb. pose proof (get_bin_index_range size) as Hr. fold bi0 in Hr.
  pose proof (rp_bins _ _ _ _ _ (mi_rep _ _ _ _ _ _ HM)) as Hb.
  assert (Hnb : bi0 + Z.of_nat nb <= BIN_COUNT) by (unfold nb; lia).
  rewrite (pass1_sim m chunks bins_c bins_a size Hb (mi_sizes_agree _ _ _ _ _ _ HM) nb bi0 ltac:(lia) Hnb).
  destruct (a_pass (Some _) nb chunks bins_a bi0 size); [reflexivity|].
  apply (pass2_sim m chunks bins_c bins_a size (heap_fuel c) Hb (mi_sizes_agree _ _ _ _ _ _ HM)
                   (fuel_ok c hs he m bins_c chunks bins_a HM Hsz) nb bi0 ltac:(lia) Hnb).
Qed.

(* ---------- alloc ---------- *)
Lemma heap_alloc_raw_sim c hs he m bins_c chunks bins_a live n :
  raw_inv hs he chunks bins_a live -> Rep he m bins_c chunks bins_a -> he - hs <= h_size c -> 0 <= n < two64 ->
  exists bins_c' m',
    heap_alloc_raw c bins_c m n = HOk (bins_c', m', snd (ha_alloc_raw chunks bins_a n)) /\
    Rep he m' bins_c' (fst (fst (ha_alloc_raw chunks bins_a n))) (snd (fst (ha_alloc_raw chunks bins_a n))) /\
    hframe (hdrs2 he chunks (fst (fst (ha_alloc_raw chunks bins_a n)))) m m'.
Proof.
  intros Hinv Hrep Hsz Hn.
  pose proof (MI_of_inv _ _ _ _ _ _ _ Hinv Hrep) as HM.
  unfold heap_alloc_raw, ha_alloc_raw.
  destruct (n =? 0) eqn:E0; [eexists; eexists; split; [reflexivity | split; [exact Hrep | apply hframe_refl]]|].
  destruct (size_too_large n) eqn:Etl; [eexists; eexists; split; [reflexivity | split; [exact Hrep | apply hframe_refl]]|].
  apply Z.eqb_neq in E0. apply size_too_large_spec in Etl.
  destruct (aligned_size_spec n ltac:(lia)) as (Hs1 & Hs2 & Hs3).
  set (size := aligned_size n) in *.
  rewrite (search_sim c hs he m bins_c chunks bins_a size HM Hsz).
  set (r := match a_pass (Some (Z.to_nat BIN_MAX_LOOKUPS)) _ chunks bins_a _ size with
            | Some fb => Some fb | None => _ end).
  assert (Hr : forall a bi, r = Some (a, bi) ->
            0 <= bi < BIN_COUNT /\ In a (bin_nth bins_a bi) /\ size <= size_at chunks a).
  { intros a bi Hra. pose proof (get_bin_index_range size) as Hir. subst r.
    destruct (a_pass (Some _) _ chunks bins_a _ size) as [[a1 b1]|] eqn:P1.
    - inversion Hra; subst. apply a_pass_spec in P1. destruct P1 as (P & Q). split; [lia | exact Q].
    - apply a_pass_spec in Hra. destruct Hra as (P & Q). split; [lia | exact Q]. }
  destruct r as [[a bi]|] eqn:Er; [|eexists; eexists; split; [reflexivity | split; [exact Hrep | apply hframe_refl]]].
  destruct (Hr a bi eq_refl) as (Hbi & Hin & Hfit). clear Hr.
  pose proof Hinv as [Hpos Htop Ht Hal Hb Hl].
  destruct Hb as (HL & Hb). destruct (Hb bi Hbi) as [_ Hfree]. pose proof Hin as Hin0. apply Hfree in Hin.
  destruct Hin as (x & Hx & Hxa & Hxf & Hxi).
  destruct (in_split _ _ Hx) as (pre & post & Ech). subst chunks.
  subst a. rewrite (find_chunk_tiled _ _ _ _ _ Ht).
  rewrite (size_at_found _ _ _ _ _ (find_chunk_tiled _ _ _ _ _ Ht)) in Hfit.
  rewrite (mi_size _ _ _ _ _ _ HM x Hx).
  destruct (tiled_mid _ _ _ _ _ Ht) as (m0 & Ht1 & Hm0 & Hsx & Ht2 & Hpre & Hpost).
  pose proof (tiled_le _ _ _ Ht1) as Hle1. pose proof (tiled_le _ _ _ Ht2) as Hle2.
  pose proof NODE_eq as HN. pose proof MIN_range as HMr.
  assert (H64 : two64 = 18446744073709551616) by reflexivity.
  pose proof (MI_len _ _ _ _ _ _ HM) as HLa.
  unfold wants_split. set (a := c_addr x) in *.
  destruct (c_sz x >? w64 (size + (NODE + MIN_ALLOC_SIZE))) eqn:Esp.
  - (* split *)
    rewrite (w64_small (size + (NODE + MIN_ALLOC_SIZE))) in Esp by lia. apply Z.gtb_lt in Esp.
    set (sp := a + NODE + size). set (rest := c_sz x - size - NODE). set (nx := a + NODE + c_sz x).
    (* the memory after the four writes of split_chunk *)
    set (m4 := mset (mset (mset (mset m a size) sp rest) (sp + 8) a) (nx + 8) sp).
    assert (Hsplit : split_chunk bins_c m a size = add_node bins_c m4 sp).
    { unfold split_chunk, next_adj, n_size. rewrite (mi_size _ _ _ _ _ _ HM x Hx : mget m a = c_sz x).
      mm. rewrite (w64_small (a + NODE)) by lia. rewrite (w64_small (a + NODE + size)) by lia. fold sp.
      rewrite (w64_small (c_sz x - size)) by lia. rewrite (w64_small (c_sz x - size - NODE)) by lia. fold rest.
      mm. rewrite (w64_small (sp + NODE)) by (unfold sp; lia). rewrite (w64_small (sp + NODE + rest)) by (unfold sp, rest; lia).
      replace (sp + NODE + rest) with nx by (unfold sp, rest, nx; lia). reflexivity. }
    rewrite Hsplit.
    (* M4 *)
    assert (HM4 : MI hs he m4 bins_c (pre ++ mkchunk a size (c_used x) :: mkchunk sp rest false :: post) bins_a).
    { apply (M4_split hs he m m4 bins_c pre x post bins_a size HM ltac:(lia) Hs2 ltac:(lia)); fold a; fold sp; fold nx; fold rest;
        unfold m4; try (mm; reflexivity); unfold sp, nx in *; try lia.
      intros w W1 W2 W3 W4. mm. reflexivity. }
    rewrite Hxf in HM4.
    set (x1 := mkchunk a size false) in *. set (x2 := mkchunk sp rest false) in *.
    (* M2: push the remainder *)
    assert (Hx2in : In x2 (pre ++ x1 :: x2 :: post)) by (apply in_or_app; right; right; left; reflexivity).
    assert (Hspnot : forall i, 0 <= i < BIN_COUNT -> ~ In sp (bin_nth bins_a i)).
    { intros i Hi Hc. destruct (mi_mem _ _ _ _ _ _ HM i sp Hi Hc) as (z & Hz & Hza & _).
      destruct (in_mid_cases z x pre post Hz) as [-> | [Hz' | Hz']].
      - fold a in Hza. unfold sp in Hza. lia.
      - destruct (Hpre z Hz') as (? & ? & ?). unfold sp in Hza. lia.
      - destruct (Hpost z Hz') as (? & ? & ?). unfold sp in Hza. lia. }
    destruct (M2_push hs he m4 bins_c _ bins_a x2 HM4 Hx2in eq_refl Hspnot) as (bc1 & m5 & Hadd & HM5 & _).
    cbn [c_addr c_sz x2] in Hadd, HM5. rewrite Hadd.
    (* M1: unlink a from its bin *)
    assert (Hain1 : In a (bin_nth (bins_add bins_a rest sp) bi)) by (apply in_after_add; assumption).
    destruct (M1_unlink hs he m5 bc1 _ _ bi a HM5 Hbi Hain1) as (bc2 & Hrm & HM6 & _).
    rewrite Hrm.
    (* M3: mark used *)
    assert (Hanot : forall j, 0 <= j < BIN_COUNT -> ~ In a (bin_nth (bins_remove (bins_add bins_a rest sp) bi a) j)).
    { apply not_in_after_remove; try assumption.
      - apply (MI_len _ _ _ _ _ _ HM5).
      - apply (mi_good _ _ _ _ _ _ HM5). }
    pose proof (M_reflag hs he (unlink_mem m5 a) (set_used (unlink_mem m5 a) a) bc2 pre x1 (x2 :: post) _ true HM6 Hanot
                  (fun w W1 W2 => set_used_frame _ a w W1 W2) (fun _ => set_used_is_used _ a)) as HM7.
    cbn [c_addr c_sz x1] in HM7.
    cbn [fst snd]. unfold split_addr, split_rest. fold a.
    rewrite (w64_small (a + NODE)) by lia. rewrite (w64_small (a + NODE + size)) by lia.
    rewrite (w64_small (c_sz x - size)) by lia. rewrite (w64_small (c_sz x - size - NODE)) by lia.
    fold sp. fold rest.
    eexists. eexists. split; [reflexivity|]. split; [exact (mi_rep _ _ _ _ _ _ HM7)|].
    set (S := hdrs2 he (pre ++ x :: post) (pre ++ mkchunk a size true :: mkchunk sp rest false :: post)).
    assert (Sa : S a) by (left; left; apply in_map; exact Hx).
    assert (Ssp : S sp) by (right; left; rewrite map_app; apply in_or_app; right; right; left; reflexivity).
    assert (Snx : S nx).
    { left. pose proof (tiled_next _ _ _ _ _ Ht) as Hnx. fold a in Hnx. fold nx in Hnx. rewrite <- Hnx. apply next_is_hdr. }
    assert (Sall : forall b, is_hdr he (pre ++ x1 :: x2 :: post) b -> S b).
    { intros b0 Hb0. right. unfold x1, x2 in Hb0. clear - Hb0. hdr_solve. }
    apply (hframe_trans S m (unlink_mem m5 a)); [|apply hframe_set_used; exact Sa].
    apply (hframe_trans S m m5); [|apply (M1_hframe S hs he m5 bc1 _ _ bi a HM5 Hbi Hain1); exact Sall].
    apply (hframe_trans S m m4); [|apply (M2_hframe S hs he m4 bins_c _ bins_a x2 bc1 m5 HM4 Hx2in eq_refl Hspnot Hadd); exact Sall].
    unfold m4.
    apply (hframe_step S nx 8); [exact Snx | hk_solve | lia|].
    apply (hframe_step S sp 8); [exact Ssp | hk_solve | lia|].
    apply (hframe_step S sp 0); [exact Ssp | hk_solve | lia|].
    apply (hframe_step S a 0); [exact Sa | hk_solve | lia|]. apply hframe_refl.
  - (* no split *)
    destruct (M1_unlink hs he m bins_c _ _ bi a HM Hbi Hin0) as (bc1 & Hrm & HM1 & _).
    rewrite Hrm.
    assert (Hanot : forall j, 0 <= j < BIN_COUNT -> ~ In a (bin_nth (bins_remove bins_a bi a) j)).
    { apply not_in_after_remove; try assumption. apply (mi_good _ _ _ _ _ _ HM). }
    pose proof (M_reflag hs he (unlink_mem m a) (set_used (unlink_mem m a) a) bc1 pre x post _ true HM1 Hanot
                  (fun w W1 W2 => set_used_frame _ a w W1 W2) (fun _ => set_used_is_used _ a)) as HM2.
    cbn [fst snd]. fold a. rewrite (w64_small (a + NODE)) by lia.
    eexists. eexists. split; [reflexivity|]. split; [exact (mi_rep _ _ _ _ _ _ HM2)|].
    set (S := hdrs2 he (pre ++ x :: post) (pre ++ mkchunk a (c_sz x) true :: post)).
    assert (Sa : S a) by (left; left; apply in_map; exact Hx).
    apply (hframe_trans S m (unlink_mem m a)); [|apply hframe_set_used; exact Sa].
    apply (M1_hframe S hs he m bins_c _ _ bi a HM Hbi Hin0). intros b0 Hb0. left. exact Hb0.
Qed.

(* ---------- dealloc ---------- *)
(* the part of Heap:dealloc after the previous chunk has been dealt with *)
Definition c_tail (bins : list Z) (m : mem) (head next : Z) : list Z * mem :=
  let '(bins, m) :=
    if negb (is_used m next) then
      let '(bins, m) := remove_node bins m next in
      let m := mset m head (w64 (w64 (n_size m head + NODE) + n_size m next)) in
      let m := mset m (next_adj m head + 8) head in
      (bins, m)
    else (bins, m) in
  add_node bins m head.

Definition a_tail (pre1 : list chunk) (head : chunk) (post : list chunk) (bins1 : list (list Z))
  : list chunk * list (list Z) :=
  let '(head2, post2, bins2) :=
    match post with
    | nx :: post' =>
        if c_used nx then (head, post, bins1)
        else (mkchunk (c_addr head) (w64 (w64 (c_sz head + NODE) + c_sz nx)) false, post',
              bins_remove bins1 (get_bin_index (c_sz nx)) (c_addr nx))
    | [] => (head, post, bins1)
    end in
  (pre1 ++ head2 :: post2, bins_add bins2 (c_sz head2) (c_addr head2)).

Lemma in_after_remove_other bins_a i b j a :
  length bins_a = Z.to_nat BIN_COUNT -> 0 <= i < BIN_COUNT -> 0 <= j < BIN_COUNT ->
  NoDup (bin_nth bins_a i) -> a <> b -> In a (bin_nth bins_a j) -> In a (bin_nth (bins_remove bins_a i b) j).
Proof.
  intros HL Hi Hj Hnd Hne Ha. unfold bins_remove. destruct (Z.eq_dec j i) as [-> | Hji].
  - rewrite bin_nth_upd_same by assumption. apply (remove_addr_in b _ a Hnd). auto.
  - rewrite bin_nth_upd_other by lia. exact Ha.
Qed.

Lemma tail_sim hs he m bins_c pre hc post bins_a :
  MI hs he m bins_c (pre ++ hc :: post) bins_a -> c_used hc = false ->
  (forall i, 0 <= i < BIN_COUNT -> ~ In (c_addr hc) (bin_nth bins_a i)) ->
  (forall nx post', post = nx :: post' ->
     if c_used nx then is_used m (c_addr nx) = true
     else In (c_addr nx) (bin_nth bins_a (get_bin_index (c_sz nx)))) ->
  exists bins_c' m', c_tail bins_c m (c_addr hc) (c_addr hc + NODE + c_sz hc) = (bins_c', m') /\
    Rep he m' bins_c' (fst (a_tail pre hc post bins_a)) (snd (a_tail pre hc post bins_a)) /\
    hframe (hdrs2 he (pre ++ hc :: post) (fst (a_tail pre hc post bins_a))) m m'.
Proof.
  intros HM Hfree Hnot Hnext. pose proof HM as [Hpos Htop Ht Hal Hmem Hgood Hrep].
  pose proof NODE_eq as HN. pose proof MIN_range as HMr.
  assert (H64 : two64 = 18446744073709551616) by reflexivity.
  set (a := c_addr hc) in *.
  assert (Hhin : In hc (pre ++ hc :: post)) by (apply in_or_app; right; left; reflexivity).
  destruct (chunk_bounds hs he _ Ht Hal hc Hhin) as (Ha1 & Ha2 & Ha3 & Ha4). fold a in Ha1, Ha3, Ha4.
  pose proof (tiled_next _ _ _ _ _ Ht) as Hnx. fold a in Hnx.
  pose proof (MI_len _ _ _ _ _ _ HM) as HLa.
  unfold c_tail, a_tail.
  destruct post as [|nx post'].
  - (* the end node follows *)
    cbn [map hd] in Hnx. rewrite <- Hnx. destruct (rp_end _ _ _ _ _ Hrep) as [_ Eu]. rewrite Eu. cbn [negb].
    destruct (M2_push hs he m bins_c _ bins_a hc HM Hhin Hfree Hnot) as (bc1 & m1 & Hadd & HM1 & _).
    pose proof Hadd as Hadd0.
    fold a in Hadd. rewrite Hadd. eexists. eexists. split; [reflexivity|]. cbn [fst snd]. split; [exact (mi_rep _ _ _ _ _ _ HM1)|].
    apply (M2_hframe _ hs he m bins_c _ bins_a hc bc1 m1 HM Hhin Hfree Hnot Hadd0). intros b0 Hb0. left. exact Hb0.
  - cbn [map hd] in Hnx. rewrite <- Hnx. specialize (Hnext nx post' eq_refl).
    assert (Hnin : In nx (pre ++ hc :: nx :: post')) by (apply in_or_app; right; right; left; reflexivity).
    destruct (c_used nx) eqn:Eunx.
    + rewrite Hnext. cbn [negb].
      destruct (M2_push hs he m bins_c _ bins_a hc HM Hhin Hfree Hnot) as (bc1 & m1 & Hadd & HM1 & _).
      pose proof Hadd as Hadd0.
      fold a in Hadd. rewrite Hadd. eexists. eexists. split; [reflexivity|]. cbn [fst snd]. split; [exact (mi_rep _ _ _ _ _ _ HM1)|].
      apply (M2_hframe _ hs he m bins_c _ bins_a hc bc1 m1 HM Hhin Hfree Hnot Hadd0). intros b0 Hb0. left. exact Hb0.
    + pose proof (get_bin_index_range (c_sz nx)) as Hbi.
      rewrite (mi_member_not_used _ _ _ _ _ _ HM _ _ Hbi Hnext). cbn [negb].
      unfold remove_node. rewrite (mi_size _ _ _ _ _ _ HM nx Hnin).
      destruct (M1_unlink hs he m bins_c _ _ _ _ HM Hbi Hnext) as (bc1 & Hrm & HM1 & Hfr1).
      rewrite Hrm.
      set (m1 := unlink_mem m (c_addr nx)) in *.
      destruct (chunk_bounds hs he _ Ht Hal nx Hnin) as (Hn1 & Hn2 & Hn3 & Hn4).
      assert (Hsz_h : n_size m1 a = c_sz hc) by (apply (mi_size _ _ _ _ _ _ HM1 hc Hhin)).
      assert (Hsz_n : n_size m1 (c_addr nx) = c_sz nx) by (apply (mi_size _ _ _ _ _ _ HM1 nx Hnin)).
      rewrite Hsz_h, Hsz_n.
      set (nsz := c_sz hc + NODE + c_sz nx).
      rewrite (w64_small (c_sz hc + NODE)) by lia. rewrite (w64_small (c_sz hc + NODE + c_sz nx)) by lia. fold nsz.
      unfold next_adj, n_size. mm. rewrite (w64_small (a + NODE)) by lia. rewrite (w64_small (a + NODE + nsz)) by (unfold nsz; lia).
      set (m3 := mset (mset m1 a nsz) (a + NODE + nsz + 8) a).
      assert (Hnxnot : forall i, 0 <= i < BIN_COUNT -> ~ In (c_addr nx) (bin_nth (bins_remove bins_a (get_bin_index (c_sz nx)) (c_addr nx)) i)).
      { apply not_in_after_remove; assumption. }
      assert (HM3 : MI hs he m3 bc1 (pre ++ mkchunk a nsz (c_used hc) :: post') (bins_remove bins_a (get_bin_index (c_sz nx)) (c_addr nx))).
      { apply (M5_merge hs he m1 m3 bc1 pre hc nx post' _ HM1 Hnxnot); fold a; fold nsz; unfold m3.
        - mm. reflexivity.
        - mm. reflexivity.
        - intros w W1 W2 _ _. mm. reflexivity.
        - rewrite <- (unlink_own_unused _ _ _ _ _ _ _ _ HM Hbi Hnext). fold m1.
          apply is_used_frame; mm; try reflexivity; unfold nsz; lia. }
      rewrite Hfree in HM3. set (h2 := mkchunk a nsz false) in *.
      assert (Hh2in : In h2 (pre ++ h2 :: post')) by (apply in_or_app; right; left; reflexivity).
      assert (Hh2not : forall i, 0 <= i < BIN_COUNT -> ~ In (c_addr h2) (bin_nth (bins_remove bins_a (get_bin_index (c_sz nx)) (c_addr nx)) i)).
      { intros i Hi Hc. cbn [c_addr h2] in Hc. apply (Hnot i Hi).
        unfold bins_remove in Hc. destruct (Z.eq_dec i (get_bin_index (c_sz nx))) as [-> | Hne].
        - rewrite bin_nth_upd_same in Hc by assumption. destruct Hgood as [Hg _]. destruct (Hg _ Hbi) as [Hnd _].
          apply (remove_addr_in (c_addr nx) _ a Hnd) in Hc. tauto.
        - rewrite bin_nth_upd_other in Hc by lia. exact Hc. }
      destruct (M2_push hs he m3 bc1 _ _ h2 HM3 Hh2in eq_refl Hh2not) as (bc2 & m4 & Hadd & HM4 & _).
      pose proof Hadd as Hadd0.
      cbn [c_addr c_sz h2] in Hadd, HM4. rewrite Hadd.
      eexists. eexists. split; [reflexivity|]. cbn [fst snd c_addr c_sz]. fold a.
      split; [exact (mi_rep _ _ _ _ _ _ HM4)|].
      set (S := hdrs2 he (pre ++ hc :: nx :: post') (pre ++ mkchunk a (c_sz hc + NODE + c_sz nx) false :: post')).
      assert (Sold : forall b, is_hdr he (pre ++ hc :: nx :: post') b -> S b) by (intros b0 Hb0; left; exact Hb0).
      assert (Sa : S a) by (apply Sold; left; apply in_map; exact Hhin).
      assert (Snn : S (a + NODE + nsz)).
      { apply Sold. assert (Ht' : tiled hs ((pre ++ [hc]) ++ nx :: post') he) by (rewrite <- app_assoc; exact Ht).
        pose proof (tiled_next _ _ _ _ _ Ht') as Hnn.
        replace (a + NODE + nsz) with (c_addr nx + NODE + c_sz nx) by (unfold nsz; lia). rewrite <- Hnn.
        pose proof (next_is_hdr he (pre ++ [hc]) nx post') as Hq. rewrite <- app_assoc in Hq. exact Hq. }
      apply (hframe_trans S m m3).
      * unfold m3. apply (hframe_step S (a + NODE + nsz) 8); [exact Snn | hk_solve | lia|].
        apply (hframe_step S a 0); [exact Sa | hk_solve | lia|].
        apply (M1_hframe S hs he m bins_c _ _ _ _ HM Hbi Hnext). exact Sold.
      * apply (M2_hframe S hs he m3 bc1 _ _ h2 bc2 m4 HM3 Hh2in eq_refl Hh2not Hadd0).
        intros b0 Hb0. right. unfold h2 in Hb0. clear - Hb0. unfold nsz in *. hdr_solve.
Qed.

Lemma padj_last m e : forall l p, padj_chain m p l e -> n_prev_adj m e = last l p.
Proof.
  induction l as [|a r IH]; intros p H; cbn [padj_chain] in H; [exact H|].
  destruct H as [_ H]. rewrite (IH a H). destruct r; [reflexivity | cbn [last]; apply last_default].
Qed.

(* is_used agrees with the flag for chunks that the bins list when free *)
Lemma is_used_flag hs he m bins_c chunks bins_a z :
  MI hs he m bins_c chunks bins_a -> In z chunks ->
  (c_used z = false -> exists i, 0 <= i < BIN_COUNT /\ In (c_addr z) (bin_nth bins_a i)) ->
  is_used m (c_addr z) = c_used z.
Proof.
  intros HM Hz Hc. destruct (c_used z) eqn:E.
  - pose proof (rp_used _ _ _ _ _ (mi_rep _ _ _ _ _ _ HM)) as HU. rewrite Forall_forall in HU. apply HU; assumption.
  - destruct (Hc eq_refl) as (i & Hi & Hin). apply (mi_member_not_used _ _ _ _ _ _ HM i _ Hi Hin).
Qed.

Lemma heap_dealloc_raw_sim hs he m bins_c chunks bins_a live i b :
  raw_inv hs he chunks bins_a live -> Rep he m bins_c chunks bins_a -> nth_error live i = Some b ->
  exists bins_c' m' ch' ba',
    ha_dealloc_raw chunks bins_a (b_addr b) = HOk (ch', ba') /\
    heap_dealloc_raw bins_c m (b_addr b) = HOk (bins_c', m') /\
    Rep he m' bins_c' ch' ba' /\ hframe (hdrs2 he chunks ch') m m'.
Proof.
  intros Hinv Hrep Hn.
  pose proof (MI_of_inv _ _ _ _ _ _ _ Hinv Hrep) as HM.
  destruct (live_chunk _ _ _ _ _ _ _ Hinv Hn) as (pre & x & post & -> & Hu & Ha & Hsz & Hnz & Hmis & Hw & Hfind).
  pose proof Hinv as [Hpos Htop Ht Hal Hb Hl].
  pose proof NODE_eq as HN. pose proof MIN_range as HMr.
  assert (H64 : two64 = 18446744073709551616) by reflexivity.
  set (a := c_addr x) in *.
  assert (Hxin : In x (pre ++ x :: post)) by (apply in_or_app; right; left; reflexivity).
  destruct (chunk_bounds hs he _ Ht Hal x Hxin) as (Ha1 & Ha2 & Ha3 & Ha4). fold a in Ha1, Ha3, Ha4.
  pose proof (MI_len _ _ _ _ _ _ HM) as HLa.
  (* completeness of the bins: every free chunk is in its bin *)
  assert (Hcomp : forall z, In z (pre ++ x :: post) -> c_used z = false ->
                  In (c_addr z) (bin_nth bins_a (get_bin_index (c_sz z)))).
  { intros z Hz Hzf. destruct Hb as (_ & Hb). destruct (Hb _ (get_bin_index_range (c_sz z))) as [_ Hin]. apply Hin. exists z. auto. }
  assert (Hflag : forall z, In z (pre ++ x :: post) -> is_used m (c_addr z) = c_used z).
  { intros z Hz. apply (is_used_flag _ _ _ _ _ _ z HM Hz). intros Hzf. exists (get_bin_index (c_sz z)).
    split; [apply get_bin_index_range | apply Hcomp; assumption]. }
  (* the abstract side up to the tail *)
  unfold ha_dealloc_raw. rewrite Hnz, Hmis, Hw, Hfind, Hu. cbn [negb].
  (* the concrete side up to the previous chunk *)
  unfold heap_dealloc_raw. rewrite Hnz. unfold get_ptr_node.
  change (negb (Z.land (b_addr b) (ALLOC_ALIGN - 1) =? 0)) with (ptr_misaligned (b_addr b)). rewrite Hmis, Hw.
  pose proof (Hflag x Hxin) as Hfx. fold a in Hfx. rewrite Hfx, Hu.
  assert (Esz0 : (n_size m a =? 0) = false).
  { pose proof (mi_size _ _ _ _ _ _ HM x Hxin) as Hq. fold a in Hq. rewrite Hq. apply Z.eqb_neq. lia. }
  rewrite Esz0. cbn [andb negb].
  assert (Ea0 : (a =? 0) = false) by (apply Z.eqb_neq; lia). rewrite Ea0.
  (* prev_adj of x *)
  pose proof (rp_padj _ _ _ _ _ Hrep) as Hp. rewrite map_app in Hp. cbn [map] in Hp.
  apply padj_chain_app in Hp. destruct Hp as [Hp1 _]. apply padj_last in Hp1. fold a in Hp1.
  assert (Hnext_x : next_adj m a = a + NODE + c_sz x).
  { unfold next_adj. pose proof (mi_size _ _ _ _ _ _ HM x Hxin) as Hsx. fold a in Hsx. rewrite Hsx. rewrite (w64_small (a + NODE)) by lia. apply w64_small. lia. }
  (* the tail hypothesis about the chunk after x, for the untouched memory and bins *)
  assert (Htl0 : forall nx post', post = nx :: post' ->
     if c_used nx then is_used m (c_addr nx) = true else In (c_addr nx) (bin_nth bins_a (get_bin_index (c_sz nx)))).
  { intros nx post' ->. assert (Hnin : In nx (pre ++ x :: nx :: post')) by (apply in_or_app; right; right; left; reflexivity).
    destruct (c_used nx) eqn:E; [rewrite (Hflag nx Hnin); exact E | apply Hcomp; assumption]. }
  assert (Hxnot : forall j, 0 <= j < BIN_COUNT -> ~ In a (bin_nth bins_a j)).
  { intros j Hj Hc. destruct (mi_mem _ _ _ _ _ _ HM j a Hj Hc) as (z & Hz & Hza & Hzf).
    assert (z = x) by (eapply tiled_unique; [exact Ht | exact Hz | exact Hxin | exact Hza]). subst z. congruence. }
  (* case: no merge with the previous chunk *)
  assert (Hnomerge :
    exists bins_c' m', c_tail bins_c m a (a + NODE + c_sz x) = (bins_c', m') /\
      Rep he m' bins_c' (fst (a_tail pre (mkchunk a (c_sz x) false) post bins_a)) (snd (a_tail pre (mkchunk a (c_sz x) false) post bins_a)) /\
      hframe (hdrs2 he (pre ++ x :: post) (fst (a_tail pre (mkchunk a (c_sz x) false) post bins_a))) m m').
  { pose proof (M_reflag hs he m m bins_c pre x post bins_a false HM Hxnot (fun _ _ _ => eq_refl) ltac:(discriminate)) as HM0.
    fold a in HM0.
    destruct (tail_sim hs he m bins_c pre (mkchunk a (c_sz x) false) post bins_a HM0 eq_refl Hxnot Htl0) as (bc' & m' & Q1 & Q2 & Q3).
    exists bc', m'. split; [exact Q1|]. split; [exact Q2|]. eapply hframe_mono; [|exact Q3].
    intros h Hh. destruct Hh as [Hh | Hh]; [left | right; exact Hh]. unfold a in Hh. clear - Hh. hdr_solve. }
  destruct (split_last pre) as [[pre0 pv]|] eqn:Esl.
  - apply split_last_spec in Esl. subst pre.
    rewrite map_app in Hp1. cbn [map] in Hp1. rewrite last_last in Hp1. rewrite Hp1.
    assert (Hpvin : In pv ((pre0 ++ [pv]) ++ x :: post)) by (apply in_or_app; left; apply in_or_app; right; left; reflexivity).
    destruct (chunk_bounds hs he _ Ht Hal pv Hpvin) as (Hv1 & Hv2 & Hv3 & Hv4).
    assert (Ev0 : (c_addr pv =? 0) = false) by (apply Z.eqb_neq; lia). rewrite Ev0. cbn [negb andb].
    rewrite (Hflag pv Hpvin).
    destruct (c_used pv) eqn:Eupv; cbn [negb].
    + (* previous chunk used *)
      rewrite Hnext_x. destruct Hnomerge as (bc' & m' & Htail & Hrep' & Hfr').
      unfold c_tail in Htail.
      exists bc', m', (fst (a_tail (pre0 ++ [pv]) (mkchunk a (c_sz x) false) post bins_a)),
             (snd (a_tail (pre0 ++ [pv]) (mkchunk a (c_sz x) false) post bins_a)).
      split; [unfold a_tail; destruct post as [|nx post']; [reflexivity | destruct (c_used nx); reflexivity]|].
      split; [|split; [exact Hrep' | exact Hfr']].
      match goal with |- (let '(bins, m0) := ?t in _) = _ => destruct t as [bb mm0] eqn:Et end.
      cbv beta iota in Htail |- *. rewrite Htail. reflexivity.
    + (* previous chunk free: unlink it, let it absorb x *)
      pose proof (get_bin_index_range (c_sz pv)) as Hbi.
      pose proof (Hcomp pv Hpvin Eupv) as Hpvbin.
      set (pva := c_addr pv) in *.
      unfold remove_node. pose proof (mi_size _ _ _ _ _ _ HM pv Hpvin) as Hszpv. fold pva in Hszpv. rewrite Hszpv.
      destruct (M1_unlink hs he m bins_c _ _ _ _ HM Hbi Hpvbin) as (bc1 & Hrm & HM1 & _).
      rewrite Hrm. set (m1 := unlink_mem m pva) in *.
      set (ba1 := bins_remove bins_a (get_bin_index (c_sz pv)) pva) in *.
      pose proof (mi_size _ _ _ _ _ _ HM1 pv Hpvin) as Hs1. fold pva in Hs1.
      pose proof (mi_size _ _ _ _ _ _ HM1 x Hxin) as Hs2. fold a in Hs2.
      rewrite Hs1, Hs2.
      (* geometry: x starts where pv ends *)
      assert (Hgeo : a = pva + NODE + c_sz pv).
      { pose proof Ht as Ht'. rewrite <- app_assoc in Ht'. cbn [app] in Ht'. apply tiled_app in Ht'.
        destruct Ht' as (m0 & _ & Ht''). cbn [tiled] in Ht''. destruct Ht'' as (E1 & _ & E2 & _). fold pva in E1. fold a in E2. lia. }
      set (nsz := c_sz pv + NODE + c_sz x).
      rewrite (w64_small (c_sz pv + NODE)) by lia. rewrite (w64_small (c_sz pv + NODE + c_sz x)) by lia. fold nsz.
      assert (Enext : next_adj (mset m1 pva nsz) pva = pva + NODE + nsz).
      { unfold next_adj, n_size. mm. rewrite (w64_small (pva + NODE)) by lia. apply w64_small. unfold nsz. lia. }
      rewrite !Enext.
      set (m3 := mset (mset m1 pva nsz) (pva + NODE + nsz + 8) pva).
      (* M5: pv absorbs x *)
      assert (HM1' : MI hs he m1 bc1 (pre0 ++ pv :: x :: post) ba1) by (rewrite <- app_assoc in HM1; exact HM1).
      assert (Hxnot1 : forall j, 0 <= j < BIN_COUNT -> ~ In (c_addr x) (bin_nth ba1 j)).
      { intros j Hj Hc. fold a in Hc. apply (Hxnot j Hj). unfold ba1, bins_remove in Hc.
        destruct (Z.eq_dec j (get_bin_index (c_sz pv))) as [-> | Hne].
        - rewrite bin_nth_upd_same in Hc by assumption. destruct (mi_good _ _ _ _ _ _ HM) as [Hg _]. destruct (Hg _ Hbi) as [Hnd _].
          apply (remove_addr_in pva _ a Hnd) in Hc. tauto.
        - rewrite bin_nth_upd_other in Hc by lia. exact Hc. }
      (* M5: pv absorbs x; the two scrubbing writes clear the used mark of the absorbed header *)
      set (m5 := mset (mset m3 (a + 16) 0) (a + 24) 0).
      assert (HM5 : MI hs he m5 bc1 (pre0 ++ mkchunk pva nsz (c_used pv) :: post) ba1).
      { destruct (chunk_bounds hs he _ Ht Hal x Hxin) as (_ & Hx2 & _).
        apply (M5_merge hs he m1 m5 bc1 pre0 pv x post ba1 HM1' Hxnot1); fold pva; fold nsz; fold a; unfold m5, m3.
        - mm. reflexivity.
        - rewrite !mget_mset_other by (unfold nsz; lia). mm. reflexivity.
        - intros w W1 W2 W3 W4. mm. reflexivity.
        - unfold is_used, n_next. mm. reflexivity. }
      rewrite Eupv in HM5. set (pv' := mkchunk pva nsz false) in *.
      (* the tail *)
      assert (Hpvnot : forall j, 0 <= j < BIN_COUNT -> ~ In (c_addr pv') (bin_nth ba1 j)).
      { cbn [c_addr pv']. apply not_in_after_remove; try assumption. apply (mi_good _ _ _ _ _ _ HM). }
      assert (Htl5 : forall nx post', post = nx :: post' ->
         if c_used nx then is_used m5 (c_addr nx) = true else In (c_addr nx) (bin_nth ba1 (get_bin_index (c_sz nx)))).
      { intros nx post' ->.
        assert (Hnin : In nx ((pre0 ++ [pv]) ++ x :: nx :: post')) by (apply in_or_app; right; right; left; reflexivity).
        assert (Hnin5 : In nx (pre0 ++ pv' :: nx :: post')) by (apply in_or_app; right; right; left; reflexivity).
        destruct (c_used nx) eqn:E.
        - pose proof (rp_used _ _ _ _ _ (mi_rep _ _ _ _ _ _ HM5)) as HU. rewrite Forall_forall in HU. apply HU; assumption.
        - unfold ba1. apply in_after_remove_other; try assumption; try apply get_bin_index_range.
          + destruct (mi_good _ _ _ _ _ _ HM) as [Hg _]. destruct (Hg _ Hbi). assumption.
          + destruct (chunk_bounds hs he _ Ht Hal nx Hnin) as (? & ? & ? & ?).
            destruct (tiled_mid _ _ _ _ _ Ht) as (m0 & _ & Em0 & _ & _ & _ & Hq2).
            destruct (Hq2 nx (or_introl eq_refl)) as (? & _). fold a in Em0. lia.
          + apply Hcomp; assumption. }
      destruct (tail_sim hs he m5 bc1 pre0 pv' post ba1 HM5 eq_refl Hpvnot Htl5) as (bc' & m' & Htail & Hrep' & Hfr').
      cbn [c_addr c_sz pv'] in Htail. unfold c_tail, remove_node in Htail.
      exists bc', m', (fst (a_tail pre0 pv' post ba1)), (snd (a_tail pre0 pv' post ba1)).
      split.
      { unfold a_tail, pv', ba1, nsz. fold pva. cbn [c_addr c_sz].
        destruct post as [|nx post']; [reflexivity | destruct (c_used nx); reflexivity]. }
      split.
      2:{ split; [exact Hrep'|].
        set (S := hdrs2 he ((pre0 ++ [pv]) ++ x :: post) (fst (a_tail pre0 pv' post ba1))).
        assert (Sold : forall h, is_hdr he ((pre0 ++ [pv]) ++ x :: post) h -> S h) by (intros h Hh; left; exact Hh).
        assert (Sa : S a) by (apply Sold; left; apply in_map; exact Hxin).
        assert (Spv : S pva) by (apply Sold; left; apply in_map; exact Hpvin).
        assert (Snn : S (pva + NODE + nsz)).
        { apply Sold. pose proof (tiled_next _ _ _ _ _ Ht) as Hnn. fold a in Hnn.
          replace (pva + NODE + nsz) with (a + NODE + c_sz x) by (unfold nsz; lia). rewrite <- Hnn. apply next_is_hdr. }
        apply (hframe_trans S m m5).
        - unfold m5, m3.
          apply (hframe_step S a 24); [exact Sa | hk_solve | lia|].
          apply (hframe_step S a 16); [exact Sa | hk_solve | lia|].
          apply (hframe_step S (pva + NODE + nsz) 8); [exact Snn | hk_solve | lia|].
          apply (hframe_step S pva 0); [exact Spv | hk_solve | lia|].
          apply (M1_hframe S hs he m bins_c _ _ _ _ HM Hbi Hpvbin). exact Sold.
        - eapply hframe_mono; [|exact Hfr']. intros h [Hh | Hh]; [|right; exact Hh].
          apply Sold. unfold pv', pva in Hh. clear - Hh. hdr_solve. }
      fold m5.
      match goal with |- (let '(bins, m0) := ?t in _) = _ => destruct t as [bb mm0] eqn:Et end.
      cbv beta iota in Htail |- *. rewrite Htail. reflexivity.
  - apply split_last_none in Esl. subst pre. cbn [map last] in Hp1. rewrite Hp1. cbn [Z.eqb negb andb].
    rewrite Hnext_x. destruct Hnomerge as (bc' & m' & Htail & Hrep' & Hfr').
    unfold c_tail in Htail.
    exists bc', m', (fst (a_tail [] (mkchunk a (c_sz x) false) post bins_a)),
           (snd (a_tail [] (mkchunk a (c_sz x) false) post bins_a)).
    split; [unfold a_tail; destruct post as [|nx post']; [reflexivity | destruct (c_used nx); reflexivity]|].
    split; [|split; [exact Hrep' | exact Hfr']].
    match goal with |- (let '(bins, m0) := ?t in _) = _ => destruct t as [bb mm0] eqn:Et end.
    cbv beta iota in Htail |- *. rewrite Htail. reflexivity.
Qed.
