(* C11 - heap allocator (abstract model): tiling, alignment, bins hold exactly the free chunks,
   live blocks = used chunks; preservation over arbitrary histories *)
From Coq Require Import ZArith List Bool Lia.
From Base Require Import LuaInt.
From C11 Require Import Gen Model Heap HeapA Spec SpecHeap Common ProofsPool.
Import ListNotations.
Local Open Scope Z_scope.

Lemma NODE_eq : NODE = 32. Proof. reflexivity. Qed.
Lemma ALIGN_eq : ALLOC_ALIGN = 16. Proof. reflexivity. Qed.
(* only the sign and a coarse bound of MIN_ALLOC_SIZE matter: retuning it re-proves *)
Lemma MIN_range : 0 <= MIN_ALLOC_SIZE <= 65536. Proof. vm_compute. split; discriminate. Qed.
Lemma BINC_eq : BIN_COUNT = 24. Proof. reflexivity. Qed.
Lemma align16_pow2 : pow2 ALLOC_ALIGN. Proof. exists 4. split; [lia | reflexivity]. Qed.

(* ---------- get_bin_index ---------- *)
(* parametric in the three tuning constants: any retune with 0 <= BIN_MIN_LOG, 0 < BIN_COUNT,
   BIN_MIN_LOG + BIN_COUNT <= 32 and BIN_CLZ_BASE = 31 - BIN_MIN_LOG keeps the index in range *)
Definition get_bin_index_p (L C B size : Z) : Z :=
  if size <=? 2 ^ L then 0
  else if size >=? 2 ^ (L + C) then C - 1
  else B - clz32 (size mod two32).

Lemma get_bin_index_p_range L C B sz :
  0 <= L -> 0 < C -> L + C <= 32 -> B = 31 - L -> 0 <= get_bin_index_p L C B sz < C.
Proof.
  intros HL HC HLC ->. unfold get_bin_index_p.
  destruct (sz <=? 2 ^ L) eqn:E1; [lia|].
  destruct (sz >=? 2 ^ (L + C)) eqn:E2; [lia|].
  apply Z.leb_gt in E1. rewrite Z.geb_leb in E2. apply Z.leb_gt in E2.
  assert (HpL : 0 < 2 ^ L) by (apply Z.pow_pos_nonneg; lia).
  assert (Hp32 : 2 ^ (L + C) <= two32).
  { unfold two32. change 4294967296 with (2 ^ 32). apply Z.pow_le_mono_r; lia. }
  rewrite Z.mod_small by lia.
  unfold clz32. destruct (sz <=? 0) eqn:E0; [apply Z.leb_le in E0; lia|].
  assert (L <= Z.log2 sz) by (apply Z.log2_le_pow2; lia).
  assert (Z.log2 sz < L + C) by (apply Z.log2_lt_pow2; lia).
  lia.
Qed.

Lemma get_bin_index_range sz : 0 <= get_bin_index sz < BIN_COUNT.
Proof.
  change (get_bin_index sz) with (get_bin_index_p BIN_MIN_LOG BIN_COUNT BIN_CLZ_BASE sz).
  apply get_bin_index_p_range; vm_compute; try reflexivity; intros Hx; discriminate Hx.
Qed.

(* ---------- find_chunk / split_last ---------- *)
Lemma find_chunk_spec a l pre x post :
  find_chunk a l = Some (pre, x, post) -> l = pre ++ x :: post /\ c_addr x = a.
Proof.
  revert pre x post. induction l as [|c r IH]; intros pre x post H; cbn in H; [discriminate|].
  destruct (c_addr c =? a) eqn:E.
  - inversion H; subst. apply Z.eqb_eq in E. auto.
  - destruct (find_chunk a r) as [[[p y] q]|]; [|discriminate]. inversion H; subst.
    destruct (IH p x post eq_refl) as [-> Hx]. auto.
Qed.

Lemma find_chunk_none a l : find_chunk a l = None -> forall y, In y l -> c_addr y <> a.
Proof.
  induction l as [|c r IH]; intros H y Hy; [destruct Hy|]. cbn in H.
  destruct (c_addr c =? a) eqn:E; [discriminate|].
  destruct (find_chunk a r) as [[[p z] q]|] eqn:F; [discriminate|].
  destruct Hy as [<- | Hy]; [apply Z.eqb_neq; exact E | apply IH; auto].
Qed.

Lemma split_last_spec {A} (l : list A) i y : split_last l = Some (i, y) -> l = i ++ [y].
Proof.
  revert i y. induction l as [|x r IH]; intros i y H; cbn in H; [discriminate|].
  destruct (split_last r) as [[j z]|] eqn:E.
  - inversion H; subst. rewrite (IH j y eq_refl). reflexivity.
  - inversion H; subst. destruct r; [reflexivity|]. cbn in E. destruct (split_last r) as [[? ?]|]; discriminate.
Qed.

Lemma split_last_none {A} (l : list A) : split_last l = None -> l = [].
Proof. destruct l as [|x r]; [reflexivity|]. cbn. destruct (split_last r) as [[? ?]|]; discriminate. Qed.

(* ---------- tiling ---------- *)
Lemma tiled_app s l1 l2 e : tiled s (l1 ++ l2) e <-> exists m, tiled s l1 m /\ tiled m l2 e.
Proof.
  revert s. induction l1 as [|c r IH]; intros s; cbn [app tiled].
  - split; [intros H; exists s; auto | intros (m & -> & H); exact H].
  - rewrite IH. split.
    + intros (Ha & Hs & m & H1 & H2). exists m. auto.
    + intros (m & (Ha & Hs & H1) & H2). repeat split; auto. exists m. auto.
Qed.

Lemma tiled_le s l e : tiled s l e -> s <= e.
Proof.
  revert s. induction l as [|c r IH]; intros s H; cbn in H; [lia|].
  destruct H as (_ & Hs & H). apply IH in H. rewrite NODE_eq in H. lia.
Qed.

Lemma tiled_bounds s l e : tiled s l e ->
  Forall (fun x => s <= c_addr x /\ 0 <= c_sz x /\ c_addr x + NODE + c_sz x <= e) l.
Proof.
  revert s. induction l as [|c r IH]; intros s H; cbn in H; constructor.
  - destruct H as (Ha & Hs & H). apply tiled_le in H. lia.
  - destruct H as (Ha & Hs & H). eapply Forall_impl; [|apply IH; exact H].
    intros x (X1 & X2 & X3). rewrite NODE_eq in *. lia.
Qed.

Lemma tiled_unique s l e x y :
  tiled s l e -> In x l -> In y l -> c_addr x = c_addr y -> x = y.
Proof.
  revert s. induction l as [|c r IH]; intros s H Hx Hy E; [destruct Hx|].
  cbn in H. destruct H as (Ha & Hs & H).
  pose proof (tiled_bounds _ _ _ H) as HB. rewrite Forall_forall in HB. rewrite NODE_eq in *.
  destruct Hx as [<- | Hx]; destruct Hy as [<- | Hy]; auto.
  - destruct (HB y Hy). lia.
  - destruct (HB x Hx). lia.
  - eapply IH; eassumption.
Qed.

(* distinct chunks occupy disjoint ranges *)
Lemma tiled_disjoint s l e x y :
  tiled s l e -> In x l -> In y l -> x <> y ->
  c_addr x + NODE + c_sz x <= c_addr y \/ c_addr y + NODE + c_sz y <= c_addr x.
Proof.
  revert s. induction l as [|c r IH]; intros s H Hx Hy Hne; [destruct Hx|].
  cbn in H. destruct H as (Ha & Hs & H).
  pose proof (tiled_bounds _ _ _ H) as HB. rewrite Forall_forall in HB.
  destruct Hx as [<- | Hx]; destruct Hy as [<- | Hy].
  - contradiction.
  - left. destruct (HB y Hy). lia.
  - right. destruct (HB x Hx). lia.
  - eapply IH; eassumption.
Qed.

Lemma find_chunk_tiled s pre x post e :
  tiled s (pre ++ x :: post) e -> find_chunk (c_addr x) (pre ++ x :: post) = Some (pre, x, post).
Proof.
  revert s. induction pre as [|c r IH]; intros s H; cbn [app find_chunk].
  - rewrite Z.eqb_refl. reflexivity.
  - cbn [app tiled] in H. destruct H as (Ha & Hs & H).
    pose proof (tiled_bounds _ _ _ H) as HB. rewrite Forall_forall in HB.
    destruct (HB x ltac:(apply in_or_app; right; left; reflexivity)) as (X1 & _).
    rewrite NODE_eq in *.
    assert (E : (c_addr c =? c_addr x) = false) by (apply Z.eqb_neq; lia). rewrite E.
    rewrite (IH _ H). reflexivity.
Qed.

(* ---------- bins as a map from (address, index) ---------- *)
Definition bins_inv (bins : list (list Z)) (F : Z -> Z -> Prop) : Prop :=
  length bins = Z.to_nat BIN_COUNT /\
  forall i, 0 <= i < BIN_COUNT -> NoDup (bin_nth bins i) /\ forall a, In a (bin_nth bins i) <-> F a i.

Lemma list_set_length {A} (l : list A) i v : length (list_set l i v) = length l.
Proof. revert i. induction l as [|x r IH]; intros i; destruct i; cbn; auto. Qed.

Lemma nth_list_set_same {A} (l : list A) i v d : (i < length l)%nat -> nth i (list_set l i v) d = v.
Proof. revert i. induction l as [|x r IH]; intros i H; destruct i; cbn in *; try lia; auto. apply IH. lia. Qed.

Lemma nth_list_set_other {A} (l : list A) i j v d : i <> j -> nth j (list_set l i v) d = nth j l d.
Proof.
  revert i j. induction l as [|x r IH]; intros i j H; destruct i; destruct j; cbn; auto; try congruence.
Qed.

Lemma bin_nth_upd_same bins i v :
  length bins = Z.to_nat BIN_COUNT -> 0 <= i < BIN_COUNT -> bin_nth (bin_upd bins i v) i = v.
Proof. intros HL Hi. unfold bin_nth, bin_upd. apply nth_list_set_same. lia. Qed.

Lemma bin_nth_upd_other bins i j v : 0 <= i -> 0 <= j -> i <> j -> bin_nth (bin_upd bins i v) j = bin_nth bins j.
Proof. intros Hi Hj Hne. unfold bin_nth, bin_upd. apply nth_list_set_other. lia. Qed.

Lemma bins_inv_ext bins F G : (forall a i, F a i <-> G a i) -> bins_inv bins F -> bins_inv bins G.
Proof.
  intros HE (HL & H). split; [exact HL|]. intros i Hi. destruct (H i Hi) as [Hnd Hin].
  split; [exact Hnd|]. intros a. rewrite Hin. apply HE.
Qed.

Lemma bins_inv_add bins F sz a :
  bins_inv bins F -> (forall j, ~ F a j) ->
  bins_inv (bins_add bins sz a) (fun x j => F x j \/ (x = a /\ j = get_bin_index sz)).
Proof.
  intros (HL & H) Hnew. pose proof (get_bin_index_range sz) as Hr.
  unfold bins_add. split; [unfold bin_upd; rewrite list_set_length; exact HL|].
  intros i Hi. destruct (H i Hi) as [Hnd Hin].
  destruct (Z.eq_dec i (get_bin_index sz)) as [-> | Hne].
  - rewrite bin_nth_upd_same by assumption. split.
    + constructor; [|exact Hnd]. rewrite Hin. apply Hnew.
    + intros x. cbn [In]. rewrite Hin. split.
      * intros [<- | Hx]; auto.
      * intros [Hx | [-> _]]; auto.
  - rewrite bin_nth_upd_other by lia. split; [exact Hnd|].
    intros x. rewrite Hin. split; [auto|]. intros [Hx | [_ Hj]]; [exact Hx | congruence].
Qed.

Lemma remove_addr_in a l x : NoDup l -> (In x (remove_addr a l) <-> In x l /\ x <> a).
Proof.
  induction l as [|y r IH]; intros Hnd; cbn; [tauto|].
  inversion Hnd as [|? ? Hy Hr]; subst.
  destruct (y =? a) eqn:E.
  - apply Z.eqb_eq in E. subst y. split.
    + intros Hx. split; [auto|]. intros ->. contradiction.
    + intros [[<- | Hx] Hne]; [contradiction | exact Hx].
  - apply Z.eqb_neq in E. cbn [In]. rewrite (IH Hr). split.
    + intros [<- | [Hx Hne]]; auto.
    + intros [[<- | Hx] Hne]; auto.
Qed.

Lemma remove_addr_nodup a l : NoDup l -> NoDup (remove_addr a l).
Proof.
  induction l as [|y r IH]; intros Hnd; cbn; [constructor|].
  inversion Hnd as [|? ? Hy Hr]; subst.
  destruct (y =? a); [exact Hr|]. constructor; [|apply IH; exact Hr].
  rewrite (remove_addr_in a r y Hr). tauto.
Qed.

Lemma bins_inv_remove bins F i a :
  bins_inv bins F -> 0 <= i < BIN_COUNT -> (forall j, F a j -> j = i) ->
  bins_inv (bins_remove bins i a) (fun x j => F x j /\ x <> a).
Proof.
  intros (HL & H) Hi Huniq. unfold bins_remove.
  split; [unfold bin_upd; rewrite list_set_length; exact HL|].
  intros j Hj. destruct (H j Hj) as [Hnd Hin].
  destruct (Z.eq_dec j i) as [-> | Hne].
  - rewrite bin_nth_upd_same by assumption. split; [apply remove_addr_nodup; exact Hnd|].
    intros x. rewrite (remove_addr_in a _ x Hnd). rewrite Hin. tauto.
  - rewrite bin_nth_upd_other by lia. split; [exact Hnd|].
    intros x. rewrite Hin. split; [|tauto]. intros Hx. split; [exact Hx|].
    intros ->. apply Hne. apply Huniq. exact Hx.
Qed.

Lemma bins_exact_inv bins chunks : bins_exact bins chunks <-> bins_inv bins (free_in chunks).
Proof. unfold bins_exact, bins_inv. tauto. Qed.

Lemma nth_repeat_nil (n i : nat) : nth i (repeat (@nil Z) n) [] = [].
Proof. revert i. induction n; intros i; destruct i; cbn; auto. Qed.

Lemma empty_bins_inv : bins_inv empty_bins (fun _ _ => False).
Proof.
  split; [unfold empty_bins; apply repeat_length|].
  intros i Hi. unfold bin_nth, empty_bins. rewrite nth_repeat_nil. split; [constructor | cbn; tauto].
Qed.

(* ---------- free_in over list surgery ---------- *)
Lemma free_in_app l1 l2 a i : free_in (l1 ++ l2) a i <-> free_in l1 a i \/ free_in l2 a i.
Proof.
  unfold free_in. split.
  - intros (x & Hx & H). apply in_app_or in Hx. destruct Hx; [left | right]; exists x; auto.
  - intros [(x & Hx & H) | (x & Hx & H)]; exists x; (split; [apply in_or_app; auto | exact H]).
Qed.

Lemma free_in_cons c l a i :
  free_in (c :: l) a i <-> (c_addr c = a /\ c_used c = false /\ get_bin_index (c_sz c) = i) \/ free_in l a i.
Proof.
  unfold free_in. split.
  - intros (x & [<- | Hx] & H); [left; exact H | right; exists x; auto].
  - intros [H | (x & Hx & H)]; [exists c; split; [left; reflexivity | exact H] | exists x; split; [right; exact Hx | exact H]].
Qed.

Lemma free_in_nil a i : free_in [] a i <-> False.
Proof. unfold free_in. split; [intros (x & [] & _) | tauto]. Qed.

(* ---------- more tiling ---------- *)
Lemma tiled_mid hs pre x post he :
  tiled hs (pre ++ x :: post) he ->
  exists m, tiled hs pre m /\ c_addr x = m /\ 0 <= c_sz x /\ tiled (m + NODE + c_sz x) post he /\
    (forall y, In y pre -> hs <= c_addr y /\ 0 <= c_sz y /\ c_addr y + NODE + c_sz y <= m) /\
    (forall y, In y post -> m + NODE + c_sz x <= c_addr y /\ 0 <= c_sz y /\ c_addr y + NODE + c_sz y <= he).
Proof.
  intros H. apply tiled_app in H. destruct H as (m & H1 & H2). cbn [tiled] in H2.
  destruct H2 as (Ha & Hs & H2). exists m.
  pose proof (tiled_bounds _ _ _ H1) as HB1. rewrite Forall_forall in HB1.
  pose proof (tiled_bounds _ _ _ H2) as HB2. rewrite Forall_forall in HB2.
  repeat split; auto; try (apply (HB1 y H)); try (apply (HB2 y H)).
Qed.

Lemma tiled_rebuild hs pre mid post he m m' :
  tiled hs pre m -> tiled m mid m' -> tiled m' post he -> tiled hs (pre ++ mid ++ post) he.
Proof.
  intros H1 H2 H3. apply tiled_app. exists m. split; [exact H1|].
  apply tiled_app. exists m'. auto.
Qed.

(* ---------- sizes ---------- *)
Lemma size_too_large_spec n : size_too_large n = false <-> n <= two64 - 49.
Proof.
  unfold size_too_large. replace (w64 (w64 (w64 (-1) - NODE) - ALLOC_ALIGN)) with (two64 - 49) by reflexivity.
  rewrite Z.gtb_ltb. rewrite Z.ltb_ge. tauto.
Qed.

Lemma aligned_size_spec n : 0 < n <= two64 - 49 ->
  n <= aligned_size n < n + 16 /\ aligned_size n mod 16 = 0 /\ 16 <= aligned_size n.
Proof.
  intros Hn. unfold aligned_size. rewrite NODE_eq, ALIGN_eq.
  unfold two64 in Hn.
  rewrite (w64_small (n + 32)) by (unfold two64; lia).
  assert (Hp : pow2 16) by (exists 4; split; [lia | reflexivity]).
  destruct (align_forward_spec (n + 32) 16 Hp ltac:(lia) ltac:(unfold two64; lia)) as [Hr Hm].
  set (r := align_forward (n + 32) 16) in *.
  rewrite (w64_small (r - 32)) by (unfold two64; lia). lia.
Qed.

(* ---------- search ---------- *)
Lemma first_fit_spec chunks l size a :
  first_fit chunks l size = Some a -> In a l /\ size <= size_at chunks a.
Proof.
  induction l as [|x r IH]; cbn; [discriminate|].
  destruct (size_at chunks x >=? size) eqn:E.
  - intros H. inversion H; subst. rewrite Z.geb_leb in E. apply Z.leb_le in E. auto.
  - intros H. destruct (IH H). auto.
Qed.

Lemma firstn_incl {A} n (l : list A) x : In x (firstn n l) -> In x l.
Proof.
  revert l. induction n as [|k IH]; intros l H; cbn in H; [destruct H|].
  destruct l as [|y r]; [destruct H|]. destruct H as [<- | H]; [left; reflexivity | right; apply IH; exact H].
Qed.

Lemma a_pass_spec limit nb chunks bins : forall bi size a b,
  a_pass limit nb chunks bins bi size = Some (a, b) ->
  bi <= b < bi + Z.of_nat nb /\ In a (bin_nth bins b) /\ size <= size_at chunks a.
Proof.
  induction nb as [|k IH]; intros bi size a b H; cbn [a_pass] in H; [discriminate|].
  destruct (first_fit chunks _ size) as [a'|] eqn:E.
  - inversion H; subst. apply first_fit_spec in E. destruct E as [Hin Hsz].
    split; [lia|]. split; [|exact Hsz].
    destruct limit; [eapply firstn_incl; exact Hin | exact Hin].
  - apply IH in H. destruct H as (H1 & H2 & H3). split; [lia | auto].
Qed.

(* ---------- the state invariant in raw form ---------- *)
Definition aligned_chunks (chunks : list chunk) : Prop := Forall (fun x => c_addr x mod 16 = 0) chunks.

Record raw_inv (hs he : Z) (chunks : list chunk) (bins : list (list Z)) (live : list blk) : Prop := {
  ri_pos : 0 < hs;
  ri_top : he + NODE + MIN_ALLOC_SIZE <= two64;
  ri_tiled : tiled hs chunks he;
  ri_aligned : aligned_chunks chunks;
  ri_bins : bins_inv bins (free_in chunks);
  ri_live : live_matches chunks live
}.

Lemma in_mid {A} (y : A) pre mid post : In y (pre ++ mid ++ post) <-> In y pre \/ In y mid \/ In y post.
Proof. rewrite !in_app_iff. tauto. Qed.

Lemma size_at_found chunks a pre x post :
  find_chunk a chunks = Some (pre, x, post) -> size_at chunks a = c_sz x.
Proof. intros H. unfold size_at. rewrite H. reflexivity. Qed.

(* ---------- helpers about live blocks ---------- *)
Lemma lm_block chunks live b :
  live_matches chunks live -> In b live ->
  exists x, In x chunks /\ c_used x = true /\ b_addr b = c_addr x + NODE /\ 0 < b_size b <= c_sz x.
Proof. intros (HF & _ & _) Hb. rewrite Forall_forall in HF. apply HF. exact Hb. Qed.

Lemma outside_not_x hs he pre x post y :
  tiled hs (pre ++ x :: post) he -> In y pre \/ In y post -> c_addr y <> c_addr x.
Proof.
  intros H Hy. destruct (tiled_mid _ _ _ _ _ H) as (m & _ & Hm & Hs & _ & Hpre & Hpost).
  rewrite NODE_eq in *. destruct Hy as [Hy | Hy].
  - destruct (Hpre y Hy) as (? & ? & ?). lia.
  - destruct (Hpost y Hy) as (? & ? & ?). lia.
Qed.

(* ---------- alloc: take free chunk x out of bin bi, optionally splitting it ---------- *)
Lemma take_chunk_ok hs he pre x post bins live n size (dosplit : bool) :
  raw_inv hs he (pre ++ x :: post) bins live ->
  c_used x = false -> 0 < n <= size -> size mod 16 = 0 ->
  (if dosplit then size + NODE + 1 <= c_sz x else size <= c_sz x) ->
  let a := c_addr x in
  let chunks' := if dosplit
                 then pre ++ [mkchunk a size true; mkchunk (a + NODE + size) (c_sz x - size - NODE) false] ++ post
                 else pre ++ [mkchunk a (c_sz x) true] ++ post in
  let bins' := if dosplit
               then bins_remove (bins_add bins (c_sz x - size - NODE) (a + NODE + size)) (get_bin_index (c_sz x)) a
               else bins_remove bins (get_bin_index (c_sz x)) a in
  raw_inv hs he chunks' bins' (mkblk (a + NODE) n :: live).
Proof.
  intros [Hpos Htop Ht Hal Hb Hl] Hfree Hn Hsz Hfit a chunks' bins'.
  destruct (tiled_mid _ _ _ _ _ Ht) as (m & Ht1 & Hm & Hs & Ht2 & Hpre & Hpost).
  assert (Hax : a mod 16 = 0).
  { unfold aligned_chunks in Hal. rewrite Forall_forall in Hal. apply Hal. apply in_or_app. right. left. reflexivity. }
  assert (Houts : forall y, In y pre \/ In y post -> c_addr y <> a) by (intros y Hy; eapply outside_not_x; eassumption).
  pose proof NODE_eq as HN. pose proof MIN_range as HMINR.
  (* x is the only chunk at address a, so its bin is determined *)
  assert (Huniq : forall j, free_in (pre ++ x :: post) a j -> j = get_bin_index (c_sz x)).
  { intros j (y & Hy & Hya & _ & Hyj).
    assert (y = x) by (eapply tiled_unique; [exact Ht | exact Hy | apply in_or_app; right; left; reflexivity | exact Hya]).
    subst y. auto. }
  split; try assumption.
  - (* tiling *)
    subst chunks'. destruct dosplit.
    + eapply tiled_rebuild; [exact Ht1 | | exact Ht2]. cbn [tiled c_addr c_sz]. subst a. repeat split; try lia.
    + eapply tiled_rebuild; [exact Ht1 | | exact Ht2]. cbn [tiled c_addr c_sz]. subst a. repeat split; try lia.
  - (* alignment *)
    subst chunks'. unfold aligned_chunks in *. rewrite Forall_forall in *. intros y Hy.
    destruct dosplit; apply in_mid in Hy; cbn [In] in Hy.
    + destruct Hy as [Hy | [[<- | [<- | []]] | Hy]]; cbn [c_addr]; try (apply Hal; rewrite in_app_iff; cbn [In]; tauto); lia.
    + destruct Hy as [Hy | [[<- | []] | Hy]]; cbn [c_addr]; try (apply Hal; rewrite in_app_iff; cbn [In]; tauto); lia.
  - (* bins *)
    subst bins' chunks'. destruct dosplit.
    + eapply bins_inv_ext; [|apply bins_inv_remove; [apply bins_inv_add; [exact Hb|] | apply get_bin_index_range |]].
      * intros a' j. cbn beta. cbn [app]. rewrite !free_in_app, !free_in_cons. cbn [c_addr c_sz c_used].
        split.
        -- intros [[[Hp | [Hx | Hq]] | [-> ->]] Hne].
           ++ left. exact Hp.
           ++ exfalso. apply Hne. symmetry. apply Hx.
           ++ right. right. right. exact Hq.
           ++ right. right. left. auto.
        -- intros [Hp | [(_ & Hd & _) | [(<- & _ & <-) | Hq]]]; try discriminate.
           ++ split; [left; left; exact Hp|]. destruct Hp as (y & Hy & <- & _). apply Houts. left. exact Hy.
           ++ split; [right; auto | subst a; lia].
           ++ split; [left; right; right; exact Hq|]. destruct Hq as (y & Hy & <- & _). apply Houts. right. exact Hy.
      * (* the split address is not an existing chunk *)
        intros j (y & Hy & Hya & _).
        apply in_app_or in Hy. cbn [In] in Hy.
        destruct Hy as [Hy | [<- | Hy]].
        -- destruct (Hpre y Hy) as (? & ? & ?). subst a. lia.
        -- subst a. lia.
        -- destruct (Hpost y Hy) as (? & ? & ?). subst a. lia.
      * intros j [Hf | [Hcontra _]]; [apply Huniq; exact Hf | subst a; lia].
    + eapply bins_inv_ext; [|apply bins_inv_remove; [exact Hb | apply get_bin_index_range | exact Huniq]].
      intros a' j. cbn beta. cbn [app]. rewrite !free_in_app, !free_in_cons. cbn [c_addr c_sz c_used].
      split.
      * intros [[Hp | [Hx | Hq]] Hne].
        -- left. exact Hp.
        -- exfalso. apply Hne. symmetry. apply Hx.
        -- right. right. exact Hq.
      * intros [Hp | [(_ & Hd & _) | Hq]]; try discriminate.
        -- split; [left; exact Hp|]. destruct Hp as (y & Hy & <- & _). apply Houts. left. exact Hy.
        -- split; [right; right; exact Hq|]. destruct Hq as (y & Hy & <- & _). apply Houts. right. exact Hy.
  - (* live blocks *)
    destruct Hl as (HF & Hnd & Hcomp).
    assert (Hkeep : forall y, In y (pre ++ x :: post) -> c_used y = true -> In y chunks').
    { intros y Hy Hu. apply in_app_or in Hy. cbn [In] in Hy. subst chunks'.
      destruct Hy as [Hy | [<- | Hy]]; [| congruence |]; destruct dosplit; apply in_mid; tauto. }
    split; [|split].
    + constructor.
      * cbn [b_addr b_size]. subst chunks'. destruct dosplit.
        -- exists (mkchunk a size true). split; [apply in_mid; cbn [In]; tauto|]. cbn. repeat split; lia.
        -- exists (mkchunk a (c_sz x) true). split; [apply in_mid; cbn [In]; tauto|]. cbn. repeat split; lia.
      * rewrite Forall_forall in *. intros b Hbl. destruct (HF b Hbl) as (y & Hy & Hu & Hrest).
        exists y. split; [apply Hkeep; assumption | auto].
    + cbn [map b_addr]. constructor; [|exact Hnd].
      intros Hin. apply in_map_iff in Hin. destruct Hin as (b & Hba & Hbl).
      rewrite Forall_forall in HF. destruct (HF b Hbl) as (y & Hy & Hu & Hya & _).
      assert (y = x).
      { eapply tiled_unique; [exact Ht | exact Hy | apply in_or_app; right; left; reflexivity | subst a; lia]. }
      subst y. congruence.
    + intros y Hy Hu. cbn [map b_addr In]. subst chunks'.
      destruct dosplit; apply in_mid in Hy; cbn [In] in Hy.
      * destruct Hy as [Hy | [[<- | [<- | []]] | Hy]]; cbn [c_addr c_used] in *; try discriminate; auto;
          right; apply Hcomp; auto; rewrite in_app_iff; cbn [In]; tauto.
      * destruct Hy as [Hy | [[<- | []] | Hy]]; cbn [c_addr c_used] in *; auto;
          right; apply Hcomp; auto; rewrite in_app_iff; cbn [In]; tauto.
Qed.

(* ---------- Heap:alloc ---------- *)
Lemma ha_alloc_raw_ok hs he chunks bins live n :
  raw_inv hs he chunks bins live -> 0 <= n < two64 ->
  exists ch' b' p, ha_alloc_raw chunks bins n = (ch', b', p) /\
    ((p = 0 /\ ch' = chunks /\ b' = bins) \/
     (p <> 0 /\ raw_inv hs he ch' b' (mkblk p n :: live))).
Proof.
  intros Hinv Hn. unfold ha_alloc_raw.
  destruct (n =? 0) eqn:E0.
  { eexists. eexists. eexists. split; [reflexivity|]. left. auto. }
  apply Z.eqb_neq in E0.
  destruct (size_too_large n) eqn:Etl.
  { eexists. eexists. eexists. split; [reflexivity|]. left. auto. }
  apply size_too_large_spec in Etl.
  destruct (aligned_size_spec n ltac:(lia)) as (Hs1 & Hs2 & Hs3).
  set (size := aligned_size n) in *.
  set (r := match a_pass (Some (Z.to_nat BIN_MAX_LOOKUPS)) _ chunks bins _ size with
            | Some fb => Some fb | None => _ end).
  assert (Hr : forall a bi, r = Some (a, bi) ->
            0 <= bi < BIN_COUNT /\ In a (bin_nth bins bi) /\ size <= size_at chunks a).
  { intros a bi Hra. pose proof (get_bin_index_range size) as Hir. subst r.
    destruct (a_pass (Some _) _ chunks bins _ size) as [[a1 b1]|] eqn:P1.
    - inversion Hra; subst. apply a_pass_spec in P1. destruct P1 as (P & Q). split; [lia | exact Q].
    - apply a_pass_spec in Hra. destruct Hra as (P & Q). split; [lia | exact Q]. }
  destruct r as [[a bi]|] eqn:Er.
  2:{ eexists. eexists. eexists. split; [reflexivity|]. left. auto. }
  destruct (Hr a bi eq_refl) as (Hbi & Hin & Hfit). clear Hr.
  pose proof Hinv as [Hpos Htop Ht Hal Hb Hl].
  destruct Hb as (HL & Hb). destruct (Hb bi Hbi) as [_ Hfree]. apply Hfree in Hin.
  destruct Hin as (x & Hx & Hxa & Hxf & Hxi).
  destruct (in_split _ _ Hx) as (pre & post & ->).
  subst a. rewrite (find_chunk_tiled _ _ _ _ _ Ht).
  rewrite (size_at_found _ _ _ _ _ (find_chunk_tiled _ _ _ _ _ Ht)) in Hfit.
  destruct (tiled_mid _ _ _ _ _ Ht) as (m & Ht1 & Hm & Hsx & Ht2 & Hpre & Hpost).
  pose proof (tiled_le _ _ _ Ht1) as Hle1. pose proof (tiled_le _ _ _ Ht2) as Hle2.
  pose proof NODE_eq as HN. pose proof MIN_range as HMINR. pose proof MIN_range as HM.
  assert (H64 : two64 = 18446744073709551616) by reflexivity.
  assert (Hp : w64 (c_addr x + NODE) = c_addr x + NODE) by (apply w64_small; lia).
  unfold wants_split. rewrite (w64_small (size + (NODE + MIN_ALLOC_SIZE))) by lia.
  destruct (c_sz x >? size + (NODE + MIN_ALLOC_SIZE)) eqn:Esp.
  - apply Z.gtb_lt in Esp.
    pose proof (take_chunk_ok hs he pre x post bins live n size true Hinv Hxf ltac:(lia) Hs2 ltac:(cbn iota; lia)) as Hk.
    cbn zeta in Hk. cbn [app] in Hk.
    unfold split_addr, split_rest.
    rewrite Hp, (w64_small (c_addr x + NODE + size)) by lia.
    rewrite (w64_small (c_sz x - size)) by lia. rewrite (w64_small (c_sz x - size - NODE)) by lia.
    eexists. eexists. eexists. split; [reflexivity|]. right. split; [lia|].
    rewrite <- Hxi. exact Hk.
  - rewrite Z.gtb_ltb in Esp. apply Z.ltb_ge in Esp.
    pose proof (take_chunk_ok hs he pre x post bins live n size false Hinv Hxf ltac:(lia) Hs2 ltac:(cbn iota; lia)) as Hk.
    cbn zeta in Hk. cbn [app] in Hk.
    eexists. eexists. eexists. split; [reflexivity|]. right. rewrite Hp. split; [lia|].
    rewrite <- Hxi. exact Hk.
Qed.

(* ---------- the geometry of the region (after repair 23ac203) ---------- *)
Lemma heap_geometry c : hcfg_ok c ->
  h_base c <= heap_start c < h_base c + 16 /\ heap_start c mod 16 = 0 /\
  heap_end c mod 16 = 0 /\ heap_start c + 32 <= heap_end c /\
  h_base c + h_size c - 15 <= heap_end c + 32 <= h_base c + h_size c.
Proof.
  intros (HB & Hfit & Hsz0 & Hmin). unfold heap_end. unfold heap_start in *.
  pose proof NODE_eq as HN. pose proof MIN_range as HMINR. pose proof ALIGN_eq as HA. rewrite HN, HA in *.
  assert (H64 : two64 = 18446744073709551616) by reflexivity.
  destruct (align_forward_spec (h_base c) 16 ltac:(exists 4; split; [lia | reflexivity]) ltac:(lia) ltac:(lia)) as [Hr Hm].
  set (hs := align_forward (h_base c) 16) in *.
  rewrite (align_down16 (h_size c - (hs - h_base c) - 32)) by lia.
  set (X := h_size c - (hs - h_base c) - 32) in *.
  pose proof (Z.mod_pos_bound X 16 ltac:(lia)) as HXm.
  repeat split; try lia; unfold X in *; Z.div_mod_to_equations; lia.
Qed.

(* ---------- initialisation ---------- *)
Lemma heap_init_ok c : hcfg_ok c ->
  exists chunks bins, ha_heap_init c = HOk (mkhastate true chunks bins) /\
    raw_inv (heap_start c) (heap_end c) chunks bins [].
Proof.
  intros (HB & Hfit & Hsz0 & Hmin). unfold ha_heap_init, heap_end. unfold heap_start in *.
  pose proof NODE_eq as HN. pose proof MIN_range as HMINR. pose proof ALIGN_eq as HA. pose proof MIN_range as HMr. rewrite HN, HA in *.
  assert (H64 : two64 = 18446744073709551616) by reflexivity.
  destruct (align_forward_spec (h_base c) 16 ltac:(exists 4; split; [lia | reflexivity]) ltac:(lia) ltac:(lia)) as [Hr Hm].
  set (hs := align_forward (h_base c) 16) in *.
  rewrite (w64_small (hs - h_base c)) by lia.
  change (2 * 32) with 64. rewrite (w64_small 64) by lia.
  rewrite (w64_small (hs - h_base c + 64)) by lia.
  assert (E : (h_size c <? hs - h_base c + 64) = false) by (apply Z.ltb_ge; lia). rewrite E.
  rewrite (w64_small (h_size c - (hs - h_base c))) by lia.
  rewrite (w64_small (h_size c - (hs - h_base c) - 32)) by lia.
  rewrite (align_down16 (h_size c - (hs - h_base c) - 32)) by lia.
  set (X := h_size c - (hs - h_base c) - 32) in *.
  pose proof (Z.mod_pos_bound X 16 ltac:(lia)) as HXm.
  assert (HX16 : (X - X mod 16) mod 16 = 0) by (Z.div_mod_to_equations; lia).
  assert (HX32 : 32 <= X - X mod 16) by (unfold X in *; Z.div_mod_to_equations; lia).
  rewrite (w64_small (X - X mod 16 - 32)) by lia.
  eexists. eexists. split; [reflexivity|].
  split.
  - lia.
  - lia.
  - cbn [tiled c_addr c_sz]. rewrite HN. repeat split; lia.
  - constructor; [exact Hm | constructor].
  - eapply bins_inv_ext; [|apply bins_inv_add; [apply empty_bins_inv | tauto]].
    intros a i. cbn beta. rewrite free_in_cons, free_in_nil. cbn [c_addr c_sz c_used].
    split.
    + intros [[] | [-> ->]]. left. auto.
    + intros [(<- & _ & <-) | []]. right. auto.
  - split; [constructor|]. split; [constructor|]. intros x [<- | []] Hu. discriminate.
Qed.

(* ---------- removing several free chunks from their bins ---------- *)
Definition bins_remove_chunks (bins : list (list Z)) (l : list chunk) : list (list Z) :=
  fold_left (fun b y => bins_remove b (get_bin_index (c_sz y)) (c_addr y)) l bins.

Lemma bins_remove_chunks_inv hs he chunks : forall fr bins (F : Z -> Z -> Prop),
  tiled hs chunks he ->
  (forall a j, F a j -> free_in chunks a j) ->
  (forall y, In y fr -> In y chunks) ->
  bins_inv bins F ->
  bins_inv (bins_remove_chunks bins fr) (fun a j => F a j /\ ~ In a (map c_addr fr)).
Proof.
  induction fr as [|y r IH]; intros bins F Ht HF Hsub Hb; cbn [bins_remove_chunks fold_left map In].
  - eapply bins_inv_ext; [|exact Hb]. intros a j. tauto.
  - fold (bins_remove_chunks (bins_remove bins (get_bin_index (c_sz y)) (c_addr y)) r).
    eapply bins_inv_ext; [|apply (IH _ (fun a j => F a j /\ a <> c_addr y) Ht)].
    + intros a j. cbn beta. split; [intros [[H1 H2] H3]; split; [exact H1 | intros [H | H]; [apply H2; symmetry; exact H | exact (H3 H)]] |].
      intros [H1 H2]. split; [split; [exact H1 | intros ->; apply H2; left; reflexivity] | intros H; apply H2; right; exact H].
    + intros a j [H _]. apply HF. exact H.
    + intros z Hz. apply Hsub. right. exact Hz.
    + apply bins_inv_remove; [exact Hb | apply get_bin_index_range |].
      intros j Hj. apply HF in Hj. destruct Hj as (z & Hz & Hza & _ & Hzj).
      assert (z = y) by (eapply tiled_unique; [exact Ht | exact Hz | apply Hsub; left; reflexivity | exact Hza]).
      subst z. auto.
Qed.

Lemma live_other_addr (live : list blk) i b b' :
  NoDup (map b_addr live) -> nth_error live i = Some b -> In b' (remove_nth i live) -> b_addr b' <> b_addr b.
Proof.
  intros Hnd Hn Hb' E.
  pose proof (perm_nth_error live i b Hn) as Hp.
  assert (Hnd2 : NoDup (b_addr b :: map b_addr (remove_nth i live))).
  { eapply Permutation.Permutation_NoDup; [exact Hp | exact Hnd]. }
  inversion Hnd2 as [|? ? Hnot _]; subst. apply Hnot. rewrite <- E. apply in_map. exact Hb'.
Qed.

Lemma live_in_other (live : list blk) i b a :
  nth_error live i = Some b -> In a (map b_addr live) -> a <> b_addr b -> In a (map b_addr (remove_nth i live)).
Proof.
  intros Hn Ha Hne.
  pose proof (perm_nth_error live i b Hn) as Hp.
  eapply Permutation.Permutation_in in Ha; [|exact Hp]. destruct Ha as [<- | Ha]; [contradiction | exact Ha].
Qed.

Lemma nodup_remove_nth (live : list blk) i : NoDup (map b_addr live) -> NoDup (map b_addr (remove_nth i live)).
Proof.
  revert i. induction live as [|x r IH]; intros i H; destruct i; cbn in *; auto.
  - inversion H; auto.
  - inversion H as [|? ? Hx Hr]; subst. constructor; [|apply IH; exact Hr].
    intros Hin. apply Hx. apply in_map_iff in Hin. destruct Hin as (z & <- & Hz).
    apply in_map. eapply nth_error_remove_In. exact Hz.
Qed.

(* ---------- dealloc: the used chunk x and its free neighbours become one free chunk ---------- *)
Lemma coalesce_ok hs he A L x R B bins live i b :
  raw_inv hs he (A ++ (L ++ x :: R) ++ B) bins live ->
  Forall (fun y => c_used y = false) (L ++ R) -> c_used x = true ->
  nth_error live i = Some b -> b_addr b = c_addr x + NODE ->
  exists m m', tiled hs A m /\ tiled m (L ++ x :: R) m' /\ tiled m' B he /\
    raw_inv hs he (A ++ [mkchunk m (m' - m - NODE) false] ++ B)
            (bins_add (bins_remove_chunks bins (L ++ R)) (m' - m - NODE) m) (remove_nth i live).
Proof.
  intros [Hpos Htop Ht Hal Hb Hl] Hfr Hux Hn Hba.
  pose proof NODE_eq as HN. pose proof MIN_range as HMINR.
  pose proof Ht as Ht'. apply tiled_app in Ht'. destruct Ht' as (m & HtA & Ht').
  apply tiled_app in Ht'. destruct Ht' as (m' & HtS & HtB).
  exists m, m'. split; [exact HtA|]. split; [exact HtS|]. split; [exact HtB|].
  set (seg := L ++ x :: R) in *.
  assert (Hseg_first : exists f rest, seg = f :: rest /\ c_addr f = m /\ m + NODE <= m').
  { subst seg. destruct L as [|l0 L']; cbn [app] in *.
    - exists x, R. cbn [tiled] in HtS. destruct HtS as (E & Hs & Hr). apply tiled_le in Hr. repeat split; auto; lia.
    - exists l0, (L' ++ x :: R). cbn [tiled] in HtS. destruct HtS as (E & Hs & Hr). apply tiled_le in Hr. repeat split; auto; lia. }
  destruct Hseg_first as (f & rest & Eseg & Hfa & Hmm').
  pose proof (tiled_bounds _ _ _ HtA) as HBA. rewrite Forall_forall in HBA.
  pose proof (tiled_bounds _ _ _ HtS) as HBS. rewrite Forall_forall in HBS.
  pose proof (tiled_bounds _ _ _ HtB) as HBB. rewrite Forall_forall in HBB.
  (* members of seg: x or free *)
  assert (Hseg_mem : forall y, In y seg -> y = x \/ (c_used y = false /\ In y (L ++ R))).
  { intros y Hy. subst seg. apply in_app_or in Hy. cbn [In] in Hy. rewrite Forall_forall in Hfr.
    destruct Hy as [Hy | [<- | Hy]]; auto; right; (split; [apply Hfr|]); apply in_or_app; auto. }
  assert (HLR_seg : forall y, In y (L ++ R) -> In y seg).
  { intros y Hy. subst seg. apply in_app_or in Hy. apply in_or_app. cbn [In]. tauto. }
  assert (Hxseg : In x seg) by (subst seg; apply in_or_app; right; left; reflexivity).
  split; try assumption.
  - eapply tiled_rebuild; [exact HtA | | exact HtB]. cbn [tiled c_addr c_sz]. repeat split; lia.
  - unfold aligned_chunks in *. rewrite Forall_forall in *. intros y Hy. apply in_mid in Hy. cbn [In] in Hy.
    destruct Hy as [Hy | [[<- | []] | Hy]].
    + apply Hal. apply in_mid. tauto.
    + cbn [c_addr]. rewrite <- Hfa. apply Hal. apply in_mid. right. left. rewrite Eseg. left. reflexivity.
    + apply Hal. apply in_mid. tauto.
  - eapply bins_inv_ext; [|apply bins_inv_add; [apply (bins_remove_chunks_inv hs he _ (L ++ R) bins _ Ht (fun a j H => H)); [|exact Hb] |]].
    + intros a j. cbn beta. cbn [app]. rewrite !free_in_app, free_in_cons. cbn [c_addr c_sz c_used].
      split.
      * intros [[[HA' | [HS | HB']] Hnot] | [-> ->]].
        -- left. exact HA'.
        -- exfalso. destruct HS as (y & Hy & Hya & Hyf & _).
           destruct (Hseg_mem y Hy) as [-> | [_ HyLR]]; [congruence|].
           apply Hnot. rewrite <- Hya. apply in_map. exact HyLR.
        -- right. right. exact HB'.
        -- right. left. auto.
      * intros [HA' | [(<- & _ & <-) | HB']].
        -- left. split; [left; exact HA'|]. intros Hin. apply in_map_iff in Hin. destruct Hin as (y & Hya & Hy).
           destruct HA' as (z & Hz & Hza & _). destruct (HBA z Hz) as (_ & Z1 & Z2).
           destruct (HBS y (HLR_seg y Hy)) as (Y0 & _). lia.
        -- right. auto.
        -- left. split; [right; right; exact HB'|]. intros Hin. apply in_map_iff in Hin. destruct Hin as (y & Hya & Hy).
           destruct HB' as (z & Hz & Hza & _). destruct (HBB z Hz) as (Z0 & _).
           destruct (HBS y (HLR_seg y Hy)) as (_ & Y1 & Y2). lia.
    + intros y Hy. apply in_mid. right. left. apply HLR_seg. exact Hy.
    + (* m is no longer the address of a listed chunk *)
      intros j [(y & Hy & Hya & Hyf & _) Hnot].
      apply in_mid in Hy. destruct Hy as [Hy | [Hy | Hy]].
      * destruct (HBA y Hy) as (_ & Z1 & Z2). lia.
      * destruct (Hseg_mem y Hy) as [-> | [_ HyLR]]; [congruence|].
        apply Hnot. rewrite <- Hya. apply in_map. exact HyLR.
      * destruct (HBB y Hy) as (Z0 & _). lia.
  - destruct Hl as (HF & Hnd & Hcomp).
    assert (Hother : forall y, In y (A ++ seg ++ B) -> c_used y = true -> y <> x -> In y A \/ In y B).
    { intros y Hy Hu Hne. apply in_mid in Hy. destruct Hy as [Hy | [Hy | Hy]]; auto.
      destruct (Hseg_mem y Hy) as [-> | [Hf _]]; [contradiction | congruence]. }
    split; [|split].
    + rewrite Forall_forall in *. intros b' Hb'.
      destruct (HF b' (nth_error_remove_In _ _ _ Hb')) as (y & Hy & Hu & Hya & Hysz).
      exists y. split; [|auto].
      assert (Hne : y <> x).
      { intros ->. apply (live_other_addr live i b b' Hnd Hn Hb'). congruence. }
      apply in_mid. destruct (Hother y Hy Hu Hne); tauto.
    + apply nodup_remove_nth. exact Hnd.
    + intros y Hy Hu. apply in_mid in Hy. cbn [In] in Hy.
      assert (Hyc : In y (A ++ seg ++ B) /\ c_addr y <> c_addr x).
      { destruct Hy as [Hy | [[<- | []] | Hy]]; [| discriminate |].
        - split; [apply in_mid; tauto|]. destruct (HBA y Hy) as (_ & Z1 & Z2). destruct (HBS x Hxseg) as (X0 & _). lia.
        - split; [apply in_mid; tauto|]. destruct (HBB y Hy) as (Z0 & _). destruct (HBS x Hxseg) as (_ & X1 & X2). lia. }
      destruct Hyc as [Hyc Hne].
      apply (live_in_other live i b _ Hn (Hcomp y Hyc Hu)). rewrite Hba. lia.
Qed.

Ltac w64s :=
  repeat match goal with
         | |- context [w64 ?e] =>
             lazymatch e with
             | context [w64 _] => fail
             | _ => rewrite (w64_small e) by lia
             end
         end.

Ltac feq :=
  repeat match goal with
         | |- @eq (list _) _ _ => f_equal
         | |- @eq chunk _ _ => f_equal
         end.

Lemma raw_inv_eq hs he ch ch' b b' live :
  ch = ch' -> b = b' -> raw_inv hs he ch b live -> raw_inv hs he ch' b' live.
Proof. intros -> ->. auto. Qed.

(* facts about the chunk behind a live block *)
Lemma live_chunk hs he chunks bins live i b :
  raw_inv hs he chunks bins live -> nth_error live i = Some b ->
  exists pre x post, chunks = pre ++ x :: post /\ c_used x = true /\ b_addr b = c_addr x + NODE /\
    0 < b_size b <= c_sz x /\ (b_addr b =? 0) = false /\ ptr_misaligned (b_addr b) = false /\
    w64 (b_addr b - NODE) = c_addr x /\
    find_chunk (c_addr x) (pre ++ x :: post) = Some (pre, x, post).
Proof.
  intros [Hpos Htop Ht Hal Hb Hl] Hn.
  destruct (lm_block _ _ _ Hl (nth_error_In _ _ Hn)) as (x & Hx & Hu & Ha & Hsz).
  destruct (in_split _ _ Hx) as (pre & post & ->).
  exists pre, x, post. pose proof NODE_eq as HN. pose proof MIN_range as HMINR.
  pose proof (tiled_bounds _ _ _ Ht) as HB. rewrite Forall_forall in HB. destruct (HB x Hx) as (X0 & X1 & X2).
  assert (H64 : two64 = 18446744073709551616) by reflexivity.
  repeat split; auto; try lia.
  - unfold ptr_misaligned. rewrite land_mask_mod by apply align16_pow2. rewrite ALIGN_eq.
    unfold aligned_chunks in Hal. rewrite Forall_forall in Hal. pose proof (Hal x Hx) as Hm.
    assert ((b_addr b) mod 16 = 0) by lia. rewrite H. reflexivity.
  - rewrite Ha. replace (c_addr x + NODE - NODE) with (c_addr x) by lia. apply w64_small. lia.
  - eapply find_chunk_tiled. exact Ht.
Qed.

Lemma ha_dealloc_raw_ok hs he chunks bins live i b :
  raw_inv hs he chunks bins live -> nth_error live i = Some b ->
  exists ch' b', ha_dealloc_raw chunks bins (b_addr b) = HOk (ch', b') /\
                 raw_inv hs he ch' b' (remove_nth i live).
Proof.
  intros Hinv Hn.
  destruct (live_chunk _ _ _ _ _ _ _ Hinv Hn) as (pre & x & post & -> & Hu & Ha & Hsz & Hnz & Hmis & Hw & Hfind).
  unfold ha_dealloc_raw. rewrite Hnz, Hmis, Hw, Hfind, Hu. cbn [negb].
  pose proof NODE_eq as HN. pose proof MIN_range as HMINR.
  assert (H64 : two64 = 18446744073709551616) by reflexivity.
  pose proof (ri_top _ _ _ _ _ Hinv) as Htop. pose proof (ri_pos _ _ _ _ _ Hinv) as Hpos.
  destruct (split_last pre) as [[pre0 pv]|] eqn:Esl.
  - apply split_last_spec in Esl. subst pre.
    destruct (c_used pv) eqn:Eupv.
    + (* previous chunk used *)
      destruct post as [|nx post'].
      * pose proof (coalesce_ok hs he (pre0 ++ [pv]) [] x [] [] bins live i b) as Hk.
        cbn [app] in Hk. try rewrite app_nil_r in Hk.
        destruct (Hk Hinv ltac:(constructor) Hu Hn Ha) as (m & m' & HtA & HtS & HtB & Hinv').
        cbn [tiled] in HtS, HtB. destruct HtS as (E1 & E2 & E3). subst m'.
        pose proof (tiled_le _ _ _ HtA).
        eexists. eexists. split; [reflexivity|].
        eapply raw_inv_eq; [| |exact Hinv']; cbn [bins_remove_chunks fold_left c_addr c_sz app]; feq; lia.
      * destruct (c_used nx) eqn:Eunx.
        -- pose proof (coalesce_ok hs he (pre0 ++ [pv]) [] x [] (nx :: post') bins live i b) as Hk.
           cbn [app] in Hk.
           destruct (Hk Hinv ltac:(constructor) Hu Hn Ha) as (m & m' & HtA & HtS & HtB & Hinv').
           cbn [tiled] in HtS. destruct HtS as (E1 & E2 & E3). subst m'.
           eexists. eexists. split; [reflexivity|].
           eapply raw_inv_eq; [| |exact Hinv']; cbn [bins_remove_chunks fold_left c_addr c_sz app]; feq; lia.
        -- pose proof (coalesce_ok hs he (pre0 ++ [pv]) [] x [nx] post' bins live i b) as Hk.
           cbn [app] in Hk.
           destruct (Hk Hinv ltac:(repeat constructor; exact Eunx) Hu Hn Ha) as (m & m' & HtA & HtS & HtB & Hinv').
           cbn [tiled] in HtS. destruct HtS as (E1 & E2 & E3 & E4 & E5). subst m'.
           pose proof (tiled_le _ _ _ HtA). pose proof (tiled_le _ _ _ HtB).
           eexists. eexists. split; [reflexivity|].
           eapply raw_inv_eq; [| |exact Hinv']; cbn [bins_remove_chunks fold_left c_addr c_sz app];
             w64s; feq; lia.
    + (* previous chunk free *)
      destruct post as [|nx post'].
      * pose proof (coalesce_ok hs he pre0 [pv] x [] [] bins live i b) as Hk.
        cbn [app] in Hk. rewrite <- app_assoc in Hinv. cbn [app] in Hinv.
        destruct (Hk Hinv ltac:(repeat constructor; exact Eupv) Hu Hn Ha) as (m & m' & HtA & HtS & HtB & Hinv').
        cbn [tiled] in HtS, HtB. destruct HtS as (E1 & E2 & E3 & E4 & E5). subst m'.
        pose proof (tiled_le _ _ _ HtA).
        eexists. eexists. split; [reflexivity|].
        eapply raw_inv_eq; [| |exact Hinv']; cbn [bins_remove_chunks fold_left c_addr c_sz app];
          w64s; feq; lia.
      * destruct (c_used nx) eqn:Eunx.
        -- pose proof (coalesce_ok hs he pre0 [pv] x [] (nx :: post') bins live i b) as Hk.
           cbn [app] in Hk. rewrite <- app_assoc in Hinv. cbn [app] in Hinv.
           destruct (Hk Hinv ltac:(repeat constructor; exact Eupv) Hu Hn Ha) as (m & m' & HtA & HtS & HtB & Hinv').
           cbn [tiled] in HtS. destruct HtS as (E1 & E2 & E3 & E4 & E5). subst m'.
           pose proof (tiled_le _ _ _ HtA). pose proof (tiled_le _ _ _ HtB).
           eexists. eexists. split; [reflexivity|].
           eapply raw_inv_eq; [| |exact Hinv']; cbn [bins_remove_chunks fold_left c_addr c_sz app];
             w64s; feq; lia.
        -- pose proof (coalesce_ok hs he pre0 [pv] x [nx] post' bins live i b) as Hk.
           cbn [app] in Hk. rewrite <- app_assoc in Hinv. cbn [app] in Hinv.
           destruct (Hk Hinv ltac:(repeat constructor; assumption) Hu Hn Ha) as (m & m' & HtA & HtS & HtB & Hinv').
           cbn [tiled] in HtS. destruct HtS as (E1 & E2 & E3 & E4 & E5 & E6 & E7). subst m'.
           pose proof (tiled_le _ _ _ HtA). pose proof (tiled_le _ _ _ HtB).
           eexists. eexists. split; [reflexivity|].
           eapply raw_inv_eq; [| |exact Hinv']; cbn [bins_remove_chunks fold_left c_addr c_sz app];
             w64s; feq; lia.
  - apply split_last_none in Esl. subst pre. cbn [app] in *.
    destruct post as [|nx post'].
    + pose proof (coalesce_ok hs he [] [] x [] [] bins live i b) as Hk.
      cbn [app] in Hk.
      destruct (Hk Hinv ltac:(constructor) Hu Hn Ha) as (m & m' & HtA & HtS & HtB & Hinv').
      cbn [tiled] in HtS, HtB. destruct HtS as (E1 & E2 & E3). subst m'.
      eexists. eexists. split; [reflexivity|].
      eapply raw_inv_eq; [| |exact Hinv']; cbn [bins_remove_chunks fold_left c_addr c_sz app]; feq; lia.
    + destruct (c_used nx) eqn:Eunx.
      * pose proof (coalesce_ok hs he [] [] x [] (nx :: post') bins live i b) as Hk.
        cbn [app] in Hk.
        destruct (Hk Hinv ltac:(constructor) Hu Hn Ha) as (m & m' & HtA & HtS & HtB & Hinv').
        cbn [tiled] in HtS. destruct HtS as (E1 & E2 & E3). subst m'.
        eexists. eexists. split; [reflexivity|].
        eapply raw_inv_eq; [| |exact Hinv']; cbn [bins_remove_chunks fold_left c_addr c_sz app]; feq; lia.
      * pose proof (coalesce_ok hs he [] [] x [nx] post' bins live i b) as Hk.
        cbn [app] in Hk.
        destruct (Hk Hinv ltac:(repeat constructor; exact Eunx) Hu Hn Ha) as (m & m' & HtA & HtS & HtB & Hinv').
        cbn [tiled] in HtS, HtA. destruct HtS as (E1 & E2 & E3 & E4 & E5). subst m'.
        pose proof (tiled_le _ _ _ HtB).
        eexists. eexists. split; [reflexivity|].
        eapply raw_inv_eq; [| |exact Hinv']; cbn [bins_remove_chunks fold_left c_addr c_sz app];
          w64s; feq; lia.
Qed.

(* ---------- realloc building blocks ---------- *)
(* (3) the client's view of a block changes size inside its chunk *)
Lemma resize_live_ok hs he chunks bins live i b n :
  raw_inv hs he chunks bins live -> nth_error live i = Some b ->
  (forall x, In x chunks -> c_addr x + NODE = b_addr b -> 0 < n <= c_sz x) ->
  raw_inv hs he chunks bins (mkblk (b_addr b) n :: remove_nth i live).
Proof.
  intros [Hpos Htop Ht Hal Hb Hl] Hn Hfit. split; try assumption.
  destruct Hl as (HF & Hnd & Hcomp).
  pose proof (perm_nth_error live i b Hn) as Hp.
  split; [|split].
  - constructor.
    + rewrite Forall_forall in HF. destruct (HF b (nth_error_In _ _ Hn)) as (x & Hx & Hu & Ha & Hsz).
      exists x. cbn [b_addr b_size]. repeat split; auto; apply (Hfit x Hx); lia.
    + apply Forall_remove_nth. exact HF.
  - cbn [map b_addr]. eapply Permutation.Permutation_NoDup; [exact Hp | exact Hnd].
  - intros x Hx Hu. cbn [map b_addr]. eapply Permutation.Permutation_in; [exact Hp|]. apply Hcomp; assumption.
Qed.

(* (1) a used chunk absorbs its free successor *)
Lemma absorb_next_ok hs he A x nx B bins live :
  raw_inv hs he (A ++ x :: nx :: B) bins live -> c_used x = true -> c_used nx = false ->
  raw_inv hs he (A ++ mkchunk (c_addr x) (c_sz x + NODE + c_sz nx) true :: B)
          (bins_remove bins (get_bin_index (c_sz nx)) (c_addr nx)) live.
Proof.
  intros [Hpos Htop Ht Hal Hb Hl] Hux Hfn. pose proof NODE_eq as HN. pose proof MIN_range as HMINR.
  pose proof Ht as Ht'. apply tiled_app in Ht'. destruct Ht' as (m & HtA & HtS).
  cbn [tiled] in HtS. destruct HtS as (E1 & E2 & E3 & E4 & HtB).
  pose proof (tiled_bounds _ _ _ HtA) as HBA. rewrite Forall_forall in HBA.
  pose proof (tiled_bounds _ _ _ HtB) as HBB. rewrite Forall_forall in HBB.
  assert (Hnx_in : In nx (A ++ x :: nx :: B)) by (apply in_or_app; right; right; left; reflexivity).
  split; try assumption.
  - apply tiled_app. exists m. split; [exact HtA|]. cbn [tiled c_addr c_sz]. repeat split; try lia.
    replace (m + NODE + (c_sz x + NODE + c_sz nx)) with (m + NODE + c_sz x + NODE + c_sz nx) by lia. exact HtB.
  - unfold aligned_chunks in *. rewrite Forall_forall in *. intros y Hy.
    apply in_app_or in Hy. cbn [In] in Hy. destruct Hy as [Hy | [<- | Hy]].
    + apply Hal. apply in_or_app. tauto.
    + cbn [c_addr]. apply Hal. apply in_or_app. right. left. reflexivity.
    + apply Hal. apply in_or_app. right. right. right. exact Hy.
  - eapply bins_inv_ext; [|apply bins_inv_remove; [exact Hb | apply get_bin_index_range |]].
    + intros a j. cbn beta. rewrite !free_in_app, !free_in_cons. cbn [c_addr c_sz c_used]. split.
      * intros [[HA' | [(_ & Hd & _) | [(<- & _) | HB']]] Hne]; try congruence; [left; exact HA' | right; right; exact HB'].
      * intros [HA' | [(_ & Hd & _) | HB']]; try discriminate.
        -- split; [left; exact HA'|]. destruct HA' as (z & Hz & <- & _). destruct (HBA z Hz) as (_ & Z1 & Z2). lia.
        -- split; [right; right; right; exact HB'|]. destruct HB' as (z & Hz & <- & _). destruct (HBB z Hz) as (Z0 & _). lia.
    + intros j (z & Hz & Hza & _ & Hzj).
      assert (z = nx) by (eapply tiled_unique; [exact Ht | exact Hz | exact Hnx_in | exact Hza]). subst z. auto.
  - destruct Hl as (HF & Hnd & Hcomp). split; [|split; [exact Hnd|]].
    + rewrite Forall_forall in *. intros b' Hb'. destruct (HF b' Hb') as (y & Hy & Hu & Hya & Hysz).
      apply in_app_or in Hy. cbn [In] in Hy. destruct Hy as [Hy | [<- | [<- | Hy]]]; try congruence.
      * exists y. split; [apply in_or_app; tauto | auto].
      * eexists. split; [apply in_or_app; right; left; reflexivity|]. cbn [c_addr c_sz c_used]. repeat split; auto; lia.
      * exists y. split; [apply in_or_app; right; right; exact Hy | auto].
    + intros y Hy Hu. apply in_app_or in Hy. cbn [In] in Hy. destruct Hy as [Hy | [<- | Hy]].
      * apply Hcomp; [apply in_or_app; tauto | exact Hu].
      * cbn [c_addr]. apply (Hcomp x); [apply in_or_app; right; left; reflexivity | exact Hux].
      * apply Hcomp; [apply in_or_app; right; right; right; exact Hy | exact Hu].
Qed.

(* (2) a used chunk is split; the remainder becomes a free chunk pushed on its bin *)
Lemma split_used_ok hs he A x B bins live size :
  raw_inv hs he (A ++ x :: B) bins live -> c_used x = true ->
  size mod 16 = 0 -> 0 <= size -> size + NODE <= c_sz x ->
  (forall b, In b live -> b_addr b = c_addr x + NODE -> b_size b <= size) ->
  raw_inv hs he (A ++ mkchunk (c_addr x) size true :: mkchunk (c_addr x + NODE + size) (c_sz x - size - NODE) false :: B)
          (bins_add bins (c_sz x - size - NODE) (c_addr x + NODE + size)) live.
Proof.
  intros [Hpos Htop Ht Hal Hb Hl] Hux Hsz Hs0 Hfit Hblk. pose proof NODE_eq as HN. pose proof MIN_range as HMINR.
  destruct (tiled_mid _ _ _ _ _ Ht) as (m & Ht1 & Hm & Hs & Ht2 & Hpre & Hpost).
  assert (Hxin : In x (A ++ x :: B)) by (apply in_or_app; right; left; reflexivity).
  split; try assumption.
  - apply tiled_app. exists m. split; [exact Ht1|]. cbn [tiled c_addr c_sz]. repeat split; try lia.
    replace (m + NODE + size + NODE + (c_sz x - size - NODE)) with (m + NODE + c_sz x) by lia. exact Ht2.
  - unfold aligned_chunks in *. rewrite Forall_forall in *. intros y Hy.
    pose proof (Hal x Hxin) as Hax.
    apply in_app_or in Hy. cbn [In] in Hy. destruct Hy as [Hy | [<- | [<- | Hy]]]; cbn [c_addr].
    + apply Hal. apply in_or_app. tauto.
    + exact Hax.
    + lia.
    + apply Hal. apply in_or_app. right. right. exact Hy.
  - eapply bins_inv_ext; [|apply bins_inv_add; [exact Hb|]].
    + intros a j. cbn beta. rewrite !free_in_app, !free_in_cons. cbn [c_addr c_sz c_used]. split.
      * intros [[HA' | [(_ & Hd & _) | HB']] | [-> ->]]; try congruence; [left; exact HA' | right; right; right; exact HB' | right; right; left; auto].
      * intros [HA' | [(_ & Hd & _) | [(<- & _ & <-) | HB']]]; try discriminate;
          [left; left; exact HA' | right; auto | left; right; right; exact HB'].
    + intros j (y & Hy & Hya & _).
      apply in_app_or in Hy. cbn [In] in Hy. destruct Hy as [Hy | [<- | Hy]].
      * destruct (Hpre y Hy) as (? & ? & ?). lia.
      * lia.
      * destruct (Hpost y Hy) as (? & ? & ?). lia.
  - destruct Hl as (HF & Hnd & Hcomp). split; [|split; [exact Hnd|]].
    + rewrite Forall_forall in *. intros b' Hb'. destruct (HF b' Hb') as (y & Hy & Hu & Hya & Hysz).
      apply in_app_or in Hy. cbn [In] in Hy. destruct Hy as [Hy | [<- | Hy]].
      * exists y. split; [apply in_or_app; tauto | auto].
      * eexists. split; [apply in_or_app; right; left; reflexivity|]. cbn [c_addr c_sz c_used].
        pose proof (Hblk b' Hb' Hya). repeat split; auto; lia.
      * exists y. split; [apply in_or_app; right; right; right; exact Hy | auto].
    + intros y Hy Hu. apply in_app_or in Hy. cbn [In] in Hy. destruct Hy as [Hy | [<- | [<- | Hy]]]; try discriminate.
      * apply Hcomp; [apply in_or_app; tauto | exact Hu].
      * cbn [c_addr]. apply (Hcomp x Hxin Hux).
      * apply Hcomp; [apply in_or_app; right; right; exact Hy | exact Hu].
Qed.

(* the tail of realloc on the used chunk x owning live block i *)
Lemma shrink_ok hs he pre x post bins live i b n size :
  raw_inv hs he (pre ++ x :: post) bins live -> c_used x = true ->
  nth_error live i = Some b -> b_addr b = c_addr x + NODE ->
  0 < n <= size -> size mod 16 = 0 -> size <= c_sz x ->
  exists ch' b', ha_shrink pre x post bins size (b_addr b) = (ch', b', b_addr b) /\
                 raw_inv hs he ch' b' (mkblk (b_addr b) n :: remove_nth i live).
Proof.
  intros Hinv Hux Hn Hba Hn0 Hsm Hfit. pose proof NODE_eq as HN. pose proof MIN_range as HM.
  assert (H64 : two64 = 18446744073709551616) by reflexivity.
  pose proof (ri_tiled _ _ _ _ _ Hinv) as Ht. pose proof (ri_top _ _ _ _ _ Hinv) as Htop. pose proof (ri_pos _ _ _ _ _ Hinv) as Hpos.
  destruct (tiled_mid _ _ _ _ _ Ht) as (m & Ht1 & Hm & Hs & Ht2 & Hpre & Hpost).
  pose proof (tiled_le _ _ _ Ht1). pose proof (tiled_le _ _ _ Ht2).
  assert (Hres : raw_inv hs he (pre ++ x :: post) bins (mkblk (b_addr b) n :: remove_nth i live)).
  { apply resize_live_ok; [exact Hinv | exact Hn |].
    intros y Hy Hya.
    assert (y = x) by (eapply tiled_unique; [exact Ht | exact Hy | apply in_or_app; right; left; reflexivity | lia]).
    subst y. lia. }
  assert (Hblk : forall b', In b' (mkblk (b_addr b) n :: remove_nth i live) -> b_addr b' = c_addr x + NODE -> b_size b' <= size).
  { intros b' [<- | Hb'] Hb'a; cbn [b_size]; [lia|].
    exfalso. pose proof (ri_live _ _ _ _ _ Hinv) as (_ & Hnd & _).
    apply (live_other_addr live i b b' Hnd Hn Hb'). lia. }
  unfold ha_shrink, wants_split. rewrite (w64_small (size + (NODE + MIN_ALLOC_SIZE))) by lia.
  destruct ((c_sz x >? size) && (c_sz x >? size + (NODE + MIN_ALLOC_SIZE))) eqn:E.
  2:{ eexists. eexists. split; [reflexivity|]. exact Hres. }
  apply andb_prop in E. destruct E as [_ E]. apply Z.gtb_lt in E.
  destruct post as [|nx post'].
  - eexists. eexists. split; [reflexivity|].
    unfold split_addr, split_rest. w64s.
    eapply raw_inv_eq; [| |apply (split_used_ok hs he pre x [] bins _ size Hres Hux Hsm ltac:(lia) ltac:(lia) Hblk)]; feq; lia.
  - destruct (c_used nx) eqn:Eunx.
    + eexists. eexists. split; [reflexivity|].
      unfold split_addr, split_rest. w64s.
      eapply raw_inv_eq; [| |apply (split_used_ok hs he pre x (nx :: post') bins _ size Hres Hux Hsm ltac:(lia) ltac:(lia) Hblk)]; feq; lia.
    + (* the remainder is merged with the free successor: absorb, then split *)
      cbn [tiled] in Ht2. destruct Ht2 as (Hnxa & Hnxs & Ht3). pose proof (tiled_le _ _ _ Ht3).
      pose proof (absorb_next_ok hs he pre x nx post' bins _ Hres Hux Eunx) as Hab.
      set (x' := mkchunk (c_addr x) (c_sz x + NODE + c_sz nx) true) in *.
      pose proof (split_used_ok hs he pre x' post' _ _ size Hab eq_refl Hsm ltac:(lia) ltac:(cbn; lia) Hblk) as Hsp.
      eexists. eexists. split; [reflexivity|].
      unfold split_addr, split_rest. w64s.
      eapply raw_inv_eq; [| |exact Hsp]; cbn [c_addr c_sz x']; feq; lia.
Qed.

(* realloc by moving: allocate the aligned size, then release the old block *)
Lemma move_ok hs he chunks bins live i b n size :
  raw_inv hs he chunks bins live -> nth_error live i = Some b ->
  0 < n <= size -> size < two64 ->
  exists ch' b' q,
    (let '(ch, b1, newp) := ha_alloc_raw chunks bins size in
     if newp =? 0 then HOk (ch, b1, 0)
     else match ha_dealloc_raw ch b1 (b_addr b) with
          | HOk (ch2, b2) => HOk (ch2, b2, newp)
          | HPanic => HPanic
          | HFuel => HFuel
          end) = HOk (ch', b', q) /\
    ((q = 0 /\ ch' = chunks /\ b' = bins) \/
     (q <> 0 /\ raw_inv hs he ch' b' (mkblk q n :: remove_nth i live))).
Proof.
  intros Hinv Hn Hn0 Hbig.
  destruct (ha_alloc_raw_ok hs he chunks bins live size Hinv ltac:(lia)) as (ch & b1 & newp & Ha & Hcase).
  rewrite Ha. destruct Hcase as [(-> & -> & ->) | (Hnz & Hinv1)].
  - cbn [Z.eqb]. eexists. eexists. eexists. split; [reflexivity|]. left. auto.
  - apply Z.eqb_neq in Hnz. rewrite Hnz. apply Z.eqb_neq in Hnz.
    destruct (ha_dealloc_raw_ok hs he ch b1 (mkblk newp size :: live) (S i) b Hinv1 Hn) as (ch2 & b2 & Hd & Hinv2).
    rewrite Hd. eexists. eexists. eexists. split; [reflexivity|]. right. split; [exact Hnz|].
    cbn [remove_nth] in Hinv2.
    pose proof (resize_live_ok hs he ch2 b2 (mkblk newp size :: remove_nth i live) O (mkblk newp size) n Hinv2 eq_refl) as Hr.
    cbn [remove_nth b_addr] in Hr. apply Hr.
    intros y Hy Hya.
    pose proof (ri_live _ _ _ _ _ Hinv2) as (HF & _ & _). inversion HF as [|? ? (z & Hz & Hzu & Hza & Hzs) _]; subst.
    cbn [b_addr b_size] in *.
    assert (y = z) by (eapply tiled_unique; [exact (ri_tiled _ _ _ _ _ Hinv2) | exact Hy | exact Hz | pose proof NODE_eq; lia]).
    subst z. lia.
Qed.

Lemma ha_realloc_raw_ok hs he chunks bins live i b n :
  raw_inv hs he chunks bins live -> nth_error live i = Some b -> 0 < n < two64 ->
  exists ch' b' q, ha_realloc_raw chunks bins (b_addr b) n = HOk (ch', b', q) /\
    ((q = 0 /\ ch' = chunks /\ b' = bins) \/
     (q <> 0 /\ raw_inv hs he ch' b' (mkblk q n :: remove_nth i live))).
Proof.
  intros Hinv Hn Hn0.
  destruct (live_chunk _ _ _ _ _ _ _ Hinv Hn) as (pre & x & post & -> & Hu & Ha & Hsz & Hnz & Hmis & Hw & Hfind).
  unfold ha_realloc_raw. rewrite Hnz.
  assert (E0 : (n =? 0) = false) by (apply Z.eqb_neq; lia). rewrite E0, Hmis, Hw, Hfind, Hu. cbn [negb].
  destruct (size_too_large n) eqn:Etl.
  { eexists. eexists. eexists. split; [reflexivity|]. left. auto. }
  apply size_too_large_spec in Etl.
  pose proof NODE_eq as HN. pose proof MIN_range as HMINR.
  assert (H64 : two64 = 18446744073709551616) by reflexivity.
  destruct (aligned_size_spec n ltac:(lia)) as (Hs1 & Hs2 & Hs3).
  set (size := aligned_size n) in *.
  assert (Hbnz : b_addr b <> 0) by (apply Z.eqb_neq; exact Hnz).
  pose proof (ri_tiled _ _ _ _ _ Hinv) as Ht. pose proof (ri_top _ _ _ _ _ Hinv) as Htop. pose proof (ri_pos _ _ _ _ _ Hinv) as Hpos.
  (* the moving branch, stated once *)
  assert (Hmove : exists ch' b' q,
    (let '(ch, b1, newp) := ha_alloc_raw (pre ++ x :: post) bins size in
     if newp =? 0 then HOk (ch, b1, 0)
     else match ha_dealloc_raw ch b1 (b_addr b) with
          | HOk (ch2, b2) => HOk (ch2, b2, newp)
          | HPanic => HPanic
          | HFuel => HFuel
          end) = HOk (ch', b', q) /\
    ((q = 0 /\ ch' = pre ++ x :: post /\ b' = bins) \/
     (q <> 0 /\ raw_inv hs he ch' b' (mkblk q n :: remove_nth i live)))).
  { apply (move_ok hs he _ bins live i b n size Hinv Hn); lia. }
  destruct (size >? c_sz x) eqn:Eg.
  - destruct post as [|nx post']; [exact Hmove|].
    destruct (negb (c_used nx) && (w64 (w64 (c_sz x + c_sz nx) + NODE) >=? size)) eqn:Ec; [|exact Hmove].
    apply andb_prop in Ec. destruct Ec as [Ec1 Ec2]. apply negb_true_iff in Ec1.
    destruct (tiled_mid _ _ _ _ _ Ht) as (m & Ht1 & Hm & Hs & Ht2 & Hpre & Hpost).
    cbn [tiled] in Ht2. destruct Ht2 as (Hnxa & Hnxs & Ht3).
    pose proof (tiled_le _ _ _ Ht1). pose proof (tiled_le _ _ _ Ht3).
    revert Ec2. w64s. intros Ec2. rewrite Z.geb_leb in Ec2. apply Z.leb_le in Ec2.
    pose proof (absorb_next_ok hs he pre x nx post' bins live Hinv Hu Ec1) as Hab.
    set (x' := mkchunk (c_addr x) (c_sz x + NODE + c_sz nx) true) in *.
    destruct (shrink_ok hs he pre x' post' _ live i b n size Hab eq_refl Hn Ha ltac:(lia) Hs2 ltac:(cbn; lia))
      as (ch' & b' & Hsh & Hinv').
    replace (mkchunk (c_addr x) (c_sz x + c_sz nx + NODE) true) with x' by (unfold x'; f_equal; lia).
    rewrite Hsh. eexists. eexists. eexists. split; [reflexivity|]. right. split; [exact Hbnz | exact Hinv'].
  - rewrite Z.gtb_ltb in Eg. apply Z.ltb_ge in Eg.
    destruct (shrink_ok hs he pre x post bins live i b n size Hinv Hu Hn Ha ltac:(lia) Hs2 Eg)
      as (ch' & b' & Hsh & Hinv').
    rewrite Hsh. eexists. eexists. eexists. split; [reflexivity|]. right. split; [exact Hbnz | exact Hinv'].
Qed.

(* ---------- HeapAllocatorT level ---------- *)
Definition hinv (c : hcfg) (s : hastate) (live : list blk) : Prop :=
  if ha_initialized s
  then raw_inv (heap_start c) (heap_end c) (ha_chunks s) (ha_bins s) live
  else live = [].

Lemma hinv_wf c s live : hinv c s live -> heap_wf c s live.
Proof.
  unfold hinv, heap_wf. destruct (ha_initialized s); [|auto].
  intros [Hpos Htop Ht Hal Hb Hl].
  split; [exact Ht|]. split; [exact Hal|]. split; [apply bins_exact_inv; exact Hb | exact Hl].
Qed.

Lemma ensure_init_ok c s live : hcfg_ok c -> hinv c s live ->
  exists s1, ha_ensure_init c s = HOk s1 /\ ha_initialized s1 = true /\
             raw_inv (heap_start c) (heap_end c) (ha_chunks s1) (ha_bins s1) live.
Proof.
  intros Hc Hi. unfold ha_ensure_init, hinv in *. destruct (ha_initialized s) eqn:E.
  - exists s. auto.
  - subst live. destruct (heap_init_ok c Hc) as (ch & b & Hin & Hr). rewrite Hin.
    eexists. split; [reflexivity|]. cbn. auto.
Qed.

Lemma hstep_ok c s live o :
  hcfg_ok c -> hinv c s live -> hop_usize o ->
  exists s' live', hstep c (s, live) o = Some (s', live') /\ hinv c s' live'.
Proof.
  intros Hc Hi Hd. destruct o as [n | i | i n | ]; cbn [hstep].
  - (* alloc *)
    destruct (ensure_init_ok c s live Hc Hi) as (s1 & He & Hin1 & Hr1).
    unfold ha_alloc. rewrite He.
    cbn [hop_usize] in Hd. unfold usize in Hd.
    destruct (ha_alloc_raw_ok _ _ _ _ _ n Hr1 Hd) as (ch & b & p & Ha & Hcase). rewrite Ha.
    destruct Hcase as [(-> & -> & ->) | (Hnz & Hinv)].
    + cbn [Z.eqb]. eexists. eexists. split; [reflexivity|]. unfold hinv. cbn. exact Hr1.
    + apply Z.eqb_neq in Hnz. rewrite Hnz. eexists. eexists. split; [reflexivity|]. unfold hinv. cbn. exact Hinv.
  - (* dealloc *)
    destruct (nth_error live i) as [b|] eqn:Hn; [|eexists; eexists; split; [reflexivity | exact Hi]].
    unfold hinv in Hi. destruct (ha_initialized s) eqn:Ein; [|subst live; destruct i; discriminate].
    destruct (ha_dealloc_raw_ok _ _ _ _ _ i b Hi Hn) as (ch & b1 & Hde & Hinv).
    unfold ha_dealloc. rewrite Hde. eexists. eexists. split; [reflexivity|].
    unfold hinv. cbn [ha_initialized ha_chunks ha_bins]. rewrite Ein. exact Hinv.
  - (* realloc *)
    destruct (nth_error live i) as [b|] eqn:Hn; [|eexists; eexists; split; [reflexivity | exact Hi]].
    pose proof Hi as Hi0.
    unfold hinv in Hi. destruct (ha_initialized s) eqn:Ein; [|subst live; destruct i; discriminate].
    unfold ha_realloc, ha_ensure_init. rewrite Ein.
    destruct (live_chunk _ _ _ _ _ _ _ Hi Hn) as (pre & x & post & Ech & Hu & Ha & Hsz & Hnz & Hmis & Hw & Hfind).
    cbn [hop_usize] in Hd. unfold usize in Hd.
    destruct (n =? b_size b) eqn:Esame.
    + (* same size: nothing happens *)
      apply Z.eqb_eq in Esame. subst n.
      assert (E0 : (b_size b =? 0) = false) by (apply Z.eqb_neq; lia). rewrite E0, Hnz.
      eexists. eexists. split; [reflexivity|]. unfold hinv. rewrite Ein.
      apply resize_live_ok; [exact Hi | exact Hn |].
      intros y Hy Hya. rewrite Ech in *.
      assert (y = x).
      { eapply tiled_unique; [exact (ri_tiled _ _ _ _ _ Hi) | exact Hy | apply in_or_app; right; left; reflexivity | pose proof NODE_eq; lia]. }
      subst y. lia.
    + destruct (Z.eq_dec n 0) as [-> | Hn0].
      * (* realloc to 0 = dealloc *)
        destruct (ha_dealloc_raw_ok _ _ _ _ _ i b Hi Hn) as (ch & b1 & Hde & Hinv).
        unfold ha_realloc_raw. rewrite Hnz. cbn [Z.eqb]. rewrite Hde.
        eexists. eexists. split; [reflexivity|]. unfold hinv. cbn. exact Hinv.
      * destruct (ha_realloc_raw_ok _ _ _ _ _ i b n Hi Hn ltac:(lia)) as (ch & b1 & q & Hre & Hcase).
        rewrite Hre. apply Z.eqb_neq in Hn0. rewrite Hn0.
        destruct Hcase as [(-> & -> & ->) | (Hqnz & Hinv)].
        -- cbn [Z.eqb]. eexists. eexists. split; [reflexivity|]. unfold hinv. cbn. exact Hi.
        -- apply Z.eqb_neq in Hqnz. rewrite Hqnz. eexists. eexists. split; [reflexivity|]. unfold hinv. cbn. exact Hinv.
  - eexists. eexists. split; [reflexivity|]. unfold hinv. cbn. reflexivity.
Qed.

Lemma hrun_ok c ops : forall s live,
  hcfg_ok c -> hinv c s live -> Forall hop_usize ops ->
  exists s' live', hrun c (s, live) ops = Some (s', live') /\ hinv c s' live'.
Proof.
  induction ops as [|o r IH]; intros s live Hc Hi Hd; cbn [hrun].
  - eexists. eexists. split; [reflexivity | exact Hi].
  - inversion Hd; subst. destruct (hstep_ok c s live o Hc Hi H1) as (s1 & l1 & -> & Hi1).
    apply IH; assumption.
Qed.

(* ---------- from the invariant to the placement clauses ---------- *)
Lemma raw_inv_good c chunks bins live :
  hcfg_ok c -> raw_inv (heap_start c) (heap_end c) chunks bins live ->
  good_blocks (h_base c) (h_size c) ALLOC_ALIGN live.
Proof.
  intros Hc [Hpos Htop Ht Hal Hb (HF & Hnd & Hcomp)].
  pose proof NODE_eq as HN. pose proof MIN_range as HMINR. pose proof ALIGN_eq as HA. pose proof MIN_range as HMr.
  pose proof (tiled_bounds _ _ _ Ht) as HBd. rewrite Forall_forall in HBd.
  assert (Hhs : h_base c <= heap_start c /\ heap_end c + NODE <= h_base c + h_size c).
  { destruct (heap_geometry c Hc) as (G1 & _ & _ & _ & G5). lia. }
  unfold aligned_chunks in Hal. rewrite Forall_forall in Hal, HF.
  unfold good_blocks. repeat split.
  - rewrite Forall_forall. intros b Hbl. destruct (HF b Hbl) as (x & Hx & _ & Ha & Hs).
    destruct (HBd x Hx) as (X0 & X1 & X2). unfold blk_in. lia.
  - rewrite Forall_forall. intros b Hbl. destruct (HF b Hbl) as (x & Hx & _ & Ha & Hs).
    unfold blk_aligned. rewrite HA. pose proof (Hal x Hx). lia.
  - clear Hcomp. induction live as [|b r IH]; cbn [pairwise_disjoint]; [exact I|].
    cbn [map] in Hnd. inversion Hnd as [|? ? Hnot Hnd']; subst.
    split; [|apply IH; [intros y Hy; apply HF; right; exact Hy | exact Hnd']].
    rewrite Forall_forall. intros b' Hb'.
    destruct (HF b (or_introl eq_refl)) as (x & Hx & _ & Ha & Hs).
    destruct (HF b' (or_intror Hb')) as (x' & Hx' & _ & Ha' & Hs').
    assert (Hne : x <> x').
    { intros ->. apply Hnot. rewrite Ha, <- Ha'. apply in_map. exact Hb'. }
    destruct (tiled_disjoint _ _ _ x x' Ht Hx Hx' Hne); unfold blk_disjoint; lia.
Qed.

Lemma hinv_init c : hinv c ha_init_state [].
Proof. unfold hinv. cbn. reflexivity. Qed.

Theorem heap_safe_proof : forall c ops, hcfg_ok c -> Forall hop_usize ops ->
  exists s live, hrun c (ha_init_state, []) ops = Some (s, live) /\ heap_wf c s live /\
                 good_blocks (h_base c) (h_size c) ALLOC_ALIGN live.
Proof.
  intros c ops Hc Hd.
  destruct (hrun_ok c ops ha_init_state [] Hc (hinv_init c) Hd) as (s & live & Hr & Hi).
  exists s, live. split; [exact Hr|]. split; [apply hinv_wf; exact Hi|].
  unfold hinv in Hi. destruct (ha_initialized s).
  - eapply raw_inv_good; eassumption.
  - subst live. repeat split; constructor.
Qed.

(* a pointer that is not a live block is reported (double free, foreign pointer) *)
Theorem heap_invalid_free_reported_proof : forall c ops s live p,
  hcfg_ok c -> Forall hop_usize ops -> hrun c (ha_init_state, []) ops = Some (s, live) ->
  ha_initialized s = true -> 0 < p < two64 -> ~ In p (map b_addr live) ->
  ha_dealloc s p = HPanic.
Proof.
  intros c ops s live p Hc Hd Hr Hin Hp Hnot.
  destruct (hrun_ok c ops ha_init_state [] Hc (hinv_init c) Hd) as (s0 & l0 & Hr0 & Hi).
  rewrite Hr in Hr0. inversion Hr0; subst s0 l0. clear Hr0.
  unfold hinv in Hi. rewrite Hin in Hi. destruct Hi as [Hpos Htop Ht Hal Hb (HF & Hnd & Hcomp)].
  unfold ha_dealloc, ha_dealloc_raw.
  assert (E0 : (p =? 0) = false) by (apply Z.eqb_neq; lia). rewrite E0.
  destruct (ptr_misaligned p) eqn:Em; [reflexivity|].
  destruct (find_chunk (w64 (p - NODE)) (ha_chunks s)) as [[[pre x] post]|] eqn:Ef; [|reflexivity].
  destruct (c_used x) eqn:Eu; [|reflexivity]. exfalso.
  apply find_chunk_spec in Ef. destruct Ef as [Ech Hxa].
  assert (Hx : In x (ha_chunks s)) by (rewrite Ech; apply in_or_app; right; left; reflexivity).
  pose proof (Hcomp x Hx Eu) as Hlive.
  assert (Hpx : c_addr x + NODE = p).
  { pose proof NODE_eq as HN. pose proof MIN_range as HMINR.
    pose proof (tiled_bounds _ _ _ Ht) as HBd. rewrite Forall_forall in HBd. destruct (HBd x Hx) as (X0 & X1 & X2).
    unfold w64 in Hxa. unfold two64 in *. lia. }
  apply Hnot. rewrite <- Hpx. exact Hlive.
Qed.

Definition hwit_big : hcfg := mkhcfg 4104 65536.
Lemma hwit_big_ok : hcfg_ok hwit_big.
Proof. unfold hcfg_ok, hwit_big, two64. vm_compute. repeat split; intros Hx; discriminate Hx. Qed.
