(* C11 - refinement, part 5: initialisation, the HeapAllocatorT wrappers, whole histories *)
From Coq Require Import ZArith List Bool Lia.
From Base Require Import LuaInt.
From C11 Require Import Gen Model Heap HeapA Spec SpecHeap Common ProofsHeap ProofsHeapNaf RefineBins RefineHeap RefineOps RefineRealloc.
Import ListNotations.
Local Open Scope Z_scope.

(* the memory-level state represents the abstract state *)
(* no 16-aligned address carries the used mark *)
Definition no_marks (m : mem) : Prop := forall n, n mod 16 = 0 -> is_used m n = false.

Definition SR (c : hcfg) (s : hstate) (sa : hastate) : Prop :=
  h_initialized s = ha_initialized sa /\
  (ha_initialized sa = true ->
   Rep (heap_end c) (h_mem s) (h_bins s) (ha_chunks sa) (ha_bins sa)) /\
  (ha_initialized sa = false -> no_marks (h_mem s)).

Lemma SR_live c s sa : h_initialized s = ha_initialized sa -> ha_initialized sa = true ->
  Rep (heap_end c) (h_mem s) (h_bins s) (ha_chunks sa) (ha_bins sa) -> SR c s sa.
Proof. intros H1 H2 H3. split; [exact H1|]. split; [intros _; exact H3 | rewrite H2; discriminate]. Qed.

(* writing 0 creates no mark and destroys the marks it touches *)
Lemma zero_write_marks m w n : is_used (mset m w 0) n = true -> is_used m n = true /\ w <> n + 16 /\ w <> n + 24.
Proof.
  intros H. apply is_used_true in H as [U1 U2].
  destruct (Z.eq_dec w (n + 16)) as [-> | N1]; [rewrite mget_mset_same in U1; discriminate U1|].
  destruct (Z.eq_dec w (n + 24)) as [-> | N2]; [rewrite mget_mset_same in U2; discriminate U2|].
  rewrite mget_mset_other in U1, U2 by auto. split; [apply is_used_true; auto | auto].
Qed.

Lemma span_le c : hcfg_ok c -> heap_end c - heap_start c <= h_size c.
Proof. intros Hc. destruct (heap_geometry c Hc) as (G1 & _ & _ & _ & G5). lia. Qed.

(* ---------- Heap:add_memory_region ---------- *)
Lemma init_sim c s : hcfg_ok c -> no_marks (h_mem s) ->
  exists bins m, heap_init c s = HOk (mkhstate true bins m) /\
    Rep (heap_end c) m bins [mkchunk (heap_start c) (heap_end c - heap_start c - NODE) false]
        (bins_add empty_bins (heap_end c - heap_start c - NODE) (heap_start c)) /\
    (heap_end c mod 8 = 0 -> forall w, w mod 8 <> 0 -> mget m w = mget (h_mem s) w).
Proof.
  intros Hc Hnm. pose proof Hc as (HB & Hfit & Hsize0 & Hmin). unfold heap_init, heap_end. unfold heap_start in *.
  pose proof NODE_eq as HN. pose proof ALIGN_eq as HA. pose proof MIN_range as HMr. rewrite HN, HA in *.
  assert (H64 : two64 = 18446744073709551616) by reflexivity.
  destruct (align_forward_spec (h_base c) 16 ltac:(exists 4; split; [lia | reflexivity]) ltac:(lia) ltac:(lia)) as [Hr Hm].
  set (hs := align_forward (h_base c) 16) in *.
  rewrite (w64_small (hs - h_base c)) by lia.
  change (2 * 32) with 64. rewrite (w64_small 64) by lia.
  rewrite (w64_small (hs - h_base c + 64)) by lia.
  assert (E : (h_size c <? hs - h_base c + 64) = false) by (apply Z.ltb_ge; lia). rewrite E.
  rewrite (w64_small (h_size c - (hs - h_base c))) by lia.
  rewrite (w64_small (h_size c - (hs - h_base c) - 32)) by lia.
  rewrite (align_down16 (h_size c - (hs - h_base c) - 32)) by lia.
  set (X := h_size c - (hs - h_base c) - 32) in *.
  pose proof (Z.mod_pos_bound X 16 ltac:(lia)) as HXm.
  set (hsz := X - X mod 16) in *.
  assert (Hhsz16 : hsz mod 16 = 0) by (unfold hsz; Z.div_mod_to_equations; lia).
  assert (Hhsz32 : 32 <= hsz <= X) by (unfold hsz, X in *; Z.div_mod_to_equations; lia).
  rewrite (w64_small (hsz - 32)) by lia.
  rewrite (w64_small (hs + hsz)) by (unfold X in *; lia).
  set (he := hs + hsz). set (sz := hsz - 32).
  replace (hs + hsz - hs - 32) with sz by (unfold sz; lia).
  set (m0 := set_used (mset (mset (mset (mset (mset (mset (h_mem s) hs sz) (hs + 8) 0) (hs + 16) 0) (hs + 24) 0) he 0) (he + 8) hs) he).
  assert (Hsz0 : n_size m0 hs = sz).
  { unfold n_size, m0, set_used, he, hsz. mm. reflexivity. }
  unfold add_node. fold m0. rewrite Hsz0.
  pose proof (get_bin_index_range sz) as Hi. set (i := get_bin_index sz) in *.
  assert (Hb0 : bin_get (repeat 0 (Z.to_nat BIN_COUNT)) i = 0).
  { unfold bin_get. clear. generalize (Z.to_nat i). induction (Z.to_nat BIN_COUNT) as [|k IH]; intros j; destruct j; cbn; auto. }
  rewrite Hb0. cbn [Z.eqb].
  eexists. eexists. split; [reflexivity|].
  set (m1 := mset (mset m0 (hs + 24) 0) (hs + 16) 0).
  assert (HLe : length empty_bins = Z.to_nat BIN_COUNT) by (unfold empty_bins; apply repeat_length).
  change (hs + (h_size c - (hs - h_base c) - 32)) with he.
  replace (he - hs - 32) with sz by (unfold sz, he; lia).
  split.
  2:{ intros He8 w Hw. unfold m1, m0, set_used. fold he.
      rewrite !mget_mset_other by (Z.div_mod_to_equations; lia). reflexivity. }
  split.
  - constructor; [|constructor]. cbn [c_addr c_sz]. unfold n_size, m1, m0, set_used, he, hsz. mm. reflexivity.
  - cbn [map c_addr padj_chain]. unfold n_prev_adj, m1, m0, set_used. fold he. unfold he, hsz. split; mm; reflexivity.
  - constructor; [|constructor]. cbn. discriminate.
  - unfold n_size, is_used, n_next, n_prev, m1, m0, set_used. fold he. unfold he, hsz. split; mm; [reflexivity|].
    rewrite !Z.eqb_refl. reflexivity.
  - split; [unfold bin_set; rewrite list_set_length; apply repeat_length|].
    split; [unfold bins_add, bin_upd; rewrite list_set_length; exact HLe|].
    intros j Hj. unfold bins_add. fold i. destruct (Z.eq_dec j i) as [-> | Hne].
    + rewrite bin_nth_upd_same by assumption. rewrite bin_get_set_same by (try apply repeat_length; assumption).
      unfold bin_nth at 1. unfold empty_bins. rewrite nth_repeat_nil. cbn [dll hd].
      unfold n_prev, n_next, m1. split; [|reflexivity]. mm. auto.
    + rewrite bin_nth_upd_other by lia. rewrite bin_get_set_other by lia.
      unfold bin_nth, empty_bins. rewrite nth_repeat_nil. cbn [dll hd]. split; [exact I|].
      unfold bin_get. clear. generalize (Z.to_nat j). induction (Z.to_nat BIN_COUNT) as [|k IH]; intros q; destruct q; cbn; auto.
  - (* marks: only the end node carries one *)
    apply marks_step.
    + constructor; [exact Hm | constructor].
    + cbn [map c_addr padj_chain]. unfold n_prev_adj, m1, m0, set_used. fold he. unfold he, hsz. split; mm; reflexivity.
    + unfold n_size, m1, m0, set_used. fold he. unfold he, hsz. mm. reflexivity.
    + unfold is_used, n_next, n_prev, m1, m0, set_used. fold he. unfold he, hsz. mm. rewrite !Z.eqb_refl. reflexivity.
    + intros n Hn Hu Hnh Hw.
      assert (Hh1 : is_hdr he [mkchunk hs sz false] hs) by (left; left; reflexivity).
      assert (Hh2 : is_hdr he [mkchunk hs sz false] he) by (right; reflexivity).
      pose proof (Hw hs 0 Hh1 ltac:(auto)). pose proof (Hw hs 8 Hh1 ltac:(auto)). pose proof (Hw hs 16 Hh1 ltac:(auto)). pose proof (Hw hs 24 Hh1 ltac:(auto)).
      pose proof (Hw he 0 Hh2 ltac:(auto)). pose proof (Hw he 8 Hh2 ltac:(auto)). pose proof (Hw he 16 Hh2 ltac:(auto)). pose proof (Hw he 24 Hh2 ltac:(auto)).
      assert (Ef : is_used m1 n = is_used (h_mem s) n) by (apply is_used_frame; unfold m1, m0, set_used; fold he; mm; reflexivity).
      rewrite Ef, (Hnm n Hn) in Hu. discriminate Hu.
Qed.

(* the scraped fact the proofs below depend on: the source of deallocall contains the walk that
   clears the used marks (repair 9ef0717).  With the walk removed Gen.v says false and this fails. *)
Fact deallocall_policy : DEALLOCALL_CLEARS_MARKS = true.
Proof. reflexivity. Qed.

(* ---------- HeapAllocatorT:deallocall: the walk that clears the marks ends within the fuel and
   leaves no mark behind ---------- *)
Lemma clear_marks_ok he : forall chunks s m fuel,
  tiled s chunks he -> Forall (fun x => n_size m (c_addr x) = c_sz x) chunks ->
  s + NODE + NODE <= two64 \/ chunks = [] -> he + NODE <= two64 -> 0 <= s ->
  (length chunks < fuel)%nat ->
  (forall n, n mod 16 = 0 -> is_used m n = true -> In n (map c_addr chunks) \/ n = he) ->
  exists m', clear_marks fuel m s he = Some m' /\ no_marks m' /\
    (he mod 8 = 0 -> aligned_chunks chunks -> forall w, w mod 8 <> 0 -> mget m' w = mget m w).
Proof.
  pose proof NODE_eq as HN.
  induction chunks as [|x r IH]; intros s m fuel Ht Hs Hb Htop H0 Hf Hmk; destruct fuel as [|k]; cbn [length] in Hf; try lia; cbn [clear_marks].
  - cbn [tiled] in Ht. subst s. rewrite Z.ltb_irrefl. eexists. split; [reflexivity|].
    split.
    2:{ intros He8 _ w Hw. rewrite !mget_mset_other by (Z.div_mod_to_equations; lia). reflexivity. }
    intros n Hn. destruct (is_used (mset (mset m (he + 16) 0) (he + 24) 0) n) eqn:E; [|reflexivity]. exfalso.
    apply zero_write_marks in E. destruct E as (E & _ & _). apply zero_write_marks in E. destruct E as (E & N1 & _).
    destruct (Hmk n Hn E) as [[] | ->]. lia.
  - cbn [tiled] in Ht. destruct Ht as (Ea & Hsz & Ht). pose proof (tiled_le _ _ _ Ht) as Hle.
    assert (E : (s <? he) = true) by (apply Z.ltb_lt; lia). rewrite E.
    pose proof (Forall_inv Hs) as Hx. pose proof (Forall_inv_tail Hs) as Hr. cbn beta in Hx.
    unfold next_adj. rewrite Ea in Hx. rewrite Hx. rewrite (w64_small (s + NODE)) by lia.
    rewrite (w64_small (s + NODE + c_sz x)) by lia.
    match goal with |- exists m', clear_marks k ?mm ?ss he = Some m' /\ _ =>
      destruct (IH ss mm k) as (m' & Q1 & Q2 & Q3); [exact Ht | | | exact Htop | lia | lia | |
        exists m'; split; [exact Q1|]; split; [exact Q2|];
        intros He8 Hal w Hw; unfold aligned_chunks in Hal; pose proof (Forall_inv Hal) as Hxa; cbn beta in Hxa; rewrite Ea in Hxa;
        rewrite (Q3 He8 (Forall_inv_tail Hal) w Hw); rewrite !mget_mset_other by (Z.div_mod_to_equations; lia); reflexivity]
    end.
    + rewrite Forall_forall in *. intros y Hy. unfold n_size.
      pose proof (tiled_bounds _ _ _ Ht) as HB. rewrite Forall_forall in HB. destruct (HB y Hy) as (? & _).
      rewrite mget_mset_other by lia. rewrite mget_mset_other by lia. apply Hr. exact Hy.
    + destruct r as [|y r']; [right; reflexivity | left].
      cbn [tiled] in Ht. destruct Ht as (_ & ? & Ht'). apply tiled_le in Ht'. lia.
    + intros n Hn Hu. apply zero_write_marks in Hu. destruct Hu as (Hu & _ & _). apply zero_write_marks in Hu. destruct Hu as (Hu & N1 & _).
      destruct (Hmk n Hn Hu) as [Hi | ->]; [|right; reflexivity]. cbn [map In] in Hi. destruct Hi as [Hi | Hi]; [|left; exact Hi].
      exfalso. rewrite Ea in Hi. lia.
Qed.

(* ---------- from header frames to payload frames ---------- *)
Lemma hdr_outside hs he L B live b h k w :
  raw_inv hs he L B live -> In b live -> is_hdr he L h -> hk k ->
  b_addr b - 8 < w < b_addr b + b_size b -> w <> h + k.
Proof.
  intros [Hpos Htop Ht Hal Hb Hl] Hbl Hh Hk Hw. pose proof NODE_eq as HN.
  destruct Hl as (Hl1 & _ & _). rewrite Forall_forall in Hl1. destruct (Hl1 b Hbl) as (x & Hx & Hu & Ea & Hsz).
  destruct (chunk_bounds hs he L Ht Hal x Hx) as (X1 & X2 & X3 & X4).
  destruct Hh as [Hh | ->].
  - apply in_map_iff in Hh. destruct Hh as (y & <- & Hy).
    destruct (chunk_bounds hs he L Ht Hal y Hy) as (Y1 & Y2 & Y3 & Y4).
    destruct (chunk_sep hs he L Ht x y Hx Hy) as [-> | [H1 | H1]]; unfold hk in Hk; lia.
  - unfold hk in Hk. lia.
Qed.

Lemma payload_of_hframe hs he L B live L' B' live' m m' :
  raw_inv hs he L B live -> raw_inv hs he L' B' live' -> hframe (hdrs2 he L L') m m' -> payload_frame live live' m m'.
Proof.
  intros Hi Hi' Hf b b' Hb Hb' Ea w Hw. apply Hf. intros h k [Hh | Hh] Hk.
  - apply (hdr_outside hs he L B live b h k w Hi Hb Hh Hk). lia.
  - apply (hdr_outside hs he L' B' live' b' h k w Hi' Hb' Hh Hk). rewrite <- Ea. lia.
Qed.

Lemma payload_refl live live' m : payload_frame live live' m m.
Proof. intros b b' _ _ _ w _. reflexivity. Qed.

Lemma payload_two hs he L B live L' B' live' m m' :
  raw_inv hs he L B live -> raw_inv hs he L' B' live' -> two_frames hs he L live L' m m' -> payload_frame live live' m m'.
Proof.
  intros Hi Hi' (L1 & B1 & m1 & live1 & Hi1 & Hinc & F1 & F2) b b' Hb Hb' Ea w Hw.
  pose proof (payload_of_hframe _ _ _ _ _ _ _ _ _ _ Hi Hi1 F1) as P1.
  pose proof (payload_of_hframe _ _ _ _ _ _ _ _ _ _ Hi1 Hi' F2) as P2.
  rewrite (P2 b b' (Hinc b Hb) Hb' Ea w Hw). apply (P1 b b Hb (Hinc b Hb) eq_refl w). lia.
Qed.

(* header frames also say that only 8-aligned words are written when the end node is 8-aligned *)
Definition aligned_writes (c : hcfg) (m m' : mem) : Prop :=
  heap_end c mod 8 = 0 -> forall w, w mod 8 <> 0 -> mget m' w = mget m w.

Lemma aligned_of_hframe c hs L B live L' B' live' m m' :
  raw_inv hs (heap_end c) L B live -> raw_inv hs (heap_end c) L' B' live' ->
  hframe (hdrs2 (heap_end c) L L') m m' -> aligned_writes c m m'.
Proof.
  intros Hi Hi' Hf He8 w Hw. apply Hf. intros h k Hh Hk.
  assert (Hh8 : h mod 16 = 0 \/ h = heap_end c).
  { destruct Hh as [[Hh | ->] | [Hh | ->]]; auto; left; apply in_map_iff in Hh; destruct Hh as (x & <- & Hx).
    - pose proof (ri_aligned _ _ _ _ _ Hi) as Ha. unfold aligned_chunks in Ha. rewrite Forall_forall in Ha. apply Ha. exact Hx.
    - pose proof (ri_aligned _ _ _ _ _ Hi') as Ha. unfold aligned_chunks in Ha. rewrite Forall_forall in Ha. apply Ha. exact Hx. }
  unfold hk in Hk. destruct Hh8 as [Hh8 | ->]; Z.div_mod_to_equations; lia.
Qed.

Definition step_frames (c : hcfg) (live live' : list blk) (m m' : mem) : Prop :=
  payload_frame live live' m m' /\ aligned_writes c m m'.

Lemma sf_refl c live live' m : step_frames c live live' m m.
Proof. split; [apply payload_refl | intros _ w _; reflexivity]. Qed.

Lemma sf_of_hframe c hs L B live L' B' live' m m' :
  raw_inv hs (heap_end c) L B live -> raw_inv hs (heap_end c) L' B' live' ->
  hframe (hdrs2 (heap_end c) L L') m m' -> step_frames c live live' m m'.
Proof. intros Hi Hi' Hf. split; [exact (payload_of_hframe _ _ _ _ _ _ _ _ _ _ Hi Hi' Hf) | exact (aligned_of_hframe c _ _ _ _ _ _ _ _ _ Hi Hi' Hf)]. Qed.

Lemma sf_two c hs L B live L' B' live' m m' :
  raw_inv hs (heap_end c) L B live -> raw_inv hs (heap_end c) L' B' live' ->
  two_frames hs (heap_end c) L live L' m m' -> step_frames c live live' m m'.
Proof.
  intros Hi Hi' Hf. split; [exact (payload_two _ _ _ _ _ _ _ _ _ _ Hi Hi' Hf)|].
  destruct Hf as (L1 & B1 & m1 & live1 & Hi1 & _ & F1 & F2). intros He8 w Hw.
  rewrite (aligned_of_hframe c _ _ _ _ _ _ _ _ _ Hi1 Hi' F2 He8 w Hw).
  apply (aligned_of_hframe c _ _ _ _ _ _ _ _ _ Hi Hi1 F1 He8 w Hw).
Qed.

(* ---------- one step ---------- *)
Lemma cstep_sim c s sa live o :
  hcfg_ok c -> hinv c sa live -> SR c s sa -> hop_usize o ->
  exists s' sa' live',
    cstep c (s, live) o = Some (s', live') /\ hstep c (sa, live) o = Some (sa', live') /\
    hinv c sa' live' /\ SR c s' sa' /\ step_frames c live live' (h_mem s) (h_mem s').
Proof.
  intros Hc Hi (Hfl & Hrep & Hnom) Hd.
  destruct (hstep_ok c sa live o Hc Hi Hd) as (sa' & live' & Hst & Hi').
  pose proof (span_le c Hc) as Hspan.
  pose proof Hst as Hst0.
  destruct o as [n | i | i n | ]; cbn [hstep cstep] in *.
  - (* alloc *)
    cbn [hop_usize] in Hd. unfold usize in Hd.
    unfold hp_alloc, ensure_init. unfold ha_alloc, ha_ensure_init in Hst. rewrite Hfl.
    unfold hinv in Hi. destruct (ha_initialized sa) eqn:Ein.
    + specialize (Hrep eq_refl).
      destruct (heap_alloc_raw_sim c _ _ _ _ _ _ live n Hi Hrep Hspan Hd) as (bc' & m' & Hca & Hrep' & Hfr').
      rewrite Hca. destruct (ha_alloc_raw (ha_chunks sa) (ha_bins sa) n) as [[ch b] p] eqn:Ea. cbn [fst snd] in *.
      inversion Hst; subst sa' live'. eexists. eexists. eexists. split; [reflexivity|]. split; [exact Hst0|].
      split; [exact Hi'|]. split; [apply SR_live; [reflexivity | reflexivity | exact Hrep']|].
      cbn [h_mem]. unfold hinv in Hi'. cbn [ha_initialized ha_chunks ha_bins] in Hi'.
      exact (sf_of_hframe c _ _ _ _ _ _ _ _ _ Hi Hi' Hfr').
    + subst live. destruct (init_sim c s Hc (Hnom eq_refl)) as (bins0 & m0 & Hin & Hrep0 & Hal0). rewrite Hin.
      rewrite (heap_init_shape c Hc) in Hst. cbn [ha_chunks ha_bins] in Hst.
      destruct (heap_init_ok c Hc) as (ch0 & b0 & Hin0 & Hr0).
      rewrite (heap_init_shape c Hc) in Hin0. inversion Hin0; subst ch0 b0. clear Hin0.
      cbn [h_bins h_mem].
      destruct (heap_alloc_raw_sim c _ _ _ _ _ _ [] n Hr0 Hrep0 Hspan Hd) as (bc' & m' & Hca & Hrep' & Hfr').
      rewrite Hca. destruct (ha_alloc_raw _ _ n) as [[ch b] p] eqn:Ea. cbn [fst snd] in *.
      inversion Hst; subst sa' live'. eexists. eexists. eexists. split; [reflexivity|]. split; [exact Hst0|].
      split; [exact Hi'|]. split; [apply SR_live; [reflexivity | reflexivity | exact Hrep']|].
      split; [intros b0 b0' []|]. cbn [h_mem]. unfold hinv in Hi'. cbn [ha_initialized ha_chunks ha_bins] in Hi'.
      intros He8 w Hw. rewrite (aligned_of_hframe c _ _ _ _ _ _ _ _ _ Hr0 Hi' Hfr' He8 w Hw). apply Hal0; assumption.
  - (* dealloc *)
    destruct (nth_error live i) as [b|] eqn:Hn.
    2:{ inversion Hst; subst. eexists. eexists. eexists. split; [reflexivity|]. split; [exact Hst0|]. split; [exact Hi | split; [exact (conj Hfl (conj Hrep Hnom)) | apply sf_refl]]. }
    unfold hinv in Hi. destruct (ha_initialized sa) eqn:Ein; [|subst live; destruct i; discriminate].
    specialize (Hrep eq_refl).
    destruct (heap_dealloc_raw_sim _ _ _ _ _ _ live i b Hi Hrep Hn) as (bc' & m' & ch' & ba' & Had & Hcd & Hrep' & Hfr').
    unfold hp_dealloc. rewrite Hcd. unfold ha_dealloc in Hst. rewrite Had in Hst. inversion Hst; subst sa' live'.
    eexists. eexists. eexists. split; [reflexivity|]. split; [exact Hst0|]. split; [exact Hi'|].
    split; [apply SR_live; [cbn; rewrite Hfl; symmetry; exact Ein | exact Ein | exact Hrep']|].
    cbn [h_mem]. unfold hinv in Hi'. cbn [ha_initialized ha_chunks ha_bins] in Hi'. rewrite Ein in Hi'.
    exact (sf_of_hframe c _ _ _ _ _ _ _ _ _ Hi Hi' Hfr').
  - (* realloc *)
    destruct (nth_error live i) as [b|] eqn:Hn.
    2:{ inversion Hst; subst. eexists. eexists. eexists. split; [reflexivity|]. split; [exact Hst0|]. split; [exact Hi | split; [exact (conj Hfl (conj Hrep Hnom)) | apply sf_refl]]. }
    pose proof Hi as Hi0. unfold hinv in Hi. destruct (ha_initialized sa) eqn:Ein; [|subst live; destruct i; discriminate].
    specialize (Hrep eq_refl). cbn [hop_usize] in Hd. unfold usize in Hd.
    unfold hp_realloc, ensure_init. unfold ha_realloc, ha_ensure_init in Hst. rewrite Hfl, Ein in *.
    destruct (live_chunk _ _ _ _ _ _ _ Hi Hn) as (pre & x & post & Ech & Hu & Ha & Hsz & Hnz & Hmis & Hw & Hfind).
    destruct (n =? b_size b) eqn:Esame.
    + (* same size: the states do not change *)
      destruct (n =? 0).
      * inversion Hst; subst sa' live'. eexists. eexists. eexists. split; [reflexivity|]. split; [exact Hst0|]. split; [exact Hi'|].
        split; [apply SR_live; [rewrite Ein; exact Hfl | exact Ein | exact Hrep] | apply sf_refl].
      * rewrite Hnz in *. inversion Hst; subst sa' live'. eexists. eexists. eexists. split; [reflexivity|]. split; [exact Hst0|].
        split; [exact Hi'|]. split; [apply SR_live; [rewrite Ein; exact Hfl | exact Ein | exact Hrep] | apply sf_refl].
    + destruct (Z.eq_dec n 0) as [-> | Hn0].
      * destruct (heap_dealloc_raw_sim _ _ _ _ _ _ live i b Hi Hrep Hn) as (bc' & m' & ch' & ba' & Had & Hcd & Hrep' & Hfr').
        unfold heap_realloc_raw. unfold ha_realloc_raw in Hst. rewrite Hnz in *. cbn [Z.eqb] in *. rewrite Hcd. rewrite Had in Hst.
        inversion Hst; subst sa' live'. eexists. eexists. eexists. split; [reflexivity|]. split; [exact Hst0|].
        split; [exact Hi'|]. split; [apply SR_live; [reflexivity | reflexivity | exact Hrep']|].
        cbn [h_mem]. unfold hinv in Hi'. cbn [ha_initialized ha_chunks ha_bins] in Hi'.
        exact (sf_of_hframe c _ _ _ _ _ _ _ _ _ Hi Hi' Hfr').
      * destruct (heap_realloc_raw_sim c _ _ _ _ _ _ live i b n Hi Hrep Hspan Hn ltac:(lia)) as (bc' & m' & ch' & ba' & q & Har & Hcr & Hrep' & Hfr').
        rewrite Hcr. rewrite Har in Hst. apply Z.eqb_neq in Hn0. rewrite Hn0 in *.
        destruct (q =? 0); inversion Hst; subst sa' live'; eexists; eexists; eexists;
          (split; [reflexivity|]); (split; [exact Hst0|]); (split; [exact Hi'|]); (split; [apply SR_live; [reflexivity | reflexivity | exact Hrep']|]);
          cbn [h_mem]; unfold hinv in Hi'; cbn [ha_initialized ha_chunks ha_bins] in Hi';
          exact (sf_two c _ _ _ _ _ _ _ _ _ Hi Hi' Hfr').
  - inversion Hst; subst.
    assert (Hda : exists s1, hp_deallocall c s = HOk s1 /\ h_initialized s1 = false /\ no_marks (h_mem s1) /\ aligned_writes c (h_mem s) (h_mem s1)).
    { unfold hp_deallocall, hp_deallocall_p. rewrite deallocall_policy. cbn [andb]. rewrite Hfl. unfold hinv in Hi. destruct (ha_initialized sa) eqn:Ein.
      - specialize (Hrep eq_refl). pose proof Hi as [Hpos Htop Ht Hal Hb Hl].
        pose proof (MI_of_inv _ _ _ _ _ _ _ Hi Hrep) as HM. pose proof NODE_eq as HN. pose proof MIN_range.
        assert (Hfu : (length (ha_chunks sa) < heap_fuel c)%nat).
        { pose proof (chunks_len _ _ _ Ht) as Hcl. unfold heap_fuel. rewrite HN.
          assert (Z.of_nat (length (ha_chunks sa)) <= h_size c / 32) by (apply Z.div_le_lower_bound; lia).
          assert (0 <= h_size c / 32) by lia. lia. }
        destruct (clear_marks_ok (heap_end c) (ha_chunks sa) (heap_start c) (h_mem s) (heap_fuel c) Ht (rp_sizes _ _ _ _ _ Hrep)) as (m' & Hcm & Hnm' & Hal'); try lia.
        { destruct (ha_chunks sa) as [|x r]; [right; reflexivity | left].
          cbn [tiled] in Ht. destruct Ht as (_ & ? & Ht'). apply tiled_le in Ht'. lia. }
        { exact (rp_marks _ _ _ _ _ Hrep). }
        rewrite Hcm. eexists. split; [reflexivity|]. split; [reflexivity|]. split; [exact Hnm'|].
        intros He8. cbn [h_mem]. apply Hal'; assumption.
      - eexists. split; [reflexivity|]. split; [reflexivity|]. split; [exact (Hnom eq_refl)|]. intros _ w _. reflexivity. }
    destruct Hda as (s1 & Hd1 & Hin1 & Hnm1 & Hal1). rewrite Hd1.
    eexists. eexists. eexists. split; [reflexivity|]. split; [exact Hst0|]. split; [exact Hi'|].
    split; [split; [exact Hin1|]; split; [cbn; discriminate | intros _; exact Hnm1]|].
    split; [intros b0 b0' _ [] | exact Hal1].
Qed.

(* ---------- whole histories ---------- *)
Lemma crun_sim c ops : forall s sa live,
  hcfg_ok c -> hinv c sa live -> SR c s sa -> Forall hop_usize ops ->
  exists s' sa' live',
    crun c (s, live) ops = Some (s', live') /\ hrun c (sa, live) ops = Some (sa', live') /\
    hinv c sa' live' /\ SR c s' sa'.
Proof.
  induction ops as [|o r IH]; intros s sa live Hc Hi Hsr Hd; cbn [crun hrun].
  - exists s, sa, live. auto.
  - inversion Hd; subst. destruct (cstep_sim c s sa live o Hc Hi Hsr H1) as (s1 & sa1 & l1 & -> & -> & Hi1 & Hsr1 & _).
    apply IH; assumption.
Qed.

Lemma SR_init c : SR c heap_init_state ha_init_state.
Proof. split; [reflexivity|]. split; [cbn; discriminate|]. intros _ n _. reflexivity. Qed.

(* the memory-level model never panics on valid histories, computes exactly the blocks the
   abstract model computes, and its final memory represents the abstract final state *)
Theorem heap_refinement_proof : forall c ops, hcfg_ok c -> Forall hop_usize ops ->
  exists s sa live,
    crun c (heap_init_state, []) ops = Some (s, live) /\
    hrun c (ha_init_state, []) ops = Some (sa, live) /\ SR c s sa.
Proof.
  intros c ops Hc Hd.
  destruct (crun_sim c ops heap_init_state ha_init_state [] Hc (hinv_init c) (SR_init c) Hd) as (s & sa & live & H1 & H2 & _ & H3).
  exists s, sa, live. auto.
Qed.

(* hence the placement guarantees hold of the memory-level model *)
Theorem heap_mem_safe_proof : forall c ops, hcfg_ok c -> Forall hop_usize ops ->
  exists s live, crun c (heap_init_state, []) ops = Some (s, live) /\
                 good_blocks (h_base c) (h_size c) ALLOC_ALIGN live.
Proof.
  intros c ops Hc Hd.
  destruct (heap_refinement_proof c ops Hc Hd) as (s & sa & live & H1 & H2 & _).
  destruct (heap_safe_proof c ops Hc Hd) as (sa' & live' & H2' & _ & Hg).
  rewrite H2 in H2'. inversion H2'; subst. exists s, live'. auto.
Qed.

(* a pointer to the header of a free chunk (e.g. a block that has just been freed without being
   absorbed by its predecessor) fails the cookie test of the memory-level model *)
Theorem heap_mem_free_header_reported_proof : forall c ops s sa live x,
  hcfg_ok c -> Forall hop_usize ops ->
  crun c (heap_init_state, []) ops = Some (s, live) -> hrun c (ha_init_state, []) ops = Some (sa, live) ->
  ha_initialized sa = true -> In x (ha_chunks sa) -> c_used x = false ->
  hp_dealloc s (c_addr x + NODE) = HPanic.
Proof.
  intros c ops s sa live x Hc Hd Hcr Har Hin Hx Hf.
  destruct (crun_sim c ops heap_init_state ha_init_state [] Hc (hinv_init c) (SR_init c) Hd) as (s0 & sa0 & l0 & H1 & H2 & Hi & Hsr).
  rewrite Hcr in H1. rewrite Har in H2. inversion H1; inversion H2; subst s0 sa0 l0. clear H1 H2.
  unfold hinv in Hi. rewrite Hin in Hi. destruct Hsr as (_ & Hrep & _). specialize (Hrep Hin).
  pose proof (MI_of_inv _ _ _ _ _ _ _ Hi Hrep) as HM.
  pose proof Hi as [Hpos Htop Ht Hal Hb Hl]. pose proof NODE_eq as HN. pose proof MIN_range.
  assert (H64 : two64 = 18446744073709551616) by reflexivity.
  destruct (chunk_bounds _ _ _ Ht Hal x Hx) as (B1 & B2 & B3 & B4).
  unfold hp_dealloc, heap_dealloc_raw.
  assert (E0 : (c_addr x + NODE =? 0) = false) by (apply Z.eqb_neq; lia). rewrite E0.
  unfold get_ptr_node. rewrite land_mask_mod by apply align16_pow2. rewrite ALIGN_eq.
  assert (Em : (c_addr x + NODE) mod 16 = 0) by lia. rewrite Em. cbn [Z.eqb negb].
  replace (c_addr x + NODE - NODE) with (c_addr x) by lia. rewrite (w64_small (c_addr x)) by lia.
  assert (Hu : is_used (h_mem s) (c_addr x) = false).
  { rewrite (is_used_flag _ _ _ _ _ _ x HM Hx); [exact Hf|]. intros _. exists (get_bin_index (c_sz x)).
    split; [apply get_bin_index_range|]. destruct Hb as (_ & Hb). destruct (Hb _ (get_bin_index_range (c_sz x))) as [_ Hbin].
    apply Hbin. exists x. auto. }
  rewrite Hu. cbn [andb Z.eqb]. reflexivity.
Qed.


(* "reports an invalid pointer instead of corrupting itself", memory level, full strength: after any
   history no non-nil pointer that is not a live block passes get_ptr_node - double frees, pointers
   of a previous generation (before deallocall), pointers into payloads, into absorbed headers,
   outside the buffer, and (repair d9328b9) the pointer just past the end node *)
Lemma heap_mem_invalid_ptr_node_proof : forall c ops s live p,
  hcfg_ok c -> Forall hop_usize ops ->
  crun c (heap_init_state, []) ops = Some (s, live) ->
  0 < p < two64 -> ~ In p (map b_addr live) ->
  get_ptr_node (h_mem s) p = 0.
Proof.
  intros c ops s live p Hc Hd Hcr Hp Hnl.
  destruct (crun_sim c ops heap_init_state ha_init_state [] Hc (hinv_init c) (SR_init c) Hd) as (s0 & sa & l0 & H1 & H2 & Hi & Hsr).
  rewrite Hcr in H1. inversion H1; subst s0 l0. clear H1.
  pose proof NODE_eq as HN. assert (H64 : two64 = 18446744073709551616) by reflexivity.
  unfold get_ptr_node. rewrite land_mask_mod by apply align16_pow2. rewrite ALIGN_eq.
  destruct (p mod 16 =? 0) eqn:Em; [|reflexivity]. apply Z.eqb_eq in Em. cbn [negb].
  destruct (is_used (h_mem s) (w64 (p - NODE))) eqn:Eu; [|reflexivity]. cbn [andb].
  destruct (n_size (h_mem s) (w64 (p - NODE)) =? 0) eqn:Ez; [reflexivity|]. apply Z.eqb_neq in Ez. exfalso.
  assert (Hnal : w64 (p - NODE) mod 16 = 0).
  { unfold w64. rewrite HN, H64. Z.div_mod_to_equations. lia. }
  destruct Hsr as (Hfl & Hrep & Hnom). destruct (ha_initialized sa) eqn:Ein.
  - specialize (Hrep eq_refl). unfold hinv in Hi. rewrite Ein in Hi.
    pose proof (MI_of_inv _ _ _ _ _ _ _ Hi Hrep) as HM.
    pose proof Hi as [Hpos Htop Ht Hal Hb Hl]. pose proof MIN_range.
    destruct (rp_marks _ _ _ _ _ Hrep _ Hnal Eu) as [Hin | Ehe].
    + apply in_map_iff in Hin. destruct Hin as (x & Ex & Hx).
      destruct (chunk_bounds _ _ _ Ht Hal x Hx) as (B1 & B2 & B3 & B4).
      assert (Epx : p = c_addr x + NODE).
      { unfold w64 in Ex. rewrite HN, H64 in *. Z.div_mod_to_equations. lia. }
      assert (Hux : is_used (h_mem s) (c_addr x) = c_used x).
      { apply (is_used_flag _ _ _ _ _ _ x HM Hx). intros Hf. exists (get_bin_index (c_sz x)).
        split; [apply get_bin_index_range|]. destruct Hb as (_ & Hb). destruct (Hb _ (get_bin_index_range (c_sz x))) as [_ Hbin].
        apply Hbin. exists x. auto. }
      rewrite Ex, Eu in Hux. destruct Hl as (_ & _ & Hl3). apply Hnl. rewrite Epx. apply Hl3; auto.
    + (* the end node: its size is 0 *)
      rewrite Ehe in Ez. destruct (rp_end _ _ _ _ _ Hrep) as [E0 _]. contradiction.
  - rewrite (Hnom eq_refl _ Hnal) in Eu. discriminate Eu.
Qed.

Theorem heap_mem_invalid_free_reported_proof : forall c ops s live p,
  hcfg_ok c -> Forall hop_usize ops ->
  crun c (heap_init_state, []) ops = Some (s, live) ->
  0 < p < two64 -> ~ In p (map b_addr live) ->
  hp_dealloc s p = HPanic.
Proof.
  intros c ops s live p Hc Hd Hcr Hp Hnl. unfold hp_dealloc, heap_dealloc_raw.
  assert (E0 : (p =? 0) = false) by (apply Z.eqb_neq; lia). rewrite E0.
  rewrite (heap_mem_invalid_ptr_node_proof c ops s live p Hc Hd Hcr Hp Hnl). reflexivity.
Qed.

(* the statement of SpecHeap.v that was refuted twice (stale cookies, end sentinel) *)
Theorem heap_mem_invalid_free_reported_full_proof : heap_mem_invalid_free_reported_full.
Proof.
  intros c ops s live p Hc Hd Hcr _ Hp Hnl. exact (heap_mem_invalid_free_reported_proof c ops s live p Hc Hd Hcr Hp Hnl).
Qed.

(* realloc runs the same test: on an initialised heap, realloc of such a pointer to a different size panics *)
Theorem heap_mem_invalid_realloc_reported_proof : forall c ops s live p n old,
  hcfg_ok c -> Forall hop_usize ops ->
  crun c (heap_init_state, []) ops = Some (s, live) -> h_initialized s = true ->
  0 < p < two64 -> ~ In p (map b_addr live) -> n <> old ->
  hp_realloc c s p n old = HPanic.
Proof.
  intros c ops s live p n old Hc Hd Hcr Hin Hp Hnl Hne.
  pose proof (heap_mem_invalid_ptr_node_proof c ops s live p Hc Hd Hcr Hp Hnl) as Hg.
  unfold hp_realloc, ensure_init. rewrite Hin.
  assert (E1 : (n =? old) = false) by (apply Z.eqb_neq; exact Hne). rewrite E1.
  unfold heap_realloc_raw. assert (E0 : (p =? 0) = false) by (apply Z.eqb_neq; lia). rewrite E0.
  destruct (n =? 0).
  - unfold heap_dealloc_raw. rewrite E0, Hg. reflexivity.
  - rewrite Hg. reflexivity.
Qed.

(* the allocator's own writes never land in a live payload: after any history, every operation
   (alloc, dealloc, realloc - in place or moving -, deallocall, including the lazy initialisation)
   leaves unchanged every word overlapping a block that is live before and after it, up to the
   smaller of its two sizes (realloc in place).  All the writes of the memory-level model go to
   header words of chunks of the old or the new state, and those lie outside every live payload. *)
Theorem heap_mem_payload_frame_proof : forall c ops s live o s' live',
  hcfg_ok c -> Forall hop_usize ops -> hop_usize o ->
  crun c (heap_init_state, []) ops = Some (s, live) ->
  cstep c (s, live) o = Some (s', live') ->
  payload_frame live live' (h_mem s) (h_mem s').
Proof.
  intros c ops s live o s' live' Hc Hd Ho Hcr Hst.
  destruct (crun_sim c ops heap_init_state ha_init_state [] Hc (hinv_init c) (SR_init c) Hd) as (s0 & sa & l0 & H1 & H2 & Hi & Hsr).
  rewrite Hcr in H1. inversion H1; subst s0 l0. clear H1.
  destruct (cstep_sim c s sa live o Hc Hi Hsr Ho) as (s1 & sa1 & l1 & Hs1 & _ & _ & _ & Hp & _).
  rewrite Hst in Hs1. inversion Hs1; subst s1 l1. exact Hp.
Qed.

(* ---------- the word-addressed memory is exact ----------
   [mem] maps addresses to 64-bit words; two words at addresses less than 8 apart would overlap in
   a byte-addressed memory.  The end node is 16-aligned like every other node (repair 23ac203), so
   every word the memory-level model ever writes is 8-aligned and no two written words overlap:
   all other addresses keep the initial 0. *)
Lemma crun_aligned c ops : forall s sa live s' live',
  hcfg_ok c -> hinv c sa live -> SR c s sa -> Forall hop_usize ops -> heap_end c mod 8 = 0 ->
  crun c (s, live) ops = Some (s', live') ->
  forall w, w mod 8 <> 0 -> mget (h_mem s') w = mget (h_mem s) w.
Proof.
  induction ops as [|o r IH]; intros s sa live s' live' Hc Hi Hsr Hd He8 Hcr w Hw; cbn [crun] in Hcr.
  - inversion Hcr; subst. reflexivity.
  - inversion Hd; subst.
    destruct (cstep_sim c s sa live o Hc Hi Hsr H1) as (s1 & sa1 & l1 & Hs1 & _ & Hi1 & Hsr1 & _ & Hal).
    rewrite Hs1 in Hcr. rewrite (IH s1 sa1 l1 s' live' Hc Hi1 Hsr1 H2 He8 Hcr w Hw). apply Hal; assumption.
Qed.

Theorem heap_mem_writes_aligned_proof : forall c ops s live,
  hcfg_ok c -> Forall hop_usize ops ->
  crun c (heap_init_state, []) ops = Some (s, live) ->
  forall w, w mod 8 <> 0 -> mget (h_mem s) w = 0.
Proof.
  intros c ops s live Hc Hd Hcr w Hw.
  assert (He8 : heap_end c mod 8 = 0).
  { destruct (heap_geometry c Hc) as (_ & _ & G3 & _). Z.div_mod_to_equations. lia. }
  rewrite (crun_aligned c ops heap_init_state ha_init_state [] s live Hc (hinv_init c) (SR_init c) Hd He8 Hcr w Hw). reflexivity.
Qed.


(* ---------- the mark invariant depends on what deallocall does ----------
   For either policy: "after any history, the state deallocall leaves behind carries no used mark"
   holds exactly when deallocall clears the marks.  Under the other policy the end node of
   HeapAllocator(200) keeps its mark (the stale-cookie defect repaired by 9ef0717). *)
Theorem deallocall_clears_iff_policy_proof : forall pol : bool,
  (forall c ops s live s', hcfg_ok c -> Forall hop_usize ops ->
     crun c (heap_init_state, []) ops = Some (s, live) ->
     hp_deallocall_p pol c s = HOk s' -> no_marks (h_mem s')) <-> pol = true.
Proof.
  intros pol. split.
  - intros H. destruct pol; [reflexivity|]. exfalso.
    pose (c := mkhcfg 8 200).
    assert (Hc : hcfg_ok c) by (unfold hcfg_ok, c, two64; vm_compute; repeat split; intros Hx; discriminate Hx).
    assert (Hd : Forall hop_usize [HAlloc 8]) by (constructor; [cbn; unfold usize, two64; lia | constructor]).
    destruct (crun c (heap_init_state, []) [HAlloc 8]) as [[s live]|] eqn:E; [|vm_compute in E; discriminate E].
    specialize (H c [HAlloc 8] s live _ Hc Hd E eq_refl).
    vm_compute in E. inversion E; subst s live. clear E.
    specialize (H 176 eq_refl). vm_compute in H. discriminate H.
  - intros -> c ops s live s' Hc Hd Hcr Hda.
    destruct (crun_sim c ops heap_init_state ha_init_state [] Hc (hinv_init c) (SR_init c) Hd) as (s0 & sa & l0 & H1 & H2 & Hi & Hsr).
    rewrite Hcr in H1. inversion H1; subst s0 l0. clear H1.
    destruct (cstep_sim c s sa live HDeallocAll Hc Hi Hsr I) as (s1 & sa1 & l1 & Hs1 & Ha1 & _ & (_ & _ & Hnm) & _).
    cbn [cstep hstep] in Hs1, Ha1. unfold hp_deallocall in Hs1. rewrite deallocall_policy in Hs1. rewrite Hda in Hs1.
    inversion Hs1; subst s1 l1. inversion Ha1; subst sa1. apply Hnm. reflexivity.
Qed.
