(* C11 - executable memory-level model of lib/allocators/heap.nelua (Heap + HeapAllocatorT).

   Memory is a finite map address -> 64-bit word ([mem] of Model.v).  A chunk header (HeapNode)
   at address n occupies the words n (size), n+8 (prev_adj), n+16 (next), n+24 (prev).
   The bins live in the allocator record, outside the buffer: a list of BIN_COUNT heads.
   Loops over bin lists that are unbounded in the source take fuel; running out of fuel is the
   distinguished result [HFuel].  A failed check/panic is [HPanic].
   The client's payload bytes are not part of this model (memory.copy in realloc only moves
   payload). No proofs in this file. *)
From Coq Require Import ZArith List Bool Lia.
From Base Require Import LuaInt.
From C11 Require Import Gen Model.
Import ListNotations.
Local Open Scope Z_scope.

Inductive hres (A : Type) : Type :=
| HOk (a : A)
| HPanic
| HFuel.
Arguments HOk {A} a.
Arguments HPanic {A}.
Arguments HFuel {A}.

Record hcfg := mkhcfg { h_base : Z; h_size : Z }.
Record hstate := mkhstate { h_initialized : bool; h_bins : list Z; h_mem : mem }.

Definition NODE := HEAP_NODE_SIZE.
Definition n_size (m : mem) (n : Z) := mget m n.
Definition n_prev_adj (m : mem) (n : Z) := mget m (n + 8).
Definition n_next (m : mem) (n : Z) := mget m (n + 16).
Definition n_prev (m : mem) (n : Z) := mget m (n + 24).

Definition heap_init_state : hstate := mkhstate false (repeat 0 (Z.to_nat BIN_COUNT)) [].

Definition set_used (m : mem) (n : Z) : mem := mset (mset m (n + 16) 1) (n + 24) NODE_COOKIE.
Definition is_used (m : mem) (n : Z) : bool := (n_next m n =? 1) && (n_prev m n =? NODE_COOKIE).

(* __builtin_clz on uint32 (undefined for 0; never reached with 0 by get_bin_index) *)
Definition clz32 (x : Z) : Z := if x <=? 0 then 32 else 31 - Z.log2 x.

Definition get_bin_index (size : Z) : Z :=
  if size <=? 2 ^ BIN_MIN_LOG then 0
  else if size >=? 2 ^ (BIN_MIN_LOG + BIN_COUNT) then BIN_COUNT - 1
  else BIN_CLZ_BASE - clz32 (size mod two32).

Definition bin_get (bins : list Z) (i : Z) : Z := nth (Z.to_nat i) bins 0.
Fixpoint list_set {A} (l : list A) (i : nat) (v : A) : list A :=
  match l, i with
  | [], _ => []
  | _ :: r, O => v :: r
  | x :: r, S k => x :: list_set r k v
  end.
Definition bin_set (bins : list Z) (i : Z) (v : Z) : list Z := list_set bins (Z.to_nat i) v.

Definition add_node (bins : list Z) (m : mem) (node : Z) : list Z * mem :=
  let i := get_bin_index (n_size m node) in
  let head := bin_get bins i in
  let m := mset m (node + 24) 0 in
  let m := if head =? 0 then mset m (node + 16) 0
           else mset (mset m (node + 16) head) (head + 24) node in
  (bin_set bins i node, m).

Definition remove_bin_node (bins : list Z) (m : mem) (bin_index node : Z) : list Z * mem :=
  let bins := if node =? bin_get bins bin_index then bin_set bins bin_index (n_next m node) else bins in
  let m := if n_prev m node =? 0 then m else mset m (n_prev m node + 16) (n_next m node) in
  let m := if n_next m node =? 0 then m else mset m (n_next m node + 24) (n_prev m node) in
  (bins, m).

Definition remove_node (bins : list Z) (m : mem) (node : Z) : list Z * mem :=
  remove_bin_node bins m (get_bin_index (n_size m node)) node.

Definition next_adj (m : mem) (n : Z) : Z := w64 (w64 (n + NODE) + n_size m n).

(* repair d9328b9: the end node of a region is marked used too, but it is the only used node of
   size 0; the address just past it is not an allocation *)
Definition get_ptr_node (m : mem) (p : Z) : Z :=
  if negb (Z.land p (ALLOC_ALIGN - 1) =? 0) then 0
  else let node := w64 (p - NODE) in
       if is_used m node && negb (n_size m node =? 0) then node else 0.

(* Heap:add_memory_region(&buffer[0], SIZE) on a zeroed Heap *)
Definition heap_init (c : hcfg) (s : hstate) : hres hstate :=
  let region_start := h_base c in
  let heap_start := align_forward region_start ALLOC_ALIGN in
  let region_offset := w64 (heap_start - region_start) in
  if h_size c <? w64 (region_offset + w64 (2 * NODE)) then HPanic
  else
    (* repair 23ac203: room for two nodes; the size is rounded down so that the end node is aligned *)
    let heap_size := align_down (w64 (w64 (h_size c - region_offset) - NODE)) ALLOC_ALIGN in
    let m := h_mem s in
    let m := mset m heap_start (w64 (heap_size - NODE)) in
    let m := mset m (heap_start + 8) 0 in
    let m := mset m (heap_start + 16) 0 in
    let m := mset m (heap_start + 24) 0 in
    let end_node := w64 (heap_start + heap_size) in
    let m := mset m end_node 0 in
    let m := mset m (end_node + 8) heap_start in
    let m := set_used m end_node in
    let '(bins, m) := add_node (repeat 0 (Z.to_nat BIN_COUNT)) m heap_start in
    HOk (mkhstate true bins m).

(* first pass: at most [n] lookups in one bin *)
Fixpoint bin_search_bounded (n : nat) (m : mem) (found size : Z) : option Z :=
  match n with
  | O => None
  | S k => if found =? 0 then None
           else if n_size m found >=? size then Some found
           else bin_search_bounded k m (n_next m found) size
  end.
(* second pass: unbounded in the source; None = fuel exhausted *)
Fixpoint bin_search_fuel (fuel : nat) (m : mem) (found size : Z) : option (option Z) :=
  match fuel with
  | O => None
  | S k => if found =? 0 then Some None
           else if n_size m found >=? size then Some (Some found)
           else bin_search_fuel k m (n_next m found) size
  end.

Fixpoint bins_pass1 (nb : nat) (bins : list Z) (m : mem) (bi size : Z) : option (Z * Z) :=
  match nb with
  | O => None
  | S k => match bin_search_bounded (Z.to_nat BIN_MAX_LOOKUPS) m (bin_get bins bi) size with
           | Some f => Some (f, bi)
           | None => bins_pass1 k bins m (bi + 1) size
           end
  end.
Fixpoint bins_pass2 (nb fuel : nat) (bins : list Z) (m : mem) (bi size : Z) : option (option (Z * Z)) :=
  match nb with
  | O => Some None
  | S k => match bin_search_fuel fuel m (bin_get bins bi) size with
           | None => None
           | Some (Some f) => Some (Some (f, bi))
           | Some None => bins_pass2 k fuel bins m (bi + 1) size
           end
  end.

Definition heap_fuel (c : hcfg) : nat := Z.to_nat (h_size c / NODE + 2).

Definition aligned_size (size : Z) : Z :=
  w64 (align_forward (w64 (size + NODE)) ALLOC_ALIGN - NODE).

(* size > (@usize)(-1) - #@HeapNode - ALLOC_ALIGN : aligning it would overflow *)
Definition size_too_large (size : Z) : bool :=
  size >? w64 (w64 (w64 (-1) - NODE) - ALLOC_ALIGN).

(* realloc's split: the remainder is merged with the chunk after it when that one is free
   (the size field of [node] still holds the old size) *)
Definition split_chunk_coalesce (bins : list Z) (m : mem) (node size : Z) : list Z * mem :=
  let split_size := w64 (w64 (n_size m node - size) - NODE) in
  let m := mset m node size in
  let split := next_adj m node in
  let m := mset m split split_size in
  let m := mset m (split + 8) node in
  let next := next_adj m split in
  let '(bins, m) :=
    if negb (is_used m next) then
      let '(bins, m) := remove_node bins m next in
      (bins, mset m split (w64 (w64 (n_size m split + NODE) + n_size m next)))
    else (bins, m) in
  let m := mset m (next_adj m split + 8) split in
  add_node bins m split.

(* split [node] (whose size field still holds the old size) down to [size]; adds the remainder
   to its bin *)
Definition split_chunk (bins : list Z) (m : mem) (node size : Z) : list Z * mem :=
  let split_size := w64 (w64 (n_size m node - size) - NODE) in
  let m := mset m node size in
  let split := next_adj m node in
  let m := mset m split split_size in
  let m := mset m (split + 8) node in
  let m := mset m (next_adj m split + 8) split in
  add_node bins m split.

Definition heap_alloc_raw (c : hcfg) (bins : list Z) (m : mem) (size : Z) : hres (list Z * mem * Z) :=
  if size =? 0 then HOk (bins, m, 0)
  else if size_too_large size then HOk (bins, m, 0)
  else
    let size := aligned_size size in
    let bi0 := get_bin_index size in
    let nb := Z.to_nat (BIN_COUNT - bi0) in
    let r := match bins_pass1 nb bins m bi0 size with
             | Some fb => Some (Some fb)
             | None => bins_pass2 nb (heap_fuel c) bins m bi0 size
             end in
    match r with
    | None => HFuel
    | Some None => HOk (bins, m, 0)
    | Some (Some (found, bi)) =>
        let '(bins, m) :=
          if n_size m found >? w64 (size + (NODE + MIN_ALLOC_SIZE))
          then split_chunk bins m found size else (bins, m) in
        let '(bins, m) := remove_bin_node bins m bi found in
        let m := set_used m found in
        HOk (bins, m, w64 (found + NODE))
    end.

Definition heap_dealloc_raw (bins : list Z) (m : mem) (p : Z) : hres (list Z * mem) :=
  if p =? 0 then HOk (bins, m)
  else
    let head := get_ptr_node m p in
    if head =? 0 then HPanic
    else
      let prev := n_prev_adj m head in
      let '(bins, m, head, next) :=
        if negb (prev =? 0) && negb (is_used m prev) then
          let '(bins, m) := remove_node bins m prev in
          let m := mset m prev (w64 (w64 (n_size m prev + NODE) + n_size m head)) in
          let next := next_adj m prev in
          let m := mset m (next + 8) prev in
          let m := mset m (head + 16) 0 in
          let m := mset m (head + 24) 0 in
          (bins, m, prev, next)
        else (bins, m, head, next_adj m head) in
      let '(bins, m) :=
        if negb (is_used m next) then
          let '(bins, m) := remove_node bins m next in
          let m := mset m head (w64 (w64 (n_size m head + NODE) + n_size m next)) in
          let m := mset m (next_adj m head + 8) head in
          (bins, m)
        else (bins, m) in
      HOk (add_node bins m head).

Definition heap_realloc_raw (c : hcfg) (bins : list Z) (m : mem) (p size : Z) : hres (list Z * mem * Z) :=
  if p =? 0 then heap_alloc_raw c bins m size
  else if size =? 0 then
    match heap_dealloc_raw bins m p with
    | HOk (bins, m) => HOk (bins, m, 0)
    | HPanic => HPanic
    | HFuel => HFuel
    end
  else
    let head := get_ptr_node m p in
    if head =? 0 then HPanic
    else if size_too_large size then HOk (bins, m, 0)
    else
      let size := aligned_size size in
      let shrink (bins : list Z) (m : mem) : hres (list Z * mem * Z) :=
        if (n_size m head >? size) && (n_size m head >? w64 (size + (NODE + MIN_ALLOC_SIZE)))
        then let '(bins, m) := split_chunk_coalesce bins m head size in HOk (bins, m, p)
        else HOk (bins, m, p) in
      if size >? n_size m head then
        let next := next_adj m head in
        if negb (is_used m next) && (w64 (w64 (n_size m head + n_size m next) + NODE) >=? size) then
          let '(bins, m) := remove_node bins m next in
          let m := mset m head (w64 (w64 (n_size m head + n_size m next) + NODE)) in
          let m := mset m (next_adj m head + 8) head in
          shrink bins m
        else
          match heap_alloc_raw c bins m size with
          | HOk (bins, m, newp) =>
              if newp =? 0 then HOk (bins, m, 0)
              else match heap_dealloc_raw bins m p with
                   | HOk (bins, m) => HOk (bins, m, newp)
                   | HPanic => HPanic
                   | HFuel => HFuel
                   end
          | HPanic => HPanic
          | HFuel => HFuel
          end
      else shrink bins m.

(* ---------- HeapAllocatorT ---------- *)
Definition ensure_init (c : hcfg) (s : hstate) : hres hstate :=
  if h_initialized s then HOk s else heap_init c s.

Definition hp_alloc (c : hcfg) (s : hstate) (size : Z) : hres (hstate * Z) :=
  match ensure_init c s with
  | HOk s =>
      match heap_alloc_raw c (h_bins s) (h_mem s) size with
      | HOk (bins, m, p) => HOk (mkhstate true bins m, p)
      | HPanic => HPanic
      | HFuel => HFuel
      end
  | HPanic => HPanic
  | HFuel => HFuel
  end.

Definition hp_dealloc (s : hstate) (p : Z) : hres hstate :=
  match heap_dealloc_raw (h_bins s) (h_mem s) p with
  | HOk (bins, m) => HOk (mkhstate (h_initialized s) bins m)
  | HPanic => HPanic
  | HFuel => HFuel
  end.

Definition heap_start (c : hcfg) : Z := align_forward (h_base c) ALLOC_ALIGN.
Definition heap_end (c : hcfg) : Z :=
  heap_start c + align_down (h_size c - (heap_start c - h_base c) - NODE) ALLOC_ALIGN.

(* HeapAllocatorT:deallocall (repair 9ef0717): when initialised, walk the chunks from heap_start and
   clear the next/prev words (the used marks) of every chunk and of the end node *)
Fixpoint clear_marks (fuel : nat) (m : mem) (cur hend : Z) : option mem :=
  match fuel with
  | O => None
  | S k =>
      if cur <? hend then
        let next := next_adj m cur in
        clear_marks k (mset (mset m (cur + 16) 0) (cur + 24) 0) next hend
      else Some (mset (mset m (cur + 16) 0) (cur + 24) 0)
  end.

(* parametric in what the source does: [clears] is scraped from HeapAllocatorT:deallocall
   (Gen.DEALLOCALL_CLEARS_MARKS: the walk that resets node.next / node.prev is there or not) *)
Definition hp_deallocall_p (clears : bool) (c : hcfg) (s : hstate) : hres hstate :=
  if clears && h_initialized s then
    match clear_marks (heap_fuel c) (h_mem s) (heap_start c) (heap_end c) with
    | Some m => HOk (mkhstate false (repeat 0 (Z.to_nat BIN_COUNT)) m)
    | None => HFuel
    end
  else HOk (mkhstate false (repeat 0 (Z.to_nat BIN_COUNT)) (h_mem s)).

Definition hp_deallocall (c : hcfg) (s : hstate) : hres hstate := hp_deallocall_p DEALLOCALL_CLEARS_MARKS c s.

Definition hp_realloc (c : hcfg) (s : hstate) (p newsize oldsize : Z) : hres (hstate * Z) :=
  match ensure_init c s with
  | HOk s =>
      if newsize =? oldsize then HOk (s, p)
      else
        match heap_realloc_raw c (h_bins s) (h_mem s) p newsize with
        | HOk (bins, m, q) => HOk (mkhstate true bins m, q)
        | HPanic => HPanic
        | HFuel => HFuel
        end
  | HPanic => HPanic
  | HFuel => HFuel
  end.

(* what the harness prints: the walk of all chunks from heap_start to the end node *)
Fixpoint heap_walk (fuel : nat) (m : mem) (cur hend : Z) : list (Z * Z * Z * Z * Z) * bool :=
  let item := (cur, n_size m cur, n_prev_adj m cur, n_next m cur, n_prev m cur) in
  if cur =? hend then ([item], true)
  else match fuel with
       | O => ([item], false)
       | S k =>
           let nxt := cur + NODE + n_size m cur in
           if (nxt >? hend) || (nxt <=? cur) then ([item], false)
           else let '(l, ok) := heap_walk k m nxt hend in (item :: l, ok)
       end.
