(* C11 - heap: payload contents.  realloc keeps the first min(old,new) bytes of the block and every
   byte of every other live block; alloc0 / realloc0 zero exactly the new bytes. *)
From Coq Require Import ZArith List Bool Lia.
From Base Require Import LuaInt.
From C11 Require Import Gen Model Heap HeapA Spec SpecHeap Common ProofsPool ProofsHeap.
Import ListNotations.
Local Open Scope Z_scope.

Lemma raw_inv_disjoint hs he chunks bins live : raw_inv hs he chunks bins live -> pairwise_disjoint live.
Proof.
  intros [Hpos Htop Ht Hal Hb (HF & Hnd & _)]. pose proof NODE_eq as HN.
  pose proof (tiled_bounds _ _ _ Ht) as HBd. rewrite Forall_forall in HBd. rewrite Forall_forall in HF.
  induction live as [|b r IH]; cbn [pairwise_disjoint]; [exact I|].
  cbn [map] in Hnd. inversion Hnd as [|? ? Hnot Hnd']; subst.
  split; [|apply IH; [intros y Hy; apply HF; right; exact Hy | exact Hnd']].
  rewrite Forall_forall. intros b' Hb'.
  destruct (HF b (or_introl eq_refl)) as (x & Hx & _ & Ha & Hs).
  destruct (HF b' (or_intror Hb')) as (x' & Hx' & _ & Ha' & Hs').
  assert (Hne : x <> x').
  { intros ->. apply Hnot. rewrite Ha, <- Ha'. apply in_map. exact Hb'. }
  destruct (tiled_disjoint _ _ _ x x' Ht Hx Hx' Hne); unfold blk_disjoint; lia.
Qed.

(* when realloc returns a different pointer, the new block comes from a fresh allocation of a size
   larger than the old chunk and is disjoint from every block that was live *)
Lemma realloc_moved_spec hs he chunks bins live i b n ch' b' q :
  raw_inv hs he chunks bins live -> nth_error live i = Some b -> 0 < n < two64 ->
  ha_realloc_raw chunks bins (b_addr b) n = HOk (ch', b', q) -> q <> 0 -> q <> b_addr b ->
  exists size, size_at chunks (w64 (b_addr b - NODE)) < size /\
    b_size b <= size_at chunks (w64 (b_addr b - NODE)) /\
    Forall (blk_disjoint (mkblk q size)) live.
Proof.
  intros Hinv Hn Hn0 H Hq Hqp.
  destruct (live_chunk _ _ _ _ _ _ _ Hinv Hn) as (pre & x & post & -> & Hu & Ha & Hsz & Hnz & Hmis & Hw & Hfind).
  unfold ha_realloc_raw in H. rewrite Hnz in H.
  assert (E0 : (n =? 0) = false) by (apply Z.eqb_neq; lia). rewrite E0, Hmis, Hw, Hfind, Hu in H. cbn [negb] in H.
  destruct (size_too_large n); [inversion H; subst; contradiction|].
  set (size := aligned_size n) in *.
  rewrite Hw, (size_at_found _ _ _ _ _ Hfind).
  assert (Hmove : forall r,
    (let '(ch, b1, newp) := ha_alloc_raw (pre ++ x :: post) bins size in
     if newp =? 0 then HOk (ch, b1, 0)
     else match ha_dealloc_raw ch b1 (b_addr b) with
          | HOk (ch2, b2) => HOk (ch2, b2, newp)
          | HPanic => HPanic
          | HFuel => HFuel
          end) = r -> r = HOk (ch', b', q) -> c_sz x < size ->
    exists size0, c_sz x < size0 /\ b_size b <= c_sz x /\ Forall (blk_disjoint (mkblk q size0)) live).
  { intros r Hr1 Hr2 Hlt. subst r.
    assert (Hsz2 : 0 <= size < two64) by (unfold size, aligned_size, w64, two64; lia).
    destruct (ha_alloc_raw_ok hs he _ bins live size Hinv Hsz2) as (ch & b1 & newp & Haa & Hcase).
    rewrite Haa in Hr2. destruct Hcase as [(-> & -> & ->) | (Hnz1 & Hinv1)].
    - cbn [Z.eqb] in Hr2. inversion Hr2; subst. contradiction.
    - apply Z.eqb_neq in Hnz1. rewrite Hnz1 in Hr2.
      destruct (ha_dealloc_raw ch b1 (b_addr b)) as [[ch2 b2]| |]; try discriminate. inversion Hr2; subst.
      exists size. split; [exact Hlt|]. split; [lia|].
      pose proof (raw_inv_disjoint _ _ _ _ _ Hinv1) as Hd. cbn [pairwise_disjoint] in Hd. apply Hd. }
  destruct (size >? c_sz x) eqn:Eg.
  - apply Z.gtb_lt in Eg.
    destruct post as [|nx post']; [apply (Hmove _ eq_refl H); lia|].
    destruct (negb (c_used nx) && (w64 (w64 (c_sz x + c_sz nx) + NODE) >=? size)); [|apply (Hmove _ eq_refl H); lia].
    exfalso. inversion H as [Hsh]. unfold ha_shrink in Hsh.
    destruct (_ && _) in Hsh; [destruct post' as [|z p2]; [|destruct (c_used z)]|]; inversion Hsh; subst; contradiction.
  - exfalso. inversion H as [Hsh]. unfold ha_shrink in Hsh.
    destruct (_ && _) in Hsh; [destruct post as [|z p2]; [|destruct (c_used z)]|]; inversion Hsh; subst; contradiction.
Qed.

Theorem heap_realloc_preserves_proof : forall c ops sa live i b n (bts : Z -> Z) s' q,
  hcfg_ok c -> Forall hop_usize ops -> hrun c (ha_init_state, []) ops = Some (sa, live) ->
  nth_error live i = Some b -> 0 < n < two64 ->
  hb_realloc c (mkhb sa bts) (b_addr b) n (b_size b) = HOk (s', q) -> q <> 0 ->
  (forall k, 0 <= k < Z.min n (b_size b) -> hb_bytes s' (q + k) = bts (b_addr b + k)) /\
  (forall j b', j <> i -> nth_error live j = Some b' ->
     forall k, 0 <= k < b_size b' -> hb_bytes s' (b_addr b' + k) = bts (b_addr b' + k)).
Proof.
  intros c ops sa live i b n bts s' q Hc Hd Hr Hn Hn0 Hre Hq.
  destruct (hrun_ok c ops ha_init_state [] Hc (hinv_init c) Hd) as (s0 & l0 & Hr0 & Hi).
  rewrite Hr in Hr0. inversion Hr0; subst s0 l0. clear Hr0.
  unfold hinv in Hi. destruct (ha_initialized sa) eqn:Ein; [|subst live; destruct i; discriminate].
  unfold hb_realloc in Hre. cbn [hb_st hb_bytes] in Hre.
  destruct (ha_realloc c sa (b_addr b) n (b_size b)) as [[s1 q1]| |] eqn:Er; try discriminate.
  inversion Hre; subst s' q1. clear Hre. cbn [hb_bytes].
  destruct (live_chunk _ _ _ _ _ _ _ Hi Hn) as (pre & x & post & Ech & Hu & Ha & Hsz & Hnz & Hmis & Hw & Hfind).
  rewrite Hnz. cbn [negb andb]. apply Z.eqb_neq in Hq. rewrite Hq. cbn [negb andb]. apply Z.eqb_neq in Hq.
  destruct (q =? b_addr b) eqn:Eqp.
  - apply Z.eqb_eq in Eqp. subst q. cbn [negb]. split; intros; reflexivity.
  - apply Z.eqb_neq in Eqp. cbn [negb].
    unfold ha_realloc, ha_ensure_init in Er. rewrite Ein in Er.
    destruct (n =? b_size b); [inversion Er; subst; contradiction|].
    destruct (ha_realloc_raw (ha_chunks sa) (ha_bins sa) (b_addr b) n) as [[[ch' b'] q']| |] eqn:Err; try discriminate.
    inversion Er; subst s1 q'. clear Er.
    destruct (realloc_moved_spec _ _ _ _ _ i b n ch' b' q Hi Hn Hn0 Err Hq Eqp) as (size & Hlt & Hle & Hdis).
    unfold chunk_size_of. set (csz := size_at (ha_chunks sa) (w64 (b_addr b - NODE))) in *.
    unfold bcopy. rewrite Forall_forall in Hdis. split.
    + intros k Hk.
      assert (E : (q <=? q + k) && (q + k <? q + csz) = true).
      { apply andb_true_intro. split; [apply Z.leb_le | apply Z.ltb_lt]; lia. }
      rewrite E. f_equal. lia.
    + intros j b2 Hj Hnj k Hk.
      pose proof (Hdis b2 (nth_error_In _ _ Hnj)) as Hd2. unfold blk_disjoint in Hd2. cbn [b_addr b_size] in Hd2.
      assert (E : (q <=? b_addr b2 + k) && (b_addr b2 + k <? q + csz) = false).
      { apply andb_false_iff. destruct Hd2; [right; apply Z.ltb_ge | left; apply Z.leb_gt]; lia. }
      rewrite E. reflexivity.
Qed.

(* zeroing variants: exactly the new bytes are zeroed, nothing else is written *)
Theorem heap_alloc0_zeroes_proof : forall c s n s1 p s0,
  hb_alloc c s n = HOk (s1, p) -> hb_alloc0 c s n = HOk (s0, p) -> p <> 0 ->
  forall x, hb_bytes s0 x = if (p <=? x) && (x <? p + n) then 0 else hb_bytes s x.
Proof.
  intros c s n s1 p s0 Ha H0 Hp x. unfold hb_alloc0 in H0. rewrite Ha in H0.
  apply Z.eqb_neq in Hp. rewrite Hp in H0. inversion H0; subst. cbn [hb_bytes]. unfold bzero.
  unfold hb_alloc in Ha. destruct (ha_alloc c (hb_st s) n) as [[s' p']| |]; inversion Ha; subst. reflexivity.
Qed.

Theorem heap_realloc0_zeroes_proof : forall c s p n old s1 q s0,
  hb_realloc c s p n old = HOk (s1, q) -> hb_realloc0 c s p n old = HOk (s0, q) ->
  q <> 0 -> old < n ->
  forall x, hb_bytes s0 x = if (q + old <=? x) && (x <? q + n) then 0 else hb_bytes s1 x.
Proof.
  intros c s p n old s1 q s0 Hr H0 Hq Hlt x. unfold hb_realloc0 in H0. rewrite Hr in H0.
  apply Z.eqb_neq in Hq. rewrite Hq in H0.
  assert (E : (n >? old) = true) by (apply Z.gtb_lt; lia). rewrite E in H0.
  cbn [negb andb] in H0. inversion H0; subst. cbn [hb_bytes]. unfold bzero.
  replace (q + old + (n - old)) with (q + n) by lia. reflexivity.
Qed.
