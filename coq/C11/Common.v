(* C11 - lemmas shared by the allocator proofs: alignment by mask, finite memory, lists of blocks *)
From Coq Require Import ZArith List Bool Lia.
From Base Require Import LuaInt.
From C11 Require Import Gen Model Spec.
Import ListNotations.
Local Open Scope Z_scope.

Lemma two64_eq : two64 = 2 ^ 64. Proof. reflexivity. Qed.

Lemma w64_small x : 0 <= x < two64 -> w64 x = x.
Proof. intros. unfold w64. apply Z.mod_small; lia. Qed.

(* (addr + (al-1)) & ~(al-1) rounds up to a multiple of al when nothing wraps *)
Lemma align_forward_eq a k :
  0 <= k < 64 -> 0 <= a -> a + 2 ^ k <= two64 ->
  align_forward a (2 ^ k) = (a + (2 ^ k - 1)) / 2 ^ k * 2 ^ k.
Proof.
  intros Hk Ha Hw. unfold align_forward.
  assert (Hp : 0 < 2 ^ k) by (apply Z.pow_pos_nonneg; lia).
  rewrite (w64_small (a + (2 ^ k - 1))) by lia.
  set (X := a + (2 ^ k - 1)).
  assert (HX : 0 <= X < 2 ^ 64) by (rewrite <- two64_eq; unfold X; lia).
  replace (2 ^ k - 1) with (Z.ones k) by (rewrite Z.ones_equiv; lia).
  unfold w64. rewrite two64_eq. rewrite <- (Z.land_ones (Z.lnot (Z.ones k)) 64) by lia.
  rewrite (Z.land_comm (Z.lnot (Z.ones k))). rewrite Z.land_assoc.
  rewrite (Z.land_ones X 64) by lia. rewrite (Z.mod_small X) by lia.
  rewrite <- Z.ldiff_land. rewrite Z.ldiff_ones_r by lia.
  rewrite Z.shiftl_mul_pow2 by lia. rewrite Z.shiftr_div_pow2 by lia. reflexivity.
Qed.

(* x & ~(al-1) rounds down to a multiple of al *)
Lemma align_down_eq x k : 0 <= k < 64 -> 0 <= x < two64 -> align_down x (2 ^ k) = x / 2 ^ k * 2 ^ k.
Proof.
  intros Hk Hx. unfold align_down.
  assert (Hp : 0 < 2 ^ k) by (apply Z.pow_pos_nonneg; lia).
  assert (HX : 0 <= x < 2 ^ 64) by (rewrite <- two64_eq; lia).
  replace (2 ^ k - 1) with (Z.ones k) by (rewrite Z.ones_equiv; lia).
  unfold w64. rewrite two64_eq. rewrite <- (Z.land_ones (Z.lnot (Z.ones k)) 64) by lia.
  rewrite (Z.land_comm (Z.lnot (Z.ones k))). rewrite Z.land_assoc.
  rewrite (Z.land_ones x 64) by lia. rewrite (Z.mod_small x) by lia.
  rewrite <- Z.ldiff_land. rewrite Z.ldiff_ones_r by lia.
  rewrite Z.shiftl_mul_pow2 by lia. rewrite Z.shiftr_div_pow2 by lia. reflexivity.
Qed.

Lemma align_down16 x : 0 <= x < two64 -> align_down x 16 = x - x mod 16.
Proof.
  intros Hx. change 16 with (2 ^ 4) at 1. rewrite align_down_eq by lia. change (2 ^ 4) with 16.
  pose proof (Z.div_mod x 16 ltac:(lia)). lia.
Qed.

Lemma align_forward_spec a al :
  pow2 al -> 0 <= a -> a + al <= two64 ->
  a <= align_forward a al < a + al /\ align_forward a al mod al = 0.
Proof.
  intros [k [Hk ->]] Ha Hw.
  rewrite align_forward_eq by lia.
  assert (Hp : 0 < 2 ^ k) by (apply Z.pow_pos_nonneg; lia).
  set (X := a + (2 ^ k - 1)).
  pose proof (Z.div_mod X (2 ^ k) ltac:(lia)) as Hd.
  pose proof (Z.mod_pos_bound X (2 ^ k) Hp) as Hm.
  split; [|apply Z.mod_mul; lia].
  unfold X in *. nia.
Qed.

(* x & (al-1) == 0  <->  x mod al = 0 *)
Lemma land_mask_mod x al : pow2 al -> Z.land x (al - 1) = x mod al.
Proof.
  intros [k [Hk ->]]. replace (2 ^ k - 1) with (Z.ones k) by (rewrite Z.ones_equiv; lia).
  apply Z.land_ones; lia.
Qed.

Lemma pow2_pos al : pow2 al -> 0 < al.
Proof. intros [k [Hk ->]]. apply Z.pow_pos_nonneg; lia. Qed.

(* ---------- finite memory ---------- *)
Lemma mget_mset_same m k v : mget (mset m k v) k = v.
Proof.
  induction m as [|[k' v'] r IH]; cbn.
  - rewrite Z.eqb_refl. reflexivity.
  - destruct (k =? k') eqn:E; cbn.
    + rewrite Z.eqb_refl. reflexivity.
    + rewrite E. exact IH.
Qed.

Lemma mget_mset_other m k v k' : k' <> k -> mget (mset m k v) k' = mget m k'.
Proof.
  intros Hne. induction m as [|[k0 v0] r IH]; cbn.
  - destruct (k' =? k) eqn:E; [apply Z.eqb_eq in E; contradiction | reflexivity].
  - destruct (k =? k0) eqn:E; cbn.
    + apply Z.eqb_eq in E. subst k0.
      destruct (k' =? k) eqn:E2; [apply Z.eqb_eq in E2; contradiction | reflexivity].
    + destruct (k' =? k0); [reflexivity | exact IH].
Qed.

(* ---------- lists of blocks ---------- *)
Lemma blk_disjoint_sym a b : blk_disjoint a b -> blk_disjoint b a.
Proof. unfold blk_disjoint. lia. Qed.

Lemma Forall_remove_nth {A} (P : A -> Prop) i l : Forall P l -> Forall P (remove_nth i l).
Proof.
  revert i. induction l as [|x r IH]; intros i H; destruct i; cbn; auto.
  - inversion H; auto.
  - inversion H; subst. constructor; auto.
Qed.

Lemma pairwise_remove_nth i l : pairwise_disjoint l -> pairwise_disjoint (remove_nth i l).
Proof.
  revert i. induction l as [|x r IH]; intros i H; destruct i; cbn in *; auto.
  - tauto.
  - destruct H as [H1 H2]. split; [apply Forall_remove_nth; exact H1 | apply IH; exact H2].
Qed.

Lemma pairwise_app_one l b :
  pairwise_disjoint l -> Forall (fun x => blk_disjoint x b) l -> pairwise_disjoint (l ++ [b]).
Proof.
  induction l as [|x r IH]; cbn; intros H F.
  - split; constructor.
  - destruct H as [H1 H2]. inversion F; subst. split.
    + apply Forall_app. split; [exact H1 | constructor; [assumption | constructor]].
    + apply IH; assumption.
Qed.

Lemma pairwise_others i l b :
  nth_error l i = Some b -> pairwise_disjoint l -> Forall (fun x => blk_disjoint x b) (remove_nth i l).
Proof.
  revert i. induction l as [|x r IH]; intros i Hn H; destruct i; cbn in *; try discriminate.
  - inversion Hn; subst. destruct H as [H1 _].
    eapply Forall_impl; [|exact H1]. intros a Ha. apply blk_disjoint_sym. exact Ha.
  - destruct H as [H1 H2]. constructor.
    + rewrite Forall_forall in H1. apply H1. eapply nth_error_In; exact Hn.
    + eapply IH; eassumption.
Qed.

Lemma nth_error_remove_In {A} i (l : list A) x : In x (remove_nth i l) -> In x l.
Proof.
  revert i. induction l as [|y r IH]; intros i H; destruct i; cbn in *; auto.
  destruct H; [left; assumption | right; eapply IH; eassumption].
Qed.

(* the repaired overflow test: next_offset > SIZE or next_offset < offset *)
Lemma w64_sub_two64 x : two64 <= x < 2 * two64 -> w64 x = x - two64.
Proof. intros H. unfold w64, two64 in *. lia. Qed.

Lemma overflow_test_false off n S :
  0 <= off < two64 -> 0 <= n < two64 ->
  (w64 (off + n) >? S) || (w64 (off + n) <? off) = false ->
  w64 (off + n) = off + n /\ off + n <= S.
Proof.
  intros Ho Hn H. apply orb_false_elim in H. destruct H as [H1 H2].
  rewrite Z.gtb_ltb in H1. apply Z.ltb_ge in H1. apply Z.ltb_ge in H2.
  destruct (Z_lt_ge_dec (off + n) two64) as [Hs | Hb].
  - rewrite w64_small in * by lia. lia.
  - rewrite w64_sub_two64 in * by lia. lia.
Qed.
