(* C11 - heap: no two adjacent free chunks (partial) and release-all-restores (partial) *)
From Coq Require Import ZArith List Bool Lia.
From Base Require Import LuaInt.
From C11 Require Import Gen Model Heap HeapA Spec SpecHeap Common ProofsPool ProofsHeap.
Import ListNotations.
Local Open Scope Z_scope.

(* [pf]: "the chunk just before this list is free" *)
Fixpoint naf_from (pf : bool) (l : list chunk) : Prop :=
  match l with
  | [] => True
  | c :: r => (pf = true -> c_used c = true) /\ naf_from (negb (c_used c)) r
  end.

Fixpoint lastfree (pf : bool) (l : list chunk) : bool :=
  match l with
  | [] => pf
  | c :: r => lastfree (negb (c_used c)) r
  end.

Lemma naf_iff l : no_adjacent_free l <-> naf_from false l.
Proof.
  induction l as [|c r IH]; cbn [no_adjacent_free naf_from]; [tauto|].
  destruct r as [|c2 r'].
  - cbn. split; intros; [split; [discriminate | exact I] | exact I].
  - rewrite IH. cbn [naf_from]. split.
    + intros [Hor [H2 H3]]. split; [discriminate|]. split; [|exact H3].
      intros Hf. apply negb_true_iff in Hf. destruct Hor; congruence.
    + intros [_ [H2 H3]]. split; [|split; [discriminate | exact H3]].
      destruct (c_used c) eqn:E; [left; reflexivity | right; apply H2; reflexivity].
Qed.

Lemma naf_app pf l1 l2 : naf_from pf (l1 ++ l2) <-> naf_from pf l1 /\ naf_from (lastfree pf l1) l2.
Proof.
  revert pf. induction l1 as [|c r IH]; intros pf; cbn [app naf_from lastfree]; [tauto|].
  rewrite IH. tauto.
Qed.

Definition head_used (l : list chunk) : Prop := match l with [] => True | c :: _ => c_used c = true end.

Lemma naf_weaken pf pf' l : naf_from pf l -> (pf' = true -> head_used l) -> naf_from pf' l.
Proof. destruct l as [|c r]; cbn; [auto|]. intros [H1 H2] H. split; [exact H | exact H2]. Qed.

Lemma naf_head pf l : naf_from pf l -> pf = true -> head_used l.
Proof. destruct l as [|c r]; cbn; [auto|]. intros [H1 _] H. auto. Qed.

(* replace the middle segment *)
Lemma naf_surgery pf A M M' B :
  naf_from pf (A ++ M ++ B) ->
  naf_from (lastfree pf A) M' ->
  (lastfree (lastfree pf A) M' = true -> head_used B) ->
  naf_from pf (A ++ M' ++ B).
Proof.
  intros H HM HB. apply naf_app in H. destruct H as [HA H]. apply naf_app in H. destruct H as [_ HB0].
  apply naf_app. split; [exact HA|]. apply naf_app. split; [exact HM|].
  eapply naf_weaken; [exact HB0 | exact HB].
Qed.

Lemma lastfree_app pf l1 l2 : lastfree pf (l1 ++ l2) = lastfree (lastfree pf l1) l2.
Proof. revert pf. induction l1 as [|c r IH]; intros pf; cbn; auto. Qed.

(* what the invariant says around a chunk *)
Lemma naf_around pf A x B :
  naf_from pf (A ++ x :: B) -> c_used x = false -> lastfree pf A = false /\ head_used B.
Proof.
  intros H Hx. apply naf_app in H. destruct H as [_ H]. cbn [naf_from] in H. destruct H as [H1 H2].
  rewrite Hx in H2. cbn in H2. split.
  - destruct (lastfree pf A); [specialize (H1 eq_refl); congruence | reflexivity].
  - eapply naf_head; [exact H2 | reflexivity].
Qed.

(* ---------- dealloc keeps the invariant (pure case analysis on the definition) ---------- *)
Lemma app_cons_mid {A} (pre : list A) x post : pre ++ x :: post = pre ++ [x] ++ post.
Proof. reflexivity. Qed.

Lemma dealloc_naf chunks bins p ch' b' :
  ha_dealloc_raw chunks bins p = HOk (ch', b') -> naf_from false chunks -> naf_from false ch'.
Proof.
  unfold ha_dealloc_raw. intros H Hn.
  destruct (p =? 0); [inversion H; subst; exact Hn|].
  destruct (ptr_misaligned p); [discriminate|].
  destruct (find_chunk _ chunks) as [[[pre x] post]|] eqn:Ef; [|discriminate].
  apply find_chunk_spec in Ef. destruct Ef as [-> _].
  destruct (c_used x) eqn:Eux; cbn [negb] in H; [|discriminate].
  destruct (split_last pre) as [[pre0 pv]|] eqn:Esl.
  - apply split_last_spec in Esl. subst pre.
    destruct (c_used pv) eqn:Eupv.
    + (* prev used *)
      assert (Hlf : lastfree false (pre0 ++ [pv]) = false).
      { rewrite lastfree_app. cbn. rewrite Eupv. reflexivity. }
      destruct post as [|nx post'].
      * inversion H; subst. clear H.
        change ((pre0 ++ [pv]) ++ [x]) with ((pre0 ++ [pv]) ++ [x] ++ []) in Hn.
        apply (naf_surgery false (pre0 ++ [pv]) [x] [_] [] Hn); [rewrite Hlf; cbn; split; [discriminate | exact I] | intros _; exact I].
      * destruct (c_used nx) eqn:Eunx; inversion H; subst; clear H.
        -- rewrite app_cons_mid in Hn.
           apply (naf_surgery false (pre0 ++ [pv]) [x] [_] (nx :: post') Hn); [rewrite Hlf; cbn; split; [discriminate | exact I] | intros _; exact Eunx].
        -- change ((pre0 ++ [pv]) ++ x :: nx :: post') with ((pre0 ++ [pv]) ++ [x; nx] ++ post') in Hn.
           assert (Hh : head_used post').
           { change ((pre0 ++ [pv]) ++ [x; nx] ++ post') with ((pre0 ++ [pv]) ++ x :: nx :: post') in Hn.
             replace ((pre0 ++ [pv]) ++ x :: nx :: post') with (((pre0 ++ [pv]) ++ [x]) ++ nx :: post') in Hn by (rewrite <- app_assoc; reflexivity).
             apply (naf_around _ _ _ _ Hn Eunx). }
           apply (naf_surgery false (pre0 ++ [pv]) [x; nx] [_] post' Hn); [rewrite Hlf; cbn; split; [discriminate | exact I] | intros _; exact Hh].
    + (* prev free *)
      assert (Hlf : lastfree false pre0 = false).
      { rewrite <- app_assoc in Hn. cbn [app] in Hn. apply (naf_around _ _ _ _ Hn Eupv). }
      destruct post as [|nx post'].
      * inversion H; subst. clear H.
        rewrite <- app_assoc in Hn. cbn [app] in Hn.
        change (pre0 ++ pv :: [x]) with (pre0 ++ [pv; x] ++ []) in Hn.
        apply (naf_surgery false pre0 [pv; x] [_] [] Hn); [rewrite Hlf; cbn; split; [discriminate | exact I] | intros _; exact I].
      * destruct (c_used nx) eqn:Eunx; inversion H; subst; clear H.
        -- rewrite <- app_assoc in Hn. cbn [app] in Hn.
           change (pre0 ++ pv :: x :: nx :: post') with (pre0 ++ [pv; x] ++ nx :: post') in Hn.
           apply (naf_surgery false pre0 [pv; x] [_] (nx :: post') Hn); [rewrite Hlf; cbn; split; [discriminate | exact I] | intros _; exact Eunx].
        -- rewrite <- app_assoc in Hn. cbn [app] in Hn.
           assert (Hh : head_used post').
           { replace (pre0 ++ pv :: x :: nx :: post') with ((pre0 ++ [pv; x]) ++ nx :: post') in Hn by (rewrite <- app_assoc; reflexivity).
             apply (naf_around _ _ _ _ Hn Eunx). }
           change (pre0 ++ pv :: x :: nx :: post') with (pre0 ++ [pv; x; nx] ++ post') in Hn.
           apply (naf_surgery false pre0 [pv; x; nx] [_] post' Hn); [rewrite Hlf; cbn; split; [discriminate | exact I] | intros _; exact Hh].
  - apply split_last_none in Esl. subst pre. cbn [app] in *.
    destruct post as [|nx post'].
    + inversion H; subst. cbn. split; [discriminate | exact I].
    + destruct (c_used nx) eqn:Eunx; inversion H; subst; clear H.
      * apply (naf_surgery false [] [x] [_] (nx :: post') Hn); [cbn; split; [discriminate | exact I] | intros _; exact Eunx].
      * assert (Hh : head_used post').
        { change (x :: nx :: post') with ([x] ++ nx :: post') in Hn. apply (naf_around _ _ _ _ Hn Eunx). }
        apply (naf_surgery false [] [x; nx] [_] post' Hn); [cbn; split; [discriminate | exact I] | intros _; exact Hh].
Qed.

(* ---------- alloc ---------- *)
Lemma alloc_naf hs he chunks bins live n ch' b' p :
  raw_inv hs he chunks bins live ->
  ha_alloc_raw chunks bins n = (ch', b', p) -> naf_from false chunks -> naf_from false ch'.
Proof.
  intros Hinv H Hnaf. unfold ha_alloc_raw in H.
  destruct (n =? 0) eqn:E0; [inversion H; subst; exact Hnaf|].
  destruct (size_too_large n); [inversion H; subst; exact Hnaf|].
  apply Z.eqb_neq in E0.
  set (size := aligned_size n) in *.
  set (r := match a_pass (Some (Z.to_nat BIN_MAX_LOOKUPS)) _ chunks bins _ size with
            | Some fb => Some fb | None => _ end) in H.
  assert (Hr : forall a bi, r = Some (a, bi) -> 0 <= bi < BIN_COUNT /\ In a (bin_nth bins bi)).
  { intros a bi Hra. pose proof (get_bin_index_range size) as Hir. subst r.
    destruct (a_pass (Some _) _ chunks bins _ size) as [[a1 b1]|] eqn:P1.
    - inversion Hra; subst. apply a_pass_spec in P1. destruct P1 as (P & Q & _). split; [lia | exact Q].
    - apply a_pass_spec in Hra. destruct Hra as (P & Q & _). split; [lia | exact Q]. }
  destruct r as [[a bi]|] eqn:Er; [|inversion H; subst; exact Hnaf].
  destruct (Hr a bi eq_refl) as (Hbi & Hin). clear Hr.
  pose proof Hinv as [Hpos Htop Ht Hal Hb Hl].
  destruct Hb as (HL & Hb). destruct (Hb bi Hbi) as [_ Hfree]. apply Hfree in Hin.
  destruct Hin as (x & Hx & Hxa & Hxf & Hxi).
  destruct (in_split _ _ Hx) as (pre & post & ->).
  subst a. rewrite (find_chunk_tiled _ _ _ _ _ Ht) in H.
  destruct (naf_around _ _ _ _ Hnaf Hxf) as [Hlf Hh].
  rewrite app_cons_mid in Hnaf.
  destruct (wants_split x size); inversion H; subst; clear H.
  - apply (naf_surgery false pre [x] [_; _] post Hnaf).
    + rewrite Hlf. cbn. repeat split; discriminate.
    + intros _. exact Hh.
  - apply (naf_surgery false pre [x] [_] post Hnaf).
    + rewrite Hlf. cbn. repeat split; discriminate.
    + intros _. exact Hh.
Qed.

(* ---------- realloc ---------- *)
Lemma shrink_naf pre x post bins size p ch' b' q :
  ha_shrink pre x post bins size p = (ch', b', q) -> c_used x = true ->
  naf_from false (pre ++ x :: post) -> naf_from false ch'.
Proof.
  unfold ha_shrink. intros H Hux Hnaf.
  destruct ((c_sz x >? size) && wants_split x size); [|inversion H; subst; exact Hnaf].
  destruct post as [|nx post'].
  - inversion H; subst; clear H. rewrite app_cons_mid in Hnaf.
    apply (naf_surgery false pre [x] [_; _] [] Hnaf); [cbn; repeat split; discriminate | intros _; exact I].
  - destruct (c_used nx) eqn:Eunx; inversion H; subst; clear H.
    + rewrite app_cons_mid in Hnaf.
      apply (naf_surgery false pre [x] [_; _] (nx :: post') Hnaf); [cbn; repeat split; discriminate | intros _; exact Eunx].
    + assert (Hh : head_used post').
      { replace (pre ++ x :: nx :: post') with ((pre ++ [x]) ++ nx :: post') in Hnaf by (rewrite <- app_assoc; reflexivity).
        apply (naf_around _ _ _ _ Hnaf Eunx). }
      change (pre ++ x :: nx :: post') with (pre ++ [x; nx] ++ post') in Hnaf.
      apply (naf_surgery false pre [x; nx] [_; _] post' Hnaf); [cbn; repeat split; discriminate | intros _; exact Hh].
Qed.

Lemma realloc_naf hs he chunks bins live p n ch' b' q :
  raw_inv hs he chunks bins live -> p <> 0 -> n <> 0 ->
  ha_realloc_raw chunks bins p n = HOk (ch', b', q) ->
  naf_from false chunks -> naf_from false ch'.
Proof.
  intros Hinv Hp Hn H Hnaf. unfold ha_realloc_raw in H.
  apply Z.eqb_neq in Hp. rewrite Hp in H.
  assert (E0 : (n =? 0) = false) by (apply Z.eqb_neq; lia). rewrite E0 in H.
  destruct (ptr_misaligned p); [discriminate|].
  destruct (find_chunk _ chunks) as [[[pre x] post]|] eqn:Ef; [|discriminate].
  pose proof Ef as Ef'. apply find_chunk_spec in Ef'. destruct Ef' as [Ech _].
  destruct (c_used x) eqn:Eux; cbn [negb] in H; [|discriminate].
  destruct (size_too_large n); [inversion H; subst; exact Hnaf|].
  set (size := aligned_size n) in *.
  (* the moving branch *)
  assert (Hmove : forall r,
    (let '(ch, b1, newp) := ha_alloc_raw chunks bins size in
     if newp =? 0 then HOk (ch, b1, 0)
     else match ha_dealloc_raw ch b1 p with
          | HOk (ch2, b2) => HOk (ch2, b2, newp)
          | HPanic => HPanic
          | HFuel => HFuel
          end) = r -> r = HOk (ch', b', q) -> naf_from false ch').
  { intros r Hr1 Hr2. subst r.
    destruct (ha_alloc_raw chunks bins size) as [[ch b1] newp] eqn:Ea.
    pose proof (alloc_naf hs he chunks bins live size ch b1 newp Hinv Ea Hnaf) as Hn1.
    destruct (newp =? 0); [inversion Hr2; subst; exact Hn1|].
    destruct (ha_dealloc_raw ch b1 p) as [[ch2 b2]| |] eqn:Ed; try discriminate.
    inversion Hr2; subst. eapply dealloc_naf; eassumption. }
  destruct (size >? c_sz x) eqn:Eg.
  - destruct post as [|nx post']; [eapply Hmove; [reflexivity | exact H]|].
    destruct (negb (c_used nx) && (w64 (w64 (c_sz x + c_sz nx) + NODE) >=? size)) eqn:Ec;
      [|eapply Hmove; [reflexivity | exact H]].
    inversion H as [Hsh]. clear H. subst chunks.
    eapply (shrink_naf pre _ post' _ size p ch' b' q Hsh eq_refl).
    change (pre ++ x :: nx :: post') with (pre ++ [x; nx] ++ post') in Hnaf.
    apply (naf_surgery false pre [x; nx] [_] post' Hnaf).
    + cbn. split; [intros _; reflexivity | exact I].
    + cbn. discriminate.
  - inversion H as [Hsh]. clear H. subst chunks.
    eapply (shrink_naf pre x post bins size p ch' b' q Hsh Eux). exact Hnaf.
Qed.

(* ---------- steps and runs ---------- *)
Lemma heap_init_shape c : hcfg_ok c ->
  ha_heap_init c = HOk (mkhastate true [mkchunk (heap_start c) (heap_end c - heap_start c - NODE) false]
                          (bins_add empty_bins (heap_end c - heap_start c - NODE) (heap_start c))).
Proof.
  intros (HB & Hfit & Hsz0 & Hmin). unfold ha_heap_init, heap_end. unfold heap_start in *.
  pose proof NODE_eq as HN. pose proof MIN_range as HMINR. pose proof ALIGN_eq as HA. pose proof MIN_range as HMr. rewrite HN, HA in *.
  assert (H64 : two64 = 18446744073709551616) by reflexivity.
  destruct (align_forward_spec (h_base c) 16 ltac:(exists 4; split; [lia | reflexivity]) ltac:(lia) ltac:(lia)) as [Hr Hm].
  set (hs := align_forward (h_base c) 16) in *.
  rewrite (w64_small (hs - h_base c)) by lia.
  change (2 * 32) with 64. rewrite (w64_small 64) by lia.
  rewrite (w64_small (hs - h_base c + 64)) by lia.
  assert (E : (h_size c <? hs - h_base c + 64) = false) by (apply Z.ltb_ge; lia). rewrite E.
  rewrite (w64_small (h_size c - (hs - h_base c))) by lia.
  rewrite (w64_small (h_size c - (hs - h_base c) - 32)) by lia.
  rewrite (align_down16 (h_size c - (hs - h_base c) - 32)) by lia.
  set (X := h_size c - (hs - h_base c) - 32) in *.
  pose proof (Z.mod_pos_bound X 16 ltac:(lia)) as HXm.
  assert (HX32 : 32 <= X - X mod 16) by (unfold X in *; Z.div_mod_to_equations; lia).
  rewrite (w64_small (X - X mod 16 - 32)) by lia.
  replace (hs + (X - X mod 16) - hs - 32) with (X - X mod 16 - 32) by lia.
  reflexivity.
Qed.

Lemma hstep_naf c s live o s' live' :
  hcfg_ok c -> hinv c s live -> hop_usize o ->
  hstep c (s, live) o = Some (s', live') ->
  naf_from false (ha_chunks s) -> naf_from false (ha_chunks s').
Proof.
  intros Hc Hi Hd Hst Hnaf. destruct o as [n | i | i n | ]; cbn [hstep] in Hst.
  - (* alloc *)
    unfold ha_alloc, ha_ensure_init in Hst.
    unfold hinv in Hi. destruct (ha_initialized s) eqn:Ein.
    + destruct (ha_alloc_raw (ha_chunks s) (ha_bins s) n) as [[ch b] p] eqn:Ea.
      inversion Hst; subst. cbn [ha_chunks].
      eapply (alloc_naf _ _ _ _ _ n ch b p Hi Ea Hnaf).
    + rewrite (heap_init_shape c Hc) in Hst.
      destruct (heap_init_ok c Hc) as (ch0 & b0 & Hin0 & Hr0).
      rewrite (heap_init_shape c Hc) in Hin0. inversion Hin0; subst ch0 b0. clear Hin0.
      cbn [ha_chunks ha_bins] in Hst.
      destruct (ha_alloc_raw _ _ n) as [[ch b] p] eqn:Ea.
      inversion Hst; subst. cbn [ha_chunks].
      eapply (alloc_naf _ _ _ _ _ n ch b p Hr0 Ea). cbn. split; [discriminate | exact I].
  - destruct (nth_error live i) as [b|] eqn:Hn; [|inversion Hst; subst; exact Hnaf].
    unfold ha_dealloc in Hst.
    destruct (ha_dealloc_raw (ha_chunks s) (ha_bins s) (b_addr b)) as [[ch b1]| |] eqn:Ed; try discriminate.
    inversion Hst; subst. cbn [ha_chunks]. eapply dealloc_naf; eassumption.
  - destruct (nth_error live i) as [b|] eqn:Hn; [|inversion Hst; subst; exact Hnaf].
    unfold hinv in Hi. destruct (ha_initialized s) eqn:Ein; [|subst live; destruct i; discriminate].
    unfold ha_realloc, ha_ensure_init in Hst. rewrite Ein in Hst.
    destruct (live_chunk _ _ _ _ _ _ _ Hi Hn) as (pre & x & post & Ech & Hu & Ha & Hsz & Hnz & Hmis & Hw & Hfind).
    destruct (n =? b_size b) eqn:Esame.
    + destruct (n =? 0); [inversion Hst; subst; exact Hnaf|].
      rewrite Hnz in Hst. inversion Hst; subst. exact Hnaf.
    + destruct (ha_realloc_raw (ha_chunks s) (ha_bins s) (b_addr b) n) as [[[ch b1] q]| |] eqn:Er; try discriminate.
      assert (Hch : naf_from false ch).
      { destruct (Z.eq_dec n 0) as [-> | Hn0].
        - unfold ha_realloc_raw in Er. rewrite Hnz in Er. cbn [Z.eqb] in Er.
          destruct (ha_dealloc_raw (ha_chunks s) (ha_bins s) (b_addr b)) as [[ch2 b2]| |] eqn:Ed; try discriminate.
          inversion Er; subst. eapply dealloc_naf; eassumption.
        - eapply (realloc_naf _ _ _ _ _ (b_addr b) n ch b1 q Hi); try eassumption. apply Z.eqb_neq; exact Hnz. }
      destruct (n =? 0); [inversion Hst; subst; exact Hch|].
      destruct (q =? 0); inversion Hst; subst; exact Hch.
  - inversion Hst; subst. cbn. exact I.
Qed.

Lemma hrun_naf c ops : forall s live s' live',
  hcfg_ok c -> hinv c s live -> Forall hop_usize ops ->
  hrun c (s, live) ops = Some (s', live') ->
  naf_from false (ha_chunks s) -> hinv c s' live' /\ naf_from false (ha_chunks s').
Proof.
  induction ops as [|o r IH]; intros s live s' live' Hc Hi Hd Hr Hnaf; cbn [hrun] in Hr.
  - inversion Hr; subst. auto.
  - inversion Hd; subst.
    destruct (hstep_ok c s live o Hc Hi H1) as (s1 & l1 & Hst & Hi1).
    rewrite Hst in Hr.
    assert (Hn1 : naf_from false (ha_chunks s1)) by (apply (hstep_naf c s live o s1 l1 Hc Hi H1 Hst Hnaf)).
    apply (IH s1 l1 s' live' Hc Hi1 H2 Hr Hn1).
Qed.

Theorem heap_no_adjacent_free_proof : forall c ops s live,
  hcfg_ok c -> Forall hop_usize ops ->
  hrun c (ha_init_state, []) ops = Some (s, live) -> no_adjacent_free (ha_chunks s).
Proof.
  intros c ops s live Hc Hd Hr. apply naf_iff.
  eapply (hrun_naf c ops ha_init_state [] s live Hc (hinv_init c) Hd Hr). cbn. exact I.
Qed.

(* ---------- everything released: the heap is exactly a freshly initialised heap ---------- *)
Lemma all_free_single pf l :
  naf_from pf l -> Forall (fun x => c_used x = false) l -> (length l <= 1)%nat.
Proof.
  destruct l as [|c1 [|c2 r]]; cbn; try lia.
  intros (_ & (H2 & _)) HF. inversion HF as [|? ? F1 HF']; subst. inversion HF' as [|? ? F2 _]; subst.
  rewrite F1 in H2. specialize (H2 eq_refl). congruence.
Qed.

Lemma nodup_only (l : list Z) v : NoDup l -> (forall a, In a l <-> a = v) -> l = [v].
Proof.
  intros Hnd H. destruct l as [|a r]; [exfalso; apply (proj2 (H v) eq_refl)|].
  assert (a = v) by (apply H; left; reflexivity). subst a.
  destruct r as [|b r']; [reflexivity|]. exfalso.
  assert (b = v) by (apply H; right; left; reflexivity). subst b.
  inversion Hnd as [|? ? Hnot _]; subst. apply Hnot. left. reflexivity.
Qed.

Lemma none_in (l : list Z) : (forall a, In a l <-> False) -> l = [].
Proof. destruct l as [|a r]; [reflexivity|]. intros H. exfalso. apply (H a). left. reflexivity. Qed.

Lemma released_is_fresh c s :
  hcfg_ok c -> raw_inv (heap_start c) (heap_end c) (ha_chunks s) (ha_bins s) [] ->
  naf_from false (ha_chunks s) ->
  ha_chunks s = [mkchunk (heap_start c) (heap_end c - heap_start c - NODE) false] /\
  ha_bins s = bins_add empty_bins (heap_end c - heap_start c - NODE) (heap_start c).
Proof.
  intros Hc [Hpos Htop Ht Hal Hb (HF & Hnd & Hcomp)] Hnaf. pose proof NODE_eq as HN. pose proof MIN_range as HMINR.
  assert (Hfree : Forall (fun x => c_used x = false) (ha_chunks s)).
  { rewrite Forall_forall. intros x Hx. destruct (c_used x) eqn:E; [|reflexivity]. destruct (Hcomp x Hx E). }
  pose proof (all_free_single _ _ Hnaf Hfree) as Hlen.
  assert (Hlt : heap_start c < heap_end c).
  { destruct (heap_geometry c Hc) as (_ & _ & _ & G4 & _). lia. }
  destruct (ha_chunks s) as [|x [|y r]] eqn:Ech; cbn in Hlen; try lia.
  { cbn in Ht. lia. }
  cbn [tiled] in Ht. destruct Ht as (Hxa & Hxs & Hend).
  inversion Hfree as [|? ? Hxf _]; subst.
  assert (Ex : x = mkchunk (heap_start c) (heap_end c - heap_start c - NODE) false).
  { destruct x as [xa xs xu]. cbn in *. subst. f_equal. lia. }
  split; [rewrite Ex; reflexivity|].
  (* the bins *)
  destruct Hb as (HL & Hb).
  set (sz := heap_end c - heap_start c - NODE) in *.
  assert (Hidx := get_bin_index_range sz).
  assert (Hbin : forall i, 0 <= i < BIN_COUNT ->
            bin_nth (ha_bins s) i = bin_nth (bins_add empty_bins sz (heap_start c)) i).
  { intros i Hi. destruct (Hb i Hi) as [Hndi Hin]. unfold bins_add.
    assert (HLe : length empty_bins = Z.to_nat BIN_COUNT) by (unfold empty_bins; apply repeat_length).
    destruct (Z.eq_dec i (get_bin_index sz)) as [-> | Hne].
    - rewrite bin_nth_upd_same by assumption.
      unfold bin_nth at 2. unfold empty_bins. rewrite nth_repeat_nil.
      apply nodup_only; [exact Hndi|]. intros a. rewrite Hin, free_in_cons, free_in_nil.
      rewrite Ex. cbn [c_addr c_sz c_used]. fold sz. split; [intros [(<- & _) | []]; reflexivity | intros ->; left; auto].
    - rewrite bin_nth_upd_other by lia. unfold bin_nth at 2. unfold empty_bins. rewrite nth_repeat_nil.
      apply none_in. intros a. rewrite Hin, free_in_cons, free_in_nil.
      rewrite Ex. cbn [c_addr c_sz c_used]. fold sz. split; [intros [(_ & _ & E) | []]; congruence | tauto]. }
  apply (nth_ext _ _ [] []).
  - unfold bins_add, bin_upd. rewrite list_set_length. rewrite HL. unfold empty_bins. rewrite repeat_length. reflexivity.
  - intros k Hk. rewrite HL in Hk.
    specialize (Hbin (Z.of_nat k) ltac:(lia)). unfold bin_nth in Hbin. rewrite Nat2Z.id in Hbin. exact Hbin.
Qed.

Theorem heap_release_all_restores_proof : forall c ops s n,
  hcfg_ok c -> Forall hop_usize ops ->
  hrun c (ha_init_state, []) ops = Some (s, []) ->
  ha_alloc c s n = ha_alloc c ha_init_state n.
Proof.
  intros c ops s n Hc Hd Hr.
  destruct (hrun_naf c ops ha_init_state [] s [] Hc (hinv_init c) Hd Hr ltac:(cbn; exact I)) as [Hi Hnaf].
  unfold ha_alloc, ha_ensure_init. cbn [ha_initialized ha_init_state].
  unfold hinv in Hi. destruct (ha_initialized s) eqn:Ein; [|reflexivity].
  destruct (released_is_fresh c s Hc Hi Hnaf) as [Ech Eb].
  rewrite (heap_init_shape c Hc). cbn [ha_chunks ha_bins]. rewrite Ech, Eb. reflexivity.
Qed.
