(* C11 - executable models of lib/allocators/{arena,stack,pool,heap}.nelua.

   Conventions
   * every `usize` computation is reduced mod 2^64 explicitly ([w64]);
   * pointers are absolute addresses (Z), 0 = nilptr; [base] = address of buffer[0];
   * an operation returns [None] when a run-time check of a checked (default) build fails
     (check(...)/panic/array bounds check), otherwise [Some (state', result)];
   * memory that the allocator itself reads (the stack's in-band headers, the pool's free-list
     links, the heap's chunk headers and bins) is a finite map [mem] address -> word.
   No proofs in this file. *)
From Coq Require Import ZArith List Bool Lia.
From Base Require Import LuaInt.
From C11 Require Import Gen.
Import ListNotations.
Local Open Scope Z_scope.

Definition w64 (x : Z) : Z := x mod two64.

(* (addr + (align-1)) & ~(align-1) on usize *)
Definition align_forward (addr al : Z) : Z :=
  Z.land (w64 (addr + (al - 1))) (w64 (Z.lnot (al - 1))).

(* x & ~(al-1) in usize *)
Definition align_down (x al : Z) : Z := Z.land x (w64 (Z.lnot (al - 1))).

(* ---------- finite word memory ---------- *)
Definition mem := list (Z * Z).
Fixpoint mget (m : mem) (k : Z) : Z :=
  match m with
  | [] => 0
  | (k', v) :: r => if k =? k' then v else mget r k
  end.
Fixpoint mset (m : mem) (k v : Z) : mem :=
  match m with
  | [] => [(k, v)]
  | (k', v') :: r => if k =? k' then (k, v) :: r else (k', v') :: mset r k v
  end.

(* ---------- client-visible blocks (specification side) ---------- *)
Record blk := mkblk { b_addr : Z; b_size : Z }.

(* =====================================================================================
   Arena  (arena.nelua)
   ===================================================================================== *)
Record acfg := mkacfg { a_base : Z; a_size : Z; a_align : Z }.
(* [a_bytes]: contents of memory (address -> byte); the allocator only writes it in realloc's
   memory.copy, and never reads it to take a decision *)
Record astate := mkastate { a_prev : Z; a_curr : Z; a_bytes : Z -> Z }.

Definition arena_init : astate := mkastate 0 0 (fun _ => 0).

(* memory.copy(dst, src, n) for non-overlapping ranges *)
Definition bcopy (m : Z -> Z) (dst src n : Z) : Z -> Z :=
  fun x => if (dst <=? x) && (x <? dst + n) then m (src + (x - dst)) else m x.
Definition bzero (m : Z -> Z) (dst n : Z) : Z -> Z :=
  fun x => if (dst <=? x) && (x <? dst + n) then 0 else m x.

Definition arena_alloc (c : acfg) (s : astate) (size : Z) : option (astate * Z) :=
  if size =? 0 then Some (s, 0)
  else
  let base := a_base c in
  let offset := w64 (align_forward (w64 (base + a_curr s)) (a_align c) - base) in
  let next_offset := w64 (offset + size) in
  if (next_offset >? a_size c) || (next_offset <? offset) then Some (s, 0)
  else if offset <? a_size c                      (* bounds check of &self.buffer[offset] *)
       then Some (mkastate offset next_offset (a_bytes s), base + offset)
       else None.

Definition arena_ptr_ok (c : acfg) (p : Z) : bool :=
  (w64 (p - a_base c) <? a_size c) && (Z.land p (a_align c - 1) =? 0).

Definition arena_dealloc (c : acfg) (s : astate) (p : Z) : option astate :=
  if p =? 0 then Some s
  else if arena_ptr_ok c p then
    let offset := w64 (p - a_base c) in
    if offset =? a_prev s then Some (mkastate (a_prev s) offset (a_bytes s)) else Some s
  else None.

Definition arena_deallocall (s : astate) : astate := mkastate 0 0 (a_bytes s).

Definition arena_realloc (c : acfg) (s : astate) (p newsize oldsize : Z) : option (astate * Z) :=
  if p =? 0 then arena_alloc c s newsize
  else if newsize =? 0 then
    match arena_dealloc c s p with Some s' => Some (s', 0) | None => None end
  else if arena_ptr_ok c p then
    let offset := w64 (p - a_base c) in
    if offset =? a_prev s then
      let next_offset := w64 (offset + newsize) in
      if (next_offset >? a_size c) || (next_offset <? offset) then Some (s, 0)
      else Some (mkastate (a_prev s) next_offset (a_bytes s), p)
    else if newsize >? oldsize then
      match arena_alloc c s newsize with
      | None => None
      | Some (s', newp) =>
          if (negb (newp =? 0)) && (negb (oldsize =? 0))
          then Some (mkastate (a_prev s') (a_curr s') (bcopy (a_bytes s') newp p oldsize), newp)
          else Some (s', newp)
      end
    else Some (s, p)
  else None.

(* derived by Allocator_implement_interface (allocator.nelua) *)
Definition arena_alloc0 (c : acfg) (s : astate) (size : Z) : option (astate * Z) :=
  match arena_alloc c s size with
  | None => None
  | Some (s', p) =>
      if p =? 0 then Some (s', p)
      else Some (mkastate (a_prev s') (a_curr s') (bzero (a_bytes s') p size), p)
  end.
Definition arena_realloc0 (c : acfg) (s : astate) (p newsize oldsize : Z) : option (astate * Z) :=
  match arena_realloc c s p newsize oldsize with
  | None => None
  | Some (s', q) =>
      if (newsize >? oldsize) && negb (q =? 0)
      then Some (mkastate (a_prev s') (a_curr s') (bzero (a_bytes s') (q + oldsize) (newsize - oldsize)), q)
      else Some (s', q)
  end.

(* =====================================================================================
   Stack  (stack.nelua).  [s_mem] holds the in-band headers: 32-bit words keyed by address.
   ===================================================================================== *)
Record scfg := mkscfg { s_base : Z; s_size : Z; s_align : Z }.
Record sstate := mksstate { s_prev : Z; s_curr : Z; s_mem : mem }.

Definition two32 : Z := 4294967296.
Definition stack_init : sstate := mksstate 0 0 [].

Definition stack_alloc (c : scfg) (s : sstate) (size : Z) : sstate * Z :=
  if size =? 0 then (s, 0)
  else
    let base := s_base c in
    let addr := align_forward (w64 (w64 (base + s_curr s) + STACK_HEADER_SIZE)) (s_align c) in
    let offset := w64 (addr - base) in
    let next_offset := w64 (offset + size) in
    if (next_offset >? s_size c) || (next_offset <? offset) then (s, 0)
    else
      let h := w64 (addr - STACK_HEADER_SIZE) in
      let m1 := mset (s_mem s) h (s_prev s mod two32) in
      let m2 := mset m1 (h + 4) (s_curr s mod two32) in
      (mksstate offset next_offset m2, addr).

Definition stack_dealloc (c : scfg) (s : sstate) (p : Z) : option sstate :=
  if p =? 0 then Some s
  else
    let offset := w64 (p - s_base c) in
    if offset =? s_prev s then
      let h := w64 (p - STACK_HEADER_SIZE) in
      Some (mksstate (mget (s_mem s) h) (mget (s_mem s) (h + 4)) (s_mem s))
    else None.

Definition stack_deallocall (s : sstate) : sstate := mksstate 0 0 (s_mem s).

Definition stack_ptr_ok (c : scfg) (p : Z) : bool :=
  (w64 (p - s_base c) <? s_size c) && (Z.land p (s_align c - 1) =? 0).

Definition stack_realloc (c : scfg) (s : sstate) (p newsize oldsize : Z) : option (sstate * Z) :=
  if p =? 0 then Some (stack_alloc c s newsize)
  else if newsize =? 0 then
    match stack_dealloc c s p with Some s' => Some (s', 0) | None => None end
  else if stack_ptr_ok c p then
    let offset := w64 (p - s_base c) in
    if offset =? s_prev s then
      let next_offset := w64 (offset + newsize) in
      if (next_offset >? s_size c) || (next_offset <? offset) then Some (s, 0)
      else Some (mksstate (s_prev s) next_offset (s_mem s), p)
    else if newsize >? oldsize then Some (s, 0)
    else Some (s, p)
  else None.

(* =====================================================================================
   Pool  (pool.nelua).  [p_mem] holds the first word of every chunk (the free-list link),
   keyed by chunk address.
   ===================================================================================== *)
Record pcfg := mkpcfg { p_base : Z; p_chunk : Z; p_count : Z }.
Record pstate := mkpstate { p_initialized : bool; p_head : Z; p_mem : mem }.

Definition pool_init : pstate := mkpstate false 0 [].

(* for i = count-1 downto 0: node = &buffer[i]; node.next = head; head = node *)
Fixpoint pool_link_from (c : pcfg) (n : nat) (m : mem) (head : Z) : mem * Z :=
  match n with
  | O => (m, head)
  | S k =>
      let node := p_base c + Z.of_nat k * p_chunk c in
      pool_link_from c k (mset m node head) node
  end.
Definition pool_link_free_nodes (c : pcfg) (s : pstate) : pstate :=
  let '(m, head) := pool_link_from c (Z.to_nat (p_count c)) (p_mem s) 0 in
  mkpstate (p_initialized s) head m.

Definition pool_alloc (c : pcfg) (s : pstate) (size : Z) : pstate * Z :=
  if (size >? p_chunk c) || (size =? 0) then (s, 0)
  else
    if p_head s =? 0 then
      if negb (p_initialized s) then
        let s1 := pool_link_free_nodes c (mkpstate true (p_head s) (p_mem s)) in
        let node := p_head s1 in
        (mkpstate true (mget (p_mem s1) node) (p_mem s1), node)
      else (s, 0)
    else
      let node := p_head s in
      (mkpstate (p_initialized s) (mget (p_mem s) node) (p_mem s), node).

Definition pool_ptr_ok (c : pcfg) (p : Z) : bool :=
  let offset := w64 (p - p_base c) in
  (offset / p_chunk c <? p_count c) && (offset mod p_chunk c =? 0).

Definition pool_dealloc (c : pcfg) (s : pstate) (p : Z) : option pstate :=
  if p =? 0 then Some s
  else if pool_ptr_ok c p then
    Some (mkpstate (p_initialized s) p (mset (p_mem s) p (p_head s)))
  else None.

Definition pool_deallocall (c : pcfg) (s : pstate) : pstate :=
  pool_link_free_nodes c (mkpstate true 0 (p_mem s)).

Definition pool_realloc (c : pcfg) (s : pstate) (p newsize oldsize : Z) : option (pstate * Z) :=
  if p =? 0 then Some (pool_alloc c s newsize)
  else if newsize =? 0 then
    match pool_dealloc c s p with Some s' => Some (s', 0) | None => None end
  else if newsize >? p_chunk c then Some (s, 0)
  else Some (s, p).

(* free list as the harness prints it: chunk indices from head, at most count+1 steps *)
Fixpoint pool_walk (c : pcfg) (fuel : nat) (m : mem) (cur : Z) : list Z :=
  match fuel with
  | O => []
  | S k => if cur =? 0 then [] else ((cur - p_base c) / p_chunk c) :: pool_walk c k m (mget m cur)
  end.
