(* C11 model-side driver.  Same line protocol as harness/C11/driver.nelua:
     info <inst> arena|stack base=B size=S align=A     (defines an instance; prints nothing)
     info <inst> pool base=B chunk=C count=N
     info <inst> heap base=B size=S
     <inst> reset | alloc h n | alloc0 h n | dealloc h | realloc h n | realloc0 h n | deallocall |
            rawdealloc off | rawrealloc off new old | span* ...
   prints   <result> | <state>   per operation line, "panic" when the model says a run-time check
   fails (the instance is then left unchanged), "fuel" if a fuelled loop ran out.
   Numbers are decimal on the wire; they are converted to the extracted Z through hex text. *)
open Model
open Zutil

let z_of_dec (s : string) : z =
  (* decimal (up to 2^64-1) -> hex text -> z ; uses OCaml's unsigned parsing *)
  let v = Int64.of_string ("0u" ^ s) in
  z_of_hex (Printf.sprintf "%Lx" v)

let dec_of_z (x : z) : string =
  (* values printed are < 2^64 *)
  let h = hex_of_z x in
  if String.length h > 0 && h.[0] = '-' then "-" ^ Printf.sprintf "%Lu" (Int64.of_string ("0x" ^ String.sub h 1 (String.length h - 1)))
  else Printf.sprintf "%Lu" (Int64.of_string ("0x" ^ h))

let zeq (a : z) (b : z) = (a = b)
let z0 = Z0
let zadd = Z.add
let zsub = Z.sub
let zmul = Z.mul

type handle = { mutable p : z; mutable sz : z }

type inst =
  | Arena of acfg * astate ref
  | Stack of scfg * sstate ref
  | Pool of pcfg * pstate ref
  | Heap of hcfg * hstate ref * hastate ref * bool ref   (* last: the abstract model is still in step *)
  | Aligned of gcfg * gstate ref

let insts : (string, inst) Hashtbl.t = Hashtbl.create 16
let handles : (int, handle) Hashtbl.t = Hashtbl.create 64
let hget i = match Hashtbl.find_opt handles i with Some h -> h | None -> let h = { p = z0; sz = z0 } in Hashtbl.replace handles i h; h
let hclear () = Hashtbl.reset handles

let kv (s : string) : string * string =
  match String.index_opt s '=' with
  | Some i -> (String.sub s 0 i, String.sub s (i + 1) (String.length s - i - 1))
  | None -> (s, "")

let poff base (a : z) = if zeq a z0 then "-" else dec_of_z (zsub a base)
let pres base (a : z) = if zeq a z0 then "nil" else dec_of_z (zsub a base)

exception Panic
exception Fuel

let state_string (i : inst) : string =
  match i with
  | Arena (_, s) -> dec_of_z !s.a_prev ^ " " ^ dec_of_z !s.a_curr
  | Aligned (_, s) -> dec_of_z !s.g_arena.a_prev ^ " " ^ dec_of_z !s.g_arena.a_curr
  | Stack (_, s) -> dec_of_z !s.s_prev ^ " " ^ dec_of_z !s.s_curr
  | Pool (c, s) ->
      let n = int_of_z c.p_count in
      let l = pool_walk c (nat_of_int (n + 1)) !s.p_mem !s.p_head in
      let l = List.map (fun x -> " " ^ dec_of_z x) l in
      let cyc = if List.length l > n then " cycle" else "" in
      (if !s.p_initialized then "1 " else "0 ") ^ poff c.p_base !s.p_head ^ ":" ^ String.concat "" l ^ cyc
  | Heap (c, s, a, ok) ->
      let conc =
        if not !s.h_initialized then "uninit"
        else begin
          let b = Buffer.create 256 in
          List.iteri (fun i hd -> if not (zeq hd z0) then Buffer.add_string b (Printf.sprintf "b%d=%s " i (poff c.h_base hd))) !s.h_bins;
          Buffer.add_string b ";";
          let (items, ok) = heap_walk (nat_of_int (int_of_z c.h_size / 32 + 2)) !s.h_mem (heap_start c) (heap_end c) in
          List.iter (fun ((((cur, size), padj), nx), pv) ->
            Buffer.add_string b (Printf.sprintf " %s.%s.%s" (dec_of_z (zsub cur c.h_base)) (dec_of_z size) (poff c.h_base padj));
            if zeq nx (z_of_int 1) && zeq pv nODE_COOKIE then Buffer.add_string b ".U"
            else Buffer.add_string b (Printf.sprintf ".F.%s.%s" (poff c.h_base nx) (poff c.h_base pv))) items;
          if not ok then Buffer.add_string b " corrupt";
          Buffer.contents b
        end in
      let abst =
        if not !a.ha_initialized then "uninit"
        else begin
          let b = Buffer.create 256 in
          let links = Hashtbl.create 64 in
          List.iteri (fun i l ->
            (match l with hd :: _ -> Buffer.add_string b (Printf.sprintf "b%d=%s " i (poff c.h_base hd)) | [] -> ());
            let rec go prev = function
              | [] -> ()
              | x :: r -> Hashtbl.replace links x (prev, (match r with y :: _ -> y | [] -> z0)); go x r in
            go z0 l) !a.ha_bins;
          Buffer.add_string b ";";
          let prev = ref z0 in
          List.iter (fun ch ->
            Buffer.add_string b (Printf.sprintf " %s.%s.%s" (dec_of_z (zsub ch.c_addr c.h_base)) (dec_of_z ch.c_sz) (poff c.h_base !prev));
            (if ch.c_used then Buffer.add_string b ".U"
             else begin
               let (pv, nx) = match Hashtbl.find_opt links ch.c_addr with Some x -> x | None -> (z_of_int 7, z_of_int 7) in
               Buffer.add_string b (Printf.sprintf ".F.%s.%s" (poff c.h_base nx) (poff c.h_base pv))
             end);
            prev := ch.c_addr) !a.ha_chunks;
          Buffer.add_string b (Printf.sprintf " %s.0.%s.U" (dec_of_z (zsub (heap_end c) c.h_base)) (poff c.h_base !prev));
          Buffer.contents b
        end in
      if conc = abst || not !ok then conc else conc ^ " ABSTRACT-MISMATCH " ^ abst

let unres = function HOk a -> a | HPanic -> raise Panic | HFuel -> raise Fuel
let unopt = function Some a -> a | None -> raise Panic

(* primitive operations on an instance: return the result pointer *)
let do_alloc (i : inst) (zero : bool) (n : z) : z =
  match i with
  | Arena (c, s) -> let (s', p) = unopt ((if zero then arena_alloc0 else arena_alloc) c !s n) in s := s'; p
  | Stack (c, s) -> let (s', p) = stack_alloc c !s n in s := s'; p
  | Aligned (c, s) -> let (s', p) = unopt (aligned_alloc c !s n) in s := s'; p
  | Pool (c, s) -> let (s', p) = pool_alloc c !s n in s := s'; p
  | Heap (c, s, a, ok) ->
      let (s', p) = unres (hp_alloc c !s n) in
      if !ok then begin
        let (a', pa) = unres (ha_alloc c !a n) in
        s := s'; a := a'; if zeq p pa then p else raise (Failure "abstract alloc differs")
      end else (s := s'; p)

let do_dealloc (i : inst) (p : z) : unit =
  match i with
  | Arena (c, s) -> s := unopt (arena_dealloc c !s p)
  | Stack (c, s) -> s := unopt (stack_dealloc c !s p)
  | Aligned (c, s) -> s := unopt (aligned_dealloc c !s p)
  | Pool (c, s) -> s := unopt (pool_dealloc c !s p)
  | Heap (c, s, a, ok) ->
      (* the memory-level model is the one compared with the code; the abstract model only speaks about
         valid pointers (proved refinement): on an invalid pointer that the cookie test lets through
         (stale cookie after deallocall) the abstract model panics, and is dropped until the next reset *)
      let s' = hp_dealloc !s p in
      let a' = if !ok then ha_dealloc !a p else HPanic in
      (match s', a' with
       | HOk x, HOk y when !ok -> s := x; a := y
       | HOk x, _ -> s := x; ok := false
       | HPanic, _ -> raise Panic
       | HFuel, _ -> raise Fuel)

let do_realloc (i : inst) (zero : bool) (p : z) (n : z) (old : z) : z =
  match i with
  | Arena (c, s) -> let (s', q) = unopt ((if zero then arena_realloc0 else arena_realloc) c !s p n old) in s := s'; q
  | Stack (c, s) -> let (s', q) = unopt (stack_realloc c !s p n old) in s := s'; q
  | Aligned (c, s) -> let (s', q) = unopt (aligned_realloc c !s p n old) in s := s'; q
  | Pool (c, s) -> let (s', q) = unopt (pool_realloc c !s p n old) in s := s'; q
  | Heap (c, s, a, ok) ->
      (match hp_realloc c !s p n old, (if !ok then ha_realloc c !a p n old else HPanic) with
       | HOk (s', q), HOk (a', qa) when !ok -> s := s'; a := a'; if zeq q qa then q else raise (Failure "abstract realloc differs")
       | HOk (s', q), _ -> s := s'; ok := false; q
       | HPanic, _ -> raise Panic
       | HFuel, _ -> raise Fuel)

let do_deallocall (i : inst) : unit =
  match i with
  | Arena (_, s) -> s := arena_deallocall !s
  | Stack (_, s) -> s := stack_deallocall !s
  | Aligned (_, s) -> s := aligned_deallocall !s
  | Pool (c, s) -> s := pool_deallocall c !s
  | Heap (c, s, a, _) -> s := unres (hp_deallocall c !s); a := ha_deallocall !a

(* hcfg_ok's size clause, the check of add_memory_region: below it the abstract model does not apply *)
let heap_cfg_big_enough (c : hcfg) : bool = int_of_z c.h_size >= int_of_z (zsub (heap_start c) c.h_base) + 64

let do_reset (i : inst) : unit =
  match i with
  | Arena (_, s) -> s := arena_init
  | Stack (_, s) -> s := stack_init
  | Aligned (_, s) -> s := aligned_init
  | Pool (_, s) -> s := pool_init
  | Heap (c, s, a, ok) -> s := heap_init_state; a := ha_init_state; ok := heap_cfg_big_enough c

let base_of = function
  | Arena (c, _) -> c.a_base | Aligned (c, _) -> c.g_inner.a_base | Stack (c, _) -> c.s_base | Pool (c, _) -> c.p_base
  | Heap (c, _, _, _) -> c.h_base

let four = z_of_int 4
let wrap64 (x : z) : z = w64 x

(* the primitives of an instance as closures for the extracted interface wrappers (Iface.v);
   the state lives in the instance's refs, so the wrappers' state type is unit; a panic of a
   primitive is the wrappers' None *)
let p_alloc i () n = try Some ((), do_alloc i false n) with Panic -> None
let p_dealloc i () p = try do_dealloc i p; Some () with Panic -> None
let p_realloc i () p n o = try Some ((), do_realloc i false p n o) with Panic -> None
let unw = function Some x -> x | None -> raise Panic

let run (i : inst) (op : string) (args : string list) : string =
  let base = base_of i in
  let a k = z_of_dec (List.nth args k) in
  let h k = hget (int_of_string (List.nth args k)) in
  let span_of hd = (hd.p, Z.div hd.sz four) in
  match op with
  | "reset" -> do_reset i; hclear (); "ok"
  | "alloc" ->
      let hd = h 0 in let n = a 1 in
      let p = do_alloc i false n in
      hd.p <- p; hd.sz <- (if zeq p z0 then z0 else n); pres base p
  | "alloc0" ->
      let hd = h 0 in let n = a 1 in
      let (((), p), _) = unw (i_alloc0 (p_alloc i) () n) in
      hd.p <- p; hd.sz <- (if zeq p z0 then z0 else n); pres base p
  | "xalloc" ->
      let hd = h 0 in let n = a 1 in
      let ((), p) = unw (i_xalloc (p_alloc i) () n) in
      hd.p <- p; hd.sz <- (if zeq p z0 then z0 else n); pres base p
  | "xalloc0" ->
      let hd = h 0 in let n = a 1 in
      let (((), p), _) = unw (i_xalloc0 (p_alloc i) () n) in
      hd.p <- p; hd.sz <- (if zeq p z0 then z0 else n); pres base p
  | "new" ->
      let hd = h 0 in let n = z_of_int 24 in
      let (((), p), _) = unw (i_new (p_alloc i) () n) in
      hd.p <- p; hd.sz <- n; pres base p
  | "delete" -> let hd = h 0 in ignore (unw (i_delete (p_dealloc i) () hd.p)); hd.p <- z0; hd.sz <- z0; "ok"
  | "dealloc" -> let hd = h 0 in do_dealloc i hd.p; hd.p <- z0; hd.sz <- z0; "ok"
  | "realloc" | "realloc0" | "xrealloc" ->
      let hd = h 0 in let n = a 1 in
      let q =
        if op = "realloc" then do_realloc i false hd.p n hd.sz
        else if op = "xrealloc" then snd (unw (i_xrealloc (p_realloc i) () hd.p n hd.sz))
        else (let (((), q), _) = unw (i_realloc0 (p_realloc i) () hd.p n hd.sz) in q) in
      if zeq n z0 then (hd.p <- z0; hd.sz <- z0)
      else if op = "xrealloc" || not (zeq q z0) then (hd.p <- q; hd.sz <- n);
      pres base q
  | "deallocall" -> do_deallocall i; hclear (); "ok"
  | "rawdealloc" -> do_dealloc i (wrap64 (zadd base (a 0))); "ok"
  | "rawrealloc" -> pres base (do_realloc i false (wrap64 (zadd base (a 0))) (a 1) (a 2))
  | "spanalloc" | "spanalloc0" ->
      let hd = h 0 in let n = a 1 in
      let ((), (p, cnt)) =
        if op = "spanalloc" then unw (i_spanalloc (p_alloc i) () four n)
        else fst (unw (i_spanalloc0 (p_alloc i) () four n)) in
      hd.p <- p; hd.sz <- wrap64 (zmul cnt four); pres base p ^ " n" ^ dec_of_z cnt
  | "spandealloc" ->
      let hd = h 0 in ignore (unw (i_spandealloc (p_dealloc i) () (span_of hd))); hd.p <- z0; hd.sz <- z0; "ok"
  | "spanrealloc" | "spanrealloc0" ->
      let hd = h 0 in let n = a 1 in
      let ((), (p, cnt)) =
        if op = "spanrealloc" then unw (i_spanrealloc (p_alloc i) (p_realloc i) () four (span_of hd) n)
        else fst (unw (i_spanrealloc0 (p_alloc i) (p_realloc i) () four (span_of hd) n)) in
      hd.p <- p; hd.sz <- wrap64 (zmul cnt four); pres base p ^ " n" ^ dec_of_z cnt
  | _ -> "?op"

let () =
  iter_lines (fun line ->
    match split_ws line with
    | [] -> ()
    | "info" :: name :: kind :: rest ->
        let tbl = List.map kv rest in
        let g k = z_of_dec (List.assoc k tbl) in
        let i = match kind with
          | "arena" -> Arena ({ a_base = g "base"; a_size = g "size"; a_align = g "align" }, ref arena_init)
          | "stack" -> Stack ({ s_base = g "base"; s_size = g "size"; s_align = g "align" }, ref stack_init)
          | "pool" -> Pool ({ p_base = g "base"; p_chunk = g "chunk"; p_count = g "count" }, ref pool_init)
          | "aligned" -> Aligned ({ g_inner = { a_base = g "base"; a_size = g "size"; a_align = g "ialign" }; g_align = g "align" }, ref aligned_init)
          | "heap" -> let c = { h_base = g "base"; h_size = g "size" } in
                      Heap (c, ref heap_init_state, ref ha_init_state, ref (heap_cfg_big_enough c))
          | _ -> failwith "kind" in
        Hashtbl.replace insts name i
    | "gcrereg" :: p :: newsize :: rest ->
        (* GcRereg.v: table = the entries after "T" (address size ...), the collection inside step keeps the addresses after "S" and
           compacts the node array; prints the size the model has registered for p afterwards *)
        let rec split_at_s acc = function
          | "S" :: r -> (List.rev acc, r)
          | x :: r -> split_at_s (x :: acc) r
          | [] -> (List.rev acc, []) in
        let (tt, ss) = split_at_s [] (match rest with "T" :: r -> r | r -> r) in
        let rec pairs = function a :: b :: r -> (z_of_dec a, z_of_dec b) :: pairs r | _ -> [] in
        let surv = List.map z_of_dec ss in
        let step tbl = List.filter (fun (a, _) -> List.mem a surv) tbl in
        let res = reregister_inplace rEREGISTER_SIZE_BEFORE_STEP step (pairs tt) (z_of_dec p) (z_of_dec newsize) in
        print_string ((match lookup (z_of_dec p) res with Some sz -> dec_of_z sz | None -> "none") ^ "\n")
    | name :: op :: args ->
        (match Hashtbl.find_opt insts name with
         | None -> print_string "?inst\n"
         | Some i ->
             let r = try run i op args with Panic -> "panic" | Fuel -> "fuel" | Failure m -> "ABSTRACT-MISMATCH " ^ m in
             print_string (r ^ " | " ^ state_string i ^ "\n"))
    | _ -> print_string "?line\n")
