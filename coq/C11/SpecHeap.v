(* C11 - heap: client histories over the abstract model and the invariants of the property.
   No proofs in this file. *)
From Coq Require Import ZArith List Bool Lia.
From Base Require Import LuaInt.
From C11 Require Import Gen Model Heap HeapA Spec.
Import ListNotations.
Local Open Scope Z_scope.

(* the chunks tile [start, stop): each header is followed by its payload and then the next header *)
Fixpoint tiled (start : Z) (l : list chunk) (stop : Z) : Prop :=
  match l with
  | [] => start = stop
  | c :: r => c_addr c = start /\ 0 <= c_sz c /\ tiled (start + NODE + c_sz c) r stop
  end.

(* "a is the header of a free chunk whose size belongs to bin i" *)
Definition free_in (chunks : list chunk) (a i : Z) : Prop :=
  exists x, In x chunks /\ c_addr x = a /\ c_used x = false /\ get_bin_index (c_sz x) = i.

(* every bin lists, without repetition, exactly the free chunks of its size class *)
Definition bins_exact (bins : list (list Z)) (chunks : list chunk) : Prop :=
  length bins = Z.to_nat BIN_COUNT /\
  forall i, 0 <= i < BIN_COUNT ->
    NoDup (bin_nth bins i) /\ forall a, In a (bin_nth bins i) <-> free_in chunks a i.

Fixpoint no_adjacent_free (l : list chunk) : Prop :=
  match l with
  | c1 :: r => match r with
               | c2 :: _ => (c_used c1 = true \/ c_used c2 = true) /\ no_adjacent_free r
               | [] => True
               end
  | [] => True
  end.

(* live blocks are the payloads of the used chunks, one block per used chunk *)
Definition live_matches (chunks : list chunk) (live : list blk) : Prop :=
  Forall (fun b => exists x, In x chunks /\ c_used x = true /\ b_addr b = c_addr x + NODE /\
                             0 < b_size b <= c_sz x) live /\
  NoDup (map b_addr live) /\
  (forall x, In x chunks -> c_used x = true -> In (c_addr x + NODE) (map b_addr live)).

Definition heap_wf (c : hcfg) (s : hastate) (live : list blk) : Prop :=
  if ha_initialized s then
    tiled (heap_start c) (ha_chunks s) (heap_end c) /\
    Forall (fun x => c_addr x mod ALLOC_ALIGN = 0) (ha_chunks s) /\
    bins_exact (ha_bins s) (ha_chunks s) /\
    live_matches (ha_chunks s) live
  else live = [].

(* ---------- histories ---------- *)
Inductive hop :=
| HAlloc (n : Z)
| HDealloc (i : nat)
| HRealloc (i : nat) (n : Z)
| HDeallocAll.

Definition hstep (c : hcfg) (st : hastate * list blk) (o : hop) : option (hastate * list blk) :=
  let '(s, live) := st in
  match o with
  | HAlloc n =>
      match ha_alloc c s n with
      | HOk (s', p) => Some (s', if p =? 0 then live else mkblk p n :: live)
      | _ => None
      end
  | HDealloc i =>
      match nth_error live i with
      | None => Some st
      | Some b => match ha_dealloc s (b_addr b) with
                  | HOk s' => Some (s', remove_nth i live)
                  | _ => None
                  end
      end
  | HRealloc i n =>
      match nth_error live i with
      | None => Some st
      | Some b =>
          match ha_realloc c s (b_addr b) n (b_size b) with
          | HOk (s', q) =>
              if n =? 0 then Some (s', remove_nth i live)
              else if q =? 0 then Some (s', live)
              else Some (s', mkblk q n :: remove_nth i live)
          | _ => None
          end
      end
  | HDeallocAll => Some (ha_deallocall s, [])
  end.

Fixpoint hrun (c : hcfg) (st : hastate * list blk) (ops : list hop) : option (hastate * list blk) :=
  match ops with
  | [] => Some st
  | o :: r => match hstep c st o with None => None | Some st' => hrun c st' r end
  end.

(* the buffer: base > 0, does not reach the last few bytes of the address space, and is large
   enough for the two boundary headers *)
Definition hcfg_ok (c : hcfg) : Prop :=
  0 < h_base c /\ h_base c + h_size c + ALLOC_ALIGN + MIN_ALLOC_SIZE <= two64 /\ 0 <= h_size c /\
  (heap_start c - h_base c) + 2 * NODE <= h_size c.   (* exactly the check of add_memory_region (repair 23ac203) *)

Definition hop_usize (o : hop) : Prop :=
  match o with HAlloc n | HRealloc _ n => usize n | _ => True end.

(* ---------- the same histories over the memory-level model (Heap.v) ---------- *)
Definition cstep (c : hcfg) (st : hstate * list blk) (o : hop) : option (hstate * list blk) :=
  let '(s, live) := st in
  match o with
  | HAlloc n =>
      match hp_alloc c s n with
      | HOk (s', p) => Some (s', if p =? 0 then live else mkblk p n :: live)
      | _ => None
      end
  | HDealloc i =>
      match nth_error live i with
      | None => Some st
      | Some b => match hp_dealloc s (b_addr b) with
                  | HOk s' => Some (s', remove_nth i live)
                  | _ => None
                  end
      end
  | HRealloc i n =>
      match nth_error live i with
      | None => Some st
      | Some b =>
          match hp_realloc c s (b_addr b) n (b_size b) with
          | HOk (s', q) =>
              if n =? 0 then Some (s', remove_nth i live)
              else if q =? 0 then Some (s', live)
              else Some (s', mkblk q n :: remove_nth i live)
          | _ => None
          end
      end
  | HDeallocAll => match hp_deallocall c s with HOk s' => Some (s', []) | _ => None end
  end.

Fixpoint crun (c : hcfg) (st : hstate * list blk) (ops : list hop) : option (hstate * list blk) :=
  match ops with
  | [] => Some st
  | o :: r => match cstep c st o with None => None | Some st' => crun c st' r end
  end.

(* full-strength reading of "the heap allocator reports a double free instead of corrupting itself",
   on the memory-level model: dealloc of any non-nil pointer that is not a live block panics *)
Definition heap_mem_invalid_free_reported_full : Prop :=
  forall c ops s live p, hcfg_ok c -> Forall hop_usize ops ->
    crun c (heap_init_state, []) ops = Some (s, live) -> h_initialized s = true ->
    0 < p < two64 -> ~ In p (map b_addr live) ->
    hp_dealloc s p = HPanic.

(* the allocator's own writes never land in a live payload: every word that overlaps the bytes of a
   block that is live before and after an operation (up to the smaller of its two sizes) is unchanged.
   Words are 8 bytes: w ranges from 7 bytes below the block (a word that would still overlap its
   first byte) to its last byte. *)
Definition payload_frame (live live' : list blk) (m m' : mem) : Prop :=
  forall b b', In b live -> In b' live' -> b_addr b = b_addr b' ->
  forall w, b_addr b - 8 < w < b_addr b + Z.min (b_size b) (b_size b') -> mget m' w = mget m w.

