From C11 Require Import Gen Model Heap HeapA Iface Aligned GcRereg.
Require Extraction.
Require Import ExtrOcamlBasic.
Extraction "model.ml"
  mkacfg arena_init arena_alloc arena_dealloc arena_deallocall arena_realloc arena_alloc0 arena_realloc0
  mkscfg stack_init stack_alloc stack_dealloc stack_deallocall stack_realloc
  mkpcfg pool_init pool_alloc pool_dealloc pool_deallocall pool_realloc pool_walk
  mkhcfg heap_init_state hp_alloc hp_dealloc hp_deallocall hp_realloc heap_walk heap_start heap_end NODE_COOKIE w64
  ha_init_state ha_alloc ha_dealloc ha_deallocall ha_realloc
  i_xalloc i_alloc0 i_xalloc0 i_xrealloc i_realloc0 i_spanalloc i_spanalloc0 i_spandealloc i_spanrealloc i_spanrealloc0 i_new i_delete
  mkgcfg aligned_init aligned_alloc aligned_dealloc aligned_realloc aligned_deallocall
  reregister_inplace lookup REREGISTER_SIZE_BEFORE_STEP.
