(* C11 - refinement, part 2: the heap.  [Rep] says which header words of the memory-level model
   (Heap.v) represent an abstract state (HeapA.v); every operation of the memory-level model,
   started in a represented state that satisfies the abstract invariant, returns what the
   abstract operation returns and ends in a state that represents the abstract result. *)
From Coq Require Import ZArith List Bool Lia.
From Base Require Import LuaInt.
From C11 Require Import Gen Model Heap HeapA Spec SpecHeap Common ProofsHeap RefineBins.
Import ListNotations.
Local Open Scope Z_scope.

(* prev_adj links over the header addresses, ending at the end node *)
Fixpoint padj_chain (m : mem) (prev : Z) (l : list Z) (he : Z) : Prop :=
  match l with
  | [] => n_prev_adj m he = prev
  | a :: r => n_prev_adj m a = prev /\ padj_chain m a r he
  end.

Definition is_hdr (he : Z) (chunks : list chunk) (a : Z) : Prop := In a (map c_addr chunks) \/ a = he.

(* the used mark (next = 1, prev = NODE_COOKIE) is found at no 16-aligned address other than the
   chunk headers and the end node: nothing the allocator leaves behind in a payload (absorbed headers,
   old bin links) looks like an allocated chunk *)
Definition marks_ok (he : Z) (m : mem) (chunks : list chunk) : Prop :=
  forall n, n mod 16 = 0 -> is_used m n = true -> is_hdr he chunks n.

Record Rep (he : Z) (m : mem) (bins_c : list Z) (chunks : list chunk) (bins_a : list (list Z)) : Prop := {
  rp_sizes : Forall (fun x => n_size m (c_addr x) = c_sz x) chunks;
  rp_padj : padj_chain m 0 (map c_addr chunks) he;
  rp_used : Forall (fun x => c_used x = true -> is_used m (c_addr x) = true) chunks;
  rp_end : n_size m he = 0 /\ is_used m he = true;
  rp_bins : bins_rep m bins_c bins_a;
  rp_marks : marks_ok he m chunks
}.

(* ---------- the invariant of the micro-steps ----------
   Weaker than the abstract invariant (the bins need not list every free chunk, nor in the right
   bin), so that it holds between the individual writes of an operation. *)
Record MI (hs he : Z) (m : mem) (bins_c : list Z) (chunks : list chunk) (bins_a : list (list Z)) : Prop := {
  mi_pos : 0 < hs;
  mi_top : he + NODE + MIN_ALLOC_SIZE <= two64;
  mi_tiled : tiled hs chunks he;
  mi_al : aligned_chunks chunks;
  mi_mem : forall i a, 0 <= i < BIN_COUNT -> In a (bin_nth bins_a i) ->
             exists x, In x chunks /\ c_addr x = a /\ c_used x = false;
  mi_good : bins_good bins_a;
  mi_rep : Rep he m bins_c chunks bins_a
}.

Lemma is_used_true m n : is_used m n = true <-> mget m (n + 16) = 1 /\ mget m (n + 24) = NODE_COOKIE.
Proof.
  unfold is_used, n_next, n_prev. rewrite andb_true_iff, !Z.eqb_eq. tauto.
Qed.

Lemma is_used_frame m m' a :
  mget m' (a + 16) = mget m (a + 16) -> mget m' (a + 24) = mget m (a + 24) -> is_used m' a = is_used m a.
Proof. intros H1 H2. unfold is_used, n_next, n_prev. rewrite H1, H2. reflexivity. Qed.

Lemma cookie_mod : NODE_COOKIE mod 16 = 15.
Proof. reflexivity. Qed.

Lemma padj_aligned m he l : forall p, p mod 16 = 0 -> Forall (fun a => a mod 16 = 0) l -> padj_chain m p l he ->
  forall h, In h l \/ h = he -> n_prev_adj m h mod 16 = 0.
Proof.
  induction l as [|a r IH]; intros p Hp Hl H h Hh; cbn [padj_chain] in H.
  - destruct Hh as [[] | ->]. rewrite H. exact Hp.
  - destruct H as [H1 H2]. pose proof (Forall_inv Hl) as Ha. pose proof (Forall_inv_tail Hl) as Hr.
    destruct Hh as [[-> | Hh] | ->].
    + rewrite H1. exact Hp.
    + apply (IH a); auto.
    + apply (IH a); auto.
Qed.

(* how the mark invariant is re-established after a step: it is enough to look at the aligned
   addresses whose two mark words are not header words of the new state *)
Lemma marks_step he m' chunks' :
  aligned_chunks chunks' -> padj_chain m' 0 (map c_addr chunks') he ->
  n_size m' he = 0 -> is_used m' he = true ->
  (forall n, n mod 16 = 0 -> is_used m' n = true -> ~ is_hdr he chunks' n ->
     (forall h k, is_hdr he chunks' h -> (k = 0 \/ k = 8 \/ k = 16 \/ k = 24) -> n + 16 <> h + k /\ n + 24 <> h + k) ->
     False) ->
  marks_ok he m' chunks'.
Proof.
  intros Hal Hp He0 Heu Hstep n Hn Hu.
  assert (Hal' : Forall (fun a => a mod 16 = 0) (map c_addr chunks')).
  { unfold aligned_chunks in Hal. rewrite Forall_forall in *. intros a Ha. apply in_map_iff in Ha. destruct Ha as (x & <- & Hx). apply Hal. exact Hx. }
  pose proof (padj_aligned m' he _ 0 eq_refl Hal' Hp) as Hpa.
  pose proof cookie_mod as Hck.
  pose proof Hu as Hu'. apply is_used_true in Hu' as [U1 U2]. apply is_used_true in Heu as [E1 E2]. unfold n_size in He0.
  destruct (in_dec Z.eq_dec n (map c_addr chunks')) as [Hin | Hnin]; [left; exact Hin|].
  destruct (Z.eq_dec n he) as [-> | Hne]; [right; reflexivity|].
  exfalso.
  destruct (in_dec Z.eq_dec (n + 16) (map c_addr chunks')) as [Hin1 | Hnin1].
  { pose proof (Hpa (n + 16) (or_introl Hin1)) as Hx. unfold n_prev_adj in Hx. replace (n + 16 + 8) with (n + 24) in Hx by lia.
    rewrite U2 in Hx. rewrite Hck in Hx. discriminate Hx. }
  destruct (Z.eq_dec (n + 16) he) as [E | Hne1].
  { pose proof (Hpa he (or_intror eq_refl)) as Hx. unfold n_prev_adj in Hx. rewrite <- E in Hx. replace (n + 16 + 8) with (n + 24) in Hx by lia.
    rewrite U2 in Hx. rewrite Hck in Hx. discriminate Hx. }
  destruct (Z.eq_dec (n + 16) (he + 8)) as [E | Hne2].
  { pose proof (Hpa he (or_intror eq_refl)) as Hx. unfold n_prev_adj in Hx. rewrite <- E, U1 in Hx. discriminate Hx. }
  destruct (Z.eq_dec (n + 16) (he + 24)) as [E | Hne3].
  { rewrite E, E2 in U1. discriminate U1. }
  destruct (Z.eq_dec (n + 24) he) as [E | Hne4].
  { rewrite E, He0 in U2. discriminate U2. }
  destruct (Z.eq_dec (n + 24) (he + 16)) as [E | Hne5].
  { rewrite E, E1 in U2. discriminate U2. }
  apply (Hstep n Hn Hu).
  { intros [H | H]; contradiction. }
  intros h k [Hh | ->] Hk.
  - assert (Hha : h mod 16 = 0) by (rewrite Forall_forall in Hal'; apply Hal'; exact Hh).
    assert (h <> n) by (intros ->; contradiction). assert (h <> n + 16) by (intros ->; contradiction).
    Z.div_mod_to_equations. lia.
  - lia.
Qed.

(* the common case: the step writes header words of the new state only, and no header disappears *)
Lemma marks_frame he m m' chunks chunks' :
  marks_ok he m chunks -> aligned_chunks chunks' -> padj_chain m' 0 (map c_addr chunks') he ->
  n_size m' he = 0 -> is_used m' he = true ->
  (forall a, is_hdr he chunks a -> is_hdr he chunks' a) ->
  (forall w, (forall h k, is_hdr he chunks' h -> (k = 0 \/ k = 8 \/ k = 16 \/ k = 24) -> w <> h + k) -> mget m' w = mget m w) ->
  marks_ok he m' chunks'.
Proof.
  intros Hm Hal Hp He0 Heu Hsub Hfr. apply marks_step; auto.
  intros n Hn Hu Hnh Hw. apply Hnh. apply Hsub. apply Hm; [exact Hn|].
  rewrite <- Hu. apply is_used_frame; symmetry; apply Hfr; intros h k Hh Hk; destruct (Hw h k Hh Hk); auto.
Qed.

Section Struct.
Variables (hs he : Z) (chunks : list chunk).
Hypothesis Hpos : 0 < hs.
Hypothesis Ht : tiled hs chunks he.
Hypothesis Hal : aligned_chunks chunks.

Lemma hdr_chunk a : In a (map c_addr chunks) -> exists x, In x chunks /\ c_addr x = a.
Proof. intros H. apply in_map_iff in H. destruct H as (x & E & Hx). exists x. auto. Qed.

Lemma chunk_bounds x : In x chunks -> hs <= c_addr x /\ 0 <= c_sz x /\ c_addr x + 32 + c_sz x <= he /\ c_addr x mod 16 = 0.
Proof.
  intros Hx. pose proof (tiled_bounds _ _ _ Ht) as HB. rewrite Forall_forall in HB.
  destruct (HB x Hx) as (B1 & B2 & B3). pose proof NODE_eq.
  unfold aligned_chunks in Hal. rewrite Forall_forall in Hal. pose proof (Hal x Hx). lia.
Qed.

Lemma chunk_sep x y : In x chunks -> In y chunks ->
  x = y \/ c_addr x + 32 + c_sz x <= c_addr y \/ c_addr y + 32 + c_sz y <= c_addr x.
Proof.
  intros Hx Hy. destruct (Z.eq_dec (c_addr x) (c_addr y)) as [E | Hne].
  - left. eapply tiled_unique; [exact Ht | exact Hx | exact Hy | exact E].
  - right. assert (x <> y) by (intros ->; contradiction).
    pose proof (tiled_disjoint _ _ _ x y Ht Hx Hy H). pose proof NODE_eq. lia.
Qed.

Lemma hdr_sep a b : is_hdr he chunks a -> is_hdr he chunks b -> a = b \/ a + 32 <= b \/ b + 32 <= a.
Proof.
  intros [Ha | ->] [Hb | ->].
  - destruct (hdr_chunk _ Ha) as (x & Hx & <-). destruct (hdr_chunk _ Hb) as (y & Hy & <-).
    destruct (chunk_bounds x Hx) as (_ & ? & _). destruct (chunk_bounds y Hy) as (_ & ? & _).
    destruct (chunk_sep x y Hx Hy) as [-> | [H1 | H1]]; [left; reflexivity | right; left; lia | right; right; lia].
  - destruct (hdr_chunk _ Ha) as (x & Hx & <-). destruct (chunk_bounds x Hx) as (_ & ? & ? & _). right. left. lia.
  - destruct (hdr_chunk _ Hb) as (y & Hy & <-). destruct (chunk_bounds y Hy) as (_ & ? & ? & _). right. right. lia.
  - left. reflexivity.
Qed.

Lemma hdr_pos a : is_hdr he chunks a -> 0 < a /\ a mod 16 = 0 \/ a = he.
Proof.
  intros [Ha | ->]; [|right; reflexivity]. destruct (hdr_chunk _ Ha) as (x & Hx & <-).
  destruct (chunk_bounds x Hx) as (? & _ & _ & ?). left. lia.
Qed.

Lemma size_at_chunk x : In x chunks -> size_at chunks (c_addr x) = c_sz x.
Proof.
  intros Hx. destruct (in_split _ _ Hx) as (pre & post & E).
  pose proof Ht as Ht'. rewrite E in Ht' |- *.
  apply (size_at_found _ _ pre x post). eapply find_chunk_tiled. exact Ht'.
Qed.

Lemma chunks_len : forall s l e, tiled s l e -> Z.of_nat (length l) * 32 <= e - s.
Proof.
  intros s l. revert s. induction l as [|x r IH]; intros s e H; cbn [tiled length] in *; [lia|].
  destruct H as (_ & Hs & H). apply IH in H. pose proof NODE_eq. lia.
Qed.

End Struct.

(* from the abstract invariant *)
Lemma MI_of_inv hs he m bins_c chunks bins_a live :
  raw_inv hs he chunks bins_a live -> Rep he m bins_c chunks bins_a -> MI hs he m bins_c chunks bins_a.
Proof.
  intros [Hpos Htop Ht Hal Hb Hl] Hrep.
  assert (Hmem : forall i a, 0 <= i < BIN_COUNT -> In a (bin_nth bins_a i) ->
             exists x, In x chunks /\ c_addr x = a /\ c_used x = false /\ get_bin_index (c_sz x) = i).
  { intros i a Hi Ha. destruct Hb as (_ & Hb). destruct (Hb i Hi) as [_ Hin]. apply Hin. exact Ha. }
  split; try assumption.
  - intros i a Hi Ha. destruct (Hmem i a Hi Ha) as (x & Hx & E & Hf & _). exists x. auto.
  - split.
    + intros i Hi. destruct Hb as (_ & Hb). destruct (Hb i Hi) as [Hnd _]. split; [exact Hnd|]. rewrite Forall_forall. intros a Ha.
      destruct (Hmem i a Hi Ha) as (x & Hx & <- & _). destruct (chunk_bounds hs he chunks Ht Hal x Hx) as (? & _ & _ & ?).
      split; [lia | assumption].
    + intros i j a Hi Hj Hai Haj.
      destruct (Hmem i a Hi Hai) as (x & Hx & Hxa & _ & Hxi).
      destruct (Hmem j a Hj Haj) as (y & Hy & Hya & _ & Hyj).
      assert (x = y) by (eapply tiled_unique; [exact Ht | exact Hx | exact Hy | congruence]).
      subst y. congruence.
Qed.

(* ---------- frames ---------- *)
Lemma padj_chain_frame m m' he l : forall p,
  (forall a, In a l -> n_prev_adj m' a = n_prev_adj m a) -> n_prev_adj m' he = n_prev_adj m he ->
  padj_chain m p l he -> padj_chain m' p l he.
Proof.
  induction l as [|a r IH]; intros p Hf He H; cbn [padj_chain] in *; [congruence|].
  destruct H as [H1 H2]. split; [rewrite (Hf a (or_introl eq_refl)); exact H1|].
  apply IH; auto. intros b Hb. apply Hf. right. exact Hb.
Qed.

Lemma padj_chain_app m he l1 a l2 : forall p,
  padj_chain m p (l1 ++ a :: l2) he <->
  padj_chain m p l1 a /\ padj_chain m a l2 he.
Proof.
  induction l1 as [|b r IH]; intros p; cbn [app padj_chain]; [tauto|]. rewrite IH. tauto.
Qed.

Lemma bins_rep_frame m m' bins_c bins_a :
  (forall i a, 0 <= i < BIN_COUNT -> In a (bin_nth bins_a i) ->
     mget m' (a + 16) = mget m (a + 16) /\ mget m' (a + 24) = mget m (a + 24)) ->
  bins_rep m bins_c bins_a -> bins_rep m' bins_c bins_a.
Proof.
  intros Hf (H1 & H2 & H3). split; [exact H1|]. split; [exact H2|]. intros i Hi. destruct (H3 i Hi) as [Hd Hh].
  split; [|exact Hh]. eapply dll_frame; [|exact Hd]. intros a Ha. destruct (Hf i a Hi Ha). unfold n_next, n_prev. auto.
Qed.

Lemma set_used_frame m a w : w <> a + 16 -> w <> a + 24 -> mget (set_used m a) w = mget m w.
Proof. intros. unfold set_used. mm. reflexivity. Qed.

Lemma set_used_is_used m a : is_used (set_used m a) a = true.
Proof. unfold is_used, set_used, n_next, n_prev. mm. rewrite !Z.eqb_refl. reflexivity. Qed.

Lemma map_addr_mid (pre post : list chunk) x y : c_addr y = c_addr x ->
  map c_addr (pre ++ y :: post) = map c_addr (pre ++ x :: post).
Proof. intros E. rewrite !map_app. cbn [map]. rewrite E. reflexivity. Qed.

(* ---------- derived facts under MI ---------- *)
Section MIFacts.
Variables (hs he : Z) (m : mem) (bins_c : list Z) (chunks : list chunk) (bins_a : list (list Z)).
Hypothesis H : MI hs he m bins_c chunks bins_a.

Let Hpos := mi_pos _ _ _ _ _ _ H.
Let Ht := mi_tiled _ _ _ _ _ _ H.
Let Hal := mi_al _ _ _ _ _ _ H.

Lemma mi_size x : In x chunks -> n_size m (c_addr x) = c_sz x.
Proof. intros Hx. pose proof (rp_sizes _ _ _ _ _ (mi_rep _ _ _ _ _ _ H)) as HS. rewrite Forall_forall in HS. auto. Qed.

Lemma mi_member_hdr i a : 0 <= i < BIN_COUNT -> In a (bin_nth bins_a i) ->
  is_hdr he chunks a /\ a + 32 <= he /\ node_ok a.
Proof.
  intros Hi Ha. destruct (mi_mem _ _ _ _ _ _ H i a Hi Ha) as (x & Hx & <- & _).
  destruct (chunk_bounds hs he chunks Ht Hal x Hx) as (? & ? & ? & ?).
  split; [left; apply in_map; exact Hx|]. split; [lia|]. split; [lia | assumption].
Qed.

(* a member of a bin does not carry the used mark *)
Lemma mi_member_not_used i a : 0 <= i < BIN_COUNT -> In a (bin_nth bins_a i) -> is_used m a = false.
Proof.
  intros Hi Ha.
  destruct (rp_bins _ _ _ _ _ (mi_rep _ _ _ _ _ _ H)) as (_ & _ & Hr). destruct (Hr _ Hi) as [Hd _].
  destruct (in_split _ _ Ha) as (l1 & l2 & El). rewrite El in Hd.
  destruct (dll_fields m a l2 l1 0 Hd) as [_ Enx].
  unfold is_used. rewrite Enx. destruct l2 as [|b r2]; [reflexivity|]. cbn [hd].
  assert (Hbo : node_ok b).
  { destruct (mi_good _ _ _ _ _ _ H) as [Hg _]. eapply good_in; [apply (Hg _ Hi)|].
    rewrite El. apply in_or_app. right. right. left. reflexivity. }
  destruct Hbo as [Hb0 Hbm]. assert (E : (b =? 1) = false) by (apply Z.eqb_neq; lia). rewrite E. reflexivity.
Qed.

Lemma mi_sizes_agree i : 0 <= i < BIN_COUNT -> sizes_agree m chunks (bin_nth bins_a i).
Proof.
  intros Hi. unfold sizes_agree. rewrite Forall_forall. intros a Ha.
  destruct (mi_mem _ _ _ _ _ _ H i a Hi Ha) as (x & Hx & <- & _).
  destruct (chunk_bounds hs he chunks Ht Hal x Hx) as (? & _).
  split; [lia|]. rewrite (size_at_chunk hs he chunks Ht x Hx). apply mi_size. exact Hx.
Qed.

Lemma mi_bin_len i : 0 <= i < BIN_COUNT -> (length (bin_nth bins_a i) <= length chunks)%nat.
Proof.
  intros Hi. destruct (mi_good _ _ _ _ _ _ H) as [Hg _]. destruct (Hg i Hi) as [Hnd _].
  rewrite <- (map_length c_addr chunks). apply NoDup_incl_length; [exact Hnd|].
  intros a Ha. destruct (mi_mem _ _ _ _ _ _ H i a Hi Ha) as (x & Hx & <- & _). apply in_map. exact Hx.
Qed.

End MIFacts.

(* ---------- M1: unlink a member of a bin ---------- *)
Lemma M1_unlink hs he m bins_c chunks bins_a i a :
  MI hs he m bins_c chunks bins_a -> 0 <= i < BIN_COUNT -> In a (bin_nth bins_a i) ->
  exists bins_c', remove_bin_node bins_c m i a = (bins_c', unlink_mem m a) /\
    MI hs he (unlink_mem m a) bins_c' chunks (bins_remove bins_a i a) /\
    (forall w, (forall b, In b (bin_nth bins_a i) -> b <> a -> w <> b + 16 /\ w <> b + 24) ->
               mget (unlink_mem m a) w = mget m w).
Proof.
  intros HM Hi Hain. pose proof HM as [Hpos Htop Ht Hal Hmem Hgood Hrep].
  destruct (remove_node_sim m bins_c bins_a i a (rp_bins _ _ _ _ _ Hrep) Hgood Hi Hain) as (Hrm & Hbr & Hfr).
  eexists. split; [exact Hrm|]. split; [|exact Hfr].
  set (m1 := unlink_mem m a) in *.
  assert (Hkeep : forall w, (forall b, In b (bin_nth bins_a i) -> w <> b + 16 /\ w <> b + 24) -> mget m1 w = mget m w).
  { intros w Hw. apply Hfr. intros b Hb _. apply Hw. exact Hb. }
  assert (Hb32 : forall b, In b (bin_nth bins_a i) -> is_hdr he chunks b /\ b + 32 <= he).
  { intros b Hb. destruct (mi_member_hdr _ _ _ _ _ _ HM i b Hi Hb) as (? & ? & _). auto. }
  assert (Hsep := hdr_sep hs he chunks Ht Hal).
  assert (Hlen : length bins_a = Z.to_nat BIN_COUNT) by (destruct (rp_bins _ _ _ _ _ Hrep) as (_ & ? & _); assumption).
  split; try assumption.
  - (* members of the new bins *)
    intros j c Hj Hc. unfold bins_remove in Hc. destruct (Z.eq_dec j i) as [-> | Hne].
    + rewrite bin_nth_upd_same in Hc by assumption.
      destruct Hgood as [Hg _]. destruct (Hg i Hi) as [Hnd _]. apply (remove_addr_in a _ c Hnd) in Hc.
      apply (Hmem i c Hi). tauto.
    + rewrite bin_nth_upd_other in Hc by lia. apply (Hmem j c Hj Hc).
  - (* the new bins are still good *)
    destruct Hgood as [Hg Hdisj].
    assert (Hsub : forall j c, 0 <= j < BIN_COUNT -> In c (bin_nth (bins_remove bins_a i a) j) -> In c (bin_nth bins_a j)).
    { intros j c Hj Hc. unfold bins_remove in Hc. destruct (Z.eq_dec j i) as [-> | Hne].
      - rewrite bin_nth_upd_same in Hc by assumption. destruct (Hg i Hi) as [Hnd _]. apply (remove_addr_in a _ c Hnd) in Hc. tauto.
      - rewrite bin_nth_upd_other in Hc by lia. exact Hc. }
    split.
    + intros j Hj. unfold bins_remove. destruct (Z.eq_dec j i) as [-> | Hne].
      * rewrite bin_nth_upd_same by assumption. destruct (Hg i Hi) as [Hnd HF]. split; [apply remove_addr_nodup; exact Hnd|].
        rewrite Forall_forall in *. intros c Hc. apply HF. apply (remove_addr_in a _ c Hnd) in Hc. tauto.
      * rewrite bin_nth_upd_other by lia. apply Hg. exact Hj.
    + intros j k c Hj Hk Hcj Hck. apply (Hdisj j k c Hj Hk); apply Hsub; assumption.
  - (* the representation *)
    split.
    + rewrite Forall_forall. intros y Hy. unfold n_size.
      rewrite Hkeep; [apply (mi_size _ _ _ _ _ _ HM y Hy)|].
      intros b Hb. destruct (Hb32 b Hb) as [Hbh _].
      destruct (Hsep (c_addr y) b (or_introl (in_map c_addr _ _ Hy)) Hbh); lia.
    + eapply padj_chain_frame; [| |exact (rp_padj _ _ _ _ _ Hrep)].
      * intros c Hc. unfold n_prev_adj. apply Hkeep. intros b Hb. destruct (Hb32 b Hb) as [Hbh _].
        destruct (Hsep c b (or_introl Hc) Hbh); lia.
      * unfold n_prev_adj. apply Hkeep. intros b Hb. destruct (Hb32 b Hb). lia.
    + rewrite Forall_forall. intros y Hy Hu.
      pose proof (rp_used _ _ _ _ _ Hrep) as HU. rewrite Forall_forall in HU. rewrite <- (HU y Hy Hu).
      apply is_used_frame; apply Hkeep; intros b Hb;
        destruct (Hmem i b Hi Hb) as (z & Hz & <- & Hzf);
        (assert (y <> z) by (intros ->; congruence));
        destruct (chunk_sep hs he chunks Ht y z Hy Hz) as [? | ?]; try contradiction;
        destruct (chunk_bounds hs he chunks Ht Hal y Hy) as (_ & ? & _); destruct (chunk_bounds hs he chunks Ht Hal z Hz) as (_ & ? & _); lia.
    + destruct (rp_end _ _ _ _ _ Hrep) as [E1 E2]. split.
      * unfold n_size. rewrite Hkeep; [exact E1|]. intros b Hb. destruct (Hb32 b Hb). lia.
      * rewrite <- E2. apply is_used_frame; apply Hkeep; intros b Hb; destruct (Hb32 b Hb); lia.
    + exact Hbr.
    + intros n Hn Hu. destruct (in_dec Z.eq_dec n (bin_nth bins_a i)) as [Hnb | Hnb]; [apply (Hb32 n Hnb)|].
      apply (rp_marks _ _ _ _ _ Hrep n Hn). rewrite <- Hu. symmetry.
      apply is_used_frame; apply Hkeep; intros b Hb; (assert (b <> n) by (intros ->; contradiction));
        destruct (Hb32 b Hb) as [Hbh Hbe]; destruct (hdr_pos hs he chunks Hpos Ht Hal b Hbh) as [[_ Hba] | ->]; try lia;
        Z.div_mod_to_equations; lia.
Qed.

(* the unlinked node keeps its own (unmarked) link words *)
Lemma unlink_own_unused hs he m bins_c chunks bins_a i a :
  MI hs he m bins_c chunks bins_a -> 0 <= i < BIN_COUNT -> In a (bin_nth bins_a i) ->
  is_used (unlink_mem m a) a = false.
Proof.
  intros HM Hi Ha. destruct (M1_unlink hs he m bins_c chunks bins_a i a HM Hi Ha) as (bc & _ & _ & Hfr).
  rewrite <- (mi_member_not_used _ _ _ _ _ _ HM i a Hi Ha).
  destruct (mi_member_hdr _ _ _ _ _ _ HM i a Hi Ha) as (_ & _ & _ & Haa).
  apply is_used_frame; apply Hfr; intros b Hb Hne;
    destruct (mi_member_hdr _ _ _ _ _ _ HM i b Hi Hb) as (_ & _ & _ & Hba); Z.div_mod_to_equations; lia.
Qed.

Lemma tiled_same_geom s e pre x x' post :
  c_addr x' = c_addr x -> c_sz x' = c_sz x ->
  tiled s (pre ++ x :: post) e -> tiled s (pre ++ x' :: post) e.
Proof.
  intros Ea Es H. apply tiled_app in H. destruct H as (mid & H1 & H2). apply tiled_app. exists mid. split; [exact H1|].
  cbn [tiled] in *. rewrite Ea, Es. exact H2.
Qed.

Lemma aligned_same_geom pre x x' post :
  c_addr x' = c_addr x -> aligned_chunks (pre ++ x :: post) -> aligned_chunks (pre ++ x' :: post).
Proof.
  unfold aligned_chunks. intros Ea H. rewrite Forall_forall in *. intros y Hy.
  apply in_app_or in Hy. cbn [In] in Hy. destruct Hy as [Hy | [<- | Hy]].
  - apply H. apply in_or_app. tauto.
  - rewrite Ea. apply H. apply in_or_app. right. left. reflexivity.
  - apply H. apply in_or_app. right. right. exact Hy.
Qed.

Lemma in_mid_cases {A} (y x : A) pre post : In y (pre ++ x :: post) -> y = x \/ In y pre \/ In y post.
Proof. intros H. apply in_app_or in H. cbn [In] in H. destruct H as [H | [H | H]]; auto. Qed.

(* ---------- M3 / M7: change the flag of a chunk that is in no bin ---------- *)
Lemma M_reflag hs he m m' bins_c pre x post bins_a (u : bool) :
  MI hs he m bins_c (pre ++ x :: post) bins_a ->
  (forall i, 0 <= i < BIN_COUNT -> ~ In (c_addr x) (bin_nth bins_a i)) ->
  (forall w, w <> c_addr x + 16 -> w <> c_addr x + 24 -> mget m' w = mget m w) ->
  (u = true -> is_used m' (c_addr x) = true) ->
  MI hs he m' bins_c (pre ++ mkchunk (c_addr x) (c_sz x) u :: post) bins_a.
Proof.
  intros HM Hnot Hfr Hmark. pose proof HM as [Hpos Htop Ht Hal Hmem Hgood Hrep].
  set (a := c_addr x) in *. set (x' := mkchunk a (c_sz x) u).
  assert (Hxin : In x (pre ++ x :: post)) by (apply in_or_app; right; left; reflexivity).
  destruct (chunk_bounds hs he _ Ht Hal x Hxin) as (Ha1 & Ha2 & Ha3 & Ha4). fold a in Ha1, Ha3, Ha4.
  assert (Hsep := hdr_sep hs he _ Ht Hal).
  assert (Hah : is_hdr he (pre ++ x :: post) a) by (left; apply in_map; exact Hxin).
  (* a word of another header keeps its value *)
  assert (Hother : forall h k, is_hdr he (pre ++ x :: post) h -> h <> a -> 0 <= k <= 24 -> mget m' (h + k) = mget m (h + k)).
  { intros h k Hh Hne Hk. destruct (Hsep h a Hh Hah) as [? | ?]; [contradiction|]. apply Hfr; lia. }
  split; try assumption.
  - apply (tiled_same_geom hs he pre x x' post); auto.
  - apply (aligned_same_geom pre x x' post); auto.
  - intros i b Hi Hb. destruct (Hmem i b Hi Hb) as (z & Hz & Hza & Hzf). exists z.
    split; [|auto]. destruct (in_mid_cases z x pre post Hz) as [-> | Hz'].
    + exfalso. apply (Hnot i Hi). rewrite <- Hza in Hb. exact Hb.
    + apply in_or_app. cbn [In]. tauto.
  - split.
    + rewrite Forall_forall. intros y Hy. destruct (in_mid_cases y x' pre post Hy) as [-> | Hy'].
      * unfold x'. cbn [c_addr c_sz]. unfold n_size. rewrite Hfr by lia. apply (mi_size _ _ _ _ _ _ HM x Hxin).
      * assert (Hy0 : In y (pre ++ x :: post)) by (apply in_or_app; cbn [In]; tauto).
        unfold n_size. rewrite Hfr.
        -- apply (mi_size _ _ _ _ _ _ HM y Hy0).
        -- destruct (Hsep (c_addr y) a (or_introl (in_map c_addr _ _ Hy0)) Hah); lia.
        -- destruct (Hsep (c_addr y) a (or_introl (in_map c_addr _ _ Hy0)) Hah); lia.
    + rewrite (map_addr_mid pre post x x' eq_refl).
      eapply padj_chain_frame; [| |exact (rp_padj _ _ _ _ _ Hrep)].
      * intros c Hc. unfold n_prev_adj. destruct (Hsep c a (or_introl Hc) Hah); apply Hfr; lia.
      * unfold n_prev_adj. apply Hfr; lia.
    + rewrite Forall_forall. intros y Hy Hu. destruct (in_mid_cases y x' pre post Hy) as [-> | Hy'].
      * unfold x' in *. cbn [c_addr c_used] in *. apply Hmark. exact Hu.
      * assert (Hy0 : In y (pre ++ x :: post)) by (apply in_or_app; cbn [In]; tauto).
        pose proof (rp_used _ _ _ _ _ Hrep) as HU. rewrite Forall_forall in HU. rewrite <- (HU y Hy0 Hu).
        assert (Hne : c_addr y <> a).
        { intros E. assert (y = x) by (eapply tiled_unique; [exact Ht | exact Hy0 | exact Hxin | exact E]). subst y.
          (* y = x would be both in pre/post and the middle: its address appears once only *)
          destruct (tiled_mid _ _ _ _ _ Ht) as (mm0 & _ & Hm0 & _ & _ & Hp1 & Hp2).
          destruct Hy' as [Hy' | Hy']; [destruct (Hp1 x Hy') as (_ & ? & ?) | destruct (Hp2 x Hy') as (? & _)]; pose proof NODE_eq; lia. }
        apply is_used_frame; apply (Hother (c_addr y) _ (or_introl (in_map c_addr _ _ Hy0)) Hne); lia.
    + destruct (rp_end _ _ _ _ _ Hrep) as [E1 E2]. split.
      * unfold n_size. rewrite Hfr by lia. exact E1.
      * rewrite <- E2. apply is_used_frame; apply Hfr; lia.
    + eapply bins_rep_frame; [|exact (rp_bins _ _ _ _ _ Hrep)]. intros i c Hi Hc.
      destruct (mi_member_hdr _ _ _ _ _ _ HM i c Hi Hc) as (Hch & _ & _).
      assert (c <> a) by (intros ->; apply (Hnot i Hi); exact Hc).
      split; apply (Hother c _ Hch H); lia.
    + intros n Hn Hu. unfold is_hdr. rewrite (map_addr_mid pre post x x' eq_refl). fold (is_hdr he (pre ++ x :: post) n).
      destruct (Z.eq_dec n a) as [-> | Hna]; [exact Hah|].
      apply (rp_marks _ _ _ _ _ Hrep n Hn). rewrite <- Hu. symmetry.
      apply is_used_frame; apply Hfr; Z.div_mod_to_equations; lia.
Qed.

(* ---------- M2: push a free chunk that is in no bin ---------- *)
Lemma M2_push hs he m bins_c chunks bins_a x :
  MI hs he m bins_c chunks bins_a -> In x chunks -> c_used x = false ->
  (forall i, 0 <= i < BIN_COUNT -> ~ In (c_addr x) (bin_nth bins_a i)) ->
  exists bins_c' m', add_node bins_c m (c_addr x) = (bins_c', m') /\
    MI hs he m' bins_c' chunks (bins_add bins_a (c_sz x) (c_addr x)) /\
    (forall w, w <> c_addr x + 16 -> w <> c_addr x + 24 ->
       (forall b, In b (bin_nth bins_a (get_bin_index (c_sz x))) -> w <> b + 24) -> mget m' w = mget m w).
Proof.
  intros HM Hx Hfree Hnot. pose proof HM as [Hpos Htop Ht Hal Hmem Hgood Hrep].
  set (a := c_addr x) in *.
  destruct (chunk_bounds hs he _ Ht Hal x Hx) as (Ha1 & Ha2 & Ha3 & Ha4). fold a in Ha1, Ha3, Ha4.
  assert (Hao : node_ok a) by (split; [lia | exact Ha4]).
  pose proof (mi_size _ _ _ _ _ _ HM x Hx) as Hsz. fold a in Hsz.
  destruct (add_node_sim m bins_c bins_a a (rp_bins _ _ _ _ _ Hrep) Hgood Hao Hnot) as [Hadd Hbr].
  rewrite Hsz in Hadd, Hbr.
  set (i := get_bin_index (c_sz x)) in *. pose proof (get_bin_index_range (c_sz x)) as Hi. fold i in Hi.
  set (m' := push_mem m a (hd 0 (bin_nth bins_a i))) in *.
  eexists. eexists. split; [exact Hadd|].
  assert (Hfr : forall w, w <> a + 16 -> w <> a + 24 -> (forall b, In b (bin_nth bins_a i) -> w <> b + 24) -> mget m' w = mget m w).
  { intros w W1 W2 W3. apply push_mem_frame; auto. intros Hh.
    destruct (bin_nth bins_a i) as [|h r] eqn:E; [cbn in Hh; contradiction|]. cbn [hd]. apply W3. left. reflexivity. }
  split; [|exact Hfr].
  assert (Hsep := hdr_sep hs he _ Ht Hal).
  assert (Hah : is_hdr he chunks a) by (left; apply in_map; exact Hx).
  assert (Hlen : length bins_a = Z.to_nat BIN_COUNT) by (destruct (rp_bins _ _ _ _ _ Hrep) as (_ & ? & _); assumption).
  (* words of headers other than a and the members of bin i, and non-link words of all headers *)
  assert (Hk0 : forall h k, is_hdr he chunks h -> (k = 0 \/ k = 8) -> mget m' (h + k) = mget m (h + k)).
  { intros h k Hh Hk. apply Hfr.
    - destruct (Hsep h a Hh Hah); lia.
    - destruct (Hsep h a Hh Hah); lia.
    - intros b Hb. destruct (mi_member_hdr _ _ _ _ _ _ HM i b Hi Hb) as (Hbh & _). destruct (Hsep h b Hh Hbh); lia. }
  assert (Hk1 : forall h k, is_hdr he chunks h -> h <> a -> (forall b, In b (bin_nth bins_a i) -> h <> b) ->
                 (k = 16 \/ k = 24) -> mget m' (h + k) = mget m (h + k)).
  { intros h k Hh Hne Hnb Hk. apply Hfr.
    - destruct (Hsep h a Hh Hah) as [? | ?]; [contradiction | lia].
    - destruct (Hsep h a Hh Hah) as [? | ?]; [contradiction | lia].
    - intros b Hb. destruct (mi_member_hdr _ _ _ _ _ _ HM i b Hi Hb) as (Hbh & _).
      destruct (Hsep h b Hh Hbh) as [? | ?]; [exfalso; apply (Hnb b Hb); assumption | lia]. }
  split; try assumption.
  - intros j c Hj Hc. unfold bins_add in Hc. fold i in Hc. destruct (Z.eq_dec j i) as [-> | Hne].
    + rewrite bin_nth_upd_same in Hc by assumption. destruct Hc as [<- | Hc]; [exists x; auto | apply (Hmem i c Hi Hc)].
    + rewrite bin_nth_upd_other in Hc by lia. apply (Hmem j c Hj Hc).
  - destruct Hgood as [Hg Hdisj].
    assert (Hin' : forall j c, 0 <= j < BIN_COUNT -> In c (bin_nth (bins_add bins_a (c_sz x) a) j) ->
                     (c = a /\ j = i) \/ In c (bin_nth bins_a j)).
    { intros j c Hj Hc. unfold bins_add in Hc. fold i in Hc. destruct (Z.eq_dec j i) as [-> | Hne].
      - rewrite bin_nth_upd_same in Hc by assumption. destruct Hc as [<- | Hc]; auto.
      - rewrite bin_nth_upd_other in Hc by lia. auto. }
    split.
    + intros j Hj. unfold bins_add. fold i. destruct (Z.eq_dec j i) as [-> | Hne].
      * rewrite bin_nth_upd_same by assumption. destruct (Hg i Hi) as [Hnd HF].
        split; [constructor; [apply Hnot; exact Hi | exact Hnd] | constructor; assumption].
      * rewrite bin_nth_upd_other by lia. apply Hg. exact Hj.
    + intros j k c Hj Hk Hcj Hck.
      destruct (Hin' j c Hj Hcj) as [[Hca1 Hji] | Hcj']; destruct (Hin' k c Hk Hck) as [[Hca2 Hki] | Hck'].
      * congruence.
      * subst c. exfalso. apply (Hnot k Hk). exact Hck'.
      * subst c. exfalso. apply (Hnot j Hj). exact Hcj'.
      * apply (Hdisj j k c); assumption.
  - split.
    + rewrite Forall_forall. intros y Hy. unfold n_size. replace (c_addr y) with (c_addr y + 0) by lia.
      rewrite Hk0; [|left; apply in_map; exact Hy | auto]. replace (c_addr y + 0) with (c_addr y) by lia.
      apply (mi_size _ _ _ _ _ _ HM y Hy).
    + eapply padj_chain_frame; [| |exact (rp_padj _ _ _ _ _ Hrep)].
      * intros c Hc. unfold n_prev_adj. apply Hk0; [left; exact Hc | auto].
      * unfold n_prev_adj. apply Hk0; [right; reflexivity | auto].
    + rewrite Forall_forall. intros y Hy Hu.
      pose proof (rp_used _ _ _ _ _ Hrep) as HU. rewrite Forall_forall in HU. rewrite <- (HU y Hy Hu).
      assert (Hya : c_addr y <> a).
      { intros E. assert (y = x) by (eapply tiled_unique; [exact Ht | exact Hy | exact Hx | exact E]). subst y. congruence. }
      assert (Hyb : forall b, In b (bin_nth bins_a i) -> c_addr y <> b).
      { intros b Hb E. destruct (Hmem i b Hi Hb) as (z & Hz & Hza & Hzf).
        assert (y = z) by (eapply tiled_unique; [exact Ht | exact Hy | exact Hz | congruence]). subst z. congruence. }
      apply is_used_frame; apply Hk1; auto; left; apply in_map; exact Hy.
    + destruct (rp_end _ _ _ _ _ Hrep) as [E1 E2].
      assert (Hea : he <> a) by lia.
      assert (Heb : forall b, In b (bin_nth bins_a i) -> he <> b).
      { intros b Hb. destruct (mi_member_hdr _ _ _ _ _ _ HM i b Hi Hb) as (_ & ? & _). lia. }
      split.
      * unfold n_size. replace he with (he + 0) by lia. rewrite Hk0; [|right; reflexivity | auto].
        replace (he + 0) with he by lia. exact E1.
      * rewrite <- E2. apply is_used_frame; apply Hk1; auto; right; reflexivity.
    + exact Hbr.
    + intros n Hn Hu. destruct (Z.eq_dec n a) as [-> | Hna]; [exact Hah|].
      destruct (in_dec Z.eq_dec n (bin_nth bins_a i)) as [Hnb | Hnb]; [apply (mi_member_hdr _ _ _ _ _ _ HM i n Hi Hnb)|].
      apply (rp_marks _ _ _ _ _ Hrep n Hn). rewrite <- Hu. symmetry.
      apply is_used_frame; apply Hfr; try (Z.div_mod_to_equations; lia);
        intros b Hb; (assert (b <> n) by (intros ->; contradiction));
        destruct (mi_member_hdr _ _ _ _ _ _ HM i b Hi Hb) as (Hbh & Hbe & _);
        destruct (hdr_pos hs he chunks Hpos Ht Hal b Hbh) as [[_ Hba] | ->]; try lia; Z.div_mod_to_equations; lia.
Qed.

(* ---------- only header words matter ---------- *)
Lemma MI_ext hs he m m' bins_c chunks bins_a :
  MI hs he m bins_c chunks bins_a ->
  (forall h k, is_hdr he chunks h -> (k = 0 \/ k = 8 \/ k = 16 \/ k = 24) -> mget m' (h + k) = mget m (h + k)) ->
  (forall n, n mod 16 = 0 -> ~ is_hdr he chunks n -> is_used m' n = true -> is_used m n = true) ->
  MI hs he m' bins_c chunks bins_a.
Proof.
  intros HM Hf Hmk. pose proof HM as [Hpos Htop Ht Hal Hmem Hgood Hrep]. split; try assumption.
  split.
  - rewrite Forall_forall. intros y Hy. unfold n_size. replace (c_addr y) with (c_addr y + 0) by lia.
    rewrite Hf; [|left; apply in_map; exact Hy | auto]. replace (c_addr y + 0) with (c_addr y) by lia.
    apply (mi_size _ _ _ _ _ _ HM y Hy).
  - eapply padj_chain_frame; [| |exact (rp_padj _ _ _ _ _ Hrep)].
    + intros c Hc. unfold n_prev_adj. apply Hf; [left; exact Hc | auto].
    + unfold n_prev_adj. apply Hf; [right; reflexivity | auto].
  - rewrite Forall_forall. intros y Hy Hu.
    pose proof (rp_used _ _ _ _ _ Hrep) as HU. rewrite Forall_forall in HU. rewrite <- (HU y Hy Hu).
    apply is_used_frame; apply Hf; auto; left; apply in_map; exact Hy.
  - destruct (rp_end _ _ _ _ _ Hrep) as [E1 E2]. split.
    + unfold n_size. replace he with (he + 0) by lia. rewrite Hf; [|right; reflexivity | auto].
      replace (he + 0) with he by lia. exact E1.
    + rewrite <- E2. apply is_used_frame; apply Hf; auto; right; reflexivity.
  - eapply bins_rep_frame; [|exact (rp_bins _ _ _ _ _ Hrep)]. intros i c Hi Hc.
    destruct (mi_member_hdr _ _ _ _ _ _ HM i c Hi Hc) as (Hch & _). split; apply Hf; auto.
  - intros n Hn Hu.
    destruct (in_dec Z.eq_dec n (map c_addr chunks)) as [Hin | Hnin]; [left; exact Hin|].
    destruct (Z.eq_dec n he) as [-> | Hne]; [right; reflexivity|].
    apply (rp_marks _ _ _ _ _ Hrep n Hn). apply Hmk; auto. intros [? | ?]; contradiction.
Qed.

Lemma tiled_next hs he pre x post :
  tiled hs (pre ++ x :: post) he -> hd he (map c_addr post) = c_addr x + NODE + c_sz x.
Proof.
  intros H. destruct (tiled_mid _ _ _ _ _ H) as (m0 & _ & Hm & _ & H2 & _). subst m0.
  destruct post as [|y r]; cbn [map hd tiled] in *; [lia | destruct H2 as (E & _); exact E].
Qed.

Lemma tiled_first_or_far s l e y : tiled s l e -> In y l -> c_addr y = s \/ s + 32 <= c_addr y.
Proof.
  destruct l as [|x r]; intros H Hy; [destruct Hy|]. cbn [tiled] in H. destruct H as (Ha & Hs & H).
  destruct Hy as [<- | Hy]; [left; exact Ha|]. right.
  pose proof (tiled_bounds _ _ _ H) as HB. rewrite Forall_forall in HB. destruct (HB y Hy) as (? & _). pose proof NODE_eq. lia.
Qed.

(* ---------- M4: split a chunk ---------- *)
Lemma M4_split hs he m m' bins_c pre x post bins_a size :
  MI hs he m bins_c (pre ++ x :: post) bins_a ->
  0 <= size -> size mod 16 = 0 -> size + NODE <= c_sz x ->
  let a := c_addr x in let sp := a + NODE + size in let nx := a + NODE + c_sz x in
  mget m' a = size -> mget m' sp = c_sz x - size - NODE -> mget m' (sp + 8) = a -> mget m' (nx + 8) = sp ->
  (forall w, w <> a -> w <> sp -> w <> sp + 8 -> w <> nx + 8 -> mget m' w = mget m w) ->
  MI hs he m' bins_c (pre ++ mkchunk a size (c_used x) :: mkchunk sp (c_sz x - size - NODE) false :: post) bins_a.
Proof.
  intros HM Hs0 Hsm Hfit a sp nx W1 W2 W3 W4 Hfr. pose proof HM as [Hpos Htop Ht Hal Hmem Hgood Hrep].
  pose proof NODE_eq as HN.
  assert (Hxin : In x (pre ++ x :: post)) by (apply in_or_app; right; left; reflexivity).
  destruct (chunk_bounds hs he _ Ht Hal x Hxin) as (Ha1 & Ha2 & Ha3 & Ha4). fold a in Ha1, Ha3, Ha4.
  destruct (tiled_mid _ _ _ _ _ Ht) as (m0 & Ht1 & Hm0 & Hsx & Ht2 & Hpre & Hpost). fold a in Hm0. subst m0.
  (* other chunks lie entirely below a or from nx on *)
  assert (Hout : forall y, In y pre \/ In y post -> c_addr y + 32 <= a \/ c_addr y = nx \/ nx + 32 <= c_addr y).
  { intros y [Hy | Hy]; [destruct (Hpre y Hy) as (? & ? & ?); left; lia|].
    right. apply (tiled_first_or_far _ _ _ y Ht2 Hy). }
  assert (Hkeep : forall y k, In y pre \/ In y post -> 0 <= k <= 24 -> k <> 8 -> mget m' (c_addr y + k) = mget m (c_addr y + k)).
  { intros y k Hy Hk Hk8. destruct (Hout y Hy) as [? | [? | ?]]; apply Hfr; unfold sp, nx in *; lia. }
  set (x1 := mkchunk a size (c_used x)). set (x2 := mkchunk sp (c_sz x - size - NODE) false).
  assert (Ht' : tiled hs (pre ++ x1 :: x2 :: post) he).
  { apply tiled_app. exists a. split; [exact Ht1|]. unfold x1, x2. cbn [tiled c_addr c_sz]. repeat split; try lia.
    replace (a + NODE + size + NODE + (c_sz x - size - NODE)) with (a + NODE + c_sz x) by lia. exact Ht2. }
  split; try assumption.
  - unfold aligned_chunks in *. rewrite Forall_forall in *. intros y Hy.
    apply in_app_or in Hy. cbn [In] in Hy. destruct Hy as [Hy | [<- | [<- | Hy]]]; unfold x1, x2; cbn [c_addr].
    + apply Hal. apply in_or_app. tauto.
    + exact Ha4.
    + unfold sp. lia.
    + apply Hal. apply in_or_app. right. right. exact Hy.
  - intros i b Hi Hb. destruct (Hmem i b Hi Hb) as (z & Hz & Hza & Hzf).
    destruct (in_mid_cases z x pre post Hz) as [-> | Hz'].
    + exists x1. split; [apply in_or_app; right; left; reflexivity|]. unfold x1. cbn. auto.
    + exists z. split; [apply in_or_app; cbn [In]; tauto | auto].
  - split.
    + rewrite Forall_forall. intros y Hy. apply in_app_or in Hy. cbn [In] in Hy.
      destruct Hy as [Hy | [<- | [<- | Hy]]]; unfold n_size, x1, x2; cbn [c_addr c_sz]; auto.
      * replace (c_addr y) with (c_addr y + 0) by lia. rewrite Hkeep by (auto; lia). replace (c_addr y + 0) with (c_addr y) by lia.
        apply (mi_size _ _ _ _ _ _ HM y). apply in_or_app. tauto.
      * replace (c_addr y) with (c_addr y + 0) by lia. rewrite Hkeep by (auto; lia). replace (c_addr y + 0) with (c_addr y) by lia.
        apply (mi_size _ _ _ _ _ _ HM y). apply in_or_app. right. right. exact Hy.
    + pose proof (rp_padj _ _ _ _ _ Hrep) as Hp. rewrite map_app in Hp |- *. cbn [map] in Hp |- *.
      apply padj_chain_app in Hp. destruct Hp as [Hp1 Hp2]. fold a in Hp1, Hp2.
      unfold x1, x2. cbn [c_addr].
      apply padj_chain_app. split.
      * eapply padj_chain_frame; [| |exact Hp1].
        -- intros c Hc. apply in_map_iff in Hc. destruct Hc as (y & <- & Hy). unfold n_prev_adj.
           destruct (Hpre y Hy) as (? & ? & ?). apply Hfr; unfold sp, nx; lia.
        -- unfold n_prev_adj. apply Hfr; unfold sp, nx; lia.
      * cbn [padj_chain]. split; [unfold n_prev_adj; exact W3|].
        pose proof (tiled_next _ _ _ _ _ Ht) as Hnx. fold a in Hnx. fold nx in Hnx.
        destruct (map c_addr post) as [|b r] eqn:Ep; cbn [hd padj_chain] in *.
        -- unfold n_prev_adj. rewrite Hnx. exact W4.
        -- destruct Hp2 as [_ Hp2]. subst b. split; [unfold n_prev_adj; exact W4|].
           eapply padj_chain_frame; [| |exact Hp2].
           ++ intros c Hc. unfold n_prev_adj.
              assert (Hc' : In c (map c_addr post)) by (rewrite Ep; right; exact Hc).
              apply in_map_iff in Hc'. destruct Hc' as (y & <- & Hy).
              (* y is a later chunk than the head of post *)
              destruct post as [|p0 post']; [discriminate|]. cbn [map] in Ep. inversion Ep as [[E1 E2]].
              cbn [tiled] in Ht2. destruct Ht2 as (_ & Hp0 & Ht3).
              assert (Hyr : In y post').
              { destruct Hy as [<- | Hy]; [|exact Hy]. exfalso.
                rewrite <- E2 in Hc. apply in_map_iff in Hc. destruct Hc as (y' & Ey & Hy').
                pose proof (tiled_bounds _ _ _ Ht3) as HB. rewrite Forall_forall in HB. destruct (HB y' Hy') as (? & _). lia. }
              pose proof (tiled_bounds _ _ _ Ht3) as HB. rewrite Forall_forall in HB. destruct (HB y Hyr) as (? & ? & ?).
              apply Hfr; unfold sp, nx in *; lia.
           ++ unfold n_prev_adj. destruct post as [|p0 post']; [discriminate|]. cbn [map] in Ep. inversion Ep as [[E1 E2]].
              destruct (Hpost p0 (or_introl eq_refl)) as (? & ? & ?). apply Hfr; unfold sp, nx in *; lia.
    + rewrite Forall_forall. intros y Hy Hu. apply in_app_or in Hy. cbn [In] in Hy.
      pose proof (rp_used _ _ _ _ _ Hrep) as HU. rewrite Forall_forall in HU.
      destruct Hy as [Hy | [<- | [<- | Hy]]].
      * rewrite <- (HU y (in_or_app _ _ _ (or_introl Hy)) Hu). apply is_used_frame; apply Hkeep; auto; lia.
      * unfold x1 in *. cbn [c_addr c_used] in *. rewrite <- (HU x Hxin Hu). fold a.
        apply is_used_frame; apply Hfr; unfold sp, nx; lia.
      * discriminate.
      * rewrite <- (HU y (in_or_app _ (x :: post) _ (or_intror (or_intror Hy))) Hu). apply is_used_frame; apply Hkeep; auto; lia.
    + destruct (rp_end _ _ _ _ _ Hrep) as [E1 E2].
      assert (Hhe : he = nx \/ nx + 32 <= he).
      { destruct post as [|p0 r0]; cbn [tiled] in Ht2; [left; unfold nx; lia|]. destruct Ht2 as (? & ? & Ht3).
        apply tiled_le in Ht3. right. unfold nx. lia. }
      split.
      * unfold n_size. rewrite Hfr; [exact E1 | unfold sp, nx in *; lia ..].
      * rewrite <- E2. apply is_used_frame; apply Hfr; unfold sp, nx in *; lia.
    + eapply bins_rep_frame; [|exact (rp_bins _ _ _ _ _ Hrep)]. intros i c Hi Hc.
      destruct (Hmem i c Hi Hc) as (z & Hz & <- & _).
      destruct (in_mid_cases z x pre post Hz) as [-> | Hz'].
      * fold a. split; apply Hfr; unfold sp, nx; lia.
      * split; apply Hkeep; auto; lia.
    + intros n Hn Hu. pose proof cookie_mod as Hck.
      assert (Hspa : sp mod 16 = 0) by (unfold sp; Z.div_mod_to_equations; lia).
      pose proof Hu as Hu'. apply is_used_true in Hu' as [U1 U2].
      assert (Hold : is_used m n = true -> is_hdr he (pre ++ x1 :: x2 :: post) n).
      { intros Ho. destruct (rp_marks _ _ _ _ _ Hrep n Hn Ho) as [Hi | ->]; [left | right; reflexivity].
        rewrite map_app in Hi |- *. cbn [map] in Hi |- *. apply in_app_or in Hi. apply in_or_app. cbn [In] in Hi |- *.
        unfold x1. cbn [c_addr]. fold a in Hi. tauto. }
      destruct (Z.eq_dec (n + 16) a) as [E1 | N1].
      { exfalso. assert (Hal0 : Forall (fun c => c mod 16 = 0) (map c_addr (pre ++ x :: post))).
        { unfold aligned_chunks in Hal. rewrite Forall_forall in *. intros c Hc. apply in_map_iff in Hc. destruct Hc as (y & <- & Hy). apply Hal. exact Hy. }
        pose proof (padj_aligned m he _ 0 eq_refl Hal0 (rp_padj _ _ _ _ _ Hrep) a (or_introl (in_map c_addr _ _ Hxin))) as Hx.
        unfold n_prev_adj in Hx. rewrite <- (Hfr (a + 8)) in Hx by (unfold sp, nx; lia).
        replace (a + 8) with (n + 24) in Hx by lia. rewrite U2, Hck in Hx. discriminate Hx. }
      destruct (Z.eq_dec (n + 16) sp) as [E2 | N2].
      { exfalso. replace (n + 24) with (sp + 8) in U2 by lia. rewrite W3 in U2. rewrite U2, Hck in Ha4. discriminate Ha4. }
      destruct (Z.eq_dec (n + 16) (nx + 8)) as [E3 | N3].
      { exfalso. rewrite E3, W4 in U1. rewrite U1 in Hspa. discriminate Hspa. }
      destruct (Z.eq_dec (n + 24) (nx + 8)) as [E4 | N4].
      { exfalso. rewrite E4, W4 in U2. rewrite U2, Hck in Hspa. discriminate Hspa. }
      apply Hold. rewrite <- Hu. symmetry. apply is_used_frame; apply Hfr; try assumption; try lia; Z.div_mod_to_equations; lia.
Qed.

(* ---------- M5: a chunk absorbs its successor (which is in no bin) ---------- *)
Lemma M5_merge hs he m m' bins_c pre y z post bins_a :
  MI hs he m bins_c (pre ++ y :: z :: post) bins_a ->
  (forall i, 0 <= i < BIN_COUNT -> ~ In (c_addr z) (bin_nth bins_a i)) ->
  let a := c_addr y in let nsz := c_sz y + NODE + c_sz z in let nx := a + NODE + nsz in
  mget m' a = nsz -> mget m' (nx + 8) = a ->
  (forall w, w <> a -> w <> nx + 8 -> w <> c_addr z + 16 -> w <> c_addr z + 24 -> mget m' w = mget m w) ->
  is_used m' (c_addr z) = false ->
  MI hs he m' bins_c (pre ++ mkchunk a nsz (c_used y) :: post) bins_a.
Proof.
  intros HM Hznot a nsz nx W1 W2 Hfr Hzun. pose proof HM as [Hpos Htop Ht Hal Hmem Hgood Hrep].
  pose proof NODE_eq as HN.
  assert (Hyin : In y (pre ++ y :: z :: post)) by (apply in_or_app; right; left; reflexivity).
  assert (Hzin : In z (pre ++ y :: z :: post)) by (apply in_or_app; right; right; left; reflexivity).
  destruct (chunk_bounds hs he _ Ht Hal y Hyin) as (Ha1 & Ha2 & Ha3 & Ha4). fold a in Ha1, Ha3, Ha4.
  pose proof Ht as Ht'. apply tiled_app in Ht'. destruct Ht' as (m0 & Ht1 & Ht2). cbn [tiled] in Ht2.
  destruct Ht2 as (Em0 & Hys & Eza & Hzs & Ht3). fold a in Em0. subst m0.
  pose proof (tiled_bounds _ _ _ Ht1) as HB1. rewrite Forall_forall in HB1.
  assert (Hnx : nx = c_addr z + NODE + c_sz z) by (unfold nx, nsz; lia).
  assert (Hout : forall c, In c pre \/ In c post -> c_addr c + 32 <= a \/ c_addr c = nx \/ nx + 32 <= c_addr c).
  { intros c [Hc | Hc]; [destruct (HB1 c Hc) as (? & ? & ?); left; lia|].
    right. rewrite Hnx. rewrite <- Eza in Ht3. replace (a + NODE + c_sz y + NODE + c_sz z) with (c_addr z + NODE + c_sz z) in Ht3 by lia.
    apply (tiled_first_or_far _ _ _ c Ht3 Hc). }
  assert (Hkeep : forall c k, In c pre \/ In c post -> 0 <= k <= 24 -> k <> 8 -> mget m' (c_addr c + k) = mget m (c_addr c + k)).
  { intros c k Hc Hk Hk8. destruct (Hout c Hc) as [? | [? | ?]]; apply Hfr; unfold nx, nsz in *; lia. }
  set (y' := mkchunk a nsz (c_used y)).
  assert (Ht' : tiled hs (pre ++ y' :: post) he).
  { apply tiled_app. exists a. split; [exact Ht1|]. unfold y'. cbn [tiled c_addr c_sz]. repeat split; try (unfold nsz; lia).
    replace (a + NODE + nsz) with (a + NODE + c_sz y + NODE + c_sz z) by (unfold nsz; lia). exact Ht3. }
  assert (Hin_old : forall c, In c pre \/ In c post -> In c (pre ++ y :: z :: post)).
  { intros c [Hc | Hc]; apply in_or_app; cbn [In]; tauto. }
  split; try assumption.
  - unfold aligned_chunks in *. rewrite Forall_forall in *. intros c Hc.
    destruct (in_mid_cases c y' pre post Hc) as [-> | Hc']; [exact Ha4 | apply Hal; apply Hin_old; exact Hc'].
  - intros i b Hi Hb. destruct (Hmem i b Hi Hb) as (c & Hc & Hca & Hcf).
    apply in_app_or in Hc. cbn [In] in Hc. destruct Hc as [Hc | [<- | [<- | Hc]]].
    + exists c. split; [apply in_or_app; tauto | auto].
    + exists y'. split; [apply in_or_app; right; left; reflexivity | unfold y'; cbn; auto].
    + exfalso. apply (Hznot i Hi). rewrite Hca. exact Hb.
    + exists c. split; [apply in_or_app; right; right; exact Hc | auto].
  - split.
    + rewrite Forall_forall. intros c Hc. destruct (in_mid_cases c y' pre post Hc) as [-> | Hc'].
      * unfold n_size, y'. cbn [c_addr c_sz]. exact W1.
      * unfold n_size. replace (c_addr c) with (c_addr c + 0) by lia. rewrite Hkeep by (auto; lia).
        replace (c_addr c + 0) with (c_addr c) by lia. apply (mi_size _ _ _ _ _ _ HM c (Hin_old c Hc')).
    + pose proof (rp_padj _ _ _ _ _ Hrep) as Hp. rewrite map_app in Hp |- *. cbn [map] in Hp |- *.
      apply padj_chain_app in Hp. destruct Hp as [Hp1 Hp2]. fold a in Hp1. cbn [padj_chain] in Hp2. destruct Hp2 as [_ Hp2].
      unfold y'. cbn [c_addr]. apply padj_chain_app. split.
      * eapply padj_chain_frame; [| |exact Hp1].
        -- intros c Hc. apply in_map_iff in Hc. destruct Hc as (c0 & <- & Hc0). unfold n_prev_adj.
           destruct (HB1 c0 Hc0) as (? & ? & ?). apply Hfr; unfold nx, nsz; lia.
        -- unfold n_prev_adj. apply Hfr; unfold nx, nsz; lia.
      * assert (Hnx2 : hd he (map c_addr post) = nx).
        { rewrite Hnx. destruct post as [|p0 r0]; cbn [map hd tiled] in *; [lia | destruct Ht3 as (E & _); lia]. }
        destruct (map c_addr post) as [|b r] eqn:Ep; cbn [hd padj_chain] in *.
        -- unfold n_prev_adj. rewrite Hnx2. exact W2.
        -- destruct Hp2 as [_ Hp2]. subst b. split; [unfold n_prev_adj; exact W2|].
           destruct post as [|p0 post']; [discriminate|]. cbn [map] in Ep. inversion Ep as [[E1 E2]].
           cbn [tiled] in Ht3. destruct Ht3 as (_ & Hp0 & Ht4).
           pose proof (tiled_bounds _ _ _ Ht4) as HB4. rewrite Forall_forall in HB4.
           rewrite <- E2 in Hp2. rewrite <- E1 in Hp2.
           eapply padj_chain_frame; [| |exact Hp2].
           ++ intros c Hc. unfold n_prev_adj. apply in_map_iff in Hc. destruct Hc as (c0 & <- & Hc0).
              destruct (HB4 c0 Hc0) as (? & ? & ?). apply Hfr; unfold nx, nsz in *; lia.
           ++ unfold n_prev_adj. apply tiled_le in Ht4. apply Hfr; unfold nx, nsz in *; lia.
    + rewrite Forall_forall. intros c Hc Hu.
      pose proof (rp_used _ _ _ _ _ Hrep) as HU. rewrite Forall_forall in HU.
      destruct (in_mid_cases c y' pre post Hc) as [-> | Hc'].
      * unfold y' in *. cbn [c_addr c_used] in *. rewrite <- (HU y Hyin Hu). fold a.
        apply is_used_frame; apply Hfr; unfold nx, nsz; lia.
      * rewrite <- (HU c (Hin_old c Hc') Hu). apply is_used_frame; apply Hkeep; auto; lia.
    + destruct (rp_end _ _ _ _ _ Hrep) as [E1 E2].
      assert (Hhe : he = nx \/ nx + 32 <= he).
      { rewrite Hnx. destruct post as [|p0 r0]; cbn [tiled] in Ht3; [left; lia|]. destruct Ht3 as (? & ? & Ht4).
        apply tiled_le in Ht4. right. lia. }
      split.
      * unfold n_size. rewrite Hfr; [exact E1 | unfold nx, nsz in *; lia ..].
      * rewrite <- E2. apply is_used_frame; apply Hfr; unfold nx, nsz in *; lia.
    + eapply bins_rep_frame; [|exact (rp_bins _ _ _ _ _ Hrep)]. intros i c Hi Hc.
      destruct (Hmem i c Hi Hc) as (c0 & Hc0 & <- & _).
      apply in_app_or in Hc0. cbn [In] in Hc0. destruct Hc0 as [Hc0 | [<- | [<- | Hc0]]].
      * split; apply Hkeep; auto; lia.
      * fold a. split; apply Hfr; unfold nx, nsz; lia.
      * exfalso. apply (Hznot i Hi). exact Hc.
      * split; apply Hkeep; auto; lia.
    + intros n Hn Hu. pose proof cookie_mod as Hck.
      destruct (chunk_bounds hs he _ Ht Hal z Hzin) as (_ & _ & _ & Hz4).
      pose proof Hu as Hu'. apply is_used_true in Hu' as [U1 U2].
      destruct (Z.eq_dec n (c_addr z)) as [-> | Nz]; [rewrite Hzun in Hu; discriminate Hu|].
      assert (Hold : is_used m n = true -> is_hdr he (pre ++ y' :: post) n).
      { intros Ho. destruct (rp_marks _ _ _ _ _ Hrep n Hn Ho) as [Hi | ->]; [left | right; reflexivity].
        rewrite map_app in Hi |- *. cbn [map] in Hi |- *. apply in_app_or in Hi. apply in_or_app. cbn [In] in Hi |- *.
        unfold y'. cbn [c_addr]. fold a in Hi. destruct Hi as [Hi | [Hi | [Hi | Hi]]]; auto. symmetry in Hi. contradiction. }
      destruct (Z.eq_dec (n + 16) a) as [E1 | N1].
      { exfalso. assert (Hal0 : Forall (fun c => c mod 16 = 0) (map c_addr (pre ++ y :: z :: post))).
        { unfold aligned_chunks in Hal. rewrite Forall_forall in *. intros c Hc. apply in_map_iff in Hc. destruct Hc as (c0 & <- & Hc0). apply Hal. exact Hc0. }
        pose proof (padj_aligned m he _ 0 eq_refl Hal0 (rp_padj _ _ _ _ _ Hrep) a (or_introl (in_map c_addr _ _ Hyin))) as Hx.
        unfold n_prev_adj in Hx. rewrite <- (Hfr (a + 8)) in Hx by (unfold nx, nsz; lia).
        replace (a + 8) with (n + 24) in Hx by lia. rewrite U2, Hck in Hx. discriminate Hx. }
      destruct (Z.eq_dec (n + 16) (nx + 8)) as [E3 | N3].
      { exfalso. rewrite E3, W2 in U1. rewrite U1 in Ha4. discriminate Ha4. }
      destruct (Z.eq_dec (n + 24) (nx + 8)) as [E4 | N4].
      { exfalso. rewrite E4, W2 in U2. rewrite U2, Hck in Ha4. discriminate Ha4. }
      apply Hold. rewrite <- Hu. symmetry. apply is_used_frame; apply Hfr; try assumption; try lia; Z.div_mod_to_equations; lia.
Qed.

(* ---------- frames: an operation writes header words only ----------
   [hframe S m m']: every word that is not one of the four header words of an address in S is the
   same in m and m'. *)
Definition hk (k : Z) : Prop := k = 0 \/ k = 8 \/ k = 16 \/ k = 24.
Definition hframe (S : Z -> Prop) (m m' : mem) : Prop :=
  forall w, (forall h k, S h -> hk k -> w <> h + k) -> mget m' w = mget m w.

Lemma hframe_refl (S : Z -> Prop) m : hframe S m m.
Proof. intros w _. reflexivity. Qed.

Lemma hframe_trans (S : Z -> Prop) m1 m2 m3 : hframe S m1 m2 -> hframe S m2 m3 -> hframe S m1 m3.
Proof. intros H1 H2 w Hw. rewrite (H2 w Hw). apply H1. exact Hw. Qed.

Lemma hframe_mono (S S' : Z -> Prop) m m' : (forall h, S h -> S' h) -> hframe S m m' -> hframe S' m m'.
Proof. intros Hs H w Hw. apply H. intros h k Hh Hk. apply Hw; auto. Qed.

Lemma hframe_mset (S : Z -> Prop) m h k v : S h -> hk k -> hframe S m (mset m (h + k) v).
Proof. intros Hh Hk w Hw. apply mget_mset_other. apply Hw; assumption. Qed.

Lemma hframe_set_used (S : Z -> Prop) m a : S a -> hframe S m (set_used m a).
Proof.
  intros Ha w Hw. apply set_used_frame; apply Hw; unfold hk; auto.
Qed.

Lemma M1_hframe (S : Z -> Prop) hs he m bins_c chunks bins_a i a :
  MI hs he m bins_c chunks bins_a -> 0 <= i < BIN_COUNT -> In a (bin_nth bins_a i) ->
  (forall b, is_hdr he chunks b -> S b) -> hframe S m (unlink_mem m a).
Proof.
  intros HM Hi Ha HS. destruct (M1_unlink hs he m bins_c chunks bins_a i a HM Hi Ha) as (bc & _ & _ & Hfr).
  intros w Hw. apply Hfr. intros b Hb _.
  destruct (mi_member_hdr _ _ _ _ _ _ HM i b Hi Hb) as (Hbh & _).
  split; apply Hw; unfold hk; auto.
Qed.

Lemma M2_hframe (S : Z -> Prop) hs he m bins_c chunks bins_a x bins_c' m' :
  MI hs he m bins_c chunks bins_a -> In x chunks -> c_used x = false ->
  (forall i, 0 <= i < BIN_COUNT -> ~ In (c_addr x) (bin_nth bins_a i)) ->
  add_node bins_c m (c_addr x) = (bins_c', m') ->
  (forall b, is_hdr he chunks b -> S b) -> hframe S m m'.
Proof.
  intros HM Hx Hf Hnot Hadd HS.
  destruct (M2_push hs he m bins_c chunks bins_a x HM Hx Hf Hnot) as (bc & m2 & Hadd2 & _ & Hfr).
  rewrite Hadd in Hadd2. inversion Hadd2; subst bc m2.
  assert (Hxh : S (c_addr x)) by (apply HS; left; apply in_map; exact Hx).
  intros w Hw. apply Hfr; try (apply Hw; unfold hk; auto).
  intros b Hb. pose proof (get_bin_index_range (c_sz x)) as Hi.
  destruct (mi_member_hdr _ _ _ _ _ _ HM _ b Hi Hb) as (Hbh & _). apply Hw; unfold hk; auto.
Qed.

(* the header addresses of two chunk lists (before / after an operation) *)
Definition hdrs2 (he : Z) (l1 l2 : list chunk) : Z -> Prop := fun h => is_hdr he l1 h \/ is_hdr he l2 h.

Ltac hdr_solve :=
  unfold hdrs2, is_hdr in *; rewrite ?map_app in *; cbn [map c_addr] in *; rewrite ?in_app_iff in *; cbn [In] in *; tauto.

Lemma next_is_hdr he pre x post : is_hdr he (pre ++ x :: post) (hd he (map c_addr post)).
Proof.
  destruct post as [|p0 r]; cbn [map hd]; [right; reflexivity|]. left. rewrite map_app. apply in_or_app. right. right. left. reflexivity.
Qed.

Lemma hframe_step (S : Z -> Prop) h k m m1 w v :
  S h -> hk k -> w = h + k -> hframe S m m1 -> hframe S m (mset m1 w v).
Proof. intros Hh Hk -> H. eapply hframe_trans; [exact H | apply hframe_mset; assumption]. Qed.

Ltac hk_solve := unfold hk; lia.
