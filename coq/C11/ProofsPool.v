(* C11 - pool allocator: the free list and the live chunks partition the buffer; no chunk is handed
   out twice while live, over all histories *)
From Coq Require Import ZArith List Bool Lia Permutation.
From Base Require Import LuaInt.
From C11 Require Import Gen Model Spec Common.
Import ListNotations.
Local Open Scope Z_scope.

Lemma nodup_app_tail {A} (l l' : list A) : NoDup (l ++ l') -> NoDup l'.
Proof. induction l as [|x r IH]; cbn; intros H; [exact H|]. inversion H; subst. auto. Qed.

Section Pool.
Variable c : pcfg.
Hypothesis Hc : pcfg_ok c.

Lemma chunk_inj i j : chunk_addr c i = chunk_addr c j -> i = j.
Proof. destruct Hc as (_ & HC & _). unfold chunk_addr. intros H. nia. Qed.

Lemma chunk_nz i : 0 <= i -> chunk_addr c i <> 0.
Proof. destruct Hc as (HB & HC & _). unfold chunk_addr. intros H. nia. Qed.

Lemma in_all_chunks a : In a (all_chunks c) <-> is_chunk c a.
Proof.
  unfold all_chunks, is_chunk. rewrite in_map_iff. split.
  - intros (i & <- & Hi). apply in_seq in Hi. exists (Z.of_nat i). split; [lia | reflexivity].
  - intros (i & Hi & ->). exists (Z.to_nat i). split; [rewrite Z2Nat.id by lia; reflexivity|].
    apply in_seq. lia.
Qed.

Lemma all_chunks_nodup : NoDup (all_chunks c).
Proof.
  unfold all_chunks. apply FinFun.Injective_map_NoDup; [|apply seq_NoDup].
  intros i j H. apply chunk_inj in H. lia.
Qed.

Lemma flist_frame m m' l : forall head,
  (forall a, In a l -> mget m' a = mget m a) -> flist m head l -> flist m' head l.
Proof.
  induction l as [|a r IH]; intros head Hf H; cbn [flist] in *; [exact H|].
  destruct H as (-> & Hnz & Hr). repeat split; auto.
  rewrite (Hf a (or_introl eq_refl)). apply IH; [|exact Hr]. intros x Hx. apply Hf. right. exact Hx.
Qed.

Lemma flist_chunks_nz m l : forall head, flist m head l -> Forall (fun a => a <> 0) l.
Proof.
  induction l as [|a r IH]; intros head H; cbn [flist] in H; constructor.
  - tauto.
  - eapply IH. apply H.
Qed.

(* pool_link_free_nodes pushes chunks n-1 .. 0 in front of an existing list *)
Lemma link_from_spec n : forall m head l,
  flist m head l ->
  (forall a, In a l -> forall j, (j < n)%nat -> a <> chunk_addr c (Z.of_nat j)) ->
  flist (fst (pool_link_from c n m head)) (snd (pool_link_from c n m head))
        (map (fun i => chunk_addr c (Z.of_nat i)) (seq 0 n) ++ l).
Proof.
  induction n as [|k IH]; intros m head l Hl Hd; cbn [pool_link_from].
  - exact Hl.
  - fold (chunk_addr c (Z.of_nat k)).
    set (node := chunk_addr c (Z.of_nat k)).
    assert (Hl' : flist (mset m node head) node (node :: l)).
    { cbn [flist]. repeat split; [apply chunk_nz; lia|]. rewrite mget_mset_same.
      eapply flist_frame; [|exact Hl]. intros a Ha. apply mget_mset_other. apply (Hd a Ha k). lia. }
    specialize (IH (mset m node head) node (node :: l) Hl').
    rewrite seq_S, map_app, <- app_assoc. cbn [map app Nat.add]. apply IH.
    intros a [<- | Ha] j Hj.
    + intros E. apply chunk_inj in E. lia.
    + apply (Hd a Ha j). lia.
Qed.

Lemma link_all m :
  flist (fst (pool_link_from c (Z.to_nat (p_count c)) m 0)) (snd (pool_link_from c (Z.to_nat (p_count c)) m 0))
        (all_chunks c).
Proof.
  pose proof (link_from_spec (Z.to_nat (p_count c)) m 0 [] eq_refl) as H.
  rewrite app_nil_r in H. apply H. intros a [].
Qed.

Definition sizes_ok (live : list blk) : Prop := Forall (fun b => 0 < b_size b <= p_chunk c) live.

Definition pinv (s : pstate) (live : list blk) : Prop :=
  (p_initialized s = false /\ p_head s = 0 /\ live = []) \/
  (p_initialized s = true /\ sizes_ok live /\
   exists fl, flist (p_mem s) (p_head s) fl /\ Permutation (fl ++ map b_addr live) (all_chunks c)).

Lemma perm_nth_error (live : list blk) i b :
  nth_error live i = Some b ->
  Permutation (map b_addr live) (b_addr b :: map b_addr (remove_nth i live)).
Proof.
  revert i. induction live as [|x r IH]; intros i H; destruct i; cbn in *; try discriminate.
  - inversion H; subst. apply Permutation_refl.
  - eapply perm_trans; [apply perm_skip; apply IH; exact H|]. apply perm_swap.
Qed.

Lemma map_addr_replace (live : list blk) i b n :
  nth_error live i = Some b -> map b_addr (replace_nth i live (mkblk (b_addr b) n)) = map b_addr live.
Proof.
  revert i. induction live as [|x r IH]; intros i H; destruct i; cbn in *; try discriminate.
  - inversion H; subst. reflexivity.
  - f_equal. apply IH. exact H.
Qed.

Lemma sizes_replace (live : list blk) i a n :
  sizes_ok live -> 0 < n <= p_chunk c -> sizes_ok (replace_nth i live (mkblk a n)).
Proof.
  unfold sizes_ok. revert i. induction live as [|x r IH]; intros i H Hn; destruct i; cbn; auto.
  - inversion H; subst. constructor; auto.
  - inversion H; subst. constructor; auto.
Qed.

Lemma chunk_ptr_ok a : is_chunk c a -> a <> 0 /\ pool_ptr_ok c a = true.
Proof.
  intros (i & Hi & ->). destruct Hc as (HB & HC & HN & Hfit). split; [apply chunk_nz; lia|].
  unfold pool_ptr_ok, chunk_addr.
  replace (p_base c + i * p_chunk c - p_base c) with (i * p_chunk c) by lia.
  rewrite w64_small by nia.
  rewrite Z.div_mul by lia. rewrite Z.mod_mul by lia.
  apply andb_true_intro. split; [apply Z.ltb_lt; lia | reflexivity].
Qed.

(* ---------- dealloc of a live block ---------- *)
Lemma pool_dealloc_ok s live i b :
  pinv s live -> nth_error live i = Some b ->
  exists s', pool_dealloc c s (b_addr b) = Some s' /\ pinv s' (remove_nth i live).
Proof.
  intros [(_ & _ & ->) | (Hin & Hsz & fl & Hfl & Hperm)] Hn; [destruct i; discriminate|].
  assert (Hchunk : is_chunk c (b_addr b)).
  { apply in_all_chunks. eapply Permutation_in; [exact Hperm|]. apply in_or_app. right.
    apply in_map. eapply nth_error_In; exact Hn. }
  destruct (chunk_ptr_ok _ Hchunk) as [Hnz Hok].
  unfold pool_dealloc. apply Z.eqb_neq in Hnz. rewrite Hnz, Hok.
  eexists. split; [reflexivity|]. right. cbn [p_initialized p_head p_mem].
  split; [exact Hin|]. split; [apply Forall_remove_nth; exact Hsz|].
  assert (Hnd : NoDup (fl ++ map b_addr live)).
  { eapply Permutation_NoDup; [apply Permutation_sym; exact Hperm | apply all_chunks_nodup]. }
  pose proof (perm_nth_error live i b Hn) as Hpl.
  assert (Hnotin : ~ In (b_addr b) fl).
  { intros Hf.
    assert (Hnd3 : NoDup (fl ++ b_addr b :: map b_addr (remove_nth i live))).
    { eapply Permutation_NoDup; [|exact Hnd]. apply Permutation_app_head. exact Hpl. }
    apply NoDup_remove_2 in Hnd3. apply Hnd3. apply in_or_app. left. exact Hf. }
  exists (b_addr b :: fl). split.
  - cbn [flist]. apply Z.eqb_neq in Hnz. repeat split; [exact Hnz|]. rewrite mget_mset_same.
    eapply flist_frame; [|exact Hfl]. intros a Ha. apply mget_mset_other. intros ->. contradiction.
  - eapply perm_trans; [|exact Hperm]. cbn [app].
    eapply perm_trans; [apply Permutation_middle|].
    apply Permutation_app_head. apply Permutation_sym. exact Hpl.
Qed.

(* ---------- alloc ---------- *)
Lemma pool_alloc_ok s live n :
  pinv s live -> 0 <= n ->
  exists s' p, pool_alloc c s n = (s', p) /\
    ((p = 0 /\ s' = s) \/ (p <> 0 /\ pinv s' (mkblk p n :: live))).
Proof.
  intros Hi Hn. unfold pool_alloc.
  destruct ((n >? p_chunk c) || (n =? 0)) eqn:Esz.
  { exists s, 0. split; [reflexivity|]. left. auto. }
  apply orb_false_elim in Esz. destruct Esz as [E1 E2].
  rewrite Z.gtb_ltb in E1. apply Z.ltb_ge in E1. apply Z.eqb_neq in E2.
  assert (Hsz : 0 < n <= p_chunk c) by lia.
  destruct Hc as (HB & HC & HN & Hfit).
  destruct Hi as [(Hin & Hh & ->) | (Hin & Hszs & fl & Hfl & Hperm)].
  - (* first initialisation *)
    rewrite Hh, Hin. cbn [Z.eqb negb]. unfold pool_link_free_nodes. cbn [p_mem p_head p_initialized].
    pose proof (link_all (p_mem s)) as Hall.
    destruct (pool_link_from c (Z.to_nat (p_count c)) (p_mem s) 0) as [m h] eqn:El.
    cbn [fst snd] in Hall. cbn [p_head p_mem].
    (* the list of all chunks is not empty *)
    unfold all_chunks in Hall.
    destruct (Z.to_nat (p_count c)) as [|k] eqn:Ek; [lia|].
    rewrite <- Ek in Hall. fold (all_chunks c) in Hall.
    destruct (all_chunks c) as [|a r] eqn:Eall.
    { exfalso. unfold all_chunks in Eall. rewrite Ek in Eall. cbn in Eall. discriminate. }
    cbn [flist] in Hall. destruct Hall as (-> & Hanz & Hr).
    eexists. exists a. split; [reflexivity|]. right. split; [exact Hanz|].
    right. cbn [p_initialized p_head p_mem map b_addr].
    split; [reflexivity|]. split; [constructor; [exact Hsz | constructor]|].
    exists r. split; [exact Hr|]. rewrite Eall. apply Permutation_sym. apply Permutation_cons_append.
  - destruct fl as [|a r]; cbn [flist] in Hfl.
    + rewrite Hfl, Hin. cbn. exists s, 0. split; [reflexivity|]. left. auto.
    + destruct Hfl as (Hh & Hanz & Hr). rewrite Hh.
      apply Z.eqb_neq in Hanz. rewrite Hanz. apply Z.eqb_neq in Hanz.
      eexists. exists a. split; [reflexivity|]. right. split; [exact Hanz|].
      right. cbn [p_initialized p_head p_mem map b_addr].
      split; [exact Hin|]. split; [constructor; [exact Hsz | exact Hszs]|].
      exists r. split; [exact Hr|].
      eapply perm_trans; [|exact Hperm]. apply Permutation_sym. apply Permutation_middle.
Qed.

(* ---------- one step ---------- *)
Lemma pstep_ok s live o s' live' :
  pinv s live -> pop_usize o ->
  pstep c (s, live) o = Some (s', live') -> pinv s' live'.
Proof.
  intros Hi Hu Hst. destruct o as [n | i | i n | | i v]; cbn [pstep] in Hst.
  - destruct Hu as [Hn _].
    destruct (pool_alloc_ok s live n Hi Hn) as (s1 & p & Ha & Hcase). rewrite Ha in Hst.
    destruct Hcase as [[-> ->] | [Hp Hinv]].
    + cbn in Hst. inversion Hst; subst. exact Hi.
    + apply Z.eqb_neq in Hp. rewrite Hp in Hst. inversion Hst; subst. exact Hinv.
  - destruct (nth_error live i) as [b|] eqn:Hn; [|inversion Hst; subst; exact Hi].
    destruct (pool_dealloc_ok s live i b Hi Hn) as (s1 & Hde & Hinv). rewrite Hde in Hst.
    inversion Hst; subst. exact Hinv.
  - destruct (nth_error live i) as [b|] eqn:Hn; [|inversion Hst; subst; exact Hi].
    destruct Hu as [Hn0 _].
    destruct (pool_dealloc_ok s live i b Hi Hn) as (s1 & Hde & Hinv).
    assert (Hbnz : b_addr b <> 0).
    { unfold pool_dealloc in Hde. destruct (b_addr b =? 0) eqn:E; [|apply Z.eqb_neq; exact E].
      exfalso. destruct Hi as [(_ & _ & ->) | (Hin & Hsz & fl & Hfl & Hperm)]; [destruct i; discriminate|].
      assert (Hchunk : is_chunk c (b_addr b)).
      { apply in_all_chunks. eapply Permutation_in; [exact Hperm|]. apply in_or_app. right.
        apply in_map. eapply nth_error_In; exact Hn. }
      destruct (chunk_ptr_ok _ Hchunk) as [Hnz _]. apply Z.eqb_eq in E. contradiction. }
    unfold pool_realloc in Hst. apply Z.eqb_neq in Hbnz. rewrite Hbnz in Hst.
    destruct (n =? 0) eqn:E0.
    + rewrite Hde in Hst. inversion Hst; subst. exact Hinv.
    + destruct (n >? p_chunk c) eqn:E1.
      * cbn in Hst. inversion Hst; subst. exact Hi.
      * rewrite Hbnz in Hst. inversion Hst; subst.
        rewrite Z.gtb_ltb in E1. apply Z.ltb_ge in E1. apply Z.eqb_neq in E0.
        destruct Hi as [(_ & _ & ->) | (Hin & Hsz & fl & Hfl & Hperm)]; [destruct i; discriminate|].
        right. split; [exact Hin|]. split; [apply sizes_replace; [exact Hsz | lia]|].
        exists fl. split; [exact Hfl|]. rewrite (map_addr_replace live i b n Hn). exact Hperm.
  - inversion Hst; subst.
    right. unfold pool_deallocall, pool_link_free_nodes. cbn [p_mem p_initialized].
    pose proof (link_all (p_mem s)) as Hall.
    destruct (pool_link_from c (Z.to_nat (p_count c)) (p_mem s) 0) as [m h].
    cbn [fst snd] in Hall. cbn [p_initialized p_head p_mem map].
    split; [reflexivity|]. split; [constructor|].
    exists (all_chunks c). split; [exact Hall|]. rewrite app_nil_r. apply Permutation_refl.
  - destruct (nth_error live i) as [b|] eqn:Hn; [|inversion Hst; subst; exact Hi].
    inversion Hst; subst.
    destruct Hi as [(_ & _ & ->) | (Hin & Hsz & fl & Hfl & Hperm)]; [destruct i; discriminate|].
    right. cbn [p_initialized p_head p_mem]. split; [exact Hin|]. split; [exact Hsz|].
    exists fl. split; [|exact Hperm].
    assert (Hnd : NoDup (fl ++ map b_addr live')).
    { eapply Permutation_NoDup; [apply Permutation_sym; exact Hperm | apply all_chunks_nodup]. }
    eapply flist_frame; [|exact Hfl]. intros a Ha. apply mget_mset_other. intros ->.
    pose proof (perm_nth_error live' i b Hn) as Hpl.
    assert (Hnd3 : NoDup (fl ++ b_addr b :: map b_addr (remove_nth i live'))).
    { eapply Permutation_NoDup; [|exact Hnd]. apply Permutation_app_head. exact Hpl. }
    apply NoDup_remove_2 in Hnd3. apply Hnd3. apply in_or_app. left. exact Ha.
Qed.

Lemma prun_ok ops : forall s live s' live',
  pinv s live -> Forall pop_usize ops ->
  prun c (s, live) ops = Some (s', live') -> pinv s' live'.
Proof.
  induction ops as [|o r IH]; intros s live s' live' Hi Hu Hr; cbn [prun] in Hr.
  - inversion Hr; subst. exact Hi.
  - inversion Hu; subst.
    destruct (pstep c (s, live) o) as [[s1 l1]|] eqn:E; [|discriminate].
    eapply IH; [|eassumption|exact Hr]. eapply pstep_ok; eassumption.
Qed.

(* a history of valid calls never trips the pool's check *)
Lemma pstep_total s live o : pinv s live -> pop_usize o -> exists st', pstep c (s, live) o = Some st'.
Proof.
  intros Hi Hu. destruct o as [n | i | i n | | i v]; cbn [pstep].
  - destruct (pool_alloc c s n). eexists. reflexivity.
  - destruct (nth_error live i) as [b|] eqn:Hn; [|eexists; reflexivity].
    destruct (pool_dealloc_ok s live i b Hi Hn) as (s1 & -> & _). eexists. reflexivity.
  - destruct (nth_error live i) as [b|] eqn:Hn; [|eexists; reflexivity].
    destruct (pool_dealloc_ok s live i b Hi Hn) as (s1 & Hde & _).
    unfold pool_realloc. destruct (b_addr b =? 0).
    + destruct (pool_alloc c s n) as [s2 q]. destruct (n =? 0); [|destruct (q =? 0)]; eexists; reflexivity.
    + destruct (n =? 0) eqn:E0; [rewrite Hde; eexists; reflexivity|].
      destruct (n >? p_chunk c); cbn; [eexists; reflexivity|].
      destruct (b_addr b =? 0); eexists; reflexivity.
  - eexists. reflexivity.
  - destruct (nth_error live i); eexists; reflexivity.
Qed.

Lemma prun_total ops : forall s live, pinv s live -> Forall pop_usize ops ->
  exists s' live', prun c (s, live) ops = Some (s', live') /\ pinv s' live'.
Proof.
  induction ops as [|o r IH]; intros s live Hi Hu; cbn [prun].
  - eexists. eexists. split; [reflexivity | exact Hi].
  - inversion Hu; subst. destruct (pstep_total s live o Hi H1) as ([s1 l1] & E). rewrite E.
    apply IH; [|assumption]. eapply pstep_ok; eassumption.
Qed.

Lemma pinv_good s live : pinv s live -> pool_good c live.
Proof.
  intros [(_ & _ & ->) | (Hin & Hsz & fl & Hfl & Hperm)].
  - split; constructor.
  - assert (Hnd : NoDup (fl ++ map b_addr live)).
    { eapply Permutation_NoDup; [apply Permutation_sym; exact Hperm | apply all_chunks_nodup]. }
    split; [|apply nodup_app_tail in Hnd; exact Hnd].
    unfold sizes_ok in Hsz. rewrite Forall_forall in *. intros b Hb. split; [|apply Hsz; exact Hb].
    apply in_all_chunks. eapply Permutation_in; [exact Hperm|]. apply in_or_app. right.
    apply in_map. exact Hb.
Qed.

End Pool.

Theorem pool_safe_proof : forall c ops s live,
  pcfg_ok c -> Forall pop_usize ops ->
  prun c (pool_init, []) ops = Some (s, live) ->
  pool_good c live /\
  (p_initialized s = true ->
   exists fl, flist (p_mem s) (p_head s) fl /\ Permutation (fl ++ map b_addr live) (all_chunks c)).
Proof.
  intros c ops s live Hc Hu Hr.
  assert (Hi : pinv c s live).
  { eapply prun_ok; [exact Hc | | exact Hu | exact Hr]. left. cbn. auto. }
  split; [eapply pinv_good; eassumption|].
  intros Hin. destruct Hi as [(Hf & _) | (_ & _ & H)]; [congruence | exact H].
Qed.

Theorem pool_total_proof : forall c ops, pcfg_ok c -> Forall pop_usize ops ->
  exists s live, prun c (pool_init, []) ops = Some (s, live) /\ pool_good c live.
Proof.
  intros c ops Hc Hu.
  destruct (prun_total c Hc ops pool_init [] ltac:(left; cbn; auto) Hu) as (s & live & Hr & Hi).
  exists s, live. split; [exact Hr | eapply pinv_good; eassumption].
Qed.

Definition pwit_cfg : pcfg := mkpcfg 4096 8 4.
Lemma pwit_cfg_ok : pcfg_ok pwit_cfg.
Proof. unfold pcfg_ok, pwit_cfg, two64. cbn. lia. Qed.
