(* C11 - arena allocator: invariant, preservation over arbitrary histories, refutations *)
From Coq Require Import ZArith List Bool Lia.
From Base Require Import LuaInt.
From C11 Require Import Gen Model Spec Common.
Import ListNotations.
Local Open Scope Z_scope.

Section Arena.
Variable c : acfg.
Hypothesis Hc : acfg_ok c.

Definition blk_inv (prev curr : Z) (b : blk) : Prop :=
  0 < b_size b /\ a_base c <= b_addr b /\ b_addr b mod a_align c = 0 /\
  b_addr b + b_size b <= a_base c + curr /\
  (b_addr b = a_base c + prev \/ b_addr b + b_size b <= a_base c + prev).

Definition ainv (s : astate) (live : list blk) : Prop :=
  0 <= a_prev s <= a_size c /\ 0 <= a_curr s <= a_size c /\
  Forall (blk_inv (a_prev s) (a_curr s)) live /\ pairwise_disjoint live.

Lemma ainv_ext s1 s2 live :
  a_prev s1 = a_prev s2 -> a_curr s1 = a_curr s2 -> ainv s1 live -> ainv s2 live.
Proof. unfold ainv. intros -> ->. auto. Qed.

Lemma ainv_good s live : ainv s live -> good_blocks (a_base c) (a_size c) (a_align c) live.
Proof.
  intros (Hp & Hcu & HF & HD). unfold good_blocks. repeat split; auto.
  - eapply Forall_impl; [|exact HF]. intros b (H1 & H2 & H3 & H4 & H5). unfold blk_in. lia.
  - eapply Forall_impl; [|exact HF]. intros b (H1 & H2 & H3 & H4 & H5). exact H3.
Qed.

Lemma Hal_pos : 0 < a_align c.
Proof. destruct Hc as (_ & _ & Hp & _). apply pow2_pos; exact Hp. Qed.

(* ---------- alloc ---------- *)
Lemma arena_alloc_ok s live n :
  ainv s live -> 0 <= n < two64 ->
  exists s' p, arena_alloc c s n = Some (s', p) /\ a_bytes s' = a_bytes s /\
    ((p = 0 /\ s' = s) \/
     (p <> 0 /\ a_curr s <= a_prev s' /\ p = a_base c + a_prev s' /\ ainv s' (live ++ [mkblk p n]))).
Proof.
  intros (Hp & Hcu & HF & HD) Hn.
  destruct Hc as (HB & HS & Hpow & Hfit).
  pose proof Hal_pos as HA.
  unfold arena_alloc.
  destruct (n =? 0) eqn:E0.
  { exists s, 0. split; [reflexivity|]. split; [reflexivity|]. left. auto. }
  apply Z.eqb_neq in E0.
  rewrite (w64_small (a_base c + a_curr s)) by lia.
  destruct (align_forward_spec (a_base c + a_curr s) (a_align c) Hpow ltac:(lia) ltac:(lia)) as [Hr Hm].
  set (r := align_forward (a_base c + a_curr s) (a_align c)) in *.
  rewrite (w64_small (r - a_base c)) by lia.
  set (off := r - a_base c) in *.
  destruct ((w64 (off + n) >? a_size c) || (w64 (off + n) <? off)) eqn:E.
  - exists s, 0. split; [reflexivity|]. split; [reflexivity|]. left. auto.
  - apply overflow_test_false in E; [|unfold off; lia | lia]. destruct E as [Ew E]. rewrite Ew.
    assert (Hlt : off <? a_size c = true) by (apply Z.ltb_lt; lia).
    rewrite Hlt.
    eexists. eexists. split; [reflexivity|]. split; [reflexivity|]. right.
    cbn [a_prev a_curr].
    split; [unfold off; lia|]. split; [unfold off; lia|]. split; [reflexivity|].
    unfold ainv. cbn [a_prev a_curr].
    split; [unfold off; lia|]. split; [unfold off; lia|]. split.
    + apply Forall_app. split.
      * eapply Forall_impl; [|exact HF]. intros b (H1 & H2 & H3 & H4 & H5).
        unfold blk_inv. repeat split; try assumption; unfold off; lia.
      * constructor; [|constructor]. unfold blk_inv. cbn [b_addr b_size].
        repeat split; try (unfold off; lia).
        replace (a_base c + off) with r by (unfold off; lia). exact Hm.
    + apply pairwise_app_one; [exact HD|].
      eapply Forall_impl; [|exact HF]. intros b (H1 & H2 & H3 & H4 & H5).
      unfold blk_disjoint. cbn [b_addr b_size]. left. unfold off. lia.
Qed.

(* ---------- facts about a live block ---------- *)
Lemma live_ptr_ok s live i b :
  ainv s live -> nth_error live i = Some b ->
  b_addr b <> 0 /\ arena_ptr_ok c (b_addr b) = true /\
  w64 (b_addr b - a_base c) = b_addr b - a_base c /\ 0 <= b_addr b - a_base c < a_size c.
Proof.
  intros (Hp & Hcu & HF & HD) Hn.
  destruct Hc as (HB & HS & Hpow & Hfit). pose proof Hal_pos as HA.
  rewrite Forall_forall in HF. pose proof (HF b (nth_error_In _ _ Hn)) as (H1 & H2 & H3 & H4 & H5).
  assert (Hw : w64 (b_addr b - a_base c) = b_addr b - a_base c) by (apply w64_small; lia).
  repeat split; try lia; try assumption.
  unfold arena_ptr_ok. rewrite Hw. rewrite land_mask_mod by exact Hpow. rewrite H3.
  apply andb_true_intro. split; [apply Z.ltb_lt; lia | reflexivity].
Qed.

(* when a live block starts at prev, every other live block ends at or below prev *)
Lemma others_below s live i b :
  ainv s live -> nth_error live i = Some b -> b_addr b = a_base c + a_prev s ->
  Forall (fun x => blk_inv (a_prev s) (a_prev s) x) (remove_nth i live).
Proof.
  intros (Hp & Hcu & HF & HD) Hn Hb.
  pose proof (pairwise_others _ _ _ Hn HD) as Ho.
  assert (HFr : Forall (blk_inv (a_prev s) (a_curr s)) (remove_nth i live)) by (apply Forall_remove_nth; exact HF).
  rewrite Forall_forall in HF. pose proof (HF b (nth_error_In _ _ Hn)) as (Hb1 & _).
  rewrite Forall_forall in *. intros x Hx.
  pose proof (HFr x Hx) as (H1 & H2 & H3 & H4 & H5). pose proof (Ho x Hx) as Hd.
  unfold blk_disjoint in Hd. unfold blk_inv. repeat split; try assumption; lia.
Qed.

(* ---------- dealloc ---------- *)
Lemma arena_dealloc_ok s live i b :
  ainv s live -> nth_error live i = Some b ->
  exists s', arena_dealloc c s (b_addr b) = Some s' /\ a_bytes s' = a_bytes s /\ ainv s' (remove_nth i live).
Proof.
  intros Hi Hn.
  destruct (live_ptr_ok _ _ _ _ Hi Hn) as (Hnz & Hok & Hw & Hr).
  unfold arena_dealloc. apply Z.eqb_neq in Hnz. rewrite Hnz, Hok, Hw.
  destruct (b_addr b - a_base c =? a_prev s) eqn:E.
  - apply Z.eqb_eq in E. eexists. split; [reflexivity|]. split; [reflexivity|].
    pose proof (others_below _ _ _ _ Hi Hn ltac:(lia)) as Ho.
    destruct Hi as (Hp & Hcu & HF & HD).
    unfold ainv. cbn [a_prev a_curr]. rewrite E.
    repeat split; try lia; [exact Ho | apply pairwise_remove_nth; exact HD].
  - exists s. split; [reflexivity|]. split; [reflexivity|].
    destruct Hi as (Hp & Hcu & HF & HD). unfold ainv.
    repeat split; try lia; [apply Forall_remove_nth; exact HF | apply pairwise_remove_nth; exact HD].
Qed.

Lemma remove_nth_app {A} i (l : list A) x y :
  nth_error l i = Some y -> remove_nth i (l ++ [x]) = remove_nth i l ++ [x].
Proof.
  revert i. induction l as [|z r IH]; intros i H; destruct i; cbn in *; try discriminate; auto.
  f_equal. apply IH. exact H.
Qed.

(* ---------- realloc ---------- *)
Lemma arena_realloc_ok s live i b n :
  ainv s live -> nth_error live i = Some b -> 0 < n < two64 ->
  exists s' q, arena_realloc c s (b_addr b) n (b_size b) = Some (s', q) /\
    ((q = 0 /\ a_prev s' = a_prev s /\ a_curr s' = a_curr s /\ a_bytes s' = a_bytes s) \/
     (q <> 0 /\ ainv s' (remove_nth i live ++ [mkblk q n]) /\
      (* contents: either untouched (same block), or the old bytes copied into a block that lies
         above every previous allocation *)
      ((q = b_addr b /\ a_bytes s' = a_bytes s) \/
       (b_size b < n /\ a_base c + a_curr s <= q /\
        a_bytes s' = bcopy (a_bytes s) q (b_addr b) (b_size b))))).
Proof.
  intros Hi Hn Hn0.
  destruct (live_ptr_ok _ _ _ _ Hi Hn) as (Hnz & Hok & Hw64 & Hr).
  pose proof Hi as (Hp & Hcu & HF & HD).
  pose proof HF as HF'. rewrite Forall_forall in HF'.
  pose proof (HF' b (nth_error_In _ _ Hn)) as (Hb1 & Hb2 & Hb3 & Hb4 & Hb5).
  destruct Hc as (HB & HS & Hpow & Hfit). pose proof Hal_pos as HA.
  unfold arena_realloc.
  assert (E0 : (b_addr b =? 0) = false) by (apply Z.eqb_neq; exact Hnz).
  assert (E1 : (n =? 0) = false) by (apply Z.eqb_neq; lia).
  rewrite E0, E1, Hok, Hw64.
  destruct (b_addr b - a_base c =? a_prev s) eqn:E.
  - (* the most recent allocation: grow or shrink in place *)
    apply Z.eqb_eq in E.
    destruct ((w64 (b_addr b - a_base c + n) >? a_size c) || (w64 (b_addr b - a_base c + n) <? b_addr b - a_base c)) eqn:E2.
    + exists s, 0. split; [reflexivity|]. left. auto.
    + apply overflow_test_false in E2; [|lia | lia]. destruct E2 as [Ew E2]. rewrite Ew.
      eexists. exists (b_addr b). split; [reflexivity|]. right.
      split; [exact Hnz|]. split; [|left; split; reflexivity].
      pose proof (others_below _ _ _ _ Hi Hn ltac:(lia)) as Ho.
      unfold ainv. cbn [a_prev a_curr].
      split; [lia|]. split; [lia|]. split.
      * apply Forall_app. split.
        -- eapply Forall_impl; [|exact Ho]. intros x (H1 & H2 & H3 & H4 & H5).
           unfold blk_inv. repeat split; try assumption; lia.
        -- constructor; [|constructor]. unfold blk_inv. cbn [b_addr b_size].
           repeat split; try assumption; lia.
      * apply pairwise_app_one; [apply pairwise_remove_nth; exact HD|].
        eapply Forall_impl; [|exact Ho]. intros x (H1 & H2 & H3 & H4 & H5).
        unfold blk_disjoint. cbn [b_addr b_size]. left. lia.
  - apply Z.eqb_neq in E.
    destruct (n >? b_size b) eqn:E3.
    + (* growing an older block: move *)
      rewrite Z.gtb_ltb in E3. apply Z.ltb_lt in E3.
      destruct (arena_alloc_ok s live n Hi ltac:(lia)) as (s' & p & Ha & Hby & [[-> ->] | (Hpnz & Hge & Hpa & Hinv)]).
      * rewrite Ha. cbn. exists s, 0. split; [reflexivity|]. left. auto.
      * rewrite Ha.
        assert (Ep : (p =? 0) = false) by (apply Z.eqb_neq; exact Hpnz).
        assert (Eo : (b_size b =? 0) = false) by (apply Z.eqb_neq; lia).
        rewrite Ep, Eo. cbn [negb andb].
        eexists. exists p. split; [reflexivity|]. right. split; [exact Hpnz|]. split.
        -- eapply ainv_ext with (s1 := s'); [reflexivity | reflexivity |].
           destruct Hinv as (Q1 & Q2 & Q3 & Q4). unfold ainv.
           split; [exact Q1|]. split; [exact Q2|].
           rewrite <- (remove_nth_app i live (mkblk p n) b Hn).
           split; [apply Forall_remove_nth; exact Q3 | apply pairwise_remove_nth; exact Q4].
        -- right. split; [exact E3|]. split; [lia|]. cbn [a_bytes]. rewrite Hby. reflexivity.
    + (* same size or shrinking an older block: same pointer *)
      rewrite Z.gtb_ltb in E3. apply Z.ltb_ge in E3.
      exists s, (b_addr b). split; [reflexivity|]. right. split; [exact Hnz|].
      split; [|left; split; reflexivity].
      pose proof (pairwise_others _ _ _ Hn HD) as Ho.
      unfold ainv. split; [lia|]. split; [lia|]. split.
      * apply Forall_app. split; [apply Forall_remove_nth; exact HF|].
        constructor; [|constructor]. unfold blk_inv. cbn [b_addr b_size].
        repeat split; try assumption; try lia.
      * apply pairwise_app_one; [apply pairwise_remove_nth; exact HD|].
        eapply Forall_impl; [|exact Ho]. intros x Hd.
        unfold blk_disjoint in *. cbn [b_addr b_size]. lia.
Qed.

(* ---------- one step and whole histories ---------- *)
Lemma astep_ok s live o :
  ainv s live -> aop_usize o ->
  exists s' live', astep c (s, live) o = Some (s', live') /\ ainv s' live'.
Proof.
  intros Hi Hd. destruct o as [z n | i | z i n | | a v]; cbn [astep].
  - (* alloc / alloc0 *)
    cbn [aop_usize] in Hd. unfold usize in Hd.
    destruct (arena_alloc_ok s live n Hi Hd) as (s' & p & Ha & Hby & Hcase).
    assert (Hz : exists s2, (if z then arena_alloc0 c s n else arena_alloc c s n) = Some (s2, p) /\
                            a_prev s2 = a_prev s' /\ a_curr s2 = a_curr s').
    { destruct z.
      - unfold arena_alloc0. rewrite Ha. destruct (p =? 0); eexists; split; try reflexivity; auto.
      - exists s'. auto. }
    destruct Hz as (s2 & -> & Hp2 & Hc2).
    eexists. eexists. split; [reflexivity|].
    destruct Hcase as [[-> ->] | (Hpnz & _ & _ & Hinv)].
    + cbn. eapply ainv_ext; [symmetry; exact Hp2 | symmetry; exact Hc2 | exact Hi].
    + apply Z.eqb_neq in Hpnz. rewrite Hpnz.
      eapply ainv_ext; [symmetry; exact Hp2 | symmetry; exact Hc2 | exact Hinv].
  - (* dealloc *)
    destruct (nth_error live i) as [b|] eqn:Hn.
    + destruct (arena_dealloc_ok s live i b Hi Hn) as (s' & -> & _ & Hinv).
      eexists. eexists. split; [reflexivity | exact Hinv].
    + eexists. eexists. split; [reflexivity | exact Hi].
  - (* realloc / realloc0 *)
    destruct (nth_error live i) as [b|] eqn:Hn.
    2:{ eexists. eexists. split; [reflexivity | exact Hi]. }
    cbn [aop_usize] in Hd. unfold usize in Hd.
    destruct (Z.eq_dec n 0) as [-> | Hnz].
    + (* realloc to 0 = dealloc *)
      destruct (arena_dealloc_ok s live i b Hi Hn) as (s' & Hde & _ & Hinv).
      destruct (live_ptr_ok _ _ _ _ Hi Hn) as (Hbnz & _).
      apply Z.eqb_neq in Hbnz.
      assert (Hr : arena_realloc c s (b_addr b) 0 (b_size b) = Some (s', 0)).
      { unfold arena_realloc. rewrite Hbnz. cbn [Z.eqb]. rewrite Hde. reflexivity. }
      assert (Hz : (if z then arena_realloc0 c s (b_addr b) 0 (b_size b)
                    else arena_realloc c s (b_addr b) 0 (b_size b)) = Some (s', 0)).
      { destruct z; [|exact Hr]. unfold arena_realloc0. rewrite Hr.
        rewrite Z.eqb_refl. cbn [negb]. rewrite andb_false_r. reflexivity. }
      rewrite Hz. cbn [Z.eqb]. eexists. eexists. split; [reflexivity | exact Hinv].
    + destruct (arena_realloc_ok s live i b n Hi Hn ltac:(lia)) as (s' & q & Hr & Hcase).
      assert (Hz : exists s2, (if z then arena_realloc0 c s (b_addr b) n (b_size b)
                               else arena_realloc c s (b_addr b) n (b_size b)) = Some (s2, q) /\
                              a_prev s2 = a_prev s' /\ a_curr s2 = a_curr s').
      { destruct z.
        - unfold arena_realloc0. rewrite Hr.
          destruct ((n >? b_size b) && negb (q =? 0)); eexists; split; try reflexivity; auto.
        - exists s'. auto. }
      destruct Hz as (s2 & -> & Hp2 & Hc2).
      apply Z.eqb_neq in Hnz. rewrite Hnz.
      destruct Hcase as [(-> & Hp' & Hc' & _) | (Hqnz & Hinv & _)].
      * cbn [Z.eqb]. eexists. eexists. split; [reflexivity|].
        eapply ainv_ext with (s1 := s); [congruence | congruence | exact Hi].
      * apply Z.eqb_neq in Hqnz. rewrite Hqnz. eexists. eexists. split; [reflexivity|].
        eapply ainv_ext; [symmetry; exact Hp2 | symmetry; exact Hc2 | exact Hinv].
  - (* deallocall *)
    eexists. eexists. split; [reflexivity|].
    destruct Hc as (HB & HS & _). unfold ainv, arena_deallocall. cbn [a_prev a_curr].
    repeat split; try lia; constructor.
  - (* client write *)
    destruct (existsb (in_blk a) live); eexists; eexists; (split; [reflexivity|]);
      [eapply ainv_ext with (s1 := s); [reflexivity | reflexivity | exact Hi] | exact Hi].
Qed.

Lemma arun_ok ops : forall s live,
  ainv s live -> Forall aop_usize ops ->
  exists s' live', arun c (s, live) ops = Some (s', live') /\ ainv s' live'.
Proof.
  induction ops as [|o r IH]; intros s live Hi Hd; cbn [arun].
  - eexists. eexists. split; [reflexivity | exact Hi].
  - inversion Hd; subst.
    destruct (astep_ok s live o Hi H1) as (s1 & l1 & -> & Hi1).
    apply IH; assumption.
Qed.

Lemma ainv_init : ainv arena_init [].
Proof.
  destruct Hc as (HB & HS & _). unfold ainv, arena_init. cbn [a_prev a_curr].
  repeat split; try lia; constructor.
Qed.

End Arena.

(* ---------- theorems in closed form ---------- *)
Theorem arena_safe_proof : forall c ops, acfg_ok c -> Forall aop_usize ops ->
  exists s live, arun c (arena_init, []) ops = Some (s, live) /\
                 good_blocks (a_base c) (a_size c) (a_align c) live.
Proof.
  intros c ops Hc Hd.
  destruct (arun_ok c Hc ops arena_init [] (ainv_init c Hc) Hd) as (s & live & Hr & Hi).
  exists s, live. split; [exact Hr | eapply ainv_good; eassumption].
Qed.

(* realloc keeps the first min(old,new) bytes and leaves every other live block untouched *)
Theorem arena_realloc_preserves_proof : forall c ops s live i b n s' q,
  acfg_ok c -> Forall aop_usize ops ->
  arun c (arena_init, []) ops = Some (s, live) ->
  nth_error live i = Some b -> 0 < n < two64 ->
  arena_realloc c s (b_addr b) n (b_size b) = Some (s', q) -> q <> 0 ->
  (forall k, 0 <= k < Z.min n (b_size b) -> a_bytes s' (q + k) = a_bytes s (b_addr b + k)) /\
  (forall j b', j <> i -> nth_error live j = Some b' ->
     forall k, 0 <= k < b_size b' -> a_bytes s' (b_addr b' + k) = a_bytes s (b_addr b' + k)).
Proof.
  intros c ops s live i b n s' q Hc Hd Hrun Hn Hn0 Hre Hq.
  destruct (arun_ok c Hc ops arena_init [] (ainv_init c Hc) Hd) as (s0 & l0 & Hr0 & Hi).
  rewrite Hrun in Hr0. inversion Hr0; subst s0 l0. clear Hr0.
  destruct (arena_realloc_ok c Hc s live i b n Hi Hn Hn0) as (s2 & q2 & Hre2 & Hcase).
  rewrite Hre in Hre2. inversion Hre2; subst s2 q2. clear Hre2.
  destruct Hcase as [(-> & _) | (_ & _ & [(-> & Hby) | (Hlt & Hge & Hby)])]; [contradiction | |].
  - rewrite Hby. split; intros; reflexivity.
  - rewrite Hby. unfold bcopy.
    destruct Hi as (Hp & Hcu & HF & HD). rewrite Forall_forall in HF. split.
    + intros k Hk.
      assert (E : (q <=? q + k) && (q + k <? q + b_size b) = true).
      { apply andb_true_intro. split; [apply Z.leb_le | apply Z.ltb_lt]; lia. }
      rewrite E. f_equal. lia.
    + intros j b' Hj Hnj k Hk.
      pose proof (HF b' (nth_error_In _ _ Hnj)) as (H1 & H2 & H3 & H4 & H5).
      assert (E : (q <=? b_addr b' + k) = false) by (apply Z.leb_gt; lia).
      rewrite E. reflexivity.
Qed.

Definition wit_cfg : acfg := mkacfg 4096 64 8.

Lemma wit_cfg_ok : acfg_ok wit_cfg.
Proof.
  unfold acfg_ok, wit_cfg, pow2, two64. cbn. repeat split; try lia. exists 3. split; [lia | reflexivity].
Qed.

(* zeroing variants: exactly the new bytes are zeroed, nothing else is written *)
Theorem arena_alloc0_zeroes_proof : forall c s n s1 p s0,
  arena_alloc c s n = Some (s1, p) -> arena_alloc0 c s n = Some (s0, p) -> p <> 0 ->
  forall x, a_bytes s0 x = if (p <=? x) && (x <? p + n) then 0 else a_bytes s x.
Proof.
  intros c s n s1 p s0 Ha H0 Hp x. unfold arena_alloc0 in H0. rewrite Ha in H0.
  apply Z.eqb_neq in Hp. rewrite Hp in H0. inversion H0; subst. cbn [a_bytes]. unfold bzero.
  assert (a_bytes s1 = a_bytes s).
  { unfold arena_alloc in Ha. destruct (n =? 0); [inversion Ha; reflexivity|].
    destruct (_ || _); [inversion Ha; reflexivity|]. destruct (_ <? _); inversion Ha; reflexivity. }
  rewrite H. reflexivity.
Qed.

Theorem arena_realloc0_zeroes_proof : forall c s p n old s1 q s0,
  arena_realloc c s p n old = Some (s1, q) -> arena_realloc0 c s p n old = Some (s0, q) ->
  q <> 0 -> old < n ->
  forall x, a_bytes s0 x = if (q + old <=? x) && (x <? q + n) then 0 else a_bytes s1 x.
Proof.
  intros c s p n old s1 q s0 Hr H0 Hq Hlt x. unfold arena_realloc0 in H0. rewrite Hr in H0.
  apply Z.eqb_neq in Hq. rewrite Hq in H0.
  assert (E : (n >? old) = true) by (apply Z.gtb_lt; lia). rewrite E in H0.
  cbn [negb andb] in H0. inversion H0; subst. cbn [a_bytes]. unfold bzero.
  replace (q + old + (n - old)) with (q + n) by lia. reflexivity.
Qed.
