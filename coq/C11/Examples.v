(* C11 - non-vacuity: the hypotheses of the theorems are met by concrete, non-trivial histories,
   including the histories that used to break the unrepaired code (these are tests, not
   obligations) *)
From Coq Require Import ZArith List Bool Lia.
From Base Require Import LuaInt.
From C11 Require Import Gen Model Heap HeapA Spec SpecHeap Common ProofsArena ProofsStack ProofsPool ProofsHeap ProofsHeapNaf.
Import ListNotations.
Local Open Scope Z_scope.

Example arena_nonvacuous :
  let ops := [AAlloc false 16; AAlloc true 8; ARealloc false 0%nat 24; ADealloc 0%nat; AAlloc false 8; AWrite 4120 7;
              AAlloc false 0; AAlloc false (two64 - 8)] in
  acfg_ok wit_cfg /\ Forall aop_usize ops /\
  exists s live, arun wit_cfg (arena_init, []) ops = Some (s, live) /\ length live = 2%nat.
Proof.
  cbn zeta. split; [exact wit_cfg_ok|]. split.
  - unfold aop_usize, usize, two64. repeat constructor; lia.
  - eexists. eexists. split; [vm_compute; reflexivity | reflexivity].
Qed.

Example stack_nonvacuous :
  let ops := [SAlloc 5; SAlloc 7; SRealloc 0%nat 20; SRealloc 1%nat 3; SDealloc 0%nat; SAlloc 9; SAlloc (two64 - 8)] in
  scfg_ok swit_cfg /\ Forall sop_usize ops /\
  exists s live, srun swit_cfg (stack_init, []) ops = Some (s, live) /\ length live = 2%nat.
Proof.
  cbn zeta. split; [exact swit_cfg_ok|]. split.
  - unfold sop_usize, usize, two64. repeat constructor; lia.
  - eexists. eexists. split; [vm_compute; reflexivity | reflexivity].
Qed.

Example pool_nonvacuous :
  let ops := [PDeallocAll; PAlloc 8; PAlloc 3; PDealloc 1%nat; PAlloc 8; PAlloc 8; PAlloc 8; PAlloc 8] in
  pcfg_ok pwit_cfg /\ Forall pop_usize ops /\
  exists s live, prun pwit_cfg (pool_init, []) ops = Some (s, live) /\ p_initialized s = true /\ length live = 4%nat.
Proof.
  cbn zeta. split; [exact pwit_cfg_ok|]. split.
  - unfold pop_usize, usize, two64. repeat constructor; lia.
  - eexists. eexists. split; [vm_compute; reflexivity|]. split; reflexivity.
Qed.

(* shrinking realloc in front of a free chunk, a size in the wrap-around zone, everything released *)
Example heap_nonvacuous :
  let ops := [HAlloc 1000; HRealloc 0%nat 100; HAlloc (two64 - 8); HDealloc 0%nat] in
  hcfg_ok hwit_big /\ Forall hop_usize ops /\
  exists s, hrun hwit_big (ha_init_state, []) ops = Some (s, []) /\ length (ha_chunks s) = 1%nat.
Proof.
  cbn zeta. split; [exact hwit_big_ok|]. split.
  - unfold hop_usize, usize, two64. repeat constructor; lia.
  - eexists. split; [vm_compute; reflexivity | reflexivity].
Qed.
