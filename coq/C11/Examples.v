(* C11 - non-vacuity: the hypotheses of the partial theorems are met by concrete, non-trivial
   histories (these are tests, not obligations) *)
From Coq Require Import ZArith List Bool Lia.
From Base Require Import LuaInt.
From C11 Require Import Gen Model Heap HeapA Spec SpecHeap Common ProofsArena ProofsStack ProofsPool ProofsHeap ProofsHeapNaf.
Import ListNotations.
Local Open Scope Z_scope.

Example arena_partial_nonvacuous :
  let ops := [AAlloc false 16; AAlloc true 8; ARealloc false 0%nat 24; ADealloc 0%nat; AAlloc false 8; AWrite 4120 7] in
  acfg_ok wit_cfg /\ Forall (aop_dom wit_cfg) ops /\
  exists s live, arun wit_cfg (arena_init, []) ops = Some (s, live) /\ length live = 2%nat.
Proof.
  cbn zeta. split; [exact wit_cfg_ok|]. split.
  - unfold aop_dom, wit_cfg, two64. cbn. repeat constructor; lia.
  - eexists. eexists. split; [vm_compute; reflexivity | reflexivity].
Qed.

Example stack_partial_nonvacuous :
  let ops := [SAlloc 5; SAlloc 7; SRealloc 0%nat 20; SRealloc 1%nat 3; SDealloc 0%nat; SAlloc 9] in
  scfg_ok swit_cfg /\ Forall (sop_dom swit_cfg) ops /\
  exists s live, srun swit_cfg (stack_init, []) ops = Some (s, live) /\ length live = 2%nat.
Proof.
  cbn zeta. split; [exact swit_cfg_ok|]. split.
  - unfold sop_dom, swit_cfg, two64. cbn. repeat constructor; try lia; vm_compute; discriminate.
  - eexists. eexists. split; [vm_compute; reflexivity | reflexivity].
Qed.

Example pool_partial_nonvacuous :
  let ops := [PAlloc 8; PAlloc 3; PDealloc 1%nat; PAlloc 8; PDeallocAll; PAlloc 1] in
  pcfg_ok pwit_cfg /\ Forall pop_usize ops /\ prun_dom pwit_cfg (pool_init, []) ops /\
  exists s, prun pwit_cfg (pool_init, []) ops = Some (s, [mkblk 4096 1]) /\ p_initialized s = true.
Proof.
  cbn zeta. split; [exact pwit_cfg_ok|]. split; [|split].
  - unfold pop_usize, usize, two64. repeat constructor; lia.
  - vm_compute. repeat split; intros; try discriminate; reflexivity.
  - eexists. split; vm_compute; reflexivity.
Qed.

Example heap_partial_nonvacuous :
  let ops := [HAlloc 100; HAlloc 50; HDealloc 1%nat; HRealloc 0%nat 500; HRealloc 0%nat 10; HAlloc 2000] in
  hcfg_ok hwit_big /\ Forall hop_dom ops /\
  exists s live, hrun hwit_big (ha_init_state, []) ops = Some (s, live) /\ length live = 2%nat /\
                 length (ha_chunks s) = 5%nat.
Proof.
  cbn zeta. split; [exact hwit_big_ok|]. split.
  - unfold hop_dom, two63. repeat constructor; lia.
  - eexists. eexists. split; [vm_compute; reflexivity|]. split; reflexivity.
Qed.

(* the domain of the two partial heap theorems contains histories with shrinking, splitting
   reallocs (here the chunk after the shrunk one is used) and ends with everything released *)
Example heap_dom_nonvacuous :
  let ops := [HAlloc 1000; HAlloc 200; HRealloc 1%nat 100; HDealloc 0%nat; HDealloc 0%nat] in
  Forall hop_dom ops /\ hrun_dom hwit_big (ha_init_state, []) ops /\
  exists s, hrun hwit_big (ha_init_state, []) ops = Some (s, []) /\ length (ha_chunks s) = 1%nat.
Proof.
  cbn zeta. split; [|split].
  - unfold hop_dom, two63. repeat constructor; lia.
  - vm_compute. repeat split; try reflexivity; try exact I.
  - eexists. split; [vm_compute; reflexivity | reflexivity].
Qed.
