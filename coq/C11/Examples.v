(* C11 - non-vacuity: the hypotheses of the theorems are met by concrete, non-trivial histories,
   including the histories that used to break the unrepaired code (these are tests, not
   obligations) *)
From Coq Require Import ZArith List Bool Lia.
From Base Require Import LuaInt.
From C11 Require Import Gen Model Heap HeapA Spec SpecHeap Common ProofsArena ProofsStack ProofsPool ProofsHeap ProofsHeapNaf.
Import ListNotations.
Local Open Scope Z_scope.

Example arena_nonvacuous :
  let ops := [AAlloc false 16; AAlloc true 8; ARealloc false 0%nat 24; ADealloc 0%nat; AAlloc false 8; AWrite 4120 7;
              AAlloc false 0; AAlloc false (two64 - 8)] in
  acfg_ok wit_cfg /\ Forall aop_usize ops /\
  exists s live, arun wit_cfg (arena_init, []) ops = Some (s, live) /\ length live = 2%nat.
Proof.
  cbn zeta. split; [exact wit_cfg_ok|]. split.
  - unfold aop_usize, usize, two64. repeat constructor; lia.
  - eexists. eexists. split; [vm_compute; reflexivity | reflexivity].
Qed.

Example stack_nonvacuous :
  let ops := [SAlloc 5; SAlloc 7; SRealloc 0%nat 20; SRealloc 1%nat 3; SDealloc 0%nat; SAlloc 9; SAlloc (two64 - 8)] in
  scfg_ok swit_cfg /\ Forall sop_usize ops /\
  exists s live, srun swit_cfg (stack_init, []) ops = Some (s, live) /\ length live = 2%nat.
Proof.
  cbn zeta. split; [exact swit_cfg_ok|]. split.
  - unfold sop_usize, usize, two64. repeat constructor; lia.
  - eexists. eexists. split; [vm_compute; reflexivity | reflexivity].
Qed.

Example pool_nonvacuous :
  let ops := [PDeallocAll; PAlloc 8; PAlloc 3; PDealloc 1%nat; PAlloc 8; PAlloc 8; PAlloc 8; PAlloc 8] in
  pcfg_ok pwit_cfg /\ Forall pop_usize ops /\
  exists s live, prun pwit_cfg (pool_init, []) ops = Some (s, live) /\ p_initialized s = true /\ length live = 4%nat.
Proof.
  cbn zeta. split; [exact pwit_cfg_ok|]. split.
  - unfold pop_usize, usize, two64. repeat constructor; lia.
  - eexists. eexists. split; [vm_compute; reflexivity|]. split; reflexivity.
Qed.

(* shrinking realloc in front of a free chunk, a size in the wrap-around zone, everything released *)
Example heap_nonvacuous :
  let ops := [HAlloc 1000; HRealloc 0%nat 100; HAlloc (two64 - 8); HDealloc 0%nat] in
  hcfg_ok hwit_big /\ Forall hop_usize ops /\
  exists s, hrun hwit_big (ha_init_state, []) ops = Some (s, []) /\ length (ha_chunks s) = 1%nat.
Proof.
  cbn zeta. split; [exact hwit_big_ok|]. split.
  - unfold hop_usize, usize, two64. repeat constructor; lia.
  - eexists. split; [vm_compute; reflexivity | reflexivity].
Qed.

(* the witnesses of the heap findings, in the source (memory-level model, HeapAllocator(1024) at an
   address = 8 mod 16 like instance h0 of the harness; offsets of the harness are relative to 8) *)
Definition hwit_h0 : hcfg := mkhcfg 8 1024.

(* 9ef0717: alloc 100; b = alloc 50; deallocall; alloc 400; dealloc(b) is reported ... *)
Example stale_pointer_reported :
  exists s live, crun hwit_h0 (heap_init_state, []) [HAlloc 100; HAlloc 50; HDeallocAll; HAlloc 400] = Some (s, live) /\
                 live = [mkblk 48 400] /\ hp_dealloc s (8 + 184) = HPanic.
Proof. eexists. eexists. split; [vm_compute; reflexivity|]. split; reflexivity. Qed.

(* ... and with a deallocall that does not clear the marks the same call is accepted *)
Example stale_pointer_accepted_without_clearing :
  exists s1 live1 s2 s3 p, crun hwit_h0 (heap_init_state, []) [HAlloc 100; HAlloc 50] = Some (s1, live1) /\
    hp_deallocall_p false hwit_h0 s1 = HOk s2 /\ hp_alloc hwit_h0 s2 400 = HOk (s3, p) /\ p = 48 /\
    exists s4, hp_dealloc s3 (8 + 184) = HOk s4.
Proof.
  eexists. eexists. eexists. eexists. eexists. split; [vm_compute; reflexivity|]. split; [vm_compute; reflexivity|].
  split; [vm_compute; reflexivity|]. split; [reflexivity|]. eexists. vm_compute. reflexivity.
Qed.

(* d9328b9: HeapAllocator(200), alloc 8; dealloc; dealloc(buffer + 200) (one past the end) is reported *)
Example one_past_end_reported :
  exists s live, crun (mkhcfg 8 200) (heap_init_state, []) [HAlloc 8; HDealloc 0%nat] = Some (s, live) /\
                 hp_dealloc s (8 + 200) = HPanic.
Proof. eexists. eexists. split; [vm_compute; reflexivity | reflexivity]. Qed.

(* 23ac203: HeapAllocator(48) is refused at its first use; HeapAllocator(1001) has a 16-aligned end node *)
Example small_region_refused : hp_alloc (mkhcfg 8 48) heap_init_state 100 = HPanic.
Proof. reflexivity. Qed.
Example odd_size_end_aligned : heap_end (mkhcfg 8 1001) mod 16 = 0.
Proof. reflexivity. Qed.
