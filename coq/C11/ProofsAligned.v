(* C11 - AlignedAllocator: the alignment arithmetic *)
From Coq Require Import ZArith List Bool Lia.
From Base Require Import LuaInt.
From C11 Require Import Gen Model Spec Common Iface Aligned ProofsArena.
Import ListNotations.
Local Open Scope Z_scope.

(* the aligned block lies inside the over-allocated block, below it there is room for the header *)
Theorem aligned_arith_proof : forall c origp size,
  pow2 (g_align c) -> PTR_SIZE <= g_align c -> 0 < origp -> 0 <= size ->
  origp + size + PTR_SIZE + g_align c <= two64 ->
  let addr := al_addr c origp in
  al_request c size = size + (PTR_SIZE + g_align c - 1) /\
  addr mod g_align c = 0 /\ origp + PTR_SIZE <= addr /\
  addr + size <= origp + al_request c size /\
  w64 (addr - PTR_SIZE) = addr - PTR_SIZE /\ origp <= addr - PTR_SIZE.
Proof.
  intros c origp size Hp Hal Ho Hs Hfit addr. unfold PTR_SIZE in *.
  pose proof (pow2_pos _ Hp) as HA.
  unfold al_request, PTR_SIZE. rewrite (w64_small (8 + g_align c - 1)) by lia.
  rewrite (w64_small (size + (8 + g_align c - 1))) by lia.
  unfold addr, al_addr, PTR_SIZE. rewrite (w64_small (origp + 8)) by lia.
  destruct (align_forward_spec (origp + 8) (g_align c) Hp ltac:(lia) ltac:(lia)) as [Hr Hm].
  set (r := align_forward (origp + 8) (g_align c)) in *.
  repeat split; try lia; try assumption. apply w64_small. lia.
Qed.

(* alloc: aligned, inside the block obtained from the wrapped allocator, header recoverable *)
Theorem aligned_alloc_spec_proof : forall c s size s' p,
  pow2 (g_align c) -> PTR_SIZE <= g_align c -> 0 <= size ->
  size + PTR_SIZE + g_align c <= two64 ->
  (forall a' origp, arena_alloc (g_inner c) (g_arena s) (al_request c size) = Some (a', origp) -> origp <> 0 ->
     0 < origp /\ origp + al_request c size <= two64 - 1) ->
  aligned_alloc c s size = Some (s', p) -> p <> 0 ->
  exists origp, arena_alloc (g_inner c) (g_arena s) (al_request c size) = Some (g_arena s', origp) /\ origp <> 0 /\
    p mod g_align c = 0 /\ origp + PTR_SIZE <= p /\ p + size <= origp + al_request c size /\
    aligned_realptr s' p = origp.
Proof.
  intros c s size s' p Hp Hal Hs Hfit Hin H Hpnz. unfold aligned_alloc in H.
  destruct (arena_alloc (g_inner c) (g_arena s) (al_request c size)) as [[a' origp]|] eqn:Ea; [|discriminate].
  destruct (origp =? 0) eqn:E0; [inversion H; subst; contradiction|]. apply Z.eqb_neq in E0.
  inversion H; subst s' p. clear H. destruct (Hin a' origp eq_refl E0) as [Ho Hb].
  assert (Hreq : al_request c size = size + (PTR_SIZE + g_align c - 1)).
  { unfold al_request, PTR_SIZE in *. pose proof (pow2_pos _ Hp). rewrite (w64_small (8 + g_align c - 1)) by lia. apply w64_small. lia. }
  destruct (aligned_arith_proof c origp size Hp Hal Ho Hs ltac:(unfold PTR_SIZE in *; lia)) as (_ & A2 & A3 & A4 & A5 & A6).
  exists origp. cbn [g_arena]. repeat split; auto.
  unfold aligned_realptr. cbn [g_hdr]. apply Z.eqb_neq in Hpnz. rewrite Hpnz. rewrite mget_mset_same. reflexivity.
Qed.

(* full-strength statement: whatever the size, a non-nil aligned block fits in the block obtained *)
Definition aligned_fits_full : Prop :=
  forall c size s' p, acfg_ok (g_inner c) -> pow2 (g_align c) -> PTR_SIZE <= g_align c -> 0 <= size < two64 ->
    aligned_alloc c aligned_init size = Some (s', p) -> p <> 0 ->
    p + size <= a_base (g_inner c) + a_size (g_inner c).

(* AlignedAllocator(ArenaAllocator(1024,8),64):alloc(2^64-8) requests 63 bytes and returns a pointer *)
Theorem aligned_fits_refuted_proof : ~ aligned_fits_full.
Proof.
  intros H. pose (c := mkgcfg (mkacfg 4096 1024 8) 64).
  assert (Hc : acfg_ok (g_inner c)).
  { unfold acfg_ok, c, pow2, two64. cbn. repeat split; try lia. exists 3. split; [lia | reflexivity]. }
  assert (Hp : pow2 (g_align c)) by (exists 6; split; [lia | reflexivity]).
  destruct (aligned_alloc c aligned_init (two64 - 8)) as [[s' p]|] eqn:E; [|vm_compute in E; discriminate E].
  assert (Hpnz : p <> 0) by (vm_compute in E; inversion E; subst; intros Hx; discriminate Hx).
  specialize (H c (two64 - 8) s' p Hc Hp ltac:(cbn; unfold PTR_SIZE; lia) ltac:(unfold two64; lia) E Hpnz).
  vm_compute in E. inversion E; subst. cbn in H. unfold two64 in H. lia.
Qed.
