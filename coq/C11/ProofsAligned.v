(* C11 - AlignedAllocator: the alignment arithmetic *)
From Coq Require Import ZArith List Bool Lia.
From Base Require Import LuaInt.
From C11 Require Import Gen Model Spec Common Iface Aligned ProofsArena.
Import ListNotations.
Local Open Scope Z_scope.

(* the aligned block lies inside the over-allocated block, below it there is room for the header *)
Theorem aligned_arith_proof : forall c origp size,
  pow2 (g_align c) -> PTR_SIZE <= g_align c -> 0 < origp -> 0 <= size ->
  origp + size + PTR_SIZE + g_align c <= two64 ->
  let addr := al_addr c origp in
  al_request c size = size + (PTR_SIZE + g_align c - 1) /\
  addr mod g_align c = 0 /\ origp + PTR_SIZE <= addr /\
  addr + size <= origp + al_request c size /\
  w64 (addr - PTR_SIZE) = addr - PTR_SIZE /\ origp <= addr - PTR_SIZE.
Proof.
  intros c origp size Hp Hal Ho Hs Hfit addr. unfold PTR_SIZE in *.
  pose proof (pow2_pos _ Hp) as HA.
  unfold al_request, PTR_SIZE. rewrite (w64_small (8 + g_align c - 1)) by lia.
  rewrite (w64_small (size + (8 + g_align c - 1))) by lia.
  unfold addr, al_addr, PTR_SIZE. rewrite (w64_small (origp + 8)) by lia.
  destruct (align_forward_spec (origp + 8) (g_align c) Hp ltac:(lia) ltac:(lia)) as [Hr Hm].
  set (r := align_forward (origp + 8) (g_align c)) in *.
  repeat split; try lia; try assumption. apply w64_small. lia.
Qed.

(* what the overflow test of 532034f guarantees *)
Lemma al_too_large_false c size :
  0 < g_align c -> g_align c + PTR_SIZE <= two64 -> 0 <= size -> al_too_large c size = false ->
  size + PTR_SIZE + g_align c <= two64 /\ al_request c size = size + (PTR_SIZE + g_align c - 1).
Proof.
  unfold al_too_large, al_request, PTR_SIZE. intros HA Hb Hs H.
  rewrite Z.gtb_ltb in H. apply Z.ltb_ge in H.
  rewrite (w64_small (8 + g_align c - 1)) in * by lia.
  assert (E1 : w64 (-1) = two64 - 1) by reflexivity. rewrite E1 in H.
  rewrite (w64_small (two64 - 1 - (8 + g_align c - 1))) in H by lia.
  split; [lia|]. apply w64_small. lia.
Qed.

Lemma al_too_large_true c s size : al_too_large c size = true -> aligned_alloc c s size = Some (s, 0).
Proof. unfold aligned_alloc. intros ->. destruct (size =? 0); reflexivity. Qed.

(* alloc: aligned, inside the block obtained from the wrapped allocator, header recoverable.
   No bound on the size: the request never wraps (the code tests for it). *)
Theorem aligned_alloc_spec_proof : forall c s size s' p,
  pow2 (g_align c) -> PTR_SIZE <= g_align c -> g_align c + PTR_SIZE <= two64 -> 0 <= size ->
  (forall a' origp, arena_alloc (g_inner c) (g_arena s) (al_request c size) = Some (a', origp) -> origp <> 0 ->
     0 < origp /\ origp + al_request c size <= two64 - 1) ->
  aligned_alloc c s size = Some (s', p) -> p <> 0 ->
  al_request c size = size + (PTR_SIZE + g_align c - 1) /\
  exists origp, arena_alloc (g_inner c) (g_arena s) (al_request c size) = Some (g_arena s', origp) /\ origp <> 0 /\
    p mod g_align c = 0 /\ origp + PTR_SIZE <= p /\ p + size <= origp + al_request c size /\
    aligned_realptr s' p = origp.
Proof.
  intros c s size s' p Hp Hal HA64 Hs Hin H Hpnz. unfold aligned_alloc in H.
  destruct (size =? 0); [inversion H; subst; contradiction|].
  destruct (al_too_large c size) eqn:Etl; [inversion H; subst; contradiction|].
  destruct (al_too_large_false c size (pow2_pos _ Hp) HA64 Hs Etl) as [Hfit Hreq].
  split; [exact Hreq|].
  destruct (arena_alloc (g_inner c) (g_arena s) (al_request c size)) as [[a' origp]|] eqn:Ea; [|discriminate].
  destruct (origp =? 0) eqn:E0; [inversion H; subst; contradiction|]. apply Z.eqb_neq in E0.
  inversion H; subst s' p. clear H. destruct (Hin a' origp eq_refl E0) as [Ho Hb].
  destruct (aligned_arith_proof c origp size Hp Hal Ho Hs ltac:(unfold PTR_SIZE in *; lia)) as (_ & A2 & A3 & A4 & A5 & A6).
  exists origp. cbn [g_arena]. repeat split; auto.
  unfold aligned_realptr. cbn [g_hdr]. apply Z.eqb_neq in Hpnz. rewrite Hpnz. rewrite mget_mset_same. reflexivity.
Qed.

(* full strength, over the arena: in ANY reachable state of the wrapped arena (ainv), whatever the size,
   a non-nil aligned block is aligned, lies inside a fresh good block of the arena (disjoint from all live
   ones, inside the buffer), leaves room for its header below it, and the header gives the block back *)
Theorem aligned_fits_proof : forall c s live size s' p,
  acfg_ok (g_inner c) -> pow2 (g_align c) -> PTR_SIZE <= g_align c -> g_align c + PTR_SIZE <= two64 ->
  ainv (g_inner c) (g_arena s) live -> 0 <= size < two64 ->
  aligned_alloc c s size = Some (s', p) -> p <> 0 ->
  exists origp,
    ainv (g_inner c) (g_arena s') (live ++ [mkblk origp (al_request c size)]) /\
    good_blocks (a_base (g_inner c)) (a_size (g_inner c)) (a_align (g_inner c)) (live ++ [mkblk origp (al_request c size)]) /\
    p mod g_align c = 0 /\ origp + PTR_SIZE <= p /\ p + size <= origp + al_request c size /\
    p + size <= a_base (g_inner c) + a_size (g_inner c) /\
    aligned_realptr s' p = origp.
Proof.
  intros c s live size s' p Hc Hp Hal HA64 Hi Hs H Hpnz.
  assert (Etl : al_too_large c size = false).
  { destruct (al_too_large c size) eqn:E; [|reflexivity]. rewrite (al_too_large_true c s size E) in H. inversion H; subst. contradiction. }
  destruct (al_too_large_false c size (pow2_pos _ Hp) HA64 ltac:(lia) Etl) as [Hfit Hreq].
  assert (Hrq : 0 <= al_request c size < two64) by (unfold al_request, w64; apply Z.mod_pos_bound; unfold two64; lia).
  destruct (arena_alloc_ok (g_inner c) Hc (g_arena s) live (al_request c size) Hi Hrq) as (a1 & o1 & Ha1 & _ & Hcase).
  assert (Hgood : forall a' origp, arena_alloc (g_inner c) (g_arena s) (al_request c size) = Some (a', origp) -> origp <> 0 ->
     ainv (g_inner c) a' (live ++ [mkblk origp (al_request c size)])).
  { intros a' origp E Ho. rewrite Ha1 in E. inversion E; subst a1 o1. destruct Hcase as [[Hz _]|(_ & _ & _ & Hv)]; [contradiction | exact Hv]. }
  assert (Hin : forall a' origp, arena_alloc (g_inner c) (g_arena s) (al_request c size) = Some (a', origp) -> origp <> 0 ->
     0 < origp /\ origp + al_request c size <= two64 - 1).
  { intros a' origp E Ho. pose proof (ainv_good _ _ _ (Hgood a' origp E Ho)) as (Hfi & _ & _).
    apply Forall_app in Hfi. destruct Hfi as [_ Hfi]. apply Forall_inv in Hfi. unfold blk_in in Hfi. cbn [b_addr b_size] in Hfi.
    destruct Hc as (HB & HS & Hpw & Hft). pose proof (pow2_pos _ Hpw). lia. }
  destruct (aligned_alloc_spec_proof c s size s' p Hp Hal HA64 ltac:(lia) Hin H Hpnz) as (_ & origp & Ea & Ho & B1 & B2 & B3 & B4).
  exists origp. pose proof (Hgood _ _ Ea Ho) as Hv. pose proof (ainv_good _ _ _ Hv) as Hg.
  split; [exact Hv|]. split; [exact Hg|]. repeat split; auto.
  destruct Hg as (Hfi & _ & _). apply Forall_app in Hfi. destruct Hfi as [_ Hfi]. apply Forall_inv in Hfi.
  unfold blk_in in Hfi. cbn [b_addr b_size] in Hfi. lia.
Qed.

(* the statement refuted before repair 532034f, now a corollary *)
Definition aligned_fits_full : Prop :=
  forall c size s' p, acfg_ok (g_inner c) -> pow2 (g_align c) -> PTR_SIZE <= g_align c -> g_align c + PTR_SIZE <= two64 ->
    0 <= size < two64 ->
    aligned_alloc c aligned_init size = Some (s', p) -> p <> 0 ->
    p + size <= a_base (g_inner c) + a_size (g_inner c).

Theorem aligned_fits_full_proof : aligned_fits_full.
Proof.
  intros c size s' p Hc Hp Hal HA64 Hs H Hpnz.
  destruct (aligned_fits_proof c aligned_init [] size s' p Hc Hp Hal HA64 (ainv_init _ Hc) Hs H Hpnz) as (o & _ & _ & _ & _ & _ & Hf & _).
  exact Hf.
Qed.

(* "If size is zero ... returns nilptr" (repair ccd321a): the allocator is left alone *)
Theorem aligned_alloc_zero_proof : aligned_alloc_zero_nil_full.
Proof. intros c s. reflexivity. Qed.
