From C01 Require Import Order ProofsOrdA ProofsOrdB ProofsOrdC.
Local Open Scope Z_scope.

Lemma filter_map_comm {A B} (g : A -> B) (P : B -> bool) (l : list A) :
  filter P (map g l) = map g (filter (fun x => P (g x)) l).
Proof. induction l as [|a l IH]; [reflexivity|]. cbn [map filter]. destruct (P (g a)); cbn [map]; congruence. Qed.

Lemma NoDup_map_inj {A B} (f : A -> B) (l : list A) x y :
  NoDup (map f l) -> In x l -> In y l -> f x = f y -> x = y.
Proof.
  induction l as [|a l IH]; intros Hnd Hx Hy E; [destruct Hx|].
  cbn [map] in Hnd. inversion Hnd; subst.
  destruct Hx as [->|Hx], Hy as [->|Hy]; auto.
  - exfalso. apply H1. rewrite E. apply in_map. exact Hy.
  - exfalso. apply H1. rewrite <- E. apply in_map. exact Hx.
Qed.

Lemma value_at_in (l : list (nat * Z)) i v : NoDup (map fst l) -> In (i, v) l -> value_at l i = v.
Proof.
  induction l as [|[j w] l IH]; intros Hnd Hin; [destruct Hin|].
  cbn [map fst] in Hnd. inversion Hnd; subst. destruct Hin as [E|Hin].
  - inversion E; subst. apply value_at_cons_eq.
  - rewrite value_at_cons_ne; [apply IH; auto|]. intros ->. apply H1. apply (in_map fst) in Hin. exact Hin.
Qed.

Section Seq.
  Variable pol : se_policy.
  Hypothesis PA : p_args_propagate pol = true.
  Variable fe : fenv.
  Hypothesis NW : no_writes fe.
  Variable s : store.

  Lemma mk_thunks2 (h : expr -> bool) (c : expr -> cexpr) (args : list expr) :
    (fix mk (l : list (bool * cexpr)) : list (bool * thunk) :=
       match l with [] => [] | (b, a) :: r => (b, ceval fe a) :: mk r end) (combine (map h args) (map c args))
    = map (fun a => (h a, ceval fe (c a))) args.
  Proof. induction args as [|a args IH]; [reflexivity|]. cbn [map combine]. rewrite IH. reflexivity. Qed.

  Lemma silent_rest (L : list (nat * expr)) :
    filter nonempty (map s_tr (map (spec_of fe s) (filter (fun p => negb (has_se pol fe (snd p))) L))) = [].
  Proof.
    induction L as [|[i a] L IH]; [reflexivity|]. cbn [filter snd].
    destruct (has_se pol fe a) eqn:E; cbn [negb]; [exact IH|].
    cbn [map filter]. unfold s_tr at 1, spec_of at 1. cbn [fst snd]. rewrite (unmarked_silent pol PA fe NW s a E). cbn [nonempty]. exact IH.
  Qed.

  Lemma noisy_concat (L : list (nat * expr)) :
    concat (map s_tr (map (spec_of fe s) (filter (fun p => has_se pol fe (snd p)) L))) = flat_map (fun p => tr fe s (snd p)) L.
  Proof.
    induction L as [|[i a] L IH]; [reflexivity|]. cbn [filter snd flat_map].
    destruct (has_se pol fe a) eqn:E.
    - cbn [map concat]. unfold s_tr at 1, spec_of at 1. cbn [fst snd]. rewrite IH. reflexivity.
    - rewrite (unmarked_silent pol PA fe NW s a E). cbn [app]. exact IH.
  Qed.

  Lemma flat_map_number (g : expr -> list ev) args k : flat_map (fun p => g (snd p)) (number k args) = flat_map g args.
  Proof. revert k. induction args as [|a args IH]; intros k; [reflexivity|]. cbn. rewrite IH. reflexivity. Qed.

  Lemma call_seq f args t o :
    Forall (arg_ok pol fe s) args ->
    exists o', ceval fe (CCallSeq f (combine (map (has_se pol fe) args) (map (comp pol fe) args))) (s, t) o =
               ((s, rev (tr fe s (ECall f args)) ++ t), val fe s (ECall f args), o').
  Proof.
    intros Hargs. cbn [ceval]. rewrite mk_thunks2.
    set (L := number O args).
    set (g := fun p : nat * expr => (fst p, (has_se pol fe (snd p), ceval fe (comp pol fe (snd p))))).
    assert (Eths : number O (map (fun a => (has_se pol fe a, ceval fe (comp pol fe a))) args) = map g L).
    { unfold L, g. rewrite number_map. reflexivity. }
    rewrite Eths.
    set (Lt := filter (fun p => has_se pol fe (snd p)) L).
    set (Lr := filter (fun p => negb (has_se pol fe (snd p))) L).
    assert (Et : map (fun p : nat * (bool * thunk) => (fst p, snd (snd p))) (filter (fun p => fst (snd p)) (map g L)) = map (thunk_of pol fe) Lt).
    { rewrite filter_map_comm, map_map. reflexivity. }
    assert (Er : map (fun p : nat * (bool * thunk) => (fst p, snd (snd p))) (filter (fun p => negb (fst (snd p))) (map g L)) = map (thunk_of pol fe) Lr).
    { rewrite filter_map_comm, map_map. reflexivity. }
    rewrite Et, Er.
    pose proof (Forall_number pol fe s args O Hargs) as HL. fold L in HL.
    assert (HLt : Forall (fun p => arg_ok pol fe s (snd p)) Lt) by (apply Forall_forall; intros p Hp; apply filter_In in Hp; rewrite Forall_forall in HL; apply HL; tauto).
    assert (HLr : Forall (fun p => arg_ok pol fe s (snd p)) Lr) by (apply Forall_forall; intros p Hp; apply filter_In in Hp; rewrite Forall_forall in HL; apply HL; tauto).
    assert (HndL : NoDup (map fst L)) by (unfold L; rewrite number_fst; apply seq_NoDup).
    (* the temporaries, in order *)
    destruct (run_seq_spec s _ _ (pend_ok_map pol fe s Lt HLt) t o []) as (o1 & E1). rewrite E1. cbv beta iota zeta.
    (* the plain arguments, in any order: all silent *)
    assert (Hamo : amo (map s_tr (map (spec_of fe s) Lr))) by (unfold amo, Lr; rewrite (silent_rest L); cbn; lia).
    assert (Hndr : NoDup (map s_pos (map (spec_of fe s) Lr))).
    { rewrite map_map. change (fun x => s_pos (spec_of fe s x)) with (fun x : nat * expr => fst x). apply NoDup_map_filter. exact HndL. }
    destruct (run_unseq_spec s (length (map (thunk_of pol fe) Lr)) _ _ (pend_ok_map pol fe s Lr HLr) eq_refl Hamo Hndr
                (rev (concat (map s_tr (map (spec_of fe s) Lt))) ++ t) o1
                (rev (map (fun q => (s_pos q, s_val q)) (map (spec_of fe s) Lt)) ++ [])) as (o2 & acc' & E2 & (V1 & V2)).
    rewrite E2.
    cbv beta iota zeta.
    (* values *)
    assert (Evals : map (fun p : nat * (bool * thunk) => value_at acc' (fst p)) (map g L) = map (val fe s) args).
    { rewrite map_map. change (fun x => value_at acc' (fst (g x))) with (fun x : nat * expr => value_at acc' (fst x)).
      rewrite (values_in_order fe s).
      - apply (map_number_snd (val fe s)).
      - intros p Hp. destruct (has_se pol fe (snd p)) eqn:Ese.
        + (* a temporary *)
          assert (HpLt : In p Lt) by (apply filter_In; split; auto).
          rewrite V2.
          * rewrite app_nil_r. apply value_at_in.
            -- rewrite map_rev, !map_map. cbn [fst]. apply NoDup_rev.
               change (fun x => s_pos (spec_of fe s x)) with (fun x : nat * expr => fst x). apply NoDup_map_filter. exact HndL.
            -- apply -> in_rev. apply in_map_iff. exists (spec_of fe s p). split; [reflexivity|apply in_map; exact HpLt].
          * rewrite map_map. change (fun x => s_pos (spec_of fe s x)) with (fun x : nat * expr => fst x).
            intros Hin. apply in_map_iff in Hin. destruct Hin as (p' & Efst & Hp'). apply filter_In in Hp'. destruct Hp' as (Hp'L & Hn).
            assert (p' = p) by (eapply NoDup_map_inj; eauto). subst p'. rewrite Ese in Hn. discriminate.
        + apply (V1 (spec_of fe s p)). apply in_map. apply filter_In. split; auto. rewrite Ese. reflexivity. }
    exists o2. rewrite Evals, (do_call_nw fe NW). cbn [tr val]. f_equal. f_equal.
    assert (Ec1 : concat (map s_tr (map (spec_of fe s) Lr)) = []) by (apply all_empty_concat; apply (silent_rest L)).
    assert (Ec2 : concat (map s_tr (map (spec_of fe s) Lt)) = flat_map (tr fe s) args).
    { unfold Lt. rewrite (noisy_concat L). unfold L. apply flat_map_number. }
    rewrite Ec1, Ec2. cbn [rev app].
    destruct (f_event (fe f)); [rewrite rev_app_distr; reflexivity|rewrite app_nil_r; reflexivity].
  Qed.

  (* ---- the emitted C, for every choice the C compiler may make ---- *)
  Lemma ceval_spec : forall e t o, exists o',
    ceval fe (comp pol fe e) (s, t) o = ((s, rev (tr fe s e) ++ t), val fe s e, o').
  Proof.
    induction e as [v|k x|f args IH|op l r IHl IHr] using expr_ind'; intros t o.
    - exists o. reflexivity.
    - exists o. reflexivity.
    - assert (Hargs : Forall (arg_ok pol fe s) args).
      { rewrite Forall_forall in *. intros a Ha. unfold arg_ok, tspec. intros t0 o0. apply IH; auto. }
      cbn [comp].
      destruct (2 <=? length (filter (fun b => b) (map (has_se pol fe) args)))%nat eqn:E.
      + apply call_seq; auto.
      + apply call_plain; auto. apply Nat.leb_gt in E. lia.
    - cbn [comp tr val].
      destruct (has_se pol fe l && has_se pol fe r) eqn:E; cbn [ceval].
      + destruct (IHl t o) as (o1 & ->). destruct (IHr (rev (tr fe s l) ++ t) o1) as (o2 & ->).
        exists o2. rewrite rev_app_distr, <- app_assoc. reflexivity.
      + destruct (pick o) as [c o1]. destruct (Nat.even c).
        * destruct (IHl t o1) as (o2 & ->). destruct (IHr (rev (tr fe s l) ++ t) o2) as (o3 & ->).
          exists o3. rewrite rev_app_distr, <- app_assoc. reflexivity.
        * (* right operand first: one of the two is silent *)
          destruct (IHr t o1) as (o2 & ->). destruct (IHl (rev (tr fe s r) ++ t) o2) as (o3 & ->).
          exists o3. apply andb_false_iff in E. destruct E as [E|E].
          -- rewrite (unmarked_silent pol PA fe NW s l E). cbn [rev app]. reflexivity.
          -- rewrite (unmarked_silent pol PA fe NW s r E). rewrite app_nil_r. cbn [rev app]. reflexivity.
  Qed.
End Seq.

(* no function writes a variable (their effects are events and values): for every expression and every order
   the C compiler may choose, the compiled expression leaves the same trace of events and the same value as Lua
   (the store is not written by anybody).  Needs the analyzer fact p_args_propagate: a call takes the `sideeffect`
   attribute of its arguments (/repo 7b4cb3f); without it the statement is false, see args_policy_needed. *)
Theorem order_preserved_partial pol fe e st o :
  p_args_propagate pol = true -> no_writes fe -> nelua_run pol fe e st o = lua_run fe e st.
Proof.
  intros PA NW. destruct st as [s t]. unfold nelua_run, lua_run.
  destruct (ceval_spec pol PA fe NW s e t o) as (o' & ->). rewrite (leval_spec fe NW s e t). reflexivity.
Qed.

(* non-vacuity: g(p(), q(x)) + q(p()) with p, g printing and q silent; no writes *)
Definition fe_ex : fenv := fun f =>
  match f with
  | 1%nat => mk_fdef true [] None 100      (* p: prints *)
  | 2%nat => mk_fdef true [] (Some 0%nat) 0   (* g: prints, adds variable 0 *)
  | _ => mk_fdef false [] None 5           (* q: silent *)
  end.
Definition e_ex : expr :=
  EBin AAdd (ECall 2 [ECall 1 []; ECall 3 [EVar VGlobal 0]; ECall 1 [EConst 7]]) (ECall 3 [EVar VLocal 0]).
Example ex_partial_hyps : no_writes fe_ex.
Proof. intros [|[|[|f]]]; reflexivity. Qed.
Example ex_partial_run : forall b, nelua_run (mk_sep true b) fe_ex e_ex ([3], []) [2%nat; 1%nat] = lua_run fe_ex e_ex ([3], []).
Proof. intros []; reflexivity. Qed.

(* g(h(f(1)), h(f(2))) with h free of side effects (3) and f printing (1), g printing (2): with p_args_propagate
   both arguments are marked and hoisted and every C evaluation order agrees with Lua ... *)
Definition e_wrapped_args : expr := ECall 2 [ECall 3 [ECall 1 [EConst 1]]; ECall 3 [ECall 1 [EConst 2]]].
Lemma wrapped_args_sequenced pol st o : p_args_propagate pol = true ->
  nelua_run pol fe_ex e_wrapped_args st o = lua_run fe_ex e_wrapped_args st.
Proof. intro PA. apply order_preserved_partial; [exact PA|exact ex_partial_hyps]. Qed.
Example wrapped_args_hoisted : forall b, comp (mk_sep true b) fe_ex e_wrapped_args =
  CCallSeq 2 [(true, CCall 3 [CCall 1 [CConst 1]]); (true, CCall 3 [CCall 1 [CConst 2]])].
Proof. intros []; reflexivity. Qed.
(* ... and without it (the analyzer before /repo 7b4cb3f) the same expression, whose functions write nothing, runs
   f(2) before f(1) for some choice of the C compiler: the premise of order_preserved_partial is needed *)
Lemma args_policy_needed pol : p_args_propagate pol = false ->
  no_writes fe_ex /\ exists o, nelua_run pol fe_ex e_wrapped_args ([3], []) o <> lua_run fe_ex e_wrapped_args ([3], []).
Proof.
  intro PA. split; [exact ex_partial_hyps|]. exists [1%nat].
  destruct pol as [a b]. cbn in PA. subst a. destruct b; vm_compute; discriminate.
Qed.
