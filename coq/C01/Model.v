(* C01 - executable models.
   Part A  numbers: what Nelua emits for integer=int64 (Helpers.v instantiated at I64 in the C
           dialect given by the scraped base flags) next to Lua 5.4's definitions (Base.LuaInt,
           lvm.c LTintfloat/LEintfloat/luaV_equalobj for mixed comparisons).
   Part B  numeric for: lvm.c forprep/forloop next to the emitted C loop.
   Part D  one precedence-climbing parser, instantiated with the Lua table and the Nelua ladder.
   (Part C, evaluation order, lives in Order.v.)
   No proofs here. *)
From C01 Require Export Ops Gen Helpers VarDecl.
Local Open Scope Z_scope.

(* ------------------------------------------------------------------ *)
(* Part A: numbers                                                     *)
(* ------------------------------------------------------------------ *)

(* the dialect the emitted C is compiled in by BOTH supported compilers: -fwrapv comes from cdefs.lua's
   cflags_base of gcc and of clang *)
Definition base_mode : cmode := mk_mode (gcc_base_has_fwrapv && clang_base_has_fwrapv) false.

(* run-time operands: not compile-time constants, signed => is_maybe_negative; checks on *)
Definition rt_add := op_add base_mode I64.
Definition rt_sub := op_sub base_mode I64.
Definition rt_mul := op_mul base_mode I64.
Definition rt_band := op_band I64.
Definition rt_bor := op_bor I64.
Definition rt_bxor := op_bxor I64.
Definition rt_unm := op_unm base_mode I64.
Definition rt_bnot := op_bnot I64.
Definition rt_lt := op_lt I64.
Definition rt_le := op_le I64.
Definition rt_eq := op_eq I64.
Definition rt_ne := op_ne I64.
(* does the generator consider a run-time variable of a signed type possibly negative?  Attr:is_maybe_negative
   answers `false` only through the scraped exits; exit 1 needs an unsigned type, exit 2 a compile-time value: neither
   applies to a run-time int64 variable (whatever the analyzer may have inferred about it - a loop counter, a
   local initialised from a constant - it can be assigned a negative value later).  An exit the model does not know
   (a new attribute flag) may apply: the answer is then not known to be `true` and the theorems below break. *)
Definition rt_maybe_negative : bool :=
  idiv_helper_if_either_maybe_negative && forallb (fun a => Nat.eqb a 1 || Nat.eqb a 2) maybe_negative_exits.
Definition rt_idiv (nochecks : bool) := emit_idiv idiv_guard_first base_mode I64 rt_maybe_negative nochecks.
Definition rt_imod (nochecks : bool) := emit_imod imod_guard_first base_mode I64 rt_maybe_negative nochecks.
(* the count is an int64 too (an untyped constant is int64) *)
Definition rt_shl (cnt_comptime : bool) := emit_shl shl_fast_width_left base_mode I64 I64 cnt_comptime.
Definition rt_shr (cnt_comptime : bool) := emit_shr shr_fast_width_left base_mode I64 I64 cnt_comptime.

(* Lua side, as outcomes: a Lua error is OPanic *)
Definition lua_out (o : option Z) : outcome := match o with Some v => ORet v | None => OPanic end.
Definition b2z (b : bool) : Z := if b then 1 else 0.

(* floats (fl, cmp_Z_fl, exact_*, fl_floor, fl_ceil, fl_is_int, rne53) are defined in CSem.v *)

(* lvm.c luaV_flttointns + lua_numbertointeger: Some n when the rounded float fits lua_Integer *)
Definition lua_flttoint (f : fl) (ceil : bool) : option Z :=
  match f with
  | FFin m e => let n := if ceil then fl_ceil m e else fl_floor m e in
                if (minint <=? n) && (n <=? maxint) then Some n else None
  | _ => None
  end.
Definition fl_pos (f : fl) : bool := match f with FInf false => true | FFin m _ => 0 <? m | _ => false end.
Definition fl_neg (f : fl) : bool := match f with FInf true => true | FFin m _ => m <? 0 | _ => false end.

(* l_intfitsf: -2^53 <= i <= 2^53 *)
Definition l_intfitsf (i : Z) : bool := (- 2 ^ 53 <=? i) && (i <=? 2 ^ 53).

(* lvm.c LTintfloat / LEintfloat / LTfloatint / LEfloatint and luaV_equalobj(int,float) *)
Definition lua_lt_if (i : Z) (f : fl) : bool :=
  if l_intfitsf i then exact_lt_if (rne53 i) f
  else match lua_flttoint f true with Some fi => i <? fi | None => fl_pos f end.
Definition lua_le_if (i : Z) (f : fl) : bool :=
  if l_intfitsf i then exact_le_if (rne53 i) f
  else match lua_flttoint f false with Some fi => i <=? fi | None => fl_pos f end.
Definition lua_lt_fi (f : fl) (i : Z) : bool :=
  if l_intfitsf i then exact_lt_fi f (rne53 i)
  else match lua_flttoint f false with Some fi => fi <? i | None => fl_neg f end.
Definition lua_le_fi (f : fl) (i : Z) : bool :=
  if l_intfitsf i then exact_le_fi f (rne53 i)
  else match lua_flttoint f true with Some fi => fi <=? i | None => fl_neg f end.
Definition lua_eq_if (i : Z) (f : fl) : bool :=
  match f with
  | FFin m e => if fl_is_int m e then
                  (let n := fl_floor m e in (minint <=? n) && (n <=? maxint) && (i =? n))
                else false
  | _ => false
  end.

(* what Nelua emits: (a < b) etc. on int64_t and double: the integer is converted to double *)
Definition rt_lt_if (i : Z) (f : fl) : bool := exact_lt_if (rne53 i) f.
Definition rt_le_if (i : Z) (f : fl) : bool := exact_le_if (rne53 i) f.
Definition rt_lt_fi (f : fl) (i : Z) : bool := exact_lt_fi f (rne53 i).
Definition rt_le_fi (f : fl) (i : Z) : bool := exact_le_fi f (rne53 i).
Definition rt_eq_if (i : Z) (f : fl) : bool := exact_eq_if (rne53 i) f.

(* ------------------------------------------------------------------ *)
(* Part B: numeric for                                                 *)
(* ------------------------------------------------------------------ *)

Inductive forprep_res := FPError | FPSkip | FPCount (c : Z).

(* lvm.c forprep for integer init/limit/step (forlimit is the identity on an integer limit) *)
Definition lua_forprep (init limit step : Z) : forprep_res :=
  if step =? 0 then FPError
  else if (if 0 <? step then limit <? init else init <? limit) then FPSkip
  else if 0 <? step then
    let count := (u64 limit - u64 init) mod two64 in
    FPCount (if step =? 1 then count else count / u64 step)
  else
    let count := (u64 init - u64 limit) mod two64 in
    FPCount (count / ((u64 (lneg (ladd step 1)) + 1) mod two64)).

(* OP_FORLOOP: count more iterations, idx = intop(+, idx, step) *)
Fixpoint lua_iter (n : nat) (idx step : Z) : list Z :=
  match n with O => [] | S n' => idx :: lua_iter n' (ladd idx step) step end.

Definition lua_for (init limit step : Z) : option (list Z) :=
  match lua_forprep init limit step with
  | FPError => None
  | FPSkip => Some []
  | FPCount c => Some (lua_iter (S (Z.to_nat c)) init step)
  end.

Inductive loopres := LFuel | LUB | LDone (l : list Z).

Definition lr_cons (i : Z) (r : loopres) : loopres :=
  match r with LDone l => LDone (i :: l) | x => x end.

(* cgenerator.visitors.ForNum:
     for(int64_t i = a, _end = b, _step = s; _step >= 0 ? i <= _end : i >= _end; i += _step)
   (with a compile-time step the comparison is fixed to <= or >=, same truth value) *)
Fixpoint nelua_loop (fuel : nat) (i e s : Z) : loopres :=
  match fuel with
  | O => LFuel
  | S f =>
    if (if 0 <=? s then i <=? e else e <=? i) then
      match op_add base_mode I64 i s with
      | ORet i' => lr_cons i (nelua_loop f i' e s)
      | _ => LUB
      end
    else LDone []
  end.

(* ------------------------------------------------------------------ *)
(* Part D: precedence climbing                                         *)
(* ------------------------------------------------------------------ *)

Inductive tok := TNum (n : Z) | TBin (o : binop) | TUn (u : unop) | TLp | TRp.
Inductive ast := ANum (n : Z) | ABin (o : binop) (l r : ast) | AUn (u : unop) (a : ast) | AParen (a : ast).

(* the limit a sub-expression is parsed under: lparser.c subexpr(ls, v, limit) is called with
   0, priority[op].right or UNARY_PRIORITY *)
Inductive limit := L0 | LR (o : binop) | LU.

(* a grammar, seen through the only question subexpr asks: priority[op].left > limit ? *)
Definition table := binop -> limit -> bool.

Definition lua_limit (l : limit) : Z := match l with L0 => 0 | LR o => lua_right o | LU => lua_unary end.
Definition lua_table : table := fun o l => lua_limit l <? lua_left o.

(* the PEG ladder: an operator of rule number k continues a sub-expression parsed at rule r iff
   k >= r; the operand after an operator is parsed at its operand rule, the operand of a unary
   operator at the unary operand rule, a whole expression at rule 1.  *)
Definition nelua_limit (l : limit) : Z :=
  match l with L0 => 1 | LR o => nelua_operand_level o | LU => nelua_unary_operand_level end.
Definition nelua_table : table := fun o l => nelua_limit l <=? nelua_level o.

Inductive presult := PErr | PFuel | POk (a : ast) (rest : list tok).

(* lparser.c subexpr / simpleexp restricted to numbers, operators and parentheses:
     subexpr(limit) = (simpleexp | unop subexpr(UNARY)) { binop subexpr(right) }   *)
Fixpoint subexpr (tb : table) (fuel : nat) (lim : limit) (ts : list tok) : presult :=
  match fuel with
  | O => PFuel
  | S f =>
    let head :=
      match ts with
      | TNum n :: r => POk (ANum n) r
      | TUn u :: r => match subexpr tb f LU r with POk a r' => POk (AUn u a) r' | x => x end
      | TLp :: r => match subexpr tb f L0 r with
                    | POk a (TRp :: r') => POk (AParen a) r'
                    | POk _ _ => PErr
                    | x => x
                    end
      | _ => PErr
      end in
    match head with
    | POk a r => binloop tb f lim a r
    | x => x
    end
  end
with binloop (tb : table) (fuel : nat) (lim : limit) (lhs : ast) (ts : list tok) : presult :=
  match fuel with
  | O => PFuel
  | S f =>
    match ts with
    | TBin o :: r =>
      if tb o lim then
        match subexpr tb f (LR o) r with
        | POk rhs r' => binloop tb f lim (ABin o lhs rhs) r'
        | x => x
        end
      else POk lhs ts
    | _ => POk lhs ts
    end
  end.

(* `-` and `~` are both unary and binary: the token list is classified by position *)
Definition climb (tb : table) (ts : list tok) : presult :=
  match subexpr tb (2 * length ts + 2) L0 ts with
  | POk a [] => POk a []
  | POk _ _ => PErr
  | x => x
  end.

Definition all_limits : list limit := L0 :: LU :: map LR all_binops.
Definition tables_agree_b : bool :=
  forallb (fun o => forallb (fun l => Bool.eqb (nelua_table o l) (lua_table o l)) all_limits) all_binops.

(* ------------------------------------------------------------------ *)
(* bounded observers used by the correspondence driver                 *)
(* ------------------------------------------------------------------ *)

(* first [cap] iteration values of the Lua loop, and whether the loop has ended by then *)
Definition lua_for_prefix (cap : nat) (init limit step : Z) : option (list Z * bool) :=
  match lua_forprep init limit step with
  | FPError => None
  | FPSkip => Some ([], true)
  | FPCount c =>
    let n := Z.to_nat (Z.min (Z.of_nat cap) (c + 1)) in
    Some (lua_iter n init step, Z.of_nat cap >=? c + 1)
  end.

(* first [cap] iteration values of the emitted C loop, whether it ended within cap iterations,
   and whether UB was met *)
Fixpoint nelua_prefix (cap : nat) (i e s : Z) : list Z * bool * bool :=
  match cap with
  | O => ([], negb (if 0 <=? s then i <=? e else e <=? i), false)
  | S f =>
    if (if 0 <=? s then i <=? e else e <=? i) then
      match op_add base_mode I64 i s with
      | ORet i' => let '(l, ended, ub) := nelua_prefix f i' e s in (i :: l, ended, ub)
      | _ => ([i], false, true)
      end
    else ([], true, false)
  end.
