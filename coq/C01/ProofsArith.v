From C01 Require Import Model.
Local Open Scope Z_scope.

Lemma base_wrapv : m_wrapv base_mode = true.
Proof. reflexivity. Qed.

Lemma uac_I64 : uac I64 I64 = I64. Proof. reflexivity. Qed.
Lemma cw64 v : cwrap I64 v = wrap64 v. Proof. reflexivity. Qed.
Lemma cwu64 v : cwrap U64 v = v mod two64. Proof. reflexivity. Qed.
Lemma isg64 : isigned I64 = true. Proof. reflexivity. Qed.
Lemma wrap64_idem x : wrap64 (wrap64 x) = wrap64 x.
Proof. apply wrap64_id, wrap64_range. Qed.

Ltac s64 := repeat match goal with |- context [cwrap I64 ?x] => change (cwrap I64 x) with (wrap64 x) end.

Lemma arith_I64 r : arith_result base_mode I64 r = Some (I64, wrap64 r).
Proof.
  unfold arith_result. rewrite isg64, base_wrapv, cw64.
  destruct (in_ityb I64 r) eqn:E; [|reflexivity].
  rewrite wrap64_id; [reflexivity|]. apply (proj1 (in_ity_I64 r)). apply (proj1 (in_ityb_spec I64 r)). exact E.
Qed.

Lemma ret_I64 t v : ret I64 (Some (t, v)) = ORet (wrap64 v).
Proof. reflexivity. Qed.

Lemma rt_add_ok a b : in_i64 a -> in_i64 b -> rt_add a b = ORet (ladd a b).
Proof.
  intros Ha Hb. unfold rt_add, op_add, c_add, c_arith. cbn [fst snd]. rewrite uac_I64; s64.
  rewrite (wrap64_id a Ha), (wrap64_id b Hb), arith_I64, ret_I64, wrap64_idem. reflexivity.
Qed.
Lemma rt_sub_ok a b : in_i64 a -> in_i64 b -> rt_sub a b = ORet (lsub a b).
Proof.
  intros Ha Hb. unfold rt_sub, op_sub, c_sub, c_arith. cbn [fst snd]. rewrite uac_I64; s64.
  rewrite (wrap64_id a Ha), (wrap64_id b Hb), arith_I64, ret_I64, wrap64_idem. reflexivity.
Qed.
Lemma rt_mul_ok a b : in_i64 a -> in_i64 b -> rt_mul a b = ORet (lmul a b).
Proof.
  intros Ha Hb. unfold rt_mul, op_mul, c_mul, c_arith. cbn [fst snd]. rewrite uac_I64; s64.
  rewrite (wrap64_id a Ha), (wrap64_id b Hb), arith_I64, ret_I64, wrap64_idem. reflexivity.
Qed.
Lemma rt_unm_ok a : in_i64 a -> rt_unm a = ORet (lneg a).
Proof.
  intros Ha. unfold rt_unm, op_unm, c_neg. cbn [fst snd]. change (promote I64) with I64.
  s64; rewrite (wrap64_id a Ha), arith_I64, ret_I64, wrap64_idem. reflexivity.
Qed.

(* bitwise: closure of the signed 64-bit range *)
Lemma in_i64_hi x : in_i64 x <-> (Z.shiftr x 63 = 0 \/ Z.shiftr x 63 = -1).
Proof.
  rewrite Z.shiftr_div_pow2 by lia. change (2 ^ 63) with two63.
  unfold in_i64, minint, maxint, two63. lia.
Qed.
Lemma in_i64_land a b : in_i64 a -> in_i64 b -> in_i64 (Z.land a b).
Proof.
  rewrite !in_i64_hi, Z.shiftr_land. intros [->| ->] [->| ->]; cbn; auto.
Qed.
Lemma in_i64_lor a b : in_i64 a -> in_i64 b -> in_i64 (Z.lor a b).
Proof.
  rewrite !in_i64_hi, Z.shiftr_lor. intros [->| ->] [->| ->]; cbn; auto.
Qed.
Lemma in_i64_lxor a b : in_i64 a -> in_i64 b -> in_i64 (Z.lxor a b).
Proof.
  rewrite !in_i64_hi, Z.shiftr_lxor. intros [->| ->] [->| ->]; cbn; auto.
Qed.

Lemma rt_band_ok a b : in_i64 a -> in_i64 b -> rt_band a b = ORet (lband a b).
Proof.
  intros Ha Hb. unfold rt_band, op_band, c_band, c_bitop. cbn [fst snd]. rewrite uac_I64; s64.
  rewrite (wrap64_id a Ha), (wrap64_id b Hb), ret_I64, wrap64_idem.
  rewrite wrap64_id by (apply in_i64_land; assumption). reflexivity.
Qed.
Lemma rt_bor_ok a b : in_i64 a -> in_i64 b -> rt_bor a b = ORet (lbor a b).
Proof.
  intros Ha Hb. unfold rt_bor, op_bor, c_bor, c_bitop. cbn [fst snd]. rewrite uac_I64; s64.
  rewrite (wrap64_id a Ha), (wrap64_id b Hb), ret_I64, wrap64_idem.
  rewrite wrap64_id by (apply in_i64_lor; assumption). reflexivity.
Qed.
Lemma rt_bxor_ok a b : in_i64 a -> in_i64 b -> rt_bxor a b = ORet (lbxor a b).
Proof.
  intros Ha Hb. unfold rt_bxor, op_bxor, c_bxor, c_bitop. cbn [fst snd]. rewrite uac_I64; s64.
  rewrite (wrap64_id a Ha), (wrap64_id b Hb), ret_I64, wrap64_idem.
  rewrite wrap64_id by (apply in_i64_lxor; assumption). reflexivity.
Qed.
Lemma rt_bnot_ok a : in_i64 a -> rt_bnot a = ORet (lbnot a).
Proof.
  intros Ha. unfold rt_bnot, op_bnot, c_bnot. cbn [fst snd]. change (promote I64) with I64.
  s64; rewrite (wrap64_id a Ha), ret_I64, wrap64_idem.
  rewrite wrap64_id; [reflexivity|]. unfold Z.lnot, in_i64, minint, maxint, two63 in *. lia.
Qed.

Lemma ret_I8_b2z (b : bool) : ret I8 (Some (I32, if b then 1 else 0)) = ORet (b2z b).
Proof. destruct b; reflexivity. Qed.

Lemma rt_cmp_ok f a b : in_i64 a -> in_i64 b -> ret I8 (c_cmp f (I64, a) (I64, b)) = ORet (b2z (f a b)).
Proof.
  intros Ha Hb. unfold c_cmp. cbn [fst snd]. rewrite uac_I64; s64; rewrite (wrap64_id a Ha), (wrap64_id b Hb).
  apply ret_I8_b2z.
Qed.
