From C01 Require Import Model ProofsArith ProofsDiv ProofsShift.
Local Open Scope Z_scope.
Ltac Zify.zify_post_hook ::= Z.div_mod_to_equations.

(* ---- mixed comparisons ---- *)
Definition mixed_cmp_eq_full : Prop :=
  forall i f, in_i64 i ->
    rt_lt_if i f = lua_lt_if i f /\ rt_le_if i f = lua_le_if i f /\
    rt_lt_fi f i = lua_lt_fi f i /\ rt_le_fi f i = lua_le_fi f i /\ rt_eq_if i f = lua_eq_if i f.

Lemma mixed_cmp_refuted : ~ mixed_cmp_eq_full.
Proof.
  intros H. specialize (H (2 ^ 53 + 1) (FFin (2 ^ 52) 1)).
  destruct H as (_ & H & _); [vm_compute; split; discriminate|].
  vm_compute in H. discriminate.
Qed.

Lemma rne53_small i : Z.abs i <= 2 ^ 53 -> rne53 i = i.
Proof.
  intros H. unfold rne53. destruct (Z.abs i <? 2 ^ 53) eqn:E; [reflexivity|].
  change (2 ^ 53) with 9007199254740992 in *.
  assert (i = 9007199254740992 \/ i = - 9007199254740992) as [-> | ->] by lia; vm_compute; reflexivity.
Qed.

Lemma fits_abs i : l_intfitsf i = true <-> Z.abs i <= 2 ^ 53.
Proof. unfold l_intfitsf. change (2 ^ 53) with 9007199254740992. lia. Qed.

Lemma mixed_lt_le_partial i f : Z.abs i <= 2 ^ 53 ->
  rt_lt_if i f = lua_lt_if i f /\ rt_le_if i f = lua_le_if i f /\
  rt_lt_fi f i = lua_lt_fi f i /\ rt_le_fi f i = lua_le_fi f i.
Proof.
  intros H. apply fits_abs in H. unfold lua_lt_if, lua_le_if, lua_lt_fi, lua_le_fi. rewrite H. auto.
Qed.

Lemma mixed_eq_partial i f : in_i64 i -> Z.abs i <= 2 ^ 53 -> rt_eq_if i f = lua_eq_if i f.
Proof.
  intros Hi H. unfold rt_eq_if, lua_eq_if, exact_eq_if. rewrite (rne53_small i H).
  destruct f as [|n|m e]; cbn [cmp_Z_fl]; try reflexivity; [destruct n; reflexivity|].
  unfold fl_is_int, fl_floor. destruct (0 <=? e) eqn:E.
  - set (v := m * 2 ^ e) in *. clearbody v. unfold in_i64 in Hi. destruct (i ?= v) eqn:C; cbv iota.
    + apply Z.compare_eq in C. subst i. symmetry. lia.
    + change (i < v) in C. symmetry. lia.
    + apply Z.compare_gt_iff in C. change (v < i) in C. symmetry. lia.
  - assert (0 < 2 ^ (- e)) by (apply pow2_pos; lia).
    destruct (m mod 2 ^ (- e) =? 0) eqn:Em.
    + destruct (i * 2 ^ (- e) ?= m) eqn:C; cbv iota.
      * apply Z.compare_eq in C. subst m. rewrite Z.div_mul by lia. unfold in_i64 in Hi. symmetry. lia.
      * change (i * 2 ^ (- e) < m) in C. symmetry.
        assert (m = 2 ^ (- e) * (m / 2 ^ (- e))) by (pose proof (Z.div_mod m (2 ^ (- e))); lia). nia.
      * apply Z.compare_gt_iff in C. change (m < i * 2 ^ (- e)) in C. symmetry.
        assert (m = 2 ^ (- e) * (m / 2 ^ (- e))) by (pose proof (Z.div_mod m (2 ^ (- e))); lia). nia.
    + destruct (i * 2 ^ (- e) ?= m) eqn:C; cbv iota; try reflexivity.
      apply Z.compare_eq in C. subst m. rewrite Z.mod_mul in Em by lia. discriminate.
Qed.

(* ---- numeric for ---- *)
Lemma op_add_I64 a b : in_i64 a -> in_i64 b -> op_add base_mode I64 a b = ORet (ladd a b).
Proof. apply rt_add_ok. Qed.

Lemma loop_never_ends fuel : forall i, in_i64 i -> nelua_loop fuel i maxint 1 = LFuel.
Proof.
  induction fuel; intros i Hi; [reflexivity|].
  cbn [nelua_loop]. replace (0 <=? 1) with true by reflexivity.
  replace (i <=? maxint) with true by (unfold in_i64 in Hi; lia).
  rewrite op_add_I64 by (auto; unfold in_i64, minint, maxint, two63; lia).
  rewrite IHfuel by apply wrap64_range. reflexivity.
Qed.

Definition fornum_eq_full : Prop :=
  forall a b s, in_i64 a -> in_i64 b -> in_i64 s -> s <> 0 ->
    exists fuel l, nelua_loop fuel a b s = LDone l /\ lua_for a b s = Some l.

Lemma fornum_refuted : ~ fornum_eq_full.
Proof.
  intros H. destruct (H (maxint - 1) maxint 1) as (fuel & l & H1 & _);
    try (unfold in_i64, minint, maxint, two63; lia).
  rewrite loop_never_ends in H1 by (unfold in_i64, minint, maxint, two63; lia). discriminate.
Qed.

(* ---- precedence ---- *)
Lemma tables_agree_vm : tables_agree_b = true.
Proof. vm_compute. reflexivity. Qed.

Lemma all_limits_complete l : In l all_limits.
Proof.
  destruct l; unfold all_limits; cbn [In]; auto.
  right. right. apply in_map, all_binops_complete.
Qed.

Lemma tables_pointwise o l : nelua_table o l = lua_table o l.
Proof.
  pose proof tables_agree_vm as H. unfold tables_agree_b in H.
  rewrite forallb_forall in H. specialize (H o (all_binops_complete o)).
  rewrite forallb_forall in H. specialize (H l (all_limits_complete l)).
  apply eqb_prop in H. exact H.
Qed.

Lemma subexpr_ext tb1 tb2 : (forall o l, tb1 o l = tb2 o l) ->
  forall fuel, (forall lim ts, subexpr tb1 fuel lim ts = subexpr tb2 fuel lim ts) /\
               (forall lim lhs ts, binloop tb1 fuel lim lhs ts = binloop tb2 fuel lim lhs ts).
Proof.
  intros H. induction fuel as [|f [IH1 IH2]]; [split; reflexivity|].
  split.
  - intros lim ts. cbn [subexpr]. destruct ts as [|[n|o|u| |] r]; try reflexivity.
    + apply IH2.
    + rewrite IH1. destruct (subexpr tb2 f LU r); try reflexivity. apply IH2.
    + rewrite IH1. destruct (subexpr tb2 f L0 r) as [| |a [|[]]]; try reflexivity. apply IH2.
  - intros lim lhs ts. cbn [binloop]. destruct ts as [|[n|o|u| |] r]; try reflexivity.
    rewrite H. destruct (tb2 o lim); [|reflexivity].
    rewrite IH1. destruct (subexpr tb2 f (LR o) r); try reflexivity. apply IH2.
Qed.

Lemma climb_tables_agree ts : climb nelua_table ts = climb lua_table ts.
Proof.
  unfold climb. rewrite (proj1 (subexpr_ext _ _ tables_pointwise _)). reflexivity.
Qed.

(* ---- wrappers used by Properties.v ---- *)
Lemma rt_idiv_ok nochecks a b : in_i64 a -> in_i64 b -> b <> 0 -> rt_idiv nochecks a b = lua_out (lidiv a b).
Proof.
  intros. unfold rt_idiv, emit_idiv, emitted_idiv_helper, lidiv. change rt_maybe_negative with true. change idiv_guard_first with true. cbn [orb].
  replace (b =? 0) with false by lia. apply h_idiv_I64; auto.
Qed.
Lemma rt_imod_ok nochecks a b : in_i64 a -> in_i64 b -> b <> 0 -> rt_imod nochecks a b = lua_out (lmod a b).
Proof.
  intros. unfold rt_imod, emit_imod, emitted_imod_helper, lmod. change rt_maybe_negative with true. change imod_guard_first with true. cbn [orb].
  replace (b =? 0) with false by lia. apply h_imod_I64; auto.
Qed.
(* the dependence on the scraped fact, for every answer of Attr:is_maybe_negative: the emitted `//` and `%` of
   run-time int64 operands are Lua's for all operands exactly when the operand is treated as possibly negative (the
   floor helpers); treated as non-negative, the bare C operators truncate: -7 // 2 = -3, -7 % 2 = -1 (Lua -4, 1) *)
Lemma idiv_maybe_negative_iff mn :
  (forall nochecks a b, in_i64 a -> in_i64 b -> b <> 0 ->
     emit_idiv idiv_guard_first base_mode I64 mn nochecks a b = lua_out (lidiv a b) /\
     emit_imod imod_guard_first base_mode I64 mn nochecks a b = lua_out (lmod a b)) <-> mn = true.
Proof.
  split.
  - intro H. destruct mn; [reflexivity|]. destruct (H false (-7) 2) as [H1 _]; [vm_compute; split; discriminate|vm_compute; split; discriminate|discriminate|].
    vm_compute in H1. discriminate H1.
  - intros -> nochecks a b Ha Hb H0. split; [apply (rt_idiv_ok nochecks a b Ha Hb H0)|apply (rt_imod_ok nochecks a b Ha Hb H0)].
Qed.
Example idiv_not_maybe_negative_truncates :
  emit_idiv idiv_guard_first base_mode I64 false false (-7) 2 = ORet (-3) /\ lua_out (lidiv (-7) 2) = ORet (-4) /\
  emit_imod imod_guard_first base_mode I64 false false (-7) 2 = ORet (-1) /\ lua_out (lmod (-7) 2) = ORet 1.
Proof. vm_compute. repeat split; reflexivity. Qed.
Lemma rt_div_zero a : in_i64 a ->
  rt_idiv false a 0 = lua_out (lidiv a 0) /\ rt_imod false a 0 = lua_out (lmod a 0).
Proof. intros. split; reflexivity. Qed.
Lemma rt_cmps_ok a b : in_i64 a -> in_i64 b ->
  rt_lt a b = ORet (b2z (llt a b)) /\ rt_le a b = ORet (b2z (lle a b)) /\
  rt_eq a b = ORet (b2z (a =? b)) /\ rt_ne a b = ORet (b2z (negb (a =? b))).
Proof.
  intros Ha Hb. unfold rt_lt, rt_le, rt_eq, rt_ne, op_lt, op_le, op_eq, op_ne, c_lt, c_le, c_eq, c_ne, llt, lle.
  rewrite !rt_cmp_ok by auto. auto.
Qed.
Lemma mixed_cmp_partial i f : in_i64 i -> Z.abs i <= 2 ^ 53 ->
  rt_lt_if i f = lua_lt_if i f /\ rt_le_if i f = lua_le_if i f /\
  rt_lt_fi f i = lua_lt_fi f i /\ rt_le_fi f i = lua_le_fi f i /\ rt_eq_if i f = lua_eq_if i f.
Proof.
  intros Hi H. destruct (mixed_lt_le_partial i f H) as (A & B & C & D).
  repeat split; auto. apply mixed_eq_partial; auto.
Qed.

(* non-vacuity *)
Example ex_idiv : rt_idiv false (-7) 2 = ORet (-4). Proof. reflexivity. Qed.
Example ex_shl : rt_shl false 1 64 = ORet 0 /\ rt_shl false (-1) (-1) = ORet maxint. Proof. split; reflexivity. Qed.
Example ex_for : lua_for (maxint - 1) maxint 1 = Some [maxint - 1; maxint]. Proof. reflexivity. Qed.
Example ex_climb : climb lua_table [TNum 1; TBin OpAdd; TNum 2; TBin OpMul; TNum 3] =
  POk (ABin OpAdd (ANum 1) (ABin OpMul (ANum 2) (ANum 3))) [].
Proof. reflexivity. Qed.

(* ---------- facts about the scraped ladder that the climb model relies on ---------- *)
(* every operand position (after a binary operator, after a unary operator, a whole expression) starts at or
   below the unary rule, so a unary prefix is accepted there, as lparser.c subexpr accepts one under any limit;
   the unary rule parses its own operand (`-` `-` x); every operator sits at or above the first rule *)
Lemma ladder_facts :
  (forall l, nelua_limit l <= nelua_unary_level) /\ nelua_unary_operand_level = nelua_unary_level /\
  (forall o, 1 <= nelua_level o) /\ (forall o, nelua_level o < nelua_operand_level o \/ nelua_operand_level o <= nelua_level o).
Proof.
  repeat split.
  - intros [|o|]; [|destruct o|]; vm_compute; discriminate.
  - intros o; destruct o; vm_compute; discriminate.
  - intros o; destruct o; vm_compute; (left; reflexivity) || (right; discriminate).
Qed.

(* ---------- order of the effects of `local v1, .., vn = e1, .., em` (VarDecl.v) ---------- *)
(* since /repo d685d37 and f54f9c0 both kinds of statements go to defemitter (scraped): source order *)
Lemma vardecl_order_src : vardecl_order_src_full vardecl_policy.
Proof. apply vd_src_iff. split; reflexivity. Qed.
Example vardecl_witnesses :
  vd_effects vardecl_policy false wit_dead_later = src_effects wit_dead_later /\
  vd_effects vardecl_policy false wit_asgnret = src_effects wit_asgnret /\ src_effects wit_asgnret = [1%nat; 2%nat].
Proof. repeat split; reflexivity. Qed.
