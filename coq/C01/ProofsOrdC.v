From C01 Require Import Order ProofsOrdA ProofsOrdB.
Local Open Scope Z_scope.

Lemma number_fst {A} (l : list A) : forall k, map fst (number k l) = seq k (length l).
Proof. induction l as [|a l IH]; intros k; [reflexivity|]. cbn. f_equal. apply IH. Qed.
Lemma number_snd {A} (l : list A) : forall k, map snd (number k l) = l.
Proof. induction l as [|a l IH]; intros k; [reflexivity|]. cbn. f_equal. apply IH. Qed.
Lemma number_map {A B} (g : A -> B) (l : list A) : forall k,
  number k (map g l) = map (fun p => (fst p, g (snd p))) (number k l).
Proof. induction l as [|a l IH]; intros k; [reflexivity|]. cbn. f_equal. apply IH. Qed.
Lemma map_number_snd {A B} (g : A -> B) (l : list A) : forall k, map (fun p => g (snd p)) (number k l) = map g l.
Proof. induction l as [|a l IH]; intros k; [reflexivity|]. cbn. f_equal. apply IH. Qed.
Lemma number_length {A} (l : list A) k : length (number k l) = length l.
Proof. revert k. induction l; intros; cbn; auto. Qed.

Lemma NoDup_map_filter {A B} (f : A -> B) (P : A -> bool) (l : list A) : NoDup (map f l) -> NoDup (map f (filter P l)).
Proof.
  induction l as [|a l IH]; intros H; [constructor|]. cbn [map filter] in *. inversion H; subst.
  destruct (P a); [|auto]. cbn [map]. constructor; auto.
  intros Hin. apply H2. apply in_map_iff in Hin. destruct Hin as (x & E & Hx). apply filter_In in Hx.
  apply in_map_iff. exists x. tauto.
Qed.

Section Main.
  Variable pol : se_policy.
  Hypothesis PA : p_args_propagate pol = true.
  Variable fe : fenv.
  Hypothesis NW : no_writes fe.
  Variable s : store.

  Definition thunk_of (p : nat * expr) : nat * thunk := (fst p, ceval fe (comp pol fe (snd p))).
  Definition spec_of (p : nat * expr) : spec := (fst p, (tr fe s (snd p), val fe s (snd p))).
  Definition arg_ok (a : expr) : Prop := tspec s (ceval fe (comp pol fe a)) (tr fe s a) (val fe s a).

  Lemma pend_ok_map (L : list (nat * expr)) : Forall (fun p => arg_ok (snd p)) L -> pend_ok s (map thunk_of L) (map spec_of L).
  Proof. induction 1 as [|[i a] L H _ IH]; cbn [map]; constructor; auto. Qed.

  Lemma Forall_number args k : Forall arg_ok args -> Forall (fun p => arg_ok (snd p)) (number k args).
  Proof. intros H. revert k. induction H; intros k; cbn; constructor; auto. Qed.

  (* values collected per position give back the argument values in order *)
  Lemma values_in_order acc' (L : list (nat * expr)) :
    (forall p, In p L -> value_at acc' (fst p) = val fe s (snd p)) ->
    map (fun p => value_at acc' (fst p)) L = map (fun p => val fe s (snd p)) L.
  Proof. intros H. apply map_ext_in. exact H. Qed.

  (* at most one marked argument and silent unmarked ones => at most one noisy trace *)
  Lemma amo_args args : (length (filter (fun b => b) (map (has_se pol fe) args)) < 2)%nat ->
    amo (map (tr fe s) args).
  Proof.
    unfold amo. intros H.
    assert (G : (length (filter nonempty (map (tr fe s) args)) <= length (filter (fun b => b) (map (has_se pol fe) args)))%nat).
    { clear H. induction args as [|a args IH]; [cbn; lia|]. cbn [map filter].
      destruct (has_se pol fe a) eqn:E.
      - destruct (nonempty (tr fe s a)); cbn [length]; lia.
      - rewrite (unmarked_silent pol PA fe NW s a E). cbn [nonempty]. exact IH. }
    lia.
  Qed.

  Lemma mk_thunks (l : list cexpr) :
    (fix mk (l : list cexpr) : list thunk := match l with [] => [] | a :: r => ceval fe a :: mk r end) l = map (ceval fe) l.
  Proof. induction l; cbn; congruence. Qed.

  Lemma call_plain f args t o :
    Forall arg_ok args ->
    (length (filter (fun b => b) (map (has_se pol fe) args)) < 2)%nat ->
    exists o', ceval fe (CCall f (map (comp pol fe) args)) (s, t) o =
               ((s, rev (tr fe s (ECall f args)) ++ t), val fe s (ECall f args), o').
  Proof.
    intros Hargs Hcount. cbn [ceval]. rewrite mk_thunks, map_map.
    set (L := number O args).
    assert (Eths : number O (map (fun x => ceval fe (comp pol fe x)) args) = map thunk_of L).
    { unfold L. rewrite number_map. reflexivity. }
    rewrite Eths.
    pose proof (pend_ok_map L (Forall_number args O Hargs)) as Hok.
    assert (Hamo : amo (map s_tr (map spec_of L))).
    { rewrite map_map. unfold L. replace (map (fun x => s_tr (spec_of x)) (number O args)) with (map (tr fe s) args).
      - apply amo_args; auto.
      - symmetry. apply (map_number_snd (tr fe s)). }
    assert (Hnd : NoDup (map s_pos (map spec_of L))).
    { rewrite map_map. change (fun x => s_pos (spec_of x)) with (fun x : nat * expr => fst x). unfold L. rewrite number_fst. apply seq_NoDup. }
    destruct (run_unseq_spec s (length (map thunk_of L)) _ _ Hok eq_refl Hamo Hnd t o []) as (o' & acc' & E & (V1 & _)).
    rewrite E. cbv beta iota zeta.
    assert (Evals : map (fun p : nat * thunk => value_at acc' (fst p)) (map thunk_of L) = map (val fe s) args).
    { rewrite map_map. change (fun x => value_at acc' (fst (thunk_of x))) with (fun x : nat * expr => value_at acc' (fst x)).
      rewrite values_in_order.
      - apply (map_number_snd (val fe s)).
      - intros p Hp. apply (V1 (spec_of p)). apply in_map. exact Hp. }
    rewrite Evals, (do_call_nw fe NW). exists o'. cbn [tr val]. f_equal. f_equal.
    assert (Ecat : concat (map s_tr (map spec_of L)) = flat_map (tr fe s) args).
    { rewrite map_map, flat_map_concat_map. f_equal. apply (map_number_snd (tr fe s)). }
    rewrite Ecat. destruct (f_event (fe f)); [rewrite rev_app_distr; reflexivity|rewrite app_nil_r; reflexivity].
  Qed.
End Main.
