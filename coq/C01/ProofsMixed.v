From C01 Require Import Model ProofsArith ProofsMisc.
Local Open Scope Z_scope.
Ltac Zify.zify_post_hook ::= Z.div_mod_to_equations.

(* Lua's int/float comparison (lvm.c LTintfloat, LEintfloat, LTfloatint, LEfloatint) is exact *)
Lemma fits_rne i : l_intfitsf i = true -> rne53 i = i.
Proof. intros H. apply rne53_small, fits_abs, H. Qed.

Lemma ceil_spec m k i : 0 < k -> (i < - ((- m) / k) <-> i * k < m).
Proof.
  intros Hk. pose proof (Z.div_mod (- m) k ltac:(lia)). pose proof (Z.mod_pos_bound (- m) k Hk). nia.
Qed.
Lemma floor_spec m k i : 0 < k -> (i <= m / k <-> i * k <= m).
Proof.
  intros Hk. pose proof (Z.div_mod m k ltac:(lia)). pose proof (Z.mod_pos_bound m k Hk). nia.
Qed.

Lemma cmp_lt_iff a b : (match a ?= b with Lt => true | _ => false end) = (a <? b).
Proof. rewrite Z.ltb_compare. destruct (a ?= b); reflexivity. Qed.
Lemma cmp_le_iff a b : (match a ?= b with Lt | Eq => true | _ => false end) = (a <=? b).
Proof. rewrite Z.leb_compare. destruct (a ?= b); reflexivity. Qed.

Lemma lua_lt_if_exact i f : in_i64 i -> lua_lt_if i f = exact_lt_if i f.
Proof.
  intros Hi. unfold lua_lt_if. destruct (l_intfitsf i) eqn:F; [rewrite (fits_rne i F); reflexivity|].
  unfold exact_lt_if, lua_flttoint, fl_pos. destruct f as [|n|m e]; cbn [cmp_Z_fl]; [reflexivity|destruct n; reflexivity|].
  unfold fl_ceil. destruct (0 <=? e) eqn:E.
  - rewrite cmp_lt_iff. set (v := m * 2 ^ e).
    assert (Hv : (0 <? m) = (0 <? v)).
    { unfold v. pose proof (pow2_pos e ltac:(lia)). destruct (0 <? m) eqn:Em; symmetry; nia. }
    rewrite Hv. destruct ((minint <=? v) && (v <=? maxint)) eqn:R; [reflexivity|].
    unfold in_i64, minint, maxint, two63 in *. lia.
  - rewrite cmp_lt_iff. set (k := 2 ^ (- e)). assert (Hk : 0 < k) by (apply pow2_pos; lia).
    set (c := - (- m / k)). pose proof (ceil_spec m k i Hk) as Hc. fold c in Hc.
    destruct ((minint <=? c) && (c <=? maxint)) eqn:R.
    + destruct (i <? c) eqn:E1; destruct (i * k <? m) eqn:E2; try reflexivity; exfalso; lia.
    + (* the rounded float does not fit: decided by its sign *)
      unfold in_i64, minint, maxint, two63 in *.
      assert (Hs : (0 < m -> 0 < c) /\ (m <= 0 -> c <= 0)).
      { unfold c. pose proof (Z.div_mod (- m) k ltac:(lia)). pose proof (Z.mod_pos_bound (- m) k Hk). split; nia. }
      destruct (0 <? m) eqn:Em; destruct (i * k <? m) eqn:E2; try reflexivity; exfalso; lia.
Qed.

Lemma lua_le_if_exact i f : in_i64 i -> lua_le_if i f = exact_le_if i f.
Proof.
  intros Hi. unfold lua_le_if. destruct (l_intfitsf i) eqn:F; [rewrite (fits_rne i F); reflexivity|].
  unfold exact_le_if, lua_flttoint, fl_pos. destruct f as [|n|m e]; cbn [cmp_Z_fl]; [reflexivity|destruct n; reflexivity|].
  unfold fl_floor. destruct (0 <=? e) eqn:E.
  - rewrite cmp_le_iff. set (v := m * 2 ^ e).
    assert (Hv : (0 <? m) = (0 <? v)).
    { unfold v. pose proof (pow2_pos e ltac:(lia)). destruct (0 <? m) eqn:Em; symmetry; nia. }
    rewrite Hv. destruct ((minint <=? v) && (v <=? maxint)) eqn:R; [reflexivity|].
    unfold in_i64, minint, maxint, two63 in *. lia.
  - rewrite cmp_le_iff. set (k := 2 ^ (- e)). assert (Hk : 0 < k) by (apply pow2_pos; lia).
    set (c := m / k). pose proof (floor_spec m k i Hk) as Hc. fold c in Hc.
    destruct ((minint <=? c) && (c <=? maxint)) eqn:R.
    + destruct (i <=? c) eqn:E1; destruct (i * k <=? m) eqn:E2; try reflexivity; exfalso; lia.
    + unfold in_i64, minint, maxint, two63 in *.
      assert (Hs : (0 < m -> 0 <= c) /\ (m <= 0 -> c <= 0)).
      { unfold c. pose proof (Z.div_mod m k ltac:(lia)). pose proof (Z.mod_pos_bound m k Hk). split; nia. }
      destruct (0 <? m) eqn:Em; destruct (i * k <=? m) eqn:E2; try reflexivity; exfalso; lia.
Qed.

(* float on the left: LTfloatint / LEfloatint *)
Lemma cmp_gt_iff a b : (match a ?= b with Gt => true | _ => false end) = (b <? a).
Proof. rewrite Z.ltb_compare, (Z.compare_antisym a b). destruct (a ?= b); reflexivity. Qed.
Lemma cmp_ge_iff a b : (match a ?= b with Gt | Eq => true | _ => false end) = (b <=? a).
Proof. rewrite Z.leb_compare, (Z.compare_antisym a b). destruct (a ?= b); reflexivity. Qed.
Lemma floor_lt_spec m k i : 0 < k -> (m / k < i <-> m < i * k).
Proof.
  intros Hk. pose proof (Z.div_mod m k ltac:(lia)). pose proof (Z.mod_pos_bound m k Hk). nia.
Qed.
Lemma ceil_le_spec m k i : 0 < k -> (- ((- m) / k) <= i <-> m <= i * k).
Proof.
  intros Hk. pose proof (Z.div_mod (- m) k ltac:(lia)). pose proof (Z.mod_pos_bound (- m) k Hk). nia.
Qed.

Lemma lua_lt_fi_exact i f : in_i64 i -> lua_lt_fi f i = exact_lt_fi f i.
Proof.
  intros Hi. unfold lua_lt_fi. destruct (l_intfitsf i) eqn:F; [rewrite (fits_rne i F); reflexivity|].
  unfold exact_lt_fi, lua_flttoint, fl_neg. destruct f as [|n|m e]; cbn [cmp_Z_fl]; [reflexivity|destruct n; reflexivity|].
  unfold fl_floor. destruct (0 <=? e) eqn:E.
  - rewrite cmp_gt_iff. set (v := m * 2 ^ e).
    assert (Hv : (m <? 0) = (v <? 0)).
    { unfold v. pose proof (pow2_pos e ltac:(lia)). destruct (m <? 0) eqn:Em; symmetry; nia. }
    rewrite Hv. destruct ((minint <=? v) && (v <=? maxint)) eqn:R; [reflexivity|].
    unfold in_i64, minint, maxint, two63 in *. lia.
  - rewrite cmp_gt_iff. set (k := 2 ^ (- e)). assert (Hk : 0 < k) by (apply pow2_pos; lia).
    set (c := m / k). pose proof (floor_lt_spec m k i Hk) as Hc. fold c in Hc.
    destruct ((minint <=? c) && (c <=? maxint)) eqn:R.
    + destruct (c <? i) eqn:E1; destruct (m <? i * k) eqn:E2; try reflexivity; exfalso; lia.
    + unfold in_i64, minint, maxint, two63 in *.
      assert (Hs : (m < 0 -> c < 0) /\ (0 <= m -> 0 <= c)).
      { unfold c. pose proof (Z.div_mod m k ltac:(lia)). pose proof (Z.mod_pos_bound m k Hk). split; nia. }
      destruct (m <? 0) eqn:Em; destruct (m <? i * k) eqn:E2; try reflexivity; exfalso; lia.
Qed.

Lemma lua_le_fi_exact i f : in_i64 i -> lua_le_fi f i = exact_le_fi f i.
Proof.
  intros Hi. unfold lua_le_fi. destruct (l_intfitsf i) eqn:F; [rewrite (fits_rne i F); reflexivity|].
  unfold exact_le_fi, lua_flttoint, fl_neg. destruct f as [|n|m e]; cbn [cmp_Z_fl]; [reflexivity|destruct n; reflexivity|].
  unfold fl_ceil. destruct (0 <=? e) eqn:E.
  - rewrite cmp_ge_iff. set (v := m * 2 ^ e).
    assert (Hv : (m <? 0) = (v <? 0)).
    { unfold v. pose proof (pow2_pos e ltac:(lia)). destruct (m <? 0) eqn:Em; symmetry; nia. }
    rewrite Hv. destruct ((minint <=? v) && (v <=? maxint)) eqn:R; [reflexivity|].
    unfold in_i64, minint, maxint, two63 in *. lia.
  - rewrite cmp_ge_iff. set (k := 2 ^ (- e)). assert (Hk : 0 < k) by (apply pow2_pos; lia).
    set (c := - (- m / k)). pose proof (ceil_le_spec m k i Hk) as Hc. fold c in Hc.
    destruct ((minint <=? c) && (c <=? maxint)) eqn:R.
    + destruct (c <=? i) eqn:E1; destruct (m <=? i * k) eqn:E2; try reflexivity; exfalso; lia.
    + unfold in_i64, minint, maxint, two63 in *.
      assert (Hs : (m < 0 -> c <= 0) /\ (0 <= m -> 0 <= c)).
      { unfold c. pose proof (Z.div_mod (- m) k ltac:(lia)). pose proof (Z.mod_pos_bound (- m) k Hk). split; nia. }
      destruct (m <? 0) eqn:Em; destruct (m <=? i * k) eqn:E2; try reflexivity; exfalso; lia.
Qed.

(* luaV_equalobj on an integer and a float *)
Lemma lua_eq_if_exact i f : in_i64 i -> lua_eq_if i f = exact_eq_if i f.
Proof.
  intros Hi. unfold lua_eq_if, exact_eq_if.
  destruct f as [|n|m e]; cbn [cmp_Z_fl]; try reflexivity; [destruct n; reflexivity|].
  unfold fl_is_int, fl_floor. unfold in_i64 in Hi. destruct (0 <=? e) eqn:E.
  - set (v := m * 2 ^ e) in *. clearbody v. destruct (i ?= v) eqn:C; cbv iota.
    + apply Z.compare_eq in C. subst i. lia.
    + change (i < v) in C. lia.
    + apply Z.compare_gt_iff in C. lia.
  - assert (0 < 2 ^ (- e)) by (apply pow2_pos; lia).
    destruct (m mod 2 ^ (- e) =? 0) eqn:Em.
    + assert (Hm : m = 2 ^ (- e) * (m / 2 ^ (- e))) by (pose proof (Z.div_mod m (2 ^ (- e))); lia).
      destruct (i * 2 ^ (- e) ?= m) eqn:C; cbv iota.
      * apply Z.compare_eq in C. subst m. rewrite Z.div_mul by lia. lia.
      * change (i * 2 ^ (- e) < m) in C. nia.
      * apply Z.compare_gt_iff in C. nia.
    + destruct (i * 2 ^ (- e) ?= m) eqn:C; cbv iota; try reflexivity.
      apply Z.compare_eq in C. subst m. rewrite Z.mod_mul in Em by lia. discriminate.
Qed.

Lemma lua_mixed_cmp_exact i f : in_i64 i ->
  lua_lt_if i f = exact_lt_if i f /\ lua_le_if i f = exact_le_if i f /\
  lua_lt_fi f i = exact_lt_fi f i /\ lua_le_fi f i = exact_le_fi f i /\ lua_eq_if i f = exact_eq_if i f.
Proof.
  intros. repeat split; [apply lua_lt_if_exact|apply lua_le_if_exact|apply lua_lt_fi_exact|apply lua_le_fi_exact|apply lua_eq_if_exact]; assumption.
Qed.
