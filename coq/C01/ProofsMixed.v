From C01 Require Import Model ProofsArith ProofsMisc.
Local Open Scope Z_scope.
Ltac Zify.zify_post_hook ::= Z.div_mod_to_equations.

(* Lua's int/float comparison (lvm.c LTintfloat, LEintfloat, LTfloatint, LEfloatint) is exact *)
Lemma fits_rne i : l_intfitsf i = true -> rne53 i = i.
Proof. intros H. apply rne53_small, fits_abs, H. Qed.

Lemma ceil_spec m k i : 0 < k -> (i < - ((- m) / k) <-> i * k < m).
Proof.
  intros Hk. pose proof (Z.div_mod (- m) k ltac:(lia)). pose proof (Z.mod_pos_bound (- m) k Hk). nia.
Qed.
Lemma floor_spec m k i : 0 < k -> (i <= m / k <-> i * k <= m).
Proof.
  intros Hk. pose proof (Z.div_mod m k ltac:(lia)). pose proof (Z.mod_pos_bound m k Hk). nia.
Qed.

Lemma cmp_lt_iff a b : (match a ?= b with Lt => true | _ => false end) = (a <? b).
Proof. rewrite Z.ltb_compare. destruct (a ?= b); reflexivity. Qed.
Lemma cmp_le_iff a b : (match a ?= b with Lt | Eq => true | _ => false end) = (a <=? b).
Proof. rewrite Z.leb_compare. destruct (a ?= b); reflexivity. Qed.

Lemma lua_lt_if_exact i f : in_i64 i -> lua_lt_if i f = exact_lt_if i f.
Proof.
  intros Hi. unfold lua_lt_if. destruct (l_intfitsf i) eqn:F; [rewrite (fits_rne i F); reflexivity|].
  unfold exact_lt_if, lua_flttoint, fl_pos. destruct f as [|n|m e]; cbn [cmp_Z_fl]; [reflexivity|destruct n; reflexivity|].
  unfold fl_ceil. destruct (0 <=? e) eqn:E.
  - rewrite cmp_lt_iff. set (v := m * 2 ^ e).
    assert (Hv : (0 <? m) = (0 <? v)).
    { unfold v. pose proof (pow2_pos e ltac:(lia)). destruct (0 <? m) eqn:Em; symmetry; nia. }
    rewrite Hv. destruct ((minint <=? v) && (v <=? maxint)) eqn:R; [reflexivity|].
    unfold in_i64, minint, maxint, two63 in *. lia.
  - rewrite cmp_lt_iff. set (k := 2 ^ (- e)). assert (Hk : 0 < k) by (apply pow2_pos; lia).
    set (c := - (- m / k)). pose proof (ceil_spec m k i Hk) as Hc. fold c in Hc.
    destruct ((minint <=? c) && (c <=? maxint)) eqn:R.
    + destruct (i <? c) eqn:E1; destruct (i * k <? m) eqn:E2; try reflexivity; exfalso; lia.
    + (* the rounded float does not fit: decided by its sign *)
      unfold in_i64, minint, maxint, two63 in *.
      assert (Hs : (0 < m -> 0 < c) /\ (m <= 0 -> c <= 0)).
      { unfold c. pose proof (Z.div_mod (- m) k ltac:(lia)). pose proof (Z.mod_pos_bound (- m) k Hk). split; nia. }
      destruct (0 <? m) eqn:Em; destruct (i * k <? m) eqn:E2; try reflexivity; exfalso; lia.
Qed.

Lemma lua_le_if_exact i f : in_i64 i -> lua_le_if i f = exact_le_if i f.
Proof.
  intros Hi. unfold lua_le_if. destruct (l_intfitsf i) eqn:F; [rewrite (fits_rne i F); reflexivity|].
  unfold exact_le_if, lua_flttoint, fl_pos. destruct f as [|n|m e]; cbn [cmp_Z_fl]; [reflexivity|destruct n; reflexivity|].
  unfold fl_floor. destruct (0 <=? e) eqn:E.
  - rewrite cmp_le_iff. set (v := m * 2 ^ e).
    assert (Hv : (0 <? m) = (0 <? v)).
    { unfold v. pose proof (pow2_pos e ltac:(lia)). destruct (0 <? m) eqn:Em; symmetry; nia. }
    rewrite Hv. destruct ((minint <=? v) && (v <=? maxint)) eqn:R; [reflexivity|].
    unfold in_i64, minint, maxint, two63 in *. lia.
  - rewrite cmp_le_iff. set (k := 2 ^ (- e)). assert (Hk : 0 < k) by (apply pow2_pos; lia).
    set (c := m / k). pose proof (floor_spec m k i Hk) as Hc. fold c in Hc.
    destruct ((minint <=? c) && (c <=? maxint)) eqn:R.
    + destruct (i <=? c) eqn:E1; destruct (i * k <=? m) eqn:E2; try reflexivity; exfalso; lia.
    + unfold in_i64, minint, maxint, two63 in *.
      assert (Hs : (0 < m -> 0 <= c) /\ (m <= 0 -> c <= 0)).
      { unfold c. pose proof (Z.div_mod m k ltac:(lia)). pose proof (Z.mod_pos_bound m k Hk). split; nia. }
      destruct (0 <? m) eqn:Em; destruct (i * k <=? m) eqn:E2; try reflexivity; exfalso; lia.
Qed.
