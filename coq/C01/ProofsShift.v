From C01 Require Import Model ProofsArith ProofsDiv.
Local Open Scope Z_scope.
Ltac Zify.zify_post_hook ::= Z.div_mod_to_equations.

Lemma two64_pow : two64 = 2 ^ 64. Proof. reflexivity. Qed.

Lemma mod_mod64 a : (a mod two64) mod two64 = a mod two64.
Proof. apply Z.mod_mod. unfold two64; lia. Qed.

(* (utype)a << n on uint64_t, returned as int64_t *)
Lemma shl_u64 (cnt : cval) a n : in_i64 a -> 0 <= n < 64 ->
  cwrap (promote (fst cnt)) (snd cnt) = n ->
  ret I64 (c_shl base_mode (c_cast U64 (I64, a)) cnt) = ORet (wrap64 (Z.shiftl a n)).
Proof.
  intros Ha Hn Hc. unfold c_shl, c_cast. cbn [fst snd]. change (promote U64) with U64.
  rewrite Hc. replace ((n <? 0) || (ibits U64 <=? n)) with false by (change (ibits U64) with 64; lia).
  change (isigned U64) with false. cbv iota. rewrite ret_I64. f_equal.
  apply wrap64_eqm. rewrite !cwu64, mod_mod64, mod_mod64, Z.shiftl_mul_pow2 by lia.
  apply Z.mul_mod_idemp_l. unfold two64; lia.
Qed.

Lemma shr_u64 (cnt : cval) a n : in_i64 a -> 0 <= n < 64 ->
  cwrap (promote (fst cnt)) (snd cnt) = n ->
  ret I64 (c_shr (c_cast U64 (I64, a)) cnt) = ORet (wrap64 (Z.shiftr (u64 a) n)).
Proof.
  intros Ha Hn Hc. unfold c_shr, c_cast. cbn [fst snd]. change (promote U64) with U64.
  rewrite Hc. replace ((n <? 0) || (ibits U64 <=? n)) with false by (change (ibits U64) with 64; lia).
  rewrite ret_I64. f_equal. rewrite !cwu64, mod_mod64, Z.shiftr_div_pow2 by lia. reflexivity.
Qed.

Lemma neg_I64 b : in_i64 b -> minint < b -> c_neg base_mode (I64, b) = Some (I64, - b).
Proof.
  intros Hb Hm. unfold c_neg. cbn [fst snd]. change (promote I64) with I64. s64.
  rewrite (wrap64_id b Hb), arith_I64, wrap64_id; [reflexivity|].
  unfold in_i64, minint, maxint, two63 in *. lia.
Qed.

Lemma h_shl_I64 a b : in_i64 a -> in_i64 b -> h_shl base_mode I64 a b = ORet (lshl a b).
Proof.
  intros Ha Hb. unfold h_shl. change (to_signed I64) with I64. change (to_unsigned I64) with U64.
  change (ibits I64) with 64. cbn [Z.opp]. unfold lshl, lshl_pos, lshr_pos.
  destruct ((0 <=? b) && (b <? 64)) eqn:E1.
  - rewrite (shl_u64 _ a b) by (auto; try lia; cbn [fst snd]; change (promote I64) with I64; s64; apply wrap64_id; auto).
    replace (b <? 0) with false by lia. replace (64 <=? b) with false by lia. reflexivity.
  - destruct ((b <? 0) && (-64 <? b)) eqn:E2.
    + rewrite neg_I64 by (auto; unfold minint, two63; lia). unfold obind.
      rewrite (shr_u64 _ a (- b)) by (auto; try lia; cbn [fst snd]; change (promote I64) with I64; s64; apply wrap64_id; unfold in_i64, minint, maxint, two63 in *; lia).
      replace (b <? 0) with true by lia. replace (64 <=? - b) with false by lia. reflexivity.
    + unfold lit. rewrite ret_I64. change (wrap64 0) with 0.
      destruct (b <? 0) eqn:E3.
      * replace (64 <=? - b) with true by lia. reflexivity.
      * replace (64 <=? b) with true by lia. reflexivity.
Qed.

Lemma h_shr_I64 a b : in_i64 a -> in_i64 b -> h_shr base_mode I64 a b = ORet (lshr a b).
Proof.
  intros Ha Hb. unfold h_shr. change (to_signed I64) with I64. change (to_unsigned I64) with U64.
  change (ibits I64) with 64. cbn [Z.opp]. unfold lshr, lshl_pos, lshr_pos.
  destruct ((0 <=? b) && (b <? 64)) eqn:E1.
  - rewrite (shr_u64 _ a b) by (auto; try lia; cbn [fst snd]; change (promote I64) with I64; s64; apply wrap64_id; auto).
    replace (b <? 0) with false by lia. replace (64 <=? b) with false by lia. reflexivity.
  - destruct ((b <? 0) && (-64 <? b)) eqn:E2.
    + rewrite neg_I64 by (auto; unfold minint, two63; lia). unfold obind.
      rewrite (shl_u64 _ a (- b)) by (auto; try lia; cbn [fst snd]; change (promote I64) with I64; s64; apply wrap64_id; unfold in_i64, minint, maxint, two63 in *; lia).
      replace (b <? 0) with true by lia. replace (64 <=? - b) with false by lia. reflexivity.
    + unfold lit. rewrite ret_I64. change (wrap64 0) with 0.
      destruct (b <? 0) eqn:E3.
      * replace (64 <=? - b) with true by lia. reflexivity.
      * replace (64 <=? b) with true by lia. reflexivity.
Qed.

Lemma rt_shl_ok c a b : in_i64 a -> in_i64 b -> rt_shl c a b = ORet (lshl a b).
Proof.
  intros Ha Hb. unfold rt_shl, emit_shl, fast_width. change shl_fast_width_left with true. cbv iota.
  change (ibits I64) with 64. change (isigned I64) with true. cbv iota.
  destruct (c && (0 <=? b) && (b <? 64)) eqn:E; [|apply h_shl_I64; auto].
  unfold op_shl_const. change (to_unsigned I64) with U64.
  rewrite (shl_u64 _ a b) by (auto; try lia; cbn [fst snd lit]; change (promote I32) with I32; unfold cwrap; cbn; lia).
  unfold lshl, lshl_pos. replace (b <? 0) with false by lia. replace (64 <=? b) with false by lia. reflexivity.
Qed.

Lemma rt_shr_ok c a b : in_i64 a -> in_i64 b -> rt_shr c a b = ORet (lshr a b).
Proof.
  intros Ha Hb. unfold rt_shr, emit_shr. change (isigned I64) with true. cbn [negb andb]. apply h_shr_I64; auto.
Qed.
