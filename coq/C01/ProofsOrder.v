From C01 Require Import Model Order.
(* [pol] = the analyzer's sideeffect rules as scraped into Gen.v *)
Notation pol := analyzer_se_policy (only parsing).
Local Open Scope Z_scope.

Definition order_preserved_full : Prop :=
  forall fe e st o, nelua_run pol fe e st o = lua_run fe e st.

(* witnesses.  Functions: 1 = f, assigns variable 0 := 10 directly, returns 100;
   2 = g/print-like, prints, no writes; 3 = second writer (variable 0 := 20, returns 200);
   4 = pure wrapper (no effect); 5 = bump: increments location 0 through a record field and returns its
   new value *)
Definition fe_w : fenv := fun f =>
  match f with
  | 1%nat => mk_fdef true [mk_w true 0 10 false] None 100
  | 2%nat => mk_fdef true [] None 0
  | 3%nat => mk_fdef true [mk_w true 0 20 false] None 200
  | 5%nat => mk_fdef false [mk_w false 0 1 true] (Some 0%nat) 0
  | _ => mk_fdef false [] None 0
  end.
Definition st_w : state := ([1], []).

(* x + f() with x a global: Lua 101, C with the call first 110 *)
Definition e_global : expr := EBin AAdd (EVar VGlobal 0) (ECall 1 []).
Lemma order_refuted_global : exists o, snd (nelua_run pol fe_w e_global st_w o) <> snd (lua_run fe_w e_global st_w).
Proof. exists [1%nat]. vm_compute. discriminate. Qed.

(* x + f() with x a chunk-level local: Lua reads x late (110), C with x first 101 *)
Definition e_local : expr := EBin AAdd (EVar VLocal 0) (ECall 1 []).
Lemma order_refuted_local : exists o, snd (nelua_run pol fe_w e_local st_w o) <> snd (lua_run fe_w e_local st_w).
Proof. exists [0%nat]. vm_compute. discriminate. Qed.

(* g(x, f()): one side-effecting argument => plain C call, arguments unsequenced *)
Definition e_args : expr := ECall 2 [EVar VGlobal 0; ECall 1 []].
Lemma order_refuted_args : exists o, nelua_run pol fe_w e_args st_w o <> lua_run fe_w e_args st_w.
Proof. exists [1%nat]. vm_compute. discriminate. Qed.

(* g(x, f(), h()): two side-effecting arguments are hoisted into temporaries, the plain argument x
   is read after them: wrong for every evaluation order the C compiler may choose *)
Definition e_args3 : expr := ECall 2 [EVar VGlobal 0; ECall 1 []; ECall 3 []].
Lemma order_refuted_args3 : forall o, nelua_run pol fe_w e_args3 st_w o <> lua_run fe_w e_args3 st_w.
Proof.
  intros o. unfold nelua_run. 
  destruct o as [|c o]; vm_compute; discriminate.
Qed.

(* id(f()) + h(): before /repo 7b4cb3f the call of a function without side effects hid the side effect of its
   argument and the two operands were unsequenced; now both are marked and sequenced *)
Definition e_wrapper : expr := EBin AAdd (ECall 4 [ECall 1 []]) (ECall 3 []).

(* show(bump(), bump()): bump writes through a record field.  Before /repo 9e49985 the analyzer did not
   mark it and the two calls were emitted unsequenced; now both arguments are hoisted into temporaries
   and every C evaluation order gives Lua's result *)
Definition e_unflagged : expr := ECall 2 [ECall 5%nat []; ECall 5%nat []].
Example bump_is_flagged : f_se pol (fe_w 5%nat) = true. Proof. reflexivity. Qed.

Lemma order_refuted : ~ order_preserved_full.
Proof.
  intros H. destruct order_refuted_args as (o & Ho). apply Ho, H.
Qed.

(* ---------- the two analyzer facts, and what each of them is needed for (every policy) ---------- *)
Lemma se_policy_facts : p_args_propagate pol = true /\ p_indirect_marks pol = true.
Proof. split; reflexivity. Qed.

(* show(bump(), bump()) agrees with Lua for every C evaluation order exactly when stores through a field mark
   the function (/repo 9e49985) *)
Lemma indirect_marks_iff p : p_indirect_marks p = true <-> (forall o, nelua_run p fe_w e_unflagged st_w o = lua_run fe_w e_unflagged st_w).
Proof.
  destruct p as [a b]. split.
  - cbn. intros ->. intros o. destruct a; destruct o as [|c o]; vm_compute; reflexivity.
  - intros H. destruct b; [reflexivity|]. specialize (H [1%nat]). destruct a; vm_compute in H; discriminate H.
Qed.
(* id(f()) + h() (f, h writing the same global) agrees with Lua for every C evaluation order exactly when a call
   takes the attribute of its arguments (/repo 7b4cb3f) *)
Lemma args_propagate_iff p : p_args_propagate p = true <-> (forall o, nelua_run p fe_w e_wrapper st_w o = lua_run fe_w e_wrapper st_w).
Proof.
  destruct p as [a b]. split.
  - cbn. intros ->. intros o. destruct b; destruct o as [|c o]; vm_compute; reflexivity.
  - intros H. destruct a; [reflexivity|]. specialize (H [1%nat]). destruct b; vm_compute in H; discriminate H.
Qed.
