From C01 Require Import Model ProofsArith.
Local Open Scope Z_scope.

Lemma uac_I64_I32 : uac I64 I32 = I64. Proof. reflexivity. Qed.
Lemma uac_I32_I32 : uac I32 I32 = I32. Proof. reflexivity. Qed.
Lemma uac_U32_U64 : uac U32 U64 = U64. Proof. reflexivity. Qed.

Lemma in_i64_small k : -2147483648 <= k <= 2147483647 -> in_i64 k.
Proof. unfold in_i64, minint, maxint, two63. lia. Qed.

Lemma c_cmp_I64_lit f a k : in_i64 a -> -2147483648 <= k <= 2147483647 ->
  c_cmp f (I64, a) (lit k) = Some (I32, if f a k then 1 else 0).
Proof.
  intros Ha Hk. unfold c_cmp, lit. cbn [fst snd]. rewrite uac_I64_I32. s64.
  rewrite (wrap64_id a Ha), (wrap64_id k (in_i64_small k Hk)). reflexivity.
Qed.
Lemma c_truth_b (c : bool) : c_truth (I32, if c then 1 else 0) = c.
Proof. destruct c; reflexivity. Qed.

Lemma quot_range a b : in_i64 a -> in_i64 b -> b <> 0 -> ~ (a = minint /\ b = -1) -> in_i64 (Z.quot a b).
Proof.
  unfold in_i64, minint, maxint, two63. intros Ha Hb Hz Hm.
  Ltac Zify.zify_post_hook ::= Z.to_euclidean_division_equations.
  nia.
Qed.

Lemma idiv_core a b q : b <> 0 -> q = Z.quot a b ->
  (if q * b =? a then q else q - Z.lxor (if a <? 0 then 1 else 0) (if b <? 0 then 1 else 0)) = a / b.
Proof.
  intros Hb ->.
  Ltac Zify.zify_post_hook ::= Z.to_euclidean_division_equations.
  destruct (Z.quot a b * b =? a) eqn:E; destruct (a <? 0) eqn:E1; destruct (b <? 0) eqn:E2; cbn; nia.
Qed.

Lemma h_idiv_I64 checked a b : in_i64 a -> in_i64 b -> b <> 0 ->
  h_idiv base_mode I64 checked a b = ORet (wrap64 (a / b)).
Proof.
  intros Ha Hb Hz. unfold h_idiv, h_idiv_rest. unfold c_eq, c_lt.
  rewrite (c_cmp_I64_lit Z.eqb b (-1) Hb) by lia. rewrite c_truth_b.
  destruct (b =? -1) eqn:E1.
  - (* return 0U - (uint64_t)a *)
    assert (b = -1) as -> by lia.
    unfold c_sub, c_arith, litU, c_cast. change (to_unsigned I64) with U64. cbn [fst snd]. rewrite uac_U32_U64.
    unfold arith_result. change (isigned U64) with false. cbv iota. rewrite ret_I64.
    f_equal. apply wrap64_eqm. rewrite !cwu64. unfold two64. 
    Ltac Zify.zify_post_hook ::= Z.div_mod_to_equations.
    lia.
  - replace (checked && (b =? 0)) with false by (destruct checked; cbn; lia).
    unfold c_div, c_divlike. cbn [fst snd]. rewrite uac_I64. s64.
    rewrite (wrap64_id a Ha), (wrap64_id b Hb).
    replace (b =? 0) with false by lia.
    replace (isigned I64 && (a =? imin I64) && (b =? -1)) with false by (rewrite E1, andb_false_r; reflexivity).
    cbn [snd]. change (to_signed I64) with I64. s64.
    assert (Hq : in_i64 (Z.quot a b)) by (apply quot_range; auto; lia).
    rewrite (wrap64_id _ Hq).
    unfold c_mul, c_arith. cbn [fst snd]. rewrite uac_I64. s64.
    rewrite (wrap64_id _ Hq), (wrap64_id b Hb), arith_I64. unfold obind at 1.
    assert (Hqb : in_i64 (Z.quot a b * b)).
    { clear E1. unfold in_i64, minint, maxint, two63 in *.
      Ltac Zify.zify_post_hook ::= Z.to_euclidean_division_equations. nia. }
    rewrite (wrap64_id _ Hqb).
    unfold c_cmp at 1. cbn [fst snd]. rewrite uac_I64. s64.
    rewrite (wrap64_id _ Hqb), (wrap64_id a Ha). unfold obind at 1. rewrite c_truth_b.
    pose proof (idiv_core a b _ Hz eq_refl) as Hc.
    destruct (Z.quot a b * b =? a) eqn:E2.
    + rewrite ret_I64, Hc. reflexivity.
    + rewrite (c_cmp_I64_lit Z.ltb a 0 Ha), (c_cmp_I64_lit Z.ltb b 0 Hb) by lia.
      unfold obind. unfold c_bxor, c_bitop. cbn [fst snd]. rewrite uac_I32_I32.
      assert (Hx : forall x y : bool, cwrap I32 (Z.lxor (cwrap I32 (if x then 1 else 0)) (cwrap I32 (if y then 1 else 0))) = Z.lxor (if x then 1 else 0) (if y then 1 else 0)) by (intros [] []; reflexivity).
      rewrite Hx. unfold c_sub, c_arith. cbn [fst snd]. rewrite uac_I64_I32. s64.
      rewrite (wrap64_id _ Hq).
      rewrite (wrap64_id (Z.lxor _ _)) by (destruct (a <? 0), (b <? 0); cbn; apply in_i64_small; lia).
      rewrite arith_I64, ret_I64, wrap64_idem, Hc. reflexivity.
Qed.

Lemma lxor_neg_iff a b : (Z.lxor a b <? 0) = xorb (a <? 0) (b <? 0).
Proof.
  pose proof (Z.lxor_nonneg a b) as H.
  destruct (Z.lxor a b <? 0) eqn:E; destruct (a <? 0) eqn:E1; destruct (b <? 0) eqn:E2; cbn; try reflexivity; exfalso; lia.
Qed.

Lemma imod_core a b : b <> 0 ->
  (if negb (Z.rem a b =? 0) && xorb (a <? 0) (b <? 0) then Z.rem a b + b else Z.rem a b) = a mod b.
Proof.
  intros Hb.
  pose proof (Z.quot_rem' a b) as H1. pose proof (Z.div_mod a b Hb) as H2.
  pose proof (Z.rem_bound_abs a b Hb) as H3.
  assert (H4 : 0 <= a -> 0 <= Z.rem a b) by (intros; apply Z.rem_nonneg; auto).
  assert (H5 : a <= 0 -> Z.rem a b <= 0) by (intros; apply Z.rem_nonpos; auto).
  assert (H6 : (0 < b -> 0 <= a mod b < b) /\ (b < 0 -> b < a mod b <= 0)).
  { split; intros; [apply Z.mod_pos_bound | apply Z.mod_neg_bound]; lia. }
  set (r := Z.rem a b) in *. set (m := a mod b) in *. set (q1 := Z.quot a b) in *. set (q2 := a / b) in *.
  assert (Hk : m - r = b * (q1 - q2)) by lia.
  assert (Hk2 : -1 <= q1 - q2 <= 1) by nia.
  assert (K : q1 - q2 = -1 \/ q1 - q2 = 0 \/ q1 - q2 = 1) by lia.
  clearbody r m q1 q2. clear H1 H2 Hk2.
  destruct (r =? 0) eqn:E; destruct (a <? 0) eqn:E1; destruct (b <? 0) eqn:E2; cbn;
  destruct K as [K|[K|K]]; rewrite K in Hk; lia.
Qed.

Lemma rem_range a b : in_i64 a -> in_i64 b -> b <> 0 -> in_i64 (Z.rem a b).
Proof.
  unfold in_i64, minint, maxint, two63. intros.
  Ltac Zify.zify_post_hook ::= Z.to_euclidean_division_equations. nia.
Qed.
Lemma mod_range a b : in_i64 b -> b <> 0 -> in_i64 (a mod b).
Proof.
  unfold in_i64, minint, maxint, two63. intros.
  Ltac Zify.zify_post_hook ::= Z.to_euclidean_division_equations. nia.
Qed.

Lemma h_imod_I64 checked a b : in_i64 a -> in_i64 b -> b <> 0 ->
  h_imod base_mode I64 checked a b = ORet (a mod b).
Proof.
  intros Ha Hb Hz. unfold h_imod, h_imod_rest. unfold c_eq, c_lt, c_ne.
  rewrite (c_cmp_I64_lit Z.eqb b (-1) Hb) by lia. rewrite c_truth_b.
  destruct (b =? -1) eqn:E1.
  - assert (b = -1) as -> by lia. unfold lit. rewrite ret_I64. f_equal.
    Ltac Zify.zify_post_hook ::= Z.div_mod_to_equations. change (wrap64 0) with 0. lia.
  - replace (checked && (b =? 0)) with false by (destruct checked; cbn; lia).
    unfold c_rem, c_divlike. cbn [fst snd]. rewrite uac_I64. s64.
    rewrite (wrap64_id a Ha), (wrap64_id b Hb).
    replace (b =? 0) with false by lia.
    replace (isigned I64 && (a =? imin I64) && (b =? -1)) with false by (rewrite E1, andb_false_r; reflexivity).
    cbn [snd]. s64.
    assert (Hr : in_i64 (Z.rem a b)) by (apply rem_range; auto).
    rewrite (wrap64_id _ Hr).
    rewrite (c_cmp_I64_lit _ _ 0 Hr) by lia. unfold obind at 1. rewrite c_truth_b.
    pose proof (imod_core a b Hz) as Hc.
    pose proof (mod_range a b Hb Hz) as Hm.
    destruct (Z.rem a b =? 0) eqn:E2; cbn [negb andb] in *.
    + rewrite ret_I64, Hc, wrap64_id; auto.
    + unfold c_bxor, c_bitop. cbn [fst snd]. rewrite uac_I64. s64.
      rewrite (wrap64_id a Ha), (wrap64_id b Hb).
      assert (Hx : in_i64 (Z.lxor a b)) by (apply in_i64_lxor; auto).
      rewrite (wrap64_id _ Hx). unfold obind at 1.
      rewrite (c_cmp_I64_lit _ _ 0 Hx) by lia. unfold obind at 1. rewrite c_truth_b.
      rewrite lxor_neg_iff.
      destruct (xorb (a <? 0) (b <? 0)).
      * unfold c_add, c_arith. cbn [fst snd]. rewrite uac_I64. s64.
        rewrite (wrap64_id _ Hr), (wrap64_id b Hb), arith_I64, ret_I64, wrap64_idem, Hc, wrap64_id; auto.
      * rewrite ret_I64, Hc, wrap64_id; auto.
Qed.
