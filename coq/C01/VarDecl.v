(* COPY of coq/C09/VarDecl.v (kept in sync by checks/C01.py:gen) *)
(* cgenerator.visitors.VarDecl as an ordered list of run-time effects (shared by C09 and C01; the
   source of truth is coq/C09/VarDecl.v, coq/C01/VarDecl.v is a copy made by checks/C01.py:sync_shared).

   `local v1, .., vn = e1, .., em` is emitted into TWO buffers: statements added to `emitter` come
   out first, the statements collected in its fork `defemitter` are appended at the end
   (`emitter:add(defemitter)`).  For every (variable, value) pair of izipargnodes, in order:
     - first result of a trailing multiple-return call:  `T _asgnret = call;`      -> emitter until /repo f54f9c0, now defemitter
     - variable kept (pragmas.nodce or is_used):           `T v = value;`            -> defemitter
     - variable dropped by dead code elimination, value evaluated at run time:  `value;` -> emitter until /repo d685d37, now defemitter
   Which buffer the first and the third kind go to is a parameter (scraped into Gen.v), so the
   theorems are about every placement and name the ones that keep the source order.
   No world assumption: plain lists. *)
From Coq Require Import List Bool Arith Permutation Lia.
Import ListNotations.

Record vd_policy := mk_vdp {
  p_dead_in_def : bool;       (* the initializer of a dropped variable is added to defemitter *)
  p_asgnret_in_def : bool }.  (* the `_asgnret = call` statement is added to defemitter *)

(* where the value of one variable comes from; [e] identifies the effect of evaluating it *)
Inductive vsrc :=
  | VNone                          (* no value (zero initialised) *)
  | VPlain (e : nat) (rt : bool)   (* its own initializer; rt = evaluated at run time (not a compile-time constant) *)
  | VRet (k : nat) (e : nat).      (* k-th result (k >= 1) of the trailing multiple-return call e *)

Record slot := mk_slot { s_used : bool; s_src : vsrc }.

(* the source order: what Lua does, and what a reader expects *)
Definition slot_src_effects (s : slot) : list nat :=
  match s_src s with
  | VPlain e true => [e]
  | VRet 1 e => [e]
  | _ => []
  end.
Definition src_effects (l : list slot) : list nat := flat_map slot_src_effects l.

(* does the effect of the slot go to defemitter? *)
Definition slot_in_def (pol : vd_policy) (nodce : bool) (s : slot) : bool :=
  match s_src s with
  | VPlain _ _ => nodce || s_used s || p_dead_in_def pol
  | VRet _ _ => p_asgnret_in_def pol
  | VNone => true
  end.
Definition slot_E pol nodce s := if slot_in_def pol nodce s then [] else slot_src_effects s.
Definition slot_D pol nodce s := if slot_in_def pol nodce s then slot_src_effects s else [].

(* the order in which the emitted C performs the effects of the declaration *)
Definition vd_effects (pol : vd_policy) (nodce : bool) (l : list slot) : list nat :=
  flat_map (slot_E pol nodce) l ++ flat_map (slot_D pol nodce) l.

(* the shape izipargnodes produces: plain values, then the results 1, 2, .. of one trailing call *)
Fixpoint rets_from (k e : nat) (l : list slot) : bool :=
  match l with
  | [] => true
  | s :: r => match s_src s with VRet k' e' => Nat.eqb k' k && Nat.eqb e' e && rets_from (S k) e r | _ => false end
  end.
Fixpoint vd_wf (l : list slot) : bool :=
  match l with
  | [] => true
  | s :: r => match s_src s with
              | VRet k e => Nat.eqb k 1 && rets_from 2 e r
              | VNone => forallb (fun s' => match s_src s' with VNone => true | _ => false end) r
              | VPlain _ _ => vd_wf r
              end
  end.

(* the full-strength statements *)
(* C09: dead code elimination does not change the order of the effects *)
Definition vardecl_order_dce_full (pol : vd_policy) : Prop :=
  forall l, vd_wf l = true -> vd_effects pol false l = vd_effects pol true l.
(* C01: the effects happen in source order *)
Definition vardecl_order_src_full (pol : vd_policy) : Prop :=
  forall nodce l, vd_wf l = true -> vd_effects pol nodce l = src_effects l.

(* witnesses (well-formed declarations) *)
(* local a, b = f(), g()   with b never read *)
Definition wit_dead_later : list slot := [mk_slot true (VPlain 1 true); mk_slot false (VPlain 2 true)].
(* local a, b, c = f(), two()   all read *)
Definition wit_asgnret : list slot := [mk_slot true (VPlain 1 true); mk_slot true (VRet 1 2); mk_slot true (VRet 2 2)].

(* ---------------- lemmas for every placement ---------------- *)

Lemma slot_split : forall pol nodce s, slot_E pol nodce s ++ slot_D pol nodce s = slot_src_effects s.
Proof. intros. unfold slot_E, slot_D. destruct (slot_in_def pol nodce s); [reflexivity | apply app_nil_r]. Qed.

Lemma perm_flat_map_split : forall (f g h : slot -> list nat) l,
  (forall s, f s ++ g s = h s) -> Permutation (flat_map f l ++ flat_map g l) (flat_map h l).
Proof.
  intros f g h l H. induction l as [|s r IH]; simpl; [constructor|].
  rewrite <- H, <- !app_assoc. apply Permutation_app_head.
  rewrite app_assoc. eapply Permutation_trans; [apply Permutation_app_tail, Permutation_app_comm|].
  rewrite <- app_assoc. apply Permutation_app_head. exact IH.
Qed.

(* nothing is lost or duplicated, whatever the placement and the build mode: only the order can change *)
Lemma vd_effects_perm : forall pol nodce l, Permutation (vd_effects pol nodce l) (src_effects l).
Proof. intros. apply perm_flat_map_split. apply slot_split. Qed.

Lemma perm_short_eq : forall (a b : list nat), Permutation a b -> (length b <= 1)%nat -> a = b.
Proof.
  intros a b P L. destruct b as [|x [|y b]]; simpl in L; try lia.
  - apply Permutation_sym, Permutation_nil in P. exact P.
  - apply Permutation_sym, Permutation_length_1_inv in P. exact P.
Qed.

(* a declaration with at most one effectful value is emitted in source order *)
Lemma vd_effects_single : forall pol nodce l, (length (src_effects l) <= 1)%nat -> vd_effects pol nodce l = src_effects l.
Proof. intros. apply perm_short_eq; [apply vd_effects_perm | assumption]. Qed.

Lemma flat_map_nil : forall (f : slot -> list nat) l, (forall s, f s = []) -> flat_map f l = [].
Proof. intros f l H. induction l; simpl; [reflexivity|]. rewrite H, IHl. reflexivity. Qed.

(* dropped initializers in defemitter: the build mode no longer matters *)
Lemma vd_dce_indep : forall pol l, p_dead_in_def pol = true -> vd_effects pol false l = vd_effects pol true l.
Proof.
  intros pol l H. unfold vd_effects.
  assert (Q : forall s, slot_in_def pol false s = slot_in_def pol true s).
  { intro s. unfold slot_in_def. destruct (s_src s); try reflexivity. rewrite H. simpl. rewrite orb_true_r. reflexivity. }
  f_equal; apply flat_map_ext; intro s; unfold slot_E, slot_D; rewrite Q; reflexivity.
Qed.

(* both kinds in defemitter: source order *)
Lemma vd_src_order : forall pol nodce l, p_dead_in_def pol = true -> p_asgnret_in_def pol = true ->
  vd_effects pol nodce l = src_effects l.
Proof.
  intros pol nodce l H1 H2. unfold vd_effects, src_effects.
  assert (Q : forall s, slot_in_def pol nodce s = true).
  { intro s. unfold slot_in_def. destruct (s_src s); try reflexivity; [rewrite H1; apply orb_true_r | exact H2]. }
  rewrite flat_map_nil by (intro s; unfold slot_E; rewrite Q; reflexivity). simpl.
  apply flat_map_ext. intro s. unfold slot_D. rewrite Q. reflexivity.
Qed.

(* and the converses, by the two witnesses *)
Lemma vd_dce_iff : forall pol, vardecl_order_dce_full pol <-> p_dead_in_def pol = true.
Proof.
  intro pol. split.
  - intro F. specialize (F wit_dead_later eq_refl). destruct pol as [[|] q]; [reflexivity|]. vm_compute in F. discriminate F.
  - intros H l _. apply vd_dce_indep, H.
Qed.

Lemma vd_src_iff : forall pol, vardecl_order_src_full pol <-> (p_dead_in_def pol = true /\ p_asgnret_in_def pol = true).
Proof.
  intro pol. split.
  - intro F. split.
    + specialize (F false wit_dead_later eq_refl). destruct pol as [[|] q]; [reflexivity|]. vm_compute in F. discriminate F.
    + specialize (F false wit_asgnret eq_refl). destruct pol as [p [|]]; [reflexivity|]. destruct p; vm_compute in F; discriminate F.
  - intros [H1 H2] nodce l _. apply vd_src_order; assumption.
Qed.
