From C01 Require Import Model ProofsArith ProofsDiv ProofsShift ProofsMisc.
Local Open Scope Z_scope.
Ltac Zify.zify_post_hook ::= Z.div_mod_to_equations.

Ltac r64 := unfold in_i64, minint, maxint, two63, two64 in *.

Lemma forprep_pos a b s : in_i64 a -> in_i64 b -> in_i64 s -> 0 < s -> a <= b ->
  lua_forprep a b s = FPCount ((b - a) / s).
Proof.
  intros Ha Hb Hs Hp Hab. unfold lua_forprep.
  replace (s =? 0) with false by lia. replace (0 <? s) with true by lia. replace (b <? a) with false by lia.
  assert (E : (u64 b - u64 a) mod two64 = b - a) by (unfold u64; r64; lia).
  rewrite E. destruct (s =? 1) eqn:E1.
  - assert (s = 1) by lia. subst. rewrite Z.div_1_r. reflexivity.
  - replace (u64 s) with s by (unfold u64; r64; lia). reflexivity.
Qed.

Lemma forprep_neg a b s : in_i64 a -> in_i64 b -> in_i64 s -> s < 0 -> b <= a ->
  lua_forprep a b s = FPCount ((a - b) / (- s)).
Proof.
  intros Ha Hb Hs Hp Hab. unfold lua_forprep.
  replace (s =? 0) with false by lia. replace (0 <? s) with false by lia. replace (a <? b) with false by lia.
  assert (E : (u64 a - u64 b) mod two64 = a - b) by (unfold u64; r64; lia).
  rewrite E.
  assert (E2 : (u64 (lneg (ladd s 1)) + 1) mod two64 = - s).
  { unfold lneg, ladd. rewrite (wrap64_id (s + 1)) by (r64; lia). rewrite wrap64_id by (r64; lia).
    unfold u64. r64. lia. }
  rewrite E2. reflexivity.
Qed.

Lemma loop_step fuel i e s : in_i64 i -> in_i64 s ->
  nelua_loop (S fuel) i e s =
  if (if 0 <=? s then i <=? e else e <=? i) then lr_cons i (nelua_loop fuel (ladd i s) e s) else LDone [].
Proof.
  intros Hi Hs. cbn [nelua_loop]. rewrite op_add_I64 by assumption. reflexivity.
Qed.

Lemma loop_pos b s : in_i64 b -> in_i64 s -> 0 < s -> b + s <= maxint ->
  forall n i, in_i64 i -> i <= b -> (b - i) / s = Z.of_nat n ->
  nelua_loop (S (S n)) i b s = LDone (lua_iter (S n) i s).
Proof.
  intros Hb Hs Hp Hlim. induction n as [|n IH]; intros i Hi Hle Hn.
  - rewrite loop_step by assumption. replace (0 <=? s) with true by lia. replace (i <=? b) with true by lia.
    assert (Hnext : ladd i s = i + s) by (apply ladd_exact; r64; lia).
    rewrite loop_step by (try assumption; rewrite Hnext; r64; lia).
    replace (0 <=? s) with true by lia. rewrite Hnext.
    replace (i + s <=? b) with false by (change (Z.of_nat 0) with 0 in Hn; nia).
    reflexivity.
  - rewrite loop_step by assumption. replace (0 <=? s) with true by lia. replace (i <=? b) with true by lia.
    assert (Hnext : ladd i s = i + s) by (apply ladd_exact; r64; lia).
    rewrite Nat2Z.inj_succ in Hn.
    assert (i + s <= b) by nia.
    rewrite (IH (ladd i s)); [reflexivity|rewrite Hnext; r64; lia|rewrite Hnext; lia|].
    rewrite Hnext. replace (b - (i + s)) with ((b - i) + (-1) * s) by lia. rewrite Z.div_add by lia. lia.
Qed.

Lemma loop_neg b s : in_i64 b -> in_i64 s -> s < 0 -> minint <= b + s ->
  forall n i, in_i64 i -> b <= i -> (i - b) / (- s) = Z.of_nat n ->
  nelua_loop (S (S n)) i b s = LDone (lua_iter (S n) i s).
Proof.
  intros Hb Hs Hp Hlim. induction n as [|n IH]; intros i Hi Hle Hn.
  - rewrite loop_step by assumption. replace (0 <=? s) with false by lia. replace (b <=? i) with true by lia.
    assert (Hnext : ladd i s = i + s) by (apply ladd_exact; r64; lia).
    rewrite loop_step by (try assumption; rewrite Hnext; r64; lia).
    replace (0 <=? s) with false by lia. rewrite Hnext.
    replace (b <=? i + s) with false by (change (Z.of_nat 0) with 0 in Hn; nia).
    reflexivity.
  - rewrite loop_step by assumption. replace (0 <=? s) with false by lia. replace (b <=? i) with true by lia.
    assert (Hnext : ladd i s = i + s) by (apply ladd_exact; r64; lia).
    rewrite Nat2Z.inj_succ in Hn.
    assert (b <= i + s) by nia.
    rewrite (IH (ladd i s)); [reflexivity|rewrite Hnext; r64; lia|rewrite Hnext; lia|].
    rewrite Hnext. replace (i + s - b) with ((i - b) + (-1) * (- s)) by lia. rewrite Z.div_add by lia. lia.
Qed.

(* numeric for: away from the type limits the emitted loop yields exactly Lua's iteration values *)
Lemma fornum_partial a b s : in_i64 a -> in_i64 b -> in_i64 s -> s <> 0 ->
  (0 < s -> b + s <= maxint) -> (s < 0 -> minint <= b + s) ->
  exists fuel l, nelua_loop fuel a b s = LDone l /\ lua_for a b s = Some l.
Proof.
  intros Ha Hb Hs Hz Hpos Hneg. unfold lua_for.
  destruct (Z.ltb_spec 0 s) as [Hp|Hn'].
  - destruct (Z.leb_spec a b) as [Hab|Hab].
    + rewrite forprep_pos by assumption.
      assert (Hc : 0 <= (b - a) / s) by (apply Z.div_pos; lia).
      exists (S (S (Z.to_nat ((b - a) / s)))), (lua_iter (S (Z.to_nat ((b - a) / s))) a s).
      split; [|reflexivity]. apply loop_pos; auto. rewrite Z2Nat.id; auto.
    + exists 1%nat, []. split.
      * cbn [nelua_loop]. replace (0 <=? s) with true by lia. replace (a <=? b) with false by lia. reflexivity.
      * unfold lua_forprep. replace (s =? 0) with false by lia. replace (0 <? s) with true by lia.
        replace (b <? a) with true by lia. reflexivity.
  - assert (s < 0) by lia.
    destruct (Z.leb_spec b a) as [Hab|Hab].
    + rewrite forprep_neg by assumption.
      assert (Hc : 0 <= (a - b) / (- s)) by (apply Z.div_pos; lia).
      exists (S (S (Z.to_nat ((a - b) / (- s))))), (lua_iter (S (Z.to_nat ((a - b) / (- s)))) a s).
      split; [|reflexivity]. apply loop_neg; auto. rewrite Z2Nat.id; auto.
    + exists 1%nat, []. split.
      * cbn [nelua_loop]. replace (0 <=? s) with false by lia. replace (b <=? a) with false by lia. reflexivity.
      * unfold lua_forprep. replace (s =? 0) with false by lia. replace (0 <? s) with false by lia.
        replace (a <? b) with true by lia. reflexivity.
Qed.
